package route

import (
	"bufio"
	"context"
	"encoding/json"
	"fmt"
	"github.com/gobwas/ws"
	"google.golang.org/grpc"
	"google.golang.org/protobuf/reflect/protoregistry"
	"io"
	"math/rand"
	"net"
	"net/http"
	"sort"
	"strings"
	"time"
	"verif/internal/backend"

	"github.com/gobwas/ws/wsutil"
	"google.golang.org/genproto/googleapis/api/annotations"
	"google.golang.org/genproto/googleapis/api/serviceconfig"
	healthpb "google.golang.org/grpc/health/grpc_health_v1"
	"google.golang.org/protobuf/proto"
	"google.golang.org/protobuf/reflect/protoreflect"
	"google.golang.org/protobuf/types/known/apipb"
	lhealth "larking.io/health"
	"larking.io/larking"

	"verif/internal/mon"
	"verif/internal/tmplref"
	"verif/internal/vschema"
	"verif/internal/wire"
)

type scMethod struct{ Pkg, Svc, Name string }

func (m scMethod) FQN() string  { return m.Pkg + "." + m.Svc + "." + m.Name }
func (m scMethod) Full() string { return "/" + m.Pkg + "." + m.Svc + "/" + m.Name }

// universe: sibling names sharing a prefix (Get/GetBook, S/S2, a.b/a.bc),
// nested and unrelated packages.
var universe = []scMethod{
	{"a.b", "S", "Get"}, {"a.b", "S", "GetBook"}, {"a.b", "S2", "List"},
	{"a.bc", "S", "Get"}, {"x", "S", "Get"},
}

// CfgRule is one service-config rule.
type CfgRule struct {
	Selector string   `json:"selector"`
	Rule     RuleSpec `json:"rule"`
	// Adds are the rule's additional_bindings: they bind to the same
	// methods as the rule itself.
	Adds []RuleSpec `json:"additional_bindings,omitempty"`
}

func (cr CfgRule) all() []RuleSpec { return append([]RuleSpec{cr.Rule}, cr.Adds...) }

// CfgCase is a replayable C19 configuration.
type CfgCase struct {
	Rules []CfgRule `json:"rules"`
	// Own, when set, is a google.api.http annotation method OwnMethod carries
	// in its proto file on the service-config side. It lands on the route of
	// one of the configuration's rules (same verb, same pattern, other field
	// names / body): the configured rule must still behave as written.
	Own       *RuleSpec `json:"own_annotation,omitempty"`
	OwnMethod int       `json:"own_method,omitempty"`
	// Via: how the services reach the mux on the service-config side (see
	// buildSCVia); the annotation side is always registered locally.
	Via string `json:"via,omitempty"`
	// Rest: what the configuration holds besides its HTTP rules (see
	// decorate); none of it has a say in which rule binds where.
	Rest string `json:"rest_of_config,omitempty"`
}

// modelBinds is the reference: which methods a selector covers.
func modelBinds(sel string) []int {
	var out []int
	for i, m := range universe {
		f := m.FQN()
		switch {
		case sel == f:
			out = append(out, i)
		case sel == "*":
			out = append(out, i)
		case strings.HasSuffix(sel, ".*") && strings.HasPrefix(f, strings.TrimSuffix(sel, "*")):
			out = append(out, i)
		}
	}
	return out
}

func selectorPool() []string {
	set := map[string]bool{"*": true, "zz.S.Get": true, "zz.*": true, "a.b.S.Nope": true, "a.b.S3.*": true, "a.b.S.Ge": true, "a.b.S.GetBoo": true, "b.*": true, "S.Get": true, "x.S.Get.Get": true}
	for _, m := range universe {
		parts := strings.Split(m.FQN(), ".")
		for i := 1; i <= len(parts); i++ {
			p := strings.Join(parts[:i], ".")
			set[p] = true
			set[p+".*"] = true
		}
	}
	var out []string
	for s := range set {
		out = append(out, s)
	}
	sort.Strings(out)
	return out
}

type scBuilt struct {
	mux   *larking.Mux
	rec   *Built // recorder only
	err   error
	panic *mon.PanicInfo
	bes   []*backend.Backend
}

func (b *scBuilt) close() {
	for _, be := range b.bes {
		be.Close()
	}
}

// how the universe reaches the mux on the service-config side
var c19Vias = []string{"", "conn", "conn-twice-drop-first", "conn-twice-drop-second", "conn-refresh", "conn+unknown-to-gateway", "conn-twice-drop-first+unknown-to-gateway"}

var c19seq int

// buildSC registers the universe on a mux. perMethod lists the annotation
// rules of each method (mux A); cfg are service-config rules (mux B).
func buildSC(perMethod map[int][]RuleSpec, cfg []CfgRule) (*scBuilt, error) {
	return buildSCVia(perMethod, cfg, "")
}

// buildSCVia: via "" registers the services locally; "conn" serves them from
// a real back-end registered with RegisterConn (descriptors through
// reflection); "conn-twice-drop-first|second" registers two back-ends for
// them and drops one again; "conn-refresh" registers the same connection
// twice.
// decorate fills the parts of a service configuration that are not HTTP
// rules, as real service.yaml files do.
func decorate(sc *serviceconfig.Service, rest string, own ...string) {
	switch rest {
	case "":
		return
	case "lists-other-apis":
		sc.Apis = []*apipb.Api{{Name: "some.other.Interface"}, {Name: "grpc.reflection.v1.ServerReflection"}}
	case "lists-first-own-api":
		if len(own) > 0 {
			sc.Apis = []*apipb.Api{{Name: own[0]}}
		}
	case "lists-all-own-apis":
		for _, o := range own {
			sc.Apis = append(sc.Apis, &apipb.Api{Name: o})
		}
	}
	sc.Name = "verif.example.com"
	sc.Title = "Verif API"
	sc.Documentation = &serviceconfig.Documentation{Summary: "nothing that concerns routing"}
	sc.Usage = &serviceconfig.Usage{Rules: []*serviceconfig.UsageRule{{Selector: "*", AllowUnregisteredCalls: true}}}
}

var c19Rests = []string{"lists-other-apis", "lists-first-own-api", "lists-all-own-apis"}

func buildSCVia(perMethod map[int][]RuleSpec, cfg []CfgRule, via string, rest ...string) (*scBuilt, error) {
	c19seq++
	byPkg := map[string]*vschema.File{}
	var pkgs []string
	for i, m := range universe {
		f := byPkg[m.Pkg]
		if f == nil {
			f = &vschema.File{Path: fmt.Sprintf("vf/sc%d_%s.proto", c19seq, m.Pkg), Pkg: m.Pkg}
			byPkg[m.Pkg] = f
			pkgs = append(pkgs, m.Pkg)
		}
		var svc *vschema.Service
		for j := range f.Services {
			if f.Services[j].Name == m.Svc {
				svc = &f.Services[j]
			}
		}
		if svc == nil {
			f.Services = append(f.Services, vschema.Service{Name: m.Svc})
			svc = &f.Services[len(f.Services)-1]
		}
		vm := vschema.Method{Name: m.Name, In: "vf.Req", Out: "vf.Rsp"}
		if rules := perMethod[i]; len(rules) > 0 {
			vm.Rule = httpRule(rules[0])
			for _, r := range rules[1:] {
				vm.Rule.AdditionalBindings = append(vm.Rule.AdditionalBindings, httpRule(r))
			}
		}
		svc.Methods = append(svc.Methods, vm)
	}
	var fds []protoreflect.FileDescriptor
	for _, p := range pkgs {
		fd, err := byPkg[p].Build()
		if err != nil {
			return nil, err
		}
		fds = append(fds, fd)
	}
	reg, err := vschema.Registry(fds...)
	if err != nil {
		return nil, err
	}
	out := &scBuilt{rec: &Built{}}
	opts := []larking.MuxOption{larking.FilesOption(reg)}
	if strings.HasSuffix(via, "+unknown-to-gateway") {
		// a pure proxy: the gateway's own file registry does not know the
		// services, only the back-ends do
		via = strings.TrimSuffix(via, "+unknown-to-gateway")
		opts = []larking.MuxOption{larking.FilesOption(new(protoregistry.Files))}
	}
	if cfg != nil {
		var rules []*annotations.HttpRule
		for _, c := range cfg {
			hr := httpRule(c.Rule)
			hr.Selector = c.Selector
			for _, ab := range c.Adds {
				hr.AdditionalBindings = append(hr.AdditionalBindings, httpRule(ab))
			}
			rules = append(rules, hr)
		}
		var opt larking.MuxOption
		if pi := mon.Catch(func() {
			sc := &serviceconfig.Service{Http: &annotations.Http{Rules: rules}}
			if len(rest) > 0 {
				var own []string
				for _, fd := range fds {
					for i := 0; i < fd.Services().Len(); i++ {
						own = append(own, string(fd.Services().Get(i).FullName()))
					}
				}
				decorate(sc, rest[0], own...)
			}
			opt = larking.ServiceConfigOption(sc)
		}); pi != nil {
			out.panic = pi
			return out, nil
		}
		opts = append(opts, opt)
	}
	var mux *larking.Mux
	if pi := mon.Catch(func() { mux, err = larking.NewMux(opts...) }); pi != nil {
		out.panic = pi
		return out, nil
	}
	if err != nil {
		return nil, err
	}
	out.mux = mux
	out.rec.Mux = mux
	if via != "" {
		var svcs []backend.Svc
		for _, fd := range fds {
			for i := 0; i < fd.Services().Len(); i++ {
				svcs = append(svcs, backend.Svc{SD: fd.Services().Get(i), Impl: out.rec})
			}
		}
		n := 1
		if strings.HasPrefix(via, "conn-twice") {
			n = 2
		}
		for k := 0; k < n; k++ {
			be, err := backend.Start(fmt.Sprintf("sc%d", k), true, svcs...)
			if err != nil {
				out.close()
				return nil, err
			}
			out.bes = append(out.bes, be)
		}
		reg := func(be *backend.Backend) bool {
			ctx, cancel := context.WithTimeout(context.Background(), 20*time.Second)
			defer cancel()
			var rerr error
			if pi := mon.Catch(func() { rerr = mux.RegisterConn(ctx, be.CC) }); pi != nil {
				out.panic = pi
				return false
			}
			if rerr != nil {
				out.err = rerr
				return false
			}
			return true
		}
		for _, be := range out.bes {
			if !reg(be) {
				return out, nil
			}
		}
		ctx, cancel := context.WithTimeout(context.Background(), 20*time.Second)
		defer cancel()
		switch via {
		case "conn-twice-drop-first":
			mux.DropConn(ctx, out.bes[0].CC)
		case "conn-twice-drop-second":
			mux.DropConn(ctx, out.bes[1].CC)
		case "conn-refresh":
			if !reg(out.bes[0]) {
				return out, nil
			}
		}
		return out, nil
	}
	for _, fd := range fds {
		for i := 0; i < fd.Services().Len(); i++ {
			sd := fd.Services().Get(i)
			var rerr error
			pi := mon.Catch(func() { rerr = larking.VerifRegisterService(mux, vschema.ServiceDesc(sd, out.rec), struct{}{}) })
			if pi != nil {
				out.panic = pi
				return out, nil
			}
			if rerr != nil {
				out.err = rerr
				return out, nil
			}
		}
	}
	return out, nil
}

func execCfg(r *mon.Run, c *CfgCase, rng *rand.Rand) {
	r.Eval(1)
	perMethod := map[int][]RuleSpec{}
	multi := false
	for _, cr := range c.Rules {
		b := modelBinds(cr.Selector)
		if len(b) > 1 {
			multi = true
		}
		for _, mi := range b {
			perMethod[mi] = append(perMethod[mi], cr.all()...)
		}
	}
	A, err := buildSC(perMethod, nil)
	if err != nil {
		r.Inconclusive("harness: " + err.Error())
		return
	}
	var own map[int][]RuleSpec
	if c.Own != nil {
		own = map[int][]RuleSpec{c.OwnMethod: {*c.Own}}
	}
	B, err := buildSCVia(own, c.Rules, c.Via, c.Rest)
	if err != nil {
		r.Inconclusive("harness: " + err.Error())
		return
	}
	defer B.close()
	if c.Via != "" {
		r.Count("configurations_registered_through_connections", 1)
	}
	if B.panic != nil {
		r.Violate(B.panic.Key(), "service-config registration panicked: "+B.panic.Value, c)
		return
	}
	if A.panic != nil {
		r.Count("annotation_side_panicked_left_to_C16", 1)
		return
	}
	selClass := func() string {
		var cs []string
		for _, cr := range c.Rules {
			n := len(modelBinds(cr.Selector))
			k := "exact"
			if strings.HasSuffix(cr.Selector, "*") {
				k = "wild"
			}
			cs = append(cs, fmt.Sprintf("%s%d", k, min(n, 2)))
		}
		sort.Strings(cs)
		var ds []string
		for i, c := range cs {
			if i == 0 || cs[i-1] != c {
				ds = append(ds, c)
			}
		}
		return strings.Join(ds, ",")
	}()
	if (A.err != nil) != (B.err != nil) {
		which := "config-rejected-annotation-accepted"
		if B.err == nil {
			which = "config-accepted-annotation-rejected"
		}
		if c.Via != "" {
			which += ":via-" + c.Via
		}
		if c.Rest != "" {
			which += ":config-" + c.Rest
		}
		r.Violate("registration-differs:"+which+":"+selClass, fmt.Sprintf("annotations: %v; service config: %v", A.err, B.err), c)
		return
	}
	if A.err != nil {
		r.Count("both_rejected", 1)
		if multi {
			r.Distinct("both-rejected:" + selClass)
		}
		return
	}
	r.Count("both_accepted", 1)
	var flat []CfgRule
	for _, cr := range c.Rules {
		flat = append(flat, cr)
		for _, ab := range cr.Adds {
			flat = append(flat, CfgRule{Selector: cr.Selector, Rule: ab})
		}
	}
	for fi, cr := range flat {
		t, err := tmplref.Parse(cr.Rule.Tmpl)
		if err != nil {
			continue
		}
		binds := modelBinds(cr.Selector)
		isAdd := fi > 0 && len(c.Rules) < len(flat) && !isPrimary(c, cr)
		_ = isAdd
		for k := 0; k < 2; k++ {
			in := Instantiate(rng, t, reqDesc(), false)
			verb := reqVerbFor(rng, cr.Rule.Verb)
			oa := A.rec.Do(verb, in.Path(), "", nil)
			ob := B.rec.Do(verb, in.Path(), "", nil)
			r.Count("request_pairs", 1)
			if ob.Panic != nil {
				r.Violate(ob.Panic.Key(), fmt.Sprintf("%s %s panicked: %s", verb, in.Path(), ob.Panic.Value), c)
				return
			}
			if !oa.Same(ob) || oa.Body != ob.Body {
				cls := "bound-to-unselected-method"
				if c.Own != nil {
					cls = "overridden-by-colliding-annotation"
				} else if ob.Method == "" {
					cls = "selected-method-not-bound"
				} else if oa.Method == ob.Method {
					cls = "behaves-differently-from-annotation"
				}
				sk := "exact"
				if strings.HasSuffix(cr.Selector, "*") {
					sk = "wildcard"
				}
				if isAdd {
					sk += ":additional-binding"
				}
				if c.Via != "" {
					sk += ":via-" + c.Via
				}
				if c.Rest != "" {
					sk += ":config-" + c.Rest
				}
				r.Violate("selector:"+cls+":"+sk+fmt.Sprintf(":model-binds-%d", min(len(binds), 2)),
					fmt.Sprintf("selector %q (model binds %d methods): %s %s -> annotations [%s], service config [%s]", cr.Selector, len(binds), verb, in.Path(), oa, ob), c)
				return
			}
			// and the model itself: a single bound method must be reached
			if len(binds) == 1 && oa.Method != universe[binds[0]].Full() && tmplref.TokenCount(in.Path()) <= 64 {
				// only when no other rule of the configuration competes
				if len(c.Rules) == 1 {
					r.Violate("selector:model-method-not-reached", fmt.Sprintf("selector %q: %s %s reached [%s], want %s", cr.Selector, verb, in.Path(), oa, universe[binds[0]].Full()), c)
					return
				}
			}
		}
		sk := "exact"
		if strings.HasSuffix(cr.Selector, "*") {
			sk = "wildcard"
		}
		if c.Via != "" {
			sk += ":via-" + c.Via
		}
		if c.Rest != "" {
			sk += ":config-" + c.Rest
		}
		r.Distinct(fmt.Sprintf("%s:binds%d:depth%d:%s", sk, min(len(binds), 2), strings.Count(cr.Selector, "."), t.Shape()))
	}
}

func min(a, b int) int {
	if a < b {
		return a
	}
	return b
}

func isPrimary(c *CfgCase, cr CfgRule) bool {
	for _, p := range c.Rules {
		if p.Selector == cr.Selector && p.Rule == cr.Rule {
			return true
		}
	}
	return false
}

func cfgRuleTemplates(k int, rng *rand.Rand) RuleSpec {
	base := fmt.Sprintf("/cfg%d", k)
	switch rng.Intn(6) {
	case 0:
		return RuleSpec{Verb: "GET", Tmpl: base + "/{a}"}
	case 1:
		return RuleSpec{Verb: "GET", Tmpl: base + "/{sub.a=x1/*}:v"}
	case 2:
		return RuleSpec{Verb: "POST", Tmpl: base + "/{a}/{n}", Body: "*"}
	case 3:
		return RuleSpec{Verb: "PATCH", Tmpl: base + "/{b=**}", Body: "sub"}
	case 4:
		return RuleSpec{Verb: "DELETE", Tmpl: base}
	default:
		return RuleSpec{Verb: "HEAD", Tmpl: base + "/*/{e}"}
	}
}

// RunC19 checks service-config selectors and healthz.
func RunC19(r *mon.Run) {
	r.Rule = "configurations = 1-3 service-config rules with selectors drawn from every dotted prefix of every method name with and without '.*', '*', sibling names sharing a prefix and unrelated names, over a universe of 5 methods in packages a.b / a.bc / x; each rule has its own template. Differential oracle: mux A carries, as proto annotations, exactly the rules the reference model binds to each method; mux B gets the rules through ServiceConfigOption: registration must succeed/fail alike and instantiated requests must agree on (status, method, message, body). healthz: statuses set on the health server vs GET /v1/healthz?service= and the WebSocket watch. distinct = (selector kind, #methods bound by the model, selector depth, template shape)"
	r.Floor = 15
	rng := r.Rand("c19")
	pool := selectorPool()
	// every selector alone
	for _, sel := range pool {
		for k := 0; k < r.Pick(2, 6); k++ {
			execCfg(r, &CfgCase{Rules: []CfgRule{{Selector: sel, Rule: cfgRuleTemplates(0, rng)}}}, rng)
		}
	}
	n := r.Pick(1500, 60000)
	for i := 0; i < n; i++ {
		k := 1 + rng.Intn(3)
		c := &CfgCase{}
		for j := 0; j < k; j++ {
			c.Rules = append(c.Rules, CfgRule{Selector: pool[rng.Intn(len(pool))], Rule: cfgRuleTemplates(j, rng)})
		}
		if i%9 == 4 {
			c.Via = c19Vias[1+(i/9)%(len(c19Vias)-1)]
		}
		if i%7 == 3 {
			c.Rest = c19Rests[(i/7)%len(c19Rests)]
		}
		if i%5 == 1 {
			// additional bindings on the configured rules
			for j := range c.Rules {
				for a := 0; a <= (i/5)%2; a++ {
					c.Rules[j].Adds = append(c.Rules[j].Adds, cfgRuleTemplates(10+3*j+a, rng))
				}
			}
		}
		if r.SampleN() < 5 && i%97 == 0 {
			r.Sample(c)
		}
		execCfg(r, c, rng)
	}
	// a configured rule on the route of the method's own annotation
	var single []string
	for _, sel := range pool {
		if len(modelBinds(sel)) == 1 {
			single = append(single, sel)
		}
	}
	for i := 0; i < r.Pick(120, 3000); i++ {
		sel := single[rng.Intn(len(single))]
		cr := cfgRuleTemplates(7, rng)
		t, err := tmplref.Parse(cr.Tmpl)
		if err != nil || !strings.Contains(cr.Tmpl, "{") {
			continue
		}
		own := RuleSpec{Verb: cr.Verb, Tmpl: renameVars(t, rng), Body: map[string]string{"": "*", "*": "", "sub": "*"}[cr.Body]}
		if own.Verb == "GET" || own.Verb == "HEAD" || own.Verb == "DELETE" {
			own.Body = ""
		}
		if own.Tmpl == cr.Tmpl && own.Body == cr.Body {
			continue
		}
		r.Count("colliding_annotation_cases", 1)
		execCfg(r, &CfgCase{Rules: []CfgRule{{Selector: sel, Rule: cr}}, Own: &own, OwnMethod: modelBinds(sel)[0]}, rng)
	}
	healthz(r, rng)
	r.Assume("selectors are syntactically valid (no empty selector, no wildcard inside a name); a wildcard that puts one template on two methods is a conflict on both sides")
}

// healthzVariants: the service configuration AddHealthz is applied to. The
// bindings it documents must exist afterwards whatever else the
// configuration holds, and the configuration's own rules keep working.
var healthzVariants = []struct {
	name  string
	pre   []*annotations.HttpRule // present before AddHealthz
	post  []*annotations.HttpRule // appended afterwards
	twice bool
	extra string // another GET path bound to Health.Check by the configuration
	via   string // "" local health server, else as in buildSCVia
	// optFirst: ServiceConfigOption(sc) is created before AddHealthz(sc)
	// completes the configuration (the option is applied by NewMux)
	optFirst bool
	// emptyFiles: the mux is built with FilesOption(empty registry)
	emptyFiles bool
	// rest: see decorate
	rest string
	// connTimeout: the mux is built with this (small) ConnectionTimeoutOption
	// and the watch is kept open for several times as long between updates
	connTimeout time.Duration
}{
	{name: "watch-outlives-connection-timeout", connTimeout: 100 * time.Millisecond},
	{name: "config-lists-other-apis", rest: "lists-other-apis"},
	{name: "config-lists-other-apis+own-check-rule", rest: "lists-other-apis", post: []*annotations.HttpRule{{Selector: "grpc.health.v1.Health.Check", Pattern: &annotations.HttpRule_Get{Get: "/livez"}}}, extra: "/livez"},
	{name: "config-lists-health-api+health-on-backend", rest: "lists-first-own-api", via: "conn"},
	{name: "option-created-before-AddHealthz", optFirst: true},
	{name: "health-on-backend", via: "conn"},
	{name: "health-on-backend+empty-files-registry", via: "conn", emptyFiles: true},
	{name: "health-on-two-backends-first-dropped", via: "conn-twice-drop-first"},
	{name: "health-on-backend+own-check-rule", via: "conn", pre: []*annotations.HttpRule{{Selector: "grpc.health.v1.Health.Check", Pattern: &annotations.HttpRule_Get{Get: "/readyz"}}}, extra: "/readyz"},
	{name: "empty"},
	{name: "own-check-rule-before", pre: []*annotations.HttpRule{{Selector: "grpc.health.v1.Health.Check", Pattern: &annotations.HttpRule_Get{Get: "/readyz"}}}, extra: "/readyz"},
	{name: "own-watch-rule-before", pre: []*annotations.HttpRule{{Selector: "grpc.health.v1.Health.Watch", Pattern: &annotations.HttpRule_Custom{Custom: &annotations.CustomHttpPattern{Kind: "WEBSOCKET", Path: "/watchz"}}}}},
	{name: "own-check-rule-after", post: []*annotations.HttpRule{{Selector: "grpc.health.v1.Health.Check", Pattern: &annotations.HttpRule_Get{Get: "/livez"}}}, extra: "/livez"},
	{name: "twice", twice: true},
	{name: "unrelated-rule-before", pre: []*annotations.HttpRule{{Selector: "some.other.Service.Method", Pattern: &annotations.HttpRule_Get{Get: "/v1/healthz/other"}}}},
}

func healthz(r *mon.Run, rng *rand.Rand) {
	for vi := range healthzVariants {
		healthzVariant(r, rng, vi)
	}
}

func healthzVariant(r *mon.Run, rng *rand.Rand, vi int) {
	hv := healthzVariants[vi]
	hs := lhealth.NewServer()
	{
		// another application in this process used AddHealthz on its own
		// configuration and moved its rules elsewhere: no business of ours
		other := &serviceconfig.Service{}
		lhealth.AddHealthz(other)
		for _, hr := range other.GetHttp().GetRules() {
			switch p := hr.Pattern.(type) {
			case *annotations.HttpRule_Get:
				p.Get = "/internal/healthz"
			case *annotations.HttpRule_Custom:
				p.Custom.Path = "/internal/healthz"
			}
		}
	}
	sc := &serviceconfig.Service{}
	var early larking.MuxOption
	if hv.optFirst {
		early = larking.ServiceConfigOption(sc)
	}
	if len(hv.pre) > 0 {
		sc.Http = &annotations.Http{}
		for _, hr := range hv.pre {
			sc.Http.Rules = append(sc.Http.Rules, proto.Clone(hr).(*annotations.HttpRule))
		}
	}
	decorate(sc, hv.rest, "grpc.health.v1.Health")
	lhealth.AddHealthz(sc)
	if hv.twice {
		lhealth.AddHealthz(sc)
	}
	for _, hr := range hv.post {
		sc.Http.Rules = append(sc.Http.Rules, proto.Clone(hr).(*annotations.HttpRule))
	}
	scOpt := early
	if scOpt == nil {
		scOpt = larking.ServiceConfigOption(sc)
	}
	mopts := []larking.MuxOption{scOpt}
	if hv.emptyFiles {
		mopts = append([]larking.MuxOption{larking.FilesOption(new(protoregistry.Files))}, mopts...)
	}
	if hv.connTimeout > 0 {
		mopts = append(mopts, larking.ConnectionTimeoutOption(hv.connTimeout))
	}
	mux, err := larking.NewMux(mopts...)
	if err != nil {
		r.Inconclusive("healthz mux: " + err.Error())
		return
	}
	if hv.via != "" {
		n := 1
		if strings.HasPrefix(hv.via, "conn-twice") {
			n = 2
		}
		var bes []*backend.Backend
		for k := 0; k < n; k++ {
			// every back-end serves the same health server object
			be, err := backend.Start(fmt.Sprintf("hz%d", k), true, backend.Svc{Register: func(gs *grpc.Server) { healthpb.RegisterHealthServer(gs, hs) }})
			if err != nil {
				r.Inconclusive("healthz back-end: " + err.Error())
				return
			}
			defer be.Close()
			bes = append(bes, be)
			ctx, cancel := context.WithTimeout(context.Background(), 20*time.Second)
			err = mux.RegisterConn(ctx, be.CC)
			cancel()
			if err != nil {
				r.Violate("healthz:registration-failed:"+hv.name, "RegisterConn of a back-end serving grpc.health.v1.Health with AddHealthz rules failed: "+err.Error(), nil)
				return
			}
		}
		if hv.via == "conn-twice-drop-first" {
			ctx, cancel := context.WithTimeout(context.Background(), 20*time.Second)
			mux.DropConn(ctx, bes[0].CC)
			cancel()
		}
	} else if err := larking.VerifRegisterService(mux, &healthpb.Health_ServiceDesc, hs); err != nil {
		r.Violate("healthz:registration-failed", "health service with AddHealthz rules rejected: "+err.Error(), nil)
		return
	}
	names := []string{"", "svc.a", "svc.b", "x.Y", "weird name", "ü"}
	statuses := []healthpb.HealthCheckResponse_ServingStatus{healthpb.HealthCheckResponse_SERVING, healthpb.HealthCheckResponse_NOT_SERVING, healthpb.HealthCheckResponse_UNKNOWN}
	set := map[string]healthpb.HealthCheckResponse_ServingStatus{"": healthpb.HealthCheckResponse_SERVING}
	for i := 0; i < r.Pick(40, 600); i++ {
		name := names[rng.Intn(len(names))]
		if rng.Intn(3) != 0 {
			st := statuses[rng.Intn(len(statuses))]
			hs.SetServingStatus(name, st)
			set[name] = st
		}
		q := names[rng.Intn(len(names))]
		if rng.Intn(6) == 0 {
			q = "never.set"
		}
		hpath := "/v1/healthz"
		if hv.extra != "" && rng.Intn(3) == 0 {
			hpath = hv.extra
		}
		resp := wire.Serve(mux, wire.BodyRequest("GET", hpath, "service="+urlQueryEscape(q), nil, nil))
		r.Eval(1)
		r.Count("healthz_requests", 1)
		if resp.Panic != nil {
			r.Violate(resp.Panic.Key(), "GET "+hpath+" panicked: "+resp.Panic.Value, map[string]any{"service": q, "config": hv.name})
			return
		}
		want, ok := set[q]
		if !ok {
			if resp.Code != http.StatusNotFound {
				r.Violate("healthz:unknown-service-not-404:"+hv.name, fmt.Sprintf("config %s: service %q was never set, GET %s got HTTP %d %s", hv.name, q, hpath, resp.Code, resp.Body), map[string]any{"service": q, "config": hv.name})
			}
			r.Distinct("healthz:unknown")
			continue
		}
		var body struct {
			Status string `json:"status"`
		}
		json.Unmarshal(resp.Body, &body)
		got := body.Status
		if got == "" {
			got = "UNKNOWN" // proto3 JSON omits the zero enum value
		}
		if resp.Code != 200 || got != want.String() {
			r.Violate("healthz:wrong-status:"+hv.name, fmt.Sprintf("config %s: service %q set to %s, GET %s answered %d %s", hv.name, q, want, hpath, resp.Code, resp.Body), map[string]any{"service": q, "want": want.String(), "config": hv.name})
			return
		}
		r.Distinct("healthz:" + hv.name + ":" + want.String())
	}
	// WebSocket watch over a real listener
	srv, err := wire.StartLarking(mux, nil)
	if err != nil {
		r.Inconclusive("healthz listener: " + err.Error())
		return
	}
	defer srv.Close()
	defer hs.Shutdown()
	hs.SetServingStatus("ws.svc", healthpb.HealthCheckResponse_SERVING)
	ctx, cancel := context.WithTimeout(context.Background(), 15*time.Second)
	defer cancel()
	conn, err := wire.WSDial(ctx, "ws://"+srv.Addr+"/v1/healthz?service=ws.svc", nil)
	if err != nil {
		r.Violate("healthz:websocket-binding-missing:"+hv.name, "config "+hv.name+": WebSocket /v1/healthz could not be opened: "+err.Error(), nil)
		return
	}
	defer conn.Close()
	conn.SetDeadline(time.Now().Add(15 * time.Second))
	seq := []healthpb.HealthCheckResponse_ServingStatus{healthpb.HealthCheckResponse_SERVING, healthpb.HealthCheckResponse_NOT_SERVING, healthpb.HealthCheckResponse_SERVING}
	for i, want := range seq {
		if i > 0 {
			// keep-alive frames a client may send at any time (RFC 6455
			// 5.5.2/5.5.3) must not end the watch
			wsutil.WriteClientMessage(conn, ws.OpPing, []byte("ka"))
			wsutil.WriteClientMessage(conn, ws.OpPong, nil)
			time.Sleep(20*time.Millisecond + 3*hv.connTimeout)
			hs.SetServingStatus("ws.svc", want)
		}
		msg, err := wsutil.ReadServerText(conn)
		if err != nil {
			if ne, ok := err.(interface{ Timeout() bool }); ok && ne.Timeout() {
				r.Inconclusive("healthz websocket read timed out")
			} else {
				r.Violate("healthz:websocket-watch-ended:"+hv.name, fmt.Sprintf("config %s: watch stream ended at update %d: %v", hv.name, i, err), nil)
			}
			return
		}
		var body struct {
			Status string `json:"status"`
		}
		json.Unmarshal(msg, &body)
		if body.Status == "" {
			body.Status = "UNKNOWN"
		}
		r.Count("healthz_ws_updates", 1)
		if body.Status != want.String() {
			r.Violate("healthz:websocket-wrong-status", fmt.Sprintf("update %d: got %s want %s", i, msg, want), nil)
			return
		}
	}
	r.Distinct("healthz:websocket-watch:" + hv.name)
	// the same upgrade with the Connection header spelled as other legal
	// clients and intermediaries do (it is a token list)
	for _, connHdr := range []string{"Upgrade", "upgrade", "keep-alive, Upgrade", "Upgrade, keep-alive", "keep-alive,upgrade"} {
		status, first, err := rawWSHandshake(srv.Addr, "/v1/healthz?service=ws.svc", connHdr)
		r.Eval(1)
		if err != nil {
			r.Inconclusive("healthz raw websocket handshake: " + err.Error())
			continue
		}
		if status != 101 {
			r.Violate("healthz:websocket-upgrade-refused:connection-token-list", fmt.Sprintf("config %s: a WebSocket handshake with `Connection: %s` was answered %d %.80q instead of 101", hv.name, connHdr, status, first), map[string]any{"connection": connHdr, "config": hv.name})
			break
		}
		var body struct {
			Status string `json:"status"`
		}
		json.Unmarshal([]byte(first), &body)
		if body.Status != "SERVING" {
			r.Violate("healthz:websocket-wrong-status:connection-token-list", fmt.Sprintf("config %s: `Connection: %s`: first update %q, want SERVING", hv.name, connHdr, first), map[string]any{"connection": connHdr, "config": hv.name})
			break
		}
		r.Distinct("healthz:websocket-handshake:" + connHdr)
	}
	if l := srv.ErrLog(); strings.Contains(l, "panic") {
		r.Violate("healthz:panic-serving", l, nil)
	}
}

// rawWSHandshake performs a WebSocket opening handshake by hand (so that the
// Connection header can be spelled freely) and returns the HTTP status and
// either the first text frame (101) or the start of the body.
func rawWSHandshake(addr, target, connHdr string) (int, string, error) {
	conn, err := net.DialTimeout("tcp", addr, 5*time.Second)
	if err != nil {
		return 0, "", err
	}
	defer conn.Close()
	conn.SetDeadline(time.Now().Add(15 * time.Second))
	fmt.Fprintf(conn, "GET %s HTTP/1.1\r\nHost: verif.test\r\nUpgrade: websocket\r\nConnection: %s\r\nSec-WebSocket-Key: dGhlIHNhbXBsZSBub25jZQ==\r\nSec-WebSocket-Version: 13\r\n\r\n", target, connHdr)
	br := bufio.NewReader(conn)
	resp, err := http.ReadResponse(br, &http.Request{Method: "GET"})
	if err != nil {
		return 0, "", err
	}
	if resp.StatusCode != 101 {
		b, _ := io.ReadAll(io.LimitReader(resp.Body, 200))
		return resp.StatusCode, string(b), nil
	}
	msg, err := wsutil.ReadServerText(struct {
		io.Reader
		io.Writer
	}{br, conn})
	if err != nil {
		return 101, "", err
	}
	wsutil.WriteClientMessage(conn, ws.OpClose, ws.NewCloseFrameBody(ws.StatusNormalClosure, ""))
	return 101, string(msg), nil
}

func urlQueryEscape(s string) string {
	var sb strings.Builder
	for i := 0; i < len(s); i++ {
		c := s[i]
		if (c >= 'a' && c <= 'z') || (c >= 'A' && c <= 'Z') || (c >= '0' && c <= '9') || c == '.' || c == '-' || c == '_' {
			sb.WriteByte(c)
		} else {
			fmt.Fprintf(&sb, "%%%02X", c)
		}
	}
	return sb.String()
}

// ReplayC19 re-executes a stored configuration.
func ReplayC19(r *mon.Run, raw json.RawMessage) {
	var c CfgCase
	if err := json.Unmarshal(raw, &c); err != nil || len(c.Rules) == 0 {
		r.Inconclusive("bad replay case")
		return
	}
	r.Distinct("replay-a")
	r.Distinct("replay-b")
	execCfg(r, &c, r.Rand("c19-replay"))
}
