package route

import (
	"fmt"
	"math/rand"
	"strings"
	"unicode/utf8"

	"google.golang.org/protobuf/reflect/protoreflect"

	"verif/internal/textref"
	"verif/internal/tmplref"
	"verif/internal/vschema"
)

var (
	lits      = []string{"v1", "bk", "sh", "it", "x.y", "a-b", "q"}
	strFields = []string{"a", "b", "c", "d", "sub.a", "sub.b", "sub.deep.s", "os", "long_name"}
	typFields = []string{"n", "l", "f", "e", "dbl", "y", "u", "sub.l", "sub.deep.n", "sub.e", "sf32", "ul", "flt", "flt", "sn", "sl", "f32", "f64", "sf64"}
	verbSufs  = []string{"get", "cancel", "v", "x1"}
	// values for string captures: every documented path character class,
	// single characters, unicode letters, and words colliding with literals
	strVals = []string{"x", "ab", "v1", "bk", "sh", "q", "it", "é", "a.b", "a-b", "~", "a!b", "$&'", "(a)", "*", "a+b", "a,b", "a;b", "k=v", "@me", "1", "true", "0", "ü1", "get", "Z_9", ".", "..", "...", ".a", "ß", "½", strings.Repeat("v", 64), strings.Repeat("v", 63) + "é", strings.Repeat("V", 200)}
)

var typVals = map[protoreflect.Kind][]string{
	protoreflect.Int32Kind:    {"0", "-1", "2147483647", "-2147483648", "42"},
	protoreflect.Sfixed32Kind: {"0", "-7", "2147483647"},
	protoreflect.Int64Kind:    {"9223372036854775807", "-9223372036854775808", "7", "0"},
	protoreflect.Uint32Kind:   {"0", "4294967295", "17"},
	protoreflect.Uint64Kind:   {"0", "18446744073709551615", "3"},
	protoreflect.BoolKind:     {"true", "false"},
	protoreflect.EnumKind:     {"RED", "GREEN", "BLUE", "1", "5", "0", "COLOR_UNSPECIFIED"},
	protoreflect.DoubleKind:   {"1.5", "-0.25", "1e10", "3", "0"},
	protoreflect.BytesKind:    {"YQ==", "YWI=", "YWJj", "_-8=", "YQ", "AAECAwQ="},
	// 32-bit floats: the extremes of the type, an integer that is not a
	// float32 (rounds), a decimal within half a float64 ulp of a float32
	// rounding midpoint (a conversion through float64 rounds it twice) and a
	// value that underflows
	protoreflect.FloatKind:    {"1.5", "-0.25", "0", "3.4028235e38", "-3.4028234e38", "16777217", "1.000000059604644775390625000000000001", "1e-46", "7"},
	protoreflect.Sint32Kind:   {"0", "-1", "2147483647", "-2147483648"},
	protoreflect.Sint64Kind:   {"0", "-9223372036854775808", "9223372036854775807", "12"},
	protoreflect.Fixed32Kind:  {"0", "4294967295", "9"},
	protoreflect.Fixed64Kind:  {"0", "18446744073709551615", "11"},
	protoreflect.Sfixed64Kind: {"0", "-9223372036854775808", "9223372036854775807"},
}

// badVals are texts no proto3 JSON reading accepts for the kind.
var badVals = map[protoreflect.Kind][]string{
	protoreflect.Int32Kind:    {"abc", "2147483648", "1x", "--1"},
	protoreflect.Sfixed32Kind: {"abc", "2147483648"},
	protoreflect.Int64Kind:    {"abc", "9223372036854775808"},
	protoreflect.Uint32Kind:   {"-1", "4294967296", "u"},
	protoreflect.Uint64Kind:   {"-1", "18446744073709551616"},
	protoreflect.BoolKind:     {"yes", "2", "T"},
	protoreflect.EnumKind:     {"PURPLE", "red", "1x"},
	protoreflect.DoubleKind:   {"abc", "1e999", "1..2"},
	protoreflect.BytesKind:    {"!!!!", "Y", "a b"},
	// magnitudes between the float32 and the float64 range have no float32
	// value
	protoreflect.FloatKind:    {"abc", "1e39", "-3.5e38", "3.5e38", "1..2", "1e999"},
	protoreflect.Sint32Kind:   {"2147483648", "-2147483649", "z"},
	protoreflect.Sint64Kind:   {"9223372036854775808", "x1"},
	protoreflect.Fixed32Kind:  {"-1", "4294967296"},
	protoreflect.Fixed64Kind:  {"-1", "18446744073709551616"},
	protoreflect.Sfixed64Kind: {"9223372036854775808", "-9223372036854775809"},
}

func reqDesc() protoreflect.MessageDescriptor { return vschema.Msg("vf.Req") }

func fieldKind(md protoreflect.MessageDescriptor, path string) protoreflect.Kind {
	fds := textref.Resolve(md, strings.Split(path, "."))
	if fds == nil {
		return 0
	}
	return fds[len(fds)-1].Kind()
}

type genOpts struct {
	OneLetter bool // allow one-letter literals
}

func pick(rng *rand.Rand, s []string) string { return s[rng.Intn(len(s))] }

// long literals around buffer-ish sizes; each is a prefix of the next, so a
// lookup that truncates keys confuses siblings
var longLits = func() []string {
	l63 := "l" + strings.Repeat("o", 61) + "g"
	return []string{l63, l63 + "x", l63 + "xy", l63 + strings.Repeat("z", 37), strings.Repeat("長", 22), strings.Repeat("k", 31) + "e", strings.Repeat("k", 32), strings.Repeat("w", 127), strings.Repeat("w", 128), strings.Repeat("W", 300)}
}()

func (o genOpts) lit(rng *rand.Rand) string {
	if rng.Intn(30) == 0 {
		return pick(rng, longLits)
	}
	for {
		l := pick(rng, lits)
		if len(l) == 1 && !o.OneLetter {
			continue
		}
		return l
	}
}

// genTemplate produces a grammar-valid template over vf.Req: ** only last.
func (o genOpts) genTemplate(rng *rand.Rand) string {
	n := 1 + rng.Intn(5)
	used := map[string]bool{}
	freshField := func(pool []string) string {
		for tries := 0; tries < 20; tries++ {
			f := pick(rng, pool)
			if !used[f] && !(f == "os" && (used["on"] || used["osub"])) {
				used[f] = true
				return f
			}
		}
		return ""
	}
	var segs []string
	for i := 0; i < n; i++ {
		last := i == n-1
		x := rng.Intn(100)
		switch {
		case x < 48 || (i == 0 && x < 70):
			segs = append(segs, o.lit(rng))
		case x < 54:
			segs = append(segs, "*")
		case x < 72:
			if f := freshField(strFields); f != "" {
				segs = append(segs, "{"+f+"}")
			} else {
				segs = append(segs, o.lit(rng))
			}
		case x < 84:
			f := freshField(strFields)
			if f == "" {
				segs = append(segs, o.lit(rng))
				break
			}
			pats := []string{o.lit(rng) + "/*", "*/" + o.lit(rng), "*/" + o.lit(rng) + "/*", o.lit(rng), "*", o.lit(rng) + "/" + o.lit(rng) + "/*", "*/*"}
			if last {
				pats = append(pats, "**", o.lit(rng)+"/**", o.lit(rng)+"/"+o.lit(rng)+"/**", "*/**", "**", o.lit(rng)+"/**")
			}
			segs = append(segs, "{"+f+"="+pick(rng, pats)+"}")
		case x < 94:
			if f := freshField(typFields); f != "" {
				segs = append(segs, "{"+f+"}")
			} else {
				segs = append(segs, o.lit(rng))
			}
		default:
			if last {
				segs = append(segs, "**")
			} else {
				segs = append(segs, "*")
			}
		}
	}
	t := "/" + strings.Join(segs, "/")
	if rng.Intn(4) == 0 {
		if rng.Intn(12) == 0 {
			t += ":" + pick(rng, longLits[:4])
		} else {
			t += ":" + pick(rng, verbSufs)
		}
	}
	return t
}

// custom kinds are verbs whatever their spelling (larking upper-cases the kind)
var ruleVerbs = []string{"GET", "GET", "GET", "GET", "POST", "POST", "PUT", "DELETE", "PATCH", "HEAD", "*", "head", "OPTIONS", "purge", "Trace", "get", "REPORT"}

// GenRuleSet generates 2..8 methods over 1..3 services with 1..3 rules each.
func (o genOpts) GenRuleSet(rng *rand.Rand, id int) *RuleSet {
	rs := &RuleSet{Pkg: fmt.Sprintf("vf.p%d", id)}
	ns := 1 + rng.Intn(3)
	for s := 0; s < ns; s++ {
		rs.Services = append(rs.Services, []string{"Alpha", "Beta", "Gamma"}[s])
	}
	nm := 2 + rng.Intn(7)
	perSvc := make([]int, ns)
	for m := 0; m < nm; m++ {
		// method names are numbered per service, so short names collide
		// across services (Alpha.Me0, Beta.Me0, ...)
		sv := rng.Intn(ns)
		ms := MethodSpec{Svc: sv, Name: fmt.Sprintf("Me%d", perSvc[sv]), In: "vf.Req", Out: "vf.Rsp"}
		perSvc[sv]++
		nr := 1 + rng.Intn(3)
		hasAnn := false
		for r := 0; r < nr; r++ {
			rule := RuleSpec{Verb: pick(rng, ruleVerbs), Tmpl: o.genTemplate(rng)}
			if rule.Verb == "POST" || rule.Verb == "PUT" || rule.Verb == "PATCH" {
				if rng.Intn(2) == 0 {
					rule.Body = "*"
				}
			}
			switch {
			case !hasAnn && rng.Intn(10) != 0:
				rule.Via = "annotation"
				hasAnn = true
			case hasAnn && rng.Intn(5) < 3:
				rule.Via = "additional"
			default:
				rule.Via = "config"
			}
			ms.Rules = append(ms.Rules, rule)
		}
		rs.Methods = append(rs.Methods, ms)
	}
	return rs
}

// Inst is a path instantiated from a template.
type Inst struct {
	Segs []string
	Verb string
}

func (i Inst) Path() string {
	p := "/" + strings.Join(i.Segs, "/")
	if i.Verb != "" {
		p += ":" + i.Verb
	}
	return p
}

// Instantiate fills a template: literals as written, wildcards with values.
// With bad=true one typed variable (if any) gets a text invalid for its type.
func Instantiate(rng *rand.Rand, t *tmplref.Template, md protoreflect.MessageDescriptor, bad bool) Inst {
	var out Inst
	out.Verb = t.Verb
	badAt := -1
	if bad {
		var typed []int
		for i, s := range t.Segs {
			if s.Kind == tmplref.Var {
				if k := fieldKind(md, strings.Join(s.Field, ".")); k != protoreflect.StringKind && badVals[k] != nil {
					typed = append(typed, i)
				}
			}
		}
		if len(typed) > 0 {
			badAt = typed[rng.Intn(len(typed))]
		}
	}
	fill := func(pat []tmplref.Seg, vals func() string) {
		for _, s := range pat {
			switch s.Kind {
			case tmplref.Lit:
				out.Segs = append(out.Segs, s.Text)
			case tmplref.Star:
				out.Segs = append(out.Segs, vals())
			case tmplref.StarStar:
				k := 1 + rng.Intn(3)
				if rng.Intn(12) == 0 {
					// long capture: the whole path ends up at 59..64 lexer
					// tokens (the documented limit is 64) or just beyond it
					k = 26 + rng.Intn(6)
				}
				for j := 0; j < k; j++ {
					out.Segs = append(out.Segs, vals())
				}
			}
		}
	}
	sv := func() string { return pick(rng, strVals) }
	for i, s := range t.Segs {
		if s.Kind != tmplref.Var {
			fill([]tmplref.Seg{s}, sv)
			continue
		}
		k := fieldKind(md, strings.Join(s.Field, "."))
		if k == protoreflect.StringKind || k == 0 || typVals[k] == nil {
			fill(s.Pat, sv)
			continue
		}
		if i == badAt {
			fill(s.Pat, func() string { return pick(rng, badVals[k]) })
		} else {
			fill(s.Pat, func() string { return pick(rng, typVals[k]) })
		}
	}
	return out
}

// NearMisses derives hostile variants of an instantiated path.
func NearMisses(rng *rand.Rand, in Inst) []string {
	var out []string
	cp := func() Inst { return Inst{Segs: append([]string(nil), in.Segs...), Verb: in.Verb} }
	n := len(in.Segs)
	// one segment dropped / added / substituted
	if n > 1 {
		i := rng.Intn(n)
		c := cp()
		c.Segs = append(c.Segs[:i], c.Segs[i+1:]...)
		out = append(out, c.Path())
	}
	{
		i := rng.Intn(n + 1)
		c := cp()
		c.Segs = append(c.Segs[:i], append([]string{pick(rng, append(lits, strVals...))}, c.Segs[i:]...)...)
		out = append(out, c.Path())
	}
	{
		i := rng.Intn(n)
		c := cp()
		c.Segs[i] = pick(rng, append(lits, strVals...))
		out = append(out, c.Path())
	}
	// a segment extended / shortened by one character, or extended by a tail
	{
		i := rng.Intn(n)
		c := cp()
		c.Segs[i] = c.Segs[i] + "tail"
		out = append(out, c.Path())
		c = cp()
		c.Segs[i] = c.Segs[i] + "x"
		out = append(out, c.Path())
		if len(c.Segs[i]) > 2 {
			c = cp()
			_, sz := utf8.DecodeLastRuneInString(c.Segs[i])
			c.Segs[i] = c.Segs[i][:len(c.Segs[i])-sz]
			out = append(out, c.Path())
		}
	}
	// verb suffix changed / removed / added
	if in.Verb != "" {
		c := cp()
		c.Verb = ""
		out = append(out, c.Path())
		c.Verb = pick(rng, verbSufs) + "z"
		out = append(out, c.Path())
		c.Verb = in.Verb
		out = append(out, c.Path()+":"+in.Verb)
	} else {
		c := cp()
		c.Verb = pick(rng, verbSufs)
		out = append(out, c.Path())
	}
	// ':' inserted at some position of the text
	p := in.Path()
	for k := 0; k < 2; k++ {
		pos := 1 + rng.Intn(len(p))
		out = append(out, p[:pos]+":"+p[pos:])
	}
	{
		i := rng.Intn(n)
		c := cp()
		c.Segs[i] = c.Segs[i] + ":" + pick(rng, verbSufs)
		out = append(out, c.Path())
	}
	// slashes
	out = append(out, p+"/", p+"//", strings.TrimPrefix(p, "/"), "/"+p, strings.Replace(p, "/", "//", 1))
	return out
}
