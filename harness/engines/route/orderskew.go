package route

import (
	"fmt"
	"math/rand"
	"strings"

	"google.golang.org/genproto/googleapis/api/annotations"
	"google.golang.org/protobuf/encoding/protojson"
	"google.golang.org/protobuf/proto"
	"google.golang.org/protobuf/reflect/protoreflect"
	"google.golang.org/protobuf/types/descriptorpb"
	"larking.io/larking"

	"verif/internal/mon"
	"verif/internal/textref"
	"verif/internal/vschema"
)

// Field-order skew (C01). The descriptors a mux routes with (FilesOption) and
// the descriptors of the message a service decodes into are in general two
// instances of the same schema: the gateway's registry on one side, the
// service's compiled types on the other. The order in which a .proto file
// declares the fields of a message is not part of the schema (names, numbers
// and types are), so two builds of one file may well differ in it. A path
// variable must land in the field its template *names*, whatever position
// that field has in either declaration.

type skewField struct {
	name string
	num  int32
	typ  descriptorpb.FieldDescriptorProto_Type
	msg  string // type name for message fields
	val  []string
}

var (
	tS   = descriptorpb.FieldDescriptorProto_TYPE_STRING
	tI32 = descriptorpb.FieldDescriptorProto_TYPE_INT32
	tI64 = descriptorpb.FieldDescriptorProto_TYPE_INT64
	tU32 = descriptorpb.FieldDescriptorProto_TYPE_UINT32
	tB   = descriptorpb.FieldDescriptorProto_TYPE_BOOL
	tM   = descriptorpb.FieldDescriptorProto_TYPE_MESSAGE
)

// several fields of every kind, so that a value delivered to "a field of the
// right kind" is not good enough
var skewTop = []skewField{
	{"a", 1, tS, "", []string{"x", "v1", "a-b"}}, {"b", 2, tS, "", []string{"q", "é"}}, {"c", 3, tS, "", []string{"sh", "Z_9"}}, {"d", 4, tS, "", []string{"it"}},
	{"n", 5, tI32, "", []string{"7", "-1"}}, {"n2", 6, tI32, "", []string{"42"}}, {"l", 7, tI64, "", []string{"9", "-8"}}, {"l2", 8, tI64, "", []string{"12"}},
	{"u", 9, tU32, "", []string{"3"}}, {"u2", 10, tU32, "", []string{"17"}}, {"f", 11, tB, "", []string{"true"}}, {"f2", 12, tB, "", []string{"true"}},
	{"in", 13, tM, "Inner", nil}, {"in2", 14, tM, "Inner", nil},
}

var skewInner = []skewField{
	{"k", 1, tS, "", []string{"k1"}}, {"deep", 2, tS, "", []string{"dd", "x.y"}}, {"j", 3, tS, "", []string{"jj"}}, {"cnt", 4, tI64, "", []string{"5"}}, {"cnt2", 5, tI64, "", []string{"6"}},
}

func skewMsg(name, pkg string, fields []skewField, order []int) *descriptorpb.DescriptorProto {
	m := &descriptorpb.DescriptorProto{Name: proto.String(name)}
	for _, i := range order {
		f := fields[i]
		fp := &descriptorpb.FieldDescriptorProto{
			Name: proto.String(f.name), Number: proto.Int32(f.num), Type: f.typ.Enum(),
			Label: descriptorpb.FieldDescriptorProto_LABEL_OPTIONAL.Enum(), JsonName: proto.String(f.name),
		}
		if f.typ == tM {
			fp.TypeName = proto.String("." + pkg + "." + f.msg)
		}
		m.Field = append(m.Field, fp)
	}
	return m
}

type skewRule struct {
	Tmpl string   `json:"tmpl"`
	Vars []string `json:"vars"`
}

// SkewCase is the replayable description of one field-order-skew mux.
type SkewCase struct {
	Lane     string     `json:"lane"`
	Pkg      string     `json:"pkg"`
	GwTop    []int      `json:"gateway_field_order"`
	GwInner  []int      `json:"gateway_inner_order"`
	SvcTop   []int      `json:"service_field_order"`
	SvcInner []int      `json:"service_inner_order"`
	Rules    []skewRule `json:"rules"`
	Path     string     `json:"path,omitempty"`
}

var skewSeq int

func skewBuild(c *SkewCase, path string, top, inner []int) (protoreflect.FileDescriptor, error) {
	f := &vschema.File{Path: path, Pkg: c.Pkg,
		Messages: []*descriptorpb.DescriptorProto{skewMsg("M", c.Pkg, skewTop, top), skewMsg("Inner", c.Pkg, skewInner, inner)}}
	svc := vschema.Service{Name: "S"}
	for i, rl := range c.Rules {
		svc.Methods = append(svc.Methods, vschema.Method{Name: fmt.Sprintf("Me%d", i), In: c.Pkg + ".M", Out: "vf.Rsp",
			Rule: &annotations.HttpRule{Pattern: &annotations.HttpRule_Get{Get: rl.Tmpl}}})
	}
	f.Services = []vschema.Service{svc}
	return f.Build()
}

func skewLookup(name string) (skewField, bool) {
	parts := strings.Split(name, ".")
	pool := skewTop
	if len(parts) == 2 {
		pool = skewInner
	}
	for _, f := range pool {
		if f.name == parts[len(parts)-1] {
			return f, true
		}
	}
	return skewField{}, false
}

func runSkewCase(r *mon.Run, c *SkewCase, rng *rand.Rand) {
	skewSeq++
	path := fmt.Sprintf("vf/os%d.proto", skewSeq)
	gw, err := skewBuild(c, path, c.GwTop, c.GwInner)
	if err != nil {
		r.Inconclusive("field-order skew harness (gateway file): " + err.Error())
		return
	}
	sv, err := skewBuild(c, path, c.SvcTop, c.SvcInner)
	if err != nil {
		r.Inconclusive("field-order skew harness (service file): " + err.Error())
		return
	}
	reg, err := vschema.Registry(gw)
	if err != nil {
		r.Inconclusive("field-order skew harness: " + err.Error())
		return
	}
	mux, err := larking.NewMux(larking.FilesOption(reg))
	if err != nil {
		r.Inconclusive("field-order skew harness: " + err.Error())
		return
	}
	b := &Built{Mux: mux, FD: sv, ErrSvc: -1}
	var rerr error
	pi := mon.Catch(func() {
		rerr = larking.VerifRegisterService(mux, vschema.ServiceDesc(sv.Services().Get(0), b), struct{}{})
	})
	if pi != nil || rerr != nil {
		// validity of registrations is C16's subject
		r.Count("field_order_skew_registrations_refused_left_to_C16", 1)
		return
	}
	r.Count("field_order_skew_muxes", 1)
	md := sv.Messages().ByName("M")
	for mi, rl := range c.Rules {
		assign := map[string]string{}
		p := rl.Tmpl
		for _, v := range rl.Vars {
			f, _ := skewLookup(v)
			val := f.val[rng.Intn(len(f.val))]
			assign[v] = val
			p = strings.Replace(p, "{"+v+"}", val, 1)
		}
		if c.Path != "" {
			p = c.Path
		}
		o := b.Do("GET", p, "", nil)
		r.Eval(1)
		if o.Panic != nil {
			r.Count("panics_seen_left_to_C09", 1)
			continue
		}
		if o.Method == "" {
			r.Count("field_order_skew_not_dispatched", 1)
			continue
		}
		r.Count("field_order_skew_dispatched", 1)
		exp, err := textref.Build(func() proto.Message { return vschema.NewMsg(md) }, md, assign, sortedKeys(assign))
		if err != nil {
			r.Inconclusive("field-order skew harness (expected message): " + err.Error())
			return
		}
		want := fmt.Sprintf("/%s.S/Me%d", c.Pkg, mi)
		cc := *c
		cc.Rules = []skewRule{rl}
		cc.Path = p
		cls := "top-level"
		for _, v := range rl.Vars {
			if strings.Contains(v, ".") {
				cls = "nested"
			}
		}
		if o.Method != want {
			// another rule of this mux may legitimately cover the path only
			// if it has the same shape; templates of one case start with
			// distinct literals, so this is a wrong dispatch
			r.Violate("unsound:no-match:field-order-skew", fmt.Sprintf("GET %s dispatched to %s, the only rule covering it belongs to %s", p, o.Method, want), &cc)
			continue
		}
		if !proto.Equal(exp, o.Msg) {
			r.Violate("unsound:wrong-capture:field-order-skew:"+cls+"-variable", fmt.Sprintf("GET %s (template %s; the gateway's file and the service's type declare the fields of the request message in different orders) delivered %s, expected %s", p, rl.Tmpl, o.MsgJSON, canonProto(exp)), &cc)
			continue
		}
		r.Distinct(fmt.Sprintf("field-order-skew:%s:%dvars", cls, len(rl.Vars)))
	}
}

func canonProto(m proto.Message) string {
	js, err := protojson.Marshal(m)
	if err != nil {
		return err.Error()
	}
	return canonJSON(js)
}

// orderSkew drives muxes whose routing descriptors and service types declare
// the same request message with differently ordered fields.
func orderSkew(r *mon.Run) {
	rng := r.Rand("route-order-skew")
	n := r.Pick(60, 1500)
	for i := 0; i < n; i++ {
		c := &SkewCase{Lane: "field-order-skew", Pkg: fmt.Sprintf("vf.os%d", i)}
		c.GwTop, c.GwInner = rng.Perm(len(skewTop)), rng.Perm(len(skewInner))
		c.SvcTop, c.SvcInner = rng.Perm(len(skewTop)), rng.Perm(len(skewInner))
		switch i % 4 {
		case 0: // the service's build reverses the gateway's order
			c.SvcTop, c.SvcInner = reverse(c.GwTop), reverse(c.GwInner)
		case 1: // only the nested message differs
			c.SvcTop = append([]int(nil), c.GwTop...)
		}
		// 3-5 rules over distinct leading literals
		nr := 3 + rng.Intn(3)
		for k := 0; k < nr; k++ {
			var vars []string
			used := map[string]bool{}
			nv := 1 + rng.Intn(3)
			for len(vars) < nv {
				var v string
				if rng.Intn(3) == 0 {
					par := []string{"in", "in2"}[rng.Intn(2)]
					v = par + "." + skewInner[rng.Intn(len(skewInner))].name
				} else {
					f := skewTop[rng.Intn(len(skewTop)-2)]
					v = f.name
				}
				if !used[v] {
					used[v] = true
					vars = append(vars, v)
				}
			}
			t := fmt.Sprintf("/os/r%d", k)
			for _, v := range vars {
				t += "/{" + v + "}"
			}
			c.Rules = append(c.Rules, skewRule{Tmpl: t, Vars: vars})
		}
		runSkewCase(r, c, rng)
	}
}

func reverse(p []int) []int {
	out := make([]int, len(p))
	for i, v := range p {
		out[len(p)-1-i] = v
	}
	return out
}
