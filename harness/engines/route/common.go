// Package route holds the routing engines: C01 (soundness), C02
// (completeness / precedence / order independence), C16 (registration
// validity) and C19 (service-config selectors). All of them register
// generated rule sets on a real Mux and observe which recording handler a
// request reaches and with which message.
package route

import (
	"context"
	"fmt"
	"net/http"
	"net/http/httptest"
	"net/url"
	"sort"
	"strconv"
	"strings"
	"sync"
	"sync/atomic"

	"google.golang.org/genproto/googleapis/api/annotations"
	"google.golang.org/genproto/googleapis/api/serviceconfig"
	"google.golang.org/grpc"
	"google.golang.org/grpc/codes"
	"google.golang.org/grpc/metadata"
	"google.golang.org/grpc/status"
	"google.golang.org/protobuf/encoding/protojson"
	"google.golang.org/protobuf/proto"
	"google.golang.org/protobuf/reflect/protoreflect"
	"google.golang.org/protobuf/types/known/emptypb"
	"larking.io/larking"

	"verif/internal/mon"
	"verif/internal/tmplref"
	"verif/internal/vschema"
)

// RuleSpec is one HTTP rule of a method.
type RuleSpec struct {
	Verb string `json:"verb"` // GET PUT POST DELETE PATCH, or a custom kind (e.g. HEAD, *)
	Tmpl string `json:"tmpl"`
	Body string `json:"body,omitempty"`
	Resp string `json:"resp,omitempty"`
	// Via: "annotation" (first rule of the method), "additional" (additional
	// binding of the annotation) or "config" (ServiceConfigOption rule whose
	// selector is Selector, default the method's full name).
	Via      string `json:"via"`
	Selector string `json:"selector,omitempty"`
}

type MethodSpec struct {
	Svc   int        `json:"svc"`
	Name  string     `json:"name"`
	In    string     `json:"in"`
	Out   string     `json:"out,omitempty"`
	Rules []RuleSpec `json:"rules"`
}

type RuleSet struct {
	Pkg      string       `json:"pkg"`
	Services []string     `json:"services"`
	Methods  []MethodSpec `json:"methods"`
}

// Perm is a registration order.
type Perm struct {
	Svc    []int   `json:"svc"`    // order of services
	Method [][]int `json:"method"` // per service: order of its methods (indexes into RuleSet.Methods)
	Add    bool    `json:"add"`    // reverse additional bindings
	Cfg    bool    `json:"cfg"`    // reverse config rules
}

func (rs *RuleSet) methodsOf(svc int) []int {
	var out []int
	for i, m := range rs.Methods {
		if m.Svc == svc {
			out = append(out, i)
		}
	}
	return out
}

func (rs *RuleSet) IdentityPerm() Perm {
	p := Perm{}
	for s := range rs.Services {
		p.Svc = append(p.Svc, s)
		p.Method = append(p.Method, rs.methodsOf(s))
	}
	return p
}

func (rs *RuleSet) Full(mi int) string {
	m := rs.Methods[mi]
	return "/" + rs.Pkg + "." + rs.Services[m.Svc] + "/" + m.Name
}

func (rs *RuleSet) FQN(mi int) string {
	m := rs.Methods[mi]
	return rs.Pkg + "." + rs.Services[m.Svc] + "." + m.Name
}

func httpRule(r RuleSpec) *annotations.HttpRule {
	hr := &annotations.HttpRule{Body: r.Body, ResponseBody: r.Resp}
	switch r.Verb {
	case "GET":
		hr.Pattern = &annotations.HttpRule_Get{Get: r.Tmpl}
	case "PUT":
		hr.Pattern = &annotations.HttpRule_Put{Put: r.Tmpl}
	case "POST":
		hr.Pattern = &annotations.HttpRule_Post{Post: r.Tmpl}
	case "DELETE":
		hr.Pattern = &annotations.HttpRule_Delete{Delete: r.Tmpl}
	case "PATCH":
		hr.Pattern = &annotations.HttpRule_Patch{Patch: r.Tmpl}
	default:
		hr.Pattern = &annotations.HttpRule_Custom{Custom: &annotations.CustomHttpPattern{Kind: r.Verb, Path: r.Tmpl}}
	}
	return hr
}

// Call is what a recording handler saw.
type Call struct {
	Method string
	Msg    proto.Message
}

// Built is a rule set registered on a real mux.
type Built struct {
	RS    *RuleSet
	Mux   *larking.Mux
	FD    protoreflect.FileDescriptor
	mu    sync.Mutex
	calls map[string][]Call // by request id (header X-Vf-Req)
	// RegErr is the first registration error (nil if all services were
	// accepted); RegPanic is set when registration panicked.
	RegErr   error
	RegPanic *mon.PanicInfo
	ErrSvc   int
	Tag      string
}

func (b *Built) take(id string) []Call {
	b.mu.Lock()
	defer b.mu.Unlock()
	c := b.calls[id]
	delete(b.calls, id)
	return c
}

var reqSeq int64

func (b *Built) Unary(ctx context.Context, md protoreflect.MethodDescriptor, in proto.Message) (proto.Message, error) {
	id := ""
	if m, ok := metadata.FromIncomingContext(ctx); ok {
		if v := m.Get("x-vf-req"); len(v) > 0 {
			id = v[0]
		}
	}
	b.mu.Lock()
	if b.calls == nil {
		b.calls = map[string][]Call{}
	}
	b.calls[id] = append(b.calls[id], Call{Method: vschema.FullMethod(md), Msg: proto.Clone(in)})
	b.mu.Unlock()
	out := vschema.NewMsg(md.Output())
	if fd := md.Output().Fields().ByName("method"); fd != nil && fd.Kind() == protoreflect.StringKind {
		out.ProtoReflect().Set(fd, protoreflect.ValueOfString(vschema.FullMethod(md)))
	}
	if fd := md.Output().Fields().ByName("tag"); fd != nil && fd.Kind() == protoreflect.StringKind && b.Tag != "" {
		out.ProtoReflect().Set(fd, protoreflect.ValueOfString(b.Tag))
	}
	return out, nil
}

func (b *Built) Stream(md protoreflect.MethodDescriptor, ss grpc.ServerStream) error {
	return status.Error(codes.Unimplemented, "route engine has no streaming handlers")
}

var _ = emptypb.Empty{}

// File renders the rule set (in a given order) as a vschema file plus the
// service-config rules.
func (rs *RuleSet) File(p Perm, path string) (*vschema.File, []*annotations.HttpRule) {
	f := &vschema.File{Path: path, Pkg: rs.Pkg}
	var cfg []*annotations.HttpRule
	// services are always declared in index order in the file; the
	// registration order is what Perm.Svc permutes. Method order inside a
	// service follows Perm.Method (it determines the ServiceDesc order).
	for s, name := range rs.Services {
		svc := vschema.Service{Name: name}
		for _, mi := range p.Method[s] {
			m := rs.Methods[mi]
			out := m.Out
			if out == "" {
				out = "vf.Rsp"
			}
			vm := vschema.Method{Name: m.Name, In: m.In, Out: out}
			var ann *annotations.HttpRule
			var adds []*annotations.HttpRule
			for _, r := range m.Rules {
				switch r.Via {
				case "annotation":
					ann = httpRule(r)
				case "additional":
					adds = append(adds, httpRule(r))
				case "config":
					hr := httpRule(r)
					hr.Selector = r.Selector
					if hr.Selector == "" {
						hr.Selector = rs.Pkg + "." + name + "." + m.Name
					}
					cfg = append(cfg, hr)
				}
			}
			if p.Add {
				for i, j := 0, len(adds)-1; i < j; i, j = i+1, j-1 {
					adds[i], adds[j] = adds[j], adds[i]
				}
			}
			if ann != nil {
				ann.AdditionalBindings = adds
				vm.Rule = ann
			}
			svc.Methods = append(svc.Methods, vm)
		}
		f.Services = append(f.Services, svc)
	}
	if p.Cfg {
		for i, j := 0, len(cfg)-1; i < j; i, j = i+1, j-1 {
			cfg[i], cfg[j] = cfg[j], cfg[i]
		}
	}
	return f, cfg
}

var fileSeq struct {
	sync.Mutex
	n int
}

func nextPath() string {
	fileSeq.Lock()
	defer fileSeq.Unlock()
	fileSeq.n++
	return fmt.Sprintf("vf/gen%d.proto", fileSeq.n)
}

// Prepare builds descriptors and a fresh mux for the rule set without
// registering any service yet.
func Prepare(rs *RuleSet, p Perm, extra ...larking.MuxOption) (*Built, error) {
	f, cfg := rs.File(p, nextPath())
	fd, err := f.Build()
	if err != nil {
		return nil, fmt.Errorf("descriptor build: %w", err)
	}
	reg, err := vschema.Registry(fd)
	if err != nil {
		return nil, err
	}
	b := &Built{RS: rs, FD: fd, ErrSvc: -1}
	opts := []larking.MuxOption{larking.FilesOption(reg)}
	if len(cfg) > 0 {
		var pi *mon.PanicInfo
		var opt larking.MuxOption
		pi = mon.Catch(func() {
			opt = larking.ServiceConfigOption(&serviceconfig.Service{Http: &annotations.Http{Rules: cfg}})
		})
		if pi != nil {
			b.RegPanic = pi
			return b, nil
		}
		opts = append(opts, opt)
	}
	opts = append(opts, extra...)
	var mux *larking.Mux
	if pi := mon.Catch(func() { mux, err = larking.NewMux(opts...) }); pi != nil {
		b.RegPanic = pi
		return b, nil
	}
	if err != nil {
		return nil, err
	}
	b.Mux = mux
	return b, nil
}

// Register registers service s of the rule set. It returns the registration
// error and, separately, a recovered panic.
func (b *Built) Register(s int) (error, *mon.PanicInfo) {
	sd := b.FD.Services().ByName(protoreflect.Name(b.RS.Services[s]))
	if sd == nil || sd.Methods().Len() == 0 {
		return nil, nil
	}
	gsd := vschema.ServiceDesc(sd, b)
	var rerr error
	pi := mon.Catch(func() { rerr = larking.VerifRegisterService(b.Mux, gsd, struct{}{}) })
	return rerr, pi
}

// Build registers the rule set on a fresh mux in the given order. Descriptor
// construction errors (harness bugs or schema-level invalidity) are returned
// as err; registration outcomes are recorded in Built.
func Build(rs *RuleSet, p Perm, extra ...larking.MuxOption) (*Built, error) {
	b, err := Prepare(rs, p, extra...)
	if err != nil || b.RegPanic != nil {
		return b, err
	}
	for _, s := range p.Svc {
		rerr, pi := b.Register(s)
		if pi != nil {
			b.RegPanic = pi
			b.ErrSvc = s
			return b, nil
		}
		if rerr != nil {
			b.RegErr = rerr
			b.ErrSvc = s
			return b, nil
		}
	}
	return b, nil
}

// Outcome of one request.
type Outcome struct {
	Status  int
	Method  string // "" when no handler was reached
	MsgJSON string
	Msg     proto.Message
	Panic   *mon.PanicInfo
	Body    string
	NCalls  int
}

func (o Outcome) String() string {
	if o.Panic != nil {
		return "panic:" + o.Panic.Key()
	}
	if o.Method == "" {
		return fmt.Sprintf("status=%d no-dispatch", o.Status)
	}
	return fmt.Sprintf("status=%d %s %s", o.Status, o.Method, o.MsgJSON)
}

// Same compares the request-visible outcome (status, method, message).
func (o Outcome) Same(p Outcome) bool {
	if (o.Panic != nil) != (p.Panic != nil) {
		return false
	}
	return o.Status == p.Status && o.Method == p.Method && o.MsgJSON == p.MsgJSON
}

// Do serves one body-less request in-process. The URL path is used verbatim
// (no percent-decoding step), query is the raw query string.
func (b *Built) Do(verb, path, query string, hdr http.Header) Outcome {
	return b.DoWith(verb, path, query, hdr, nil)
}

// DoWith is Do with a last-minute modification of the request (transport
// variants that must not change routing).
func (b *Built) DoWith(verb, path, query string, hdr http.Header, mod func(*http.Request)) Outcome {
	req := &http.Request{
		Method:     verb,
		URL:        &url.URL{Path: path, RawQuery: query},
		Proto:      "HTTP/1.1",
		ProtoMajor: 1,
		ProtoMinor: 1,
		Header:     http.Header{},
		Body:       http.NoBody,
		Host:       "verif.test",
		RemoteAddr: "192.0.2.1:1234",
		RequestURI: path,
	}
	for k, v := range hdr {
		req.Header[k] = v
	}
	// the request id travels as a custom header (= incoming metadata) so
	// that recorded handler calls can be attributed under concurrency
	id := strconv.FormatInt(atomic.AddInt64(&reqSeq, 1), 10)
	req.Header["X-Vf-Req"] = []string{id}
	req = req.WithContext(context.Background())
	if mod != nil {
		mod(req)
	}
	rec := httptest.NewRecorder()
	var o Outcome
	o.Panic = mon.Catch(func() { b.Mux.ServeHTTP(rec, req) })
	calls := b.take(id)
	o.Status = rec.Code
	o.NCalls = len(calls)
	o.Body = rec.Body.String()
	if len(calls) > 0 {
		o.Method = calls[0].Method
		o.Msg = calls[0].Msg
		js, err := protojson.MarshalOptions{}.Marshal(calls[0].Msg)
		if err != nil {
			o.MsgJSON = "marshal error: " + err.Error()
		} else {
			o.MsgJSON = canonJSON(js)
		}
	}
	return o
}

// canonJSON removes protojson's deliberate whitespace instability.
func canonJSON(b []byte) string {
	s := string(b)
	s = strings.ReplaceAll(s, ": ", ":")
	s = strings.ReplaceAll(s, ", ", ",")
	return s
}

// ParsedRule is a rule with its parsed reference template.
type ParsedRule struct {
	Method int
	Rule   RuleSpec
	T      *tmplref.Template
	Verb   string // upper-cased
	Impl   bool   // the implicit /Service/Method binding
}

// Rules parses all rules of the set with the reference grammar, adding the
// implicit binding of every method. Rules the reference cannot parse are
// returned in bad.
func (rs *RuleSet) Rules() (out []ParsedRule, bad []RuleSpec) {
	for mi, m := range rs.Methods {
		for _, r := range m.Rules {
			t, err := tmplref.Parse(r.Tmpl)
			if err != nil {
				bad = append(bad, r)
				continue
			}
			out = append(out, ParsedRule{Method: mi, Rule: r, T: t, Verb: strings.ToUpper(r.Verb)})
		}
		// implicit binding: any verb, path "/pkg.Svc/Method", body "*"
		full := rs.Full(mi)
		out = append(out, ParsedRule{Method: mi, Rule: RuleSpec{Verb: "*", Tmpl: full, Body: "*", Via: "implicit"},
			T: implicitTemplate(full), Verb: "*", Impl: true})
	}
	return out, bad
}

func implicitTemplate(full string) *tmplref.Template {
	parts := strings.Split(strings.TrimPrefix(full, "/"), "/")
	t := &tmplref.Template{Src: full}
	for _, p := range parts {
		t.Segs = append(t.Segs, tmplref.Seg{Kind: tmplref.Lit, Text: p})
	}
	return t
}

func verbOK(ruleVerb, reqVerb string) bool {
	return ruleVerb == "*" || ruleVerb == reqVerb
}

// NormPath applies the documented normalisation: leading '/', one trailing
// '/' removed.
func NormPath(p string) string {
	if !strings.HasPrefix(p, "/") {
		p = "/" + p
	}
	return strings.TrimSuffix(p, "/")
}

func sortedKeys(m map[string]string) []string {
	var ks []string
	for k := range m {
		ks = append(ks, k)
	}
	sort.Strings(ks)
	return ks
}
