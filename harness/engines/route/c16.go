package route

import (
	"context"
	"encoding/json"
	"fmt"
	"google.golang.org/genproto/googleapis/api/annotations"
	"google.golang.org/grpc"
	"google.golang.org/protobuf/proto"
	"google.golang.org/protobuf/reflect/protodesc"
	"google.golang.org/protobuf/reflect/protoregistry"
	"google.golang.org/protobuf/types/descriptorpb"
	"math/rand"
	"strings"
	"sync"
	"time"
	"verif/internal/backend"

	"google.golang.org/protobuf/reflect/protoreflect"
	"larking.io/larking"

	"verif/internal/mon"
	"verif/internal/textref"
	"verif/internal/tmplref"
	"verif/internal/vschema"
)

// Cand is one registration candidate: a rule bound to method Tgt of service
// Cnd (which also has a plain method Oth), registered after the services of
// Base (possibly none).
type Cand struct {
	Rule   RuleSpec `json:"rule"`
	Nested bool     `json:"nested_additional,omitempty"` // wrap a nested additional binding around it
	// OnOth binds the rule to method Oth instead, to provoke conflicts with
	// Tgt's own rule TgtRule.
	TgtRule *RuleSpec `json:"tgt_rule,omitempty"`
	Base    *RuleSet  `json:"base,omitempty"`
	Origin  string    `json:"origin"`
	Pkg     string    `json:"pkg,omitempty"`
	// TgtName overrides the candidate method's short name (to collide with
	// the short name of a method of another service).
	TgtName string `json:"tgt_name,omitempty"`
	// SecondProvider: the candidate service is already served, in an older
	// revision without the candidate rule(s), by a back-end registered with
	// RegisterConn; the candidate revision arrives through a second
	// back-end (version skew between replicas). Acceptance, refusal and
	// routability are demanded as for a first registration.
	SecondProvider bool `json:"second_provider,omitempty"`
	// Annotated: the candidate rule is delivered through the service
	// configuration (Rule.Via == "config") for a method that ALSO carries a
	// valid google.api.http annotation of its own.
	Annotated bool `json:"config_rule_on_annotated_method,omitempty"`
}

type class int

const (
	valid   class = iota // must be accepted, then routable
	invalid              // must be rejected with an error
	unspec               // only "no panic" is required
)

func (c class) String() string { return [...]string{"valid", "invalid", "unspecified"}[c] }

func scalarLeaf(fd protoreflect.FieldDescriptor) bool {
	if fd.IsList() || fd.IsMap() {
		return false
	}
	if fd.Message() != nil {
		switch fd.Message().FullName() {
		case "google.protobuf.Timestamp", "google.protobuf.Duration", "google.protobuf.FieldMask",
			"google.protobuf.StringValue", "google.protobuf.Int64Value":
			return true
		}
		return false
	}
	return true
}

// candRuleSet assembles base services + the candidate service.
func candRuleSet(c *Cand, id int) (*RuleSet, int) {
	if c.Pkg == "" {
		c.Pkg = fmt.Sprintf("vf.c%d", id)
	}
	rs := &RuleSet{Pkg: c.Pkg}
	if c.Base != nil {
		rs.Services = append(rs.Services, c.Base.Services...)
		rs.Methods = append(rs.Methods, c.Base.Methods...)
	}
	cs := len(rs.Services)
	rs.Services = append(rs.Services, "Cnd")
	tgtName := "Tgt"
	if c.TgtName != "" {
		tgtName = c.TgtName
	}
	tgt := MethodSpec{Svc: cs, Name: tgtName, In: "vf.Req", Out: "vf.Rsp"}
	oth := MethodSpec{Svc: cs, Name: "Oth", In: "vf.Req", Out: "vf.Rsp"}
	if c.TgtRule != nil {
		tgt.Rules = []RuleSpec{*c.TgtRule}
		oth.Rules = []RuleSpec{c.Rule}
	} else {
		tgt.Rules = []RuleSpec{c.Rule}
	}
	if c.Annotated && c.Rule.Via == "config" {
		own := RuleSpec{Verb: "GET", Tmpl: fmt.Sprintf("/ann%d/own", id), Via: "annotation"}
		if c.TgtRule != nil {
			oth.Rules = append([]RuleSpec{own}, oth.Rules...)
		} else {
			tgt.Rules = append([]RuleSpec{own}, tgt.Rules...)
		}
	}
	rs.Methods = append(rs.Methods, tgt, oth)
	return rs, cs
}

// classify decides, independently of larking, what registration must do.
// approxTokens is an upper estimate of the number of lexer tokens of a
// template: every structural character and every run between them.
func approxTokens(tmpl string) int {
	n := 1
	for _, ch := range tmpl {
		switch ch {
		case '/', '{', '}', '=', ':':
			n += 2
		}
	}
	return n
}

// schemaSkew registers the same rules against two revisions of a message
// with one full name, each on a mux of its own (own FilesOption registry):
// revision 1 has the fields the rules name, revision 2 lacks them. Revision 1
// first, then revision 2 (must be refused as an unknown field path), then
// revision 1 again (must still be accepted).
func schemaSkew(r *mon.Run) {
	mk := func(rev int, rule *annotations.HttpRule) (*larking.Mux, *grpc.ServiceDesc, error) {
		name, sub := "M", "Inner"
		inner := &descriptorpb.DescriptorProto{Name: &sub, Field: []*descriptorpb.FieldDescriptorProto{vschema.StrField("k", 1)}}
		m := &descriptorpb.DescriptorProto{Name: &name, Field: []*descriptorpb.FieldDescriptorProto{vschema.StrField("a", 1)}}
		if rev == 1 {
			m.Field = append(m.Field, vschema.StrField("x", 2), vschema.I64Field("cnt", 3), vschema.MsgField("in", 4, "vf.sk.Inner"))
			inner.Field = append(inner.Field, vschema.StrField("deep", 2))
		}
		f := &vschema.File{Path: "vf/sk.proto", Pkg: "vf.sk", Messages: []*descriptorpb.DescriptorProto{m, inner},
			Services: []vschema.Service{{Name: "S", Methods: []vschema.Method{{Name: "Do", In: "vf.sk.M", Out: "vf.Rsp", Rule: rule}}}}}
		fd, err := f.Build()
		if err != nil {
			return nil, nil, err
		}
		reg, err := vschema.Registry(fd)
		if err != nil {
			return nil, nil, err
		}
		mux, err := larking.NewMux(larking.FilesOption(reg))
		if err != nil {
			return nil, nil, err
		}
		return mux, vschema.ServiceDesc(fd.Services().Get(0), &Built{}), nil
	}
	rules := []struct {
		name string
		rule *annotations.HttpRule
	}{
		{"path-variable", &annotations.HttpRule{Pattern: &annotations.HttpRule_Get{Get: "/sk/{x}"}}},
		{"typed-path-variable", &annotations.HttpRule{Pattern: &annotations.HttpRule_Get{Get: "/sk/n/{cnt}"}}},
		{"body-selector", &annotations.HttpRule{Pattern: &annotations.HttpRule_Post{Post: "/sk/b"}, Body: "in"}},
		{"nested-path-variable", &annotations.HttpRule{Pattern: &annotations.HttpRule_Get{Get: "/sk/d/{in.deep}"}}},
		{"response-body-independent", &annotations.HttpRule{Pattern: &annotations.HttpRule_Get{Get: "/sk/a/{a}/{x}"}}},
	}
	for _, rl := range rules {
		for i, rev := range []int{1, 2, 1, 2} {
			mux, sd, err := mk(rev, rl.rule)
			if err != nil {
				r.Inconclusive("schema skew harness: " + err.Error())
				return
			}
			var rerr error
			pi := mon.Catch(func() { rerr = larking.VerifRegisterService(mux, sd, struct{}{}) })
			r.Eval(1)
			c := map[string]any{"rule": rl.name, "revision": rev, "step": i}
			switch {
			case pi != nil:
				r.Violate(pi.Key(), fmt.Sprintf("schema revision %d, %s: registration panicked: %s", rev, rl.name, pi.Value), c)
				return
			case rev == 1 && rerr != nil:
				r.Violate("rejected-valid:schema-revision-with-the-field:"+rl.name, fmt.Sprintf("step %d: the rule names fields revision 1 of vf.sk.M has, yet it was refused: %v", i, rerr), c)
				return
			case rev == 2 && rerr == nil:
				r.Violate("accepted-invalid:unknown-field-path:other-revision-of-the-message-has-it:"+rl.name, fmt.Sprintf("step %d: revision 2 of vf.sk.M (registered on its own mux with its own FilesOption registry) lacks the field the rule names, yet the rule was accepted", i), c)
				return
			}
			r.Distinct(fmt.Sprintf("schema-skew:%s:rev%d", rl.name, rev))
		}
	}
}

var importSkewOnce sync.Once

// importSkew: the gateway process links vf/skewdep.proto with
// Scope{zone}; the back-end was built against a newer vf/skewdep.proto with
// Scope{zone, region} and binds a path variable to scope.region. RegisterConn
// must take the back-end's own revision (delivered by reflection).
func importSkew(r *mon.Run) {
	str := func(s string) *string { return &s }
	dep := func(withRegion bool) *descriptorpb.FileDescriptorProto {
		m := &descriptorpb.DescriptorProto{Name: str("Scope"), Field: []*descriptorpb.FieldDescriptorProto{vschema.StrField("zone", 1)}}
		if withRegion {
			m.Field = append(m.Field, vschema.StrField("region", 2))
		}
		return &descriptorpb.FileDescriptorProto{Name: str("vf/skewdep.proto"), Package: str("vf.skd"), Syntax: str("proto3"), MessageType: []*descriptorpb.DescriptorProto{m}}
	}
	var regErr error
	importSkewOnce.Do(func() {
		fdA, err := protodesc.NewFile(dep(false), protoregistry.GlobalFiles)
		if err != nil {
			regErr = err
			return
		}
		regErr = protoregistry.GlobalFiles.RegisterFile(fdA)
	})
	if regErr != nil {
		r.Inconclusive("import skew: cannot link the gateway's revision: " + regErr.Error())
		return
	}
	fdB, err := protodesc.NewFile(dep(true), protoregistry.GlobalFiles)
	if err != nil {
		r.Inconclusive("import skew: " + err.Error())
		return
	}
	files := new(protoregistry.Files)
	files.RegisterFile(fdB)
	files.RegisterFile(vschema.TypesFile())
	for _, p := range []string{"google/api/annotations.proto", "google/api/http.proto", "google/protobuf/descriptor.proto"} {
		if fd, err := protoregistry.GlobalFiles.FindFileByPath(p); err == nil {
			files.RegisterFile(fd)
		}
	}
	opts := &descriptorpb.MethodOptions{}
	proto.SetExtension(opts, annotations.E_Http, &annotations.HttpRule{Pattern: &annotations.HttpRule_Get{Get: "/skd/{scope.region}/things/{id}"}})
	svc := &descriptorpb.FileDescriptorProto{
		Name: str("vf/skewsvc.proto"), Package: str("vf.skd"), Syntax: str("proto3"),
		Dependency:  []string{"vf/skewdep.proto", "google/api/annotations.proto", string(vschema.TypesFile().Path())},
		MessageType: []*descriptorpb.DescriptorProto{{Name: str("ThingReq"), Field: []*descriptorpb.FieldDescriptorProto{vschema.MsgField("scope", 1, "vf.skd.Scope"), vschema.StrField("id", 2)}}},
		Service: []*descriptorpb.ServiceDescriptorProto{{Name: str("Things"), Method: []*descriptorpb.MethodDescriptorProto{{
			Name: str("Get"), InputType: str(".vf.skd.ThingReq"), OutputType: str(".vf.Rsp"), Options: opts}}}},
	}
	fdS, err := protodesc.NewFile(svc, files)
	if err != nil {
		r.Inconclusive("import skew: " + err.Error())
		return
	}
	rec := &Built{}
	be, err := backend.Start("skd", true, backend.Svc{SD: fdS.Services().Get(0), Impl: rec})
	if err != nil {
		r.Inconclusive("import skew back-end: " + err.Error())
		return
	}
	defer be.Close()
	be.SetFiles(fdS, fdB)
	mux, err := larking.NewMux()
	if err != nil {
		r.Inconclusive("import skew mux: " + err.Error())
		return
	}
	rec.Mux = mux
	r.Eval(1)
	ctx, cancel := context.WithTimeout(context.Background(), 20*time.Second)
	var rerr error
	pi := mon.Catch(func() { rerr = mux.RegisterConn(ctx, be.CC) })
	cancel()
	c := map[string]any{"case": "back-end imports vf/skewdep.proto in a newer revision than the gateway links"}
	if pi != nil {
		r.Violate(pi.Key(), "RegisterConn panicked: "+pi.Value, c)
		return
	}
	if rerr != nil {
		r.Violate("rejected-valid:backend-import-shadowed-by-gateway-file", "the back-end's own revision of the imported file has the field the rule names, yet RegisterConn failed: "+rerr.Error(), c)
		return
	}
	o := rec.Do("GET", "/skd/eu-west/things/42", "", nil)
	if o.Status != 200 || o.Method != "/vf.skd.Things/Get" || !strings.Contains(o.MsgJSON, "eu-west") {
		r.Violate("unroutable-after-accept:backend-import-revision", fmt.Sprintf("GET /skd/eu-west/things/42 after the accepted registration: [%s]", o), c)
		return
	}
	r.Distinct("import-skew:accepted-and-routed")
}

func via2(c *Cand) string {
	if c.SecondProvider {
		return ":second-provider"
	}
	if c.Rule.Via == "config" {
		if c.Annotated {
			return ":service-config-rule-on-annotated-method"
		}
		return ":service-config-rule"
	}
	return ""
}

// deliver rotates how the candidate rule reaches the mux: the method's
// annotation, a ServiceConfigOption rule for a method without annotation, a
// ServiceConfigOption rule for a method that has a valid annotation too.
var deliverSeq int

func deliver(c *Cand) *Cand {
	deliverSeq++
	switch deliverSeq % 4 {
	case 1:
		c.Rule.Via = "config"
	case 3:
		c.Rule.Via = "config"
		c.Annotated = true
	}
	return c
}

func classify(c *Cand, rs *RuleSet, cs int) (cl class, reason string, t *tmplref.Template) {
	if c.Nested {
		// still classify the template: a malformed one is invalid either way
		return invalid, "nested-additional-bindings", nil
	}
	r := c.Rule
	t, err := tmplref.Parse(r.Tmpl)
	if err != nil {
		return invalid, "malformed-template", nil
	}
	cl = valid
	reason = "well-formed"
	rank := func(c class) int { return map[class]int{valid: 0, unspec: 1, invalid: 2}[c] }
	mark := func(c class, why string) {
		if rank(c) > rank(cl) {
			cl, reason = c, why
		}
	}
	if t.NestedVar {
		mark(unspec, "nested-variable")
	}
	if t.StarStarNotEnd {
		mark(unspec, "starstar-not-last")
	}
	if t.OddLitStart {
		mark(unspec, "literal-odd-start")
	}
	// larking's template lexer has a fixed token budget (64): templates that
	// come near it are refused with an error, which the grammar does not
	// say; only "no panic" and failure atomicity are demanded there
	if approxTokens(r.Tmpl) > 50 {
		mark(unspec, "very-long-template")
	}
	md := reqDesc()
	seen := map[string]bool{}
	var walk func(ss []tmplref.Seg)
	walk = func(ss []tmplref.Seg) {
		for _, s := range ss {
			if s.Kind != tmplref.Var {
				continue
			}
			fds := textref.Resolve(md, s.Field)
			if fds == nil {
				// does larking's notion (walk through any message field)
				// resolve it? a path through a repeated message is unspecified
				if resolvesLoosely(md, s.Field) {
					mark(unspec, "variable-through-repeated-field")
				} else {
					mark(invalid, "unknown-field-path")
				}
			} else {
				if !scalarLeaf(fds[len(fds)-1]) {
					mark(unspec, "variable-on-non-scalar-field")
				}
				k := string(fds[len(fds)-1].FullName())
				if seen[k] {
					mark(unspec, "field-bound-twice")
				}
				seen[k] = true
			}
			walk(s.Pat)
		}
	}
	walk(t.Segs)
	switch r.Body {
	case "", "*":
	default:
		fds := textref.Resolve(md, strings.Split(r.Body, "."))
		if fds == nil {
			if resolvesLoosely(md, strings.Split(r.Body, ".")) {
				mark(unspec, "body-through-repeated-field")
			} else {
				mark(invalid, "unresolvable-body")
			}
		} else if last := fds[len(fds)-1]; last.Message() == nil || last.IsList() || last.IsMap() {
			mark(unspec, "body-on-non-message-field")
		}
	}
	if r.Resp != "" {
		fds := textref.Resolve(vschema.Msg("vf.Rsp"), strings.Split(r.Resp, "."))
		if fds == nil {
			if resolvesLoosely(vschema.Msg("vf.Rsp"), strings.Split(r.Resp, ".")) {
				mark(unspec, "response_body-through-repeated-field")
			} else {
				mark(invalid, "unresolvable-response_body")
			}
		} else if last := fds[len(fds)-1]; last.Message() == nil || last.IsList() || last.IsMap() {
			mark(unspec, "response_body-on-non-message-field")
		}
	}
	verb := strings.ToUpper(r.Verb)
	if verb == "" {
		mark(unspec, "empty-custom-kind")
	}
	// conflicts with bindings of other methods (explicit and implicit)
	prules, _ := rs.Rules()
	self := len(rs.Methods) - 2 // Tgt
	if c.TgtRule != nil {
		self = len(rs.Methods) - 1 // Oth
	}
	mine := strings.Join(t.EdgeKeys(), "|")
	for _, pr := range prules {
		if pr.Method == self {
			continue
		}
		if strings.Join(pr.T.EdgeKeys(), "|") != mine {
			continue
		}
		switch {
		case pr.Verb == verb && verb != "*":
			mark(invalid, "conflict-same-verb")
		case pr.Verb == verb && verb == "*":
			mark(invalid, "conflict-same-verb")
		case pr.Verb == "*" || verb == "*":
			mark(unspec, "overlap-with-any-verb-binding")
		}
	}
	// same method, same position, different text: ambiguous
	for _, pr := range prules {
		if pr.Method == self && pr.T.Src != t.Src && strings.Join(pr.T.EdgeKeys(), "|") == mine && (pr.Verb == verb || pr.Verb == "*" || verb == "*") {
			mark(unspec, "same-method-same-pattern")
		}
	}
	return cl, reason, t
}

func resolvesLoosely(md protoreflect.MessageDescriptor, path []string) bool {
	for i, name := range path {
		fd := md.Fields().ByJSONName(name)
		if fd == nil {
			fd = md.Fields().ByName(protoreflect.Name(name))
		}
		if fd == nil {
			return false
		}
		if i != len(path)-1 {
			if fd.Message() == nil {
				return false
			}
			md = fd.Message()
		}
	}
	return true
}

func feature(c *Cand, t *tmplref.Template) string {
	var fs []string
	if t != nil {
		if t.OneLetterLit {
			fs = append(fs, "one-letter-literal")
		}
		for _, v := range t.Vars() {
			if len(v) > 1 {
				fs = append(fs, "nested-field")
				break
			}
		}
		if t.Verb != "" {
			fs = append(fs, "verb")
		}
	}
	if c.Rule.Resp != "" {
		fs = append(fs, "response_body")
	}
	if c.Rule.Body != "" && c.Rule.Body != "*" {
		fs = append(fs, "body-field")
	}
	if len(fs) == 0 && t != nil {
		return t.Shape()
	}
	return strings.Join(fs, "+")
}

var c16seq int

func execCand(r *mon.Run, c *Cand, rng *rand.Rand) {
	c16seq++
	rs, cs := candRuleSet(c, c16seq)
	cl, reason, t := classify(c, rs, cs)
	r.Eval(1)
	if c.TgtRule != nil {
		// the conflict cases need Tgt's own rule to be registrable on the base
		pre := &Cand{Rule: *c.TgtRule, Base: c.Base, Pkg: c.Pkg + "pre"}
		prs, pcs := candRuleSet(pre, 0)
		if pcl, _, _ := classify(pre, prs, pcs); pcl != valid {
			r.Count("conflict_cases_skipped_tgt_rule_not_valid_on_base", 1)
			return
		}
		pb, err := Build(prs, prs.IdentityPerm())
		if err != nil || pb.RegErr != nil || pb.RegPanic != nil {
			r.Count("conflict_cases_skipped_tgt_rule_not_valid_on_base", 1)
			return
		}
	}
	perm := rs.IdentityPerm()
	file := rs
	if c.Nested {
		// express nesting: annotation -> additional -> additional
		file = &RuleSet{Pkg: rs.Pkg, Services: rs.Services, Methods: append([]MethodSpec(nil), rs.Methods...)}
	}
	b, err := prepareCand(file, perm, c)
	if err != nil {
		// the descriptor layer (protodesc) refused: not larking's decision
		r.Count("candidates_refused_by_protodesc", 1)
		return
	}
	if b.RegPanic != nil {
		r.Violate(b.RegPanic.Key(), "mux construction panicked: "+b.RegPanic.Value, c)
		return
	}
	// base services first
	for s := 0; s < cs; s++ {
		rerr, pi := b.Register(s)
		if rerr != nil || pi != nil {
			r.Count("base_not_registrable_skipped", 1)
			return
		}
	}
	var be2 *backend.Backend
	if c.SecondProvider {
		// older revision: same services and methods, no rules on Cnd
		v1 := &RuleSet{Pkg: rs.Pkg, Services: []string{rs.Services[cs]}}
		for _, m := range rs.Methods[len(rs.Methods)-2:] {
			m.Svc = 0
			m.Rules = nil
			v1.Methods = append(v1.Methods, m)
		}
		// both revisions live in a file of their own that holds nothing but
		// the candidate service (a back-end's file must only describe what
		// the back-end serves)
		spPath := fmt.Sprintf("vf/c16sp%d.proto", c16seq)
		v2 := &RuleSet{Pkg: rs.Pkg, Services: []string{rs.Services[cs]}}
		for _, m := range rs.Methods[len(rs.Methods)-2:] {
			m.Svc = 0
			v2.Methods = append(v2.Methods, m)
		}
		f2, _ := v2.File(v2.IdentityPerm(), spPath)
		if c.Nested {
			r.Count("second_provider_nested_skipped", 1)
			return
		}
		fd2, err := f2.Build()
		if err != nil {
			r.Count("candidates_refused_by_protodesc", 1)
			return
		}
		f1, _ := v1.File(v1.IdentityPerm(), spPath)
		fd1, err := f1.Build()
		if err != nil {
			r.Count("second_provider_v1_refused_by_protodesc", 1)
			return
		}
		be1, err := backend.Start("c16v1", true, backend.Svc{SD: fd1.Services().Get(0), Impl: b})
		if err != nil {
			r.Inconclusive("back-end: " + err.Error())
			return
		}
		defer be1.Close()
		ctx, cancel := context.WithTimeout(context.Background(), 20*time.Second)
		err = b.Mux.RegisterConn(ctx, be1.CC)
		cancel()
		if err != nil {
			r.Count("second_provider_v1_not_registrable_skipped", 1)
			return
		}
		if be2, err = backend.Start("c16v2", true, backend.Svc{SD: fd2.Services().Get(0), Impl: b}); err != nil {
			r.Inconclusive("back-end: " + err.Error())
			return
		}
		defer be2.Close()
		r.Count("second_provider_candidates", 1)
	}
	snap0 := larking.VerifSnapshot(b.Mux)
	fp0 := larking.VerifFingerprint(snap0)
	var probes []Req
	var before []Outcome
	if c.Base != nil {
		bpr, _ := c.Base.Rules()
		probes = genRequests(rng, bpr, 1, false)
		if len(probes) > 12 {
			probes = probes[:12]
		}
		for _, q := range probes {
			before = append(before, b.Do(q.Verb, q.Path, "", nil))
		}
	}
	if c.TgtRule != nil {
		// the rule of the method registered just before the refused one
		// must not become routable either
		if tt, perr := tmplref.Parse(c.TgtRule.Tmpl); perr == nil {
			for k := 0; k < 2; k++ {
				q := Req{Verb: reqVerbFor(rng, c.TgtRule.Verb), Path: Instantiate(rng, tt, reqDesc(), false).Path()}
				probes = append(probes, q)
				before = append(before, b.Do(q.Verb, q.Path, "", nil))
			}
		}
	}
	var rerr error
	var pi *mon.PanicInfo
	if be2 != nil {
		ctx, cancel := context.WithTimeout(context.Background(), 20*time.Second)
		pi = mon.Catch(func() { rerr = b.Mux.RegisterConn(ctx, be2.CC) })
		cancel()
	} else {
		rerr, pi = b.Register(cs)
	}
	if pi != nil {
		r.Violate(pi.Key(), fmt.Sprintf("registering %s %q (class %s/%s) panicked: %s", c.Rule.Verb, c.Rule.Tmpl, cl, reason, pi.Value), c)
		return
	}
	if r.SampleN() < 6 && (c16seq%997 == 3 || c16seq < 3) {
		r.Sample(map[string]any{"origin": c.Origin, "verb": c.Rule.Verb, "template": c.Rule.Tmpl, "body": c.Rule.Body, "response_body": c.Rule.Resp, "class": cl.String(), "reason": reason, "rejected": rerr != nil, "populated_mux": c.Base != nil})
	}
	shapeKey := cl.String() + ":" + reason
	if t != nil {
		shapeKey += ":" + t.Shape()
	}
	if rerr != nil {
		r.Count("rejected", 1)
		if cl == valid {
			r.Violate("rejected-valid:"+feature(c, t)+via2(c), fmt.Sprintf("well-formed rule %s %q body=%q response_body=%q rejected: %v", c.Rule.Verb, c.Rule.Tmpl, c.Rule.Body, c.Rule.Resp, rerr), c)
			return
		}
		// failure atomicity
		snap1 := larking.VerifSnapshot(b.Mux)
		if !larking.VerifSameSnapshot(snap0, snap1) {
			r.Violate("failed-registration-changed-state:snapshot-replaced", "a failed registration published a new routing state", c)
		} else if fp1 := larking.VerifFingerprint(snap1); fp1 != fp0 {
			r.Violate("failed-registration-changed-state:snapshot-mutated", "a failed registration mutated the published routing state in place", c)
		}
		for i, q := range probes {
			if o := b.Do(q.Verb, q.Path, "", nil); !o.Same(before[i]) {
				r.Violate("failed-registration-changed-state:routes", fmt.Sprintf("%s %s: before [%s], after failed registration [%s]", q.Verb, q.Path, before[i], o), c)
				break
			}
		}
		r.Count("failure_atomicity_checks", 1)
		r.Distinct(shapeKey + ":rejected")
		return
	}
	r.Count("accepted", 1)
	if cl == invalid {
		r.Violate("accepted-invalid:"+reason+via2(c), fmt.Sprintf("rule %s %q body=%q response_body=%q (%s) was accepted", c.Rule.Verb, c.Rule.Tmpl, c.Rule.Body, c.Rule.Resp, reason), c)
		return
	}
	// previously registered routes are intact after a successful registration
	for i, q := range probes {
		o := b.Do(q.Verb, q.Path, "", nil)
		if !o.Same(before[i]) {
			// legitimate only if the new rules also match this request
			npr, _ := rs.Rules()
			S, _ := strictSet(npr, q.Verb, q.Path)
			newOwner := false
			for _, s := range S {
				if s.pr.Method >= len(rs.Methods)-2 {
					newOwner = true
				}
			}
			if !newOwner {
				r.Violate("registration-broke-existing-route", fmt.Sprintf("%s %s: before [%s], after registering %q [%s]", q.Verb, q.Path, before[i], c.Rule.Tmpl, o), c)
			}
			break
		}
	}
	if cl != valid {
		// accepted although unspecified: whatever it binds, requests
		// instantiated from it must come back without a panic
		if t != nil {
			for k := 0; k < 3; k++ {
				in := Instantiate(rng, t, reqDesc(), false)
				verb := reqVerbFor(rng, c.Rule.Verb)
				// (bodies are not sent: a query string stands in for the
				// competing values)
				body := []string{"", "a=x", "m.value=v&n=1"}[k]
				o := b.Do(verb, in.Path(), body, nil)
				r.Count("unspecified_accepted_probes", 1)
				if o.Panic != nil {
					r.Violate(o.Panic.Key()+":unspecified-rule-accepted:"+reason, fmt.Sprintf("%s %s (query %q) panicked after %s %q body=%q response_body=%q (%s) was accepted: %s", verb, in.Path(), body, c.Rule.Verb, c.Rule.Tmpl, c.Rule.Body, c.Rule.Resp, reason, o.Panic.Value), c)
					return
				}
			}
		}
		r.Distinct(shapeKey + ":accepted")
		return
	}
	// routable afterwards
	prules, _ := rs.Rules()
	tgtFull := rs.Full(len(rs.Methods) - 2)
	if c.TgtRule != nil {
		tgtFull = rs.Full(len(rs.Methods) - 1)
	}
	for k := 0; k < 3; k++ {
		in := Instantiate(rng, t, reqDesc(), false)
		verb := reqVerbFor(rng, c.Rule.Verb)
		path := in.Path()
		S, allConv := strictSet(prules, verb, path)
		if len(S) == 0 || !allConv {
			continue
		}
		o := b.Do(verb, path, "", nil)
		r.Count("routability_probes", 1)
		if o.Panic != nil {
			r.Violate(o.Panic.Key(), fmt.Sprintf("%s %s panicked after registering %q: %s", verb, path, c.Rule.Tmpl, o.Panic.Value), c)
			return
		}
		owners := map[string]bool{}
		for _, s := range S {
			owners[rs.Full(s.pr.Method)] = true
		}
		if !owners[o.Method] {
			r.Violate("unroutable-after-accept:"+t.Shape(), fmt.Sprintf("%s %s instantiated from accepted %q answered [%s], expected dispatch to %s", verb, path, c.Rule.Tmpl, o, tgtFull), c)
			return
		}
	}
	r.Distinct(shapeKey + ":accepted+routed")
}

func prepareCand(rs *RuleSet, perm Perm, c *Cand) (*Built, error) {
	if !c.Nested {
		return Prepare(rs, perm)
	}
	// nested additional bindings cannot be expressed through RuleSpec.Via;
	// build the file, then patch the annotation.
	f, _ := rs.File(perm, nextPath())
	svc := &f.Services[len(f.Services)-1]
	for i := range svc.Methods {
		if i == 0 && svc.Methods[i].Rule != nil {
			inner := httpRule(RuleSpec{Verb: "GET", Tmpl: "/nested/inner"})
			mid := httpRule(RuleSpec{Verb: "GET", Tmpl: "/nested/mid"})
			mid.AdditionalBindings = append(mid.AdditionalBindings, inner)
			svc.Methods[i].Rule.AdditionalBindings = append(svc.Methods[i].Rule.AdditionalBindings, mid)
		}
	}
	fd, err := f.Build()
	if err != nil {
		return nil, err
	}
	reg, err := vschema.Registry(fd)
	if err != nil {
		return nil, err
	}
	mux, err := larking.NewMux(larking.FilesOption(reg))
	if err != nil {
		return nil, err
	}
	return &Built{RS: rs, FD: fd, Mux: mux, ErrSvc: -1}, nil
}

const editAlphabet = "/{}=*.:a1-_"

func mutants(tmpl string, rng *rand.Rand, all bool) []string {
	rs := []rune(tmpl)
	var out []string
	for i := 0; i <= len(rs); i++ {
		if !all && rng.Intn(3) != 0 {
			continue
		}
		if i < len(rs) {
			out = append(out, string(rs[:i])+string(rs[i+1:]))
		}
		for _, ch := range editAlphabet {
			out = append(out, string(rs[:i])+string(ch)+string(rs[i:]))
			if i < len(rs) && rs[i] != ch {
				out = append(out, string(rs[:i])+string(ch)+string(rs[i+1:]))
			}
		}
	}
	return out
}

var bodySelectors = []string{"", "*", "m.value", "m.key", "rn", "sub", "sub.deep", "osub", "ws", "nope", "sub.nope", "a", "rs", "m", "rsub", "sub.a", "sub.deep.s", "a.b", "rsub.a", "customJson", "long_name", "longName", "*.a", "sub.", ".sub", "sub..deep"}
var respSelectors = []string{"", "echo", "sub", "echo.sub", "echo.sub.deep", "body", "nope", "echo.nope", "tag", "items", "data", "echo.a", "echo.rsub", "echo.rsub.deep", "*", "echo."}

// RunC16 is the registration-validity check.
func RunC16(r *mon.Run) {
	r.Rule = "registration candidates = grammar-derived templates (one-letter/dotted/hyphenated/unicode literals, nested field paths, verbs, every pattern form) x every single-character insertion/deletion/substitution over \"/{}=*.:a1-_\" x body/response_body selector tables x nested additional bindings x re-declarations of another method's explicit or implicit path with each verb, registered onto empty and populated muxes. An independent classifier (reference grammar + field resolution in the request/response types + conflict rule) says valid / invalid / unspecified; observed: error vs acceptance vs panic, snapshot pointer + fingerprint + probe routes after a failure, routing of instantiated paths after acceptance. distinct = (class, reason, template shape, outcome)"
	r.Floor = 40
	rng := r.Rand("c16")
	o := genOpts{OneLetter: true}

	bases := []*RuleSet{nil}
	for i := 0; len(bases) < r.Pick(4, 12) && i < 200; i++ {
		rs := o.GenRuleSet(rng, 900000+i)
		rs.Pkg = "vf.base"
		if b, err := Build(rs, rs.IdentityPerm()); err == nil && b.RegErr == nil && b.RegPanic == nil {
			bases = append(bases, rs)
		}
	}
	baseFor := func() *RuleSet { return bases[rng.Intn(len(bases))] }

	// (a) grammar-derived valid templates, (b) their single-edit mutants
	nt := r.Pick(40, 800)
	handTemplates := []string{"/v1/reports:7d", "/v1/idx/{a}:_search", "/v1/x:2fa", "/v1/y:-z", "/v1/z:.w", "/{a={b}}", "/v1/{a=x1/{b}/y1}", "/{a={b={c}}}/z", "/**/x1", "/{a=**}/x1", "/1a/{a}", "/-x/_y/.z", "/{rs}", "/{sub}", "/{m}", "/{m.value}", "/{m.key}", "/mp/{m.value}/{a}", "/{rsub.a}/x1", "/{rn}", "/{a}/{a}", "/{rsub.a}", "/{sub.rs}", "/q", "/q/{a}", "/v/{sub.deep.s}:x", "/a-b/x.y/{a=q/*}", "/é/{b=ü/**}", "/{a}/{b}/{c}/{d}", "/v1/{sub.a=sh/*/bk/*}", "/q/**", "/*/{n}", "/{ws}", "/{ts}/x1"}
	for i := 0; i < nt; i++ {
		var tmpl string
		if i < len(handTemplates) {
			tmpl = handTemplates[i]
		} else {
			tmpl = o.genTemplate(rng)
		}
		verb := pick(rng, ruleVerbs)
		execCand(r, &Cand{Rule: RuleSpec{Verb: verb, Tmpl: tmpl, Via: "annotation"}, Base: baseFor(), Origin: "grammar"}, rng)
		if i%3 == 0 {
			execCand(r, deliver(&Cand{Rule: RuleSpec{Verb: verb, Tmpl: tmpl, Via: "annotation"}, Base: baseFor(), Origin: "grammar"}), rng)
		}
		if i%5 == 0 {
			execCand(r, &Cand{Rule: RuleSpec{Verb: verb, Tmpl: tmpl, Via: "annotation"}, Base: baseFor(), Origin: "grammar", SecondProvider: true}, rng)
			if ms := mutants(tmpl, rng, false); len(ms) > 0 && len(tmpl) <= 34 {
				execCand(r, &Cand{Rule: RuleSpec{Verb: verb, Tmpl: ms[rng.Intn(len(ms))], Via: "annotation"}, Base: baseFor(), Origin: "single-edit", SecondProvider: true}, rng)
			}
			execCand(r, &Cand{Rule: RuleSpec{Verb: verb, Tmpl: "/sp/{no_such_field}", Via: "annotation"}, Base: baseFor(), Origin: "unknown-field", SecondProvider: true}, rng)
		}
		if len(tmpl) > 34 {
			continue
		}
		for _, m := range mutants(tmpl, rng, i < r.Pick(24, 120)) {
			execCand(r, deliver(&Cand{Rule: RuleSpec{Verb: verb, Tmpl: m, Via: "annotation"}, Base: baseFor(), Origin: "single-edit"}), rng)
		}
	}
	// (a0) every bindable field kind once in each variable form: a path
	// variable on any scalar / enum / well-known leaf is valid
	for fi, f := range append(append(append([]string{}, strFields...), typFields...), "ws", "wl", "ts", "dur", "fm") {
		for ti, tmpl := range []string{"/kind/{" + f + "}", "/kind/{" + f + "=*}/tail", "/kind/x1/{" + f + "}:pick"} {
			c := &Cand{Rule: RuleSpec{Verb: []string{"GET", "POST", "DELETE"}[ti], Tmpl: tmpl, Via: "annotation"}, Origin: "field-kinds"}
			if (fi+ti)%2 == 1 {
				c.Base = baseFor()
			}
			if (fi+ti)%3 == 2 {
				deliver(c)
			}
			execCand(r, c, rng)
		}
	}
	// (c) selector tables
	for _, body := range bodySelectors {
		for _, resp := range respSelectors {
			for _, verb := range []string{"POST", "PATCH"} {
				execCand(r, deliver(&Cand{Rule: RuleSpec{Verb: verb, Tmpl: "/sel/{a}", Body: body, Resp: resp, Via: "annotation"}, Base: baseFor(), Origin: "selectors"}), rng)
			}
		}
	}
	// (d) nested additional bindings
	for i := 0; i < 6; i++ {
		execCand(r, &Cand{Rule: RuleSpec{Verb: "GET", Tmpl: o.genTemplate(rng), Via: "annotation"}, Nested: true, Base: baseFor(), Origin: "nested-additional"}, rng)
	}
	// (e) conflicts: Oth re-declares Tgt's rule / Tgt's implicit path / a base rule
	for i := 0; i < r.Pick(60, 1500); i++ {
		base := baseFor()
		tr := RuleSpec{Verb: pick(rng, ruleVerbs), Tmpl: o.genTemplate(rng), Via: "annotation"}
		switch rng.Intn(4) {
		case 0: // exact re-declaration by another method
			execCand(r, deliver(&Cand{Rule: RuleSpec{Verb: tr.Verb, Tmpl: tr.Tmpl, Via: "annotation"}, TgtRule: &tr, Base: base, Origin: "redeclare-explicit"}), rng)
		case 1: // same position, other variable names / other verb
			t, _ := tmplref.Parse(tr.Tmpl)
			alt := renameVars(t, rng)
			execCand(r, deliver(&Cand{Rule: RuleSpec{Verb: pick(rng, ruleVerbs), Tmpl: alt, Via: "annotation"}, TgtRule: &tr, Base: base, Origin: "redeclare-renamed"}), rng)
		case 2: // another method's implicit path
			c16seq++
			c := &Cand{TgtRule: &tr, Base: base, Origin: "redeclare-implicit", Pkg: fmt.Sprintf("vf.ci%d", c16seq)}
			c.Rule = RuleSpec{Verb: pick(rng, ruleVerbs), Tmpl: "/" + c.Pkg + ".Cnd/Tgt", Body: "*", Via: "annotation"}
			execCand(r, c, rng)
		case 3: // a rule of the base set
			if base == nil || len(base.Methods) == 0 {
				continue
			}
			m := base.Methods[rng.Intn(len(base.Methods))]
			br := m.Rules[rng.Intn(len(m.Rules))]
			cand := &Cand{Rule: RuleSpec{Verb: br.Verb, Tmpl: br.Tmpl, Via: "annotation"}, Base: base, Origin: "redeclare-base"}
			if rng.Intn(2) == 0 {
				cand.TgtName = m.Name // same short name in another service
				cand.Origin = "redeclare-base-same-short-name"
			}
			execCand(r, deliver(cand), rng)
		}
	}
	// (e2) template length sweep: four families, 1..40 segments, on an empty
	// and a populated mux; short ones must be accepted and route, every
	// length must come back without a panic
	for n := 1; n <= 40; n++ {
		var ls []string
		for i := 0; i < n; i++ {
			ls = append(ls, lits[i%len(lits)]+fmt.Sprint(i))
		}
		fam := []string{
			"/" + strings.Join(ls, "/"),
			"/{a}/" + strings.Join(ls, "/"),
			"/" + strings.Join(ls, "/") + "/{b=bk/*}",
			"/" + strings.Join(ls, "/") + ":go",
			"/" + strings.Join(ls, "/") + "/{c=**}",
		}
		for fi, tmpl := range fam {
			var base *RuleSet
			if (n+fi)%2 == 0 {
				base = baseFor()
			}
			execCand(r, &Cand{Rule: RuleSpec{Verb: "GET", Tmpl: tmpl, Via: []string{"annotation", "config"}[(n+fi)%2]}, Base: base, Origin: "length-sweep"}, rng)
		}
	}
	// (f) late failure: Tgt's valid rule extends a base rule (so its nodes
	// hang below nodes the base already owns, variables included), then Oth's
	// rule is refused: nothing of Tgt's may be left behind
	for i := 0; i < r.Pick(40, 600); i++ {
		base := baseFor()
		if base == nil || len(base.Methods) == 0 {
			continue
		}
		m := base.Methods[rng.Intn(len(base.Methods))]
		br := m.Rules[rng.Intn(len(m.Rules))]
		if strings.Contains(br.Tmpl, "**") || strings.LastIndex(br.Tmpl, ":") > strings.LastIndex(br.Tmpl, "}") && strings.LastIndex(br.Tmpl, ":") > strings.LastIndex(br.Tmpl, "/") {
			continue
		}
		c16seq++
		tr := RuleSpec{Verb: pick(rng, ruleVerbs), Tmpl: fmt.Sprintf("%s/lf%d", br.Tmpl, c16seq), Via: "annotation"}
		var bad RuleSpec
		switch rng.Intn(4) {
		case 0:
			bad = RuleSpec{Verb: "GET", Tmpl: fmt.Sprintf("%s/lg%d/{no_such_field}", br.Tmpl, c16seq), Via: "annotation"}
		case 1:
			bad = RuleSpec{Verb: "GET", Tmpl: fmt.Sprintf("%s/lg%d/{a", br.Tmpl, c16seq), Via: "annotation"}
		case 2:
			bad = RuleSpec{Verb: tr.Verb, Tmpl: tr.Tmpl, Via: "annotation"}
		default:
			bad = RuleSpec{Verb: "POST", Tmpl: fmt.Sprintf("%s/lg%d", br.Tmpl, c16seq), Body: "no_such_body", Via: "annotation"}
		}
		execCand(r, deliver(&Cand{Rule: bad, TgtRule: &tr, Base: base, Origin: "late-failure"}), rng)
	}
	// (h) a back-end whose service file imports a file the gateway links in
	// another revision: the back-end's descriptors are the back-end's
	importSkew(r)
	// (g) two schemas for one message name in the process: a rule is judged
	// against the revision it is registered with, whatever other muxes saw
	schemaSkew(r)
	// Tgt (registered first) binds a concrete verb on the implicit path of
	// Oth, which is registered after it: overlap with an any-verb binding is
	// unspecified, but it must never panic
	for _, verb := range []string{"GET", "POST", "PATCH", "HEAD", "*"} {
		for _, base := range []*RuleSet{nil, baseFor()} {
			c16seq++
			c := &Cand{Base: base, Origin: "claims-later-implicit-path", Pkg: fmt.Sprintf("vf.ci%d", c16seq)}
			c.Rule = RuleSpec{Verb: verb, Tmpl: "/" + c.Pkg + ".Cnd/Oth", Body: "*", Via: "annotation"}
			execCand(r, c, rng)
		}
	}
	// own implicit path re-declared by the same method: valid
	{
		c16seq++
		c := &Cand{Base: nil, Origin: "own-implicit", Pkg: fmt.Sprintf("vf.ci%d", c16seq)}
		c.Rule = RuleSpec{Verb: "POST", Tmpl: "/" + c.Pkg + ".Cnd/Tgt", Body: "*", Via: "annotation"}
		execCand(r, c, rng)
	}
	r.Assume("variables on repeated/map/message fields, '**' not in last position, nested variables, literals starting with a digit/-/_/., selectors on non-message fields and overlaps with any-verb bindings are unspecified: only 'no panic' is required there")
}

func renameVars(t *tmplref.Template, rng *rand.Rand) string {
	used := map[string]bool{}
	var parts []string
	for _, s := range t.Segs {
		switch s.Kind {
		case tmplref.Lit:
			parts = append(parts, s.Text)
		case tmplref.Star:
			parts = append(parts, "*")
		case tmplref.StarStar:
			parts = append(parts, "**")
		case tmplref.Var:
			f := ""
			for tries := 0; tries < 30; tries++ {
				f = pick(rng, strFields)
				if !used[f] {
					break
				}
			}
			used[f] = true
			if len(s.Pat) == 1 && s.Pat[0].Kind == tmplref.Star && rng.Intn(2) == 0 {
				parts = append(parts, "{"+f+"}")
			} else {
				parts = append(parts, "{"+f+"="+tmplref.PatText(s.Pat)+"}")
			}
		}
	}
	out := "/" + strings.Join(parts, "/")
	if t.Verb != "" {
		out += ":" + t.Verb
	}
	return out
}

// ReplayC16 re-executes a stored candidate.
func ReplayC16(r *mon.Run, raw json.RawMessage) {
	var c Cand
	if err := json.Unmarshal(raw, &c); err != nil {
		r.Inconclusive("bad replay case")
		return
	}
	r.Distinct("replay-a")
	r.Distinct("replay-b")
	execCand(r, &c, r.Rand("c16-replay"))
}
