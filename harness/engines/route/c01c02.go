package route

import (
	"bytes"
	"encoding/json"
	"fmt"
	"io"
	"math/rand"
	"net/http"
	"sort"
	"strings"
	"sync"

	"google.golang.org/protobuf/proto"

	"verif/internal/mon"
	"verif/internal/textref"
	"verif/internal/tmplref"
	"verif/internal/vschema"
)

// Req is one request of a case.
type Req struct {
	Verb  string `json:"verb"`
	Path  string `json:"path"`
	Class string `json:"class"`
}

// Case is a replayable routing case: a rule set, registration orders and
// requests.
type Case struct {
	Prop  string   `json:"prop"`
	RS    *RuleSet `json:"rule_set"`
	Perms []Perm   `json:"perms,omitempty"`
	Reqs  []Req    `json:"reqs"`
	Note  string   `json:"note,omitempty"`
	// Traffic: the requests served between two registrations (cases found
	// on a mux registered under traffic)
	Traffic []Req `json:"traffic,omitempty"`
}

func newReq() proto.Message { return vschema.NewMsg(reqDesc()) }

// justify decides whether dispatching (verb,path) to method mi with message
// msg is covered by one of the method's rules under the permissive relation.
func justify(prules []ParsedRule, mi int, verb, path string, msg proto.Message) (ok bool, reason, shape string) {
	reason = "no-match"
	paths := []string{path}
	if np := NormPath(path); np != path {
		paths = append(paths, np)
	}
	for _, pr := range prules {
		if pr.Method != mi {
			continue
		}
		for _, cp := range paths {
			as := pr.T.Match(cp, tmplref.Permissive)
			if len(as) == 0 {
				continue
			}
			if !verbOK(pr.Verb, verb) {
				if reason == "no-match" {
					reason, shape = "verb-mismatch", pr.T.Shape()
				}
				continue
			}
			for _, a := range as {
				exp, err := textref.Build(newReq, reqDesc(), a, sortedKeys(a))
				if err != nil {
					if reason != "wrong-capture" {
						reason, shape = "unconvertible-capture-accepted", pr.T.Shape()
					}
					continue
				}
				if proto.Equal(exp, msg) {
					return true, "", pr.T.Shape()
				}
				reason, shape = "wrong-capture", pr.T.Shape()
			}
		}
	}
	return false, reason, shape
}

func methodIndex(rs *RuleSet, full string) int {
	for i := range rs.Methods {
		if rs.Full(i) == full {
			return i
		}
	}
	return -1
}

func reqVerbFor(rng *rand.Rand, ruleVerb string) string {
	v := strings.ToUpper(ruleVerb)
	if v == "*" {
		return pick(rng, []string{"GET", "POST", "DELETE", "OPTIONS", "HEAD", "PATCH", "TRACE"})
	}
	return v
}

var allVerbs = []string{"GET", "PUT", "POST", "DELETE", "PATCH", "HEAD", "OPTIONS"}

// genRequests builds the request list of a rule set.
func genRequests(rng *rand.Rand, prules []ParsedRule, perRule int, hostile bool) []Req {
	var reqs []Req
	for _, pr := range prules {
		if pr.Impl {
			if hostile {
				reqs = append(reqs, Req{pick(rng, allVerbs), pr.T.Src, "implicit"})
				reqs = append(reqs, Req{"POST", pr.T.Src + "x", "implicit-near"})
			} else if rng.Intn(3) == 0 {
				reqs = append(reqs, Req{pick(rng, allVerbs), pr.T.Src, "implicit"})
			}
			continue
		}
		for k := 0; k < perRule; k++ {
			in := Instantiate(rng, pr.T, reqDesc(), false)
			reqs = append(reqs, Req{reqVerbFor(rng, pr.Verb), in.Path(), "inst"})
			if hostile && k == 0 {
				for i, p := range NearMisses(rng, in) {
					reqs = append(reqs, Req{reqVerbFor(rng, pr.Verb), p, fmt.Sprintf("near%d", i)})
				}
				// wrong HTTP verb
				reqs = append(reqs, Req{pick(rng, allVerbs), in.Path(), "other-verb"})
				// method tokens are case-sensitive: the rule's verb in lower
				// or mixed case is another verb
				if v := reqVerbFor(rng, pr.Verb); pr.Verb != "*" {
					reqs = append(reqs, Req{strings.ToLower(v), in.Path(), "verb-other-case"})
					reqs = append(reqs, Req{v[:1] + strings.ToLower(v[1:]), in.Path(), "verb-other-case"})
				}
				bad := Instantiate(rng, pr.T, reqDesc(), true)
				reqs = append(reqs, Req{reqVerbFor(rng, pr.Verb), bad.Path(), "bad-typed"})
			}
		}
	}
	if hostile {
		for k := 0; k < 6; k++ {
			n := 1 + rng.Intn(5)
			var segs []string
			for i := 0; i < n; i++ {
				segs = append(segs, pick(rng, append(lits, strVals...)))
			}
			p := "/" + strings.Join(segs, "/")
			if rng.Intn(3) == 0 {
				p += ":" + pick(rng, verbSufs)
			}
			reqs = append(reqs, Req{pick(rng, allVerbs), p, "random"})
		}
	}
	return reqs
}

// checkC01 applies the soundness oracle to one outcome.
func checkC01(r *mon.Run, c *Case, prules []ParsedRule, rq Req, o Outcome) {
	r.Eval(1)
	if o.Panic != nil {
		r.Count("panics_seen_left_to_C09", 1)
		r.Count("left_to_C09:"+o.Panic.Key(), 1)
		return
	}
	if o.Method == "" {
		r.Count("not_dispatched", 1)
		return
	}
	r.Count("dispatched", 1)
	mi := methodIndex(c.RS, o.Method)
	if mi < 0 {
		r.Violate("unsound:unknown-method", fmt.Sprintf("%s %s reached %s which is not in the rule set", rq.Verb, rq.Path, o.Method), oneReq(c, rq))
		return
	}
	if o.NCalls != 1 {
		r.Violate("unsound:handler-invoked-"+fmt.Sprint(o.NCalls)+"-times", fmt.Sprintf("%s %s invoked %d handlers", rq.Verb, rq.Path, o.NCalls), oneReq(c, rq))
	}
	ok, reason, shape := justify(prules, mi, rq.Verb, rq.Path, o.Msg)
	if ok {
		if strings.Contains(shape, "var") {
			r.Distinct(shape + "|" + rq.Class + "|dispatched")
		}
		return
	}
	key := "unsound:" + reason + ":" + shape
	if reason == "no-match" {
		key = "unsound:no-match:" + rq.Class
	}
	r.Violate(key, fmt.Sprintf("%s %s dispatched to %s with %s; no rule of that method covers it (%s)", rq.Verb, rq.Path, o.Method, o.MsgJSON, reason), oneReq(c, rq))
}

func oneReq(c *Case, rq Req) *Case {
	return &Case{Prop: c.Prop, RS: c.RS, Perms: c.Perms, Reqs: []Req{rq}, Traffic: c.Traffic, Note: c.Note}
}

type strictMatch struct {
	pr  ParsedRule
	as  []tmplref.Assignment
	msg []proto.Message // expected message per assignment (nil entry = unconvertible)
}

func strictSet(prules []ParsedRule, verb, path string) (S []strictMatch, allConv bool) {
	allConv = true
	for _, pr := range prules {
		if !verbOK(pr.Verb, verb) {
			continue
		}
		as := pr.T.Match(path, tmplref.Strict)
		if len(as) == 0 {
			continue
		}
		sm := strictMatch{pr: pr, as: as}
		for _, a := range as {
			m, err := textref.Build(newReq, reqDesc(), a, sortedKeys(a))
			if err != nil {
				allConv = false
				m = nil
			}
			sm.msg = append(sm.msg, m)
		}
		S = append(S, sm)
	}
	return
}

func beats(a, w []string) bool {
	for k := 0; k < len(a) && k < len(w); k++ {
		if a[k] == w[k] {
			continue
		}
		return strings.HasPrefix(a[k], "L:") && strings.HasPrefix(w[k], "W:")
	}
	return false
}

// checkC02 applies completeness and precedence to one outcome (perm 0).
func checkC02(r *mon.Run, c *Case, prules []ParsedRule, rq Req, o Outcome) {
	r.Eval(1)
	if rq.Path != NormPath(rq.Path) {
		return
	}
	S, allConv := strictSet(prules, rq.Verb, rq.Path)
	if len(S) == 0 {
		r.Count("no_strict_match", 1)
		return
	}
	if !allConv {
		r.Count("out_of_scope_unconvertible_capture", 1)
		return
	}
	if o.Panic != nil {
		r.Violate(o.Panic.Key(), fmt.Sprintf("%s %s panicked: %s", rq.Verb, rq.Path, o.Panic.Value), oneReq(c, rq))
		return
	}
	shapes := make([]string, 0, len(S))
	for _, s := range S {
		shapes = append(shapes, s.pr.T.Shape())
	}
	sort.Strings(shapes)
	if o.Method == "" {
		r.Violate("unmatched:"+shapes[0], fmt.Sprintf("%s %s answered %d although %d rule(s) match, e.g. %s %s", rq.Verb, rq.Path, o.Status, len(S), S[0].pr.Verb, S[0].pr.T.Src), oneReq(c, rq))
		return
	}
	mi := methodIndex(c.RS, o.Method)
	owner := false
	for _, s := range S {
		if s.pr.Method == mi {
			owner = true
		}
	}
	if !owner {
		r.Violate("misrouted:"+shapes[0], fmt.Sprintf("%s %s dispatched to %s which owns no matching rule", rq.Verb, rq.Path, o.Method), oneReq(c, rq))
		return
	}
	r.Count("dispatched_to_owner", 1)
	if len(S) > 1 {
		r.Count("requests_with_competing_rules", 1)
	}
	// precedence: candidates W consistent with the observation
	type cand struct{ s strictMatch }
	var W []strictMatch
	for _, s := range S {
		if s.pr.Method != mi {
			continue
		}
		for _, m := range s.msg {
			if m != nil && proto.Equal(m, o.Msg) {
				W = append(W, s)
				break
			}
		}
	}
	if len(W) == 0 {
		// message not explained by a strict assignment: C01's subject
		r.Count("winner_not_identified", 1)
		return
	}
	var worstA, worstW *strictMatch
	allBeaten := true
	for i := range W {
		w := &W[i]
		beaten := false
		for j := range S {
			a := &S[j]
			if a.pr.T == w.pr.T {
				continue
			}
			// A's outcome must be observably different from what was seen
			diff := a.pr.Method != mi
			if !diff {
				same := false
				for _, m := range a.msg {
					if m != nil && proto.Equal(m, o.Msg) {
						same = true
					}
				}
				diff = !same
			}
			if diff && beats(a.pr.T.EdgeKeys(), w.pr.T.EdgeKeys()) {
				beaten = true
				worstA, worstW = a, w
				break
			}
		}
		if !beaten {
			allBeaten = false
			break
		}
	}
	if allBeaten {
		r.Violate("precedence:"+worstW.pr.T.Shape()+"-over-"+worstA.pr.T.Shape(),
			fmt.Sprintf("%s %s: %s (%s) won over %s (%s) which spells the diverging segment literally", rq.Verb, rq.Path, worstW.pr.T.Src, o.Method, worstA.pr.T.Src, c.RS.Full(worstA.pr.Method)), oneReq(c, rq))
		return
	}
	key := shapes[0]
	if len(S) > 1 {
		key += "|competing"
	}
	if tc := tmplref.TokenCount(rq.Path); tc >= 59 {
		key += fmt.Sprintf("|tokens=%d", tc)
		r.Count("dispatched_paths_with_59_to_64_tokens", 1)
	}
	if strings.Contains(key, "var") || strings.Contains(key, "*") {
		r.Distinct(key)
	}
}

func permutations(rng *rand.Rand, rs *RuleSet, max int) []Perm {
	id := rs.IdentityPerm()
	out := []Perm{id}
	seen := map[string]bool{fmt.Sprint(id): true}
	for tries := 0; len(out) < max && tries < max*6; tries++ {
		p := Perm{Add: rng.Intn(2) == 0, Cfg: rng.Intn(2) == 0}
		p.Svc = rng.Perm(len(rs.Services))
		for s := range rs.Services {
			ms := rs.methodsOf(s)
			rng.Shuffle(len(ms), func(i, j int) { ms[i], ms[j] = ms[j], ms[i] })
			p.Method = append(p.Method, ms)
		}
		k := fmt.Sprint(p)
		if !seen[k] {
			seen[k] = true
			out = append(out, p)
		}
	}
	return out
}

func explore(r *mon.Run, prop string) {
	rng := r.Rand("route-" + prop)
	o := genOpts{OneLetter: oneLetterOK()}
	nsets := r.Pick(400, 20000)
	if prop == "C02" {
		nsets = r.Pick(300, 8000)
	}
	perRule := r.Pick(2, 4)
	nperm := 1
	if prop == "C02" {
		nperm = r.Pick(4, 30)
	}
	for id := 0; id < nsets; id++ {
		rs := o.GenRuleSet(rng, id)
		prules, bad := rs.Rules()
		if len(bad) > 0 {
			r.Inconclusive("generator produced a template the reference rejects: " + bad[0].Tmpl)
			continue
		}
		if prop == "C02" && ambiguous(prules) {
			// two rules with the same verb and the same pattern but different
			// variables: no router can tell them apart, there is no
			// well-defined outcome to be order independent
			r.Count("rule_sets_out_of_scope_ambiguous_same_pattern", 1)
			continue
		}
		perms := permutations(rng, rs, nperm)
		var built []*Built
		rejected := false
		for _, p := range perms {
			b, err := Build(rs, p)
			if err != nil {
				r.Inconclusive("harness: " + err.Error())
				rejected = true
				break
			}
			if b.RegPanic != nil || b.RegErr != nil {
				rejected = true
				if b.RegPanic != nil {
					r.Count("rule_sets_registration_panicked_left_to_C16", 1)
					r.Count("left_to_C16:"+b.RegPanic.Key(), 1)
				}
				break
			}
			built = append(built, b)
		}
		if rejected {
			r.Count("rule_sets_rejected_in_some_order", 1)
			continue
		}
		r.Count("rule_sets_accepted", 1)
		r.Count("registrations", len(built))
		c := &Case{Prop: prop, RS: rs, Perms: perms}
		reqs := genRequests(rng, prules, perRule, prop == "C01")
		c.Reqs = reqs
		trafficBuilt := buildUnderTraffic(r, rs, perms[0], reqs)
		if r.SampleN() < 4 && id%37 == 0 {
			smp := *c
			if len(smp.Reqs) > 6 {
				smp.Reqs = smp.Reqs[:6]
			}
			r.Sample(smp)
		}
		runCase(r, c, prules, built)
		if len(trafficBuilt) > 0 {
			underTraffic(r, c, prules, trafficBuilt)
		}
	}
}

// buildUnderTraffic registers the services of a rule set one by one (in the
// order of p, and in the reverse order of services) and serves the whole
// request list between two registrations, so that anything a mux derives from
// the requests it has served (resolved routes, negative results, per-path
// state) is in place when the next service arrives. Rule sets with a single
// service have no "between".
func buildUnderTraffic(r *mon.Run, rs *RuleSet, p Perm, reqs []Req) []*Built {
	if len(rs.Services) < 2 {
		return nil
	}
	rev := Perm{Method: p.Method, Add: p.Add, Cfg: p.Cfg}
	for i := len(p.Svc) - 1; i >= 0; i-- {
		rev.Svc = append(rev.Svc, p.Svc[i])
	}
	var out []*Built
	for _, q := range []Perm{p, rev} {
		b, err := Prepare(rs, q)
		if err != nil || b.RegPanic != nil {
			return out
		}
		ok := true
		for si, s := range q.Svc {
			if rerr, pi := b.Register(s); rerr != nil || pi != nil {
				// accepted without traffic (the caller built it), refused
				// with: left to the order-independence part of C16
				r.Count("registrations_under_traffic_refused", 1)
				ok = false
				break
			}
			if si == len(q.Svc)-1 {
				break
			}
			for _, rq := range reqs {
				b.Do(rq.Verb, rq.Path, "", nil)
				r.Count("requests_served_between_registrations", 1)
			}
		}
		if ok {
			out = append(out, b)
		}
	}
	return out
}

// underTraffic applies the property's own oracle to the muxes that served
// requests between their registrations.
func underTraffic(r *mon.Run, c0 *Case, prules []ParsedRule, built []*Built) {
	cc := *c0
	if cc.Traffic == nil {
		cc.Traffic = c0.Reqs
	}
	cc.Note = "observed on a mux that served the traffic list between the registrations of its services"
	c := &cc
	for _, b := range built {
		r.Count("muxes_registered_under_traffic", 1)
		for _, rq := range c.Reqs {
			o := b.Do(rq.Verb, rq.Path, "", nil)
			nv := r.Violations()
			switch c.Prop {
			case "C01":
				checkC01(r, c, prules, rq, o)
			case "C02":
				checkC02(r, c, prules, rq, o)
			}
			if r.Violations() > nv {
				r.Count("violations_only_on_muxes_registered_under_traffic", 1)
			}
		}
	}
}

// concurrentReplay serves the case's requests from several goroutines at once
// on the first registration and compares every outcome with the sequential
// one: routing a request must not depend on what is routed at the same time.
func concurrentReplay(r *mon.Run, c *Case, b *Built, seq []Outcome) {
	const workers = 8
	var wg sync.WaitGroup
	var mu sync.Mutex
	reported := false
	for w := 0; w < workers; w++ {
		wg.Add(1)
		go func(w int) {
			defer wg.Done()
			n := len(c.Reqs)
			for k := 0; k < n; k++ {
				i := (k*7 + w*13) % n
				rq := c.Reqs[i]
				o := b.Do(rq.Verb, rq.Path, "", nil)
				if !o.Same(seq[i]) {
					mu.Lock()
					if !reported {
						reported = true
						r.Violate("concurrent:outcome-differs-from-sequential:"+outcomeClass(seq[i])+"-vs-"+outcomeClass(o),
							fmt.Sprintf("%s %s: alone [%s], while %d other requests were being routed [%s]", rq.Verb, rq.Path, seq[i], workers-1, o), oneReq(c, rq))
					}
					mu.Unlock()
				}
			}
		}(w)
	}
	wg.Wait()
	r.Count("concurrent_replays", 1)
	r.Count("concurrent_requests", workers*len(c.Reqs))
}

var caseSeq int

// escapeAll spells every byte of a path except the slashes as %XX.
func escapeAll(p string) string {
	var sb strings.Builder
	for i := 0; i < len(p); i++ {
		if p[i] == '/' {
			sb.WriteByte('/')
		} else {
			fmt.Fprintf(&sb, "%%%02X", p[i])
		}
	}
	return sb.String()
}

var transportVariantNames = []string{"raw-path-escaped", "http2", "http10", "irrelevant-headers", "host-with-port", "lowercase-header-keys", "request-uri-absolute", "h2c-upgrade-offer", "upgrade-to-unknown-protocol", "connection-upgrade-without-upgrade-header"}

// transportVariants re-sends a request in spellings that carry the same verb
// and the same decoded path: the routing outcome must be the same.
func transportVariants(r *mon.Run, c *Case, b *Built, rq Req, o0 Outcome, k int) {
	vi := k % len(transportVariantNames)
	name := transportVariantNames[vi]
	mod := func(req *http.Request) {
		switch name {
		case "raw-path-escaped":
			req.URL.RawPath = escapeAll(req.URL.Path)
			req.RequestURI = req.URL.RawPath
		case "http2":
			req.Proto, req.ProtoMajor, req.ProtoMinor = "HTTP/2.0", 2, 0
		case "http10":
			req.Proto, req.ProtoMajor, req.ProtoMinor = "HTTP/1.0", 1, 0
		case "irrelevant-headers":
			req.Header["Accept"] = []string{"*/*"}
			req.Header["User-Agent"] = []string{"verif/1"}
			req.Header["Accept-Language"] = []string{"de, en;q=0.5"}
			req.Header["X-Forwarded-For"] = []string{"198.51.100.7"}
		case "host-with-port":
			req.Host = "Verif.Test:8443"
		case "lowercase-header-keys":
			req.Header["accept"] = []string{"application/json"}
		case "request-uri-absolute":
			req.RequestURI = "http://verif.test" + req.URL.Path
		case "h2c-upgrade-offer":
			// what curl --http2 / nghttp -u send with their first request
			req.Header["Connection"] = []string{"Upgrade, HTTP2-Settings"}
			req.Header["Upgrade"] = []string{"h2c"}
			req.Header["Http2-Settings"] = []string{"AAMAAABkAARAAAAAAAIAAAAA"}
		case "upgrade-to-unknown-protocol":
			req.Header["Connection"] = []string{"upgrade"}
			req.Header["Upgrade"] = []string{"TLS/1.0, IRC/6.9"}
		case "connection-upgrade-without-upgrade-header":
			req.Header["Connection"] = []string{"keep-alive, Upgrade"}
		}
	}
	o := b.DoWith(rq.Verb, rq.Path, "", nil, mod)
	r.Count("transport_variant_comparisons", 1)
	if !o.Same(o0) {
		r.Violate("transport-variant:"+name+":"+outcomeClass(o0)+"-vs-"+outcomeClass(o),
			fmt.Sprintf("%s %s: plain HTTP/1.1 request [%s], same verb and path as %s [%s]", rq.Verb, rq.Path, o0, name, o), oneReq(c, rq))
	}
}

// grpcLane re-sends a request's path in the gRPC-web and gRPC lanes (POST,
// application/grpc-web+proto resp. application/grpc over HTTP/2, one empty
// message): those lanes address methods by name, so a handler may only run
// when the path IS the method's /package.Service/Method name; a path that
// matches a rule's template must not reach the method without the fields
// the template binds.
func grpcLane(r *mon.Run, c *Case, b *Built, rq Req, k int) {
	name := []string{"grpc-web", "grpc"}[k%2]
	o := b.DoWith("POST", rq.Path, "", nil, func(req *http.Request) {
		if name == "grpc" {
			req.Proto, req.ProtoMajor, req.ProtoMinor = "HTTP/2.0", 2, 0
			req.Header["Content-Type"] = []string{"application/grpc"}
			req.Header["Te"] = []string{"trailers"}
		} else {
			req.Header["Content-Type"] = []string{"application/grpc-web+proto"}
		}
		req.Body = io.NopCloser(bytes.NewReader([]byte{0, 0, 0, 0, 0}))
		req.ContentLength = 5
	})
	r.Count("grpc_lane_probes", 1)
	if o.Panic != nil {
		r.Violate(o.Panic.Key()+":"+name+"-lane", fmt.Sprintf("%s request for %s panicked: %s", name, rq.Path, o.Panic.Value), oneReq(c, rq))
		return
	}
	if o.NCalls > 0 && o.Method != rq.Path {
		r.Violate("unsound:"+name+"-lane-dispatched-on-rule-path:"+rq.Class, fmt.Sprintf("a %s request (empty message) for path %s ran the handler of %s with %s: that lane addresses methods by name", name, rq.Path, o.Method, o.MsgJSON), oneReq(c, rq))
	}
}

// historyProbe sends the request's path with every other verb, then the
// request itself again: what a request reaches is a function of the request
// and the registered rules, not of what was asked before.
func historyProbe(r *mon.Run, c *Case, b *Built, rq Req, o0 Outcome) {
	for _, v := range []string{"GET", "PATCH", "POST", "DELETE", "PUT", "HEAD"} {
		if v == rq.Verb {
			continue
		}
		if o := b.Do(v, rq.Path, "", nil); o.Panic != nil {
			r.Violate(o.Panic.Key()+":other-verb-on-known-path", fmt.Sprintf("%s %s panicked: %s", v, rq.Path, o.Panic.Value), oneReq(c, rq))
			return
		}
	}
	o := b.Do(rq.Verb, rq.Path, "", nil)
	r.Count("request_history_probes", 1)
	if !o.Same(o0) {
		r.Violate("outcome-depends-on-earlier-requests:"+outcomeClass(o0)+"-vs-"+outcomeClass(o),
			fmt.Sprintf("%s %s: first [%s]; again after the same path was requested with the other verbs [%s]", rq.Verb, rq.Path, o0, o), oneReq(c, rq))
	}
}

func runCase(r *mon.Run, c *Case, prules []ParsedRule, built []*Built) {
	caseSeq++
	var seq []Outcome
	defer func() {
		if len(seq) == len(c.Reqs) && len(seq) > 1 && (caseSeq%6 == 0 || r.ReplayMode) {
			concurrentReplay(r, c, built[0], seq)
		}
	}()
	for qi, rq := range c.Reqs {
		o0 := built[0].Do(rq.Verb, rq.Path, "", nil)
		seq = append(seq, o0)
		if r.ReplayMode {
			for k := range transportVariantNames {
				transportVariants(r, c, built[0], rq, o0, k)
			}
		} else if (caseSeq+qi)%5 == 0 {
			transportVariants(r, c, built[0], rq, o0, (caseSeq+qi)/5)
		}
		if (caseSeq+qi)%3 == 2 || r.ReplayMode {
			historyProbe(r, c, built[0], rq, o0)
		}
		if c.Prop == "C01" && ((caseSeq+qi)%4 == 1 || r.ReplayMode) {
			grpcLane(r, c, built[0], rq, (caseSeq+qi)/4)
		}
		switch c.Prop {
		case "C01":
			checkC01(r, c, prules, rq, o0)
		case "C02":
			checkC02(r, c, prules, rq, o0)
			for pi := 1; pi < len(built); pi++ {
				op := built[pi].Do(rq.Verb, rq.Path, "", nil)
				r.Count("order_comparisons", 1)
				if !o0.Same(op) {
					cc := oneReq(c, rq)
					cc.Perms = []Perm{c.Perms[0], c.Perms[pi]}
					r.Violate("order:"+rq.Class+":"+outcomeClass(o0)+"-vs-"+outcomeClass(op),
						fmt.Sprintf("%s %s: order A gives [%s], order B gives [%s]", rq.Verb, rq.Path, o0, op), cc)
				}
			}
		}
	}
}

// ambiguous reports whether two rules of the same method have overlapping
// verbs and identical edge sequences but different text (i.e. bind different
// fields on indistinguishable paths).
func ambiguous(prules []ParsedRule) bool {
	for i := range prules {
		for j := i + 1; j < len(prules); j++ {
			a, b := prules[i], prules[j]
			if a.Method != b.Method || a.T.Src == b.T.Src {
				continue
			}
			if !(a.Verb == b.Verb || a.Verb == "*" || b.Verb == "*") {
				continue
			}
			if strings.Join(a.T.EdgeKeys(), "|") == strings.Join(b.T.EdgeKeys(), "|") {
				return true
			}
		}
	}
	return false
}

func outcomeClass(o Outcome) string {
	if o.Panic != nil {
		return "panic"
	}
	if o.Method == "" {
		return fmt.Sprint(o.Status)
	}
	return "dispatch"
}

// oneLetterOK probes whether the tree under test accepts one-letter literals
// (documented grammar); until it does the C01/C02 generators avoid them so
// that rule sets are not all rejected. C16 checks the acceptance itself.
func oneLetterOK() bool {
	rs := &RuleSet{Pkg: "vf.probe", Services: []string{"P"}, Methods: []MethodSpec{{Svc: 0, Name: "Me", In: "vf.Req", Rules: []RuleSpec{{Verb: "GET", Tmpl: "/q/{a}", Via: "annotation"}}}}}
	b, err := Build(rs, rs.IdentityPerm())
	return err == nil && b.RegErr == nil && b.RegPanic == nil
}

const ruleC01 = "generated rule sets (2-8 methods, 1-3 services, annotation/additional/service-config rules, literals from a colliding 7-word alphabet, *, ** (last), {f}, {f=lit/*}, {f=*/lit/*}, {f=lit/**}, nested field paths, typed variables, :verb, verbs GET/PUT/POST/DELETE/PATCH/custom/*) registered on a real Mux; requests = instantiations of every template, near-misses (segment dropped/added/substituted, verb suffix changed/removed/doubled, ':' inserted, slashes), wrong HTTP verb, invalid typed text, random paths. Every dispatch is checked against an independent permissive template matcher + protojson text conversion. Typed variables cover every numeric kind incl. 32-bit floats (extremes, magnitudes between the float32 and float64 ranges, double-rounding midpoints) and the fixed / zig-zag integer kinds. Rule sets with several services are also registered service by service with the whole request list served between two registrations, and the same oracle is applied to those muxes. Field-order skew lane: the file given to FilesOption and the file the service's message type comes from declare the fields of the request message (14 fields, several of every kind, two nested messages) in different orders; every capture must be in the field the template names. distinct = (template shape, request class) of dispatches that captured at least one variable"

const ruleC02 = "same rule-set generator; each set registered in several orders (service order, method order, additional-binding order, config-rule order); requests = instantiations of every template (values over every documented path character class, single characters, unicode letters, words colliding with literals, multi-segment ** captures with verb). Oracles: strict reference matcher => must dispatch to an owner; literal-over-wildcard edge comparison; equal outcome across orders; rule sets with several services are also registered service by service (in two service orders) with the whole request list served between two registrations, and completeness / precedence are checked on those muxes too. distinct = shape of the most specific matching template (+competing flag) among requests with a wildcard/variable"

// RunC01 is the routing-soundness check.
func RunC01(r *mon.Run) {
	r.Rule = ruleC01
	r.Floor = 30
	explore(r, "C01")
	orderSkew(r)
	r.Assume("requests carry no body and no query; expected values of typed captures come from protojson (textref)")
}

// RunC02 is the completeness / precedence / order-independence check.
func RunC02(r *mon.Run) {
	r.Rule = ruleC02
	r.Floor = 20
	explore(r, "C02")
	r.Assume("strict domain: segments of documented path characters without ':', '**' covering >= 1 segment and only in last position, <= 64 tokens; rule sets rejected in some registration order are out of scope (counted)")
}

// Replay re-executes a stored routing case.
func Replay(r *mon.Run, raw json.RawMessage) {
	var sk SkewCase
	if err := json.Unmarshal(raw, &sk); err == nil && sk.Lane == "field-order-skew" {
		r.Distinct("replay-a")
		r.Distinct("replay-b")
		runSkewCase(r, &sk, rand.New(rand.NewSource(1)))
		return
	}
	var c Case
	if err := json.Unmarshal(raw, &c); err != nil || c.RS == nil {
		r.Inconclusive("bad replay case")
		return
	}
	prules, _ := c.RS.Rules()
	perms := c.Perms
	if len(perms) == 0 {
		perms = []Perm{c.RS.IdentityPerm()}
	}
	var built []*Built
	for _, p := range perms {
		b, err := Build(c.RS, p)
		if err != nil || b.RegErr != nil || b.RegPanic != nil {
			r.Inconclusive(fmt.Sprintf("rule set not registrable on this tree: %v %v", err, b))
			return
		}
		built = append(built, b)
	}
	r.Distinct("replay-a")
	r.Distinct("replay-b")
	if len(c.Traffic) > 0 {
		underTraffic(r, &c, prules, buildUnderTraffic(r, c.RS, perms[0], c.Traffic))
		return
	}
	runCase(r, &c, prules, built)
}
