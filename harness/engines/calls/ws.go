package calls

import (
	"context"
	"fmt"
	"net/http"
	"strings"
	"sync/atomic"
	"time"

	"github.com/gobwas/ws"
	"github.com/gobwas/ws/wsutil"
	"google.golang.org/protobuf/encoding/protojson"

	"verif/internal/mon"
	"verif/internal/wire"
)

// The WebSocket lane: the Bidi method bound to "WEBSOCKET /p/ws/{id}" on a
// real server (the upgrade needs a hijackable connection). WebSocket is not in
// the protocol list of the property's quantifier, so only what larking does
// emit is checked: the RPC passes the stream interceptor once with the right
// info, the stats trace is bracketed Tag InHeader Begin ... End with a single
// End carrying the handler's error, and the client-visible exchange is the
// same with and without options. Missing payload events are only counted.

func (s *rpcSvc) execWS(c *RPCCase, srvs map[string]*wire.Server) (*outcome, error) {
	k := c.Opts.key()
	srv := srvs[k]
	if srv == nil {
		mux, err := s.muxFor("local", c.Opts)
		if err != nil {
			return nil, err
		}
		if srv, err = wire.StartLarking(mux, nil); err != nil {
			return nil, err
		}
		srvs[k] = srv
	}
	sc := &rscn{id: fmt.Sprintf("w%d", atomic.AddInt64(&s.seq, 1)), spec: c}
	s.scns.Store(sc.id, sc)
	defer s.scns.Delete(sc.id)

	ctx, cancel := context.WithTimeout(context.Background(), 20*time.Second)
	defer cancel()
	d := ws.Dialer{Header: ws.HandshakeHeaderHTTP(http.Header{"X-Scn": {sc.id}})}
	conn, _, _, err := d.Dial(ctx, "ws://"+srv.Addr+"/p/ws/x")
	if err != nil {
		return nil, fmt.Errorf("ws dial: %w", err)
	}
	defer conn.Close()
	conn.SetDeadline(time.Now().Add(20 * time.Second))
	var sb strings.Builder
	for _, n := range c.In {
		b, _ := protojson.Marshal(chunkOfSize(n))
		if err := wsutil.WriteClientText(conn, b); err != nil {
			fmt.Fprintf(&sb, "write-error(%v) ", err)
			break
		}
	}
	for {
		msgs, err := wsutil.ReadServerMessage(conn, nil)
		if err != nil {
			fmt.Fprintf(&sb, "read-error(%T) ", err)
			break
		}
		closed := false
		for _, m := range msgs {
			switch m.OpCode {
			case ws.OpClose:
				code, reason := ws.ParseCloseFrameData(m.Payload)
				fmt.Fprintf(&sb, "close(%d,%q) ", code, reason)
				closed = true
			case ws.OpText, ws.OpBinary:
				fmt.Fprintf(&sb, "msg(%s) ", m.Payload)
			}
		}
		if closed {
			break
		}
	}
	// the End event follows the close frame on the server side
	deadline := time.Now().Add(10 * time.Second)
	for c.Opts.Stats && time.Now().Before(deadline) {
		if count(sc.snapshot(), "st", "End") > 0 {
			break
		}
		time.Sleep(time.Millisecond)
	}
	return &outcome{Events: sc.snapshot(), Transcript: sb.String()}, nil
}

func (s *rpcSvc) checkWS(c *RPCCase, o *outcome) (vs []viol, obs map[string]int) {
	obs = map[string]int{}
	ev := o.Events
	full := s.std.Full("Bidi")
	add := func(k, w string) { vs = append(vs, viol{k, w}) }
	nSI := count(ev, "si", "call")
	if c.Opts.Stream == "rec" {
		if nSI != 1 {
			add(fmt.Sprintf("local/ws:stream-interceptor-calls=%d:bidi", min(nSI, 2)), fmt.Sprintf("WebSocket RPC passed through the stream interceptor %d times", nSI))
		}
		if e := last(ev, "si", "call"); e != nil {
			if want := flagsInfo(full, true, true); e.Info != want {
				add("local/ws:stream-interceptor-info:bidi", fmt.Sprintf("StreamServerInfo = {%s}, want {%s}", e.Info, want))
			}
		}
	}
	if !c.Opts.Stats {
		return
	}
	var names []string
	var st []revent
	for _, e := range ev {
		if e.Src == "st" {
			st = append(st, e)
			names = append(names, e.Name)
		}
	}
	seq := strings.Join(names, " ")
	nEnd := count(st, "st", "End")
	switch {
	case count(st, "st", "Tag") != 1:
		add("ws:stats-rpc-tag-count", fmt.Sprintf("TagRPC called %d times for one WebSocket RPC", count(st, "st", "Tag")))
		return
	case len(names) < 3 || names[0] != "Tag" || names[1] != "InHeader" || names[2] != "Begin":
		add("ws:stats-sequence:bad-prefix", "stats trace of a WebSocket RPC is "+seq)
	case nEnd != 1:
		add(fmt.Sprintf("ws:stats-sequence:end-count=%d", min(nEnd, 2)), "stats trace of a WebSocket RPC is "+seq)
	case names[len(names)-1] != "End":
		add("ws:stats-sequence:event-after-end", "stats trace of a WebSocket RPC is "+seq)
	default:
		obs["ws_stats_traces_bracketed"]++
	}
	if n := count(ev, "h", "recv-ok") + count(ev, "h", "send-ok") - count(st, "st", "InPayload") - count(st, "st", "OutPayload"); n > 0 {
		obs["ws_messages_without_payload_event"] += n
	}
	hret := last(ev, "h", "return")
	if e := last(st, "st", "End"); e != nil && hret != nil {
		var finalErr = hret.err
		if x := last(ev, "si", "return"); x != nil {
			finalErr = x.err
		}
		if !sameStatus(e.err, finalErr) {
			cls := "mismatch"
			if e.err == nil {
				cls = "handler-failed-end-nil"
			} else if finalErr == nil {
				cls = "handler-ok-end-error"
			}
			add("ws:stats-end-error:"+cls, fmt.Sprintf("WebSocket %s: End.Error = %v but the handler returned %v", full, e.err, finalErr))
		} else {
			obs["ws_stats_end_error_matches"]++
		}
	}
	return
}

func wsCases() []RPCCase {
	var out []RPCCase
	for _, size := range []int{0, 3, 100} {
		for _, km := range [][2]int{{1, 1}, {2, 2}, {3, 0}} {
			for _, fail := range []bool{false, true} {
				in, o := shapeIO("Bidi", size, km[0], km[1])
				out = append(out, RPCCase{Part: "rpc", Target: "local", Proto: "ws", Method: "Bidi", In: in, Out: o, Fail: fail, Code: 5, Msg: "nope"})
			}
		}
	}
	return out
}

func runWSCases(r *mon.Run, s *rpcSvc, cases []RPCCase, optsList []Opts) {
	srvs := map[string]*wire.Server{}
	defer func() {
		for _, sv := range srvs {
			sv.Close()
		}
	}()
	for i := range cases {
		base := cases[i]
		want := ""
		for _, o := range optsList {
			c := base
			c.Opts = o
			out, err := s.execWS(&c, srvs)
			r.Eval(1)
			r.Count("ws_rpcs", 1)
			if err != nil {
				r.Inconclusive("websocket lane: " + err.Error())
				return
			}
			if o.none() {
				want = out.Transcript
				continue
			}
			vs, obs := s.checkWS(&c, out)
			for k, n := range obs {
				r.Count(k, n)
			}
			for _, v := range vs {
				r.Violate(v.key, v.what, map[string]any{"part": "rpc", "case": &c, "events": out.Events, "transcript": out.Transcript})
			}
			if out.Transcript != want {
				r.Violate("local/ws:outcome-changed:with="+o.key()+":bidi", fmt.Sprintf("WebSocket exchange with %s is %q, without options %q", o.key(), clip(out.Transcript), clip(want)),
					map[string]any{"part": "rpc", "case": &c, "events": out.Events, "transcript": out.Transcript})
			} else if len(vs) == 0 {
				r.Distinct(fmt.Sprintf("local/ws/Bidi/fail=%v/%s", c.Fail, o.key()))
			}
		}
	}
	for _, sv := range srvs {
		if log := sv.ErrLog(); strings.Contains(log, "panic serving") {
			r.Violate("panic:server-log:ws", "the server logged a panic on the WebSocket lane: "+firstLines(log, 6), map[string]any{"part": "ws-log"})
		}
	}
}

func runWS(r *mon.Run) {
	s, err := newRPCSvc(false)
	if err != nil {
		r.Inconclusive("websocket lane setup: " + err.Error())
		return
	}
	runWSCases(r, s, wsCases(), []Opts{{}, {Stats: true}, {Stream: "rec"}, {Unary: "rec", Stream: "rec", Stats: true}})
}

func replayWS(r *mon.Run, c *RPCCase) {
	s, err := newRPCSvc(false)
	if err != nil {
		r.Inconclusive("websocket lane setup: " + err.Error())
		return
	}
	o := c.Opts
	runWSCases(r, s, []RPCCase{*c}, []Opts{{}, o})
	r.Distinct("replay-ws")
}
