package calls

import (
	"bytes"
	"context"
	"crypto/sha256"
	"fmt"
	"io"
	"net/http"
	"sort"
	"strings"
	"sync"

	"google.golang.org/genproto/googleapis/api/annotations"
	"google.golang.org/grpc"
	"google.golang.org/grpc/codes"
	"google.golang.org/grpc/stats"
	"google.golang.org/grpc/status"
	"google.golang.org/protobuf/encoding/protojson"
	"google.golang.org/protobuf/proto"
	"google.golang.org/protobuf/reflect/protoreflect"
	"larking.io/larking"

	"verif/internal/mon"
	"verif/internal/vschema"
	"verif/internal/wire"
)

// The message-kind lane of C18. The RPC matrix of c18.go moves one message
// type (vf.Chunk) in both directions; larking, however, treats messages
// differently by KIND: a reply (or the field of it that a response_body
// selector names) of type google.api.HttpBody is written raw with its own
// content type, a request body selected by `body: "<field>"` of that type is
// read raw, google.protobuf.Empty and sub-message selectors take other
// branches again. "One in/out-payload event per message, end exactly once
// carrying the handler's error, installing a stats handler never changes the
// outcome" is quantified over all methods, so this lane quantifies over
//
//	request kind  (URL only | whole message | body = HttpBody field | HttpBody)
//	x reply kind  (message | Empty | HttpBody | response_body = HttpBody field
//	               | response_body = message field)
//	x shape       (unary, server-, client-, bidi-streaming)
//	x transport   (HTTP transcoding JSON / protobuf, gRPC, gRPC-web)
//	x payload size 0 .. large   x   handler succeeds / fails
//	x options     (none | stats | stats + recording interceptors)
//
// and judges, from the handler's own log of what it received, sent and
// returned: the stats trace grammar, #InPayload = messages received,
// #OutPayload = messages sent, OutPayload.Payload = the message sent, End =
// the handler's error, interceptor exactly once, and transcript equality with
// the option-less run.

type mkMethod struct {
	name      string
	in, out   string
	cs, ss    bool
	rule      *annotations.HttpRule
	reqKind   string // url-only | message | body=httpbody-field | httpbody
	replyKind string // message | empty | httpbody | response_body=httpbody-field | response_body=message-field
	path      string // concrete request path of the HTTP binding
}

func (m *mkMethod) shape() string {
	switch {
	case m.cs && m.ss:
		return "bidi"
	case m.cs:
		return "cs"
	case m.ss:
		return "ss"
	}
	return "unary"
}

func mkMethods() []*mkMethod {
	get := func(p, rb string) *annotations.HttpRule {
		return &annotations.HttpRule{Pattern: &annotations.HttpRule_Get{Get: p}, ResponseBody: rb}
	}
	post := func(p, body, rb string) *annotations.HttpRule {
		return &annotations.HttpRule{Pattern: &annotations.HttpRule_Post{Post: p}, Body: body, ResponseBody: rb}
	}
	const hb = "google.api.HttpBody"
	return []*mkMethod{
		{name: "Plain", in: "vf.Req", out: "vf.Rsp", rule: get("/k/plain/{a}", ""), reqKind: "url-only", replyKind: "message", path: "/k/plain/x"},
		{name: "Sub", in: "vf.Req", out: "vf.Rsp", rule: get("/k/sub/{a}", "sub"), reqKind: "url-only", replyKind: "response_body=message-field", path: "/k/sub/x"},
		{name: "Empty", in: "vf.Req", out: "google.protobuf.Empty", rule: get("/k/empty/{a}", ""), reqKind: "url-only", replyKind: "empty", path: "/k/empty/x"},
		{name: "Body", in: "vf.Req", out: hb, rule: get("/k/body/{a}", ""), reqKind: "url-only", replyKind: "httpbody", path: "/k/body/x"},
		{name: "Wrapped", in: "vf.Req", out: "vf.Rsp", rule: get("/k/wrapped/{a}", "body"), reqKind: "url-only", replyKind: "response_body=httpbody-field", path: "/k/wrapped/x"},
		{name: "Gen", in: "vf.Req", out: hb, rule: post("/k/gen", "*", ""), reqKind: "message", replyKind: "httpbody", path: "/k/gen"},
		{name: "GenPlain", in: "vf.Req", out: "vf.Rsp", rule: post("/k/genplain", "*", ""), reqKind: "message", replyKind: "message", path: "/k/genplain"},
		{name: "UpDown", in: "vf.Upload", out: hb, rule: post("/k/updown/{name}", "file", ""), reqKind: "body=httpbody-field", replyKind: "httpbody", path: "/k/updown/x"},
		{name: "Put", in: "vf.Upload", out: "vf.Rsp", rule: post("/k/put/{name}", "file", ""), reqKind: "body=httpbody-field", replyKind: "message", path: "/k/put/x"},
		{name: "PutWrapped", in: "vf.Upload", out: "vf.Rsp", rule: post("/k/putwrapped/{name}", "file", "body"), reqKind: "body=httpbody-field", replyKind: "response_body=httpbody-field", path: "/k/putwrapped/x"},
		{name: "Raw", in: hb, out: hb, rule: post("/k/raw", "*", ""), reqKind: "httpbody", replyKind: "httpbody", path: "/k/raw"},
		{name: "WatchPlain", in: "vf.Req", out: "vf.Rsp", ss: true, rule: get("/k/watchplain/{a}", ""), reqKind: "url-only", replyKind: "message", path: "/k/watchplain/x"},
		{name: "WatchBody", in: "vf.Req", out: hb, ss: true, rule: get("/k/watchbody/{a}", ""), reqKind: "url-only", replyKind: "httpbody", path: "/k/watchbody/x"},
		{name: "WatchWrapped", in: "vf.Req", out: "vf.Rsp", ss: true, rule: get("/k/watchwrapped/{a}", "body"), reqKind: "url-only", replyKind: "response_body=httpbody-field", path: "/k/watchwrapped/x"},
		{name: "Upload", in: "vf.Upload", out: "vf.Rsp", cs: true, rule: post("/k/upload/{name}", "file", ""), reqKind: "body=httpbody-field", replyKind: "message", path: "/k/upload/x"},
		{name: "UploadDown", in: "vf.Upload", out: hb, cs: true, rule: post("/k/uploaddown/{name}", "file", ""), reqKind: "body=httpbody-field", replyKind: "httpbody", path: "/k/uploaddown/x"},
		{name: "Pipe", in: "vf.Upload", out: hb, cs: true, ss: true, rule: post("/k/pipe/{name}", "file", ""), reqKind: "body=httpbody-field", replyKind: "httpbody", path: "/k/pipe/x"},
	}
}

// MKCase is one replayable RPC of the lane.
type MKCase struct {
	Part      string `json:"part"` // "rpc" (dispatched to replayRPC, which hands over by Lane)
	Lane      string `json:"lane"` // "msgkind"
	Method    string `json:"method"`
	Shape     string `json:"shape"`
	ReqKind   string `json:"req_kind"`
	ReplyKind string `json:"reply_kind"`
	Proto     string `json:"proto"` // http-json | http-proto | grpc | web
	Size      int    `json:"size"`  // bytes of the payload-carrying field of request and reply
	NOut      int    `json:"n_out"` // messages a server-streaming handler sends
	Fail      bool   `json:"fail,omitempty"`
	Code      int    `json:"code,omitempty"`
	Opts      string `json:"opts"` // none | stats | stats+icpt
}

func (c *MKCase) pc() string {
	if strings.HasPrefix(c.Proto, "http") {
		return "http"
	}
	return c.Proto
}

func mkSizeClass(n int) string {
	switch {
	case n == 0:
		return "empty"
	case n < 5:
		return "<5"
	case n <= 1024:
		return "small"
	case n <= 65536:
		return "<=64K"
	}
	return ">64K"
}

// mkData: n bytes, none of them constant (a copy taken from the wrong place,
// or truncated, differs from it).
func mkData(n, salt int) []byte {
	b := make([]byte, n)
	for i := range b {
		b[i] = byte('a' + (i*7+salt)%23)
	}
	return b
}

func setStr(m protoreflect.Message, f, v string) {
	m.Set(m.Descriptor().Fields().ByName(protoreflect.Name(f)), protoreflect.ValueOfString(v))
}

func setBytes(m protoreflect.Message, f string, v []byte) {
	m.Set(m.Descriptor().Fields().ByName(protoreflect.Name(f)), protoreflect.ValueOfBytes(v))
}

func sub(m protoreflect.Message, f string) protoreflect.Message {
	return m.Mutable(m.Descriptor().Fields().ByName(protoreflect.Name(f))).Message()
}

// fillBody fills a google.api.HttpBody; size 0 leaves the message empty.
func fillBody(m protoreflect.Message, size, salt int) {
	if size == 0 {
		return
	}
	setStr(m, "content_type", "application/x-verif")
	setBytes(m, "data", mkData(size, salt))
}

// mkReply builds the i-th reply of a method: the payload-carrying part has
// size bytes.
func mkReply(md protoreflect.MessageDescriptor, size, i int) proto.Message {
	out := vschema.NewMsg(md)
	r := out.ProtoReflect()
	switch md.FullName() {
	case "google.api.HttpBody":
		fillBody(r, size, i)
	case "vf.Rsp":
		setStr(r, "tag", fmt.Sprintf("reply-%d", i))
		s := sub(r, "sub")
		setStr(s, "a", string(mkData(size, i)))
		fillBody(sub(r, "body"), size, i)
	}
	return out
}

// mkRequest builds the k-th request message of a method.
func mkRequest(md protoreflect.MessageDescriptor, size, k int) proto.Message {
	in := vschema.NewMsg(md)
	r := in.ProtoReflect()
	switch md.FullName() {
	case "google.api.HttpBody":
		fillBody(r, size, 100+k)
	case "vf.Upload":
		setStr(r, "name", "x")
		fillBody(sub(r, "file"), size, 100+k)
	case "vf.Req":
		setStr(r, "a", "x")
		if size > 0 {
			setStr(r, "b", string(mkData(size, 100+k)))
		}
	}
	return in
}

type mkSvc struct {
	mu sync.Mutex
	// script of the current RPC
	c *MKCase
	// handler log
	entered  bool
	in, out  []proto.Message
	recvErr  error
	sendErrs int
	ret      error
	returned bool
	nUI, nSI int
	icptInfo []string
	// stats log
	tags   []string
	events []stats.RPCStats
	ctxOK  []bool // the event's context carries the value planted by TagRPC
}

type mkTagKey struct{}

func (s *mkSvc) reset(c *MKCase) {
	s.mu.Lock()
	s.c = c
	s.entered, s.in, s.out, s.recvErr, s.sendErrs, s.ret, s.returned = false, nil, nil, nil, 0, nil, false
	s.nUI, s.nSI, s.icptInfo = 0, 0, nil
	s.tags, s.events, s.ctxOK = nil, nil, nil
	s.mu.Unlock()
}

func (s *mkSvc) TagConn(ctx context.Context, _ *stats.ConnTagInfo) context.Context { return ctx }
func (s *mkSvc) HandleConn(context.Context, stats.ConnStats)                       {}
func (s *mkSvc) TagRPC(ctx context.Context, info *stats.RPCTagInfo) context.Context {
	s.mu.Lock()
	s.tags = append(s.tags, info.FullMethodName)
	s.mu.Unlock()
	return context.WithValue(ctx, mkTagKey{}, true)
}
func (s *mkSvc) HandleRPC(ctx context.Context, e stats.RPCStats) {
	ok, _ := ctx.Value(mkTagKey{}).(bool)
	s.mu.Lock()
	s.events = append(s.events, e)
	s.ctxOK = append(s.ctxOK, ok)
	s.mu.Unlock()
}

func (s *mkSvc) script() (size, nOut int, fail error) {
	s.mu.Lock()
	defer s.mu.Unlock()
	if s.c.Fail {
		fail = status.Error(codes.Code(s.c.Code), "handler failed")
	}
	return s.c.Size, s.c.NOut, fail
}

func (s *mkSvc) unary(ctx context.Context, md protoreflect.MethodDescriptor, dec func(interface{}) error, icpt grpc.UnaryServerInterceptor) (interface{}, error) {
	in := vschema.NewMsg(md.Input())
	if err := dec(in); err != nil {
		s.mu.Lock()
		s.recvErr = err
		s.mu.Unlock()
		return nil, err
	}
	h := func(ctx context.Context, req interface{}) (interface{}, error) {
		size, _, fail := s.script()
		s.mu.Lock()
		defer s.mu.Unlock()
		s.entered = true
		s.in = append(s.in, in)
		s.returned, s.ret = true, fail
		if fail != nil {
			return nil, fail
		}
		out := mkReply(md.Output(), size, 0)
		s.out = append(s.out, out) // sent by larking iff the call succeeds
		return out, nil
	}
	if icpt == nil {
		return h(ctx, in)
	}
	return icpt(ctx, in, &grpc.UnaryServerInfo{FullMethod: vschema.FullMethod(md)}, h)
}

func (s *mkSvc) stream(md protoreflect.MethodDescriptor, ss grpc.ServerStream) (err error) {
	size, nOut, fail := s.script()
	s.mu.Lock()
	s.entered = true
	s.mu.Unlock()
	defer func() {
		s.mu.Lock()
		s.returned, s.ret = true, err
		s.mu.Unlock()
	}()
	for i := 0; ; i++ {
		in := vschema.NewMsg(md.Input())
		if err := ss.RecvMsg(in); err != nil {
			if err == io.EOF && md.IsStreamingClient() {
				break
			}
			s.mu.Lock()
			s.recvErr = err
			s.mu.Unlock()
			return err
		}
		s.mu.Lock()
		s.in = append(s.in, in)
		s.mu.Unlock()
		if !md.IsStreamingClient() {
			break
		}
	}
	if !md.IsStreamingServer() {
		nOut = 1
		if fail != nil {
			nOut = 0
		}
	}
	for i := 0; i < nOut; i++ {
		out := mkReply(md.Output(), size, i)
		if err := ss.SendMsg(out); err != nil {
			s.mu.Lock()
			s.sendErrs++
			s.mu.Unlock()
			return err
		}
		s.mu.Lock()
		s.out = append(s.out, out)
		s.mu.Unlock()
	}
	return fail
}

func (s *mkSvc) unaryIcpt(ctx context.Context, req interface{}, info *grpc.UnaryServerInfo, h grpc.UnaryHandler) (interface{}, error) {
	s.mu.Lock()
	s.nUI++
	s.icptInfo = append(s.icptInfo, info.FullMethod)
	s.mu.Unlock()
	return h(ctx, req)
}

func (s *mkSvc) streamIcpt(srv interface{}, ss grpc.ServerStream, info *grpc.StreamServerInfo, h grpc.StreamHandler) error {
	s.mu.Lock()
	s.nSI++
	s.icptInfo = append(s.icptInfo, flagsInfo(info.FullMethod, info.IsClientStream, info.IsServerStream))
	s.mu.Unlock()
	return h(srv, ss)
}

type mkLane struct {
	s       *mkSvc
	muxes   map[string]*larking.Mux
	methods map[string]*mkMethod
	mds     map[string]protoreflect.MethodDescriptor
}

const mkPkg = "vf.c18k"

func newMKLane() (*mkLane, error) {
	ms := mkMethods()
	f := &vschema.File{Path: "vf/c18k.proto", Pkg: mkPkg, Services: []vschema.Service{{Name: "Kinds"}}}
	for _, m := range ms {
		f.Services[0].Methods = append(f.Services[0].Methods, vschema.Method{Name: m.name, In: m.in, Out: m.out, CS: m.cs, SS: m.ss, Rule: m.rule})
	}
	fd, err := f.Build()
	if err != nil {
		return nil, err
	}
	reg, err := vschema.Registry(fd)
	if err != nil {
		return nil, err
	}
	l := &mkLane{s: &mkSvc{c: &MKCase{}}, muxes: map[string]*larking.Mux{}, methods: map[string]*mkMethod{}, mds: map[string]protoreflect.MethodDescriptor{}}
	sd := fd.Services().ByName("Kinds")
	for _, m := range ms {
		l.methods[m.name] = m
		l.mds[m.name] = sd.Methods().ByName(protoreflect.Name(m.name))
	}
	for _, o := range []string{"none", "stats", "stats+icpt"} {
		opts := []larking.MuxOption{larking.FilesOption(reg)}
		if o != "none" {
			opts = append(opts, larking.StatsOption(l.s))
		}
		if o == "stats+icpt" {
			opts = append(opts, larking.UnaryServerInterceptorOption(l.s.unaryIcpt), larking.StreamServerInterceptorOption(l.s.streamIcpt))
		}
		mux, err := larking.NewMux(opts...)
		if err == nil {
			err = larking.VerifRegisterService(mux, serviceDesc(sd, l.s.unary, l.s.stream), struct{}{})
		}
		if err != nil {
			return nil, err
		}
		l.muxes[o] = mux
	}
	return l, nil
}

// nIn: request messages of a client-streaming call on the framed protocols.
const mkNIn = 2

func (l *mkLane) request(c *MKCase) *http.Request {
	m, md := l.methods[c.Method], l.mds[c.Method]
	full := vschema.FullMethod(md)
	switch c.Proto {
	case "grpc", "web":
		n := 1
		if m.cs {
			n = mkNIn
		}
		var framed []byte
		for k := 0; k < n; k++ {
			framed = append(framed, wire.Frame(mustMarshal(mkRequest(md.Input(), c.Size, k)), false)...)
		}
		if c.Proto == "grpc" {
			return wire.GRPCRequest(full, nil, bytes.NewReader(framed))
		}
		return wire.WebRequest(full, nil, framed, false, "")
	}
	media := "application/json"
	if c.Proto == "http-proto" {
		media = "application/protobuf"
	}
	hdr := http.Header{"Accept": {media}}
	switch m.reqKind {
	case "url-only":
		return wire.BodyRequest("GET", m.path, "", hdr, nil)
	case "message":
		in := mkRequest(md.Input(), c.Size, 0)
		hdr.Set("Content-Type", media)
		var body []byte
		if c.Proto == "http-proto" {
			body = mustMarshal(in)
		} else {
			body, _ = protojson.Marshal(in)
		}
		return wire.BodyRequest("POST", m.path, "", hdr, body)
	}
	// raw body: the bytes of the HttpBody
	hdr.Set("Content-Type", "application/x-verif")
	if c.Size == 0 {
		return wire.BodyRequest("POST", m.path, "", hdr, nil)
	}
	return wire.BodyRequest("POST", m.path, "", hdr, mkData(c.Size, 100))
}

type mkOutcome struct {
	wedged     bool
	panic      *mon.PanicInfo
	transcript string
	httpOK     bool // the client got a success
	stKnown    bool // a grpc status reached the client
	stCode     int
	stMsg      string
	nMsgs      int // reply messages on the wire (framed protocols), else -1
}

func digest(b []byte) string {
	if len(b) <= 96 {
		return fmt.Sprintf("%q", b)
	}
	return fmt.Sprintf("%d bytes sha256=%x", len(b), sha256.Sum256(b))
}

// pbDigest identifies a protobuf-encoded message up to the order of its
// fields: protobuf-go does not fix the order in which the fields of a
// (dynamic) message are written, so two encodings of one message are
// permutations of each other at every nesting level - the multiset of their
// bytes is the same.
func pbDigest(b []byte) string {
	c := append([]byte(nil), b...)
	sort.Slice(c, func(i, j int) bool { return c[i] < c[j] })
	return fmt.Sprintf("protobuf %d bytes, byte-multiset sha256=%x", len(b), sha256.Sum256(c))
}

func (l *mkLane) exec(c *MKCase) *mkOutcome {
	l.s.reset(c)
	resp := wire.Serve(l.muxes[c.Opts], l.request(c))
	o := &mkOutcome{wedged: resp.Wedged, panic: resp.Panic, nMsgs: -1}
	if resp.Wedged || resp.Panic != nil {
		return o
	}
	switch c.Proto {
	case "grpc":
		fr, rest := wire.ParseFrames(resp.Body)
		o.nMsgs = len(fr)
		o.stCode, o.stMsg, _, o.stKnown = resp.GRPCStatus()
		var sb strings.Builder
		for _, f := range fr {
			fmt.Fprintf(&sb, "[%d:%s]", f.Flag, pbDigest(f.Data))
		}
		o.transcript = fmt.Sprintf("http=%d status=%d %q frames=%s rest=%x", resp.Code, o.stCode, o.stMsg, sb.String(), rest)
		o.httpOK = o.stKnown && o.stCode == 0
	case "web":
		wr := wire.DecodeWeb(resp.Body, false)
		o.nMsgs = len(wr.Msgs)
		o.stCode, o.stMsg, _, o.stKnown = resp.GRPCStatus()
		if v := wr.Trailer["grpc-status"]; !o.stKnown && len(v) > 0 {
			if _, err := fmt.Sscanf(v[0], "%d", &o.stCode); err == nil {
				o.stKnown = true
				if m := wr.Trailer["grpc-message"]; len(m) > 0 {
					o.stMsg = wire.DecodeGrpcMessage(m[0])
				}
			}
		}
		var sb strings.Builder
		for i, m := range wr.Msgs {
			fmt.Fprintf(&sb, "[%d:%s]", wr.Flags[i], pbDigest(m))
		}
		o.transcript = fmt.Sprintf("http=%d status=%d %q msgs=%s trailer=%v rest=%x", resp.Code, o.stCode, o.stMsg, sb.String(), wr.Trailer, wr.Rest)
		o.httpOK = o.stKnown && o.stCode == 0
	default:
		body := digest(resp.Body)
		if ct := resp.Header.Get("Content-Type"); ct == "application/protobuf" {
			body = pbDigest(resp.Body)
		}
		o.transcript = fmt.Sprintf("http=%d content-type=%q body=%s", resp.Code, resp.Header["Content-Type"], body)
		o.httpOK = resp.Code == 200
	}
	return o
}

func mkEventName(e stats.RPCStats) string {
	switch e.(type) {
	case *stats.InHeader:
		return "InHeader"
	case *stats.Begin:
		return "Begin"
	case *stats.InPayload:
		return "InPayload"
	case *stats.OutPayload:
		return "OutPayload"
	case *stats.OutHeader:
		return "OutHeader"
	case *stats.OutTrailer:
		return "OutTrailer"
	case *stats.InTrailer:
		return "InTrailer"
	case *stats.End:
		return "End"
	}
	return fmt.Sprintf("%T", e)
}

// traceGrammar checks Tag InHeader Begin (InPayload|OutHeader|OutPayload)*
// OutTrailer? End on the event names that follow the tag.
func traceGrammar(names []string) string {
	if len(names) < 2 || names[0] != "InHeader" || names[1] != "Begin" {
		return "bad-prefix"
	}
	nEnd := 0
	for _, n := range names {
		if n == "End" {
			nEnd++
		}
	}
	switch {
	case nEnd == 0:
		return "no-end"
	case nEnd > 1:
		return "end-repeated"
	case names[len(names)-1] != "End":
		return "event-after-end"
	}
	body := names[2 : len(names)-1]
	for i, n := range body {
		switch n {
		case "InPayload", "OutPayload", "OutHeader":
		case "OutTrailer":
			if i != len(body)-1 {
				return "out-trailer-not-last"
			}
		default:
			return "unexpected-" + n
		}
	}
	return ""
}

// judge applies the oracles to the RPC that was just executed with options.
func (l *mkLane) judge(r *mon.Run, c *MKCase, o *mkOutcome) (ok bool) {
	s := l.s
	s.mu.Lock()
	defer s.mu.Unlock()
	m, md := l.methods[c.Method], l.mds[c.Method]
	full := vschema.FullMethod(md)
	pc := c.pc()
	ok = true
	// the class of a finding names the side of the RPC its observable belongs
	// to: the request kind for receive-side observables, the reply kind for
	// send-side ones, both for those of the RPC as a whole
	cls := fmt.Sprintf("request=%s:reply=%s:%s", m.reqKind, m.replyKind, m.shape())
	violCls := func(k, cls, w string) {
		ok = false
		var names []string
		for _, e := range s.events {
			names = append(names, mkEventName(e))
		}
		r.Violate(fmt.Sprintf("%s:%s:%s", pc, k, cls), fmt.Sprintf("%s over %s (payload %d bytes, options %s): %s", full, c.Proto, c.Size, c.Opts, w),
			map[string]any{"part": "rpc", "lane": "msgkind", "case": c, "trace": strings.Join(names, " "), "transcript": o.transcript})
	}
	viol := func(k, w string) { violCls(k, cls, w) }
	violIn := func(k, w string) { violCls(k, fmt.Sprintf("request=%s:%s", m.reqKind, m.shape()), w) }
	violOut := func(k, w string) { violCls(k, fmt.Sprintf("reply=%s:%s", m.replyKind, m.shape()), w) }
	if !s.entered && s.recvErr == nil {
		r.Count("msgkind_rpcs_that_did_not_reach_the_handler", 1)
		r.Inconclusive(fmt.Sprintf("message-kind lane: %s over %s did not reach the handler: %s", full, c.Proto, clip(o.transcript)))
		return false
	}
	// ---- interceptors: exactly once, with the method's name and flags
	if c.Opts == "stats+icpt" {
		wantUI, wantSI := 1, 0
		want := full
		if m.cs || m.ss {
			wantUI, wantSI = 0, 1
			want = flagsInfo(full, m.cs, m.ss)
		}
		if s.recvErr != nil && !m.cs && !m.ss {
			wantUI = s.nUI // generated code decodes in front of the interceptor
		}
		if s.nUI != wantUI || s.nSI != wantSI {
			viol(fmt.Sprintf("interceptor-calls=unary:%d,stream:%d", min(s.nUI, 2), min(s.nSI, 2)), fmt.Sprintf("passed through the unary interceptor %d and the stream interceptor %d time(s)", s.nUI, s.nSI))
		} else if len(s.icptInfo) == 1 && s.icptInfo[0] != want {
			viol("interceptor-info", fmt.Sprintf("the interceptor was told {%s}, want {%s}", s.icptInfo[0], want))
		} else {
			r.Count("msgkind_interceptor_exactly_once", 1)
		}
	}
	// ---- stats trace
	if len(s.tags) != 1 {
		viol(fmt.Sprintf("stats-rpc-tagged-%d-times", min(len(s.tags), 2)), fmt.Sprintf("TagRPC was called %d times", len(s.tags)))
		return ok
	}
	if s.tags[0] != full {
		viol("stats-tag-fullmethodname", fmt.Sprintf("RPCTagInfo.FullMethodName = %q", s.tags[0]))
	}
	var names []string
	for i, e := range s.events {
		names = append(names, mkEventName(e))
		if !s.ctxOK[i] {
			viol("stats-sequence:untagged-event:"+names[i], names[i]+" event delivered with a context that does not carry the value planted by TagRPC")
		}
	}
	seq := strings.Join(names, " ")
	if g := traceGrammar(names); g != "" {
		viol("stats-sequence:"+g, fmt.Sprintf("stats trace is %q, want Tag InHeader Begin (InPayload|OutHeader|OutPayload)* OutTrailer? End", "Tag "+seq))
	} else {
		r.Count("msgkind_stats_traces_wellformed", 1)
	}
	// ---- one payload event per message
	var ins []*stats.InPayload
	var outs []*stats.OutPayload
	var end *stats.End
	for _, e := range s.events {
		switch e := e.(type) {
		case *stats.InHeader:
			if e.FullMethod != full {
				viol("stats-inheader-fullmethod", fmt.Sprintf("InHeader.FullMethod = %q", e.FullMethod))
			}
		case *stats.Begin:
			if e.IsClientStream != m.cs || e.IsServerStream != m.ss {
				viol("stats-begin-stream-flags", fmt.Sprintf("Begin{IsClientStream: %v, IsServerStream: %v}", e.IsClientStream, e.IsServerStream))
			}
		case *stats.InPayload:
			ins = append(ins, e)
		case *stats.OutPayload:
			outs = append(outs, e)
		case *stats.End:
			end = e
		}
	}
	r.Count("msgkind_stats_inpayload_events", len(ins))
	r.Count("msgkind_stats_outpayload_events", len(outs))
	r.Count("msgkind_messages_received_by_handler", len(s.in))
	if s.recvErr == nil {
		// every receive of the handler succeeded: the messages it holds are the
		// messages of the RPC
		if len(ins) != len(s.in) {
			dir := "missing"
			if len(ins) > len(s.in) {
				dir = "extra"
			}
			violIn("stats-inpayload-"+dir, fmt.Sprintf("the handler received %d message(s) but the stats handler saw %d InPayload event(s) (trace %q)", len(s.in), len(ins), seq))
		} else {
			r.Count("msgkind_inpayload_per_message_held", 1)
		}
	}
	// messages sent: streaming handlers log each successful SendMsg; a unary
	// handler's reply is sent by larking iff the call succeeds at the client
	sent, sentKnown := s.out, s.sendErrs == 0 && s.returned
	if !m.cs && !m.ss {
		switch {
		case s.ret != nil || !s.returned:
			sent = nil
		case !o.httpOK:
			sentKnown = false // larking's own send of the reply failed: not specified
		}
	}
	if sentKnown {
		r.Count("msgkind_messages_sent_by_handler", len(sent))
		if len(outs) != len(sent) {
			dir := "missing"
			if len(outs) > len(sent) {
				dir = "extra"
			}
			violOut("stats-outpayload-"+dir, fmt.Sprintf("the handler sent %d message(s) but the stats handler saw %d OutPayload event(s) (trace %q)", len(sent), len(outs), seq))
		} else {
			r.Count("msgkind_outpayload_per_message_held", 1)
			for i, e := range outs {
				pm, isMsg := e.Payload.(proto.Message)
				if !isMsg || !proto.Equal(pm, sent[i]) {
					violOut("stats-outpayload-is-not-the-message-sent", fmt.Sprintf("OutPayload #%d carries %T (%d bytes encoded), not the message the handler sent", i, e.Payload, e.Length))
					break
				}
			}
		}
		if o.nMsgs >= 0 && len(outs) != o.nMsgs {
			violOut("stats-outpayload-events-differ-from-messages-on-the-wire", fmt.Sprintf("%d OutPayload event(s) but the client was sent %d message(s)", len(outs), o.nMsgs))
		}
	} else {
		r.Count("msgkind_sent_count_not_observable", 1)
	}
	// ---- End carries the handler's error
	if end != nil && s.returned && (s.ret != nil || o.httpOK) {
		if !sameStatus(end.Error, s.ret) {
			k := "mismatch"
			switch {
			case end.Error == nil:
				k = "handler-failed-end-nil"
			case s.ret == nil:
				k = "handler-ok-end-error"
			}
			viol("stats-end-error:"+k, fmt.Sprintf("End.Error = %v but the handler returned %v", end.Error, s.ret))
		} else {
			r.Count("msgkind_stats_end_error_matches", 1)
		}
	}
	if end != nil && o.stKnown {
		es := status.Convert(end.Error)
		if int(es.Code()) != o.stCode {
			viol("stats-end-error-differs-from-client-status", fmt.Sprintf("End.Error = %v but the client got grpc-status %d %q", end.Error, o.stCode, o.stMsg))
		}
	}
	return ok
}

// runCases executes every case without options (reference) and under each
// option set.
func (l *mkLane) runCases(r *mon.Run, cases []MKCase, optSets []string) {
	for i := range cases {
		base := cases[i]
		base.Opts = "none"
		ref := l.exec(&base)
		r.Eval(1)
		r.Count("msgkind_rpcs", 1)
		if ref.wedged {
			r.Inconclusive("message-kind lane: reference request wedged")
			continue
		}
		if ref.panic != nil {
			r.Count("baseline_panics", 1) // without options: not this property's subject
			continue
		}
		l.s.mu.Lock()
		reached := l.s.entered
		l.s.mu.Unlock()
		if !reached {
			r.Count("msgkind_rpcs_that_did_not_reach_the_handler", 1)
			r.Inconclusive(fmt.Sprintf("message-kind lane: %s over %s did not reach the handler: %s", base.Method, base.Proto, clip(ref.transcript)))
			continue
		}
		if ref.httpOK {
			r.Count("msgkind_reference_calls_succeeded", 1)
		}
		changedWith := "" // smallest option set that changed the outcome (optSets is ordered by inclusion)
		for _, o := range optSets {
			c := base
			c.Opts = o
			out := l.exec(&c)
			r.Eval(1)
			r.Count("msgkind_rpcs", 1)
			r.Count("msgkind_rpcs_reply="+c.ReplyKind, 1)
			r.Count("msgkind_rpcs_request="+c.ReqKind, 1)
			r.Count("msgkind_rpcs_payload_size:"+mkSizeClass(c.Size), 1)
			if out.wedged {
				r.Inconclusive("message-kind lane: request wedged")
				continue
			}
			cls := fmt.Sprintf("request=%s:reply=%s:%s", c.ReqKind, c.ReplyKind, c.Shape)
			if out.panic != nil {
				r.Count("panics", 1)
				r.Violate(fmt.Sprintf("%s:%s:%s", out.panic.Key(), c.pc(), cls), fmt.Sprintf("%s over %s with %s panicked: %s", c.Method, c.Proto, o, out.panic.Value), map[string]any{"part": "rpc", "lane": "msgkind", "case": &c})
				continue
			}
			ok := l.judge(r, &c, out)
			if out.transcript != ref.transcript && changedWith != "" {
				ok = false // reported under the smaller option set
			} else if out.transcript != ref.transcript {
				ok, changedWith = false, o
				r.Violate(fmt.Sprintf("local/%s:outcome-changed:with=%s:%s", c.pc(), o, cls),
					fmt.Sprintf("%s over %s (payload %d bytes): client-visible outcome with %s is %s, without options %s", c.Method, c.Proto, c.Size, o, clip(out.transcript), clip(ref.transcript)),
					map[string]any{"part": "rpc", "lane": "msgkind", "case": &c, "transcript": out.transcript})
			} else {
				r.Count("msgkind_outcomes_equal_to_reference", 1)
			}
			if ok {
				r.Distinct(fmt.Sprintf("msgkind/%s/%s/%s/size=%s/fail=%v/%s", c.Proto, c.Method, cls, mkSizeClass(c.Size), c.Fail, o))
			}
		}
	}
}

func (l *mkLane) caseOf(m *mkMethod, p string, size, nOut int, fail bool, code int) MKCase {
	c := MKCase{Part: "rpc", Lane: "msgkind", Method: m.name, Shape: m.shape(), ReqKind: m.reqKind, ReplyKind: m.replyKind, Proto: p, Size: size, NOut: nOut, Fail: fail}
	if fail {
		c.Code = code
	}
	return c
}

func runMessageKinds(r *mon.Run) {
	l, err := newMKLane()
	if err != nil {
		r.Inconclusive("message-kind lane: " + err.Error())
		return
	}
	sizes := []int{0, 1, 4, 17, 5000, 70000}
	if r.Thorough() {
		sizes = append(sizes, 2, 3, 5, 255, 65536, 1<<20)
	}
	failCodes := []int{int(codes.NotFound), int(codes.Internal), int(codes.Unavailable)}
	var cases []MKCase
	for _, m := range mkMethods() {
		for _, p := range []string{"http-json", "http-proto", "grpc", "web"} {
			for si, size := range sizes {
				nOuts := []int{1}
				if m.ss {
					nOuts = []int{0, 1, 3}
				}
				for _, n := range nOuts {
					cases = append(cases, l.caseOf(m, p, size, n, false, 0))
					if si%2 == 0 || r.Thorough() {
						cases = append(cases, l.caseOf(m, p, size, n, true, failCodes[(si+n)%len(failCodes)]))
					}
				}
			}
		}
	}
	// thorough: PRNG-chosen sizes
	rng := r.Rand("c18-msgkind")
	ms := mkMethods()
	for i := 0; i < r.Pick(0, 600); i++ {
		m := ms[rng.Intn(len(ms))]
		p := []string{"http-json", "http-proto", "grpc", "web"}[rng.Intn(4)]
		size := rng.Intn(1 << uint(rng.Intn(19)))
		n := 1
		if m.ss {
			n = rng.Intn(5)
		}
		cases = append(cases, l.caseOf(m, p, size, n, rng.Intn(4) == 0, failCodes[rng.Intn(len(failCodes))]))
	}
	r.Count("msgkind_cases", len(cases))
	l.runCases(r, cases, []string{"stats", "stats+icpt"})
}

func replayMessageKind(r *mon.Run, c *MKCase) {
	l, err := newMKLane()
	if err != nil {
		r.Inconclusive("message-kind lane: " + err.Error())
		return
	}
	if l.methods[c.Method] == nil || l.muxes[c.Opts] == nil {
		r.Inconclusive("message-kind lane: unknown method / option set in replay case")
		return
	}
	o := c.Opts
	l.runCases(r, []MKCase{*c}, []string{o})
	r.Distinct("replay-msgkind")
}
