package calls

import (
	"context"
	"sync/atomic"

	"google.golang.org/grpc"
	"google.golang.org/grpc/stats"
	"larking.io/larking"
)

// Mux options of the C15 workloads. Interceptor modes: "pass" calls the
// handler unchanged; "ctx" is larking's NewUnaryContext / NewStreamContext
// helper with a NewContextFunc that derives a child context (WithValue): the
// handler then runs under a decorated context, which must still carry the
// call's deadline and cancellation. Stats: a handler whose TagRPC derives a
// child context as every real stats handler does.

type c15ValKey struct{}

func c15CtxFn(ctx context.Context, fullMethod string, _, _ bool) context.Context {
	return context.WithValue(ctx, c15ValKey{}, fullMethod)
}

func passUnary(ctx context.Context, req interface{}, _ *grpc.UnaryServerInfo, h grpc.UnaryHandler) (interface{}, error) {
	return h(ctx, req)
}

func passStream(srv interface{}, ss grpc.ServerStream, _ *grpc.StreamServerInfo, h grpc.StreamHandler) error {
	return h(srv, ss)
}

type tagStats struct{ events int64 }

type tagStatsKey struct{}

func (t *tagStats) TagConn(ctx context.Context, _ *stats.ConnTagInfo) context.Context { return ctx }
func (t *tagStats) HandleConn(context.Context, stats.ConnStats)                       {}
func (t *tagStats) TagRPC(ctx context.Context, info *stats.RPCTagInfo) context.Context {
	return context.WithValue(ctx, tagStatsKey{}, info.FullMethodName)
}
func (t *tagStats) HandleRPC(context.Context, stats.RPCStats) { atomic.AddInt64(&t.events, 1) }

func c15MuxOptions(o Opts) []larking.MuxOption {
	var mo []larking.MuxOption
	switch o.Unary {
	case "pass":
		mo = append(mo, larking.UnaryServerInterceptorOption(passUnary))
	case "ctx":
		mo = append(mo, larking.UnaryServerInterceptorOption(larking.NewUnaryContext(c15CtxFn)))
	}
	switch o.Stream {
	case "pass":
		mo = append(mo, larking.StreamServerInterceptorOption(passStream))
	case "ctx":
		mo = append(mo, larking.StreamServerInterceptorOption(larking.NewStreamContext(c15CtxFn)))
	}
	if o.Stats {
		mo = append(mo, larking.StatsOption(&tagStats{}))
	}
	return mo
}

// c15Masks: the 8 on/off masks of (unary interceptor, stream interceptor,
// stats handler) with context-decorating interceptors - index 0 is all-off,
// index 7 all-on - followed by all-on with pass-through interceptors.
func c15Masks() []Opts {
	var out []Opts
	for i := 0; i < 8; i++ {
		var o Opts
		if i&1 != 0 {
			o.Unary = "ctx"
		}
		if i&2 != 0 {
			o.Stream = "ctx"
		}
		o.Stats = i&4 != 0
		out = append(out, o)
	}
	return append(out, Opts{Unary: "pass", Stream: "pass", Stats: true})
}

// onOff reduces a mask to which options are on (interceptor mode ignored).
func (o Opts) onOff() [3]bool { return [3]bool{o.Unary != "", o.Stream != "", o.Stats} }

// coveredBy: every option that is on in o is on in p.
func (o Opts) coveredBy(p Opts) bool {
	a, b := o.onOff(), p.onOff()
	for i := range a {
		if a[i] && !b[i] {
			return false
		}
	}
	return true
}
