package calls

import (
	"context"
	"encoding/base64"
	"fmt"
	"io"
	"net"
	"net/http"
	"strings"
	"sync"
	"sync/atomic"
	"time"

	"larking.io/larking"

	"verif/internal/mon"
	"verif/internal/wire"
)

// The slow-client lane of C15a: over real connections the request headers
// (with grpc-timeout) are sent first and the request body - or the rest of it
// - is withheld until the method handler has been entered (a logical event
// logged by the handler), or until a generous watchdog expires. "T after
// receipt" must not depend on when the body arrives:
//
//   - t_headers_sent + T <= deadline <= t_handler_entry + T   (as in-process)
//   - if the handler was not entered before the body was sent, the deadline
//     must still lie within T + slowStartWatchdog of the moment larking's
//     ServeHTTP was entered with the request (recorded by a pass-through
//     handler in front of the mux); beyond that the deadline demonstrably was
//     armed only when the body arrived. The goroutine dump taken while the
//     body was withheld shows where larking kept the request.

const slowStartWatchdog = 10 * time.Second

// SlowCase is one replayable slow-body execution.
type SlowCase struct {
	Part     string `json:"part"`     // "slowbody"
	Client   string `json:"client"`   // h1-web | h1-webtext | h2c-grpc
	Announce string `json:"announce"` // length (Content-Length) | none (chunked / unknown length)
	Method   string `json:"method"`   // Echo | CS | Bidi
	Split    string `json:"split"`    // all (headers only first) | mid (first message with the headers, the rest withheld)
	MsgSize  int    `json:"msg_size"`
	Value    string `json:"value"` // grpc-timeout
	Opts     Opts   `json:"opts"`
}

func (c *SlowCase) class() string {
	sz := "small"
	if c.MsgSize > 64<<10 {
		sz = "over-64KiB"
	}
	kind := "unary"
	if c.Method != "Echo" {
		kind = "stream"
	}
	return fmt.Sprintf("%s/%s/%s/split=%s/%s", c.Client, c.Announce, kind, c.Split, sz)
}

type slowLane struct {
	s    *dlSvc
	mu   sync.Mutex
	srvs map[string]*wire.Server
}

func (l *slowLane) serverFor(o Opts) (*wire.Server, error) {
	l.mu.Lock()
	defer l.mu.Unlock()
	if srv := l.srvs[o.key()]; srv != nil {
		return srv, nil
	}
	mux, err := l.s.muxFor("", o)
	if err != nil {
		return nil, err
	}
	boundary := http.HandlerFunc(func(w http.ResponseWriter, r *http.Request) {
		if v, ok := l.s.recs.Load(r.Header.Get("X-Scn")); ok {
			rec := v.(*dlRec)
			rec.mu.Lock()
			rec.serveEnter = time.Now()
			rec.reqGid = goid()
			rec.mu.Unlock()
		}
		mux.ServeHTTP(w, r)
	})
	srv, err := wire.StartLarking(mux, nil, larking.MuxHandleOption("/__unused"), larking.HTTPHandlerOption("/", boundary))
	if err != nil {
		return nil, err
	}
	l.srvs[o.key()] = srv
	return srv, nil
}

func (l *slowLane) close() {
	l.mu.Lock()
	defer l.mu.Unlock()
	for _, srv := range l.srvs {
		srv.Close()
	}
}

type slowOutcome struct {
	vs           []viol
	inconclusive string
	note         string
	observed     bool
	dump         string
}

func (l *slowLane) exec(c *SlowCase) *slowOutcome {
	out := &slowOutcome{}
	srv, err := l.serverFor(c.Opts)
	if err != nil {
		out.inconclusive = "slow-body server setup: " + err.Error()
		return out
	}
	id := fmt.Sprintf("s%d", atomic.AddInt64(&l.s.seq, 1))
	rec := &dlRec{}
	l.s.recs.Store(id, rec)
	defer l.s.recs.Delete(id)

	// request body: one message (unary) or two (streams), framed
	nMsg := 1
	if c.Method != "Echo" {
		nMsg = 2
	}
	one := wire.Frame(mustMarshal(chunkOfSize(c.MsgSize)), false)
	var body []byte
	for i := 0; i < nMsg; i++ {
		body = append(body, one...)
	}
	first := 0 // bytes sent together with the headers
	if c.Split == "mid" {
		first = len(one)
	}
	if c.Client == "h1-webtext" {
		// each part is a self-contained base64 chunk
		enc := base64.StdEncoding.EncodeToString
		a, b := enc(body[:first]), enc(body[first:])
		if first == 0 {
			a = ""
		}
		body = []byte(a + b)
		first = len(a)
	}
	full := l.s.std.Full(c.Method)

	var sendRest func() error
	var finish func()
	tHeaders := time.Now()
	switch c.Client {
	case "h2c-grpc":
		client := wire.H2CClient()
		pr, pw := io.Pipe()
		ctx, cancel := context.WithCancel(context.Background())
		req, _ := http.NewRequestWithContext(ctx, "POST", srv.URL+full, pr)
		req.Header.Set("Content-Type", "application/grpc")
		req.Header.Set("Te", "trailers")
		req.Header.Set("Grpc-Timeout", c.Value)
		req.Header.Set("X-Scn", id)
		if c.Announce == "length" {
			req.ContentLength = int64(len(body))
		}
		done := make(chan struct{})
		go func() {
			defer close(done)
			if resp, err := client.Do(req); err == nil {
				io.Copy(io.Discard, resp.Body)
				resp.Body.Close()
			}
		}()
		if first > 0 {
			// a stream handler that has already answered makes the transport
			// drop the request body: not an error of the scenario
			pw.Write(body[:first]) //nolint:errcheck
		}
		sendRest = func() error {
			_, err := pw.Write(body[first:])
			pw.Close()
			return err
		}
		finish = func() {
			select {
			case <-done:
			case <-time.After(5 * time.Second):
			}
			cancel()
			pw.CloseWithError(io.ErrClosedPipe)
			client.CloseIdleConnections()
		}
	default:
		conn, err := net.Dial("tcp", srv.Addr)
		if err != nil {
			out.inconclusive = "slow-body client: " + err.Error()
			return out
		}
		ct := "application/grpc-web+proto"
		if c.Client == "h1-webtext" {
			ct = "application/grpc-web-text+proto"
		}
		var sb strings.Builder
		fmt.Fprintf(&sb, "POST %s HTTP/1.1\r\nHost: verif.test\r\nX-Scn: %s\r\nConnection: close\r\nContent-Type: %s\r\nGrpc-Timeout: %s\r\n", full, id, ct, c.Value)
		chunked := c.Announce != "length"
		if chunked {
			sb.WriteString("Transfer-Encoding: chunked\r\n\r\n")
		} else {
			fmt.Fprintf(&sb, "Content-Length: %d\r\n\r\n", len(body))
		}
		part := func(b []byte, last bool) []byte {
			if !chunked {
				return b
			}
			var o []byte
			if len(b) > 0 {
				o = append([]byte(fmt.Sprintf("%x\r\n", len(b))), b...)
				o = append(o, "\r\n"...)
			}
			if last {
				o = append(o, "0\r\n\r\n"...)
			}
			return o
		}
		tHeaders = time.Now()
		if _, err := conn.Write(append([]byte(sb.String()), part(body[:first], false)...)); err != nil {
			conn.Close()
			out.inconclusive = "slow-body client: " + err.Error()
			return out
		}
		sendRest = func() error {
			_, err := conn.Write(part(body[first:], true))
			return err
		}
		finish = func() {
			conn.SetReadDeadline(time.Now().Add(2 * time.Second))
			io.Copy(io.Discard, conn)
			conn.Close()
		}
	}
	defer finish()

	snapshot := func() (obs []dlObs, se time.Time, gid int64) {
		rec.mu.Lock()
		defer rec.mu.Unlock()
		return append([]dlObs(nil), rec.obs...), rec.serveEnter, rec.reqGid
	}
	waitFor := func(d time.Duration, pred func() bool) bool {
		deadline := time.Now().Add(d)
		for !pred() {
			if time.Now().After(deadline) {
				return false
			}
			time.Sleep(200 * time.Microsecond)
		}
		return true
	}
	// 1. larking has the request
	if !waitFor(15*time.Second, func() bool { _, se, _ := snapshot(); return !se.IsZero() }) {
		out.inconclusive = c.class() + ": the request never reached larking's ServeHTTP"
		sendRest() //nolint:errcheck
		return out
	}
	// 2. the method handler is entered while the body is still withheld
	startedBeforeBody := waitFor(slowStartWatchdog, func() bool { o, _, _ := snapshot(); return len(o) > 0 })
	if !startedBeforeBody {
		_, _, gid := snapshot()
		out.dump = goroutineBlock(fullDump(), gid)
	}
	// 3. the rest of the body
	tBody := time.Now()
	sendRest() //nolint:errcheck
	if !waitFor(15*time.Second, func() bool { o, _, _ := snapshot(); return len(o) > 0 }) {
		out.inconclusive = c.class() + ": the handler was not entered within 15s after the complete request had been sent"
		return out
	}
	if c.Method == "Echo" {
		// the user handler behind the decode step (observation only)
		waitFor(5*time.Second, func() bool { o, _, _ := snapshot(); return len(o) > 1 })
	}
	obs, tServe, _ := snapshot()
	T, far := timeoutOf(c.Value)
	if far {
		return out
	}
	with := ""
	if !c.Opts.none() {
		with = ":with=" + c.Opts.key()
	}
	add := func(k, w string) { out.vs = append(out.vs, viol{"slow-client:" + c.class() + ":" + k + with, w}) }
	desc := fmt.Sprintf("grpc-timeout %q, request body withheld after the headers", c.Value)
	for _, o := range obs {
		if len(out.vs) > 0 {
			break
		}
		if !o.has {
			add("deadline-missing:at-"+o.where, fmt.Sprintf("%s: the context at the %s has no deadline", desc, o.where))
			continue
		}
		if lo := o.deadline.Sub(tHeaders); lo < T {
			add("deadline-early:at-"+o.where, fmt.Sprintf("%s: deadline %v after the request headers were sent, want >= %v", desc, lo, T))
		}
		if hi := o.deadline.Sub(o.tEntry); hi > T {
			add("deadline-late:at-"+o.where, fmt.Sprintf("%s: deadline %v after the %s was entered, want <= %v", desc, hi, o.where, T))
		}
		if !startedBeforeBody {
			if late := o.deadline.Sub(tServe); late > T+slowStartWatchdog {
				_, blockedIn := insideLarking(out.dump)
				add("deadline-counted-from-body-arrival", fmt.Sprintf("%s: larking had the request at t, the handler was not started during the %v the body was withheld (request goroutine inside larking: %v) and its deadline is t+%v = T+%v: counted from the arrival of the body (sent at t+%v), not from receipt of the request", desc, slowStartWatchdog, blockedIn, late, late-T, tBody.Sub(tServe)))
			} else {
				out.note = "handler-started-only-after-body-but-deadline-from-receipt"
			}
		}
	}
	out.observed = startedBeforeBody
	return out
}

func slowMatrix() []SlowCase {
	var out []SlowCase
	values := []string{"30S", "45000m", "1M", "20000000u", "1H", "00000090S"}
	i := 0
	for _, client := range []string{"h1-web", "h1-webtext", "h2c-grpc"} {
		for _, ann := range []string{"length", "none"} {
			for _, method := range []string{"Echo", "CS", "Bidi"} {
				for _, split := range []string{"all", "mid"} {
					if split == "mid" && method == "Echo" {
						continue
					}
					for _, size := range []int{5, 70 << 10} {
						out = append(out, SlowCase{Part: "slowbody", Client: client, Announce: ann, Method: method, Split: split, MsgSize: size, Value: values[i%len(values)]})
						i++
					}
				}
			}
		}
	}
	return out
}

func runSlowCases(r *mon.Run, cases []SlowCase) {
	s, err := newDLSvc()
	if err != nil {
		r.Inconclusive("slow-body lane setup: " + err.Error())
		return
	}
	defer s.Close()
	l := &slowLane{s: s, srvs: map[string]*wire.Server{}}
	defer l.close()
	if len(cases) > 1 {
		runAgedConnections(r, l)
	}
	// cells without mux options first: a class that already failed there is
	// not run again (each failing cell costs the watchdog) nor reported again
	// under a larger option mask
	var fmu sync.Mutex
	failed := map[string]bool{}
	for phase := 0; phase < 2; phase++ {
		var wg sync.WaitGroup
		var next int64 = -1
		for w := 0; w < 8; w++ {
			wg.Add(1)
			go func() {
				defer wg.Done()
				for {
					i := int(atomic.AddInt64(&next, 1))
					if i >= len(cases) {
						return
					}
					c := &cases[i]
					if c.Opts.none() != (phase == 0) {
						continue
					}
					fmu.Lock()
					skip := failed[c.class()]
					fmu.Unlock()
					if skip {
						r.Count("slow_body_skipped_class_already_reported", 1)
						continue
					}
					out := l.exec(c)
					r.Eval(1)
					r.Count("slow_body_requests", 1)
					if out.inconclusive != "" {
						r.Inconclusive(out.inconclusive)
						continue
					}
					if out.note != "" {
						r.Count("slow_body_note_"+out.note, 1)
					}
					for _, v := range out.vs {
						fmu.Lock()
						failed[c.class()] = true
						fmu.Unlock()
						r.Violate(v.key, v.what, map[string]any{"part": "slowbody", "case": c, "goroutine": out.dump})
					}
					if out.observed && len(out.vs) == 0 {
						r.Count("slow_body_handler_entered_before_body", 1)
						r.Distinct("slowbody:" + c.class() + "/" + c.Opts.key())
					}
				}
			}()
		}
		wg.Wait()
	}
	l.mu.Lock()
	for _, srv := range l.srvs {
		if log := srv.ErrLog(); strings.Contains(log, "panic serving") {
			r.Violate("panic:server-log:slowbody", "the server logged a panic on the slow-body lane: "+firstLines(log, 6), map[string]any{"part": "slowbody-log"})
		}
	}
	l.mu.Unlock()
}

func runSlowBodies(r *mon.Run) {
	masks := c15Masks()
	var cases []SlowCase
	for i, c := range slowMatrix() {
		pick := []int{0, 7}
		if r.Thorough() {
			pick = []int{0, 1, 2, 3, 4, 5, 6, 7, 8}
		} else if c.MsgSize > 64<<10 && i%2 == 1 {
			pick = []int{0}
		}
		for _, k := range pick {
			d := c
			d.Opts = masks[k]
			cases = append(cases, d)
		}
	}
	runSlowCases(r, cases)
}

func replaySlow(r *mon.Run, c *SlowCase) {
	runSlowCases(r, []SlowCase{*c})
	r.Distinct("slowbody:replay")
}

// runAgedConnections: deadline cells over ONE long-lived cleartext HTTP/2
// connection to a server built by larking.NewServer. The deadline a handler
// sees is T after receipt of THAT request, however old the connection is:
// the same logical bounds as everywhere (t_request_sent + T <= deadline <=
// t_handler_entry + T) are applied to calls made on a fresh connection, after
// the connection has aged a few hundred milliseconds, and to a call whose
// timeout is shorter than the age of the connection.
func runAgedConnections(r *mon.Run, l *slowLane) {
	masks := c15Masks()
	for _, o := range []Opts{masks[0], masks[7]} {
		srv, err := l.serverFor(o)
		if err != nil {
			r.Inconclusive("aged-connection cells: " + err.Error())
			return
		}
		client := wire.H2CClient()
		with := ""
		if !o.none() {
			with = ":with=" + o.key()
		}
		call := func(value, method, stage string) {
			id := fmt.Sprintf("a%d", atomic.AddInt64(&l.s.seq, 1))
			rec := &dlRec{}
			l.s.recs.Store(id, rec)
			defer l.s.recs.Delete(id)
			body := wire.Frame(nil, false)
			if method == "Bidi" {
				body = nil
			}
			req, _ := http.NewRequest("POST", srv.URL+l.s.std.Full(method), strings.NewReader(string(body)))
			req.Header.Set("Content-Type", "application/grpc")
			req.Header.Set("Te", "trailers")
			req.Header.Set("Grpc-Timeout", value)
			req.Header.Set("X-Scn", id)
			tSent := time.Now()
			resp, err := client.Do(req)
			if err == nil {
				io.Copy(io.Discard, resp.Body)
				resp.Body.Close()
			}
			r.Eval(1)
			r.Count("aged_connection_calls", 1)
			rec.mu.Lock()
			obs := append([]dlObs(nil), rec.obs...)
			rec.mu.Unlock()
			T, _ := timeoutOf(value)
			cse := map[string]any{"part": "aged-connection", "stage": stage, "value": value, "method": method, "opts": o}
			key := func(k string) string { return "h2c-grpc/one-connection/" + stage + ":" + k + with }
			if len(obs) == 0 {
				r.Violate(key("handler-not-reached"), fmt.Sprintf("grpc-timeout %q on a %s connection: the method handler was not invoked (client error: %v)", value, stage, err), cse)
				return
			}
			ob := obs[0]
			switch {
			case !ob.has:
				r.Violate(key("deadline-missing"), fmt.Sprintf("grpc-timeout %q on a %s connection: no deadline", value, stage), cse)
			case ob.deadline.Sub(tSent) < T:
				r.Violate(key("deadline-early"), fmt.Sprintf("grpc-timeout %q on a %s connection: the handler's deadline is %v after the request was sent, want >= %v (T after receipt of the request, not of the connection)", value, stage, ob.deadline.Sub(tSent), T), cse)
			case ob.deadline.Sub(ob.tEntry) > T:
				r.Violate(key("deadline-late"), fmt.Sprintf("grpc-timeout %q on a %s connection: deadline %v after handler entry, want <= %v", value, stage, ob.deadline.Sub(ob.tEntry), T), cse)
			default:
				r.Distinct("aged-connection:" + stage + "/" + method + "/" + o.key())
			}
		}
		call("20S", "Echo", "fresh")
		call("20S", "Bidi", "fresh")
		time.Sleep(400 * time.Millisecond)
		call("20S", "Echo", "aged")
		call("20S", "Bidi", "aged")
		call("20000m", "Echo", "aged")
		// a timeout shorter than the age of the connection
		call("200m", "Echo", "older-than-timeout")
		call("200m", "Bidi", "older-than-timeout")
		client.CloseIdleConnections()
	}
}
