package calls

import (
	"bytes"
	"context"
	"encoding/json"
	"errors"
	"fmt"
	"io"
	"net/http"
	"sort"
	"strings"
	"sync"
	"sync/atomic"
	"time"

	"google.golang.org/grpc"
	"google.golang.org/grpc/codes"
	"google.golang.org/grpc/metadata"
	"google.golang.org/grpc/stats"
	"google.golang.org/grpc/status"
	"google.golang.org/protobuf/encoding/protojson"
	"google.golang.org/protobuf/encoding/protowire"
	"google.golang.org/protobuf/proto"
	"google.golang.org/protobuf/reflect/protoreflect"
	"larking.io/larking"

	"verif/internal/mon"
	"verif/internal/svc"
	"verif/internal/vschema"
	"verif/internal/wire"
)

// Opts selects the mux options of a run. Modes: "rec" records and passes
// through; unary "replace" returns its own reply, "deny" fails without
// calling the handler; stream "override" calls the handler and returns its
// own error, "deny" fails without calling it; "ctx" installs larking's
// NewUnaryContext / NewStreamContext helpers.
type Opts struct {
	Unary  string `json:"unary,omitempty"`
	Stream string `json:"stream,omitempty"`
	Stats  bool   `json:"stats,omitempty"`
	// Mutate (with Stats): the stats handler edits every map it is handed
	// (InHeader.Header, OutHeader.Header, OutTrailer.Trailer), as a handler
	// that redacts before logging does.
	Mutate bool `json:"mutate,omitempty"`
}

func (o Opts) key() string {
	var p []string
	if o.Unary != "" {
		p = append(p, "unary-icpt="+o.Unary)
	}
	if o.Stream != "" {
		p = append(p, "stream-icpt="+o.Stream)
	}
	if o.Stats && o.Mutate {
		p = append(p, "stats-mutating")
	} else if o.Stats {
		p = append(p, "stats")
	}
	if len(p) == 0 {
		return "none"
	}
	return strings.Join(p, "+")
}

func (o Opts) none() bool { return o == Opts{} }

// subsetOf: every option enabled in o is enabled (same mode) in p.
func (o Opts) subsetOf(p Opts) bool {
	return (o.Unary == "" || o.Unary == p.Unary) && (o.Stream == "" || o.Stream == p.Stream) && (!o.Stats || p.Stats) && (!o.Mutate || p.Mutate)
}

// RPCCase is one replayable RPC of the C18 workload.
type RPCCase struct {
	Part   string `json:"part"`   // "rpc"
	Target string `json:"target"` // local | proxy
	Proto  string `json:"proto"`  // grpc | web | webtext | http-json | http-proto | http-get | http-nobody | http-implicit
	Method string `json:"method"` // Echo | CS | SS | Bidi
	In     []int  `json:"in"`     // encoded sizes of the request messages
	Out    []int  `json:"out"`    // encoded sizes of the messages the handler sends
	Fail   bool   `json:"fail,omitempty"`
	Code   int    `json:"code,omitempty"`
	Msg    string `json:"msg,omitempty"`
	Plain  bool   `json:"plain,omitempty"`  // the handler's error is not a status error
	ToEOF  bool   `json:"to_eof,omitempty"` // the handler calls Recv once more after its last expected message
	Deny   bool   `json:"deny,omitempty"`   // reference scripts: the handler fails before touching the stream
	Reply  string `json:"reply,omitempty"`  // reference scripts: the unary handler returns the replacement message
	ICode  int    `json:"icode,omitempty"`  // status code returned by a denying / overriding interceptor (default 7)
	// Calls that end while (or before) the handler runs:
	Timeout   string `json:"timeout,omitempty"`    // grpc-timeout header ("0n": expired on arrival)
	WaitCtx   bool   `json:"wait_ctx,omitempty"`   // the handler, after its receives, waits for ctx.Done() and only then returns its own error / nil
	CancelMid bool   `json:"cancel_mid,omitempty"` // the client cancels while the handler runs (the handler triggers it, then waits for ctx.Done())
	PreCancel bool   `json:"pre_cancel,omitempty"` // the request arrives with an already cancelled context
	// LockStep (real connections, lockstep.go): after sending message k the
	// handler waits until the client has reported receiving it.
	// HTTP transcoding: Content-Type / Accept header values sent verbatim
	// ("-" = header absent); malformed and parameterised values included.
	// MaxSend: the mux is built with MaxSendMessageSizeOption(MaxSend); replies
	// above it are refused by the mux.
	MaxSend     int    `json:"max_send,omitempty"`
	ContentType string `json:"content_type,omitempty"`
	// ContentEncoding of the request, verbatim (the body is really gzipped
	// for "gzip"; every other value goes with the plain body)
	ContentEncoding string `json:"content_encoding,omitempty"`
	Accept          string `json:"accept,omitempty"`
	LockStep        bool   `json:"lock_step,omitempty"`
	// Entry-path lane (entry.go), gRPC and gRPC-web only: request header values
	// sent verbatim. RawTimeout is a grpc-timeout value that does not make the
	// call end (malformed, or valid and hours long); Compressed sets the
	// compressed flag of every request frame (really gzipped). Entry is the
	// structural class label of the value (finding keys, distinct keys).
	RawTimeout   string `json:"raw_timeout,omitempty"`
	GrpcEncoding string `json:"grpc_encoding,omitempty"`
	GrpcAccept   string `json:"grpc_accept_encoding,omitempty"`
	GrpcCT       string `json:"grpc_content_type,omitempty"`
	Compressed   bool   `json:"compressed,omitempty"`
	Entry        string `json:"entry,omitempty"`
	Client       string `json:"client,omitempty"` // lock-step lane: h1-http | h2c-http | grpc | h1-web
	Opts         Opts   `json:"opts"`
}

func (c *RPCCase) unary() bool   { return c.Method == "Echo" }
func (c *RPCCase) proxied() bool { return strings.HasPrefix(c.Target, "proxy") }

// noSuchMethod: the call names a method no service or live connection has.
func (c *RPCCase) noSuchMethod() bool {
	return c.Method == "Nope" || c.Method == "OtherSvc" || c.Target == "proxy-dropped"
}

// ended: the call's context ends before the handler returns.
func (c *RPCCase) ended() bool { return c.WaitCtx || c.CancelMid || c.PreCancel || c.Timeout != "" }

// expired: the call's context has already ended when it is dispatched.
func (c *RPCCase) expired() bool { return c.PreCancel || c.Timeout == "0n" }
func (c *RPCCase) cstream() bool {
	return c.Method == "CS" || c.Method == "Bidi"
}
func (c *RPCCase) sstream() bool {
	return c.Method == "SS" || c.Method == "Bidi"
}

func (c *RPCCase) protoClass() string {
	if strings.HasPrefix(c.Proto, "http") {
		return "http"
	}
	if c.Proto == "webtext" {
		return "web"
	}
	return c.Proto
}

func (c *RPCCase) err() error {
	if c.Plain {
		return errors.New(c.Msg)
	}
	return status.Error(codes.Code(c.Code), c.Msg)
}

func (c *RPCCase) sizeClass() string {
	small := false
	for _, n := range c.In {
		if n < 5 {
			small = true
		}
	}
	if len(c.In) == 0 {
		return "in=none"
	}
	if small {
		return "in<5"
	}
	return "in>=5"
}

// ------------------------------------------------------------ recording

type revent struct {
	Src  string `json:"src"` // h (handler) | ui | si | cf (context func) | st (stats)
	Name string `json:"name"`
	Info string `json:"info,omitempty"`
	Err  string `json:"err,omitempty"`
	N    int    `json:"n,omitempty"`
	err  error
	tr   *trace
	kept *keptEvent // payload events: the object the stats handler was given, retained
}

type trace struct{ n int }

// keptEvent is a payload event exactly as it was handed to HandleRPC - the
// pointer is retained, as a recording / exporting stats handler would - next
// to what it said at that moment. It is compared again after the RPC and at
// the end of the run: one event per message means the events a handler holds
// stay distinct objects that keep describing their own message.
type keptEvent struct {
	ev      stats.RPCStats
	dir     string // In | Out
	proto   string
	length  int
	wire    int
	payload interface{}
	rpc     string
}

func (k *keptEvent) now() (length, wire int, payload interface{}) {
	switch e := k.ev.(type) {
	case *stats.InPayload:
		return e.Length, e.WireLength, e.Payload
	case *stats.OutPayload:
		return e.Length, e.WireLength, e.Payload
	}
	return 0, 0, nil
}

func (k *keptEvent) changed() string {
	l, w, p := k.now()
	switch {
	case l != k.length:
		return fmt.Sprintf("Length %d -> %d", k.length, l)
	case w != k.wire:
		return fmt.Sprintf("WireLength %d -> %d", k.wire, w)
	case p != k.payload:
		return "Payload now refers to another message"
	}
	return ""
}

type rscn struct {
	id     string
	spec   *RPCCase
	cancel context.CancelFunc // the client's cancel (CancelMid)
	acked  int64              // lock-step: messages the client has reported receiving
	mu     sync.Mutex
	events []revent
	traces int
}

func (sc *rscn) add(src, name, info string, err error, n int, tr *trace) {
	e := revent{Src: src, Name: name, Info: info, N: n, err: err, tr: tr}
	if err != nil {
		e.Err = err.Error()
	}
	sc.mu.Lock()
	sc.events = append(sc.events, e)
	sc.mu.Unlock()
}

func (sc *rscn) snapshot() []revent {
	sc.mu.Lock()
	defer sc.mu.Unlock()
	return append([]revent(nil), sc.events...)
}

type ctxValKey struct{}
type traceKey struct{}

type rpcSvc struct {
	std     *svc.Std
	be      *backend
	beDown  *backend // back-end of the "proxy-down" target: stopped after registration
	scns    sync.Map
	seq     int64
	muxMu   sync.Mutex
	muxes   map[string]*larking.Mux
	orphans int64 // stats events that could not be attributed to any RPC
	keptMu  sync.Mutex
	kept    []*keptEvent // every payload event of the run, retained
}

func newRPCSvc(withProxy bool) (*rpcSvc, error) {
	std, err := svc.BuildStd("vf.c18", "vf/c18.proto", "/p")
	if err != nil {
		return nil, err
	}
	s := &rpcSvc{std: std, muxes: map[string]*larking.Mux{}}
	if withProxy {
		if s.be, err = startBackend(std, s.unary, s.stream); err != nil {
			return nil, fmt.Errorf("backend: %w", err)
		}
	}
	return s, nil
}

func (s *rpcSvc) Close() {
	if s.be != nil {
		s.be.Close()
	}
	if s.beDown != nil {
		s.beDown.Close()
	}
}

// prepareDown builds the "proxy-down" target: muxes (one per option set)
// registered through RegisterConn against a second back-end, which is then
// stopped, so that every proxied call fails inside larking's forwarder with
// the client connection's Unavailable error. The connection is exercised until
// that error has settled ("connection refused"), so that transcripts are
// comparable across runs.
func (s *rpcSvc) prepareDown(optsList []Opts) error {
	be, err := startBackend(s.std, s.unary, s.stream)
	if err != nil {
		return err
	}
	s.beDown = be
	for _, o := range optsList {
		if _, err := s.muxFor("proxy-down", o); err != nil {
			return err
		}
	}
	be.srv.Stop()
	deadline := time.Now().Add(10 * time.Second)
	lastMsg, same := "", 0
	for time.Now().Before(deadline) {
		ctx, cancel := context.WithTimeout(context.Background(), 2*time.Second)
		err := be.cc.Invoke(ctx, s.std.Full("Echo"), newChunk(), newChunk())
		cancel()
		msg := fmt.Sprint(err)
		if err != nil && msg == lastMsg && strings.Contains(msg, "refused") {
			if same++; same >= 3 {
				return nil
			}
		} else {
			same = 0
		}
		lastMsg = msg
		time.Sleep(5 * time.Millisecond)
	}
	return fmt.Errorf("stopped back-end: error did not settle (last: %s)", lastMsg)
}

func (s *rpcSvc) lookup(ctx context.Context) *rscn {
	if v, ok := s.scns.Load(scnID(ctx)); ok {
		return v.(*rscn)
	}
	return nil
}

func (s *rpcSvc) muxFor(target string, o Opts) (*larking.Mux, error) {
	return s.muxForLimit(target, o, 0)
}

func (s *rpcSvc) muxForLimit(target string, o Opts, maxSend int) (*larking.Mux, error) {
	k := fmt.Sprintf("%s|%s|%d", target, o.key(), maxSend)
	s.muxMu.Lock()
	defer s.muxMu.Unlock()
	if m, ok := s.muxes[k]; ok {
		return m, nil
	}
	var mo []larking.MuxOption
	if maxSend > 0 {
		mo = append(mo, larking.MaxSendMessageSizeOption(maxSend))
	}
	switch o.Unary {
	case "":
	case "ctx":
		mo = append(mo, larking.UnaryServerInterceptorOption(larking.NewUnaryContext(s.ctxFn)))
	default:
		mo = append(mo, larking.UnaryServerInterceptorOption(s.unaryIcpt(o.Unary)))
	}
	switch o.Stream {
	case "":
	case "ctx":
		mo = append(mo, larking.StreamServerInterceptorOption(larking.NewStreamContext(s.ctxFn)))
	default:
		mo = append(mo, larking.StreamServerInterceptorOption(s.streamIcpt(o.Stream)))
	}
	if o.Stats {
		mo = append(mo, larking.StatsOption(&statsRec{s: s, mutate: o.Mutate}))
	}
	var m *larking.Mux
	var err error
	if target == "proxy" {
		if s.be == nil {
			return nil, errors.New("no backend")
		}
		m, err = s.be.newProxyMux(mo...)
	} else if target == "proxy-dropped" {
		if s.be == nil {
			return nil, errors.New("no backend")
		}
		// registered through RegisterConn, then the connection is dropped
		if m, err = s.be.newProxyMux(mo...); err == nil {
			ctx, cancel := context.WithTimeout(context.Background(), 10*time.Second)
			m.DropConn(ctx, s.be.cc)
			cancel()
		}
	} else if target == "proxy-down" {
		if s.beDown == nil {
			return nil, errors.New("no stopped backend (option set not prepared)")
		}
		m, err = s.beDown.newProxyMux(mo...)
	} else {
		m, err = newMux(s.std, s.unary, s.stream, mo...)
	}
	if err != nil {
		return nil, err
	}
	s.muxes[k] = m
	return m, nil
}

// ---- handler side (local service and backend of the proxied one)

func replacement() proto.Message {
	m := newChunk()
	m.ProtoReflect().Set(chunkMD.Fields().ByName("tag"), protoreflect.ValueOfString("replaced-by-interceptor"))
	return m
}

// noteMD logs the request metadata the handler (or back-end) can see.
func (s *rpcSvc) noteMD(sc *rscn, ctx context.Context) {
	md, _ := metadata.FromIncomingContext(ctx)
	sc.add("h", "md", fmt.Sprintf("authorization=%q x-meta=%q x-added-by-stats-handler=%q x-icpt-added=%q", md.Get("authorization"), md.Get("x-meta"), md.Get("x-added-by-stats-handler"), md.Get("x-icpt-added")), nil, 0, nil)
}

func (s *rpcSvc) noteCtx(sc *rscn, ctx context.Context) {
	s.noteMD(sc, ctx)
	if v, _ := ctx.Value(ctxValKey{}).(string); v != "" {
		sc.add("h", "ctxval", v, nil, 0, nil)
	}
}

// awaitEnd implements WaitCtx / CancelMid: the handler stays in the call
// until its context has ended (watchdog 15 s, logged).
func (s *rpcSvc) awaitEnd(sc *rscn, ctx context.Context) {
	c := sc.spec
	if !c.WaitCtx && !c.CancelMid {
		return
	}
	if c.CancelMid && sc.cancel != nil {
		sc.add("h", "client-cancels", "", nil, 0, nil)
		sc.cancel()
	}
	select {
	case <-ctx.Done():
		sc.add("h", "ctx-done", "", ctx.Err(), 0, nil)
	case <-time.After(15 * time.Second):
		sc.add("h", "ctx-not-done", "", nil, 0, nil)
	}
}

func (s *rpcSvc) unary(ctx context.Context, md protoreflect.MethodDescriptor, dec func(interface{}) error, icpt grpc.UnaryServerInterceptor) (interface{}, error) {
	sc := s.lookup(ctx)
	if sc == nil {
		return nil, status.Error(codes.FailedPrecondition, "unknown scenario")
	}
	sc.add("h", "glue-enter", "", nil, 0, nil)
	in := newChunk()
	if err := dec(in); err != nil {
		sc.add("h", "recv-err", "", err, 0, nil)
		sc.add("h", "glue-return", "", err, 0, nil)
		return nil, err
	}
	sc.add("h", "recv-ok", "", nil, proto.Size(in), nil)
	c := sc.spec
	h := func(ctx context.Context, req interface{}) (interface{}, error) {
		sc.add("h", "enter", "", nil, 0, nil)
		s.noteCtx(sc, ctx)
		s.awaitEnd(sc, ctx)
		if c.Fail || c.Deny {
			err := c.err()
			sc.add("h", "return", "", err, 0, nil)
			return nil, err
		}
		var out proto.Message
		if c.Reply == "replaced" {
			out = replacement()
		} else {
			n := 0
			if len(c.Out) > 0 {
				n = c.Out[0]
			}
			out = chunkOfSize(n)
		}
		sc.add("h", "return", "", nil, 0, nil)
		return out, nil
	}
	var out interface{}
	var err error
	if icpt == nil {
		out, err = h(ctx, in)
	} else {
		out, err = icpt(ctx, in, &grpc.UnaryServerInfo{FullMethod: vschema.FullMethod(md)}, h)
	}
	sc.add("h", "glue-return", "", err, 0, nil)
	return out, err
}

func (s *rpcSvc) stream(md protoreflect.MethodDescriptor, ss grpc.ServerStream) (err error) {
	ctx := ss.Context()
	sc := s.lookup(ctx)
	if sc == nil {
		return status.Error(codes.FailedPrecondition, "unknown scenario")
	}
	c := sc.spec
	sc.add("h", "enter", "", nil, 0, nil)
	s.noteCtx(sc, ctx)
	defer func() { sc.add("h", "return", "", err, 0, nil) }()
	if c.Deny {
		return c.err()
	}
	nIn := len(c.In)
	if !md.IsStreamingClient() {
		nIn = 1
	}
	for i := 0; i < nIn; i++ {
		in := newChunk()
		if err := ss.RecvMsg(in); err != nil {
			sc.add("h", "recv-err", "", err, i, nil)
			return err
		}
		sc.add("h", "recv-ok", "", nil, proto.Size(in), nil)
	}
	if c.ToEOF {
		in := newChunk()
		if err := ss.RecvMsg(in); err != nil {
			sc.add("h", "recv-end", "", err, 0, nil)
		} else {
			sc.add("h", "recv-ok", "extra", nil, proto.Size(in), nil)
		}
	}
	s.awaitEnd(sc, ctx)
	for i, n := range c.Out {
		if err := ss.SendMsg(chunkOfSize(n)); err != nil {
			sc.add("h", "send-err", "", err, i, nil)
			return err
		}
		sc.add("h", "send-ok", "", nil, n, nil)
		if c.LockStep {
			if !sc.waitAck(i+1, lockStepWatchdog) {
				sc.add("h", "ack-timeout", "", nil, i+1, nil)
				return status.Error(codes.Aborted, "lock-step stalled")
			}
			sc.add("h", "acked", "", nil, i+1, nil)
		}
	}
	if c.Fail {
		return c.err()
	}
	return nil
}

// ---- interceptors

func (c *RPCCase) icode() codes.Code {
	if c.ICode == 0 {
		return codes.PermissionDenied
	}
	return codes.Code(c.ICode)
}

func (c *RPCCase) errDenied() error   { return status.Error(c.icode(), "denied by interceptor") }
func (c *RPCCase) errOverride() error { return status.Error(c.icode(), "overridden by interceptor") }

func (s *rpcSvc) unaryIcpt(mode string) grpc.UnaryServerInterceptor {
	return func(ctx context.Context, req interface{}, info *grpc.UnaryServerInfo, handler grpc.UnaryHandler) (interface{}, error) {
		sc := s.lookup(ctx)
		if sc == nil {
			return handler(ctx, req)
		}
		sc.add("ui", "call", info.FullMethod, nil, 0, nil)
		switch mode {
		case "md":
			resp, err := handler(rewriteMD(ctx), req)
			sc.add("ui", "return", "", err, 0, nil)
			return resp, err
		case "replace":
			handler(ctx, req) //nolint:errcheck
			sc.add("ui", "return", "", nil, 0, nil)
			return replacement(), nil
		case "deny":
			err := sc.spec.errDenied()
			sc.add("ui", "return", "", err, 0, nil)
			return nil, err
		}
		resp, err := handler(ctx, req)
		sc.add("ui", "return", "", err, 0, nil)
		return resp, err
	}
}

// rewriteMD is what an authenticating / normalising interceptor does to the
// incoming metadata before it passes the call on: it adds a key, replaces a
// client-sent key and removes one.
func rewriteMD(ctx context.Context) context.Context {
	in, _ := metadata.FromIncomingContext(ctx)
	md := in.Copy()
	md.Set("x-icpt-added", "1")
	md.Set("x-meta", "rewritten-by-interceptor")
	delete(md, "authorization")
	return metadata.NewIncomingContext(ctx, md)
}

const rewrittenMD = `authorization=[] x-meta=["rewritten-by-interceptor"] x-added-by-stats-handler=[] x-icpt-added=["1"]`

type mdStream struct {
	grpc.ServerStream
	ctx context.Context
}

func (m mdStream) Context() context.Context { return m.ctx }

func flagsInfo(full string, cs, ss bool) string {
	return fmt.Sprintf("%s cs=%v ss=%v", full, cs, ss)
}

func (s *rpcSvc) streamIcpt(mode string) grpc.StreamServerInterceptor {
	return func(srv interface{}, ss grpc.ServerStream, info *grpc.StreamServerInfo, handler grpc.StreamHandler) error {
		sc := s.lookup(ss.Context())
		if sc == nil {
			return handler(srv, ss)
		}
		sc.add("si", "call", flagsInfo(info.FullMethod, info.IsClientStream, info.IsServerStream), nil, 0, nil)
		switch mode {
		case "md":
			err := handler(srv, mdStream{ss, rewriteMD(ss.Context())})
			sc.add("si", "return", "", err, 0, nil)
			return err
		case "override":
			handler(srv, ss) //nolint:errcheck
			err := sc.spec.errOverride()
			sc.add("si", "return", "", err, 0, nil)
			return err
		case "deny":
			err := sc.spec.errDenied()
			sc.add("si", "return", "", err, 0, nil)
			return err
		}
		err := handler(srv, ss)
		sc.add("si", "return", "", err, 0, nil)
		return err
	}
}

func (s *rpcSvc) ctxFn(ctx context.Context, fullMethod string, isClientStream, isServerStream bool) context.Context {
	info := flagsInfo(fullMethod, isClientStream, isServerStream)
	if sc := s.lookup(ctx); sc != nil {
		sc.add("cf", "call", info, nil, 0, nil)
	}
	return context.WithValue(ctx, ctxValKey{}, info)
}

// ---- stats handler

type statsRec struct {
	s      *rpcSvc
	mutate bool
}

// scribble edits a metadata map the way a redacting stats handler does.
func scribble(md map[string][]string) {
	if md == nil {
		return
	}
	for k, v := range md {
		switch k {
		case "x-scn":
		case "authorization":
			for i := range v {
				v[i] = "redacted"
			}
		case "x-meta":
			delete(md, k)
		}
	}
	md["x-added-by-stats-handler"] = []string{"1"}
}

func (h *statsRec) TagConn(ctx context.Context, _ *stats.ConnTagInfo) context.Context { return ctx }
func (h *statsRec) HandleConn(context.Context, stats.ConnStats)                       {}

func (h *statsRec) TagRPC(ctx context.Context, info *stats.RPCTagInfo) context.Context {
	sc := h.s.lookup(ctx)
	if sc == nil {
		atomic.AddInt64(&h.s.orphans, 1)
		return ctx
	}
	sc.mu.Lock()
	sc.traces++
	tr := &trace{n: sc.traces}
	sc.mu.Unlock()
	sc.add("st", "Tag", info.FullMethodName, nil, 0, tr)
	return context.WithValue(ctx, traceKey{}, tr)
}

func (h *statsRec) HandleRPC(ctx context.Context, st stats.RPCStats) {
	tr, _ := ctx.Value(traceKey{}).(*trace)
	sc := h.s.lookup(ctx)
	if sc == nil {
		atomic.AddInt64(&h.s.orphans, 1)
		return
	}
	name, info, n := "", "", 0
	var err error
	var kept *keptEvent
	switch e := st.(type) {
	case *stats.InHeader:
		name, info = "InHeader", e.FullMethod
		if h.mutate {
			scribble(e.Header)
		}
	case *stats.Begin:
		name, info = "Begin", fmt.Sprintf("cs=%v ss=%v", e.IsClientStream, e.IsServerStream)
	case *stats.InPayload:
		name, n = "InPayload", e.Length
		if e.Payload == nil {
			info = "nil-payload"
		}
		kept = &keptEvent{ev: e, dir: "In", length: e.Length, wire: e.WireLength, payload: e.Payload}
	case *stats.OutPayload:
		name, n = "OutPayload", e.Length
		if e.Payload == nil {
			info = "nil-payload"
		}
		kept = &keptEvent{ev: e, dir: "Out", length: e.Length, wire: e.WireLength, payload: e.Payload}
	case *stats.OutHeader:
		name = "OutHeader"
		if h.mutate {
			scribble(e.Header)
		}
	case *stats.OutTrailer:
		name = "OutTrailer"
		if h.mutate {
			scribble(e.Trailer)
		}
	case *stats.InTrailer:
		name = "InTrailer"
	case *stats.End:
		name, err = "End", e.Error
	default:
		name = fmt.Sprintf("%T", st)
	}
	if tr == nil {
		info = "untagged " + info
	}
	if kept != nil {
		kept.proto, kept.rpc = sc.spec.protoClass(), sc.id
		h.s.keptMu.Lock()
		h.s.kept = append(h.s.kept, kept)
		h.s.keptMu.Unlock()
	}
	sc.add("st", name, info, err, n, tr)
	if kept != nil {
		sc.mu.Lock()
		sc.events[len(sc.events)-1].kept = kept
		sc.mu.Unlock()
	}
}

// checkKept looks at every payload event retained during the run.
func (s *rpcSvc) checkKept(r *mon.Run) {
	s.keptMu.Lock()
	defer s.keptMu.Unlock()
	seen := map[stats.RPCStats]*keptEvent{}
	for _, k := range s.kept {
		if first, dup := seen[k.ev]; dup {
			cross := "same-rpc"
			if first.rpc != k.rpc {
				cross = "across-rpcs"
			}
			r.Violate(fmt.Sprintf("%s:stats-payload-event-object-reused:%s:%s", k.proto, k.dir, cross),
				fmt.Sprintf("the stats handler was handed the same *stats.%sPayload object for two messages (%s): the events it retained are not one per message", k.dir, cross),
				map[string]any{"part": "stats-retained", "proto": k.proto, "dir": k.dir})
		} else {
			seen[k.ev] = k
		}
		if ch := k.changed(); ch != "" {
			r.Violate(fmt.Sprintf("%s:stats-payload-event-changed-after-delivery:%s", k.proto, k.dir),
				fmt.Sprintf("a *stats.%sPayload event retained by the stats handler no longer describes its message at the end of the run: %s", k.dir, ch),
				map[string]any{"part": "stats-retained", "proto": k.proto, "dir": k.dir})
		}
	}
	r.Count("stats_payload_events_retained_and_rechecked", len(s.kept))
}

// ------------------------------------------------------------ execution

func protoDelimited(msgs [][]byte) []byte {
	var b []byte
	for _, m := range msgs {
		b = protowire.AppendVarint(b, uint64(len(m)))
		b = append(b, m...)
	}
	return b
}

func (s *rpcSvc) request(c *RPCCase, id string) (*http.Request, bool) {
	hdr := http.Header{"X-Scn": {id}, "Authorization": {"Bearer secret-token"}, "X-Meta": {"v1", "v2"}}
	if c.Timeout != "" && !strings.HasPrefix(c.Proto, "http") {
		hdr.Set("Grpc-Timeout", c.Timeout)
	}
	full := s.std.Full(c.Method)
	if c.Method == "OtherSvc" {
		full = "/vf.c18x.Other/Get" // a service nobody registered
	}
	if c.ContentType != "" || c.Accept != "" || c.ContentEncoding != "" {
		req, bodyless := s.request(&RPCCase{Proto: c.Proto, Method: c.Method, In: c.In, Timeout: c.Timeout}, id)
		if c.ContentEncoding == "gzip" && !bodyless {
			b, _ := io.ReadAll(req.Body)
			gz := wire.Gzip(b)
			req.Body, req.ContentLength = io.NopCloser(bytes.NewReader(gz)), int64(len(gz))
		}
		ce := c.ContentEncoding
		if ce == "gzip-garbage" {
			ce = "gzip"
			garbage := []byte("this is not a gzip stream \x00\x01\x02")
			req.Body, req.ContentLength = io.NopCloser(bytes.NewReader(garbage)), int64(len(garbage))
			bodyless = false
		}
		for k, v := range map[string]string{"Content-Type": c.ContentType, "Accept": c.Accept, "Content-Encoding": ce} {
			switch v {
			case "":
			case "-":
				req.Header.Del(k)
			default:
				req.Header[k] = []string{v}
			}
		}
		return req, bodyless
	}
	var msgs [][]byte
	for _, n := range c.In {
		msgs = append(msgs, mustMarshal(chunkOfSize(n)))
	}
	switch c.Proto {
	case "grpc", "web", "webtext":
		var framed []byte
		for _, m := range msgs {
			if c.Compressed {
				m = wire.Gzip(m)
			}
			framed = append(framed, wire.Frame(m, c.Compressed)...)
		}
		c.entryHeaders(hdr)
		var req *http.Request
		if c.Proto == "grpc" {
			req = wire.GRPCRequest(full, hdr, bytes.NewReader(framed))
		} else {
			req = wire.WebRequest(full, hdr, framed, c.Proto == "webtext", "")
		}
		if c.GrpcCT != "" {
			req.Header["Content-Type"] = []string{c.GrpcCT}
		}
		return req, false
	}
	path := map[string]string{"Echo": "/p/echo", "CS": "/p/cs", "SS": "/p/ss", "Bidi": "/p/bidi"}[c.Method]
	if path == "" {
		path = full
	}
	switch c.Proto {
	case "http-get":
		return wire.BodyRequest("GET", path+"/x", "", hdr, nil), true
	case "http-nobody":
		hdr.Set("Content-Type", "application/json")
		return wire.BodyRequest("POST", path, "", hdr, nil), true
	case "http-proto":
		hdr.Set("Content-Type", "application/protobuf")
		var body []byte
		if c.cstream() {
			body = protoDelimited(msgs)
		} else if len(msgs) > 0 {
			body = msgs[0]
		}
		if len(body) == 0 {
			return wire.BodyRequest("POST", path, "", hdr, nil), true
		}
		return wire.BodyRequest("POST", path, "", hdr, body), false
	}
	if c.Proto == "http-implicit" {
		path = full
	}
	hdr.Set("Content-Type", "application/json")
	var body []byte
	for _, n := range c.In {
		b, err := protojson.Marshal(chunkOfSize(n))
		if err != nil {
			panic(err)
		}
		body = append(body, b...)
	}
	if len(body) == 0 {
		return wire.BodyRequest("POST", path, "", hdr, nil), true
	}
	return wire.BodyRequest("POST", path, "", hdr, body), false
}

// outcome is what one execution produced.
type outcome struct {
	Transcript string   `json:"transcript"`
	Events     []revent `json:"events"`
	Panic      *mon.PanicInfo
	Wedged     bool
	Bodyless   bool
	// grpc-status / grpc-message as the client gets them (gRPC, gRPC-web)
	GOK   bool
	GCode int
	GMsg  string
	// request metadata as the handler saw it
	HandlerMD string
	// reply messages on the wire (gRPC, gRPC-web binary): -1 unknown
	NMsgs int
}

func transcriptOf(c *RPCCase, r *wire.Resp) string {
	gs := ""
	for _, h := range []http.Header{r.Header, r.Trailer} {
		for _, k := range []string{"Grpc-Status", "Grpc-Message"} {
			if v, ok := h[k]; ok {
				gs += fmt.Sprintf(" %s=%q", k, v)
			}
		}
	}
	switch c.protoClass() {
	case "grpc":
		fr, rest := wire.ParseFrames(r.Body)
		var sb strings.Builder
		for _, f := range fr {
			fmt.Fprintf(&sb, "[%d:%x]", f.Flag, f.Data)
		}
		return fmt.Sprintf("http=%d%s frames=%s rest=%x", r.Code, gs, sb.String(), rest)
	case "web":
		return fmt.Sprintf("http=%d%s body=%x", r.Code, gs, r.Body)
	}
	return fmt.Sprintf("http=%d body=%q", r.Code, r.Body)
}

func (s *rpcSvc) exec(c *RPCCase) (*outcome, error) {
	mux, err := s.muxForLimit(c.Target, c.Opts, c.MaxSend)
	if err != nil {
		return nil, err
	}
	sc := &rscn{id: fmt.Sprintf("r%d", atomic.AddInt64(&s.seq, 1)), spec: c}
	s.scns.Store(sc.id, sc)
	defer s.scns.Delete(sc.id)
	req, bodyless := s.request(c, sc.id)
	if c.CancelMid || c.PreCancel {
		ctx, cancel := context.WithCancel(req.Context())
		defer cancel()
		sc.cancel = cancel
		req = req.WithContext(ctx)
		if c.PreCancel {
			cancel()
		}
	}
	resp := wire.Serve(mux, req)
	out := &outcome{Events: sc.snapshot(), Panic: resp.Panic, Wedged: resp.Wedged, Bodyless: bodyless, NMsgs: -1}
	if !resp.Wedged {
		switch c.Proto {
		case "grpc":
			fr, _ := wire.ParseFrames(resp.Body)
			out.NMsgs = len(fr)
		case "web":
			out.NMsgs = len(wire.DecodeWeb(resp.Body, false).Msgs)
		}
		out.Transcript = transcriptOf(c, resp)
		// what the handler saw of the request metadata is part of the outcome
		// (compared where the same script runs with and without options)
		if e := last(out.Events, "h", "md"); e != nil {
			out.HandlerMD = e.Info
		}
		if pc := c.protoClass(); pc == "grpc" || pc == "web" {
			out.GCode, out.GMsg, _, out.GOK = resp.GRPCStatus()
			if !out.GOK && pc == "web" {
				wr := wire.DecodeWeb(resp.Body, c.Proto == "webtext")
				if v := wr.Trailer["grpc-status"]; len(v) > 0 {
					if _, err := fmt.Sscanf(v[0], "%d", &out.GCode); err == nil {
						out.GOK = true
						if m := wr.Trailer["grpc-message"]; len(m) > 0 {
							out.GMsg = wire.DecodeGrpcMessage(m[0])
						}
					}
				}
			}
		}
	}
	return out, nil
}

func count(ev []revent, src, name string) int {
	n := 0
	for _, e := range ev {
		if e.Src == src && e.Name == name {
			n++
		}
	}
	return n
}

func last(ev []revent, src, name string) *revent {
	for i := len(ev) - 1; i >= 0; i-- {
		if ev[i].Src == src && ev[i].Name == name {
			return &ev[i]
		}
	}
	return nil
}

func sameStatus(a, b error) bool {
	if (a == nil) != (b == nil) {
		return false
	}
	if a == nil {
		return true
	}
	sa, sb := status.Convert(a), status.Convert(b)
	return sa.Code() == sb.Code() && sa.Message() == sb.Message()
}

// check applies the per-execution oracles (interceptor counts and flags,
// stats trace, context decoration). Outcome comparisons are done by the caller.
func (s *rpcSvc) check(c *RPCCase, o *outcome) (vs []viol, obs map[string]int) {
	obs = map[string]int{}
	pc := c.protoClass()
	tp := c.Target + "/" + pc
	ev := o.Events
	full := s.std.Full(c.Method)
	shape := map[string]string{"Echo": "unary", "CS": "cs", "SS": "ss", "Bidi": "bidi"}[c.Method]
	add := func(k, w string) { vs = append(vs, viol{k, w}) }

	// ---- interceptors
	nUI, nSI := count(ev, "ui", "call"), count(ev, "si", "call")
	obs["unary_interceptor_calls"] += nUI
	obs["stream_interceptor_calls"] += nSI
	uiOn := c.Opts.Unary != "" && c.Opts.Unary != "ctx"
	siOn := c.Opts.Stream != "" && c.Opts.Stream != "ctx"
	// A unary call that is already over when it is dispatched fails in the
	// request decode step, in front of the interceptor (as in grpc-go).
	decodeFailed := c.unary() && c.expired() && nUI == 0 && (pc == "grpc" || pc == "web")
	// a request the mux refuses before dispatch (its Content-Encoding cannot be
	// undone: body-less or garbage under gzip): no interceptor obligation
	refusedBeforeDispatch := (c.ContentEncoding == "gzip-garbage" || (c.ContentEncoding == "gzip" && o.Bodyless)) && count(ev, "h", "enter") == 0 && count(ev, "h", "glue-enter") == 0
	// entry lane: a gRPC / gRPC-web request the mux answered without
	// dispatching it (malformed grpc-timeout, unknown grpc-encoding, content
	// type without codec ...): no handler step, no interceptor step
	refusedAtEntry := c.entry() && nUI == 0 && nSI == 0 && countSrc(ev, "h") == 0
	if refusedAtEntry {
		obs["entry_calls_refused_before_dispatch"]++
		refusedBeforeDispatch = true
	} else if c.entry() {
		obs["entry_calls_dispatched"]++
	}
	if c.unary() && nUI == 0 && (c.ContentType != "" || c.Accept != "" || c.ContentEncoding != "" || c.entry()) && (count(ev, "h", "recv-err") > 0 || c.proxied() || refusedBeforeDispatch) {
		// the request could not be decoded (no codec for the media type):
		// generated code fails in front of the interceptor; for a proxied
		// method that step is inside larking's forwarder
		decodeFailed = true
	}
	if c.unary() {
		if uiOn && nUI != 1 && !decodeFailed {
			add(fmt.Sprintf("%s:unary-interceptor-calls=%d:unary", tp, min(nUI, 2)), fmt.Sprintf("unary RPC %s passed through the unary interceptor %d times", full, nUI))
		}
		if nSI != 0 {
			add(tp+":stream-interceptor-on-unary-rpc", fmt.Sprintf("unary RPC %s passed through the stream interceptor %d times", full, nSI))
		}
		if e := last(ev, "ui", "call"); e != nil && e.Info != full {
			add(tp+":unary-interceptor-fullmethod", fmt.Sprintf("UnaryServerInfo.FullMethod = %q, want %q", e.Info, full))
		}
	} else {
		if siOn && nSI != 1 && !(nSI == 0 && refusedBeforeDispatch) {
			add(fmt.Sprintf("%s:stream-interceptor-calls=%d:%s", tp, min(nSI, 2), shape), fmt.Sprintf("streaming RPC %s passed through the stream interceptor %d times", full, nSI))
		}
		if nUI != 0 {
			add(tp+":unary-interceptor-on-stream-rpc:"+shape, fmt.Sprintf("streaming RPC %s passed through the unary interceptor %d times", full, nUI))
		}
		if e := last(ev, "si", "call"); e != nil {
			if want := flagsInfo(full, c.cstream(), c.sstream()); e.Info != want {
				add(tp+":stream-interceptor-info:"+shape, fmt.Sprintf("StreamServerInfo = {%s}, want {%s}", e.Info, want))
			}
		}
	}
	// context helpers (local only: a proxied handler's context is not observable)
	if c.Target == "local" {
		if (c.unary() && c.Opts.Unary == "ctx") || (!c.unary() && c.Opts.Stream == "ctx") {
			want := flagsInfo(full, false, false)
			if !c.unary() {
				want = flagsInfo(full, c.cstream(), c.sstream())
			}
			e := last(ev, "h", "ctxval")
			switch {
			case count(ev, "h", "enter") == 0:
			case e == nil:
				add(tp+":context-decoration-lost:"+shape, "the context returned by the NewContextFunc did not reach the handler of "+full)
			case e.Info != want:
				add(tp+":context-decoration-args:"+shape, fmt.Sprintf("NewContextFunc was called with {%s}, want {%s}", e.Info, want))
			default:
				obs["context_decoration_reached_handler"]++
			}
		}
	}

	// ---- who decides the final error
	var finalErr error
	finalKnown := true
	hret := last(ev, "h", "return")
	switch {
	case c.unary() && c.Target == "local":
		if e := last(ev, "h", "glue-return"); e != nil {
			finalErr = e.err
		} else {
			finalKnown = false
		}
	case c.unary() && uiOn, !c.unary() && siOn:
		src := "si"
		if c.unary() {
			src = "ui"
		}
		if e := last(ev, src, "return"); e != nil {
			finalErr = e.err
		} else {
			finalKnown = false
		}
	default:
		if hret != nil {
			finalErr = hret.err
		} else {
			finalKnown = false // proxied back-end never reached
		}
	}

	if c.ended() && c.proxied() && !((c.unary() && uiOn) || (!c.unary() && siOn)) {
		// the forwarder's client library reports the end of the call itself;
		// what larking's handler returned is not observable at the back-end
		finalKnown = false
	}
	// a call that ended before the handler returned nil still fails (in
	// larking's own send of the reply / status): no expectation from nil
	lenient := c.ended() && finalErr == nil
	overLimit := false
	for _, n := range c.Out {
		if c.MaxSend > 0 && n > c.MaxSend {
			overLimit = true
		}
	}
	// a unary reply above the send limit is refused by the mux after the
	// handler (chain) returned it with a nil error
	refusedUnary := overLimit && c.unary() && finalKnown && finalErr == nil
	if refusedUnary {
		lenient = true
	}
	if overLimit && c.proxied() && !c.unary() {
		// the back-end's sends succeed, the forwarder's are refused
		finalKnown = false
	}
	oddHeaders := c.ContentType != "" || c.Accept != "" || c.ContentEncoding != ""
	if oddHeaders && c.proxied() && !((c.unary() && uiOn) || (!c.unary() && siOn)) {
		// the forwarder's own sends to the client may fail (no codec): the
		// back-end's view is not larking's handler's
		finalKnown = false
	}
	if oddHeaders && finalErr == nil && c.unary() {
		// the reply may have no codec for the negotiated media type: larking's
		// own send of it fails after the handler returned nil
		lenient = true
	}
	if c.ended() && count(ev, "h", "ctx-not-done") > 0 {
		obs["ended_call_handler_ctx_not_done"]++
		finalKnown = false
	}

	// ---- what the interceptor / handler returned is what the client gets
	if o.GOK && finalKnown && !lenient {
		want := status.Convert(finalErr)
		if finalErr == nil {
			want = status.New(codes.OK, "")
		}
		if int(want.Code()) != o.GCode || want.Message() != o.GMsg {
			cls := shape
			if c.ended() {
				cls = "after-call-ended:" + shape
			}
			add(tp+":client-status-differs-from-returned-error:"+cls, fmt.Sprintf("%s: the handler / interceptor chain returned %v but the client got grpc-status %d %q", full, finalErr, o.GCode, o.GMsg))
		} else {
			obs["client_status_equals_returned_error"]++
		}
	}

	// ---- stats
	if !c.Opts.Stats {
		if n := count(ev, "st", "Tag"); n > 0 {
			add(pc+":stats-events-without-handler", "stats events although no stats handler is installed")
		}
		return vs, obs
	}
	var st []revent
	for _, e := range ev {
		if e.Src == "st" {
			st = append(st, e)
		}
	}
	obs["stats_events"] += len(st)
	if refusedAtEntry && len(st) == 0 {
		// refused in front of the stats block: nothing was begun, nothing to end
		obs["entry_refused_without_stats_events"]++
		return vs, obs
	}
	if refusedAtEntry {
		obs["entry_refused_with_stats_events"]++
	}
	nTag := count(st, "st", "Tag")
	if nTag != 1 {
		add(fmt.Sprintf("%s:stats-rpc-tagged-%d-times", pc, min(nTag, 2)), fmt.Sprintf("TagRPC was called %d times for one RPC (%s)", nTag, full))
		return vs, obs
	}
	var names []string
	for _, e := range st {
		names = append(names, e.Name)
		if e.tr == nil || strings.HasPrefix(e.Info, "untagged") {
			add(pc+":stats-sequence:untagged-event:"+e.Name, fmt.Sprintf("%s event delivered with a context that does not carry the value planted by TagRPC", e.Name))
		}
	}
	seq := strings.Join(names, " ")
	seqErr := ""
	switch {
	case len(names) < 3 || names[0] != "Tag" || names[1] != "InHeader" || names[2] != "Begin":
		seqErr = "bad-prefix"
	default:
		nEnd := count(st, "st", "End")
		switch {
		case nEnd == 0:
			seqErr = "no-end"
		case nEnd > 1:
			seqErr = "end-repeated"
		case names[len(names)-1] != "End":
			seqErr = "event-after-end"
		default:
			body := names[3 : len(names)-1]
			for i, n := range body {
				switch n {
				case "InPayload", "OutPayload", "OutHeader":
				case "OutTrailer":
					if i != len(body)-1 {
						seqErr = "out-trailer-not-last"
					}
				default:
					seqErr = "unexpected-" + n
				}
			}
		}
	}
	if seqErr != "" {
		add(pc+":stats-sequence:"+seqErr, fmt.Sprintf("stats trace of %s is %q, want Tag InHeader Begin (InPayload|OutHeader|OutPayload)* OutTrailer? End", full, seq))
	} else {
		obs["stats_traces_wellformed"]++
	}
	// every handler event must lie between Begin and End
	iBegin, iEnd, iFirstH, iLastH := -1, -1, -1, -1
	for i, e := range ev {
		switch {
		case e.Src == "st" && e.Name == "Begin" && iBegin < 0:
			iBegin = i
		case e.Src == "st" && e.Name == "End":
			iEnd = i
		case e.Src == "h":
			if iFirstH < 0 {
				iFirstH = i
			}
			iLastH = i
		}
	}
	if c.Target == "local" && iFirstH >= 0 && iEnd >= 0 && (iLastH > iEnd || (iBegin >= 0 && iFirstH < iBegin)) {
		add(pc+":stats-sequence:handler-outside-begin-end", fmt.Sprintf("the handler of %s ran outside the Begin..End bracket of its stats trace", full))
	}

	// the payload events the handler retained from this RPC: distinct
	// objects, still describing the message they were delivered for
	seenEv := map[stats.RPCStats]bool{}
	for _, e := range st {
		if e.kept == nil {
			continue
		}
		if seenEv[e.kept.ev] {
			add(pc+":stats-payload-event-object-reused:"+e.kept.dir+":same-rpc", fmt.Sprintf("%s: the same *stats.%sPayload object was delivered for two messages of the RPC (trace %q)", full, e.kept.dir, seq))
		}
		seenEv[e.kept.ev] = true
		if ch := e.kept.changed(); ch != "" {
			add(pc+":stats-payload-event-changed-after-delivery:"+e.kept.dir, fmt.Sprintf("%s: a retained *stats.%sPayload event changed after HandleRPC returned: %s", full, e.kept.dir, ch))
		}
	}

	// payload counts
	wantIn, wantOut := count(ev, "h", "recv-ok"), count(ev, "h", "send-ok")
	countKnown := true
	if c.unary() {
		if finalKnown && finalErr == nil {
			wantOut = 1
		} else {
			wantOut = 0
		}
		if c.proxied() {
			wantIn = 1
			if c.Opts.Unary == "deny" {
				countKnown = false // whether the refused request counts as "received" is not specified
			}
		}
	} else if c.proxied() && !c.sstream() {
		// The back-end's single reply reaches larking's forwarder only with an
		// OK status (grpc-go's client drops it otherwise): what the forwarder,
		// i.e. larking's handler, sends is one message iff the call succeeded.
		wantOut = 0
		if finalKnown && finalErr == nil || (siOn && c.Opts.Stream == "override" && hret != nil && hret.err == nil) {
			wantOut = 1
		}
	}
	countOutKnown := !c.ended() // sends of a call that has ended fail inside larking
	if oddHeaders && (c.unary() || c.proxied()) {
		countOutKnown = false
	}
	if c.proxied() && c.ended() {
		countKnown = false
	}
	if c.proxied() && hret == nil && (!(uiOn || siOn) || (c.Target == "proxy-down" && !c.unary())) {
		// the back-end was not reached: what larking's forwarder received
		// before it failed is not observable from outside
		countKnown = false
		obs["proxy_backend_not_reached"]++
	}
	if refusedUnary {
		wantOut = 0
	}
	if overLimit && c.proxied() && !c.unary() {
		countKnown = false
	}
	gotIn, gotOut := count(st, "st", "InPayload"), count(st, "st", "OutPayload")
	// every OutPayload event corresponds to a message the client was sent
	if o.NMsgs >= 0 && gotOut != o.NMsgs {
		add(fmt.Sprintf("%s:stats-outpayload-events-differ-from-messages-on-the-wire:%s", pc, shape), fmt.Sprintf("%s: %d OutPayload event(s) but the client was sent %d message(s) (trace %q)", full, gotOut, o.NMsgs, seq))
	}
	obs["stats_inpayload_events"] += gotIn
	obs["stats_outpayload_events"] += gotOut
	if countKnown && finalKnown {
		cls := shape
		if o.Bodyless {
			cls = "bodyless-request"
		}
		if gotIn != wantIn {
			dir := "missing"
			if gotIn > wantIn {
				dir = "extra"
			}
			add(fmt.Sprintf("%s:stats-inpayload-%s:%s", pc, dir, cls), fmt.Sprintf("%s: the handler received %d message(s) but the stats handler saw %d InPayload event(s) (trace %q)", full, wantIn, gotIn, seq))
		}
		if gotOut != wantOut && countOutKnown {
			dir := "missing"
			if gotOut > wantOut {
				dir = "extra"
			}
			add(fmt.Sprintf("%s:stats-outpayload-%s:%s", pc, dir, shape), fmt.Sprintf("%s: the handler sent %d message(s) but the stats handler saw %d OutPayload event(s) (trace %q)", full, wantOut, gotOut, seq))
		}
		// payload lengths are not part of the statement: observed only
		var inSizes []int
		for _, e := range ev {
			if e.Src == "h" && e.Name == "recv-ok" {
				inSizes = append(inSizes, e.N)
			}
		}
		if !strings.HasPrefix(c.Proto, "http") || c.Proto == "http-proto" {
			k := 0
			for _, e := range st {
				if e.Name == "InPayload" {
					if k < len(inSizes) && e.N != inSizes[k] {
						obs["stats_inpayload_length_wrong"]++
					}
					k++
				}
			}
		}
	}
	// End and the client agree (whatever the error is)
	if e := last(st, "st", "End"); e != nil && o.GOK {
		es := status.Convert(e.err)
		if int(es.Code()) != o.GCode || (e.err != nil && es.Message() != o.GMsg) {
			add(pc+":stats-end-error-differs-from-client-status", fmt.Sprintf("%s: End.Error = %v but the client got grpc-status %d %q", full, e.err, o.GCode, o.GMsg))
		}
	}
	// End carries the handler's error
	if e := last(st, "st", "End"); e != nil && finalKnown && !lenient {
		if !sameStatus(e.err, finalErr) {
			cls := "mismatch"
			switch {
			case e.err == nil:
				cls = "handler-failed-end-nil"
			case finalErr == nil:
				cls = "handler-ok-end-error"
			}
			add(pc+":stats-end-error:"+cls, fmt.Sprintf("%s: End.Error = %v but the handler returned %v", full, e.err, finalErr))
		} else {
			obs["stats_end_error_matches"]++
		}
	}
	// the method-identifying fields of the events, on every protocol and
	// binding kind
	for _, e := range st {
		switch e.Name {
		case "Tag":
			if e.Info != full {
				add(pc+":stats-tag-fullmethodname:"+shape, fmt.Sprintf("RPCTagInfo.FullMethodName = %q, want %q (%s)", e.Info, full, c.Proto))
			}
		case "InHeader":
			if info := strings.TrimPrefix(e.Info, "untagged "); info != full {
				add(pc+":stats-inheader-fullmethod:"+shape, fmt.Sprintf("InHeader.FullMethod = %q, want %q (%s)", info, full, c.Proto))
			}
		case "Begin":
			if want := fmt.Sprintf("cs=%v ss=%v", c.cstream(), c.sstream()); strings.TrimPrefix(e.Info, "untagged ") != want {
				add(pc+":stats-begin-stream-flags:"+shape, fmt.Sprintf("Begin has %s, want %s", e.Info, want))
			}
		}
	}
	return vs, obs
}

// reference returns the script (run without options) whose outcome an
// execution with deciding interceptors must reproduce, or nil when the
// options are pass-through (plain transparency).
func reference(c *RPCCase) *RPCCase {
	r := *c
	r.Opts = Opts{}
	if c.unary() {
		switch c.Opts.Unary {
		case "replace":
			r.Fail, r.Plain, r.Reply = false, false, "replaced"
		case "deny":
			r.Fail, r.Plain, r.Code, r.Msg = true, false, int(c.icode()), "denied by interceptor"
		}
		r.ICode = 0
		return &r
	}
	switch c.Opts.Stream {
	case "override":
		r.Fail, r.Plain, r.Code, r.Msg = true, false, int(c.icode()), "overridden by interceptor"
	case "deny":
		r.Deny, r.Plain, r.Code, r.Msg = true, false, int(c.icode()), "denied by interceptor"
	}
	r.ICode = 0
	return &r
}

func (c *RPCCase) baseKey() string {
	b, _ := json.Marshal(c)
	return string(b)
}

type c18run struct {
	r     *mon.Run
	s     *rpcSvc
	mu    sync.Mutex
	bases map[string]string
}

func (g *c18run) baseline(ref *RPCCase) (string, bool) {
	k := ref.baseKey()
	g.mu.Lock()
	t, ok := g.bases[k]
	g.mu.Unlock()
	if ok {
		return t, true
	}
	o, err := g.s.exec(ref)
	if err != nil {
		g.r.Inconclusive("baseline: " + err.Error())
		return "", false
	}
	g.r.Eval(1)
	g.r.Count("rpcs_baseline", 1)
	if o.Wedged {
		g.r.Inconclusive("baseline request wedged")
		return "", false
	}
	if o.Panic != nil {
		// a panic without any option installed is not this property's subject
		g.r.Count("baseline_panics", 1)
		return "", false
	}
	t = o.Transcript + "\x00" + o.HandlerMD
	g.mu.Lock()
	g.bases[k] = t
	g.mu.Unlock()
	return t, true
}

// group runs one script under a list of option sets and reports the minimal
// option sets that change the outcome.
func (g *c18run) group(base RPCCase, optsList []Opts) {
	type res struct {
		o       Opts
		changed bool
		what    string
		c       *RPCCase
		out     *outcome
	}
	var results []res
	for _, o := range optsList {
		c := base
		c.Opts = o
		ref := reference(&c)
		decides := (c.unary() && (o.Unary == "replace" || o.Unary == "deny")) || (!c.unary() && (o.Stream == "override" || o.Stream == "deny"))
		// with the back-end down no script of the handler is a reference for
		// what a deciding interceptor returns
		racy := (c.proxied() && !c.unary() && o.Stream == "deny") || (c.Target == "proxy-down" && decides)
		want, ok := "", true
		wantMD := ""
		if !racy {
			want, ok = g.baseline(ref)
			want, wantMD, _ = strings.Cut(want, "\x00")
		}
		if !ok {
			continue
		}
		if o.none() {
			continue
		}
		// A proxied single-reply method whose back-end fails after replying is
		// not an equivalent script for "the interceptor overrides the error
		// after the reply was forwarded" (the client library between larking
		// and the back-end drops the reply): no reference, status checked only.
		// Likewise a proxied back-end that fails before reading races with
		// larking's forwarder still sending (the forwarder then reports the
		// io.EOF of its SendMsg instead of the back-end's status: C10's
		// subject), so it is no reference for a denying stream interceptor.
		comparable := !(racy || (c.proxied() && !c.unary() && !c.sstream() && o.Stream == "override"))
		// proxied call that ends while running: whether the forwarder's client
		// library or the back-end reports the end first is a race
		endedProxied := c.proxied() && c.ended()
		marker := "overridden by interceptor"
		if o.Stream == "deny" || (c.unary() && o.Unary == "deny") {
			marker = "denied by interceptor"
		}
		out, err := g.s.exec(&c)
		if err != nil {
			g.r.Inconclusive("mux setup: " + err.Error())
			return
		}
		g.r.Eval(1)
		g.r.Count("rpcs_with_options", 1)
		if out.Wedged {
			g.r.Inconclusive("request wedged: " + c.baseKey())
			continue
		}
		if out.Panic != nil {
			g.r.Count("panics", 1)
			g.r.Violate(out.Panic.Key()+":"+c.sizeClass()+c.entrySuffix(), fmt.Sprintf("%s %s %s with %s panicked: %s", c.Target, c.Proto, c.Method, o.key(), out.Panic.Value), &c)
			continue
		}
		var vs []viol
		var obs map[string]int
		if !c.noSuchMethod() {
			vs, obs = g.s.check(&c, out)
		} else {
			g.r.Count("calls_to_methods_nobody_serves", 1)
		}
		for k, n := range obs {
			g.r.Count(k, n)
		}
		for _, v := range vs {
			g.r.Violate(v.key+c.entrySuffix(), v.what, map[string]any{"part": "rpc", "case": &c, "events": out.Events, "transcript": out.Transcript})
		}
		if c.entry() {
			g.r.Count("entry_rpcs_with_options", 1)
			if out.GOK && out.GCode == 0 {
				g.r.Count("entry_rpcs_succeeded_with_options", 1)
			}
		}
		plain := c
		plain.Opts = Opts{}
		deciding := ref.baseKey() != plain.baseKey()
		mdMode := (c.unary() && o.Unary == "md") || (!c.unary() && o.Stream == "md")
		if mdMode && count(out.Events, "h", "enter") > 0 && out.HandlerMD != rewrittenMD {
			// what the handler / back-end sees is what the interceptor passed on
			shape := map[string]string{"Echo": "unary", "CS": "cs", "SS": "ss", "Bidi": "bidi"}[c.Method]
			g.r.Violate(fmt.Sprintf("%s/%s:interceptor-metadata-not-seen-by-handler:%s", c.Target, c.protoClass(), shape),
				fmt.Sprintf("%s %s %s: the interceptor passed on the metadata {%s} but the handler / back-end saw {%s}", c.Target, c.Proto, c.Method, rewrittenMD, out.HandlerMD),
				map[string]any{"part": "rpc", "case": &c, "events": out.Events, "transcript": out.Transcript})
		} else if mdMode {
			g.r.Count("interceptor_metadata_seen_by_handler", 1)
		}
		if !mdMode && !deciding && !racy && !(c.proxied() && c.ended()) && out.HandlerMD != wantMD {
			// same script, same request: the handler must see the same metadata
			out.Transcript += " | handler saw " + out.HandlerMD
			want += " | handler saw " + wantMD
		}
		if endedProxied {
			g.r.Count("outcomes_without_reference", 1)
			results = append(results, res{o: o})
		} else if !comparable {
			g.r.Count("outcomes_without_reference", 1)
			if !strings.Contains(out.Transcript, marker) {
				results = append(results, res{o: o, changed: true, c: &c, out: out, what: fmt.Sprintf("got %s, which does not carry the interceptor's error", clip(out.Transcript))})
			}
		} else if out.Transcript != want {
			results = append(results, res{o: o, changed: true, c: &c, out: out, what: fmt.Sprintf("got %s, want %s", clip(out.Transcript), clip(want))})
		} else {
			results = append(results, res{o: o})
			g.r.Count("outcomes_equal_to_reference", 1)
			if deciding {
				g.r.Count("interceptor_decided_outcome", 1)
			}
		}
		if len(vs) == 0 && endedProxied {
			g.r.Distinct(fmt.Sprintf("%s/%s/%s/ended/%s", c.Target, c.Proto, c.Method, o.key()))
		}
		if len(vs) == 0 && out.Transcript == want && comparable && !endedProxied {
			endKind := ""
			if c.MaxSend > 0 {
				endKind = fmt.Sprintf("/max-send=%d,out=%v", c.MaxSend, c.Out)
			}
			if c.ContentType != "" || c.Accept != "" || c.ContentEncoding != "" {
				endKind += fmt.Sprintf("/ct=%q,accept=%q,ce=%q", c.ContentType, c.Accept, c.ContentEncoding)
			}
			if c.ended() {
				endKind = fmt.Sprintf("/ended(timeout=%s,wait=%v,mid=%v,pre=%v)", c.Timeout, c.WaitCtx, c.CancelMid, c.PreCancel)
			}
			if c.entry() {
				endKind += "/entry:" + c.Entry
				g.r.Count("entry_outcomes_equal_to_reference", 1)
			}
			g.r.Distinct(fmt.Sprintf("%s/%s/%s/%s/fail=%v/%s%s", c.Target, c.Proto, c.Method, c.sizeClass(), c.Fail, o.key(), endKind))
		}
	}
	for _, x := range results {
		if !x.changed {
			continue
		}
		minimal := true
		for _, y := range results {
			if y.changed && y.o != x.o && y.o.subsetOf(x.o) {
				minimal = false
			}
		}
		if !minimal {
			continue
		}
		c := x.c
		kind := "outcome-changed"
		if ref := reference(c); ref.Fail != c.Fail || ref.Deny != c.Deny || ref.Reply != c.Reply || ref.Msg != c.Msg {
			kind = "interceptor-result-not-delivered"
		}
		shape := map[string]string{"Echo": "unary", "CS": "cs", "SS": "ss", "Bidi": "bidi"}[c.Method]
		g.r.Violate(fmt.Sprintf("%s/%s:%s:with=%s:%s", c.Target, c.protoClass(), kind, x.o.key(), shape)+c.entrySuffix(),
			fmt.Sprintf("%s %s %s: client-visible outcome with %s differs from the reference run: %s", c.Target, c.Proto, c.Method, x.o.key(), x.what),
			map[string]any{"part": "rpc", "case": c, "events": x.out.Events, "transcript": x.out.Transcript})
	}
}

func clip(s string) string {
	if len(s) > 160 {
		return s[:160] + "..."
	}
	return s
}

func allCombos() []Opts {
	var out []Opts
	for _, u := range []string{"", "rec"} {
		for _, st := range []string{"", "rec"} {
			for _, sh := range []bool{false, true} {
				out = append(out, Opts{Unary: u, Stream: st, Stats: sh})
			}
		}
	}
	return out
}

func protosFor(method string) []string {
	p := []string{"grpc", "web", "webtext", "http-json", "http-proto", "http-implicit"}
	if method == "Echo" || method == "SS" {
		p = append(p, "http-get", "http-nobody")
	}
	return p
}

func shapeIO(method string, size, k, m int) (in, out []int) {
	rep := func(n int) []int {
		o := make([]int, n)
		for i := range o {
			o[i] = size
		}
		return o
	}
	switch method {
	case "Echo":
		return rep(1), rep(1)
	case "CS":
		return rep(k), rep(1)
	case "SS":
		return rep(1), rep(m)
	}
	return rep(k), rep(m)
}

// RunC18 is the interceptor / stats-handler check.
func RunC18(r *mon.Run) {
	r.Rule = "scripted RPCs (unary, client-, server-, bidi-streaming) x (gRPC, gRPC-web binary and text, HTTP transcoding with JSON / protobuf bodies, implicit /pkg.Svc/Method binding, body-less GET and POST) x encoded message sizes {0,2,3,4,5,6,100} (a 1-byte protobuf message does not exist) x handler succeeds / fails x the 8 on/off combinations of (recording unary interceptor, recording stream interceptor, recording stats handler), on a locally registered service and on the same service proxied through RegisterConn to a real grpc.Server (reflection v1alpha); plus deciding interceptors (replace reply, deny, override error), larking's NewUnaryContext/NewStreamContext helpers and a WebSocket lane on a real server; plus a message-kind lane (msgkinds.go): methods whose request is URL-only / a whole message / a `body:` selected google.api.HttpBody field / an HttpBody, and whose reply is a message / Empty / HttpBody / a response_body-selected HttpBody or message field, unary and each streaming shape, over HTTP transcoding (JSON, protobuf), gRPC and gRPC-web, payload sizes 0..70000 (thorough: ..1 MiB and PRNG sizes), handler succeeds / fails, with no options / a stats handler / stats handler + recording interceptors; plus an entry-path lane (entry.go): gRPC / gRPC-web (binary, text) requests of every shape, local and proxied, whose grpc-timeout is valid-and-far-away or malformed in each way (unknown unit, too many digits, no digits, no unit, non-digit, signed), whose grpc-encoding / grpc-accept-encoding is identity / a registered compressor (compressed and plain frames) / unknown / upper-case / a list, and whose content-type carries an explicit, other, unknown or empty codec or a parameter, under 4 option sets: calls the mux refuses without dispatch must have either no stats event or a complete Tag..End trace, dispatched ones go through the full per-RPC oracle, and every transcript equals the one without options. Every handler step, interceptor invocation and stats event of an RPC is appended to one ordered per-RPC log; the client-visible transcript is compared with the transcript of the same (or, for deciding interceptors, the equivalent) script run without options. distinct = (target, protocol, method, size class, fail, option set) cells that were executed and held"
	r.Floor = r.Pick(400, 600)
	r.Assume("the unary method handler glue of the harness calls the interceptor it is handed exactly as protoc-gen-go-grpc code does")
	r.Assume("for proxied RPCs 'the handler' is observed at the back-end: messages it received / sent and the error it returned (or the larking-side interceptor's return value when one is installed)")
	s, err := newRPCSvc(true)
	if err != nil {
		r.Inconclusive("C18 setup: " + err.Error())
		return
	}
	defer s.Close()
	g := &c18run{r: r, s: s, bases: map[string]string{}}
	rng := r.Rand("c18")

	type job struct {
		base RPCCase
		opts []Opts
	}
	var jobs []job
	sizes := []int{0, 2, 3, 4, 5, 6, 100}
	methods := []string{"Echo", "CS", "SS", "Bidi"}
	combos := allCombos()
	failures := []struct {
		code  int
		msg   string
		plain bool
	}{{5, "nope", false}, {13, "boom 50% done", false}, {2, "plain error", true}, {3, "", false}, {16, "who are you", false}}
	for _, target := range []string{"local", "proxy"} {
		for _, method := range methods {
			for _, p := range protosFor(method) {
				for _, size := range sizes {
					for fi, fail := range []bool{false, true} {
						in, out := shapeIO(method, size, 2, 2)
						c := RPCCase{Part: "rpc", Target: target, Proto: p, Method: method, In: in, Out: out, Fail: fail}
						if fail {
							f := failures[(size+fi)%2]
							c.Code, c.Msg, c.Plain = f.code, f.msg, f.plain
						}
						if p == "http-get" || p == "http-nobody" {
							c.In = nil
							if size != 0 && size != 3 && size != 100 {
								continue // request size is irrelevant for body-less forms
							}
						}
						jobs = append(jobs, job{c, combos})
					}
				}
			}
		}
	}
	// message counts 0/1/3, read-to-EOF handlers, other failures
	for _, target := range []string{"local", "proxy"} {
		for _, method := range []string{"CS", "SS", "Bidi"} {
			for _, p := range []string{"grpc", "web", "http-json", "http-proto"} {
				for _, km := range [][2]int{{0, 0}, {1, 0}, {0, 1}, {1, 1}, {3, 1}, {1, 3}, {3, 3}} {
					for _, size := range []int{0, 3, 6} {
						in, out := shapeIO(method, size, km[0], km[1])
						if target == "proxy" && (method == "CS" || method == "Bidi") && len(in) == 0 {
							continue // an empty proxied client stream never reaches the back-end (C10's subject)
						}
						f := failures[(size+km[0]+km[1])%len(failures)]
						c := RPCCase{Part: "rpc", Target: target, Proto: p, Method: method, In: in, Out: out, Fail: (km[0]+km[1]+size)%2 == 1, Code: f.code, Msg: f.msg, Plain: f.plain}
						if target == "local" && (p == "grpc" || p == "web") && method != "SS" {
							c.ToEOF = size != 3
						}
						jobs = append(jobs, job{c, []Opts{{}, {Stats: true}, {Unary: "rec", Stream: "rec", Stats: true}, {Stream: "rec"}}})
					}
				}
			}
		}
	}
	// deciding interceptors and context helpers
	decide := []Opts{{}, {Unary: "replace"}, {Unary: "replace", Stats: true}, {Unary: "deny"}, {Unary: "deny", Stats: true},
		{Stream: "override"}, {Stream: "override", Stats: true}, {Stream: "deny"}, {Stream: "deny", Stats: true},
		{Unary: "ctx", Stream: "ctx"}, {Unary: "ctx", Stream: "ctx", Stats: true}, {Unary: "replace", Stream: "override", Stats: true}}
	for _, target := range []string{"local", "proxy"} {
		for _, method := range methods {
			for _, p := range protosFor(method) {
				for _, size := range []int{5, 100} {
					for _, fail := range []bool{false, true} {
						in, out := shapeIO(method, size, 2, 2)
						c := RPCCase{Part: "rpc", Target: target, Proto: p, Method: method, In: in, Out: out, Fail: fail, Code: 5, Msg: "nope"}
						if p == "http-get" || p == "http-nobody" {
							c.In = nil
						}
						var ol []Opts
						for _, o := range decide {
							if target == "proxy" && (o.Unary == "ctx" || o.Stream == "ctx") {
								continue
							}
							ol = append(ol, o)
						}
						jobs = append(jobs, job{c, ol})
					}
				}
			}
		}
	}
	// the failure code as a dimension: every status code returned by the
	// handler, and by a denying / overriding interceptor
	codeOpts := []Opts{{}, {Unary: "rec", Stream: "rec", Stats: true}, {Unary: "rec"}, {Stream: "rec"}, {Stats: true}}
	codeMethods := []string{"Echo", "Bidi"}
	codeProtos := []string{"grpc", "http-json"}
	if r.Thorough() {
		codeMethods = methods
		codeProtos = []string{"grpc", "web", "webtext", "http-json", "http-proto"}
	}
	for _, target := range []string{"local", "proxy"} {
		for _, method := range codeMethods {
			for _, p := range codeProtos {
				for code := 1; code <= 16; code++ {
					in, out := shapeIO(method, 5, 2, 2)
					jobs = append(jobs, job{RPCCase{Part: "rpc", Target: target, Proto: p, Method: method, In: in, Out: out, Fail: true, Code: code, Msg: fmt.Sprintf("handler failed with code %d", code)}, codeOpts})
					c := RPCCase{Part: "rpc", Target: target, Proto: p, Method: method, In: in, Out: out, ICode: code}
					if method == "Echo" {
						jobs = append(jobs, job{c, []Opts{{}, {Unary: "deny"}, {Unary: "deny", Stats: true}}})
					} else {
						jobs = append(jobs, job{c, []Opts{{}, {Stream: "override"}, {Stream: "deny", Stats: true}}})
					}
				}
			}
		}
	}
	// proxied target whose back-end is down: the forwarder itself fails
	downOpts := []Opts{{}, {Unary: "rec", Stream: "rec", Stats: true}, {Unary: "rec"}, {Stream: "rec"}, {Stats: true}, {Unary: "deny", Stream: "deny"}, {Unary: "deny", Stream: "override", Stats: true}}
	if err := s.prepareDown(downOpts); err != nil {
		r.Inconclusive("stopped back-end: " + err.Error())
	} else {
		for _, method := range methods {
			for _, p := range []string{"grpc", "web", "http-json", "http-get"} {
				if p == "http-get" && method != "Echo" && method != "SS" {
					continue
				}
				for _, size := range []int{0, 5} {
					in, out := shapeIO(method, size, 2, 2)
					c := RPCCase{Part: "rpc", Target: "proxy-down", Proto: p, Method: method, In: in, Out: out}
					if p == "http-get" {
						c.In = nil
					}
					jobs = append(jobs, job{c, downOpts})
				}
			}
		}
	}
	// request Content-Encoding values, next to Content-Type / Accept
	encOpts := []Opts{{}, {Stats: true}, {Unary: "rec", Stream: "rec"}, {Unary: "rec", Stream: "rec", Stats: true}}
	for _, target := range []string{"local", "proxy"} {
		for _, method := range methods {
			for _, p := range []string{"http-json", "http-proto", "http-implicit", "http-get", "http-nobody"} {
				if (p == "http-get" || p == "http-nobody") && method != "Echo" && method != "SS" {
					continue
				}
				in, out := shapeIO(method, 5, 2, 2)
				if p == "http-get" || p == "http-nobody" {
					in = nil
				}
				// "gzip-garbage": Content-Encoding: gzip over bytes that are not gzip
				for _, ce := range []string{"identity", "gzip", "gzip-garbage", "deflate", "br", "zstd", "x-unknown", "gzip, br", "GZIP", "compress", ","} {
					jobs = append(jobs, job{RPCCase{Part: "rpc", Target: target, Proto: p, Method: method, In: in, Out: out, ContentEncoding: ce}, encOpts})
				}
			}
		}
	}
	// interceptors that rewrite the incoming metadata: the handler (local) and
	// the back-end (proxied) see what the interceptor passed on, unary and
	// streaming alike
	mdOpts := []Opts{{}, {Unary: "md", Stream: "md"}, {Unary: "md", Stream: "md", Stats: true}, {Unary: "md", Stream: "md", Stats: true, Mutate: true}}
	for _, target := range []string{"local", "proxy"} {
		for _, method := range methods {
			for _, p := range protosFor(method) {
				for _, fail := range []bool{false, true} {
					in, out := shapeIO(method, 5, 2, 2)
					c := RPCCase{Part: "rpc", Target: target, Proto: p, Method: method, In: in, Out: out, Fail: fail, Code: 5, Msg: "nope"}
					if p == "http-get" || p == "http-nobody" {
						c.In = nil
					}
					jobs = append(jobs, job{c, mdOpts})
				}
			}
		}
	}
	// a mux with a small MaxSendMessageSizeOption: replies below and above
	// it, unary and streaming, on every front - every OutPayload event
	// corresponds to a message the client was sent
	limOpts := []Opts{{}, {Stats: true}, {Unary: "rec", Stream: "rec", Stats: true}}
	for _, target := range []string{"local", "proxy"} {
		for _, method := range methods {
			for _, p := range []string{"grpc", "web", "webtext", "http-json", "http-proto", "http-implicit", "http-get"} {
				if p == "http-get" && method != "Echo" && method != "SS" {
					continue
				}
				for _, outs := range [][]int{{5}, {300}, {5, 5}, {5, 300, 5}, {300, 5}} {
					if (method == "Echo" || method == "CS") != (len(outs) == 1) {
						continue
					}
					in, _ := shapeIO(method, 5, 2, 0)
					if p == "http-get" {
						in = nil
					}
					jobs = append(jobs, job{RPCCase{Part: "rpc", Target: target, Proto: p, Method: method, In: in, Out: outs, MaxSend: 50}, limOpts})
				}
			}
		}
	}
	// Content-Type / Accept header values as a request dimension of HTTP
	// transcoding: parameterised, malformed, unknown, upper-case, absent
	hdrOpts := []Opts{{}, {Stats: true}, {Unary: "rec", Stream: "rec"}, {Unary: "rec", Stream: "rec", Stats: true}}
	cts := []string{"application/json; charset=utf-8", "application/json; charset", "application/json; =", "application/json;", "application/json ; charset=\"utf-8", "APPLICATION/JSON", "application/protobuf; x=y", "text/plain", "application/x-unknown", "json", ";", "-"}
	accepts := []string{"application/json; charset=utf-8", "application/json;q=0.5, */*;q=0.1", "application/json; q", "*/*", "application/protobuf", "text/html", ";;", ","}
	for _, target := range []string{"local", "proxy"} {
		for _, method := range methods {
			for _, p := range []string{"http-json", "http-implicit", "http-get", "http-nobody"} {
				if (p == "http-get" || p == "http-nobody") && method != "Echo" && method != "SS" {
					continue
				}
				in, out := shapeIO(method, 5, 2, 2)
				if p == "http-get" || p == "http-nobody" {
					in = nil
				}
				for _, ct := range cts {
					jobs = append(jobs, job{RPCCase{Part: "rpc", Target: target, Proto: p, Method: method, In: in, Out: out, ContentType: ct}, hdrOpts})
				}
				for _, ac := range accepts {
					jobs = append(jobs, job{RPCCase{Part: "rpc", Target: target, Proto: p, Method: method, In: in, Out: out, Accept: ac}, hdrOpts})
				}
			}
		}
	}
	// calls to methods nobody serves: unknown method of a registered service,
	// unregistered service, methods of a connection that was dropped - under
	// every option mask the outcome is the plain mux's
	nsmOpts := append(append([]Opts(nil), combos...), Opts{Stats: true, Mutate: true}, Opts{Unary: "ctx", Stream: "ctx", Stats: true})
	for _, p := range []string{"grpc", "web", "webtext", "http-implicit", "http-json"} {
		for _, size := range []int{0, 5} {
			for _, method := range []string{"Nope", "OtherSvc"} {
				if p == "http-json" {
					continue
				}
				for _, target := range []string{"local", "proxy"} {
					jobs = append(jobs, job{RPCCase{Part: "rpc", Target: target, Proto: p, Method: method, In: []int{size}, Out: []int{size}}, nsmOpts})
				}
			}
			for _, method := range methods {
				in, out := shapeIO(method, size, 2, 2)
				var ol []Opts
				for _, o := range nsmOpts {
					if o.Unary != "ctx" {
						ol = append(ol, o)
					}
				}
				jobs = append(jobs, job{RPCCase{Part: "rpc", Target: "proxy-dropped", Proto: p, Method: method, In: in, Out: out}, ol})
			}
		}
	}
	// a stats handler that edits the maps it is handed
	mutOpts := []Opts{{}, {Stats: true, Mutate: true}, {Unary: "rec", Stream: "rec", Stats: true, Mutate: true}}
	for _, target := range []string{"local", "proxy"} {
		for _, method := range methods {
			for _, p := range protosFor(method) {
				for _, fail := range []bool{false, true} {
					in, out := shapeIO(method, 5, 2, 2)
					c := RPCCase{Part: "rpc", Target: target, Proto: p, Method: method, In: in, Out: out, Fail: fail, Code: 5, Msg: "nope"}
					if p == "http-get" || p == "http-nobody" {
						c.In = nil
					}
					jobs = append(jobs, job{c, mutOpts})
				}
			}
		}
	}
	// several messages of different sizes per direction (a stats handler that
	// retains its events must end up with one distinct event per message)
	for _, target := range []string{"local", "proxy"} {
		for _, method := range []string{"CS", "SS", "Bidi"} {
			for _, p := range []string{"grpc", "web", "webtext", "http-json", "http-proto", "http-implicit"} {
				in, out := []int{2, 100, 6, 5}, []int{100, 3, 5, 0, 6}
				if target == "proxy" {
					in = []int{6, 100, 5, 7} // one size class (see the package note)
				}
				switch method {
				case "CS":
					out = out[:1]
				case "SS":
					in = in[:1]
				}
				jobs = append(jobs, job{RPCCase{Part: "rpc", Target: target, Proto: p, Method: method, In: in, Out: out}, []Opts{{}, {Stats: true}, {Unary: "rec", Stream: "rec", Stats: true}}})
			}
		}
	}
	// calls that end while, or before, the handler runs: the grpc-timeout
	// expires / the client cancels during the handler, which then returns its
	// own error or nil; calls that arrive expired or cancelled
	endOpts := []Opts{{}, {Unary: "rec", Stream: "rec", Stats: true}, {Unary: "rec", Stream: "rec"}, {Stats: true}}
	if r.Thorough() {
		endOpts = combos
	}
	type endVar struct {
		timeout              string
		wait, mid, pre, fail bool
	}
	endVars := []endVar{
		{"10m", true, false, false, true}, {"10m", true, false, false, false},
		{"", false, true, false, true}, {"", false, true, false, false},
		{"0n", false, false, false, true}, {"", false, false, true, true}, {"", false, false, true, false},
	}
	for _, target := range []string{"local", "proxy"} {
		for _, method := range methods {
			endProtos := []string{"grpc", "web", "http-json"}
			if r.Thorough() {
				endProtos = []string{"grpc", "web", "webtext", "http-json", "http-proto"}
			}
			for _, p := range endProtos {
				for _, v := range endVars {
					if strings.HasPrefix(p, "http") && v.timeout != "" {
						continue // grpc-timeout is a gRPC header
					}
					in, _ := shapeIO(method, 5, 2, 0)
					c := RPCCase{Part: "rpc", Target: target, Proto: p, Method: method, In: in, Out: nil,
						Timeout: v.timeout, WaitCtx: v.wait, CancelMid: v.mid, PreCancel: v.pre, Fail: v.fail, Code: int(codes.Aborted), Msg: "rolled back"}
					if method == "Echo" {
						c.Out = []int{5}
					}
					jobs = append(jobs, job{c, endOpts})
				}
			}
		}
	}
	// the gRPC / gRPC-web entry path: header values that make the mux refuse,
	// or serve differently, before or around the begin of the call (entry.go)
	for _, c := range entryCases(r.Thorough()) {
		jobs = append(jobs, job{c, entryOpts})
	}
	// thorough: PRNG-generated scripts
	extra := r.Pick(0, 5200)
	for i := 0; i < extra; i++ {
		target := []string{"local", "proxy"}[rng.Intn(2)]
		method := methods[rng.Intn(4)]
		ps := protosFor(method)
		p := ps[rng.Intn(len(ps))]
		szs := []int{0, 2, 3, 4, 5, 6, 7, 100, 129, 1000}
		k, m := rng.Intn(5), rng.Intn(5)
		in, out := shapeIO(method, szs[rng.Intn(len(szs))], k, m)
		uniform := target == "proxy" // see the note on D22 in the package documentation
		for j := range in {
			if !uniform {
				in[j] = szs[rng.Intn(len(szs))]
			}
		}
		for j := range out {
			out[j] = szs[rng.Intn(len(szs))]
		}
		if target == "proxy" && (method == "CS" || method == "Bidi") && len(in) == 0 {
			in = []int{szs[rng.Intn(len(szs))]}
		}
		if p == "http-get" || p == "http-nobody" {
			in = nil
		}
		f := failures[rng.Intn(len(failures))]
		c := RPCCase{Part: "rpc", Target: target, Proto: p, Method: method, In: in, Out: out, Fail: rng.Intn(3) == 0, Code: f.code, Msg: f.msg, Plain: f.plain}
		if target == "local" && (p == "grpc" || p == "web" || p == "webtext") && method != "SS" && method != "Echo" {
			c.ToEOF = rng.Intn(2) == 0
		}
		ol := combos
		if rng.Intn(4) == 0 {
			ol = nil
			for _, o := range decide {
				if target == "proxy" && (o.Unary == "ctx" || o.Stream == "ctx") {
					continue
				}
				ol = append(ol, o)
			}
		}
		jobs = append(jobs, job{c, ol})
	}

	// Deterministic order; several workers (each job is self-contained).
	var wg sync.WaitGroup
	var next int64 = -1
	for w := 0; w < 8; w++ {
		wg.Add(1)
		go func() {
			defer wg.Done()
			for {
				i := int(atomic.AddInt64(&next, 1))
				if i >= len(jobs) {
					return
				}
				g.group(jobs[i].base, jobs[i].opts)
				if i%(len(jobs)/5+1) == 0 {
					r.Sample(jobs[i].base)
				}
			}
		}()
	}
	wg.Wait()
	r.Count("script_groups", len(jobs))
	if n := atomic.LoadInt64(&s.orphans); n > 0 {
		r.Count("stats_events_without_request_metadata", int(n))
	}
	runSockets(r, s)
	runLockStep(r, s)
	s.checkKept(r)
	runReplyShapes(r)
	runPayloadIdentity(r)
	runMessageKinds(r)
	runWS(r)
}

func replayRPC(r *mon.Run, raw json.RawMessage) {
	var doc struct {
		Case *RPCCase `json:"case"`
		Lane string   `json:"lane"`
	}
	var mk struct {
		Lane string  `json:"lane"`
		Case *MKCase `json:"case"`
	}
	if err := json.Unmarshal(raw, &mk); err == nil && mk.Lane == "msgkind" && mk.Case != nil {
		replayMessageKind(r, mk.Case)
		return
	}
	var c RPCCase
	if err := json.Unmarshal(raw, &doc); err == nil && doc.Case != nil {
		c = *doc.Case
	} else if err := json.Unmarshal(raw, &c); err != nil {
		r.Inconclusive("bad replay case: " + err.Error())
		return
	}
	if c.Proto == "ws" {
		replayWS(r, &c)
		return
	}
	s, err := newRPCSvc(c.proxied())
	if err != nil {
		r.Inconclusive("C18 setup: " + err.Error())
		return
	}
	defer s.Close()
	if c.Target == "proxy-down" {
		if err := s.prepareDown([]Opts{{}, c.Opts}); err != nil {
			r.Inconclusive("stopped back-end: " + err.Error())
			return
		}
	}
	o := c.Opts
	c.Opts = Opts{}
	if doc.Lane == "lockstep" {
		runLockStepCells(r, s, []RPCCase{c}, []Opts{o})
		r.Distinct("replay-lockstep")
		return
	}
	if doc.Lane == "sockets" {
		runSocketCases(r, s, []RPCCase{c}, []Opts{{}, o})
		r.Distinct("replay-sockets")
		return
	}
	g := &c18run{r: r, s: s, bases: map[string]string{}}
	g.group(c, []Opts{{}, o})
	r.Distinct("replay")
}

var _ = sort.Strings
