package calls

import (
	"bytes"
	"context"
	"fmt"
	"net/http"

	"google.golang.org/genproto/googleapis/api/annotations"
	"google.golang.org/grpc"
	"google.golang.org/grpc/metadata"
	"google.golang.org/protobuf/reflect/protoreflect"
	"google.golang.org/protobuf/types/known/emptypb"
	"larking.io/larking"

	"verif/internal/mon"
	"verif/internal/vschema"
	"verif/internal/wire"
)

// The reply-shape lane of C18: what a unary handler, or a unary interceptor
// in front of it, returns next to a nil error is what the client gets. A typed
// nil message pointer (`var r *emptypb.Empty; return r, nil`) is an empty
// message to protobuf-go, to grpc-go and to the protocol; it must give the
// client exactly what a non-nil empty message gives (differential reference),
// on HTTP transcoding, gRPC and gRPC-web, with and without a stats handler.

type shapeSvc struct{ full string }

func shapeReply(shape string) interface{} {
	if shape == "typed-nil" {
		var e *emptypb.Empty
		return e
	}
	return &emptypb.Empty{}
}

func mdOne(ctx context.Context, k string) string {
	md, _ := metadata.FromIncomingContext(ctx)
	if v := md.Get(k); len(v) > 0 {
		return v[0]
	}
	return ""
}

func (s *shapeSvc) unary(ctx context.Context, md protoreflect.MethodDescriptor, dec func(interface{}) error, icpt grpc.UnaryServerInterceptor) (interface{}, error) {
	in := newChunk()
	if err := dec(in); err != nil {
		return nil, err
	}
	h := func(ctx context.Context, req interface{}) (interface{}, error) {
		return shapeReply(mdOne(ctx, "x-shape")), nil
	}
	if icpt == nil {
		return h(ctx, in)
	}
	return icpt(ctx, in, &grpc.UnaryServerInfo{FullMethod: vschema.FullMethod(md)}, h)
}

func (s *shapeSvc) icpt(ctx context.Context, req interface{}, info *grpc.UnaryServerInfo, h grpc.UnaryHandler) (interface{}, error) {
	if mdOne(ctx, "x-src") == "interceptor" {
		// a caching / short-circuiting interceptor answers itself
		return shapeReply(mdOne(ctx, "x-shape")), nil
	}
	return h(ctx, req)
}

func runReplyShapes(r *mon.Run) {
	f := &vschema.File{Path: "vf/c18n.proto", Pkg: "vf.c18n", Services: []vschema.Service{{Name: "Nil", Methods: []vschema.Method{
		{Name: "Get", In: "vf.Chunk", Out: "google.protobuf.Empty", Rule: &annotations.HttpRule{Pattern: &annotations.HttpRule_Post{Post: "/n/get"}, Body: "*"}},
	}}}}
	fd, err := f.Build()
	if err != nil {
		r.Inconclusive("reply-shape lane: " + err.Error())
		return
	}
	reg, err := vschema.Registry(fd)
	if err != nil {
		r.Inconclusive("reply-shape lane: " + err.Error())
		return
	}
	s := &shapeSvc{full: "/vf.c18n.Nil/Get"}
	noStream := func(protoreflect.MethodDescriptor, grpc.ServerStream) error { return nil }
	muxes := map[bool]*larking.Mux{}
	for _, st := range []bool{false, true} {
		opts := []larking.MuxOption{larking.FilesOption(reg), larking.UnaryServerInterceptorOption(s.icpt)}
		if st {
			opts = append(opts, larking.StatsOption(&tagStats{}))
		}
		mux, err := larking.NewMux(opts...)
		if err == nil {
			err = larking.VerifRegisterService(mux, serviceDesc(fd.Services().ByName("Nil"), s.unary, noStream), struct{}{})
		}
		if err != nil {
			r.Inconclusive("reply-shape lane: " + err.Error())
			return
		}
		muxes[st] = mux
	}
	body := mustMarshal(chunkOfSize(5))
	do := func(mux *larking.Mux, p, src, shape string) (string, *mon.PanicInfo) {
		hdr := http.Header{"X-Shape": {shape}, "X-Src": {src}}
		var req *http.Request
		switch p {
		case "grpc":
			req = wire.GRPCRequest(s.full, hdr, bytes.NewReader(wire.Frame(body, false)))
		case "web", "webtext":
			req = wire.WebRequest(s.full, hdr, wire.Frame(body, false), p == "webtext", "")
		case "http-proto":
			hdr.Set("Content-Type", "application/protobuf")
			req = wire.BodyRequest("POST", "/n/get", "", hdr, body)
		default:
			hdr.Set("Content-Type", "application/json")
			req = wire.BodyRequest("POST", "/n/get", "", hdr, []byte(`{"text":"abc"}`))
		}
		resp := wire.Serve(mux, req)
		if resp.Wedged {
			return "wedged", nil
		}
		return transcriptOf(&RPCCase{Proto: p}, resp), resp.Panic
	}
	for _, st := range []bool{false, true} {
		for _, p := range []string{"grpc", "web", "webtext", "http-json", "http-proto"} {
			for _, src := range []string{"handler", "interceptor"} {
				pc := (&RPCCase{Proto: p}).protoClass()
				with := ""
				if st {
					with = ":with=stats"
				}
				c := map[string]any{"part": "reply-shape", "proto": p, "source": src, "stats": st}
				ref, pi := do(muxes[st], p, src, "empty")
				r.Eval(1)
				if pi != nil {
					r.Violate(pi.Key()+":empty-reply", "an empty reply message panicked: "+pi.Value, c)
					continue
				}
				got, pi := do(muxes[st], p, src, "typed-nil")
				r.Eval(1)
				r.Count("reply_shape_requests", 2)
				if pi != nil {
					r.Violate(pi.Key()+":typed-nil-reply", fmt.Sprintf("%s: a typed nil reply returned by the %s panicked: %s", p, src, pi.Value), c)
					continue
				}
				if got != ref {
					r.Violate(fmt.Sprintf("local/%s:typed-nil-reply-differs-from-empty-message:%s%s", pc, src, with),
						fmt.Sprintf("%s unary call: the %s returned a typed nil message pointer with a nil error; the client got %s, but for a non-nil empty message %s", p, src, clip(got), clip(ref)), c)
					continue
				}
				r.Distinct(fmt.Sprintf("reply-shape/%s/%s/stats=%v", p, src, st))
			}
		}
	}
}
