// Package calls holds the engines for C15 (deadlines and cancellation) and
// C18 (interceptors and stats handlers see every RPC exactly once). Both drive
// the real larking Mux with scripted handlers whose every step is logged, and
// decide from those logs plus what the client saw.
//
// Files: timeout.go (C15a grpc-timeout decoding, in-process), cancel.go (C15b
// cancellation scenarios over a real server), c18.go (in-process RPC matrix,
// oracles), sockets.go (C18 over a real server with the grpc-go client), ws.go
// (C18 WebSocket lane), backend.go (real grpc.Server + reflection v1alpha
// back-end for the proxied target), msgkinds.go (C18 message-kind lane:
// request / reply kinds such as google.api.HttpBody and body / response_body
// selectors), run.go (entry points, replay dispatch).
//
// Note on proxied client streams: larking's forwarder reads every message
// after the first in a goroutine of its own. While defect D22 (stats payload
// slicing in streamGRPC.RecvMsg) was present, a proxied client-streaming RPC
// whose second or later message was shorter than five bytes panicked in that
// goroutine, outside net/http's recover, and killed the whole process. The
// generated proxied scripts therefore keep all request messages of one RPC in
// the same size class, so that such a panic always hits the first RecvMsg,
// where it is recovered and reported.
package calls

import (
	"bytes"
	"context"
	"fmt"
	"runtime"
	"strconv"
	"strings"
	"sync"
	"time"

	"google.golang.org/grpc"
	"google.golang.org/grpc/metadata"
	"google.golang.org/protobuf/proto"
	"google.golang.org/protobuf/reflect/protoreflect"
	"larking.io/larking"

	"verif/internal/svc"
	"verif/internal/vschema"
)

// unaryFn is the body of a generated-code style unary method handler: it gets
// the raw decode function and the interceptor exactly as grpc generated code
// does, so the harness can log around the decode step.
type unaryFn func(ctx context.Context, md protoreflect.MethodDescriptor, dec func(interface{}) error, icpt grpc.UnaryServerInterceptor) (interface{}, error)

type streamFn func(md protoreflect.MethodDescriptor, ss grpc.ServerStream) error

// serviceDesc builds the grpc.ServiceDesc of a dynamic service with the
// engine's own glue (vschema.ServiceDesc hides the decode step).
func serviceDesc(sd protoreflect.ServiceDescriptor, u unaryFn, s streamFn) *grpc.ServiceDesc {
	gsd := &grpc.ServiceDesc{
		ServiceName: string(sd.FullName()),
		HandlerType: (*interface{})(nil),
		Metadata:    sd.ParentFile().Path(),
	}
	for i := 0; i < sd.Methods().Len(); i++ {
		md := sd.Methods().Get(i)
		if md.IsStreamingClient() || md.IsStreamingServer() {
			gsd.Streams = append(gsd.Streams, grpc.StreamDesc{
				StreamName:    string(md.Name()),
				ClientStreams: md.IsStreamingClient(),
				ServerStreams: md.IsStreamingServer(),
				Handler: func(srv interface{}, ss grpc.ServerStream) error {
					return s(md, ss)
				},
			})
			continue
		}
		gsd.Methods = append(gsd.Methods, grpc.MethodDesc{
			MethodName: string(md.Name()),
			Handler: func(srv interface{}, ctx context.Context, dec func(interface{}) error, icpt grpc.UnaryServerInterceptor) (interface{}, error) {
				return u(ctx, md, dec, icpt)
			},
		})
	}
	return gsd
}

// newMux registers the standard service with the engine's glue on a new mux.
func newMux(std *svc.Std, u unaryFn, s streamFn, opts ...larking.MuxOption) (*larking.Mux, error) {
	reg, err := vschema.Registry(std.FD)
	if err != nil {
		return nil, err
	}
	opts = append([]larking.MuxOption{larking.FilesOption(reg)}, opts...)
	mux, err := larking.NewMux(opts...)
	if err != nil {
		return nil, err
	}
	if err := larking.VerifRegisterService(mux, serviceDesc(std.SD, u, s), struct{}{}); err != nil {
		return nil, err
	}
	return mux, nil
}

var chunkMD = vschema.Msg("vf.Chunk")

func newChunk() proto.Message { return vschema.NewMsg(chunkMD) }

// chunkOfSize returns a vf.Chunk whose protobuf encoding has exactly n bytes
// (n = 0 or n >= 2; a one-byte protobuf message does not exist, 1 yields 2).
func chunkOfSize(n int) proto.Message {
	m := newChunk()
	r := m.ProtoReflect()
	fs := chunkMD.Fields()
	switch {
	case n <= 0:
	case n <= 2:
		r.Set(fs.ByName("seq"), protoreflect.ValueOfInt32(1))
	case n <= 129:
		r.Set(fs.ByName("text"), protoreflect.ValueOfString(strings.Repeat("a", n-2)))
	default:
		// data: tag(1) + varint length + bytes
		l := n - 2
		for l > 0 {
			m2 := newChunk()
			m2.ProtoReflect().Set(fs.ByName("data"), protoreflect.ValueOfBytes(make([]byte, l)))
			if proto.Size(m2) <= n {
				break
			}
			l--
		}
		b := bytes.Repeat([]byte{0x5a}, l)
		r.Set(fs.ByName("data"), protoreflect.ValueOfBytes(b))
	}
	return m
}

func mustMarshal(m proto.Message) []byte {
	b, err := proto.MarshalOptions{Deterministic: true}.Marshal(m)
	if err != nil {
		panic(err)
	}
	return b
}

// scnID extracts the scenario id the client planted in the request headers.
func scnID(ctx context.Context) string {
	md, _ := metadata.FromIncomingContext(ctx)
	if v := md.Get("x-scn"); len(v) > 0 {
		return v[0]
	}
	return ""
}

// goid returns the current goroutine's id (parsed from its stack header).
func goid() int64 {
	var buf [64]byte
	n := runtime.Stack(buf[:], false)
	f := strings.Fields(string(buf[:n]))
	if len(f) >= 2 {
		id, _ := strconv.ParseInt(f[1], 10, 64)
		return id
	}
	return 0
}

// goroutineBlock extracts the stack of one goroutine from a full dump.
func goroutineBlock(dump string, id int64) string {
	head := fmt.Sprintf("goroutine %d [", id)
	i := strings.Index(dump, head)
	if i < 0 {
		return ""
	}
	rest := dump[i:]
	if j := strings.Index(rest, "\n\n"); j >= 0 {
		rest = rest[:j]
	}
	return rest
}

// insideLarking reports whether the goroutine's stack shows it executing
// below a larking frame, and whether a larking frame sits deeper than the
// first harness handler frame (i.e. the handler called into larking and has
// not come back).
func insideLarking(block string) (within, blockedIn bool) {
	lines := strings.Split(block, "\n")
	firstLark, firstHarness := -1, -1
	for i, l := range lines {
		if strings.HasPrefix(l, "larking.io/larking.") && firstLark < 0 {
			firstLark = i
		}
		if strings.HasPrefix(l, "verif/engines/calls.") && firstHarness < 0 {
			firstHarness = i
		}
	}
	within = firstLark >= 0
	blockedIn = firstLark >= 0 && (firstHarness < 0 || firstLark < firstHarness)
	return
}

func fullDump() string {
	buf := make([]byte, 4<<20)
	n := runtime.Stack(buf, true)
	return string(buf[:n])
}

// ------------------------------------------------------------- event log

type event struct {
	Name string `json:"name"`
	Err  string `json:"err,omitempty"`
	N    int    `json:"n,omitempty"`
	AtUS int64  `json:"at_us"`
	err  error
}

// evlog is a mutex-protected, ordered event log shared by the handler side,
// the boundary middleware and the client driver of one scenario.
type evlog struct {
	mu     sync.Mutex
	start  time.Time
	events []event
}

func newEvlog() *evlog { return &evlog{start: time.Now()} }

func (l *evlog) log(name string, err error, n int) {
	l.mu.Lock()
	e := event{Name: name, N: n, AtUS: time.Since(l.start).Microseconds(), err: err}
	if err != nil {
		e.Err = err.Error()
		if len(e.Err) > 200 {
			e.Err = e.Err[:200]
		}
	}
	l.events = append(l.events, e)
	l.mu.Unlock()
}

func (l *evlog) snapshot() []event {
	l.mu.Lock()
	defer l.mu.Unlock()
	return append([]event(nil), l.events...)
}

// index returns the position of the first event called name at or after from
// (-1 if none).
func index(ev []event, name string, from int) int {
	for i := from; i < len(ev); i++ {
		if i >= 0 && ev[i].Name == name {
			return i
		}
	}
	return -1
}

// waitFor polls the log until pred holds or the timeout expires.
func (l *evlog) waitFor(timeout time.Duration, pred func([]event) bool) bool {
	deadline := time.Now().Add(timeout)
	for {
		if pred(l.snapshot()) {
			return true
		}
		if time.Now().After(deadline) {
			return false
		}
		time.Sleep(time.Millisecond)
	}
}
