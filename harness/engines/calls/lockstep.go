package calls

import (
	"bytes"
	"context"
	"encoding/binary"
	"encoding/json"
	"fmt"
	"io"
	"net/http"
	"sort"
	"strings"
	"sync"
	"sync/atomic"
	"time"

	"google.golang.org/grpc"
	"google.golang.org/grpc/metadata"
	"google.golang.org/grpc/status"
	"google.golang.org/protobuf/encoding/protojson"

	"verif/internal/mon"
	"verif/internal/wire"
)

// The incremental-delivery lane of C18 (real connections): a server-streaming
// or bidi handler sends message k and then waits - in-process, with a
// generous watchdog - until the client has reported receiving message k
// before it sends k+1 or returns. On a mux without options the exchange runs
// in lock-step to the end; installing interceptors / a stats handler must not
// change that outcome. A mask under which the handler is still waiting after
// the watchdog while the client has not received message k, although the
// plain mux completed, is reported. Messages are a few bytes, far below any
// write buffer.

const lockStepWatchdog = 10 * time.Second

func (sc *rscn) waitAck(k int, d time.Duration) bool {
	deadline := time.Now().Add(d)
	for atomic.LoadInt64(&sc.acked) < int64(k) {
		if time.Now().After(deadline) {
			return false
		}
		time.Sleep(100 * time.Microsecond)
	}
	return true
}

type lockOutcome struct {
	Summary string   `json:"summary"`
	Stalled bool     `json:"stalled"`
	Events  []revent `json:"events"`
}

// execLockStep runs one lock-step exchange and summarises what happened.
func (l *sockLane) execLockStep(c *RPCCase) (*lockOutcome, error) {
	cc, srv, err := l.conn(c.Target, c.Opts)
	if err != nil {
		return nil, err
	}
	s := l.s
	sc := &rscn{id: fmt.Sprintf("k%d", atomic.AddInt64(&s.seq, 1)), spec: c}
	s.scns.Store(sc.id, sc)
	defer s.scns.Delete(sc.id)
	ctx, cancel := context.WithTimeout(context.Background(), 60*time.Second)
	defer cancel()

	var sb strings.Builder
	got := 0
	ack := func(payload string) {
		got++
		fmt.Fprintf(&sb, "msg(%s) ", payload)
		atomic.StoreInt64(&sc.acked, int64(got))
	}
	full := s.std.Full(c.Method)
	path := map[string]string{"SS": "/p/ss", "Bidi": "/p/bidi"}[c.Method]
	var jsonBody, framed []byte
	for _, n := range c.In {
		b, _ := protojson.Marshal(chunkOfSize(n))
		jsonBody = append(jsonBody, b...)
		framed = append(framed, wire.Frame(mustMarshal(chunkOfSize(n)), false)...)
	}
	switch c.Client {
	case "grpc":
		gctx := metadata.AppendToOutgoingContext(ctx, "x-scn", sc.id)
		st, err := cc.NewStream(gctx, &grpc.StreamDesc{ClientStreams: true, ServerStreams: true}, full)
		if err != nil {
			return nil, err
		}
		for _, n := range c.In {
			if err := st.SendMsg(chunkOfSize(n)); err != nil {
				break
			}
		}
		st.CloseSend()
		for {
			m := newChunk()
			err := st.RecvMsg(m)
			if err == io.EOF {
				sb.WriteString("status(0,\"\")")
				break
			}
			if err != nil {
				st := status.Convert(err)
				fmt.Fprintf(&sb, "status(%d,%q)", st.Code(), st.Message())
				break
			}
			ack(fmt.Sprintf("%x", mustMarshal(m)))
		}
	case "h1-http", "h2c-http", "h1-web":
		client := wire.H1Client()
		if c.Client == "h2c-http" {
			client = wire.H2CClient()
		}
		defer client.CloseIdleConnections()
		var req *http.Request
		if c.Client == "h1-web" {
			req, _ = http.NewRequestWithContext(ctx, "POST", srv.URL+full, bytes.NewReader(framed))
			req.Header.Set("Content-Type", "application/grpc-web+proto")
		} else {
			req, _ = http.NewRequestWithContext(ctx, "POST", srv.URL+path, bytes.NewReader(jsonBody))
			req.Header.Set("Content-Type", "application/json")
		}
		req.Header.Set("X-Scn", sc.id)
		resp, err := client.Do(req)
		if err != nil {
			fmt.Fprintf(&sb, "request-error(%T)", err)
			break
		}
		fmt.Fprintf(&sb, "http(%d) ", resp.StatusCode)
		if c.Client == "h1-web" {
			for {
				var hd [5]byte
				if _, err := io.ReadFull(resp.Body, hd[:]); err != nil {
					break
				}
				p := make([]byte, binary.BigEndian.Uint32(hd[1:]))
				if _, err := io.ReadFull(resp.Body, p); err != nil {
					break
				}
				if hd[0]&0x80 != 0 {
					tr := wire.ParseWebTrailer(p)
					fmt.Fprintf(&sb, "trailer(status=%v message=%v)", tr["grpc-status"], tr["grpc-message"])
					continue
				}
				ack(fmt.Sprintf("%x", p))
			}
		} else {
			dec := json.NewDecoder(resp.Body)
			for {
				var raw json.RawMessage
				if err := dec.Decode(&raw); err != nil {
					break
				}
				if bytes.Contains(raw, []byte(`"code"`)) && bytes.Contains(raw, []byte(`"message"`)) {
					fmt.Fprintf(&sb, "error(%s)", raw)
					continue
				}
				ack(string(raw))
			}
		}
		resp.Body.Close()
	default:
		return nil, fmt.Errorf("unknown lock-step client %q", c.Client)
	}
	// let the handler log its return
	deadline := time.Now().Add(5 * time.Second)
	for time.Now().Before(deadline) && count(sc.snapshot(), "h", "return") == 0 {
		time.Sleep(200 * time.Microsecond)
	}
	ev := sc.snapshot()
	out := &lockOutcome{Events: ev, Stalled: count(ev, "h", "ack-timeout") > 0}
	out.Summary = fmt.Sprintf("lock-step acks=%d/%d stalled=%v returned=%v | client: %s", count(ev, "h", "acked"), len(c.Out), out.Stalled, count(ev, "h", "return") > 0, sb.String())
	return out, nil
}

func lockStepCells() []RPCCase {
	var out []RPCCase
	for _, target := range []string{"local", "proxy"} {
		for _, client := range []string{"h1-http", "h2c-http", "grpc", "h1-web"} {
			for _, method := range []string{"SS", "Bidi"} {
				in, o := shapeIO(method, 5, 2, 3)
				proto := map[string]string{"h1-http": "http-json", "h2c-http": "http-json", "grpc": "grpc", "h1-web": "web"}[client]
				c := RPCCase{Part: "rpc", Target: target, Proto: proto, Method: method, In: in, Out: o, LockStep: true, Client: client}
				// HTTP/1 is half-duplex also for larking's forwarder, which
				// reads the client while it writes the back-end's replies: the
				// back-end waits for the forwarded end of the request first
				c.ToEOF = target == "proxy" && method == "Bidi" && strings.HasPrefix(client, "h1")
				out = append(out, c)
			}
		}
	}
	return out
}

// runLockStepCells runs each cell on the plain mux and then under the option
// masks, smallest first; masks that include an already failing mask are not
// run (each stall costs the watchdog).
func runLockStepCells(r *mon.Run, s *rpcSvc, cells []RPCCase, masks []Opts) {
	l := &sockLane{s: s, srvs: map[string]*wire.Server{}, ccs: map[string]*grpc.ClientConn{}}
	defer l.close()
	nOn := func(o Opts) int {
		n := 0
		for _, b := range o.onOff() {
			if b {
				n++
			}
		}
		return n
	}
	masks = append([]Opts(nil), masks...)
	sort.SliceStable(masks, func(i, j int) bool { return nOn(masks[i]) < nOn(masks[j]) })
	var wg sync.WaitGroup
	var next int64 = -1
	for w := 0; w < 8; w++ {
		wg.Add(1)
		go func() {
			defer wg.Done()
			for {
				i := int(atomic.AddInt64(&next, 1))
				if i >= len(cells) {
					return
				}
				base := cells[i]
				shape := map[string]string{"SS": "ss", "Bidi": "bidi"}[base.Method]
				cell := base.Client + "/" + shape
				if base.Target != "local" {
					cell = base.Target + ":" + cell
				}
				plain := base
				plain.Opts = Opts{}
				ref, err := l.execLockStep(&plain)
				r.Eval(1)
				r.Count("lockstep_exchanges", 1)
				if err != nil {
					r.Inconclusive("lock-step lane: " + err.Error())
					continue
				}
				if ref.Stalled || !strings.Contains(ref.Summary, fmt.Sprintf("acks=%d/%d", len(base.Out), len(base.Out))) {
					// no incremental delivery on the plain mux either: nothing
					// the options could change (observation only)
					r.Count("lockstep_plain_mux_not_in_lock_step", 1)
					continue
				}
				r.Count("lockstep_messages_delivered_before_next_send", len(base.Out))
				var failed []Opts
				for _, o := range masks {
					if o.none() {
						continue
					}
					skip := false
					for _, f := range failed {
						if f.coveredBy(o) {
							skip = true
						}
					}
					if skip {
						r.Count("lockstep_skipped_mask_includes_reported_mask", 1)
						continue
					}
					c := base
					c.Opts = o
					got, err := l.execLockStep(&c)
					r.Eval(1)
					r.Count("lockstep_exchanges", 1)
					if err != nil {
						r.Inconclusive("lock-step lane: " + err.Error())
						break
					}
					if got.Summary == ref.Summary {
						r.Count("lockstep_messages_delivered_before_next_send", len(base.Out))
						r.Distinct(fmt.Sprintf("lockstep/%s/%s", cell, o.key()))
						continue
					}
					failed = append(failed, o)
					what := "the exchange differs"
					if got.Stalled {
						what = fmt.Sprintf("the handler was still waiting after %v for the client to receive a message it had sent", lockStepWatchdog)
					}
					r.Violate(fmt.Sprintf("outcome-changed-by-options:%s:incremental-delivery:%s", o.key(), cell),
						fmt.Sprintf("%s %s %s on a real connection, handler and client in lock-step: with %s %s [%s]; on the plain mux [%s]", base.Target, base.Client, base.Method, o.key(), what, clip(got.Summary), clip(ref.Summary)),
						map[string]any{"part": "rpc", "lane": "lockstep", "case": &c, "events": got.Events, "transcript": got.Summary})
				}
			}
		}()
	}
	wg.Wait()
	l.mu.Lock()
	for _, srv := range l.srvs {
		if log := srv.ErrLog(); strings.Contains(log, "panic serving") {
			r.Violate("panic:server-log:lockstep", "the server logged a panic on the lock-step lane: "+firstLines(log, 6), map[string]any{"part": "lockstep-log"})
		}
	}
	l.mu.Unlock()
}

func runLockStep(r *mon.Run, s *rpcSvc) {
	masks := allCombos()
	masks = append(masks, Opts{Unary: "ctx", Stream: "ctx"}, Opts{Unary: "ctx", Stream: "ctx", Stats: true})
	runLockStepCells(r, s, lockStepCells(), masks)
}
