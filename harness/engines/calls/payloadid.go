package calls

import (
	"bytes"
	"context"
	"fmt"
	"net/http"
	"sync"

	"google.golang.org/genproto/googleapis/api/annotations"
	"google.golang.org/genproto/googleapis/api/serviceconfig"
	"google.golang.org/grpc"
	"google.golang.org/grpc/stats"
	"google.golang.org/protobuf/proto"
	"google.golang.org/protobuf/reflect/protoreflect"
	"larking.io/larking"

	"verif/internal/mon"
	"verif/internal/vschema"
	"verif/internal/wire"
)

// The payload-identity lane of C18: methods bound through every kind of
// binding - annotated template with variables and body / response_body
// selectors, ServiceConfigOption rule, implicit /pkg.Svc/Method - are called
// over HTTP transcoding, gRPC and gRPC-web with a retaining stats handler.
// After each RPC: RPCTagInfo.FullMethodName and InHeader.FullMethod are the
// method's full name, Begin carries the method's streaming flags, and every
// OutPayload.Payload (InPayload.Payload) is equal to the message the handler
// sent (received) - not a part of it.

type pidSvc struct {
	mu     sync.Mutex
	in     []proto.Message
	out    []proto.Message
	events []stats.RPCStats
	tags   []string
}

func (s *pidSvc) reset() {
	s.mu.Lock()
	s.in, s.out, s.events, s.tags = nil, nil, nil, nil
	s.mu.Unlock()
}

func (s *pidSvc) TagConn(ctx context.Context, _ *stats.ConnTagInfo) context.Context { return ctx }
func (s *pidSvc) HandleConn(context.Context, stats.ConnStats)                       {}
func (s *pidSvc) TagRPC(ctx context.Context, info *stats.RPCTagInfo) context.Context {
	s.mu.Lock()
	s.tags = append(s.tags, info.FullMethodName)
	s.mu.Unlock()
	return ctx
}
func (s *pidSvc) HandleRPC(_ context.Context, e stats.RPCStats) {
	s.mu.Lock()
	s.events = append(s.events, e) // retained as received
	s.mu.Unlock()
}

func pidRsp(md protoreflect.MethodDescriptor, i int) proto.Message {
	out := vschema.NewMsg(md.Output())
	r := out.ProtoReflect()
	fs := md.Output().Fields()
	r.Set(fs.ByName("tag"), protoreflect.ValueOfString(fmt.Sprintf("reply-%d", i)))
	sub := r.Mutable(fs.ByName("sub")).Message()
	sub.Set(sub.Descriptor().Fields().ByName("a"), protoreflect.ValueOfString(fmt.Sprintf("sub-of-reply-%d", i)))
	sub.Set(sub.Descriptor().Fields().ByName("l"), protoreflect.ValueOfInt64(int64(7+i)))
	return out
}

func (s *pidSvc) unary(ctx context.Context, md protoreflect.MethodDescriptor, dec func(interface{}) error, icpt grpc.UnaryServerInterceptor) (interface{}, error) {
	in := vschema.NewMsg(md.Input())
	if err := dec(in); err != nil {
		return nil, err
	}
	out := pidRsp(md, 0)
	s.mu.Lock()
	s.in = append(s.in, in)
	s.out = append(s.out, out)
	s.mu.Unlock()
	return out, nil
}

func (s *pidSvc) stream(md protoreflect.MethodDescriptor, ss grpc.ServerStream) error {
	in := vschema.NewMsg(md.Input())
	if err := ss.RecvMsg(in); err != nil {
		return err
	}
	s.mu.Lock()
	s.in = append(s.in, in)
	s.mu.Unlock()
	for i := 0; i < 3; i++ {
		out := pidRsp(md, i)
		if err := ss.SendMsg(out); err != nil {
			return err
		}
		s.mu.Lock()
		s.out = append(s.out, out)
		s.mu.Unlock()
	}
	return nil
}

func runPayloadIdentity(r *mon.Run) {
	post := func(p, body, resp string) *annotations.HttpRule {
		return &annotations.HttpRule{Pattern: &annotations.HttpRule_Post{Post: p}, Body: body, ResponseBody: resp}
	}
	f := &vschema.File{Path: "vf/c18q.proto", Pkg: "vf.c18q", Services: []vschema.Service{{Name: "Qq", Methods: []vschema.Method{
		{Name: "GetSub", In: "vf.Req", Out: "vf.Rsp", Rule: post("/q/sub/{a}", "sub", "sub")},
		{Name: "GetAll", In: "vf.Req", Out: "vf.Rsp", Rule: post("/q/all/{a}/{n}", "*", "sub")},
		{Name: "CfgSub", In: "vf.Req", Out: "vf.Rsp"},
		{Name: "WatchSub", In: "vf.Req", Out: "vf.Rsp", SS: true, Rule: &annotations.HttpRule{Pattern: &annotations.HttpRule_Get{Get: "/q/watch/{a}/{sub.a}"}, ResponseBody: "sub"}},
	}}}}
	fd, err := f.Build()
	if err != nil {
		r.Inconclusive("payload-identity lane: " + err.Error())
		return
	}
	reg, err := vschema.Registry(fd)
	if err != nil {
		r.Inconclusive("payload-identity lane: " + err.Error())
		return
	}
	s := &pidSvc{}
	cfg := &serviceconfig.Service{Http: &annotations.Http{Rules: []*annotations.HttpRule{
		{Selector: "vf.c18q.Qq.CfgSub", Pattern: &annotations.HttpRule_Post{Post: "/q/cfg/{a}"}, Body: "sub", ResponseBody: "sub"},
	}}}
	mux, err := larking.NewMux(larking.FilesOption(reg), larking.ServiceConfigOption(cfg), larking.StatsOption(s))
	if err == nil {
		err = larking.VerifRegisterService(mux, serviceDesc(fd.Services().ByName("Qq"), s.unary, s.stream), struct{}{})
	}
	if err != nil {
		r.Inconclusive("payload-identity lane: " + err.Error())
		return
	}
	reqMsg := vschema.NewMsg(vschema.Msg("vf.Req"))
	{
		m := reqMsg.ProtoReflect()
		fs := m.Descriptor().Fields()
		m.Set(fs.ByName("a"), protoreflect.ValueOfString("va"))
		sub := m.Mutable(fs.ByName("sub")).Message()
		sub.Set(sub.Descriptor().Fields().ByName("a"), protoreflect.ValueOfString("sa"))
	}
	framed := wire.Frame(mustMarshal(reqMsg), false)
	type call struct {
		method, binding, proto string
		partialIn              bool // body selector: the request body is a part of the message
		req                    func() *http.Request
	}
	jsonHdr := func() http.Header { return http.Header{"Content-Type": {"application/json"}} }
	var calls []call
	for _, m := range []string{"GetSub", "GetAll", "CfgSub", "WatchSub"} {
		full := "/vf.c18q.Qq/" + m
		calls = append(calls,
			call{m, "grpc", "grpc", false, func() *http.Request { return wire.GRPCRequest(full, nil, bytes.NewReader(framed)) }},
			call{m, "grpc-web", "web", false, func() *http.Request { return wire.WebRequest(full, nil, framed, false, "") }},
			call{m, "implicit", "http", false, func() *http.Request {
				return wire.BodyRequest("POST", full, "", jsonHdr(), []byte(`{"a":"va","sub":{"a":"sa"}}`))
			}},
		)
	}
	calls = append(calls,
		call{"GetSub", "annotated-template+body-field+response_body", "http", true, func() *http.Request {
			return wire.BodyRequest("POST", "/q/sub/hello", "", jsonHdr(), []byte(`{"a":"sa","l":"3"}`))
		}},
		call{"GetAll", "annotated-template+body-star+response_body", "http", false, func() *http.Request {
			return wire.BodyRequest("POST", "/q/all/hello/42", "", jsonHdr(), []byte(`{"sub":{"a":"sa"}}`))
		}},
		call{"CfgSub", "service-config-rule+body-field+response_body", "http", true, func() *http.Request {
			return wire.BodyRequest("POST", "/q/cfg/hello", "", jsonHdr(), []byte(`{"a":"sa"}`))
		}},
		call{"WatchSub", "annotated-template-get+response_body", "http", false, func() *http.Request {
			return wire.BodyRequest("GET", "/q/watch/hello/world", "", nil, nil)
		}},
	)
	for _, c := range calls {
		s.reset()
		resp := wire.Serve(mux, c.req())
		r.Eval(1)
		r.Count("payload_identity_rpcs", 1)
		cse := map[string]any{"part": "payload-identity", "method": c.method, "binding": c.binding}
		if resp.Wedged {
			r.Inconclusive("payload-identity lane: request wedged")
			continue
		}
		if resp.Panic != nil {
			r.Violate(resp.Panic.Key()+":payload-identity", fmt.Sprintf("%s via %s panicked: %s", c.method, c.binding, resp.Panic.Value), cse)
			continue
		}
		s.mu.Lock()
		in, out, events, tags := s.in, s.out, s.events, s.tags
		s.mu.Unlock()
		full := "/vf.c18q.Qq/" + c.method
		if len(in) == 0 {
			r.Inconclusive(fmt.Sprintf("payload-identity lane: %s via %s did not reach the handler (HTTP %d %s)", c.method, c.binding, resp.Code, clip(string(resp.Body))))
			continue
		}
		ok := true
		viol := func(k, w string) {
			ok = false
			r.Violate(fmt.Sprintf("%s:%s:%s", c.proto, k, c.binding), fmt.Sprintf("%s via %s: %s", full, c.binding, w), cse)
		}
		if len(tags) != 1 || tags[0] != full {
			viol("stats-tag-fullmethodname", fmt.Sprintf("RPCTagInfo.FullMethodName = %q", tags))
		}
		wantSS := c.method == "WatchSub"
		nIn, nOut := 0, 0
		for _, e := range events {
			switch e := e.(type) {
			case *stats.InHeader:
				if e.FullMethod != full {
					viol("stats-inheader-fullmethod", fmt.Sprintf("InHeader.FullMethod = %q, want the method's full name", e.FullMethod))
				}
			case *stats.Begin:
				if e.IsClientStream || e.IsServerStream != wantSS {
					viol("stats-begin-stream-flags", fmt.Sprintf("Begin{IsClientStream: %v, IsServerStream: %v}", e.IsClientStream, e.IsServerStream))
				}
			case *stats.InPayload:
				if nIn < len(in) {
					pm, isMsg := e.Payload.(proto.Message)
					if !isMsg || !proto.Equal(pm, in[nIn]) {
						if c.partialIn {
							// the pinned tree reports the body part of the
							// request here: observed, not judged
							r.Count("payload_identity_inpayload_is_body_part", 1)
						} else {
							viol("stats-inpayload-is-not-the-message-received", fmt.Sprintf("InPayload.Payload = %v, the handler received %v", e.Payload, in[nIn]))
						}
					}
				}
				nIn++
			case *stats.OutPayload:
				if nOut < len(out) {
					pm, isMsg := e.Payload.(proto.Message)
					if !isMsg || !proto.Equal(pm, out[nOut]) {
						viol("stats-outpayload-is-not-the-message-sent", fmt.Sprintf("OutPayload.Payload = %v, the handler sent %v", e.Payload, out[nOut]))
					}
				}
				nOut++
			}
		}
		if nIn != len(in) || nOut != len(out) {
			viol("stats-payload-count", fmt.Sprintf("%d InPayload / %d OutPayload events for %d received / %d sent messages", nIn, nOut, len(in), len(out)))
		}
		if ok {
			r.Distinct("payload-identity/" + c.method + "/" + c.binding)
		}
	}
}
