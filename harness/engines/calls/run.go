package calls

import (
	"encoding/json"

	"verif/internal/mon"
)

// RunC15 is the deadlines-and-cancellation check.
func RunC15(r *mon.Run) {
	r.Rule = "(a) grpc-timeout strings (every digit length x unit x {zeros, leading zeros, nines, powers of ten}, the clamping boundaries, every string of length <= 3 over the alphabet \"" + smallAlphabet + "\", PRNG-generated legal and malformed strings) are served in-process on the gRPC and gRPC-web paths; the method handler records ctx.Deadline() and an invocation counter and the deadline is compared with logical bounds computed in big integers. (b) cancellation scenarios over a real larking server: (transport grpc-go / raw h2c gRPC / raw h2c HTTP / HTTP/1 gRPC-web / HTTP/1 HTTP) x (unary, client-, server-, bidi-streaming) x handler state at the moment of the client's cancel (before first Recv, waiting on ctx.Done, between messages then Recv/Send, blocked in Recv, blocked in Send behind a full flow-control window) x cancel mechanism (context cancel, request-body abort = RST_STREAM, TCP close / reset) x optional grpc-timeout. Both parts run on muxes with the on/off masks of (unary interceptor, stream interceptor, stats handler) installed - interceptors are larking's context-decorating NewUnaryContext/NewStreamContext helpers (the handler runs under a derived context) or pass-through ones, the stats handler derives a context in TagRPC: every cancellation cell and enumerated timeout string under all-off, all-on and one further mask in rotation (quick) or all masks (thorough); deadlines are read both at the method handler's entry and inside the user handler behind the interceptor; every handler step, the client's cancel event and net/http's own cancellation of the request context are logged in one ordered log. distinct = timeout (protocol, class, unit, #digits, method, option mask) shapes plus cancellation (transport, shape, state, timeout?, option mask, mechanism) cells whose release was observed after the cancel event"
	r.Floor = r.Pick(400, 900)
	r.Assume("time.Now() readings taken in one process are ordered by the monotonic clock; the deadline bounds t_call+T <= deadline <= t_handler_entry+T need no assumption on machine speed")
	r.Assume("a handler that is not released counts as a violation only when net/http had already cancelled the request context handed to larking (recorded by a pass-through handler in front of the mux) and 15 s passed; otherwise the scenario is inconclusive")
	r.Assume("over HTTP/1 net/http notices a disconnect only after the request body has been consumed (or on a failing read/write); scenarios are restricted to those")
	runTimeouts(r)
	runSlowBodies(r)
	runCancels(r)
}

// Replay re-executes a stored C15 or C18 case.
func Replay(r *mon.Run, raw json.RawMessage) {
	var head struct {
		Part string          `json:"part"`
		Case json.RawMessage `json:"case"`
	}
	if err := json.Unmarshal(raw, &head); err != nil {
		r.Inconclusive("bad replay case: " + err.Error())
		return
	}
	switch head.Part {
	case "timeout":
		var c TimeoutCase
		if err := json.Unmarshal(raw, &c); err != nil {
			r.Inconclusive("bad replay case: " + err.Error())
			return
		}
		replayTimeout(r, &c)
	case "cancel":
		var c CancelCase
		if err := json.Unmarshal(head.Case, &c); err != nil {
			r.Inconclusive("bad replay case: " + err.Error())
			return
		}
		replayCancel(r, &c)
	case "slowbody":
		var c SlowCase
		if err := json.Unmarshal(head.Case, &c); err != nil {
			r.Inconclusive("bad replay case: " + err.Error())
			return
		}
		replaySlow(r, &c)
	case "rpc":
		replayRPC(r, raw)
	default:
		r.Inconclusive("replay: unknown case part " + head.Part)
	}
}
