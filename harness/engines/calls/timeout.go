package calls

import (
	"bytes"
	"context"
	"fmt"
	"math/big"
	"math/rand"
	"net/http"
	"regexp"
	"strings"
	"sync"
	"sync/atomic"
	"time"

	"google.golang.org/grpc"
	"google.golang.org/grpc/codes"
	"google.golang.org/grpc/status"
	"google.golang.org/protobuf/reflect/protoreflect"
	"larking.io/larking"

	"verif/internal/mon"
	"verif/internal/svc"
	"verif/internal/vschema"
	"verif/internal/wire"
)

// TimeoutCase is one replayable grpc-timeout execution.
type TimeoutCase struct {
	Part   string `json:"part"`             // "timeout"
	Proto  string `json:"proto"`            // grpc | web
	Method string `json:"method,omitempty"` // Echo (unary, default) | Bidi (streaming)
	Value  string `json:"value"`            // header value, verbatim
	Class  string `json:"class"`
	Opts   Opts   `json:"opts"`             // mux options installed (see opts15.go)
	Target string `json:"target,omitempty"` // "" (local service) | proxy (RegisterConn to a real grpc.Server)
}

var legalTimeout = regexp.MustCompile(`^[0-9]{1,8}[HMSmun]$`)

var unitNS = map[byte]int64{'H': int64(time.Hour), 'M': int64(time.Minute), 'S': int64(time.Second), 'm': int64(time.Millisecond), 'u': int64(time.Microsecond), 'n': 1}

const hundredYears = time.Duration(100 * 365.25 * 24 * float64(time.Hour))

// classifyTimeout gives the structural class of a header value. "legal" and
// "absent" are not malformed.
func classifyTimeout(s string) string {
	if s == "" {
		return "absent"
	}
	if legalTimeout.MatchString(s) {
		return "legal"
	}
	last := s[len(s)-1]
	if _, ok := unitNS[last]; !ok {
		if last >= '0' && last <= '9' {
			return "no-unit"
		}
		return "unknown-unit"
	}
	d := s[:len(s)-1]
	if d == "" {
		return "empty-digits"
	}
	allDigits := func(x string) bool {
		if x == "" {
			return false
		}
		for i := 0; i < len(x); i++ {
			if x[i] < '0' || x[i] > '9' {
				return false
			}
		}
		return true
	}
	switch {
	case allDigits(d):
		return "too-many-digits"
	case (d[0] == '+' || d[0] == '-') && allDigits(d[1:]):
		return "sign-prefix"
	case strings.ContainsAny(d, " \t"):
		return "space"
	}
	for i := 0; i < len(d); i++ {
		if d[i] >= 0x80 {
			return "non-ascii"
		}
	}
	return "non-digit"
}

// timeoutOf computes the exact duration in big integers; far reports T >=
// 100 years (or not representable as a time.Duration).
func timeoutOf(s string) (T time.Duration, far bool) {
	n, _ := new(big.Int).SetString(s[:len(s)-1], 10)
	t := new(big.Int).Mul(n, big.NewInt(unitNS[s[len(s)-1]]))
	if t.Cmp(big.NewInt(int64(hundredYears))) >= 0 {
		return 0, true
	}
	return time.Duration(t.Int64()), false
}

// dlObs is one observation of a context's deadline: at the entry of the
// method handler ("glue": what larking hands to generated code) and inside the
// user handler behind the interceptor chain ("handler").
type dlObs struct {
	where    string
	has      bool
	deadline time.Time
	tEntry   time.Time
	ctxErr   error
}

type dlRec struct {
	entered int32
	mu      sync.Mutex
	obs     []dlObs
	// real-server lanes: when larking's ServeHTTP was entered, and on which goroutine
	serveEnter time.Time
	reqGid     int64
}

type dlSvc struct {
	std   *svc.Std
	be    *backend // lazily started back-end of the proxied target
	muMux sync.Mutex
	muxes map[string]*larking.Mux
	recs  sync.Map // id -> *dlRec
	seq   int64
}

func newDLSvc() (*dlSvc, error) {
	std, err := svc.BuildStd("vf.c15t", "vf/c15t.proto", "/t")
	if err != nil {
		return nil, err
	}
	s := &dlSvc{std: std, muxes: map[string]*larking.Mux{}}
	_, err = s.muxFor("", Opts{})
	return s, err
}

func (s *dlSvc) muxFor(target string, o Opts) (*larking.Mux, error) {
	s.muMux.Lock()
	defer s.muMux.Unlock()
	k := target + "|" + o.key()
	if m := s.muxes[k]; m != nil {
		return m, nil
	}
	var m *larking.Mux
	var err error
	if target == "proxy" {
		if s.be == nil {
			if s.be, err = startBackend(s.std, s.beUnary, s.beStream); err != nil {
				return nil, err
			}
		}
		m, err = s.be.newProxyMux(c15MuxOptions(o)...)
	} else {
		m, err = newMux(s.std, s.unary, s.stream, c15MuxOptions(o)...)
	}
	if err != nil {
		return nil, err
	}
	s.muxes[k] = m
	return m, nil
}

func (s *dlSvc) Close() {
	s.muMux.Lock()
	defer s.muMux.Unlock()
	if s.be != nil {
		s.be.Close()
	}
}

// back-end handlers of the proxied target
func (s *dlSvc) beUnary(ctx context.Context, md protoreflect.MethodDescriptor, dec func(interface{}) error, _ grpc.UnaryServerInterceptor) (interface{}, error) {
	s.observe(ctx, "backend", true)
	in := newChunk()
	if err := dec(in); err != nil {
		return nil, err
	}
	return in, nil
}

func (s *dlSvc) beStream(md protoreflect.MethodDescriptor, ss grpc.ServerStream) error {
	s.observe(ss.Context(), "backend", true)
	return status.Error(codes.Unimplemented, "not used")
}

func (s *dlSvc) observe(ctx context.Context, where string, first bool) {
	now := time.Now()
	v, ok := s.recs.Load(scnID(ctx))
	if !ok {
		return
	}
	rec := v.(*dlRec)
	if first {
		atomic.AddInt32(&rec.entered, 1)
	}
	o := dlObs{where: where, tEntry: now, ctxErr: ctx.Err()}
	o.deadline, o.has = ctx.Deadline()
	rec.mu.Lock()
	rec.obs = append(rec.obs, o)
	rec.mu.Unlock()
}

func (s *dlSvc) unary(ctx context.Context, md protoreflect.MethodDescriptor, dec func(interface{}) error, icpt grpc.UnaryServerInterceptor) (interface{}, error) {
	s.observe(ctx, "glue", true)
	in := newChunk()
	if err := dec(in); err != nil {
		return nil, err
	}
	h := func(ctx context.Context, req interface{}) (interface{}, error) {
		s.observe(ctx, "handler", false)
		return req, nil
	}
	if icpt == nil {
		return h(ctx, in)
	}
	return icpt(ctx, in, &grpc.UnaryServerInfo{FullMethod: vschema.FullMethod(md)}, h)
}

func (s *dlSvc) stream(md protoreflect.MethodDescriptor, ss grpc.ServerStream) error {
	s.observe(ss.Context(), "handler", true)
	return status.Error(codes.Unimplemented, "not used")
}

type viol struct {
	key, what string
}

// execTimeout serves one request and applies the oracle.
func (s *dlSvc) execTimeout(c *TimeoutCase) (vs []viol, shape string, notes []string) {
	id := fmt.Sprintf("t%d", atomic.AddInt64(&s.seq, 1))
	rec := &dlRec{}
	s.recs.Store(id, rec)
	defer s.recs.Delete(id)

	hdr := http.Header{"X-Scn": {id}}
	if c.Value != "" || c.Class != "absent" {
		hdr["Grpc-Timeout"] = []string{c.Value}
	}
	var req *http.Request
	frame := wire.Frame(nil, false)
	method := "Echo"
	if c.Method == "Bidi" {
		method, frame = "Bidi", nil
	}
	mux, err := s.muxFor(c.Target, c.Opts)
	if err != nil {
		notes = append(notes, "mux-setup-failed")
		return vs, "", notes
	}
	if c.Proto == "web" || c.Proto == "webtext" {
		req = wire.WebRequest(s.std.Full(method), hdr, frame, c.Proto == "webtext", "")
	} else {
		req = wire.GRPCRequest(s.std.Full(method), hdr, bytes.NewReader(frame))
	}
	t0 := time.Now()
	resp := wire.Serve(mux, req)
	tRet := time.Now()

	pfx := c.Proto
	if c.Target != "" {
		pfx = c.Target + "/" + c.Proto
	}
	add := func(k, w string) { vs = append(vs, viol{pfx + ":" + k, w}) }
	if resp.Wedged {
		// all input comes from memory: a wedge is reported, with its dump, by
		// C09; here nothing could be observed
		notes = append(notes, "wedged")
		return vs, "wedged", notes
	}
	if resp.Panic != nil {
		vs = append(vs, viol{resp.Panic.Key(), "panic while serving grpc-timeout " + fmt.Sprintf("%q", c.Value) + ": " + resp.Panic.Value})
		return vs, "panic", notes
	}
	entered := int(atomic.LoadInt32(&rec.entered))
	rec.mu.Lock()
	obs := append([]dlObs(nil), rec.obs...)
	rec.mu.Unlock()
	var has bool
	var deadline time.Time
	var ctxErr error
	if len(obs) > 0 {
		has, deadline, ctxErr = obs[0].has, obs[0].deadline, obs[0].ctxErr
	}
	shapeSfx := "/" + method + "/" + c.Opts.key()
	if c.Target != "" {
		shapeSfx += "/" + c.Target
	}

	gcode, _, _, gok := resp.GRPCStatus()
	if (c.Proto == "web" || c.Proto == "webtext") && !gok {
		wr := wire.DecodeWeb(resp.Body, c.Proto == "webtext")
		if v := wr.Trailer["grpc-status"]; len(v) > 0 {
			gok = true
			fmt.Sscanf(v[0], "%d", &gcode)
		}
	}
	cls := classifyTimeout(c.Value)
	switch cls {
	case "absent":
		if entered == 1 && !has {
			notes = append(notes, "absent-no-deadline")
		}
		return vs, c.Proto + "/absent" + shapeSfx, notes
	case "legal":
		unit := c.Value[len(c.Value)-1:]
		T, far := timeoutOf(c.Value)
		sfx := "unit=" + unit
		if far {
			sfx += ":overflow"
		}
		desc := fmt.Sprintf("grpc-timeout %q", c.Value)
		if c.Target == "proxy" && entered == 0 && (far || tRet.Sub(t0) < T) {
			add("legal-timeout:backend-not-invoked:"+sfx, fmt.Sprintf("%s: the back-end handler was not invoked although the call returned %v after it started (HTTP %d)", desc, tRet.Sub(t0), resp.Code))
			return vs, "", notes
		}
		if c.Target == "proxy" && entered == 0 {
			notes = append(notes, "proxy-expired-before-backend")
			return vs, "", notes
		}
		if entered != 1 {
			add("legal-timeout:handler-invocations:"+sfx, fmt.Sprintf("%s: method handler invoked %d times (HTTP %d)", desc, entered, resp.Code))
			return vs, "", notes
		}
		for _, o := range obs {
			if len(vs) > 0 {
				break // the handler's context derives from the glue's: one report
			}
			at := "at-" + o.where
			if !o.has {
				if far {
					notes = append(notes, "far-no-deadline")
				} else {
					add("deadline-missing:"+at, fmt.Sprintf("%s: the context at the %s has no deadline", desc, o.where))
				}
				continue
			}
			if far {
				if o.deadline.Sub(t0) < hundredYears-365*24*time.Hour {
					add("deadline-early:"+at+":"+sfx, fmt.Sprintf("%s (>= 100 years): deadline at the %s only %v after the call", desc, o.where, o.deadline.Sub(t0)))
				}
				continue
			}
			if lo := o.deadline.Sub(t0); lo < T {
				add("deadline-early:"+at+":"+sfx, fmt.Sprintf("%s: deadline at the %s %v after the call started, want >= %v", desc, o.where, lo, T))
			}
			slack := time.Duration(0)
			if o.where == "backend" {
				// grpc-go sends the remaining time rounded up to the unit in
				// which it fits 8 digits: less than T/100000 (+1 us)
				slack = T/50000 + time.Microsecond
			}
			if hi := o.deadline.Sub(o.tEntry); hi > T+slack {
				add("deadline-late:"+at+":"+sfx, fmt.Sprintf("%s: deadline %v after the %s was entered, want <= %v", desc, hi, o.where, T))
			}
		}
		if far {
			return vs, c.Proto + "/legal/" + sfx + shapeSfx, notes
		}
		// D28 second half (observation only): response of a call whose
		// deadline had already expired.
		if ctxErr != nil || tRet.Sub(t0) >= T {
			if !gok {
				notes = append(notes, "expired-no-grpc-status")
			} else {
				notes = append(notes, "expired-with-grpc-status")
			}
		}
		return vs, fmt.Sprintf("%s/legal/%s/digits=%d", c.Proto, sfx, len(c.Value)-1) + shapeSfx, notes
	default:
		desc := fmt.Sprintf("malformed grpc-timeout %q (%s)", c.Value, cls)
		if entered != 0 {
			st := "no deadline"
			if has {
				st = fmt.Sprintf("deadline %v from the call", deadline.Sub(t0))
			}
			add("malformed-timeout-accepted:"+cls, fmt.Sprintf("%s: handler invoked (%s), HTTP %d grpc-status present=%v", desc, st, resp.Code, gok))
			if !gok {
				notes = append(notes, "accepted-malformed-no-grpc-status")
			}
			return vs, "", notes
		}
		if resp.Code < 400 && !(gok && gcode != 0) {
			add("malformed-timeout-not-refused:"+cls, fmt.Sprintf("%s: handler not invoked but the response is HTTP %d without an error status", desc, resp.Code))
		}
		return vs, c.Proto + "/malformed/" + cls + shapeSfx, notes
	}
}

var timeoutUnits = "HMSmun"

func quickLegal() []string {
	var out []string
	for l := 1; l <= 8; l++ {
		for i := 0; i < len(timeoutUnits); i++ {
			u := string(timeoutUnits[i])
			out = append(out,
				strings.Repeat("0", l)+u,
				strings.Repeat("0", l-1)+"1"+u,
				strings.Repeat("9", l)+u,
				"1"+strings.Repeat("0", l-1)+u,
			)
			if l >= 3 {
				out = append(out, "0"+strings.Repeat("7", l-2)+"0"+u)
			}
		}
	}
	// around the clamping bound of hours (2562047 H = MaxInt64 ns) and around 100 years
	for _, v := range []string{"2562047H", "2562048H", "02562047H", "2562046H", "876600H", "876599H", "876601H", "52596000M", "52595999M", "99999999M", "99999999S"} {
		out = append(out, v)
	}
	return out
}

func randLegal(rng *rand.Rand) string {
	l := 1 + rng.Intn(8)
	var sb strings.Builder
	mode := rng.Intn(4)
	for i := 0; i < l; i++ {
		switch {
		case mode == 0 && i < l-1 && rng.Intn(2) == 0:
			sb.WriteByte('0')
		case mode == 1:
			sb.WriteByte('9')
		default:
			sb.WriteByte(byte('0' + rng.Intn(10)))
		}
	}
	sb.WriteByte(timeoutUnits[rng.Intn(len(timeoutUnits))])
	return sb.String()
}

func randMalformed(rng *rand.Rand) string {
	digits := func(n int) string {
		var sb strings.Builder
		for i := 0; i < n; i++ {
			sb.WriteByte(byte('0' + rng.Intn(10)))
		}
		return sb.String()
	}
	u := string(timeoutUnits[rng.Intn(len(timeoutUnits))])
	n := 1 + rng.Intn(7)
	switch rng.Intn(14) {
	case 0:
		return u // empty digits
	case 1:
		return digits(9+rng.Intn(12)) + u // too many digits
	case 2:
		return digits(n) + string("shdHsxX.:-_ \x00µ"[rng.Intn(14)]) // unknown unit (may pick a multi-byte rune's first byte)
	case 3:
		return "+" + digits(n) + u
	case 4:
		return "-" + digits(n) + u
	case 5:
		return " " + digits(n) + u
	case 6:
		return digits(n) + " " + u
	case 7:
		return digits(n) + u + " "
	case 8:
		d := []byte(digits(n + 1))
		d[rng.Intn(len(d))] = "abcxyzeE_.,"[rng.Intn(11)]
		return string(d) + u
	case 9:
		nd := []string{"١", "１", "२", "๓", "𝟏"}
		return digits(rng.Intn(3)) + nd[rng.Intn(len(nd))] + u
	case 10:
		return digits(n) // no unit
	case 11:
		return "0x" + digits(1+rng.Intn(5)) + u
	case 12:
		return digits(n) + u + u
	default:
		return digits(1+rng.Intn(4)) + "." + digits(1+rng.Intn(3)) + u
	}
}

// smallAlphabet strings: every string of length <= 3 over 12 characters.
const smallAlphabet = "019SmnH+- xs"

func allSmall() []string {
	var out []string
	a := smallAlphabet
	for i := 0; i < len(a); i++ {
		out = append(out, a[i:i+1])
		for j := 0; j < len(a); j++ {
			out = append(out, string([]byte{a[i], a[j]}))
			for k := 0; k < len(a); k++ {
				out = append(out, string([]byte{a[i], a[j], a[k]}))
			}
		}
	}
	return out
}

// timeoutGroup serves one header value under several option masks (ordered
// so that sub-masks come first) and reports a violation only for masks none of
// whose already failing sub-masks explain it.
func (s *dlSvc) timeoutGroup(r *mon.Run, base TimeoutCase, masks []Opts, sample bool) {
	type failed struct {
		o   Opts
		key string
	}
	var fails []failed
	for _, o := range masks {
		c := base
		c.Opts = o
		vs, shape, notes := s.execTimeout(&c)
		r.Eval(1)
		r.Count("timeout_strings", 1)
		r.Count("timeout_class_"+c.Class, 1)
		if !o.none() {
			r.Count("timeout_requests_with_mux_options", 1)
		}
		for _, n := range notes {
			r.Count("timeout_note_"+n, 1)
		}
		if shape != "" {
			r.Distinct("timeout:" + shape)
		}
		for _, v := range vs {
			explained := false
			for _, f := range fails {
				if f.key == v.key && f.o != o && f.o.coveredBy(o) {
					explained = true
				}
			}
			fails = append(fails, failed{o, v.key})
			if explained {
				continue
			}
			// attribute to the smallest sub-masks that fail the same way
			// (in-process re-executions of the same string)
			blame := []Opts{o}
			if subs := subMasks(o); len(subs) > 0 {
				var minimal []Opts
				for _, sm := range subs {
					covered := false
					for _, m := range minimal {
						if m.coveredBy(sm) {
							covered = true
						}
					}
					if covered {
						continue
					}
					sc := base
					sc.Opts = sm
					svs, _, _ := s.execTimeout(&sc)
					r.Eval(1)
					for _, sv := range svs {
						if sv.key == v.key {
							minimal = append(minimal, sm)
							break
						}
					}
				}
				if len(minimal) > 0 {
					blame = minimal
				}
			}
			for _, b := range blame {
				key := v.key
				if !b.none() {
					key += ":with=" + b.key()
				}
				cc := c
				cc.Opts = b
				r.Violate(key, v.what+" [mux options: "+b.key()+", method "+c.Method+"]", &cc)
			}
		}
		if sample {
			cc := c
			r.Sample(&cc)
		}
	}
}

func runTimeouts(r *mon.Run) {
	s, err := newDLSvc()
	if err != nil {
		r.Inconclusive("timeout service setup: " + err.Error())
		return
	}
	defer s.Close()
	rng := r.Rand("c15-timeouts")
	masks := c15Masks()
	// masksFor: quick = all-off, all-on and one of the remaining masks in
	// rotation; thorough (and the small enumerated sets) = all of them.
	rot := 0
	masksFor := func(all bool) []Opts {
		if all {
			return masks
		}
		rot++
		others := []int{1, 2, 4, 3, 5, 6, 8}
		k := others[rot%len(others)]
		if k == 8 {
			return []Opts{masks[0], masks[7], masks[8]}
		}
		return []Opts{masks[0], masks[k], masks[7]}
	}
	type job struct {
		base  TimeoutCase
		masks []Opts
	}
	var jobs []job
	addc := func(proto, method, v string, ms []Opts) {
		jobs = append(jobs, job{TimeoutCase{Part: "timeout", Proto: proto, Method: method, Value: v, Class: classifyTimeout(v)}, ms})
	}
	for i, v := range quickLegal() {
		for _, p := range []string{"grpc", "web"} {
			addc(p, "Echo", v, masksFor(r.Thorough()))
			if r.Thorough() || i%2 == 0 {
				addc(p, "Bidi", v, masksFor(r.Thorough()))
			}
		}
	}
	for i, v := range allSmall() {
		m := []string{"Echo", "Bidi"}[i%2]
		if r.Thorough() {
			addc("grpc", m, v, masks)
			addc("web", m, v, []Opts{masks[0], masks[7]})
		} else {
			addc("grpc", m, v, []Opts{masks[0], masks[(i%8)+1]})
		}
	}
	// fixed table of malformed shapes, on every transport, method kind and
	// target: decimal, exponent and hex-float forms, signs, separators,
	// over-long digit strings (also zero-padded ones whose value is small)
	for i, v := range fixedMalformed() {
		if c := classifyTimeout(v); c == "legal" || c == "absent" {
			panic("fixedMalformed: " + v + " is " + c)
		}
		for _, p := range []string{"grpc", "web", "webtext"} {
			m := []string{"Echo", "Bidi"}[i%2]
			addc(p, m, v, []Opts{masks[0], masks[7]})
			jobs = append(jobs, job{TimeoutCase{Part: "timeout", Target: "proxy", Proto: p, Method: m, Value: v, Class: classifyTimeout(v)}, []Opts{masks[0]}})
		}
	}
	nMal := r.Pick(2000, 40000)
	for i := 0; i < nMal; i++ {
		v := randMalformed(rng)
		if c := classifyTimeout(v); c == "legal" || c == "absent" {
			continue
		}
		p := "grpc"
		if i%5 == 4 {
			p = "web"
		}
		addc(p, []string{"Echo", "Bidi"}[i%2], v, []Opts{masks[i%len(masks)]})
	}
	nLegal := r.Pick(1500, 2000000)
	for i := 0; i < nLegal; i++ {
		p := "grpc"
		if i%8 == 7 {
			p = "web"
		}
		addc(p, []string{"Echo", "Echo", "Bidi"}[i%3], randLegal(rng), []Opts{masks[i%len(masks)]})
	}
	for _, p := range []string{"grpc", "web"} {
		jobs = append(jobs, job{TimeoutCase{Part: "timeout", Proto: p, Method: "Echo", Value: "", Class: "absent"}, masks})
	}
	// the same through RegisterConn: the deadline must reach the back-end
	// handler (grpc-go carries the remaining time)
	prng := r.Rand("c15-timeouts-proxy")
	addp := func(proto, method, v string, ms []Opts) {
		jobs = append(jobs, job{TimeoutCase{Part: "timeout", Target: "proxy", Proto: proto, Method: method, Value: v, Class: classifyTimeout(v)}, ms})
	}
	pm := []Opts{masks[0], masks[7]}
	if r.Thorough() {
		pm = masks
	}
	for i, v := range quickLegal() {
		addp([]string{"grpc", "web"}[i%2], []string{"Echo", "Bidi"}[(i/2)%2], v, pm)
	}
	for i, n := 0, r.Pick(300, 20000); i < n; i++ {
		addp([]string{"grpc", "grpc", "web"}[i%3], []string{"Echo", "Bidi"}[i%2], randLegal(prng), []Opts{masks[i%len(masks)]})
	}
	for i, n := 0, r.Pick(200, 4000); i < n; i++ {
		v := randMalformed(prng)
		if c := classifyTimeout(v); c == "legal" || c == "absent" {
			continue
		}
		addp([]string{"grpc", "web"}[i%2], []string{"Echo", "Bidi"}[(i/2)%2], v, []Opts{masks[i%len(masks)]})
	}

	var wg sync.WaitGroup
	workers := 8
	var next int64 = -1
	for w := 0; w < workers; w++ {
		wg.Add(1)
		go func() {
			defer wg.Done()
			for {
				i := int(atomic.AddInt64(&next, 1))
				if i >= len(jobs) {
					return
				}
				s.timeoutGroup(r, jobs[i].base, jobs[i].masks, i%(len(jobs)/4+1) == 0)
			}
		}()
	}
	wg.Wait()
}

func replayTimeout(r *mon.Run, c *TimeoutCase) {
	s, err := newDLSvc()
	if err != nil {
		r.Inconclusive("timeout service setup: " + err.Error())
		return
	}
	defer s.Close()
	c.Class = classifyTimeout(c.Value)
	if c.Method == "" {
		c.Method = "Echo"
	}
	s.timeoutGroup(r, *c, []Opts{c.Opts}, false)
	r.Distinct("timeout:replay")
}

// subMasks lists the proper sub-masks of o (fewer options on, same modes),
// smallest first, starting with the empty mask.
func subMasks(o Opts) []Opts {
	on := o.onOff()
	n := 0
	for _, b := range on {
		if b {
			n++
		}
	}
	if n == 0 {
		return nil
	}
	var out []Opts
	for size := 0; size < n; size++ {
		for bits := 0; bits < 8; bits++ {
			m := Opts{}
			cnt, ok := 0, true
			for i := 0; i < 3; i++ {
				if bits&(1<<i) == 0 {
					continue
				}
				if !on[i] {
					ok = false
					break
				}
				cnt++
				switch i {
				case 0:
					m.Unary = o.Unary
				case 1:
					m.Stream = o.Stream
				case 2:
					m.Stats = true
				}
			}
			if ok && cnt == size {
				out = append(out, m)
			}
		}
	}
	return out
}

func fixedMalformed() []string {
	out := []string{
		"1.5S", "0.5H", "2.M", ".5S", "1.0S", "1.S", "00.5m", "1,5S", "1.5.5S",
		"+1.5S", "-1.5S", "+1S", "-1S", "+0n", "-0n", "++1S", "+-1S", "+S", "-S",
		"1e3S", "1E3m", "1.5e1S", "1e-3S", "1e+3S", "0x10S", "0X1fm", "0x1.8p1S", "0x1p4S", "1p4S", "0b101S", "0o17S", "017_0S", "1_000S",
		"Inf", "InfS", "infS", "NaNS", "nanm", "+InfS",
		" 1S", "1S ", "1 S", "1\tS", "1S\n", "\x001S",
		"1s", "1h", "1U", "1N", "1ms", "1us", "1ns", "1SS", "1Sm", "S1", "1", "12345678", "S", "H", "", "1µ",
		"١S", "１２S", "1２S",
	}
	// over-long digit strings, also zero-padded ones with a small value
	for _, n := range []int{9, 10, 11, 19, 20, 29, 64, 201} {
		for _, u := range []string{"S", "m", "n", "H"} {
			out = append(out, strings.Repeat("0", n-2)+"20"+u, "0"+strings.Repeat("9", n-1)+u, strings.Repeat("0", n)+u, "1"+strings.Repeat("0", n-1)+u)
		}
	}
	var res []string
	for _, v := range out {
		if v != "" {
			res = append(res, v)
		}
	}
	return res
}
