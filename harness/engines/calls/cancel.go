package calls

import (
	"bytes"
	"context"
	"encoding/base64"
	"errors"
	"fmt"
	"io"
	"math/rand"
	"net"
	"net/http"
	"os"
	"sort"
	"strings"
	"sync"
	"sync/atomic"
	"time"

	"golang.org/x/net/http2"
	"golang.org/x/net/http2/hpack"
	"google.golang.org/grpc"
	"google.golang.org/grpc/codes"
	"google.golang.org/grpc/metadata"
	"google.golang.org/grpc/status"
	"google.golang.org/protobuf/encoding/protojson"
	"google.golang.org/protobuf/proto"
	"google.golang.org/protobuf/reflect/protoreflect"
	"larking.io/larking"

	"verif/internal/mon"
	"verif/internal/svc"
	"verif/internal/vschema"
	"verif/internal/wire"
)

// CancelCase is one replayable cancellation scenario.
type CancelCase struct {
	Part      string `json:"part"`      // "cancel"
	Transport string `json:"transport"` // grpcgo | h2c-grpc | h2c-http | h1-web | h1-http
	Shape     string `json:"shape"`     // unary | cs | ss | bidi
	State     string `json:"state"`     // pre-recv | ctx-wait | between-recv | between-send | in-recv | in-send
	K         int    `json:"k"`         // exchanges completed before the state is entered
	MsgSize   int    `json:"msg_size"`
	BigSize   int    `json:"big_size"` // in-send: size of the messages that fill the flow-control window
	MaxBig    int    `json:"max_big"`
	Timeout   bool   `json:"timeout"` // request carries grpc-timeout: 3600S
	How       string `json:"how"`     // ctx | pipe | tcp | tcp-rst
	DelayUS   int    `json:"delay_us"`
	Get       bool   `json:"get,omitempty"` // h*-http: body-less GET binding
	Opts      Opts   `json:"opts"`          // mux options installed on the server (see opts15.go)
	// Target "proxy": the method is reached through RegisterConn; the scripted
	// handler runs in a real grpc.Server behind larking's forwarder.
	Target string `json:"target,omitempty"`
	// HalfClose: the client half-closes after its K messages and the handler
	// reads up to that end of stream before entering the state.
	HalfClose bool `json:"half_close,omitempty"`
	// Raw HTTP/1.1 clients: framing of the request body - "" Content-Length,
	// or Transfer-Encoding: chunked with the terminating last-chunk sent
	// together with the messages / a moment later / never before the
	// disconnect. Text: application/grpc-web-text.
	Framing string `json:"framing,omitempty"` // "" | chunked-together | chunked-later | chunked-never
	Text    bool   `json:"text,omitempty"`
	// Gzip: the request messages are gzip-compressed (Content-Encoding for
	// HTTP transcoding, grpc-encoding + compressed frames for gRPC-web).
	Gzip bool `json:"gzip,omitempty"`
	// State "burst-recv" (cs, bidi): the client sends Burst complete messages
	// the handler has not read yet, then cancels; the handler waits for
	// ctx.Done() and only then calls Recv repeatedly. How "deadline": instead
	// of a cancel the call's own grpc-timeout (300m) expires.
	Burst int `json:"burst,omitempty"`
	// Raw HTTP/1 clients that announce they will not re-use the connection:
	// "close" (Connection: close header) or "http10" (HTTP/1.0 request line).
	NoReuse string `json:"no_reuse,omitempty"`
	// in-recv: where the request stream is cut when the client goes away -
	// "" / "prefix" inside the next message's length prefix, "boundary"
	// exactly between two messages, "message" inside the next message's data.
	// How "rst:<code>" (transport h2raw-grpc: raw http2.Framer client) resets
	// the stream with that HTTP/2 error code, "conn-close" drops the
	// connection.
	Cut string `json:"cut,omitempty"`
}

func cutLen(cut string, m []byte) int {
	switch cut {
	case "boundary":
		return 0
	case "message":
		return min(len(m)-1, 7)
	}
	return min(3, len(m)-1)
}

func (c *CancelCase) class() string {
	t := ""
	if c.Timeout {
		t = "+timeout"
	}
	w := ""
	if !c.Opts.none() {
		w = ":with=" + c.Opts.key()
	}
	if c.HalfClose {
		t = "+half-closed" + t
	}
	if c.Framing != "" {
		t = "+" + c.Framing + t
	}
	if c.Text {
		t = "+text" + t
	}
	if c.Gzip {
		t = "+gzip" + t
	}
	if c.How == "deadline" {
		t = "+deadline-expires" + t
	}
	if c.NoReuse != "" {
		t = "+no-reuse-" + c.NoReuse + t
	}
	if c.Cut != "" {
		t = "+cut-" + c.Cut + t
	}
	if strings.HasPrefix(c.How, "rst:") || c.How == "conn-close" {
		t = "+" + c.How + t
	}
	p := ""
	if c.Target != "" {
		p = c.Target + ":"
	}
	return fmt.Sprintf("%s%s/%s:%s%s%s", p, c.Transport, c.Shape, c.State, t, w)
}

const (
	releaseWatchdog = 15 * time.Second
	setupWatchdog   = 15 * time.Second
)

type cscn struct {
	id      string
	spec    *CancelCase
	log     *evlog
	gid     int64 // goroutine of the scripted handler
	reqGid  int64 // goroutine serving the request inside larking
	proceed chan struct{}
	abort   chan struct{}
}

type cancelSvc struct {
	std   *svc.Std
	muSrv sync.Mutex
	srvs  map[string]*wire.Server // one real server per (target, option mask)
	be    *backend                // lazily started back-end of the proxied target
	scns  sync.Map
	seq   int64
}

func newCancelSvc() (*cancelSvc, error) {
	std, err := svc.BuildStd("vf.c15c", "vf/c15c.proto", "/c")
	if err != nil {
		return nil, err
	}
	s := &cancelSvc{std: std, srvs: map[string]*wire.Server{}}
	_, err = s.serverFor("", Opts{})
	return s, err
}

// serverFor returns the real server whose mux has the given options. The mux
// is mounted at "/" behind a boundary handler that only records when net/http
// cancels the request context (what larking is told).
func (s *cancelSvc) serverFor(target string, o Opts) (*wire.Server, error) {
	s.muSrv.Lock()
	defer s.muSrv.Unlock()
	k := target + "|" + o.key()
	if srv := s.srvs[k]; srv != nil {
		return srv, nil
	}
	var mux *larking.Mux
	var err error
	if target == "proxy" {
		if s.be == nil {
			if s.be, err = startBackend(s.std, s.unary, s.stream); err != nil {
				return nil, err
			}
		}
		mux, err = s.be.newProxyMux(c15MuxOptions(o)...)
	} else {
		mux, err = newMux(s.std, s.unary, s.stream, c15MuxOptions(o)...)
	}
	if err != nil {
		return nil, err
	}
	srv, err := wire.StartLarking(mux, nil, larking.MuxHandleOption("/__unused"), larking.HTTPHandlerOption("/", s.boundary(mux)), larking.HTTPHandlerOption("/__ref/", http.HandlerFunc(s.refHandler)))
	if err != nil {
		return nil, err
	}
	s.srvs[k] = srv
	return srv, nil
}

func (s *cancelSvc) Close() {
	s.muSrv.Lock()
	defer s.muSrv.Unlock()
	for _, srv := range s.srvs {
		srv.Close()
	}
	if s.be != nil {
		s.be.Close()
	}
}

func (s *cancelSvc) errLogs() string {
	s.muSrv.Lock()
	defer s.muSrv.Unlock()
	var sb strings.Builder
	for _, srv := range s.srvs {
		sb.WriteString(srv.ErrLog())
	}
	return sb.String()
}

func (s *cancelSvc) boundary(mux *larking.Mux) http.Handler {
	return http.HandlerFunc(func(w http.ResponseWriter, r *http.Request) {
		var sc *cscn
		if v, ok := s.scns.Load(r.Header.Get("X-Scn")); ok {
			sc = v.(*cscn)
			atomic.StoreInt64(&sc.reqGid, goid())
			ctx := r.Context()
			ret := make(chan struct{})
			defer close(ret)
			go func() {
				select {
				case <-ctx.Done():
					sc.log.log("req-ctx-done", ctx.Err(), 0)
				case <-ret:
				}
			}()
			sc.log.log("serve-enter", nil, 0)
		}
		mux.ServeHTTP(w, r)
		if sc != nil {
			sc.log.log("serve-return", nil, 0)
		}
	})
}

func (s *cancelSvc) lookup(ctx context.Context) *cscn {
	if v, ok := s.scns.Load(scnID(ctx)); ok {
		return v.(*cscn)
	}
	return nil
}

func (sc *cscn) awaitCtx(ctx context.Context) {
	select {
	case <-ctx.Done():
		sc.log.log("ctx-done", ctx.Err(), 0)
	case <-sc.abort:
		sc.log.log("abandoned", nil, 0)
	}
}

var errScenarioEnd = status.Error(codes.Aborted, "scenario end")

func (s *cancelSvc) unary(ctx context.Context, md protoreflect.MethodDescriptor, dec func(interface{}) error, icpt grpc.UnaryServerInterceptor) (interface{}, error) {
	sc := s.lookup(ctx)
	if sc == nil {
		return nil, status.Error(codes.FailedPrecondition, "unknown scenario")
	}
	atomic.StoreInt64(&sc.gid, goid())
	sc.log.log("entered", nil, 0)
	defer sc.log.log("handler-exit", nil, 0)
	in := newChunk()
	sc.log.log("recv-enter", nil, 0)
	err := dec(in)
	sc.log.log("recv-return", err, 0)
	if err != nil {
		sc.awaitCtx(ctx)
		return nil, errScenarioEnd
	}
	// the user handler runs behind the interceptor chain, under the context
	// the interceptor hands it
	h := func(ctx context.Context, req interface{}) (interface{}, error) {
		sc.log.log("idle", nil, 0)
		sc.awaitCtx(ctx)
		return nil, errScenarioEnd
	}
	if icpt == nil {
		return h(ctx, in)
	}
	return icpt(ctx, in, &grpc.UnaryServerInfo{FullMethod: vschema.FullMethod(md)}, h)
}

func (s *cancelSvc) stream(md protoreflect.MethodDescriptor, ss grpc.ServerStream) error {
	ctx := ss.Context()
	sc := s.lookup(ctx)
	if sc == nil {
		return status.Error(codes.FailedPrecondition, "unknown scenario")
	}
	atomic.StoreInt64(&sc.gid, goid())
	sc.log.log("entered", nil, 0)
	defer sc.log.log("handler-exit", nil, 0)
	c := sc.spec
	recv := func() error {
		sc.log.log("recv-enter", nil, 0)
		err := ss.RecvMsg(vschema.NewMsg(md.Input()))
		sc.log.log("recv-return", err, 0)
		return err
	}
	if c.State == "pre-recv" {
		sc.awaitCtx(ctx)
		recv() // observation only
		return errScenarioEnd
	}
	cs, sst := md.IsStreamingClient(), md.IsStreamingServer()
	if !cs {
		if c.State == "in-recv" {
			sc.log.log("at-state", nil, 0)
			recv()
			sc.awaitCtx(ctx)
			return errScenarioEnd
		}
		if err := ss.RecvMsg(vschema.NewMsg(md.Input())); err != nil {
			sc.log.log("setup-error", err, 0)
			return err
		}
	}
	small := chunkOfSize(c.MsgSize)
	// HTTP/1 is half-duplex: the handler reads everything it is going to read
	// before its first write (and does not write at all when it is to block
	// in a read afterwards).
	// The same order is used when the handler is to read up to the client's
	// half-close first.
	h1 := strings.HasPrefix(c.Transport, "h1")
	seq := h1 || (c.HalfClose && cs)
	for pass := 0; pass < 2; pass++ {
		for i := 0; i < c.K; i++ {
			if cs && (!seq || pass == 0) {
				if err := ss.RecvMsg(vschema.NewMsg(md.Input())); err != nil {
					sc.log.log("setup-error", err, i)
					return err
				}
			}
			if sst && (!seq || pass == 1) && !(h1 && cs && (c.State == "in-recv" || c.State == "between-recv" || c.State == "burst-recv")) {
				if c.Framing == "chunked-never" {
					sc.log.log("setup-send-enter", nil, i)
				}
				if err := ss.SendMsg(small); err != nil {
					sc.log.log("setup-error", err, i)
					return err
				}
				if c.Framing == "chunked-never" {
					sc.log.log("setup-send-ok", nil, i)
				}
			}
		}
		if !seq {
			break
		}
		if pass == 0 && c.HalfClose && cs {
			err := ss.RecvMsg(vschema.NewMsg(md.Input()))
			if err != io.EOF {
				if err == nil {
					err = errors.New("a message arrived instead of the client's end of stream")
				}
				sc.log.log("setup-error", err, c.K)
				return err
			}
			sc.log.log("half-close-seen", nil, 0)
		}
	}
	sc.log.log("at-state", nil, 0)
	switch c.State {
	case "ctx-wait":
		sc.log.log("idle", nil, 0)
	case "between-recv":
		sc.log.log("idle", nil, 0)
		select {
		case <-sc.proceed:
			recv()
		case <-sc.abort:
		}
	case "between-send":
		sc.log.log("idle", nil, 0)
		select {
		case <-sc.proceed:
			for i := 0; i < 200; i++ {
				sc.log.log("send-enter", nil, i)
				err := ss.SendMsg(small)
				sc.log.log("send-return", err, i)
				if err != nil || (ctx.Err() != nil && i >= 3) {
					break
				}
				time.Sleep(2 * time.Millisecond)
			}
		case <-sc.abort:
		}
	case "in-recv":
		recv()
	case "burst-recv":
		// unread complete messages are waiting; the handler looks at its
		// context first and receives only once that is done
		sc.log.log("idle", nil, 0)
		sc.awaitCtx(ctx)
		for i := 0; i < c.Burst+2; i++ {
			if recv() != nil {
				break
			}
		}
		return errScenarioEnd
	case "in-send":
		big := chunkOfSize(c.BigSize)
		blocked := false
		for i := 0; i < c.MaxBig; i++ {
			sc.log.log("send-enter", nil, i)
			err := ss.SendMsg(big)
			if err != nil {
				sc.log.log("send-return", err, i)
				blocked = true
				break
			}
			sc.log.log("send-ok", nil, i)
		}
		if !blocked {
			sc.log.log("send-never-blocked", nil, 0)
		}
	}
	sc.awaitCtx(ctx)
	return errScenarioEnd
}

// ------------------------------------------------------------- clients

type cancelClient struct {
	cancel func()       // the client's cancel / disconnect action
	close  func()       // cleanup after the verdict
	err    func() error // setup error, if any
}

func jsonOfSize(n int) []byte {
	b, err := protojson.Marshal(chunkOfSize(n))
	if err != nil {
		panic(err)
	}
	return b
}

func (s *cancelSvc) methodOf(shape string) string {
	switch shape {
	case "unary":
		return "Echo"
	case "cs":
		return "CS"
	case "ss":
		return "SS"
	case "upload":
		return "Upload" // client stream of google.api.HttpBody chunks (HTTP transcoding)
	}
	return "Bidi"
}

func (s *cancelSvc) httpPath(c *CancelCase) (verb, path string) {
	switch c.Shape {
	case "unary":
		if c.Get {
			return "GET", "/c/echo/x"
		}
		return "POST", "/c/echo"
	case "cs":
		return "POST", "/c/cs"
	case "ss":
		if c.Get {
			return "GET", "/c/ss/x"
		}
		return "POST", "/c/ss"
	case "upload":
		return "POST", "/c/upload/x"
	}
	return "POST", "/c/bidi"
}

// messagesToSend says how many request messages the client sends, whether it
// then half-closes, and whether a partial message follows.
func plan(c *CancelCase) (n int, halfClose, partial bool) {
	switch c.Shape {
	case "unary":
		if c.State == "in-recv" {
			return 0, false, true
		}
		return 1, true, false
	case "ss":
		switch c.State {
		case "in-recv":
			return 0, false, true
		case "pre-recv":
			if c.Target == "proxy" {
				return 1, true, false // larking's forwarder needs the request to call the back-end
			}
			return 0, false, false
		}
		return 1, true, false
	}
	if c.Shape == "upload" {
		return 0, false, true // some bytes of the upload, then silence
	}
	// cs, bidi
	switch c.State {
	case "pre-recv":
		if c.Target == "proxy" {
			return 1, c.HalfClose, false
		}
		return 0, c.HalfClose, false
	case "in-recv":
		return c.K, false, true
	case "burst-recv":
		return c.K + c.Burst, false, false
	}
	return c.K, c.HalfClose, false
}

func (s *cancelSvc) startGRPCGo(sc *cscn, srv *wire.Server) (*cancelClient, error) {
	c := sc.spec
	cc, err := wire.Dial(srv.Addr)
	if err != nil {
		return nil, err
	}
	ctx, cancel := context.WithCancel(context.Background())
	if c.Timeout {
		var c2 context.CancelFunc
		ctx, c2 = context.WithTimeout(ctx, time.Hour)
		inner := cancel
		cancel = func() { inner(); c2() }
	}
	ctx = metadata.AppendToOutgoingContext(ctx, "x-scn", sc.id)
	st, err := cc.NewStream(ctx, &grpc.StreamDesc{ClientStreams: true, ServerStreams: true}, s.std.Full(s.methodOf(c.Shape)))
	if err != nil {
		cancel()
		cc.Close()
		return nil, err
	}
	n, half, _ := plan(c)
	for i := 0; i < n; i++ {
		if err := st.SendMsg(chunkOfSize(c.MsgSize)); err != nil {
			cancel()
			cc.Close()
			return nil, fmt.Errorf("client send %d: %w", i, err)
		}
	}
	if half {
		st.CloseSend()
	}
	return &cancelClient{cancel: cancel, close: func() { cancel(); cc.Close() }}, nil
}

func (s *cancelSvc) startH2C(sc *cscn, srv *wire.Server) (*cancelClient, error) {
	c := sc.spec
	client := wire.H2CClient()
	ctx, cancel := context.WithCancel(context.Background())
	n, half, _ := plan(c)
	var body io.Reader
	var pw *io.PipeWriter
	verb, url := "POST", srv.URL+s.std.Full(s.methodOf(c.Shape))
	isHTTP := c.Transport == "h2c-http"
	if isHTTP {
		var p string
		verb, p = s.httpPath(c)
		url = srv.URL + p
	}
	if verb != "GET" {
		var pr *io.PipeReader
		pr, pw = io.Pipe()
		body = pr
	}
	req, err := http.NewRequestWithContext(ctx, verb, url, body)
	if err != nil {
		cancel()
		return nil, err
	}
	req.Header.Set("X-Scn", sc.id)
	if isHTTP {
		req.Header.Set("Content-Type", "application/json")
		if c.Shape == "upload" {
			req.Header.Set("Content-Type", "application/octet-stream")
		}
	} else {
		req.Header.Set("Content-Type", "application/grpc")
		req.Header.Set("Te", "trailers")
		if c.How == "deadline" {
			req.Header.Set("Grpc-Timeout", "300m")
		} else if c.Timeout {
			req.Header.Set("Grpc-Timeout", "3600S")
		}
	}
	var mu sync.Mutex
	var resp *http.Response
	go func() {
		rs, err := client.Do(req)
		mu.Lock()
		resp = rs
		mu.Unlock()
		_ = err
	}()
	if pw != nil {
		for i := 0; i < n; i++ {
			var b []byte
			if isHTTP {
				b = jsonOfSize(c.MsgSize)
			} else {
				b = wire.Frame(mustMarshal(chunkOfSize(c.MsgSize)), false)
			}
			if _, err := pw.Write(b); err != nil {
				cancel()
				return nil, fmt.Errorf("client write %d: %w", i, err)
			}
		}
		if half {
			pw.Close()
		}
		if c.Shape == "upload" {
			if _, err := pw.Write(bytes.Repeat([]byte("u"), 1000)); err != nil {
				cancel()
				return nil, fmt.Errorf("client write: %w", err)
			}
		}
	}
	cl := &cancelClient{}
	cl.cancel = func() {
		switch {
		case c.How == "deadline":
			time.Sleep(400 * time.Millisecond) // the call's own deadline passes
		case c.How == "pipe" && pw != nil && !half:
			pw.CloseWithError(errors.New("client aborts the request body"))
		case c.How == "resp-close":
			// a client that drops the response (only once it has one)
			mu.Lock()
			rs := resp
			mu.Unlock()
			if rs != nil {
				rs.Body.Close()
				return
			}
			fallthrough
		default:
			cancel()
			if pw != nil && !half {
				// the cancelled client's body writer stops as well (x/net's
				// transport only looks at the context between body reads)
				pw.CloseWithError(context.Canceled)
			}
		}
	}
	cl.close = func() {
		cancel()
		if pw != nil {
			pw.CloseWithError(io.ErrClosedPipe)
		}
		mu.Lock()
		if resp != nil {
			resp.Body.Close()
		}
		mu.Unlock()
		client.CloseIdleConnections()
	}
	return cl, nil
}

// h1Req is a raw HTTP/1.1 request in the pieces the client writes.
type h1Req struct {
	first []byte // request line, headers and the body bytes sent with them
	later []byte // chunked terminator sent a moment later ("chunked-later")
	readN int    // body bytes the handler consumes before it answers (-1: up to the end of the body)
}

// buildH1 renders the scenario's request; ref renders it for the plain
// net/http reference handler instead of larking.
func (s *cancelSvc) buildH1(c *CancelCase, id string, ref bool) h1Req {
	n, _, partial := plan(c)
	isHTTP := c.Transport == "h1-http"
	verb, path := "POST", s.std.Full(s.methodOf(c.Shape))
	ct := "application/grpc-web+proto"
	if c.Text {
		ct = "application/grpc-web-text+proto"
	}
	if isHTTP {
		verb, path = s.httpPath(c)
		ct = "application/json"
	}
	one := func() []byte {
		if isHTTP {
			return jsonOfSize(c.MsgSize)
		}
		if c.Gzip {
			return wire.Frame(wire.Gzip(mustMarshal(chunkOfSize(c.MsgSize))), true)
		}
		return wire.Frame(mustMarshal(chunkOfSize(c.MsgSize)), false)
	}
	text := c.Text && !isHTTP
	enc := func(b []byte) []byte {
		if text && len(b) > 0 {
			// every message is encoded, and padded, on its own
			return []byte(base64.StdEncoding.EncodeToString(b))
		}
		return b
	}
	var body []byte
	for i := 0; i < n; i++ {
		body = append(body, enc(one())...)
	}
	if c.Gzip && isHTTP && len(body) > 0 {
		body = wire.Gzip(body) // Content-Encoding: gzip, one member
	}
	q := h1Req{readN: len(body)}
	if isHTTP && (c.Shape == "unary" || c.Shape == "ss") {
		q.readN = -1 // a single transcoded message is the whole body
	}
	cl := len(body)
	if c.Shape == "upload" {
		ct = "application/octet-stream"
		body, cl, partial = bytes.Repeat([]byte("u"), 1000), 1<<20, false
	}
	if partial {
		// announce one more message than is sent; deliver only its first bytes
		m := one()
		if isHTTP && len(m) < 4 {
			m = []byte(`{"text":"abcdef"}`)
		}
		cl += len(enc(m))
		body = append(body, enc(m[:cutLen(c.Cut, m)])...)
	}
	var sb strings.Builder
	if ref {
		replies := 0
		if c.Shape == "ss" || c.Shape == "bidi" {
			replies = c.K
			if c.State == "in-send" && replies == 0 {
				replies = 1
			}
		}
		fmt.Fprintf(&sb, "POST /__ref/x HTTP/1.1\r\nHost: verif.test\r\nX-Scn: %s\r\nX-Ref-Read: %d\r\nX-Ref-Replies: %d\r\n", id, q.readN, replies)
		verb = "POST"
	} else {
		version := "1.1"
		if c.NoReuse == "http10" {
			version = "1.0"
		}
		fmt.Fprintf(&sb, "%s %s HTTP/%s\r\nHost: verif.test\r\nX-Scn: %s\r\n", verb, path, version, id)
		if c.NoReuse == "close" {
			sb.WriteString("Connection: close\r\n")
		}
	}
	chunked := c.Framing != "" && verb != "GET"
	if c.Gzip && verb != "GET" && !ref {
		if isHTTP {
			sb.WriteString("Content-Encoding: gzip\r\n")
		} else {
			sb.WriteString("Grpc-Encoding: gzip\r\n")
		}
	}
	if verb != "GET" {
		fmt.Fprintf(&sb, "Content-Type: %s\r\n", ct)
		if chunked {
			sb.WriteString("Transfer-Encoding: chunked\r\n")
		} else {
			fmt.Fprintf(&sb, "Content-Length: %d\r\n", cl)
		}
	}
	if c.How == "deadline" && !isHTTP {
		sb.WriteString("Grpc-Timeout: 300m\r\n")
	} else if c.Timeout && !isHTTP {
		sb.WriteString("Grpc-Timeout: 3600S\r\n")
	}
	sb.WriteString("\r\n")
	q.first = []byte(sb.String())
	if !chunked {
		q.first = append(q.first, body...)
		return q
	}
	if len(body) > 0 {
		q.first = append(q.first, fmt.Sprintf("%x\r\n", len(body))...)
		q.first = append(q.first, body...)
		q.first = append(q.first, "\r\n"...)
	}
	switch c.Framing {
	case "chunked-together":
		q.first = append(q.first, "0\r\n\r\n"...)
	case "chunked-later":
		q.later = []byte("0\r\n\r\n")
	}
	return q
}

func (s *cancelSvc) startH1(sc *cscn, srv *wire.Server) (*cancelClient, error) {
	return s.dialH1(sc.spec, srv, s.buildH1(sc.spec, sc.id, false))
}

func (s *cancelSvc) dialH1(c *CancelCase, srv *wire.Server, q h1Req) (*cancelClient, error) {
	conn, err := net.Dial("tcp", srv.Addr)
	if err != nil {
		return nil, err
	}
	if _, err := conn.Write(q.first); err != nil {
		conn.Close()
		return nil, err
	}
	if len(q.later) > 0 {
		// a later segment, well before the disconnect
		time.Sleep(5 * time.Millisecond)
		if _, err := conn.Write(q.later); err != nil {
			conn.Close()
			return nil, err
		}
	}
	return &cancelClient{
		cancel: func() {
			if c.How == "deadline" {
				time.Sleep(400 * time.Millisecond) // the call's own deadline passes
				return
			}
			if c.How == "tcp-rst" {
				if tc, ok := conn.(*net.TCPConn); ok {
					tc.SetLinger(0)
				}
			}
			conn.Close()
		},
		close: func() { conn.Close() },
	}, nil
}

// refHandler is a plain net/http handler with the I/O pattern of the
// scenario's larking handler: it reads the same part of the request body,
// writes and flushes the same number of replies and then waits for its request
// context. It shows whether net/http, left to itself, reports the client's
// disconnect for this request framing.
func (s *cancelSvc) refHandler(w http.ResponseWriter, r *http.Request) {
	v, ok := s.scns.Load(r.Header.Get("X-Scn"))
	if !ok {
		http.Error(w, "unknown scenario", http.StatusBadRequest)
		return
	}
	sc := v.(*cscn)
	var readN, replies int
	fmt.Sscanf(r.Header.Get("X-Ref-Read"), "%d", &readN)
	fmt.Sscanf(r.Header.Get("X-Ref-Replies"), "%d", &replies)
	sc.log.log("ref-entered", nil, 0)
	if readN < 0 {
		io.Copy(io.Discard, r.Body) //nolint:errcheck
	} else if readN > 0 {
		io.ReadFull(r.Body, make([]byte, readN)) //nolint:errcheck
	}
	for i := 0; i < replies; i++ {
		sc.log.log("ref-send-enter", nil, i)
		w.Write([]byte("{}")) //nolint:errcheck
		if f, ok := w.(http.Flusher); ok {
			f.Flush()
		}
		sc.log.log("ref-send-ok", nil, i)
	}
	sc.log.log("ref-idle", nil, 0)
	select {
	case <-r.Context().Done():
		sc.log.log("ref-ctx-done", r.Context().Err(), 0)
	case <-sc.abort:
	case <-time.After(60 * time.Second):
	}
}

// referenceTold replays the scenario's request against refHandler and reports
// whether net/http cancelled that request's context after the disconnect.
func (s *cancelSvc) referenceTold(sc *cscn, srv *wire.Server) bool {
	c := sc.spec
	cl, err := s.dialH1(c, srv, s.buildH1(c, sc.id, true))
	if err != nil {
		return false
	}
	defer cl.close()
	sc.log.waitFor(10*time.Second, func(ev []event) bool {
		if index(ev, "ref-idle", 0) >= 0 {
			return true
		}
		// blocked in its first flush (net/http waits for the rest of the body)
		for i := len(ev) - 1; i >= 0; i-- {
			if strings.HasPrefix(ev[i].Name, "ref-") {
				return ev[i].Name == "ref-send-enter" && time.Since(sc.log.start).Microseconds()-ev[i].AtUS > 300_000
			}
		}
		return false
	})
	sc.log.log("ref-cancel", nil, 0)
	cl.cancel()
	return sc.log.waitFor(releaseWatchdog, func(ev []event) bool { return index(ev, "ref-ctx-done", 0) >= 0 })
}

// ------------------------------------------------------------- driver

type cancelOutcome struct {
	Observed     bool    `json:"observed"`
	Note         string  `json:"note,omitempty"`
	Events       []event `json:"events,omitempty"`
	Goroutine    string  `json:"goroutine,omitempty"`
	vs           []viol
	inconclusive string
}

// runScenario executes one scenario. onSlow, if non-nil, is called once when
// the handler is still not released two seconds after the cancel (scheduling
// hint for the caller only; the verdict is unaffected).
func (s *cancelSvc) runScenario(c *CancelCase, onSlow func()) *cancelOutcome {
	out := &cancelOutcome{}
	sc := &cscn{
		id:      fmt.Sprintf("c%d", atomic.AddInt64(&s.seq, 1)),
		spec:    c,
		log:     newEvlog(),
		proceed: make(chan struct{}),
		abort:   make(chan struct{}),
	}
	s.scns.Store(sc.id, sc)
	defer s.scns.Delete(sc.id)

	srv, err := s.serverFor(c.Target, c.Opts)
	if err != nil {
		out.inconclusive = "server setup failed: " + err.Error()
		return out
	}
	var cl *cancelClient
	switch c.Transport {
	case "grpcgo":
		cl, err = s.startGRPCGo(sc, srv)
	case "h2c-grpc", "h2c-http":
		cl, err = s.startH2C(sc, srv)
	case "h2raw-grpc":
		cl, err = s.startH2Raw(sc, srv)
	default:
		cl, err = s.startH1(sc, srv)
	}
	if err != nil {
		out.inconclusive = "client setup failed: " + err.Error()
		return out
	}
	defer func() {
		close(sc.abort)
		cl.close()
	}()

	// 1. wait until the handler is in the wanted state
	proxy := c.Target == "proxy"
	// proxied and the client's (partial) first message never completes:
	// larking's forwarder itself is the blocked receiver, no back-end call yet
	fwdOnly := proxy && c.State == "in-recv" && (c.Shape == "unary" || c.Shape == "ss" || c.K == 0)
	reached := func(ev []event) bool {
		if index(ev, "setup-error", 0) >= 0 || index(ev, "handler-exit", 0) >= 0 {
			return true
		}
		if fwdOnly {
			return index(ev, "serve-enter", 0) >= 0
		}
		if c.Framing == "chunked-never" {
			// without the last-chunk net/http holds the handler's first flush
			// until the rest of the request body (or the disconnect) arrives
			for i := len(ev) - 1; i >= 0; i-- {
				if n := ev[i].Name; n != "req-ctx-done" && n != "serve-enter" {
					if n == "setup-send-enter" && time.Since(sc.log.start).Microseconds()-ev[i].AtUS > 300_000 {
						return true
					}
					break
				}
			}
		}
		switch c.State {
		case "pre-recv":
			return index(ev, "entered", 0) >= 0
		case "ctx-wait", "between-recv", "between-send", "burst-recv":
			return index(ev, "idle", 0) >= 0
		case "in-recv":
			at := 0
			if c.Shape != "unary" {
				if at = index(ev, "at-state", 0); at < 0 {
					return false
				}
			}
			return index(ev, "recv-enter", at) >= 0
		case "in-send":
			if index(ev, "send-never-blocked", 0) >= 0 || index(ev, "send-return", 0) >= 0 {
				return true
			}
			if len(ev) == 0 {
				return false
			}
			last := ev[len(ev)-1]
			for i := len(ev) - 1; i >= 0; i-- {
				// boundary events do not count as handler progress
				if n := ev[i].Name; n != "req-ctx-done" && n != "serve-enter" {
					last = ev[i]
					break
				}
			}
			return last.Name == "send-enter" && time.Since(sc.log.start).Microseconds()-last.AtUS > 300_000
		}
		return false
	}
	if !sc.log.waitFor(setupWatchdog, reached) {
		out.Events = sc.log.snapshot()
		out.inconclusive = fmt.Sprintf("%s: handler never reached the state within %v", c.class(), setupWatchdog)
		return out
	}
	ev := sc.log.snapshot()
	if i := index(ev, "setup-error", 0); i >= 0 {
		out.Events = ev
		out.inconclusive = fmt.Sprintf("%s: exchange before the cancel failed: %s", c.class(), ev[i].Err)
		return out
	}
	blockedSend := false
	if c.State == "in-send" {
		blockedSend = index(ev, "send-never-blocked", 0) < 0 && index(ev, "send-return", 0) < 0
		if !blockedSend {
			out.Note = "send-never-blocked"
		}
	}
	if index(ev, "handler-exit", 0) >= 0 || index(ev, "ctx-done", 0) >= 0 {
		out.Events = ev
		out.Note = "released-before-cancel"
		return out
	}
	if fwdOnly {
		time.Sleep(20 * time.Millisecond) // let the forwarder reach its RecvMsg
	}
	if c.DelayUS > 0 {
		time.Sleep(time.Duration(c.DelayUS) * time.Microsecond)
	}

	// 2. the client's cancel event
	sc.log.log("cancel", nil, 0)
	tCancel := time.Now()
	cl.cancel()
	sc.log.log("cancel-returned", nil, 0)
	close(sc.proceed)

	// 3. wait for the release
	// local: the handler's context is done. proxied: the back-end handler's
	// context is done (if the back-end was called at all) and larking's request
	// goroutine has returned from ServeHTTP.
	done := func(ev []event) bool {
		h := index(ev, "ctx-done", 0) >= 0 || index(ev, "handler-exit", 0) >= 0
		if c.State == "burst-recv" {
			h = index(ev, "handler-exit", 0) >= 0 // after its receives
		}
		if !proxy {
			return h
		}
		return index(ev, "serve-return", 0) >= 0 && (h || index(ev, "entered", 0) < 0)
	}
	for {
		if done(sc.log.snapshot()) {
			break
		}
		base := tCancel
		evs := sc.log.snapshot()
		if i := index(evs, "req-ctx-done", 0); i >= 0 {
			base = sc.log.start.Add(time.Duration(evs[i].AtUS) * time.Microsecond)
		}
		if time.Since(base) > releaseWatchdog || time.Since(tCancel) > 3*releaseWatchdog {
			break
		}
		if onSlow != nil && time.Since(tCancel) > 2*time.Second {
			onSlow()
			onSlow = nil
		}
		time.Sleep(time.Millisecond)
	}
	ev = sc.log.snapshot()
	out.Events = ev
	iCancel := index(ev, "cancel", 0)
	add := func(k, w string) { out.vs = append(out.vs, viol{c.class() + ":" + k, w}) }

	// release events logged before the cancel: the scenario did not reach
	// the intended point (not a verdict)
	for i := 0; i < iCancel; i++ {
		if ev[i].Name == "ctx-done" {
			out.Note = "released-before-cancel"
			return out
		}
	}
	iReq := index(ev, "req-ctx-done", 0)
	iRet := index(ev, "serve-return", 0)
	told := iReq >= 0 && (iRet < 0 || iReq < iRet)

	if !done(ev) {
		// watchdog: the handler was not released
		dump := fullDump()
		gid := atomic.LoadInt64(&sc.gid)
		if proxy {
			gid = atomic.LoadInt64(&sc.reqGid) // the forwarder runs on the request goroutine
		}
		block := goroutineBlock(dump, gid)
		out.Goroutine = block
		within, blockedIn := insideLarking(block)
		if proxy && index(ev, "serve-return", 0) >= 0 {
			// larking returned but the back-end call was left running
			within = true
		}
		missing := "handler-ctx-not-cancelled"
		// the stream call, if any, that was entered and has not returned
		last := ""
		for _, e := range ev {
			switch e.Name {
			case "recv-enter", "send-enter":
				last = e.Name
			case "recv-return", "send-return", "send-ok":
				last = ""
			}
		}
		switch last {
		case "recv-enter":
			missing = "recv-not-released"
		case "send-enter":
			missing = "send-not-released"
		}
		if proxy {
			hDone := index(ev, "ctx-done", 0) >= 0 || index(ev, "handler-exit", 0) >= 0
			switch {
			case index(ev, "serve-return", 0) < 0 && !hDone && index(ev, "entered", 0) >= 0:
				missing = "forwarder-blocked+backend-ctx-not-cancelled"
			case index(ev, "serve-return", 0) < 0:
				missing = "forwarder-blocked"
			default:
				missing = "backend-ctx-not-cancelled"
			}
		}
		if told && within {
			add("not-released:"+missing, fmt.Sprintf("net/http cancelled the request context (%s) but after %v the handler is still not released (%s; blocked below a larking frame: %v)", ev[iReq].Err, releaseWatchdog, missing, blockedIn))
		} else if c.Framing != "" && !c.repliesFlushed() && !(c.Transport == "h1-http" && (c.Shape == "unary" || c.Shape == "ss")) {
			// whether net/http has seen the end of a chunked body when the
			// handler stopped reading depends on how the bytes were read: it
			// may legitimately not watch the connection (observation only)
			out.Note = "chunked-body-not-read-to-its-end:connection-not-watched"
			return out
		} else if strings.HasPrefix(c.Transport, "h1") && within && s.referenceTold(sc, srv) {
			// differential reference: for the same request a plain net/http
			// handler with the same reads and writes is told about the
			// disconnect; under larking not even the request context is
			framing := c.Framing
			if framing == "" {
				framing = "content-length"
			}
			out.Events = sc.log.snapshot()
			add("ctx-not-cancelled-after-disconnect:"+framing, fmt.Sprintf("the client disconnected; %v later neither the request context larking was given nor the handler's context is cancelled (%s), while net/http cancels the context of a plain handler that reads and writes the same on the same request (%s framing)", releaseWatchdog, missing, framing))
		} else {
			out.inconclusive = fmt.Sprintf("%s: no release within %v, but the server never reported the cancellation to larking (request context cancelled=%v, goroutine within larking=%v)", c.class(), releaseWatchdog, told, within)
		}
		return out
	}

	// released: a call that was blocked (or made after the cancel with
	// nothing to deliver) must have returned an error
	checkErr := func(enter, ret, what string) {
		// last enter at or before ... find the return that follows it
		for i := 0; i < len(ev); i++ {
			if ev[i].Name != ret || i < iCancel {
				continue
			}
			if ev[i].err == nil {
				add("released-without-error:"+what, fmt.Sprintf("%s returned nil after the client's cancel although the client had sent nothing more", what))
			} else if ev[i].err == io.EOF && what == "RecvMsg" && c.State == "in-recv" && !c.HalfClose {
				// the client never ended its request stream (no END_STREAM, no
				// complete body): its going away is not a half-close
				add("released-with-clean-end-of-stream:"+what, "the handler's blocked RecvMsg returned io.EOF - a clean half-close - although the client aborted the call with its request stream still open")
			}
			return
		}
	}
	if c.State == "burst-recv" {
		// once the handler has seen its context done, no Recv may deliver
		n := 0
		for i := index(ev, "ctx-done", 0); i >= 0 && i < len(ev); i++ {
			if ev[i].Name == "recv-return" && ev[i].err == nil {
				n++
			}
		}
		if n > 0 {
			add("recv-delivers-after-cancel", fmt.Sprintf("after the handler had observed ctx.Done() (%s), RecvMsg still returned %d of the %d buffered messages with a nil error instead of failing", map[bool]string{true: "grpc-timeout expired", false: "client cancelled"}[c.How == "deadline"], n, c.Burst))
		}
	}
	switch c.State {
	case "in-recv", "between-recv":
		checkErr("recv-enter", "recv-return", "RecvMsg")
	case "in-send":
		if blockedSend {
			checkErr("send-enter", "send-return", "SendMsg")
		}
	}
	out.Observed = c.State != "in-send" || blockedSend
	return out
}

// cancelMatrix enumerates every applicable (transport, shape, state) cell.
func cancelMatrix() []CancelCase {
	var out []CancelCase
	transports := []string{"grpcgo", "h2c-grpc", "h2c-http", "h1-web", "h1-http"}
	shapes := []string{"unary", "cs", "ss", "bidi", "upload"}
	states := []string{"pre-recv", "ctx-wait", "between-recv", "between-send", "in-recv", "in-send"}
	for _, t := range transports {
		for _, sh := range shapes {
			for _, st := range states {
				if !applicable(t, sh, st) {
					continue
				}
				how := "ctx"
				if strings.HasPrefix(t, "h1") {
					how = "tcp"
				}
				c := CancelCase{Part: "cancel", Transport: t, Shape: sh, State: st, K: 2, MsgSize: 5, BigSize: 256 << 10, MaxBig: 384, How: how}
				if sh == "upload" {
					c.DelayUS = 20000 // let the first bytes of the chunk arrive
				}
				out = append(out, c)
			}
		}
	}
	return out
}

func applicable(t, sh, st string) bool {
	switch sh {
	case "upload":
		return st == "in-recv" && strings.HasSuffix(t, "-http")
	case "unary":
		if st != "ctx-wait" && st != "in-recv" {
			return false
		}
	case "cs":
		if st == "between-send" || st == "in-send" {
			return false
		}
	case "ss":
		if st == "between-recv" {
			return false
		}
	}
	return true
}

func (c *CancelCase) normalise() {
	h1 := strings.HasPrefix(c.Transport, "h1")
	// burst-recv: where a Recv after the end of the call is defined to fail
	// (the gRPC paths; HTTP transcoding has no such rule) and where the end
	// of the call can reach the handler while unread messages are buffered
	// (HTTP/2 cancel; over HTTP/1 net/http does not watch a connection with an
	// unread body, so only the call's own deadline ends it there)
	if c.State == "burst-recv" {
		ok := (c.Shape == "cs" || c.Shape == "bidi") && c.Target == "" &&
			(c.Transport == "grpcgo" || c.Transport == "h2c-grpc" || (c.Transport == "h1-web" && c.How == "deadline"))
		if !ok {
			c.State = "between-recv"
		} else if c.Burst <= 0 {
			c.Burst = 5
		}
	}
	deadline := c.How == "deadline" && c.State == "burst-recv" && c.Transport != "grpcgo"
	if c.How == "deadline" && !deadline {
		c.How = "ctx"
	}
	if c.State != "burst-recv" {
		c.Burst = 0
	} else {
		c.HalfClose = false
	}
	if c.How == "resp-close" && c.State == "burst-recv" {
		c.How = "ctx"
	}
	if c.Transport == "grpcgo" || h1 {
		if c.How == "pipe" || c.How == "resp-close" {
			c.How = "ctx"
		}
	}
	if c.How == "resp-close" && (c.Shape == "unary" || c.Shape == "cs" || c.State == "pre-recv" || c.State == "in-recv" || (c.K == 0 && c.State != "in-send")) {
		c.How = "ctx" // no response has been started in these cells
	}
	if h1 {
		if c.How != "tcp-rst" && !deadline {
			c.How = "tcp"
		}
		// over HTTP/1 net/http only watches the connection once the request
		// body has been consumed: pre-recv needs an empty body
		if c.State == "pre-recv" && c.Transport == "h1-http" && c.Shape == "ss" {
			c.Get = true
		}
	} else if c.How == "tcp" || c.How == "tcp-rst" {
		c.How = "ctx"
	}
	if !strings.HasSuffix(c.Transport, "-http") {
		c.Get = false
	} else {
		c.Timeout = false
		if c.Get && !((c.Shape == "unary" && c.State == "ctx-wait") || (c.Shape == "ss" && c.State != "in-recv")) {
			c.Get = false
		}
	}
	if c.Shape == "unary" || c.Shape == "ss" {
		if c.State != "between-send" && c.State != "ctx-wait" {
			c.K = 0
		}
	}
	if c.Shape == "unary" {
		c.K = 0
	}
	if c.Transport == "h1-http" && c.State == "between-recv" && c.K == 0 {
		// a body-less transcoded request legitimately delivers one message
		// (built from the URL) to the first Recv
		c.K = 1
	}
	if c.MsgSize == 1 {
		c.MsgSize = 2
	}
	if c.Shape == "upload" {
		if !strings.HasSuffix(c.Transport, "-http") || c.Target != "" {
			c.Shape = "cs"
		} else {
			c.State, c.K, c.HalfClose, c.Get, c.Framing, c.Gzip, c.Text, c.Burst = "in-recv", 0, false, false, "", false, false, 0
		}
	}
	if !h1 || c.Framing != "" || c.Get && c.NoReuse == "http10" {
		if !h1 || c.Framing != "" {
			c.NoReuse = ""
		}
	}
	csShape := c.Shape == "cs" || c.Shape == "bidi"
	if !csShape || c.State == "in-recv" {
		c.HalfClose = false
	}
	inRecvText := c.Text && c.Transport == "h1-web" && c.State == "in-recv" && c.Target == ""
	if !h1 || c.Target != "" || c.Get || !(c.State == "ctx-wait" || c.State == "between-send" || c.State == "in-send") {
		c.Framing, c.Text, c.Gzip = "", false, false
	}
	c.Text = c.Text || inRecvText
	if c.State != "in-recv" || c.Shape == "upload" || !(c.Transport == "h1-web" || c.Transport == "h2raw-grpc") {
		c.Cut = ""
	}
	if c.Transport == "h2raw-grpc" {
		// the raw framer client exists for the ways a stream can be torn down
		if c.State != "in-recv" || c.Shape == "upload" {
			c.Transport = "h2c-grpc"
		} else if !strings.HasPrefix(c.How, "rst:") && c.How != "conn-close" {
			c.How = "rst:8"
		}
	} else if strings.HasPrefix(c.How, "rst:") || c.How == "conn-close" {
		c.How = "ctx"
	}
	if c.Text {
		c.Gzip = false
	}
	if c.Gzip && c.Transport == "h1-web" && c.State == "in-send" {
		c.Gzip = false // replies would be compressed as well and never fill the window
	}
	if c.Gzip && c.Transport == "h1-http" && c.Framing == "chunked-never" {
		// a gzip request body is read to its end (a further member may
		// follow): without the last-chunk no message is delivered at all
		c.Framing = "chunked-later"
	}
	if c.Transport != "h1-web" {
		c.Text = false
	}
	if c.HalfClose && c.Framing == "chunked-never" {
		c.Framing = "chunked-later" // the handler waits for the end of the request stream
	}
	switch c.Framing {
	case "chunked-later", "chunked-never":
		// Without the last-chunk net/http watches the connection only from the
		// handler's first flush on (it then takes the rest of the body): the
		// handler must have sent a reply. A single transcoded message needs the
		// end of the body to be delivered at all (never = blocked in Recv).
		if !c.repliesFlushed() && !(c.Framing == "chunked-later" && c.Transport == "h1-http" && (c.Shape == "unary" || c.Shape == "ss")) {
			c.Framing = "chunked-together"
		}
		if c.Framing == "chunked-never" && c.Transport == "h1-http" && (c.Shape == "unary" || c.Shape == "ss") {
			c.Framing = "chunked-later"
		}
	}
	if c.Framing == "chunked-together" && !c.repliesFlushed() {
		// net/http sees the end of a chunked body that the handler does not
		// read to its end only if the last-chunk was buffered together with
		// the last message: keep the request well inside one read
		// - and the handler reads at least one message, up to the very last
		// byte before the last-chunk (the transcoding stream codec reads in
		// its own steps)
		n, _, _ := plan(c)
		if n == 0 || (n+1)*(c.MsgSize+40)*2 > 2000 || (c.Transport == "h1-http" && (c.Shape == "cs" || c.Shape == "bidi")) {
			c.Framing = ""
		}
	}
	if c.Target == "proxy" && csShape {
		// HTTP/1 is half-duplex also for larking's forwarder, which reads the
		// client concurrently with writing the back-end's replies: the
		// back-end waits for the end of the request before it sends
		if h1 && c.State != "in-recv" {
			c.HalfClose = true
		}
		// the forwarder calls the back-end once it has the first message (or
		// the client's half-close)
		if !c.HalfClose && c.State != "in-recv" && c.State != "pre-recv" && c.K == 0 {
			c.K = 1
		}
	}
	if c.HalfClose && c.K == 0 && strings.HasSuffix(c.Transport, "-http") {
		c.K = 1 // an empty transcoded body still delivers one message built from the URL
	}
	if c.Gzip {
		if n, _, _ := plan(c); n == 0 {
			c.Gzip = false // nothing to compress
		}
	}
}

// repliesFlushed: the handler has written (and flushed) at least one reply
// before it waits.
func (c *CancelCase) repliesFlushed() bool {
	return (c.Shape == "ss" || c.Shape == "bidi") && (c.K > 0 || c.State == "in-send") && c.State != "pre-recv" && c.State != "in-recv" && c.State != "between-recv"
}

// framingCells: request-body framing of the raw HTTP/1.1 clients as a
// dimension (Content-Length is the base matrix): chunked with the last-chunk
// together with the messages, a moment later, or never before the disconnect;
// gRPC-web binary and text, and HTTP transcoding; handler waiting after 0 or
// >= 1 replies.
func framingCells() []CancelCase {
	var out []CancelCase
	for _, c := range cancelMatrix() {
		if !strings.HasPrefix(c.Transport, "h1") || !(c.State == "ctx-wait" || c.State == "between-send" || c.State == "in-send") {
			continue
		}
		ks := []int{c.K}
		if c.Shape == "ss" && c.State == "ctx-wait" {
			ks = []int{0, c.K}
		}
		for _, k := range ks {
			for _, enc := range []string{"", "text", "gzip"} {
				if enc == "text" && c.Transport != "h1-web" {
					continue
				}
				for _, f := range []string{"", "chunked-together", "chunked-later", "chunked-never"} {
					if f == "" && enc == "" && k == c.K {
						continue // base matrix
					}
					d := c
					d.K, d.Text, d.Gzip, d.Framing = k, enc == "text", enc == "gzip", f
					d.normalise()
					if d.Framing != f || d.Gzip != (enc == "gzip") {
						continue // not applicable to this cell
					}
					out = append(out, d)
				}
			}
		}
	}
	return out
}

// abortCells: how the client goes away while the handler is blocked in Recv -
// RST_STREAM with every HTTP/2 error code and a dropped connection (raw
// framer client), HTTP/1.1 disconnect - x where the request stream is cut x
// gRPC, gRPC-web binary and text (every message padded on its own) x local
// and proxied.
func abortCells() (local, proxied []CancelCase) {
	base := CancelCase{Part: "cancel", State: "in-recv", K: 2, MsgSize: 5, BigSize: 256 << 10, MaxBig: 384, DelayUS: 5000}
	i := 0
	for _, cut := range []string{"boundary", "prefix", "message"} {
		for _, sh := range []string{"cs", "bidi", "unary", "ss"} {
			hows := []string{"conn-close"}
			for code := 0; code <= 0xd; code++ {
				hows = append(hows, fmt.Sprintf("rst:%d", code))
			}
			for _, how := range hows {
				if (sh == "unary" || sh == "ss") && how != "rst:0" && how != "rst:8" && how != "conn-close" {
					continue
				}
				c := base
				c.Transport, c.Shape, c.Cut, c.How = "h2raw-grpc", sh, cut, how
				local = append(local, c)
				if i++; i%3 == 0 || how == "rst:0" {
					c.Target = "proxy"
					proxied = append(proxied, c)
				}
			}
			for _, text := range []bool{false, true} {
				for _, how := range []string{"tcp", "tcp-rst"} {
					c := base
					c.Transport, c.Shape, c.Cut, c.How, c.Text = "h1-web", sh, cut, how, text
					local = append(local, c)
				}
			}
		}
	}
	return local, proxied
}

// noReuseCells: raw HTTP/1 clients that will not re-use the connection
// (Connection: close, HTTP/1.0) - a disconnect must reach the handler all the
// same.
func noReuseCells() []CancelCase {
	var out []CancelCase
	for _, c := range cancelMatrix() {
		if !strings.HasPrefix(c.Transport, "h1") || !(c.State == "ctx-wait" || c.State == "between-send" || c.State == "in-recv") {
			continue
		}
		for _, nr := range []string{"close", "http10"} {
			d := c
			d.NoReuse = nr
			out = append(out, d)
			if strings.HasSuffix(c.Transport, "-http") && (c.Shape == "unary" || c.Shape == "ss") && c.State == "ctx-wait" {
				d.Get = true
				out = append(out, d)
			}
		}
	}
	return out
}

// burstCells: unread complete messages are buffered at the server when the
// call ends; a Recv made after the handler has seen ctx.Done() must fail.
func burstCells() []CancelCase {
	var out []CancelCase
	for _, t := range []struct{ transport, how string }{{"grpcgo", "ctx"}, {"h2c-grpc", "ctx"}, {"h2c-grpc", "pipe"}, {"h2c-grpc", "deadline"}, {"h1-web", "deadline"}} {
		for _, sh := range []string{"cs", "bidi"} {
			for _, timeout := range []bool{false, true} {
				if timeout && t.how == "deadline" {
					continue
				}
				out = append(out, CancelCase{Part: "cancel", Transport: t.transport, Shape: sh, State: "burst-recv", K: 1, Burst: 5, MsgSize: 5, BigSize: 256 << 10, MaxBig: 384, How: t.how, Timeout: timeout, DelayUS: 20000})
			}
		}
	}
	return out
}

// proxyMatrix: the cells of the cancellation matrix for a method reached
// through RegisterConn, plus the states after the client's half-close.
func proxyMatrix() []CancelCase {
	var out []CancelCase
	for _, c := range cancelMatrix() {
		c.Target = "proxy"
		out = append(out, c)
		if (c.Shape == "cs" && c.State == "ctx-wait") || (c.Shape == "bidi" && (c.State == "ctx-wait" || c.State == "between-send" || c.State == "in-send")) {
			d := c
			d.HalfClose = true
			out = append(out, d)
		}
	}
	return out
}

func runCancels(r *mon.Run) {
	s, err := newCancelSvc()
	if err != nil {
		r.Inconclusive("cancellation server setup: " + err.Error())
		return
	}
	defer s.Close()
	rng := r.Rand("c15-cancel")
	cases := cancelMatrix()
	base := len(cases)
	// variants: timeout header, other cancel mechanisms, GET bindings
	var extra []CancelCase
	for _, c := range cases {
		if !strings.HasSuffix(c.Transport, "-http") && (c.State == "ctx-wait" || c.State == "in-recv" || c.State == "in-send") {
			d := c
			d.Timeout = true
			extra = append(extra, d)
		}
		if strings.HasPrefix(c.Transport, "h2c") && c.State != "ctx-wait" {
			d := c
			d.How = "pipe"
			extra = append(extra, d)
		}
		if strings.HasPrefix(c.Transport, "h2c") && (c.Shape == "ss" || c.Shape == "bidi") && (c.State == "in-send" || c.State == "between-send" || c.State == "ctx-wait") {
			d := c
			d.How = "resp-close"
			extra = append(extra, d)
		}
		if strings.HasSuffix(c.Transport, "-http") && (c.Shape == "unary" || c.Shape == "ss") && c.State != "in-recv" {
			d := c
			d.Get = true
			extra = append(extra, d)
		}
	}
	cases = append(cases, extra...)
	for _, c := range cancelMatrix() {
		if (c.Shape == "cs" || c.Shape == "bidi") && c.State == "ctx-wait" {
			c.HalfClose = true
			cases = append(cases, c)
		}
	}
	cases = append(cases, framingCells()...)
	cases = append(cases, burstCells()...)
	cases = append(cases, noReuseCells()...)
	abortLocal, abortProxied := abortCells()
	cases = append(cases, abortLocal...)
	nLocal := len(cases)
	cases = append(cases, proxyMatrix()...)
	cases = append(cases, abortProxied...)
	// every cell under the all-off and the all-on option mask plus, in
	// rotation, one of the other masks (quick) or under every mask (thorough);
	// proxied cells under all-off and all-on (quick)
	masks := c15Masks()
	cells := cases
	cases = nil
	others := []int{4, 1, 2, 5, 3, 6, 8}
	for i, c := range cells {
		pick := []int{0, others[i%len(others)], 7}
		if i >= nLocal {
			pick = []int{0, 7}
		}
		if r.Thorough() {
			pick = []int{0, 1, 2, 3, 4, 5, 6, 7, 8}
		}
		for _, k := range pick {
			d := c
			d.Opts = masks[k]
			cases = append(cases, d)
		}
	}
	total := r.Pick(len(cases), len(cases)+3000)
	sizes := []int{0, 2, 5, 100, 3000}
	for len(cases) < total {
		c := cells[rng.Intn(base)]
		c.Opts = masks[rng.Intn(len(masks))]
		if rng.Intn(3) == 0 {
			c.Target = "proxy"
		}
		c.HalfClose = rng.Intn(4) == 0
		c.Framing = []string{"", "", "chunked-together", "chunked-later", "chunked-never"}[rng.Intn(5)]
		c.Text = rng.Intn(3) == 0
		c.Gzip = rng.Intn(4) == 0
		c.NoReuse = []string{"", "", "", "close", "http10"}[rng.Intn(5)]
		c.Cut = []string{"", "boundary", "prefix", "message"}[rng.Intn(4)]
		if rng.Intn(6) == 0 && c.State == "in-recv" && c.Transport == "h2c-grpc" {
			c.Transport = "h2raw-grpc"
			c.How = fmt.Sprintf("rst:%d", rng.Intn(14))
			if rng.Intn(8) == 0 {
				c.How = "conn-close"
			}
		}
		if (c.Shape == "cs" || c.Shape == "bidi") && rng.Intn(8) == 0 {
			c.State, c.Burst = "burst-recv", 1+rng.Intn(8)
			if rng.Intn(3) == 0 {
				c.How = "deadline"
			}
		}
		c.K = rng.Intn(5)
		c.MsgSize = sizes[rng.Intn(len(sizes))]
		c.Timeout = rng.Intn(3) == 0
		c.How = []string{"ctx", "pipe", "tcp", "tcp-rst", "resp-close"}[rng.Intn(5)]
		c.DelayUS = []int{0, 0, 100, 1000, 5000, 20000}[rng.Intn(6)]
		c.Get = rng.Intn(3) == 0
		c.BigSize = []int{64 << 10, 256 << 10, 1 << 20}[rng.Intn(3)]
		c.MaxBig = (96 << 20) / c.BigSize
		cases = append(cases, c)
	}
	for i := range cases {
		cases[i].normalise()
	}

	// A not-released verdict costs the 15 s watchdog. Scenarios therefore run
	// in phases by the number of options installed (so that a defect is
	// reported under the smallest mask that shows it); once a wedge is
	// reported for (transport, mask), scenarios of that transport whose mask
	// includes it are skipped, and while one looks wedged (2 s) they are
	// deferred to the end of the phase instead of being started.
	type wedge struct {
		transport string
		o         Opts
	}
	var wmu sync.Mutex
	var wedges []wedge
	suspects := map[int]wedge{}
	covered := func(c *CancelCase) (confirmed, suspect bool) {
		wmu.Lock()
		defer wmu.Unlock()
		for _, w := range wedges {
			if w.transport == c.Target+c.Transport && w.o.coveredBy(c.Opts) {
				return true, false
			}
		}
		for _, w := range suspects {
			if w.transport == c.Target+c.Transport && w.o.coveredBy(c.Opts) {
				return false, true
			}
		}
		return false, false
	}
	// a state that cannot be set up (15 s each) is not retried endlessly
	setupFails := map[string]int{}
	runOne := func(i int) {
		c := &cases[i]
		sk := c.Target + c.Transport + "/" + c.Shape + ":" + c.State
		wmu.Lock()
		nf := setupFails[sk]
		wmu.Unlock()
		if nf >= 2 {
			r.Count("cancel_skipped_state_could_not_be_set_up_twice", 1)
			return
		}
		out := s.runScenario(c, func() {
			wmu.Lock()
			suspects[i] = wedge{c.Target + c.Transport, c.Opts}
			wmu.Unlock()
		})
		wmu.Lock()
		delete(suspects, i)
		wmu.Unlock()
		r.Eval(1)
		r.Count("cancel_scenarios", 1)
		if os.Getenv("VERIF_DEBUG") != "" {
			debugScenario(c, out)
		}
		if out.inconclusive != "" {
			wmu.Lock()
			setupFails[sk]++
			wmu.Unlock()
			r.Inconclusive(out.inconclusive)
			r.Count("cancel_inconclusive", 1)
			return
		}
		if out.Note != "" {
			r.Count("cancel_note_"+out.Note, 1)
		}
		for _, e := range out.Events {
			switch e.Name {
			case "req-ctx-done":
				r.Count("cancel_request_ctx_cancelled_at_boundary", 1)
			case "ctx-done":
				r.Count("cancel_handler_ctx_done", 1)
			}
		}
		if !c.Opts.none() {
			r.Count("cancel_scenarios_with_mux_options", 1)
		}
		for _, v := range out.vs {
			if strings.Contains(v.key, ":not-released:") || strings.Contains(v.key, ":ctx-not-cancelled-after-disconnect:") {
				wmu.Lock()
				wedges = append(wedges, wedge{c.Target + c.Transport, c.Opts})
				wmu.Unlock()
			}
			r.Violate(v.key, v.what, map[string]any{"part": "cancel", "case": c, "events": out.Events, "goroutine": out.Goroutine})
		}
		if out.Observed && len(out.vs) == 0 {
			r.Count("cancel_released_after_cancel", 1)
			r.Distinct("cancel:" + c.class() + "/" + c.How)
		}
		if i%97 == 0 {
			r.Sample(map[string]any{"case": c, "events": len(out.Events)})
		}
	}
	nOn := func(o Opts) int {
		n := 0
		for _, b := range o.onOff() {
			if b {
				n++
			}
		}
		return n
	}
	for phase := 0; phase <= 3; phase++ {
		var queue []int
		for i := range cases {
			if nOn(cases[i].Opts) == phase {
				queue = append(queue, i)
			}
		}
		for round := 0; len(queue) > 0 && round < 3; round++ {
			var dmu sync.Mutex
			var deferred []int
			var wg sync.WaitGroup
			var next int64 = -1
			for w := 0; w < 8; w++ {
				wg.Add(1)
				go func() {
					defer wg.Done()
					for {
						k := int(atomic.AddInt64(&next, 1))
						if k >= len(queue) {
							return
						}
						i := queue[k]
						confirmed, suspect := covered(&cases[i])
						switch {
						case confirmed:
							r.Count("cancel_skipped_transport_and_options_already_reported_wedged", 1)
						case suspect && round < 2:
							dmu.Lock()
							deferred = append(deferred, i)
							dmu.Unlock()
						default:
							runOne(i)
						}
					}
				}()
			}
			wg.Wait()
			sort.Ints(deferred)
			queue = deferred
		}
	}
	if log := s.errLogs(); strings.Contains(log, "panic serving") {
		r.Violate("panic:server-log:cancel", "the server logged a panic while serving cancellation scenarios: "+firstLines(log, 6), map[string]any{"part": "cancel-log"})
	}
}

func firstLines(s string, n int) string {
	l := strings.SplitN(s, "\n", n+1)
	if len(l) > n {
		l = l[:n]
	}
	return strings.Join(l, " | ")
}

func replayCancel(r *mon.Run, c *CancelCase) {
	s, err := newCancelSvc()
	if err != nil {
		r.Inconclusive("cancellation server setup: " + err.Error())
		return
	}
	defer s.Close()
	c.normalise()
	out := s.runScenario(c, nil)
	r.Eval(1)
	if out.inconclusive != "" {
		r.Inconclusive(out.inconclusive)
		return
	}
	for _, v := range out.vs {
		r.Violate(v.key, v.what, map[string]any{"part": "cancel", "case": c, "events": out.Events, "goroutine": out.Goroutine})
	}
	if out.Observed {
		r.Distinct("cancel:" + c.class())
		r.Distinct("cancel:" + c.class() + "#replay")
	}
}

var _ = proto.Marshal
var _ = rand.Int

func debugScenario(c *CancelCase, out *cancelOutcome) {
	var sb strings.Builder
	sends := 0
	past := false
	for _, e := range out.Events {
		if e.Name == "send-ok" {
			sends++
			continue
		}
		if e.Name == "send-enter" && !past && c.State == "in-send" {
			continue
		}
		if e.Name == "cancel" {
			past = true
		}
		fmt.Fprintf(&sb, " %s", e.Name)
		if e.Err != "" {
			fmt.Fprintf(&sb, "(%s)", e.Err)
		}
		fmt.Fprintf(&sb, "@%dms", e.AtUS/1000)
	}
	fmt.Fprintf(os.Stderr, "DEBUG %s how=%s k=%d get=%v observed=%v note=%s inconcl=%q sends_ok=%d:%s\n", c.class(), c.How, c.K, c.Get, out.Observed, out.Note, out.inconclusive, sends, sb.String())
}

// startH2Raw is a minimal HTTP/2 client on a raw framer (prior knowledge h2c):
// it opens stream 1 with a gRPC request, sends the planned messages in DATA
// frames without END_STREAM and later resets the stream with a chosen error
// code or drops the connection.
func (s *cancelSvc) startH2Raw(sc *cscn, srv *wire.Server) (*cancelClient, error) {
	c := sc.spec
	conn, err := net.Dial("tcp", srv.Addr)
	if err != nil {
		return nil, err
	}
	if _, err := conn.Write([]byte(http2.ClientPreface)); err != nil {
		conn.Close()
		return nil, err
	}
	fr := http2.NewFramer(conn, conn)
	var wmu sync.Mutex
	write := func(f func() error) error {
		wmu.Lock()
		defer wmu.Unlock()
		return f()
	}
	if err := write(func() error { return fr.WriteSettings() }); err != nil {
		conn.Close()
		return nil, err
	}
	go func() {
		for {
			f, err := fr.ReadFrame()
			if err != nil {
				return
			}
			switch f := f.(type) {
			case *http2.SettingsFrame:
				if !f.IsAck() {
					write(func() error { return fr.WriteSettingsAck() }) //nolint:errcheck
				}
			case *http2.PingFrame:
				if !f.IsAck() {
					write(func() error { return fr.WritePing(true, f.Data) }) //nolint:errcheck
				}
			}
		}
	}()
	var hb bytes.Buffer
	enc := hpack.NewEncoder(&hb)
	for _, kv := range [][2]string{
		{":method", "POST"}, {":scheme", "http"}, {":path", s.std.Full(s.methodOf(c.Shape))}, {":authority", "verif.test"},
		{"content-type", "application/grpc"}, {"te", "trailers"}, {"x-scn", sc.id},
	} {
		enc.WriteField(hpack.HeaderField{Name: kv[0], Value: kv[1]}) //nolint:errcheck
	}
	if c.Timeout {
		enc.WriteField(hpack.HeaderField{Name: "grpc-timeout", Value: "3600S"}) //nolint:errcheck
	}
	if err := write(func() error {
		return fr.WriteHeaders(http2.HeadersFrameParam{StreamID: 1, BlockFragment: hb.Bytes(), EndHeaders: true})
	}); err != nil {
		conn.Close()
		return nil, err
	}
	n, _, partial := plan(c)
	one := wire.Frame(mustMarshal(chunkOfSize(c.MsgSize)), false)
	var data []byte
	for i := 0; i < n; i++ {
		data = append(data, one...)
	}
	if partial {
		data = append(data, one[:cutLen(c.Cut, one)]...)
	}
	if len(data) > 0 {
		if err := write(func() error { return fr.WriteData(1, false, data) }); err != nil {
			conn.Close()
			return nil, err
		}
	}
	return &cancelClient{
		cancel: func() {
			var code int
			if _, err := fmt.Sscanf(c.How, "rst:%d", &code); err == nil {
				write(func() error { return fr.WriteRSTStream(1, http2.ErrCode(code)) }) //nolint:errcheck
				return
			}
			conn.Close()
		},
		close: func() { conn.Close() },
	}, nil
}
