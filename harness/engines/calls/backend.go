package calls

import (
	"context"
	"fmt"
	"net"
	"time"

	"google.golang.org/grpc"
	"google.golang.org/grpc/reflection"
	rpb "google.golang.org/grpc/reflection/grpc_reflection_v1alpha"
	"google.golang.org/protobuf/reflect/protoreflect"
	"google.golang.org/protobuf/reflect/protoregistry"
	"larking.io/larking"

	"verif/internal/svc"
	"verif/internal/vschema"
	"verif/internal/wire"
)

// descResolver resolves the harness's dynamic files first, then the global
// registry (imports such as google/api/annotations.proto).
type descResolver struct{ files *protoregistry.Files }

func (d descResolver) FindFileByPath(p string) (protoreflect.FileDescriptor, error) {
	if fd, err := d.files.FindFileByPath(p); err == nil {
		return fd, nil
	}
	return protoregistry.GlobalFiles.FindFileByPath(p)
}

func (d descResolver) FindDescriptorByName(n protoreflect.FullName) (protoreflect.Descriptor, error) {
	if x, err := d.files.FindDescriptorByName(n); err == nil {
		return x, nil
	}
	return protoregistry.GlobalFiles.FindDescriptorByName(n)
}

type onlyService struct{ name string }

func (o onlyService) GetServiceInfo() map[string]grpc.ServiceInfo {
	return map[string]grpc.ServiceInfo{o.name: {}}
}

// backend is a real grpc.Server exposing the dynamic standard service and
// the v1alpha reflection service larking's RegisterConn speaks.
type backend struct {
	srv  *grpc.Server
	ln   net.Listener
	cc   *grpc.ClientConn
	addr string
}

func startBackend(std *svc.Std, u unaryFn, s streamFn) (*backend, error) {
	files, err := vschema.Registry(vschema.TypesFile(), std.FD)
	if err != nil {
		return nil, err
	}
	gs := grpc.NewServer()
	gs.RegisterService(serviceDesc(std.SD, u, s), struct{}{})
	rs := reflection.NewServer(reflection.ServerOptions{
		Services:           onlyService{string(std.SD.FullName())},
		DescriptorResolver: descResolver{files},
	})
	rpb.RegisterServerReflectionServer(gs, rs)
	ln, err := net.Listen("tcp", "127.0.0.1:0")
	if err != nil {
		return nil, err
	}
	go gs.Serve(ln)
	cc, err := wire.Dial(ln.Addr().String())
	if err != nil {
		gs.Stop()
		return nil, err
	}
	return &backend{srv: gs, ln: ln, cc: cc, addr: ln.Addr().String()}, nil
}

func (b *backend) Close() {
	b.cc.Close()
	b.srv.Stop()
}

// newProxyMux returns a mux that reaches the service through RegisterConn.
func (b *backend) newProxyMux(opts ...larking.MuxOption) (*larking.Mux, error) {
	mux, err := larking.NewMux(opts...)
	if err != nil {
		return nil, err
	}
	ctx, cancel := context.WithTimeout(context.Background(), 20*time.Second)
	defer cancel()
	if err := mux.RegisterConn(ctx, b.cc); err != nil {
		return nil, fmt.Errorf("RegisterConn: %w", err)
	}
	return mux, nil
}
