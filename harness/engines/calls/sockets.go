package calls

import (
	"context"
	"fmt"
	"io"
	"regexp"
	"strings"
	"sync"
	"sync/atomic"
	"time"

	"google.golang.org/grpc"
	"google.golang.org/grpc/metadata"
	"google.golang.org/grpc/status"

	"verif/internal/mon"
	"verif/internal/wire"
)

// The sockets lane of C18: the same scripts over a real larking server with
// the grpc-go client as the independent decoder of what the client gets.

type sockLane struct {
	mu   sync.Mutex
	s    *rpcSvc
	srvs map[string]*wire.Server
	ccs  map[string]*grpc.ClientConn
}

func (l *sockLane) close() {
	for _, cc := range l.ccs {
		cc.Close()
	}
	for _, sv := range l.srvs {
		sv.Close()
	}
}

func (l *sockLane) conn(target string, o Opts) (*grpc.ClientConn, *wire.Server, error) {
	l.mu.Lock()
	defer l.mu.Unlock()
	k := target + "|" + o.key()
	if cc := l.ccs[k]; cc != nil {
		return cc, l.srvs[k], nil
	}
	mux, err := l.s.muxFor(target, o)
	if err != nil {
		return nil, nil, err
	}
	srv, err := wire.StartLarking(mux, nil)
	if err != nil {
		return nil, nil, err
	}
	cc, err := wire.Dial(srv.Addr)
	if err != nil {
		srv.Close()
		return nil, nil, err
	}
	l.srvs[k], l.ccs[k] = srv, cc
	return cc, srv, nil
}

func (l *sockLane) exec(c *RPCCase) (*outcome, error) {
	cc, srv, err := l.conn(c.Target, c.Opts)
	if err != nil {
		return nil, err
	}
	sc := &rscn{id: fmt.Sprintf("g%d", atomic.AddInt64(&l.s.seq, 1)), spec: c}
	l.s.scns.Store(sc.id, sc)
	defer l.s.scns.Delete(sc.id)
	ctx, cancel := context.WithTimeout(context.Background(), 20*time.Second)
	defer cancel()
	ctx = metadata.AppendToOutgoingContext(ctx, "x-scn", sc.id)
	var sb strings.Builder
	st, err := cc.NewStream(ctx, &grpc.StreamDesc{ClientStreams: true, ServerStreams: true}, l.s.std.Full(c.Method))
	if err != nil {
		return nil, err
	}
	for _, n := range c.In {
		if err := st.SendMsg(chunkOfSize(n)); err != nil {
			break // the status is read below
		}
	}
	st.CloseSend()
	for {
		m := newChunk()
		err := st.RecvMsg(m)
		if err == io.EOF {
			sb.WriteString("status(0,\"\")")
			break
		}
		if err != nil {
			s := status.Convert(err)
			fmt.Fprintf(&sb, "status(%d,%q)", s.Code(), s.Message())
			break
		}
		fmt.Fprintf(&sb, "msg(%x) ", mustMarshal(m))
	}
	// the server finishes its side (trailers, End event) slightly after the
	// client has the status
	if c.Opts.Stats {
		deadline := time.Now().Add(10 * time.Second)
		for time.Now().Before(deadline) && count(sc.snapshot(), "st", "End") == 0 && count(sc.snapshot(), "st", "Tag") > 0 && !strings.Contains(srv.ErrLog(), "panic serving") {
			time.Sleep(200 * time.Microsecond)
		}
	}
	return &outcome{Events: sc.snapshot(), Transcript: sb.String(), NMsgs: -1}, nil
}

var rePanicServing = regexp.MustCompile(`panic serving [^ ]+: ([^\n]*)`)
var reLarkFrame = regexp.MustCompile(`larking\.io/(larking\.[^\s(]*(?:\([^)]*\))?[^\s(]*)\(`)

// panicKeyFromLog rebuilds the finding key of a panic recovered by net/http
// from its log (same format as mon.PanicInfo.Key).
func panicKeyFromLog(log string) (key, value string) {
	m := rePanicServing.FindStringSubmatch(log)
	if m == nil {
		return "", ""
	}
	value = m[1]
	frame := "?"
	if i := strings.Index(log, "panic("); i >= 0 {
		if f := reLarkFrame.FindStringSubmatch(log[i:]); f != nil {
			frame = f[1]
		}
	} else if f := reLarkFrame.FindStringSubmatch(log); f != nil {
		frame = f[1]
	}
	return "panic@" + frame + ":" + mon.NormMsg(value), value
}

func runSockets(r *mon.Run, s *rpcSvc) {
	var bases []RPCCase
	for _, target := range []string{"local", "proxy"} {
		for _, method := range []string{"Echo", "CS", "SS", "Bidi"} {
			for _, size := range []int{0, 3, 5, 100} {
				for _, fail := range []bool{false, true} {
					in, out := shapeIO(method, size, 2, 2)
					bases = append(bases, RPCCase{Part: "rpc", Target: target, Proto: "grpc", Method: method, In: in, Out: out, Fail: fail, Code: 5, Msg: "nope"})
				}
			}
		}
	}
	runSocketCases(r, s, bases, []Opts{{}, {Stats: true}, {Unary: "rec", Stream: "rec"}, {Unary: "rec", Stream: "rec", Stats: true}})
}

func runSocketCases(r *mon.Run, s *rpcSvc, bases []RPCCase, optsList []Opts) {
	l := &sockLane{s: s, srvs: map[string]*wire.Server{}, ccs: map[string]*grpc.ClientConn{}}
	defer l.close()
	reported := map[string]bool{}
	for _, base := range bases {
		target, method, fail := base.Target, base.Method, base.Fail
		want := ""
		for _, o := range optsList {
			c := base
			c.Opts = o
			out, err := l.exec(&c)
			r.Eval(1)
			r.Count("socket_rpcs", 1)
			if err != nil {
				r.Inconclusive("sockets lane: " + err.Error())
				return
			}
			if o.none() {
				want = out.Transcript
				continue
			}
			_, srv, _ := l.conn(target, o)
			if log := srv.ErrLog(); strings.Contains(log, "panic serving") {
				k := target + "|" + o.key()
				if !reported[k] {
					reported[k] = true
					key, val := panicKeyFromLog(log)
					r.Count("socket_server_panics", 1)
					r.Violate(key+":"+c.sizeClass(), fmt.Sprintf("real server, %s grpc %s with %s: net/http recovered a panic: %s (client saw %s)", target, method, o.key(), val, clip(out.Transcript)), &c)
				}
				continue // the log is cumulative: later RPCs on this server are not judged
			}
			c2 := c
			c2.Proto = "grpc"
			vs, obs := s.check(&c2, out)
			for k, n := range obs {
				r.Count("socket_"+k, n)
			}
			for _, v := range vs {
				r.Violate(v.key, "real server: "+v.what, map[string]any{"part": "rpc", "case": &c, "events": out.Events, "transcript": out.Transcript, "lane": "sockets"})
			}
			if out.Transcript != want {
				shape := map[string]string{"Echo": "unary", "CS": "cs", "SS": "ss", "Bidi": "bidi"}[method]
				r.Violate(fmt.Sprintf("%s/grpc:outcome-changed:with=%s:%s", target, o.key(), shape),
					fmt.Sprintf("real server, grpc-go client: %s %s with %s gives %s, without options %s", target, method, o.key(), clip(out.Transcript), clip(want)),
					map[string]any{"part": "rpc", "case": &c, "events": out.Events, "transcript": out.Transcript, "lane": "sockets"})
			} else if len(vs) == 0 {
				r.Distinct(fmt.Sprintf("sockets/%s/grpc/%s/%s/fail=%v/%s", target, method, c.sizeClass(), fail, o.key()))
			}
		}
	}
}
