package calls

import "net/http"

// Entry-path lane of C18. The quantifier of the property ranges over all
// RPCs on gRPC and gRPC-web, including those the mux refuses or serves
// differently because of what the request headers say: grpc-timeout values
// (valid and hours long, and every way of being malformed), grpc-encoding /
// grpc-accept-encoding values (identity, a registered compressor with and
// without compressed frames, unknown, lists), and content-type variants. For
// each: whatever the stats handler was told has begun is ended exactly once
// (no event at all is fine for a call refused in front of the stats block),
// no panic, and the client-visible transcript equals the one of the same
// request on a mux without options - so a call that succeeds without the
// options succeeds with them. Calls that are dispatched go through the full
// per-RPC oracle (check) like every other script.

// entry: the case belongs to the entry-path lane.
func (c *RPCCase) entry() bool { return c.Entry != "" }

func (c *RPCCase) entrySuffix() string {
	if !c.entry() {
		return ""
	}
	return ":entry:" + c.Entry
}

func (c *RPCCase) entryHeaders(h http.Header) {
	if c.RawTimeout != "" {
		h["Grpc-Timeout"] = []string{c.RawTimeout}
	}
	if c.GrpcEncoding != "" {
		h["Grpc-Encoding"] = []string{c.GrpcEncoding}
	}
	if c.GrpcAccept != "" {
		h["Grpc-Accept-Encoding"] = []string{c.GrpcAccept}
	}
}

func countSrc(ev []revent, src string) int {
	n := 0
	for _, e := range ev {
		if e.Src == src {
			n++
		}
	}
	return n
}

var entryOpts = []Opts{{}, {Stats: true}, {Unary: "rec", Stream: "rec"}, {Unary: "rec", Stream: "rec", Stats: true}, {Stats: true, Mutate: true}}

type entryVar struct {
	class                 string
	timeout, enc, acc, ct string
	compressed            bool
	webCT                 bool // ct applies to gRPC-web (otherwise to gRPC)
}

func entryVars(thorough bool) []entryVar {
	v := []entryVar{
		// grpc-timeout: legal and far away
		{class: "timeout=valid-long", timeout: "1H"},
		{class: "timeout=valid-long", timeout: "99999999S"},
		{class: "timeout=valid-clamped", timeout: "99999999H"},
		// grpc-timeout: every way of not being "1-8 digits + unit"
		{class: "timeout=unknown-unit", timeout: "5x"},
		{class: "timeout=unknown-unit", timeout: "10s"},
		{class: "timeout=too-many-digits", timeout: "123456789S"},
		{class: "timeout=too-many-digits", timeout: "1234567890123456789012n"},
		{class: "timeout=no-digits", timeout: "S"},
		{class: "timeout=no-digits", timeout: "mm"},
		{class: "timeout=no-unit", timeout: "100"},
		{class: "timeout=non-digit-value", timeout: "1.5S"},
		{class: "timeout=non-digit-value", timeout: "1 S"},
		{class: "timeout=signed-value", timeout: "-1S"},
		{class: "timeout=signed-value", timeout: "+1S"},
		// grpc-encoding of the request
		{class: "encoding=identity", enc: "identity"},
		{class: "encoding=registered/compressed-frames", enc: "gzip", compressed: true},
		{class: "encoding=registered/plain-frames", enc: "gzip"},
		{class: "encoding=identity/compressed-frames", enc: "identity", compressed: true},
		{class: "encoding=absent/compressed-frames", compressed: true},
		{class: "encoding=unknown", enc: "deflate"},
		{class: "encoding=unknown", enc: "x-unknown"},
		{class: "encoding=upper-case", enc: "GZIP"},
		{class: "encoding=list", enc: "gzip, identity"},
		// grpc-accept-encoding
		{class: "accept=identity", acc: "identity"},
		{class: "accept=registered", acc: "gzip"},
		{class: "accept=list-known", acc: "identity,gzip"},
		{class: "accept=list-mixed", acc: "deflate, gzip"},
		{class: "accept=unknown", acc: "x-unknown"},
		{class: "accept=empty-members", acc: ","},
		// both
		{class: "encoding=identity+accept=registered", enc: "identity", acc: "gzip"},
		{class: "encoding=registered+accept=identity", enc: "gzip", compressed: true, acc: "identity"},
		{class: "encoding=registered+accept=unknown", enc: "gzip", compressed: true, acc: "br"},
		{class: "encoding=identity+timeout=malformed", enc: "identity", timeout: "1d"},
		// content-type variants
		{class: "content-type=explicit-proto", ct: "application/grpc+proto"},
		{class: "content-type=other-codec", ct: "application/grpc+json"},
		{class: "content-type=unknown-codec", ct: "application/grpc+unknown"},
		{class: "content-type=parameter", ct: "application/grpc; charset=utf-8"},
		{class: "content-type=empty-codec", ct: "application/grpc+"},
		{class: "content-type=explicit-proto", ct: "application/grpc-web+proto", webCT: true},
		{class: "content-type=unknown-codec", ct: "application/grpc-web+unknown", webCT: true},
		{class: "content-type=parameter", ct: "application/grpc-web; x=y", webCT: true},
	}
	if thorough {
		v = append(v,
			entryVar{class: "timeout=valid-long", timeout: "3600000m"},
			entryVar{class: "timeout=unknown-unit", timeout: "1d"},
			entryVar{class: "timeout=non-digit-value", timeout: "0x10S"},
			entryVar{class: "encoding=unknown", enc: "snappy"},
			entryVar{class: "encoding=unknown", enc: "br"},
			entryVar{class: "accept=list-mixed", acc: "br,gzip,identity"},
		)
	}
	return v
}

func entryCases(thorough bool) []RPCCase {
	var out []RPCCase
	i := 0
	for _, target := range []string{"local", "proxy"} {
		for _, method := range []string{"Echo", "CS", "SS", "Bidi"} {
			for _, p := range []string{"grpc", "web", "webtext"} {
				for _, v := range entryVars(thorough) {
					if v.ct != "" && v.webCT != (p == "web") {
						continue
					}
					fails := []bool{i%2 == 1}
					if thorough {
						fails = []bool{false, true}
					}
					i++
					for _, fail := range fails {
						in, o := shapeIO(method, 5, 2, 2)
						c := RPCCase{Part: "rpc", Target: target, Proto: p, Method: method, In: in, Out: o, Fail: fail,
							Entry: v.class, RawTimeout: v.timeout, GrpcEncoding: v.enc, GrpcAccept: v.acc, GrpcCT: v.ct, Compressed: v.compressed}
						if fail {
							c.Code, c.Msg = 9, "precondition"
						}
						out = append(out, c)
					}
				}
			}
		}
	}
	return out
}
