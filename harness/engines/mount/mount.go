// Package mount is the C20 engine: NewServer + MuxHandleOption mount prefixes
// must be transparent. Differential oracle: the response of the server's
// handler for prefix+path equals the response of the bare mux for path.
package mount

import (
	"bytes"
	"context"
	"crypto/ecdsa"
	"crypto/elliptic"
	crand "crypto/rand"
	"crypto/sha1"
	"crypto/tls"
	"crypto/x509"
	"crypto/x509/pkix"
	"encoding/json"
	"fmt"
	"io"
	"math/big"
	"math/rand"
	"net"
	"net/http"
	"net/url"
	"sort"
	"strings"
	"sync"
	"sync/atomic"
	"time"

	"google.golang.org/grpc"
	"google.golang.org/grpc/codes"
	"google.golang.org/grpc/metadata"
	"google.golang.org/grpc/status"
	"google.golang.org/protobuf/encoding/protojson"
	"google.golang.org/protobuf/proto"
	"google.golang.org/protobuf/reflect/protoreflect"
	"larking.io/larking"

	"verif/internal/mon"
	"verif/internal/svc"
	"verif/internal/vschema"
	"verif/internal/wire"
)

type impl struct{ calls *int64 }

// seenMD renders the incoming metadata of a call (keys, and a digest of each
// key's values) so that the response shows what the handler was given.
func seenMD(ctx context.Context) metadata.MD {
	in, _ := metadata.FromIncomingContext(ctx)
	var ks []string
	for k := range in {
		ks = append(ks, k)
	}
	sort.Strings(ks)
	var sb strings.Builder
	for _, k := range ks {
		sum := sha1.Sum([]byte(strings.Join(in[k], "\x00")))
		fmt.Fprintf(&sb, "%s=%x;", k, sum[:4])
	}
	return metadata.Pairs("x-vf-seen-metadata", sb.String())
}

func (h impl) Unary(ctx context.Context, md protoreflect.MethodDescriptor, in proto.Message) (proto.Message, error) {
	atomic.AddInt64(h.calls, 1)
	grpc.SetHeader(ctx, seenMD(ctx))
	switch md.Name() {
	case "Echo":
		r := in.ProtoReflect()
		if r.Get(r.Descriptor().Fields().ByName("id")).String() == "fail" {
			return nil, status.Error(codes.FailedPrecondition, "asked to fail: 100% sure")
		}
		return proto.Clone(in), nil
	case "Unary", "UnarySub":
		out := vschema.NewMsg(md.Output())
		o := out.ProtoReflect()
		o.Set(o.Descriptor().Fields().ByName("method"), protoreflect.ValueOfString(vschema.FullMethod(md)))
		o.Set(o.Descriptor().Fields().ByName("echo"), protoreflect.ValueOfMessage(proto.Clone(in).ProtoReflect()))
		return out, nil
	}
	return nil, status.Error(codes.Unimplemented, "mount engine: not implemented")
}

func (h impl) Stream(md protoreflect.MethodDescriptor, ss grpc.ServerStream) error {
	atomic.AddInt64(h.calls, 1)
	ss.SetHeader(seenMD(ss.Context()))
	for {
		in := vschema.NewMsg(md.Input())
		if err := ss.RecvMsg(in); err != nil {
			if err == io.EOF {
				return nil
			}
			return err
		}
		if md.IsStreamingServer() {
			if err := ss.SendMsg(in); err != nil {
				return err
			}
		}
	}
}

// ReqSpec is one request (path relative to the mount prefix).
type ReqSpec struct {
	Kind   string              `json:"kind"` // http | grpc | web | webtext | twirp
	Verb   string              `json:"verb"`
	Path   string              `json:"path"`
	Query  string              `json:"query,omitempty"`
	Header map[string][]string `json:"header,omitempty"`
	Body   []byte              `json:"body,omitempty"`
	// Escaped: Path is the escaped spelling of the path as a client wrote it
	// (the request then carries URL.Path and URL.RawPath like net/http's
	// server sets them)
	Escaped bool `json:"escaped,omitempty"`
}

// Case is a replayable mount case.
type Case struct {
	Patterns []string `json:"patterns"`
	Extra    []string `json:"extra_patterns,omitempty"`
	URLPath  string   `json:"url_path"`
	Req      ReqSpec  `json:"req"`
	// TLS: the server is built with TLSCredsOption as well (its handler is
	// still driven in process)
	TLS bool `json:"tls,omitempty"`
	// Small: use the mux with the 2 KiB receive limit (mounted and bare)
	Small bool `json:"small_receive_limit,omitempty"`
	// Reuse: the very same MuxHandleOption value (built once from one
	// caller-owned slice) was already used for this many earlier NewServer
	// calls; the server under test is the last one built with it.
	Reuse int `json:"servers_built_earlier_with_the_same_option_value,omitempty"`
	// LateReg: NewServer is given a mux that serves nothing yet; the
	// service is registered on that mux afterwards, then the request is sent
	LateReg bool `json:"service_registered_after_newserver,omitempty"`
}

func chunkJSON(id string) []byte { return []byte(fmt.Sprintf(`{"id":%q,"seq":3,"text":"t"}`, id)) }

func chunkProto(id string) []byte {
	m := vschema.NewMsg(vschema.Msg("vf.Chunk"))
	m.ProtoReflect().Set(m.ProtoReflect().Descriptor().Fields().ByName("id"), protoreflect.ValueOfString(id))
	b, _ := proto.Marshal(m)
	return b
}

func requests(std *svc.Std) []ReqSpec {
	jh := map[string][]string{"Content-Type": {"application/json"}}
	ph := map[string][]string{"Content-Type": {"application/protobuf"}, "Accept": {"application/protobuf"}}
	var out []ReqSpec
	add := func(r ReqSpec) { out = append(out, r) }
	add(ReqSpec{Kind: "http", Verb: "POST", Path: "/v1/echo", Header: jh, Body: chunkJSON("a")})
	add(ReqSpec{Kind: "http", Verb: "POST", Path: "/v1/echo", Header: jh, Body: chunkJSON("fail")})
	add(ReqSpec{Kind: "http", Verb: "POST", Path: "/v1/echo", Header: ph, Body: chunkProto("p")})
	add(ReqSpec{Kind: "http", Verb: "GET", Path: "/v1/echo/xyz"})
	add(ReqSpec{Kind: "http", Verb: "GET", Path: "/v1/echo/xyz/"})
	add(ReqSpec{Kind: "http", Verb: "GET", Path: "/v1/unary/hello", Query: "n=5&sub.a=q"})
	// semicolons in the query: whatever the mux makes of them, it makes the
	// same of them below a mount
	add(ReqSpec{Kind: "http", Verb: "GET", Path: "/v1/unary/hello", Query: "n=5;sub.a=q"})
	add(ReqSpec{Kind: "http", Verb: "GET", Path: "/v1/unary/hello", Query: "sub.a=a;b&n=2"})
	add(ReqSpec{Kind: "http", Verb: "GET", Path: "/v1/unary/hello", Query: "n=7;"})
	add(ReqSpec{Kind: "http", Verb: "GET", Path: "/v1/unary/hello", Query: "sub.a=x%3By&n=1"})
	add(ReqSpec{Kind: "http", Verb: "GET", Path: "/v1/unary/hello", Query: "n=5&&sub.a=q&"})
	add(ReqSpec{Kind: "http", Verb: "GET", Path: "/v1/unary/hello", Query: "n=5&sub.a=%zz"})
	add(ReqSpec{Kind: "http", Verb: "GET", Path: "/v1/unary/hello", Query: "n=5&sub.a=a+b%20c"})
	add(ReqSpec{Kind: "http", Verb: "GET", Path: "/v1/items/it/42"})
	// headers a fronting gateway sets: they reach the handler as they came
	add(ReqSpec{Kind: "http", Verb: "GET", Path: "/v1/echo/fwd", Header: map[string][]string{"X-Forwarded-Prefix": {"/gateway"}, "X-Forwarded-For": {"198.51.100.7"}, "X-Forwarded-Host": {"edge.example"}, "X-Original-Uri": {"/gateway/v1/echo/fwd"}, "Forwarded": {"for=198.51.100.7;proto=https"}, "X-Request-Id": {"42"}}})
	add(ReqSpec{Kind: "http", Verb: "GET", Path: "/v1/items/it/notanumber"})
	add(ReqSpec{Kind: "http", Verb: "PATCH", Path: "/v1/sub/k", Header: jh, Body: []byte(`{"a":"x","l":"7"}`)})
	add(ReqSpec{Kind: "http", Verb: "GET", Path: "/v1/unary/a%40b", Query: "n=5&sub.a=q", Escaped: true})
	add(ReqSpec{Kind: "http", Verb: "GET", Path: "/v1/unary/%41bc", Query: "n=3", Escaped: true})
	add(ReqSpec{Kind: "http", Verb: "GET", Path: "/v1/echo/x%2Fy", Query: "n=1", Escaped: true})
	add(ReqSpec{Kind: "http", Verb: "GET", Path: "/v1/echo/caf%C3%A9", Query: "n=2", Escaped: true})
	add(ReqSpec{Kind: "http", Verb: "PATCH", Path: "/v1/sub/k%21", Query: "x=1", Header: jh, Body: []byte(`{"a":"x","l":"7"}`), Escaped: true})
	// verbs outside the usual set: the mux routes on any verb (custom kinds,
	// the any-verb implicit binding, its own JSON error for unbound verbs)
	for _, verb := range []string{"PURGE", "REPORT", "LOCK", "PROPFIND", "HEAD", "OPTIONS", "TRACE", "get"} {
		add(ReqSpec{Kind: "http", Verb: verb, Path: "/v1/echo/xyz"})
		add(ReqSpec{Kind: "http", Verb: verb, Path: std.Full("Echo"), Header: jh, Body: chunkJSON("v")})
	}
	add(ReqSpec{Kind: "http", Verb: "DELETE", Path: "/v1/echo"})
	add(ReqSpec{Kind: "http", Verb: "GET", Path: "/v1/nothing/here"})
	add(ReqSpec{Kind: "http", Verb: "GET", Path: "/v1"})
	add(ReqSpec{Kind: "http", Verb: "GET", Path: "/"})
	add(ReqSpec{Kind: "http", Verb: "GET", Path: "/v1/echo:verb"})
	add(ReqSpec{Kind: "http", Verb: "POST", Path: "/v1/cs", Header: jh, Body: []byte(`{"id":"a"}{"id":"b"}`)})
	add(ReqSpec{Kind: "http", Verb: "POST", Path: "/v1/ss", Header: jh, Body: chunkJSON("s")})
	// Twirp style: implicit binding with a Twirp-Version header
	th := map[string][]string{"Content-Type": {"application/json"}, "Twirp-Version": {"v8.1.0"}}
	add(ReqSpec{Kind: "twirp", Verb: "POST", Path: std.Full("Echo"), Header: th, Body: chunkJSON("tw")})
	add(ReqSpec{Kind: "twirp", Verb: "POST", Path: std.Full("Echo"), Header: th, Body: chunkJSON("fail")})
	add(ReqSpec{Kind: "twirp", Verb: "POST", Path: std.Full("Nope"), Header: th, Body: chunkJSON("tw")})
	// gRPC / gRPC-web
	add(ReqSpec{Kind: "grpc", Verb: "POST", Path: std.Full("Echo"), Body: wire.Frame(chunkProto("g"), false)})
	add(ReqSpec{Kind: "grpc", Verb: "POST", Path: std.Full("Echo"), Body: wire.Frame(chunkProto("fail"), false)})
	add(ReqSpec{Kind: "grpc", Verb: "POST", Path: std.Full("Bidi"), Body: append(wire.Frame(chunkProto("b1"), false), wire.Frame(chunkProto("b2"), false)...)})
	add(ReqSpec{Kind: "grpc", Verb: "POST", Path: "/vf.std.Std/Missing", Body: wire.Frame(nil, false)})
	add(ReqSpec{Kind: "web", Verb: "POST", Path: std.Full("Echo"), Body: wire.Frame(chunkProto("w"), false)})
	add(ReqSpec{Kind: "web", Verb: "POST", Path: std.Full("Echo"), Body: wire.Frame(chunkProto("fail"), false)})
	add(ReqSpec{Kind: "webtext", Verb: "POST", Path: std.Full("Echo"), Body: wire.Frame(chunkProto("wt"), false)})
	return out
}

func (q ReqSpec) build(urlPath string) *http.Request {
	hdr := http.Header{}
	for k, v := range q.Header {
		hdr[k] = v
	}
	switch q.Kind {
	case "grpc":
		return wire.GRPCRequest(urlPath, hdr, bytes.NewReader(q.Body))
	case "web":
		return wire.WebRequest(urlPath, hdr, q.Body, false, "")
	case "webtext":
		return wire.WebRequest(urlPath, hdr, q.Body, true, "")
	}
	var req *http.Request
	if q.Body == nil {
		req = wire.BodyRequest(q.Verb, urlPath, q.Query, hdr, nil)
	} else {
		req = wire.BodyRequest(q.Verb, urlPath, q.Query, hdr, q.Body)
	}
	if q.Escaped {
		if u, err := url.ParseRequestURI(urlPath); err == nil {
			req.URL.Path, req.URL.RawPath = u.Path, u.RawPath
		}
	}
	return req
}

type view struct {
	Code    int
	Header  http.Header
	Trailer http.Header
	Body    string
}

func viewOf(r *wire.Resp) view {
	h := r.Header.Clone()
	h.Del("Date")
	return view{r.Code, h, r.Trailer, string(r.Body)}
}

func hdrString(h http.Header) string {
	var ks []string
	for k := range h {
		ks = append(ks, k)
	}
	sort.Strings(ks)
	var sb strings.Builder
	for _, k := range ks {
		fmt.Fprintf(&sb, "%s=%q;", k, h[k])
	}
	return sb.String()
}

func (v view) diff(w view) string {
	switch {
	case v.Code != w.Code:
		return fmt.Sprintf("status %d vs %d", v.Code, w.Code)
	case v.Body != w.Body:
		return fmt.Sprintf("body %.120q vs %.120q", v.Body, w.Body)
	case hdrString(v.Header) != hdrString(w.Header):
		return fmt.Sprintf("headers %s vs %s", hdrString(v.Header), hdrString(w.Header))
	case hdrString(v.Trailer) != hdrString(w.Trailer):
		return fmt.Sprintf("trailers %s vs %s", hdrString(v.Trailer), hdrString(w.Trailer))
	}
	return ""
}

// patternSets enumerates all subsets of the pattern pool that net/http
// accepts (no two patterns collapsing to the same mount point).
func patternSets() [][]string {
	pool := []string{"/", "/api", "/api/", "/twirp", "/a/b", "/a", "/a/b/c/"}
	var out [][]string
	for mask := 1; mask < 1<<len(pool); mask++ {
		var set []string
		seen := map[string]bool{}
		ok := true
		for i, p := range pool {
			if mask&(1<<i) == 0 {
				continue
			}
			k := strings.TrimSuffix(p, "/")
			if seen[k] {
				ok = false
			}
			seen[k] = true
			set = append(set, p)
		}
		if ok {
			out = append(out, set)
		}
	}
	return out
}

// mountFor returns the longest configured prefix covering the URL path (as
// net/http's ServeMux picks it) and whether any covers it.
func mountFor(patterns []string, urlPath string) (string, bool) {
	best, ok := "", false
	for _, p := range patterns {
		pre := strings.TrimSuffix(p, "/")
		if strings.HasPrefix(urlPath, pre+"/") && (!ok || len(pre) > len(best)) {
			best, ok = pre, true
		}
	}
	return best, ok
}

type extraRec struct {
	paths []string
}

type env struct {
	std   *svc.Std
	bare  *larking.Mux
	calls int64
	// small: the same service on a mux with a 2 KiB receive limit (requests
	// whose body as a whole exceeds it while every message fits)
	small *larking.Mux
	// ref / refSmall: the same services on muxes that are NEVER handed to
	// NewServer: the bare reference. (bare and small are mounted over and
	// over; whatever a server construction leaves behind on its mux would
	// otherwise be in the reference as well.)
	ref, refSmall *larking.Mux
}

func newEnv() (*env, error) {
	e := &env{}
	std, err := svc.BuildStd("vf.std", "vf/std20.proto", "/v1")
	if err != nil {
		return nil, err
	}
	e.std = std
	if e.bare, err = std.NewMux(impl{&e.calls}); err != nil {
		return nil, err
	}
	if e.small, err = std.NewMux(impl{&e.calls}, larking.MaxReceiveMessageSizeOption(2048)); err != nil {
		return nil, err
	}
	if e.ref, err = std.NewMux(impl{&e.calls}); err != nil {
		return nil, err
	}
	e.refSmall, err = std.NewMux(impl{&e.calls}, larking.MaxReceiveMessageSizeOption(2048))
	return e, err
}

func exec(r *mon.Run, e *env, c *Case) {
	var extraSeen []string
	var opts []larking.ServerOption
	var callerPatterns []string
	if c.Patterns != nil {
		// the caller's own slice, with spare capacity like a slice built
		// with append has
		callerPatterns = append(make([]string, 0, len(c.Patterns)+2), c.Patterns...)
		opts = append(opts, larking.MuxHandleOption(callerPatterns...))
	}
	eff := c.Patterns
	if len(eff) == 0 {
		// no patterns (option absent, or given an empty list): the default
		// mount is the root
		eff = []string{"/"}
	}
	for _, p := range c.Extra {
		p := p
		opts = append(opts, larking.HTTPHandlerOption(p, http.HandlerFunc(func(w http.ResponseWriter, rq *http.Request) {
			extraSeen = append(extraSeen, p+"<-"+rq.URL.Path)
			w.Header().Set("X-Extra", p)
			w.Header().Set("X-Extra-Path", rq.URL.Path)
			w.WriteHeader(299)
		})))
	}
	if c.TLS {
		opts = append(opts, larking.TLSCredsOption(testTLS()))
	}
	var hs *http.Server
	var err error
	bareMux, refMux := e.bare, e.ref
	if c.Small {
		bareMux, refMux = e.small, e.refSmall
	}
	var lateMux *larking.Mux
	if c.LateReg {
		reg, rerr := vschema.Registry(e.std.FD)
		if rerr == nil {
			lateMux, rerr = larking.NewMux(larking.FilesOption(reg))
		}
		if rerr != nil {
			r.Inconclusive("late-registration mux: " + rerr.Error())
			return
		}
		bareMux = lateMux
	}
	for k := 0; k < c.Reuse; k++ {
		// earlier servers built from the same option values
		var e0 error
		if pi := mon.Catch(func() { _, e0 = larking.NewServer(bareMux, opts...) }); pi != nil || e0 != nil {
			r.Count("earlier_server_constructions_failed_left_to_the_last_one", 1)
		}
		r.Count("earlier_servers_built_with_the_same_option_value", 1)
	}
	if pi := mon.Catch(func() { hs, err = larking.NewServer(bareMux, opts...) }); pi != nil {
		r.Violate(pi.Key(), "NewServer panicked for patterns "+fmt.Sprint(c.Patterns), c)
		return
	}
	if err != nil {
		r.Violate("newserver-rejected-valid-patterns", err.Error(), c)
		return
	}
	r.Eval(1)
	if callerPatterns != nil && fmt.Sprint(callerPatterns) != fmt.Sprint(c.Patterns) {
		r.Violate("option-rewrote-the-callers-pattern-list", fmt.Sprintf("patterns handed to MuxHandleOption %q read %q after %d NewServer call(s)", c.Patterns, callerPatterns, c.Reuse+1), c)
	}
	if lateMux != nil {
		if rerr := larking.VerifRegisterService(lateMux, vschema.ServiceDesc(e.std.SD, impl{&e.calls}), struct{}{}); rerr != nil {
			r.Inconclusive("late registration refused: " + rerr.Error())
			return
		}
		r.Count("services_registered_after_newserver", 1)
	}
	before := atomic.LoadInt64(&e.calls)
	got := wire.Serve(hs.Handler, c.Req.build(c.URLPath))
	mid := atomic.LoadInt64(&e.calls)
	if got.Panic != nil {
		r.Violate(got.Panic.Key(), "mounted request panicked: "+got.Panic.Value, c)
		return
	}
	if got.Wedged {
		r.Inconclusive("mounted request did not return")
		return
	}
	// the most specific (= longest) matching pattern owns the path, whether
	// it is a mount's subtree or an extra handler's pattern
	mpre, mok := mountFor(eff, c.URLPath)
	for _, pat := range c.Extra {
		// ServeMux pattern grammar: [METHOD ][HOST]/[PATH]
		pm, ph, p := splitPattern(pat)
		own := c.URLPath == p || (strings.HasSuffix(p, "/") && strings.HasPrefix(c.URLPath, p))
		if strings.Contains(p, "{") {
			// single-segment wildcards of the Go 1.22 pattern grammar; a
			// literal pattern or a mount's subtree that matches too is more
			// specific
			own = wildMatch(p, c.URLPath)
			if own && mok && mpre != "" {
				own = false // (not generated: such a pair conflicts in net/http)
			}
			for _, pat2 := range c.Extra {
				if _, _, p2 := splitPattern(pat2); own && p2 != p && !strings.Contains(p2, "{") && (c.URLPath == p2 || (strings.HasSuffix(p2, "/") && strings.HasPrefix(c.URLPath, p2))) {
					own = false
				}
			}
		}
		if own && (pm != "" || ph != "") {
			if (pm != "" && pm != c.Req.Verb) || (ph != "" && ph != "verif.test") {
				// a qualified pattern that does not cover this request: what
				// net/http does next (405, fall through to "/") is its
				// business, not asserted here
				r.Count("qualified_pattern_other_method_or_host_skipped", 1)
				return
			}
		}
		if own && mok && len(mpre)+1 > len(p) {
			own = false // the mount's pattern is longer
		}
		if own {
			for _, pat2 := range c.Extra {
				_, _, p2 := splitPattern(pat2)
				if p2 != p && len(p2) > len(p) && (c.URLPath == p2 || (strings.HasSuffix(p2, "/") && strings.HasPrefix(c.URLPath, p2))) {
					own = false // a longer extra pattern matches too
				}
			}
		}
		if own {
			if mid != before || got.Code != 299 || got.Header.Get("X-Extra") != pat {
				r.Violate("extra-handler-not-served:"+c.Req.Kind, fmt.Sprintf("%s belongs to extra handler %q but got status %d (mux calls %d)", c.URLPath, pat, got.Code, mid-before), c)
			} else if seen := got.Header.Get("X-Extra-Path"); seen != decodedPath(c) {
				r.Violate("extra-handler-saw-rewritten-path", fmt.Sprintf("extra handler %q was called for %s but saw URL path %q", pat, c.URLPath, seen), c)
			} else {
				r.Distinct("extra:" + pat)
			}
			return
		}
	}
	if len(extraSeen) > 0 {
		r.Violate("extra-handler-got-foreign-path", fmt.Sprintf("%v (mount patterns %v)", extraSeen, c.Patterns), c)
		return
	}
	pre, ok := mountFor(eff, c.URLPath)
	if !ok {
		if mid != before {
			r.Violate("served-outside-every-prefix:"+c.Req.Kind, fmt.Sprintf("%s is under no mount prefix of %v but a larking handler ran", c.URLPath, c.Patterns), c)
			return
		}
		r.Count("outside_prefix_not_served", 1)
		r.Distinct(fmt.Sprintf("outside/%s/%d", c.Req.Kind, got.Code))
		return
	}
	want := wire.Serve(refMux, c.Req.build(strings.TrimPrefix(c.URLPath, pre)))
	r.Count("request_pairs", 1)
	if d := viewOf(got).diff(viewOf(want)); d != "" {
		r.Violate("mounted-differs-from-bare:"+c.Req.Kind+":"+strings.Fields(d)[0]+lifeClass(c), fmt.Sprintf("%s %s under %q vs bare %s: %s", c.Req.Verb, c.URLPath, pre, strings.TrimPrefix(c.URLPath, pre), d), c)
		return
	}
	cls := "root"
	if pre != "" {
		cls = fmt.Sprintf("depth%d", strings.Count(pre, "/"))
	}
	r.Distinct(fmt.Sprintf("%s/%s/%d/npat%d", cls, c.Req.Kind, got.Code, min(len(c.Patterns), 3)))
}

// decodedPath is the URL path a handler sees for the case's request.
// lifeClass names the life-cycle class of a case in finding keys.
func lifeClass(c *Case) string {
	k := ""
	if c.Reuse > 0 {
		k += ":option-value-used-for-an-earlier-server"
	}
	if c.LateReg {
		k += ":service-registered-after-newserver"
	}
	return k
}

func decodedPath(c *Case) string {
	if c.Req.Escaped {
		if u, err := url.PathUnescape(c.URLPath); err == nil {
			return u
		}
	}
	return c.URLPath
}

// wildMatch matches a path against a pattern whose segments may be {name}
// wildcards (each covers exactly one non-empty segment).
func wildMatch(pat, path string) bool {
	ps, qs := strings.Split(pat, "/"), strings.Split(path, "/")
	if len(ps) != len(qs) {
		return false
	}
	for i := range ps {
		if strings.HasPrefix(ps[i], "{") && strings.HasSuffix(ps[i], "}") {
			if qs[i] == "" {
				return false
			}
			continue
		}
		if ps[i] != qs[i] {
			return false
		}
	}
	return true
}

// splitPattern splits a ServeMux pattern "[METHOD ][HOST]/[PATH]".
func splitPattern(pat string) (method, host, path string) {
	if i := strings.IndexByte(pat, ' '); i >= 0 {
		method, pat = pat[:i], strings.TrimLeft(pat[i+1:], " ")
	}
	if i := strings.IndexByte(pat, '/'); i > 0 {
		host, pat = pat[:i], pat[i:]
	}
	return method, host, pat
}

func btoi(b bool) int {
	if b {
		return 1
	}
	return 0
}

var (
	tlsOnce sync.Once
	tlsCfg  *tls.Config
)

// testTLS returns a server TLS configuration with a self-signed certificate.
func testTLS() *tls.Config {
	tlsOnce.Do(func() {
		key, err := ecdsa.GenerateKey(elliptic.P256(), crand.Reader)
		if err != nil {
			panic(err)
		}
		tmpl := &x509.Certificate{SerialNumber: big.NewInt(1), Subject: pkix.Name{CommonName: "verif"}, NotBefore: time.Date(2000, 1, 1, 0, 0, 0, 0, time.UTC), NotAfter: time.Date(2090, 1, 1, 0, 0, 0, 0, time.UTC), DNSNames: []string{"localhost"}}
		der, err := x509.CreateCertificate(crand.Reader, tmpl, tmpl, &key.PublicKey, key)
		if err != nil {
			panic(err)
		}
		tlsCfg = &tls.Config{Certificates: []tls.Certificate{{Certificate: [][]byte{der}, PrivateKey: key}}}
	})
	return tlsCfg
}

func min(a, b int) int {
	if a < b {
		return a
	}
	return b
}

// Run is the C20 check.
func Run(r *mon.Run) {
	r.Rule = "all mount-pattern sets over {/, /api, /api/, /twirp, /a/b, /a, /a/b/c/} that net/http accepts x extra handlers on disjoint patterns x request table (transcoding GET/POST/PATCH with JSON and protobuf bodies, query strings, 404s, verbs, client/server streams, Twirp-style implicit bindings, gRPC unary/bidi/unknown method, gRPC-web and gRPC-web-text, successes and failures) x every configured prefix and some unconfigured ones; life-cycle classes: one MuxHandleOption value (one caller-owned slice) handed to 2-4 NewServer calls with the last server under test and the caller's slice compared afterwards, and a service registered on the mux after NewServer; served in-process through NewServer(...).Handler and compared (status, all headers, trailers, body) with the bare Mux serving the stripped path; plus a real h2c listener lane with a grpc-go client. distinct = (prefix depth, protocol, status, #patterns)"
	r.Floor = 20
	e, err := newEnv()
	if err != nil {
		r.Inconclusive("harness: " + err.Error())
		return
	}
	rng := r.Rand("c20")
	sets := patternSets()
	reqs := requests(e.std)
	outside := []string{"/zzz", "/ap", "/apix", "/a/bx", "/twirpx", "/b"}
	type setCfg struct {
		set   []string
		extra []string
		tls   bool
	}
	var cfgs []setCfg
	for si, set := range sets {
		if !r.Thorough() && si%3 != int(r.Seed%3) && len(set) > 2 {
			continue
		}
		withExtra := []string{"/extra/", "/static/file"}
		switch {
		case r.Thorough() || len(set) == 1:
			// single mounts (and everything in thorough) run both with and
			// without extra handlers: NewServer takes different paths
			cfgs = append(cfgs, setCfg{set: set}, setCfg{set: set, extra: withExtra})
		case si%2 == 0:
			cfgs = append(cfgs, setCfg{set: set, extra: withExtra})
		default:
			cfgs = append(cfgs, setCfg{set: set})
		}
	}
	// extra handlers whose subtree covers mounts, a catch-all next to the
	// mounts, an exact pattern inside a mount; and servers built with TLS
	var more []setCfg
	for ci, cfg := range cfgs {
		has := map[string]bool{}
		for _, p := range cfg.set {
			has[strings.TrimSuffix(p, "/")] = true
		}
		if !has[""] && ci%2 == 0 {
			more = append(more, setCfg{set: cfg.set, extra: []string{"/"}})
		}
		if !has["/a"] && (has["/a/b"] || has["/a/b/c"]) && ci%2 == 1 {
			more = append(more, setCfg{set: cfg.set, extra: []string{"/a/", "/"}[:1+ci%2*btoi(!has[""])]})
		}
		if has["/api"] && ci%3 == 0 {
			more = append(more, setCfg{set: cfg.set, extra: []string{"/api/v1/echo/xyz", "/api/v1/unary/"}})
		}
		if ci%4 == 0 {
			more = append(more, setCfg{set: cfg.set, extra: cfg.extra, tls: true})
		}
		if ci%3 == 1 {
			// a single-segment wildcard next to the mounts, and a handler on
			// exactly the mount point (which is not below the mount)
			ex := []string{"/{section}"}
			for k := range has {
				if k != "" && !strings.Contains(k[1:], "/") && ci%2 == 1 {
					ex = []string{k, "/{section}"}
					break
				}
			}
			more = append(more, setCfg{set: cfg.set, extra: ex})
		}
		if ci%5 == 0 {
			// host- and method-qualified patterns of the ServeMux grammar
			more = append(more, setCfg{set: cfg.set, extra: []string{"verif.test/hosted/", "GET /status", "POST verif.test/hooks/in"}})
		}
	}
	cfgs = append(cfgs, more...)
	exec0 := exec
	tlsNow := false
	exec := func(r *mon.Run, e *env, c *Case) {
		c.TLS = tlsNow
		exec0(r, e, c)
	}
	for _, cfg := range cfgs {
		set, extra := cfg.set, cfg.extra
		tlsNow = cfg.tls
		prefixes := map[string]bool{}
		for _, p := range set {
			prefixes[strings.TrimSuffix(p, "/")] = true
		}
		for pre := range prefixes {
			for _, q := range reqs {
				if !r.Thorough() && rng.Intn(3) != 0 {
					continue
				}
				exec(r, e, &Case{Patterns: set, Extra: extra, URLPath: pre + q.Path, Req: q})
			}
		}
		for _, o := range outside {
			q := reqs[rng.Intn(len(reqs))]
			exec(r, e, &Case{Patterns: set, Extra: extra, URLPath: o + q.Path, Req: q})
		}
		// a prefix glued to a route without the separating slash
		// ("/api" + "v1/echo") is outside the prefix: mounts end at a
		// path-segment boundary
		for pre := range prefixes {
			if pre == "" || prefixes[""] {
				continue
			}
			for _, q := range reqs {
				if len(q.Path) < 2 || (!r.Thorough() && rng.Intn(3) != 0) {
					continue
				}
				exec(r, e, &Case{Patterns: set, Extra: extra, URLPath: pre + q.Path[1:], Req: q})
			}
		}
		// the prefix repeated, and extra leading segments spelled with the
		// prefix's own characters: below the mount these are other paths
		// (e.g. /api/api/v1/echo is /api/v1/echo for the bare mux), nothing is
		// to be stripped twice or as a character set
		for pre := range prefixes {
			if pre == "" {
				continue
			}
			segs := strings.Split(strings.TrimPrefix(pre, "/"), "/")
			first := segs[0]
			var inner []string
			inner = append(inner, pre, "/"+first[:1], "/"+first[len(first)-1:])
			if len(first) > 1 {
				inner = append(inner, "/"+first[1:], "/"+first[:1]+"/"+first[1:])
			}
			for _, in := range inner {
				for _, q := range reqs {
					if !r.Thorough() && rng.Intn(6) != 0 {
						continue
					}
					exec(r, e, &Case{Patterns: set, Extra: extra, URLPath: pre + in + q.Path, Req: q})
				}
			}
		}
		if !prefixes[""] {
			// the bare routes themselves are outside every prefix when "/"
			// is not mounted: they must not be served either
			for _, q := range reqs {
				if !r.Thorough() && rng.Intn(2) != 0 {
					continue
				}
				exec(r, e, &Case{Patterns: set, Extra: extra, URLPath: q.Path, Req: q})
			}
		}
		for _, pat := range extra {
			pm, _, p := splitPattern(pat)
			if strings.Contains(p, "{") {
				cands := []string{"zzz"}
				for pre := range prefixes {
					if pre != "" && !strings.Contains(pre[1:], "/") {
						cands = append(cands, pre[1:])
					}
				}
				for _, cnd := range cands {
					u := strings.NewReplacer("{section}", cnd, "{item}", "it").Replace(p)
					for _, verb := range []string{"GET", "POST"} {
						exec(r, e, &Case{Patterns: set, Extra: extra, URLPath: u, Req: ReqSpec{Kind: "http", Verb: verb, Path: u}})
					}
				}
				continue
			}
			u := p
			if strings.HasSuffix(p, "/") {
				u += "some/dir/file.txt"
			}
			verb := "GET"
			if pm != "" {
				verb = pm
			}
			exec(r, e, &Case{Patterns: set, Extra: extra, URLPath: u, Req: ReqSpec{Kind: "http", Verb: verb, Path: u}})
		}
	}
	// the default mount: no MuxHandleOption at all (nil), the option without
	// patterns, the option with an empty list (a filtered configuration)
	// life cycle: (a) one MuxHandleOption value built once and handed to
	// several NewServer calls (a plaintext and a TLS listener, a restart):
	// every server built from it mounts the same prefixes; (b) a service
	// registered after NewServer is served under every prefix like on the
	// bare mux
	for si, set := range [][]string{{"/"}, {"/api"}, {"/api/"}, {"/", "/api/"}, {"/", "/api", "/twirp"}, {"/a/b", "/a/b/c/"}, {"/api", "/api/"[:4] + "2/"}} {
		for qi, q := range reqs {
			if !r.Thorough() && (qi+si)%3 != 0 {
				continue
			}
			for pi, p := range set {
				pre := strings.TrimSuffix(p, "/")
				tlsNow = (qi+pi)%2 == 1
				exec(r, e, &Case{Patterns: set, URLPath: pre + q.Path, Req: q, Reuse: 1 + (qi+si+pi)%3})
				tlsNow = false
				exec(r, e, &Case{Patterns: set, URLPath: pre + q.Path, Req: q, LateReg: true})
				if (qi+pi)%4 == 0 {
					exec(r, e, &Case{Patterns: set, URLPath: pre + q.Path, Req: q, LateReg: true, Reuse: 1})
				}
			}
		}
	}
	for _, pats := range [][]string{nil, {}, strings.Fields("")} {
		for _, q := range reqs {
			if !r.Thorough() && rng.Intn(2) != 0 {
				continue
			}
			exec(r, e, &Case{Patterns: pats, URLPath: q.Path, Req: q})
		}
		exec(r, e, &Case{Patterns: pats, Extra: []string{"/extra/"}, URLPath: "/v1/echo/xyz", Req: ReqSpec{Kind: "http", Verb: "GET", Path: "/v1/echo/xyz"}})
	}
	// requests whose body as a whole exceeds the mux's receive limit while
	// every message in it fits: the limit is per message, mounted or not
	{
		var many []byte
		for i := 0; i < 12; i++ {
			many = append(many, []byte(fmt.Sprintf(`{"id":"m%d","data":"%s"}`, i, strings.Repeat("QUJD", 150)))...)
		}
		jh := map[string][]string{"Content-Type": {"application/json"}}
		big := []ReqSpec{
			{Kind: "http", Verb: "POST", Path: "/v1/cs", Header: jh, Body: many},
			{Kind: "http", Verb: "POST", Path: "/v1/upload/f.bin", Header: map[string][]string{"Content-Type": {"application/octet-stream"}}, Body: bytes.Repeat([]byte{0xab}, 9000)},
			{Kind: "grpc", Verb: "POST", Path: e.std.Full("Bidi"), Body: bytes.Repeat(wire.Frame(chunkProto(strings.Repeat("x", 900)), false), 6)},
			{Kind: "web", Verb: "POST", Path: e.std.Full("Echo"), Body: wire.Frame(chunkProto(strings.Repeat("y", 1500)), false)},
		}
		for _, set := range [][]string{{"/"}, {"/api"}, {"/", "/api"}, {"/a/b/c/"}} {
			for _, tlsOn := range []bool{false, true} {
				for _, q := range big {
					for _, p := range set {
						c := &Case{Patterns: set, URLPath: strings.TrimSuffix(p, "/") + q.Path, Req: q, Small: true}
						tlsNow = tlsOn
						exec(r, e, c)
					}
				}
			}
		}
		tlsNow = false
	}
	socketLane(r, e)
	pacedLane(r, e)
	r.Sample(Case{Patterns: []string{"/api", "/a/b"}, URLPath: "/api/v1/echo/xyz", Req: ReqSpec{Kind: "http", Verb: "GET", Path: "/v1/echo/xyz"}})
	r.Sample(Case{Patterns: []string{"/", "/twirp"}, URLPath: "/twirp/vf.std.Std/Echo", Req: ReqSpec{Kind: "twirp", Verb: "POST", Path: "/vf.std.Std/Echo"}})
	r.Assume("with no mount pattern configured (no MuxHandleOption, or one with an empty list) the mux is mounted at the root; request paths are clean (net/http's ServeMux redirects unclean ones); the longest configured prefix wins, as in net/http; pattern sets that net/http itself refuses (duplicates) are not generated")
}

// socketLane: gRPC and gRPC-web over real h2c listeners, mounted vs bare.
func socketLane(r *mon.Run, e *env) {
	bare, err := wire.StartLarking(e.bare, nil)
	if err != nil {
		r.Inconclusive("listener: " + err.Error())
		return
	}
	defer bare.Close()
	plain, err := wire.StartH2C(e.ref, nil)
	if err != nil {
		r.Inconclusive("listener: " + err.Error())
		plain = nil
	} else {
		defer plain.Close()
	}
	for _, pats := range [][]string{{"/api"}, {"/", "/twirp"}, {"/a", "/a/b"}} {
		srv, err := wire.StartLarking(e.bare, nil, larking.MuxHandleOption(pats...))
		if err != nil {
			r.Violate("newserver-rejected-valid-patterns", err.Error(), pats)
			continue
		}
		ccM, _ := wire.Dial(srv.Addr)
		ccB, _ := wire.Dial(bare.Addr)
		for _, p := range pats {
			pre := strings.TrimSuffix(p, "/")
			if _, ok := mountFor(pats, pre+e.std.Full("Echo")); !ok {
				continue
			}
			if best, _ := mountFor(pats, pre+e.std.Full("Echo")); best != pre {
				continue
			}
			for _, id := range []string{"ok", "fail"} {
				ctx, cancel := context.WithTimeout(context.Background(), 15*time.Second)
				in := vschema.NewMsg(vschema.Msg("vf.Chunk"))
				protojson.Unmarshal(chunkJSON(id), in)
				outM, outB := vschema.NewMsg(vschema.Msg("vf.Chunk")), vschema.NewMsg(vschema.Msg("vf.Chunk"))
				errM := ccM.Invoke(ctx, pre+e.std.Full("Echo"), in, outM)
				errB := ccB.Invoke(ctx, e.std.Full("Echo"), in, outB)
				timedOut := ctx.Err() != nil
				cancel()
				r.Eval(1)
				r.Count("socket_grpc_pairs", 1)
				if timedOut {
					r.Inconclusive("socket gRPC call timed out")
					continue
				}
				sm, sb := status.Convert(errM), status.Convert(errB)
				if sm.Code() != sb.Code() || sm.Message() != sb.Message() || !proto.Equal(outM, outB) {
					r.Violate("mounted-differs-from-bare:socket-grpc", fmt.Sprintf("prefix %q: mounted (%v, %v) vs bare (%v, %v)", pre, sm.Code(), sm.Message(), sb.Code(), sb.Message()), map[string]any{"patterns": pats, "prefix": pre, "id": id})
				} else {
					r.Distinct(fmt.Sprintf("socket-grpc/%s/depth%d", sm.Code(), strings.Count(pre, "/")))
				}
				// gRPC-web over HTTP/1.1
				for _, url := range []string{srv.URL + pre, bare.URL} {
					_ = url
				}
				bm := postWeb(srv.URL+pre+e.std.Full("Echo"), wire.Frame(chunkProto(id), false))
				bb := postWeb(bare.URL+e.std.Full("Echo"), wire.Frame(chunkProto(id), false))
				r.Count("socket_web_pairs", 1)
				if bm != bb {
					r.Violate("mounted-differs-from-bare:socket-web", fmt.Sprintf("prefix %q: %.160q vs %.160q", pre, bm, bb), map[string]any{"patterns": pats, "prefix": pre, "id": id})
				} else {
					r.Distinct(fmt.Sprintf("socket-web/depth%d/%s", strings.Count(pre, "/"), id))
				}
			}
		}
		// raw HTTP/1.1 exchanges: the bytes on the wire (status line, header
		// set, framing, what follows the header block), mounted vs the bare mux
		// behind a plain h2c server
		if plain != nil {
			for _, p := range pats {
				pre := strings.TrimSuffix(p, "/")
				if best, ok := mountFor(pats, pre+"/v1/echo/xyz"); !ok || best != pre {
					continue
				}
				for _, q := range rawRequests(e.std) {
					m, errM := rawHTTP1(srv.Addr, q.verb, pre+q.target, q.ctype, q.body)
					b, errB := rawHTTP1(plain.Addr, q.verb, q.target, q.ctype, q.body)
					r.Eval(1)
					r.Count("socket_raw_http1_pairs", 1)
					if errM != nil || errB != nil {
						r.Inconclusive(fmt.Sprintf("raw exchange: %v / %v", errM, errB))
						continue
					}
					if m != b {
						r.Violate("mounted-differs-from-bare:socket-raw-http1:"+q.verb, fmt.Sprintf("%s %s below %q: mounted %.300q vs bare %.300q", q.verb, q.target, pre, m, b), map[string]any{"patterns": pats, "prefix": pre, "verb": q.verb, "target": q.target})
					} else {
						r.Distinct(fmt.Sprintf("socket-raw/%s/depth%d/%s", q.verb, strings.Count(pre, "/"), strings.SplitN(strings.TrimPrefix(m, "HTTP/1.1 "), " ", 2)[0]))
					}
				}
			}
		}
		if l := srv.ErrLog(); strings.Contains(l, "panic") {
			r.Violate("socket:panic-serving", l, pats)
		}
		ccM.Close()
		ccB.Close()
		srv.Close()
	}
}

type rawReq struct {
	verb, target, ctype string
	body                []byte
}

func rawRequests(std *svc.Std) []rawReq {
	return []rawReq{
		{verb: "GET", target: "/v1/echo/xyz"},
		{verb: "HEAD", target: "/v1/echo/xyz"},
		{verb: "HEAD", target: "/v1/unary/hello?n=5"},
		{verb: "HEAD", target: "/v1/nothing/here"},
		{verb: "HEAD", target: std.Full("Echo")},
		{verb: "OPTIONS", target: "/v1/echo/xyz"},
		{verb: "GET", target: "/v1/unary/hello?n=5;sub.a=q"},
		{verb: "GET", target: "/v1/unary/hello?sub.a=a;b"},
		{verb: "GET", target: "/v1/unary/hello?n=7;"},
		{verb: "GET", target: "/v1/nothing/here"},
		{verb: "POST", target: "/v1/echo", ctype: "application/json", body: chunkJSON("r")},
		{verb: "POST", target: "/v1/echo", ctype: "application/json", body: chunkJSON("fail")},
		{verb: "POST", target: "/v1/ss", ctype: "application/json", body: chunkJSON("s")},
		{verb: "DELETE", target: "/v1/echo"},
	}
}

// rawHTTP1 sends one HTTP/1.1 request with Connection: close and returns
// everything the server wrote, minus the Date header line.
func rawHTTP1(addr, verb, target, ctype string, body []byte) (string, error) {
	conn, err := net.DialTimeout("tcp", addr, 5*time.Second)
	if err != nil {
		return "", err
	}
	defer conn.Close()
	var sb strings.Builder
	fmt.Fprintf(&sb, "%s %s HTTP/1.1\r\nHost: verif.test\r\nConnection: close\r\n", verb, target)
	if ctype != "" {
		fmt.Fprintf(&sb, "Content-Type: %s\r\n", ctype)
	}
	if body != nil {
		fmt.Fprintf(&sb, "Content-Length: %d\r\n", len(body))
	}
	sb.WriteString("\r\n")
	sb.Write(body)
	conn.SetDeadline(time.Now().Add(15 * time.Second))
	if _, err := conn.Write([]byte(sb.String())); err != nil {
		return "", err
	}
	raw, err := io.ReadAll(conn)
	if err != nil && len(raw) == 0 {
		return "", err
	}
	var keep []string
	head, rest, _ := strings.Cut(string(raw), "\r\n\r\n")
	for _, l := range strings.Split(head, "\r\n") {
		if !strings.HasPrefix(strings.ToLower(l), "date:") {
			keep = append(keep, l)
		}
	}
	return strings.Join(keep, "\r\n") + "\r\n\r\n" + rest, nil
}

// pacedLane: a bidi call whose client paces its messages over real h2c
// listeners, on a mux built with a SMALL ConnectionTimeoutOption: mounted
// through NewServer (root and /api) vs the same mux behind a plain h2c server.
// The option names a connection set-up timeout; it must not cut streams that
// are open for longer, mounted or not.
func pacedLane(r *mon.Run, e *env) {
	slow, err := e.std.NewMux(impl{&e.calls}, larking.ConnectionTimeoutOption(250*time.Millisecond))
	if err != nil {
		r.Inconclusive("paced lane mux: " + err.Error())
		return
	}
	bare, err := wire.StartH2C(slow, nil)
	if err != nil {
		r.Inconclusive("listener: " + err.Error())
		return
	}
	defer bare.Close()
	srv, err := wire.StartLarking(slow, nil, larking.MuxHandleOption("/", "/api"))
	if err != nil {
		r.Violate("newserver-rejected-valid-patterns", err.Error(), nil)
		return
	}
	defer srv.Close()
	type res struct {
		replies int
		code    codes.Code
		msg     string
	}
	call := func(addr, full string) res {
		cc, err := wire.Dial(addr)
		if err != nil {
			return res{-1, codes.Unavailable, err.Error()}
		}
		defer cc.Close()
		ctx, cancel := context.WithTimeout(context.Background(), 20*time.Second)
		defer cancel()
		st, err := cc.NewStream(ctx, &grpc.StreamDesc{ClientStreams: true, ServerStreams: true}, full)
		if err != nil {
			return res{-1, status.Code(err), status.Convert(err).Message()}
		}
		var out res
		for i := 0; i < 3; i++ {
			if i > 0 {
				time.Sleep(400 * time.Millisecond)
			}
			in := vschema.NewMsg(vschema.Msg("vf.Chunk"))
			protojson.Unmarshal(chunkJSON(fmt.Sprintf("p%d", i)), in)
			if err := st.SendMsg(in); err != nil {
				break
			}
			rep := vschema.NewMsg(vschema.Msg("vf.Chunk"))
			if err := st.RecvMsg(rep); err != nil {
				out.code, out.msg = status.Code(err), status.Convert(err).Message()
				return out
			}
			out.replies++
		}
		st.CloseSend()
		for {
			rep := vschema.NewMsg(vschema.Msg("vf.Chunk"))
			err := st.RecvMsg(rep)
			if err == io.EOF {
				return out
			}
			if err != nil {
				out.code, out.msg = status.Code(err), status.Convert(err).Message()
				return out
			}
			out.replies++
		}
	}
	var wg sync.WaitGroup
	results := make([]res, 3)
	for i, tgt := range []struct{ addr, full string }{{bare.Addr, e.std.Full("Bidi")}, {srv.Addr, e.std.Full("Bidi")}, {srv.Addr, "/api" + e.std.Full("Bidi")}} {
		wg.Add(1)
		go func(i int, addr, full string) {
			defer wg.Done()
			results[i] = call(addr, full)
		}(i, tgt.addr, tgt.full)
	}
	wg.Wait()
	r.Eval(2)
	want := results[0]
	if want.replies != 3 || want.code != codes.OK {
		r.Inconclusive(fmt.Sprintf("paced reference call on the plain h2c server: %+v", want))
		return
	}
	for i, name := range []string{"", "root mount", "/api mount"} {
		if i == 0 {
			continue
		}
		if results[i] != want {
			r.Violate("mounted-differs-from-bare:paced-stream", fmt.Sprintf("a bidi call with 400 ms between its messages on a mux with ConnectionTimeoutOption(250ms): %s gives %+v, the same mux behind a plain h2c server %+v", name, results[i], want), map[string]any{"mount": name})
			return
		}
	}
	r.Count("paced_stream_pairs", 2)
	r.Distinct("paced-stream/root")
	r.Distinct("paced-stream/api")
}

func postWeb(url string, body []byte) string {
	req, _ := http.NewRequest("POST", url, bytes.NewReader(body))
	req.Header.Set("Content-Type", "application/grpc-web+proto")
	resp, err := wire.H1Client().Do(req)
	if err != nil {
		return "error: " + err.Error()
	}
	defer resp.Body.Close()
	b, _ := io.ReadAll(resp.Body)
	return fmt.Sprintf("%d|%s|%s|%x", resp.StatusCode, resp.Header.Get("Content-Type"), resp.Header.Get("Grpc-Status"), b)
}

// Replay re-executes a stored case.
func Replay(r *mon.Run, raw json.RawMessage) {
	var c Case
	if err := json.Unmarshal(raw, &c); err != nil || len(c.Patterns) == 0 {
		r.Inconclusive("bad replay case")
		return
	}
	e, err := newEnv()
	if err != nil {
		r.Inconclusive(err.Error())
		return
	}
	r.Distinct("replay-a")
	r.Distinct("replay-b")
	exec(r, e, &c)
}

var _ = rand.Int
