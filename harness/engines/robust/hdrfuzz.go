package robust

import (
	"fmt"
	"math/rand"
	"strings"
	"sync"

	"verif/internal/mon"
)

// Header-value grammar fuzzing for the headers larking (or the WebSocket
// upgrader it calls) parses itself. A valid value is cut into lexical pieces
// (tokens, single separator bytes, whole quoted strings); hostile pieces are
// then inserted at every gap: after the type, after ';', inside and after
// parameters, after q-values, before and after ','.

// hdrBases lists valid values per parsed header.
var hdrBases = map[string][]string{
	"Accept": {
		"application/json",
		"application/json;q=0.5, text/*;q=0.1",
		"text/html;level=1;q=0.7, application/protobuf; charset=utf-8, */*;q=0.01",
		`application/json; profile="x y\"z"; q=1.0`,
	},
	"Accept-Encoding":          {"gzip", "gzip;q=1.0, identity;q=0.5, *;q=0", "deflate, gzip"},
	"Content-Type":             {"application/json", "application/json; charset=utf-8", "application/grpc+proto", "application/grpc-web-text+json", `multipart/form-data; boundary="x"`},
	"Content-Encoding":         {"gzip", "identity", "gzip, identity"},
	"Grpc-Timeout":             {"10S", "99999999H", "1m"},
	"Grpc-Encoding":            {"gzip", "identity"},
	"Grpc-Accept-Encoding":     {"gzip, identity"},
	"Upgrade":                  {"websocket", "websocket, h2c"},
	"Connection":               {"Upgrade", "keep-alive, Upgrade"},
	"Twirp-Version":            {"v5.7.0"},
	"Te":                       {"trailers"},
	"X-Foo-Bin":                {"YQ==", "YWJj"},
	"Sec-Websocket-Key":        {"dGhlIHNhbXBsZSBub25jZQ=="},
	"Sec-Websocket-Version":    {"13"},
	"Sec-Websocket-Protocol":   {"chat, superchat"},
	"Sec-Websocket-Extensions": {`permessage-deflate; client_max_window_bits=10, x-ext; a="b"`},
}

var hdrFuzzNames = func() []string {
	var n []string
	for k := range hdrBases {
		n = append(n, k)
	}
	for i := 1; i < len(n); i++ {
		for j := i; j > 0 && n[j] < n[j-1]; j-- {
			n[j], n[j-1] = n[j-1], n[j]
		}
	}
	return n
}()

type hostilePiece struct{ text, class string }

// hostilePieces: every HTTP separator, controls, bytes >= 0x80, comments,
// quoted strings with escapes, unbalanced quotes, empty list elements.
var hostilePieces = func() []hostilePiece {
	var out []hostilePiece
	for _, c := range "()<>@,;:\\\"/[]?={}" {
		out = append(out, hostilePiece{string(c), "sep" + fmt.Sprintf("%02x", c)})
	}
	for _, p := range []hostilePiece{
		{" ", "space"}, {"\t", "tab"}, {"\x00", "nul"}, {"\x7f", "del"}, {"\x80", "byte80"}, {"\xff", "byteff"}, {"é", "utf8"},
		{"(comment)", "comment"}, {" (preferred)", "sp-comment"}, {"(unbalanced", "comment-open"}, {"(a(b)c)", "comment-nested"},
		{`"q\"e\\"`, "quoted-esc"}, {`"open`, "quote-open"}, {`"`, "quote-lone"}, {`\`, "backslash-end"},
		{",,", "empty-elem"}, {";;", "empty-param"}, {", ,", "blank-elem"}, {"=", "eq"}, {"==", "eqeq"}, {"*", "star"},
		{" [1]", "sp-bracket"}, {"@en", "at-suffix"}, {"\r\n x", "obs-fold"}, {"q=", "q-empty"}, {";q=1.5", "q-over"}, {";q=0.0000000001", "q-long"},
	} {
		out = append(out, p)
	}
	return out
}()

func isTokenByte(c byte) bool {
	return c > 0x20 && c < 0x7f && !strings.ContainsRune("()<>@,;:\\\"/[]?={}", rune(c)) || c == '/'
}

// lexPieces cuts a header value into tokens (incl. '/'), quoted strings and
// single other bytes.
func lexPieces(s string) []string {
	var out []string
	for i := 0; i < len(s); {
		switch {
		case isTokenByte(s[i]):
			j := i
			for j < len(s) && isTokenByte(s[j]) {
				j++
			}
			out = append(out, s[i:j])
			i = j
		case s[i] == '"':
			j := i + 1
			for j < len(s) && s[j] != '"' {
				if s[j] == '\\' {
					j++
				}
				j++
			}
			if j < len(s) {
				j++
			}
			out = append(out, s[i:j])
			i = j
		default:
			out = append(out, s[i:i+1])
			i++
		}
	}
	return out
}

func gapClass(pieces []string, gap int) string {
	if gap == 0 {
		return "start"
	}
	if gap == len(pieces) {
		return "end"
	}
	prev := pieces[gap-1]
	switch {
	case prev == ";" || prev == "," || prev == "=" || prev == " ":
		return "after" + fmt.Sprintf("%02x", prev[0])
	case strings.HasPrefix(prev, `"`):
		return "after-quoted"
	case strings.ContainsAny(prev, "0123456789") && gap >= 2 && pieces[gap-2] == "=":
		return "after-value"
	default:
		return "after-token"
	}
}

func insertAt(pieces []string, gap int, p string) string {
	return strings.Join(pieces[:gap], "") + p + strings.Join(pieces[gap:], "")
}

// fuzzHeaderValue applies 1..3 random piece-level edits to a valid value.
func fuzzHeaderValue(rng *rand.Rand, name string) (string, string) {
	bases := hdrBases[name]
	pieces := lexPieces(bases[rng.Intn(len(bases))])
	class := ""
	for e := 0; e < 1+rng.Intn(3); e++ {
		switch x := rng.Intn(10); {
		case x < 6 || len(pieces) == 0:
			hp := hostilePieces[rng.Intn(len(hostilePieces))]
			gap := rng.Intn(len(pieces) + 1)
			if class == "" {
				class = hp.class + "@" + gapClass(pieces, gap)
			}
			pieces = append(pieces[:gap:gap], append([]string{hp.text}, pieces[gap:]...)...)
		case x < 7:
			i := rng.Intn(len(pieces))
			pieces = append(pieces[:i:i], pieces[i+1:]...)
			if class == "" {
				class = "delete-piece"
			}
		case x < 8:
			i := rng.Intn(len(pieces))
			pieces = append(pieces[:i+1:i+1], pieces[i:]...)
			if class == "" {
				class = "dup-piece"
			}
		case x < 9:
			i := rng.Intn(len(pieces))
			pieces[i] = hostilePieces[rng.Intn(len(hostilePieces))].text
			if class == "" {
				class = "replace-piece"
			}
		default:
			// very long list
			el := strings.Join(pieces, "") + pick(rng, []string{",", ", ", ";", " "})
			n := 200 + rng.Intn(3000)
			if n*len(el) > 200000 {
				n = 200000 / len(el)
			}
			if class == "" {
				class = "long-list"
			}
			// always the last edit: the value is not multiplied again
			return strings.Repeat(el, n), class
		}
	}
	return strings.Join(pieces, ""), class
}

func init() {
	m := mutator{"h:grammar", "hwg", func(rng *rand.Rand, c *Case, g *genCtx) string {
		name := pick(rng, hdrFuzzNames)
		if rng.Intn(2) == 0 {
			name = pick(rng, []string{"Accept", "Accept-Encoding", "Content-Type"})
		}
		v, class := fuzzHeaderValue(rng, name)
		if rng.Intn(8) == 0 {
			v2, _ := fuzzHeaderValue(rng, name)
			setH(c, name, v, v2)
		} else {
			setH(c, name, v)
		}
		return "hg:" + strings.ToLower(name) + ":" + class
	}}
	// indexed directly (three times: drawn more often than one table entry)
	for _, e := range []string{"http", "grpc", "web", "webtext", "ws"} {
		mutByEntry[e] = append(mutByEntry[e], m, m, m)
	}
}

// ------------------------------------------------------------------ sweep

// sweepContext is a request the fuzzed header is attached to. Succeeding and
// failing requests are both used so that every negotiation site runs (the
// reply path and the error encoder).
type sweepContext struct {
	name string
	base func() *Case
}

func sweepContexts(std *target) map[string][]sweepContext {
	echo := func() *Case {
		c := &Case{Entry: "http", Method: "POST", Path: "/v1/echo", Proto: 1, CL: clExact, Body: []byte(`{"id":"x","seq":3}`)}
		setH(c, "Content-Type", "application/json")
		return c
	}
	get := func() *Case {
		return &Case{Entry: "http", Method: "GET", Path: "/v1/unary/x", Query: "b=y", Proto: 1, CL: clExact}
	}
	handlerFail := func() *Case {
		c := get()
		setH(c, "X-Vf-Act", "code=5;msg=short;det=1")
		return c
	}
	routeFail := func() *Case {
		return &Case{Entry: "http", Method: "GET", Path: "/v1/no/such/route", Proto: 1, CL: clExact}
	}
	stream := func() *Case {
		c := &Case{Entry: "http", Method: "POST", Path: "/v1/bidi", Proto: 1, CL: clExact, Body: []byte(`{"id":"a"}{"id":"b"}`)}
		setH(c, "Content-Type", "application/json")
		return c
	}
	download := func() *Case {
		return &Case{Entry: "http", Method: "GET", Path: "/v1/downloadu/x", Proto: 1, CL: clExact}
	}
	grpcOK := func() *Case {
		c := &Case{Entry: "grpc", Method: "POST", Path: "/vf.std.Std/Echo", Proto: 2, CL: clUnknown, Body: []byte{0, 0, 0, 0, 3, 0x0a, 0x01, 'g'}}
		setH(c, "Content-Type", "application/grpc")
		setH(c, "Te", "trailers")
		return c
	}
	grpcFail := func() *Case {
		c := grpcOK()
		setH(c, "X-Vf-Act", "code=9;msg=pct")
		return c
	}
	web := func() *Case {
		c := grpcOK()
		c.Entry, c.Proto, c.CL = "web", 1, clExact
		setH(c, "Content-Type", "application/grpc-web+proto")
		return c
	}
	ws := func() *Case {
		c := &Case{Entry: "ws-mem", Method: "GET", Path: "/v1/ws/room1", Proto: 1, CL: clExact}
		setH(c, "Upgrade", "websocket")
		setH(c, "Connection", "Upgrade")
		setH(c, "Sec-Websocket-Key", "dGhlIHNhbXBsZSBub25jZQ==")
		setH(c, "Sec-Websocket-Version", "13")
		c.Body = append(wsText([]byte(`{"text":"hi"}`)), wsClose(closeBody(1000, ""))...)
		return c
	}
	wsRouteFail := func() *Case {
		c := ws()
		c.Path = "/v1/not/a/ws/route"
		return c
	}
	httpAll := []sweepContext{{"ok-post", echo}, {"ok-get", get}, {"handler-error", handlerFail}, {"route-error", routeFail}, {"stream", stream}, {"httpbody", download}}
	grpcAll := []sweepContext{{"grpc-ok", grpcOK}, {"grpc-error", grpcFail}, {"web-ok", web}}
	wsAll := []sweepContext{{"ws-ok", ws}, {"ws-route-error", wsRouteFail}}
	all := append(append(append([]sweepContext{}, httpAll...), grpcAll...), wsAll...)
	return map[string][]sweepContext{
		"Accept":                   append(append([]sweepContext{}, httpAll...), wsRouteFail2(wsAll)...),
		"Accept-Encoding":          append(append([]sweepContext{}, httpAll...), wsRouteFail2(wsAll)...),
		"Content-Type":             all,
		"Content-Encoding":         httpAll,
		"Grpc-Timeout":             grpcAll,
		"Grpc-Encoding":            grpcAll,
		"Grpc-Accept-Encoding":     grpcAll,
		"Upgrade":                  all,
		"Connection":               append(append([]sweepContext{}, wsAll...), httpAll[0], httpAll[3]),
		"Twirp-Version":            httpAll,
		"Te":                       append(append([]sweepContext{}, grpcAll...), httpAll[0]),
		"X-Foo-Bin":                append(append([]sweepContext{}, grpcAll[:2]...), httpAll[0], httpAll[2], wsAll[0]),
		"Sec-Websocket-Key":        wsAll,
		"Sec-Websocket-Version":    wsAll,
		"Sec-Websocket-Protocol":   wsAll,
		"Sec-Websocket-Extensions": wsAll,
	}
}

func wsRouteFail2(ws []sweepContext) []sweepContext { return ws[1:] }

// sweepCases enumerates header x base value x gap x hostile piece x request
// context. On the quick tier gaps of the same class (e.g. after a token) are
// visited once per base value.
func sweepCases(r *mon.Run, std *target) []*Case {
	ctxs := sweepContexts(std)
	var out []*Case
	n := 0
	for _, name := range hdrFuzzNames {
		for _, base := range hdrBases[name] {
			pieces := lexPieces(base)
			seen := map[string]bool{}
			for gap := 0; gap <= len(pieces); gap++ {
				gc := gapClass(pieces, gap)
				if !r.Thorough() && seen[gc] {
					continue
				}
				seen[gc] = true
				for _, hp := range hostilePieces {
					v := insertAt(pieces, gap, hp.text)
					for _, sc := range ctxs[name] {
						c := sc.base()
						setH(c, name, v)
						c.Target = "std"
						c.Opts = []int{0, 7, 4, 3}[n%4]
						n++
						c.Muts = []string{"hg:" + strings.ToLower(name) + ":" + hp.class + "@" + gc, "ctx:" + sc.name}
						c.EP = sc.name
						out = append(out, c)
					}
				}
			}
		}
	}
	return out
}

// runHeaderSweep serves the enumerated header-grammar cases in-process, in
// parallel slices; a request that does not return is abandoned by the
// watchdog and reported with its goroutine dump.
func runHeaderSweep(r *mon.Run) {
	std0, err := newStdTarget()
	if err != nil {
		r.Inconclusive("harness: standard service: " + err.Error())
		return
	}
	cases := sweepCases(r, std0)
	const workers = 16
	var wg sync.WaitGroup
	for w := 0; w < workers; w++ {
		wg.Add(1)
		go func(w int) {
			defer wg.Done()
			st := newStats()
			defer st.flush(r)
			std, err := newStdTarget()
			if err != nil {
				return
			}
			for i := w; i < len(cases); i += workers {
				if wedgesSeen.Load() >= maxWedges {
					st.count("cases_skipped_after_repeated_wedges", (len(cases)-i+workers-1)/workers)
					return
				}
				c := cases[i]
				bt, err := std.get(c.Opts)
				if err != nil {
					continue
				}
				o := serveInproc(c, bt)
				st.count("header_grammar_sweep_requests", 1)
				record(r, st, c, o)
			}
		}(w)
	}
	wg.Wait()
}
