package robust

import (
	"bytes"
	"context"
	"encoding/json"
	"fmt"
	"io"
	"net"
	"net/http"
	"net/url"
	"os"
	"runtime"
	"strings"
	"sync"
	"time"

	"larking.io/larking"

	"verif/internal/mon"
	"verif/internal/wire"
)

// tracker sits between net/http's ServeMux and the larking Mux on a real
// server (installed through larking.HTTPHandlerOption, so the server is still
// built by larking.NewServer). It does not recover: panics reach net/http,
// which logs "panic serving". It only records which requests are in flight.
type tracker struct {
	mux      http.Handler
	mu       sync.Mutex
	inflight map[int64]int64 // request id -> goroutine id
	next     int64
	panics   int
	served   int
}

func (t *tracker) ServeHTTP(w http.ResponseWriter, r *http.Request) {
	t.mu.Lock()
	t.next++
	id := t.next
	t.inflight[id] = curGID()
	t.served++
	t.mu.Unlock()
	ok := false
	defer func() {
		t.mu.Lock()
		delete(t.inflight, id)
		if !ok {
			t.panics++
		}
		t.mu.Unlock()
	}()
	t.mux.ServeHTTP(w, r)
	ok = true
}

func (t *tracker) state() (inflight int, gid int64, panics, served int) {
	t.mu.Lock()
	defer t.mu.Unlock()
	for _, g := range t.inflight {
		gid = g
	}
	return len(t.inflight), gid, t.panics, t.served
}

type sockServer struct {
	attributed int // "panic serving" lines attributed to a case
	bt         *built
	srv        *wire.Server
	tr         *tracker
	h2         *http.Client
	dead       bool
}

func newSockServer(t *target, opts int) (*sockServer, error) {
	bt, err := t.get(opts)
	if err != nil {
		return nil, err
	}
	bt.b.mu.Lock()
	bt.b.cap = sockSpinCap
	bt.b.mu.Unlock()
	tr := &tracker{mux: bt.mux, inflight: map[int64]int64{}}
	srv, err := wire.StartLarking(bt.mux, nil, larking.HTTPHandlerOption("/", tr), larking.MuxHandleOption("/vf-unused-mount"))
	if err != nil {
		return nil, err
	}
	return &sockServer{bt: bt, srv: srv, tr: tr, h2: wire.H2CClient()}, nil
}

func (s *sockServer) close() {
	s.h2.CloseIdleConnections()
	s.srv.Close()
}

const sockIOTimeout = 5 * time.Second

// run executes one case over the real listener and waits until the server
// has finished with it.
func (s *sockServer) run(c *Case) *outcome {
	o := &outcome{}
	s.bt.b.reset()
	logStart := len(s.srv.ErrLog())
	_, _, panics0, served0 := s.tr.state()
	switch c.Entry {
	case "sock-h1":
		o.code, o.note = s.rawH1(c, false)
	case "sock-ws":
		o.code, o.note = s.rawH1(c, true)
	case "sock-h2c":
		o.code, o.note = s.h2c(c)
	}
	// the server must finish with the request (all client input has been sent
	// and the client side is closed / done)
	deadline := time.Now().Add(wire.WedgeTimeout)
	sleep := 50 * time.Microsecond
	for {
		n, gid, _, _ := s.tr.state()
		if n == 0 {
			break
		}
		if time.Now().After(deadline) {
			buf := make([]byte, 4<<20)
			o.wedged, o.gid, o.dump = true, gid, string(buf[:runtime.Stack(buf, true)])
			s.dead = true
			return o
		}
		time.Sleep(sleep)
		if sleep < 5*time.Millisecond {
			sleep *= 2
		}
	}
	_, _, panics1, served1 := s.tr.state()
	if served1 > served0 {
		o.note += " reached-mux"
	}
	if panics1 > panics0 {
		// net/http logs after the handler goroutine unwound
		for i := 0; i < 400 && !strings.Contains(s.srv.ErrLog()[logStart:], "panic serving"); i++ {
			time.Sleep(5 * time.Millisecond)
		}
	}
	o.errlog = s.srv.ErrLog()[logStart:]
	s.attributed += strings.Count(o.errlog, "panic serving")
	if panics1 > panics0 && !strings.Contains(o.errlog, "panic serving") {
		o.errlog += "\npanic serving (observed by the tracker; the server log did not show it in time)"
	}
	o.calls, o.spins, o.recvs = s.bt.b.snapshot()
	o.recvCap = s.bt.b.recvCap()
	return o
}

func (c *Case) rawRequest(ws bool) []byte {
	var b bytes.Buffer
	method := c.Method
	target := string(c.Path)
	if c.Query != "" {
		target += "?" + string(c.Query)
	}
	fmt.Fprintf(&b, "%s %s HTTP/1.1\r\nHost: verif.test\r\n", method, target)
	if _, ok := c.Header["Connection"]; !ok {
		b.WriteString("Connection: close\r\n")
	}
	for _, k := range sortedKeys(c.Header) {
		for _, v := range c.Header[k] {
			fmt.Fprintf(&b, "%s: %s\r\n", k, string(v))
		}
	}
	body := c.Body
	if ws {
		body = nil
	}
	switch {
	case body == nil && c.CL > 0:
		fmt.Fprintf(&b, "Content-Length: %d\r\n\r\n", c.CL)
	case body == nil:
		b.WriteString("\r\n")
	case c.CL == clUnknown:
		b.WriteString("Transfer-Encoding: chunked\r\n\r\n")
		if len(body) > 0 {
			fmt.Fprintf(&b, "%x\r\n", len(body))
			b.Write(body)
			b.WriteString("\r\n")
		}
		b.WriteString("0\r\n\r\n")
	default:
		cl := c.CL
		if cl == clExact {
			cl = int64(len(body))
		}
		fmt.Fprintf(&b, "Content-Length: %d\r\n\r\n", cl)
		b.Write(body)
	}
	return b.Bytes()
}

// rawH1 speaks HTTP/1.1 on a raw TCP connection (so that every byte of the
// case reaches the server unfiltered). With ws set, the body of the case is
// the client's WebSocket script, sent after the handshake response.
func (s *sockServer) rawH1(c *Case, ws bool) (int, string) {
	conn, err := net.DialTimeout("tcp", s.srv.Addr, 5*time.Second)
	if err != nil {
		return 0, "dial: " + err.Error()
	}
	defer conn.Close()
	conn.SetDeadline(time.Now().Add(sockIOTimeout))
	if _, err := conn.Write(c.rawRequest(ws)); err != nil {
		return 0, "write: " + err.Error()
	}
	tcp, _ := conn.(*net.TCPConn)
	if !ws {
		if tcp != nil {
			tcp.CloseWrite()
		}
		resp, _ := io.ReadAll(io.LimitReader(conn, 16<<20))
		code, ok := statusLine(resp)
		if !ok {
			return 0, fmt.Sprintf("no status line (%d bytes)", len(resp))
		}
		return code, "ok"
	}
	// read the handshake response
	var hs []byte
	one := make([]byte, 1)
	for !bytes.HasSuffix(hs, []byte("\r\n\r\n")) && len(hs) < 1<<16 {
		if _, err := conn.Read(one); err != nil {
			break
		}
		hs = append(hs, one[0])
	}
	code, ok := statusLine(hs)
	if !ok {
		return 0, fmt.Sprintf("no handshake status line (%d bytes)", len(hs))
	}
	if code != 101 {
		return code, "handshake refused"
	}
	conn.Write(c.Body)
	if tcp != nil {
		tcp.CloseWrite()
	}
	rest, _ := io.ReadAll(io.LimitReader(conn, 16<<20))
	return code, fmt.Sprintf("upgraded, %d bytes from server", len(rest))
}

func (s *sockServer) h2c(c *Case) (int, string) {
	ctx, cancel := context.WithTimeout(context.Background(), sockIOTimeout)
	defer cancel()
	hdr := c.header()
	// connection-level headers cannot travel on HTTP/2 (the client library
	// refuses or stalls on them); they are exercised on the other entries
	for _, k := range []string{"Connection", "Upgrade", "Transfer-Encoding", "Keep-Alive", "Proxy-Connection"} {
		hdr.Del(k)
	}
	if te := hdr["Te"]; len(te) != 1 || te[0] != "trailers" {
		hdr.Del("Te")
	}
	req := &http.Request{
		Method: c.Method,
		URL:    &url.URL{Scheme: "http", Host: s.srv.Addr, Path: string(c.Path), RawQuery: string(c.Query)},
		Header: hdr,
		Host:   "verif.test",
	}
	if c.Body != nil {
		req.Body = io.NopCloser(bytes.NewReader(c.Body))
		req.ContentLength = int64(len(c.Body))
		if c.CL == clUnknown {
			req.ContentLength = -1
		}
	}
	resp, err := s.h2.Do(req.WithContext(ctx))
	if err != nil {
		return 0, "client: " + mon.NormMsg(err.Error())
	}
	io.Copy(io.Discard, io.LimitReader(resp.Body, 16<<20))
	resp.Body.Close()
	return resp.StatusCode, "ok"
}

// runSockets is the real-listener phase: every case is sent to a server
// built by larking.NewServer; the server's error log, the tracker and the
// handlers' counters are the observation.
func runSockets(r *mon.Run) {
	const nshards = 8
	per := r.Pick(450, 25000)
	var wg sync.WaitGroup
	for s := 0; s < nshards; s++ {
		wg.Add(1)
		go func(shard int) {
			defer wg.Done()
			runSockShard(r, shard, nshards, per)
		}(s)
	}
	wg.Wait()
}

var sockOpts = []int{0, 7, 4, 3, 7 | optSmall}

func runSockShard(r *mon.Run, shard, nshards, ncases int) {
	rng := r.Rand(fmt.Sprintf("robust-sock-%d", shard))
	st := newStats()
	defer st.flush(r)
	tp := newTestpbTarget()
	std, err := newStdTarget()
	if err != nil {
		r.Inconclusive("harness: standard service: " + err.Error())
		return
	}
	targets := []*target{tp, std}
	hs := hostileSets()
	for i := 0; i < 6; i++ {
		// every shard takes a different slice of the hostile sets, always
		// including websocket ones
		rs := hs[(shard+i*nshards)%len(hs)]
		if i >= 4 {
			var wsSets []*RSet
			for _, h := range hs {
				if strings.HasPrefix(h.Class, "hostile:ws:") || strings.HasPrefix(h.Class, "hostile:httpbody") {
					wsSets = append(wsSets, h)
				}
			}
			rs = wsSets[(shard+i)%len(wsSets)]
		}
		if t, err := newRSTarget(rs); err == nil && t.regErr == nil && t.regPanic == nil {
			targets = append(targets, t)
		}
	}
	type key struct {
		t    *target
		opts int
	}
	servers := map[key]*sockServer{}
	defer func() {
		for _, s := range servers {
			s.close()
		}
	}()
	for i := 0; i < ncases; i++ {
		if wedgesSeen.Load() >= maxWedges {
			st.count("cases_skipped_after_repeated_wedges", ncases-i)
			break
		}
		t := targets[rng.Intn(len(targets))]
		var c *Case
		switch x := rng.Intn(10); {
		case x < 4:
			c = genCase(rng, t, []string{"http", "http", "web", "webtext"})
			c.Entry = "sock-h1"
		case x < 7:
			c = genCase(rng, t, []string{"ws-sock"})
			c.Entry = "sock-ws"
		default:
			c = genCase(rng, t, []string{"grpc", "grpc", "http"})
			c.Entry = "sock-h2c"
		}
		c.Target, c.RS, c.Opts = t.Kind, t.RS, sockOpts[rng.Intn(len(sockOpts))]
		k := key{t, c.Opts}
		ss := servers[k]
		if ss == nil || ss.dead {
			ss, err = newSockServer(t, c.Opts)
			if err != nil {
				st.count("socket_server_start_failed", 1)
				continue
			}
			servers[k] = ss
		}
		tc := time.Now()
		o := ss.run(c)
		if d := time.Since(tc); d > time.Second && os.Getenv("VERIF_ROBUST_DEBUG") != "" {
			js, _ := json.Marshal(map[string]any{"case": c})
			fmt.Printf("SLOW %v note=%q %s\n", d, o.note, js)
		}
		if strings.Contains(o.note, "reached-mux") {
			st.count("socket_requests_reaching_the_mux", 1)
		}
		record(r, st, c, o)
	}
	for k, s := range servers {
		log := s.srv.ErrLog()
		n := strings.Count(log, "panic serving")
		st.count("panic_serving_lines_in_server_logs", n)
		if n > s.attributed {
			// a panic that surfaced after its case had been judged
			i := strings.LastIndex(log, "panic serving")
			pi := panicFromLog(log[i:])
			r.Violate(pi.Key(), fmt.Sprintf("a real server logged %d panic(s) that could not be attributed to a single case: %s", n-s.attributed, pi.Value),
				map[string]any{"entry": "sock-batch", "target": k.t.Kind, "rule_set": k.t.RS, "mux_options": k.opts, "log": firstLines(log[i:], 30)})
		}
	}
}
