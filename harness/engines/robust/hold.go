package robust

import (
	"encoding/base64"
	"fmt"
	"math/rand"
	"sync"

	"google.golang.org/protobuf/proto"
	"google.golang.org/protobuf/reflect/protoreflect"

	"verif/internal/mon"
	"verif/internal/vschema"
	"verif/internal/wire"
)

// holdCases enumerates, for one target, the calls of clients that keep their
// sending side open until they have the reply / status.
func holdCases(t *target, kind string, rs *RSet) []*Case {
	var out []*Case
	add := func(c *Case, class string, ep *endpoint) {
		c.Target, c.RS, c.Hold = kind, rs, true
		c.Muts = []string{"hold:" + class}
		c.EP = ep.Full
		out = append(out, c)
	}
	for _, ep := range t.eps {
		in := vschema_new(ep)
		js := encode(in, "json")
		pb, _ := proto.Marshal(in)
		// --- WebSocket: send exactly the request, then only read
		var acts []string
		if !ep.CS {
			acts = []string{"reply=echo", "code=5;msg=short", "reply=echo;sends=2"}
		} else {
			acts = []string{"recv=one;reply=echo", "recv=none;reply=echo", "recv=one;code=9;msg=short", "recv=bg;reply=echo"}
		}
		paths := []string{ep.Full}
		for i := range ep.Rules {
			if ep.Rules[i].Verb == "WEBSOCKET" && ep.Rules[i].T != nil {
				paths = append(paths, wsPathFor(ep, &ep.Rules[i]))
			}
		}
		for _, p := range paths {
			for _, a := range acts {
				c := &Case{Entry: "ws-mem", Method: "GET", Path: BStr(p), Proto: 1, CL: clExact, Body: wsText(js)}
				setH(c, "Upgrade", "websocket")
				setH(c, "Connection", "Upgrade")
				setH(c, "Sec-Websocket-Key", "dGhlIHNhbXBsZSBub25jZQ==")
				setH(c, "Sec-Websocket-Version", "13")
				setH(c, "X-Vf-Act", a)
				shape := "unary"
				switch {
				case ep.CS && ep.SS:
					shape = "bidi"
				case ep.CS:
					shape = "client-stream"
				case ep.SS:
					shape = "server-stream"
				}
				add(c, "ws:"+shape+":"+a, ep)
			}
		}
		// --- gRPC / gRPC-web: a client-streaming call that is not
		// half-closed before the status arrives
		if !ep.CS {
			continue
		}
		for _, a := range []string{"recv=bg;reply=echo", "recv=bg;code=5;msg=short", "recv=one;reply=echo", "recv=none;reply=echo", "recv=none;code=9;msg=short"} {
			for _, entry := range []string{"grpc", "web", "webtext"} {
				c := &Case{Entry: entry, Method: "POST", Path: BStr(ep.Full), CL: clUnknown, Proto: 1, Body: wire.Frame(pb, false)}
				switch entry {
				case "grpc":
					c.Proto = 2
					setH(c, "Content-Type", "application/grpc")
					setH(c, "Te", "trailers")
				case "web":
					setH(c, "Content-Type", "application/grpc-web+proto")
				case "webtext":
					setH(c, "Content-Type", "application/grpc-web-text")
					c.Body = []byte(base64.StdEncoding.EncodeToString(c.Body))
				}
				setH(c, "X-Vf-Act", a)
				add(c, entry+":"+a, ep)
			}
		}
	}
	return out
}

// vschema_new builds a small valid request message for an endpoint.
func vschema_new(ep *endpoint) proto.Message {
	m := vschema.NewMsg(ep.MD.Input())
	if fd := firstField(ep.MD.Input(), protoreflect.StringKind); fd != nil {
		m.ProtoReflect().Set(fd, protoreflect.ValueOfString("held"))
	}
	return m
}

// wsPathFor instantiates a websocket rule with fixed values.
func wsPathFor(ep *endpoint, rl *rule) string {
	return instPath(rand.New(rand.NewSource(7)), ep, rl, false)
}

// runHoldLane serves the held calls in parallel (a wedged one costs a whole
// watchdog period) on local, generated-websocket and proxied targets.
func runHoldLane(r *mon.Run) {
	type job struct {
		c *Case
		t *target
	}
	var jobs []job
	var closers []func()
	defer func() {
		for _, f := range closers {
			f()
		}
	}()
	addTarget := func(t *target, kind string, rs *RSet) {
		for _, c := range holdCases(t, kind, rs) {
			for _, opts := range []int{0, 7} {
				cc := *c
				cc.Opts = opts
				jobs = append(jobs, job{&cc, t})
			}
		}
	}
	if std, err := newStdTarget(); err == nil {
		addTarget(std, "std", nil)
	}
	addTarget(newTestpbTarget(), "testpb", nil)
	for _, rs := range hostileSets() {
		if rs.Class == "hostile:ws:body=*" {
			if t, err := newRSTarget(rs); err == nil && t.regErr == nil && t.regPanic == nil {
				addTarget(t, "rs", rs)
			}
		}
	}
	if px, err := newProxyTarget(); err == nil {
		closers = append(closers, px.close)
		addTarget(px.t, "proxy", nil)
	}
	// one worker per (target, option mask): the muxes and their behaviour
	// records are not shared between workers
	groups := map[string][]job{}
	var order []string
	for _, j := range jobs {
		k := fmt.Sprintf("%p/%d", j.t, j.c.Opts)
		if _, ok := groups[k]; !ok {
			order = append(order, k)
		}
		groups[k] = append(groups[k], j)
	}
	var wg sync.WaitGroup
	for _, k := range order {
		// build sequentially (target caches are not synchronised)
		js := groups[k]
		bt, err := js[0].t.get(js[0].c.Opts)
		if err != nil {
			continue
		}
		wg.Add(1)
		go func(js []job, bt *built) {
			defer wg.Done()
			st := newStats()
			defer st.flush(r)
			for _, j := range js {
				if wedgesSeen.Load() >= maxWedges {
					return
				}
				o := serveInproc(j.c, bt)
				st.count("held_client_calls", 1)
				record(r, st, j.c, o)
			}
		}(js, bt)
	}
	wg.Wait()
}
