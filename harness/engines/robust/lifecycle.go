package robust

import (
	"bytes"
	"context"
	"fmt"
	"io"
	"math/rand"
	"strings"
	"time"
	"unicode/utf8"

	"google.golang.org/genproto/googleapis/api/annotations"
	"google.golang.org/grpc/grpclog"
	"larking.io/larking"

	"verif/internal/backend"
	"verif/internal/mon"
	"verif/internal/svc"
	"verif/internal/vschema"
)

// ------------------------------------------------------- mux life cycle

// Life-cycle states a mux can be in when hostile requests arrive:
//
//	life:new      brand-new mux, nothing was ever registered
//	life:failed   the only registration was rejected
//	life:dropped  the only connection was registered and dropped again
//
// Requests are generated for the endpoints of a reference service (so that
// paths and methods look real) and served by a mux in that state.
//
//	life:refresh-refused  a connection was registered, then the back-end's
//	              descriptors changed and the second RegisterConn (refresh) of
//	              the same connection was refused
//	life:replaced  a service served by several connections, one of them
//	              replaced after traffic (A+B, traffic, drop B, register C)
var lifeStates = []string{"life:new", "life:failed", "life:dropped", "life:refresh-refused", "life:replaced"}

// failingSet is rejected by registration (unknown field in the template).
func failingSet() *RSet {
	return &RSet{Pkg: "vf.rbl", Class: "lifecycle:rejected", Methods: []RMethod{
		{Name: "Ok", In: "vf.Req", Out: "vf.Rsp", Rules: []RRule{{Verb: "GET", Tmpl: "/lf/ok/{a}"}}},
		{Name: "Bad", In: "vf.Req", Out: "vf.Rsp", Rules: []RRule{{Verb: "GET", Tmpl: "/lf/{no_such_field}"}}},
	}}
}

type lifeTarget struct {
	t   *target
	px  *proxyTarget       // back-end of life:dropped
	be  *backend.Backend   // back-end of life:refresh-refused
	bes []*backend.Backend // back-ends of life:replaced
}

func (l *lifeTarget) close() {
	if l.px != nil {
		l.px.close()
	}
	if l.be != nil {
		l.be.Close()
	}
	for _, b := range l.bes {
		b.Close()
	}
}

// newReplaced builds muxes whose service is served by two connections (A, B),
// that carried traffic (URL-bound fields, body selectors, every entry), and
// where B was then dropped and a third back-end C registered: three
// generations of descriptor instances have existed for the same routes.
func newReplaced() (*lifeTarget, error) {
	quietGRPC.Do(func() { grpclog.SetLoggerV2(grpclog.NewLoggerV2(io.Discard, io.Discard, io.Discard)) })
	std, err := svc.BuildStd("vf.rpl", "vf/rpl.proto", "/m1")
	if err != nil {
		return nil, err
	}
	backendBeh := &beh{}
	l := &lifeTarget{}
	for _, tag := range []string{"A", "B", "C"} {
		be, err := backend.Start("replaced-"+tag, true, backend.Svc{SD: std.SD, Impl: backendBeh})
		if err != nil {
			l.close()
			return nil, err
		}
		l.bes = append(l.bes, be)
	}
	l.t = &target{Kind: "life:replaced", cache: map[int]*built{}, eps: endpointsOf(std.SD), fd: std.FD}
	rng := rand.New(rand.NewSource(99))
	for opts := 0; opts < 8; opts++ {
		mux, err := larking.NewMux(muxOptions(opts, &beh{})...)
		if err != nil {
			l.close()
			return nil, err
		}
		bt := &built{mux, backendBeh}
		reg := func(step string, f func(ctx context.Context) error) error {
			ctx, cancel := context.WithTimeout(context.Background(), 20*time.Second)
			defer cancel()
			var err error
			if pi := mon.Catch(func() { err = f(ctx) }); pi != nil {
				return fmt.Errorf("life:replaced: %s panicked: %s", step, pi.Value)
			}
			if err != nil {
				return fmt.Errorf("life:replaced: %s: %v", step, err)
			}
			return nil
		}
		traffic := func() {
			for i := 0; i < 60; i++ {
				c := genCaseN(rng, l.t, []string{"http", "http", "http", "ws-mem", "grpc"}, 0)
				serveInproc(c, bt)
			}
		}
		steps := []struct {
			name string
			f    func(ctx context.Context) error
		}{
			{"RegisterConn(A)", func(ctx context.Context) error { return mux.RegisterConn(ctx, l.bes[0].CC) }},
			{"RegisterConn(B)", func(ctx context.Context) error { return mux.RegisterConn(ctx, l.bes[1].CC) }},
			{"traffic", func(context.Context) error { traffic(); return nil }},
			{"DropConn(B)", func(ctx context.Context) error {
				if !mux.DropConn(ctx, l.bes[1].CC) {
					return fmt.Errorf("connection unknown")
				}
				return nil
			}},
			{"RegisterConn(C)", func(ctx context.Context) error { return mux.RegisterConn(ctx, l.bes[2].CC) }},
		}
		for _, s := range steps {
			if err := reg(s.name, s.f); err != nil {
				l.close()
				return nil, err
			}
		}
		l.t.cache[opts] = bt
	}
	return l, nil
}

// newRefreshRefused builds muxes that registered a back-end successfully and
// then refused its refresh: the second revision of the back-end's file has a
// rule naming an unknown field. The first revision must stay in service.
func newRefreshRefused() (*lifeTarget, error) {
	quietGRPC.Do(func() { grpclog.SetLoggerV2(grpclog.NewLoggerV2(io.Discard, io.Discard, io.Discard)) })
	good, err := svc.BuildStd("vf.rfr", "vf/rfr.proto", "/r1")
	if err != nil {
		return nil, err
	}
	f2 := svc.StdFile("vf.rfr", "vf/rfr.proto", "/r1")
	ms := f2.Services[0].Methods
	ms[len(ms)-1].Rule = &annotations.HttpRule{Pattern: &annotations.HttpRule_Get{Get: "/r1/changed/{no_such_field}"}}
	ms[0].Rule = &annotations.HttpRule{Pattern: &annotations.HttpRule_Get{Get: "/r1/moved/{a}"}}
	bad, err := f2.Build()
	if err != nil {
		return nil, err
	}
	backendBeh := &beh{}
	be, err := backend.Start("refresh", true, backend.Svc{SD: good.SD, Impl: backendBeh})
	if err != nil {
		return nil, err
	}
	l := &lifeTarget{be: be}
	l.t = &target{Kind: "life:refresh-refused", cache: map[int]*built{}, eps: endpointsOf(good.SD), fd: good.FD}
	for opts := 0; opts < 8; opts++ {
		mux, err := larking.NewMux(muxOptions(opts, &beh{})...)
		if err != nil {
			l.close()
			return nil, err
		}
		ctx, cancel := context.WithTimeout(context.Background(), 20*time.Second)
		var err1, err2 error
		pi := mon.Catch(func() {
			be.SetFiles(good.FD)
			if err1 = mux.RegisterConn(ctx, be.CC); err1 != nil {
				return
			}
			be.SetFiles(bad)
			err2 = mux.RegisterConn(ctx, be.CC)
		})
		cancel()
		if pi != nil || err1 != nil || err2 == nil {
			l.close()
			return nil, fmt.Errorf("life:refresh-refused: first=%v refresh=%v panic=%v (the refresh must be refused)", err1, err2, pi)
		}
		l.t.cache[opts] = &built{mux, backendBeh}
	}
	be.SetFiles(good.FD)
	return l, nil
}

func newLifeTarget(state string) (*lifeTarget, error) {
	if state == "life:refresh-refused" {
		return newRefreshRefused()
	}
	if state == "life:replaced" {
		return newReplaced()
	}
	l := &lifeTarget{}
	switch state {
	case "life:new", "life:failed":
		std, err := newStdTarget()
		if err != nil {
			return nil, err
		}
		l.t = &target{Kind: state, cache: map[int]*built{}, eps: std.eps, fd: std.fd}
	case "life:dropped":
		px, err := newProxyTarget()
		if err != nil {
			return nil, err
		}
		l.px = px
		l.t = &target{Kind: state, cache: map[int]*built{}, eps: px.t.eps, fd: px.t.fd}
	default:
		return nil, fmt.Errorf("unknown life-cycle state %q", state)
	}
	for opts := 0; opts < 8; opts++ {
		b := &beh{}
		mo := muxOptions(opts, b)
		var mux *larking.Mux
		var err error
		switch state {
		case "life:new":
			mux, err = larking.NewMux(mo...)
		case "life:failed":
			fd, ferr := failingSet().file().Build()
			if ferr != nil {
				return nil, ferr
			}
			reg, rerr := vschema.Registry(fd)
			if rerr != nil {
				return nil, rerr
			}
			mux, err = larking.NewMux(append([]larking.MuxOption{larking.FilesOption(reg)}, mo...)...)
			if err == nil {
				var regErr error
				pi := mon.Catch(func() {
					regErr = larking.VerifRegisterService(mux, vschema.ServiceDesc(fd.Services().Get(0), b), struct{}{})
				})
				if pi != nil || regErr == nil {
					return nil, fmt.Errorf("life:failed: registration did not fail cleanly (err=%v panic=%v)", regErr, pi)
				}
			}
		case "life:dropped":
			mux, err = larking.NewMux(mo...)
			if err == nil {
				ctx, cancel := context.WithTimeout(context.Background(), 10*time.Second)
				var rerr error
				pi := mon.Catch(func() {
					if rerr = mux.RegisterConn(ctx, l.px.cc); rerr == nil {
						mux.DropConn(ctx, l.px.cc)
					}
				})
				cancel()
				if pi != nil || rerr != nil {
					l.close()
					return nil, fmt.Errorf("life:dropped: RegisterConn/DropConn: %v %v", rerr, pi)
				}
			}
		}
		if err != nil {
			l.close()
			return nil, err
		}
		l.t.cache[opts] = &built{mux, b}
	}
	return l, nil
}

var lifeEntries = []string{"http", "grpc", "web", "webtext", "ws-mem", "ws-nohijack"}

// runLifecycle serves valid and hostile requests of every entry path, under
// every option mask, to muxes in each life-cycle state.
func runLifecycle(r *mon.Run) {
	st := newStats()
	defer st.flush(r)
	for _, state := range lifeStates {
		rng := r.Rand("robust-" + state)
		l, err := newLifeTarget(state)
		if err != nil {
			st.count("lifecycle_state_unavailable:"+state, 1)
			r.Inconclusive("life-cycle state " + state + " could not be set up: " + err.Error())
			continue
		}
		run := func(c *Case) bool {
			if wedgesSeen.Load() >= maxWedges {
				return false
			}
			c.Target = state
			o := serveInproc(c, l.t.cache[c.Opts&7])
			st.count("lifecycle_requests_"+strings.TrimPrefix(state, "life:"), 1)
			record(r, st, c, o)
			return true
		}
		// the full matrix with valid requests first
		for _, e := range lifeEntries {
			for opts := 0; opts < 8; opts++ {
				for k := 0; k < 3; k++ {
					c := genCaseN(rng, l.t, []string{e}, 0)
					c.Opts = opts
					c.Muts = append([]string{"life-valid"}, c.Muts...)
					run(c)
				}
			}
		}
		n := r.Pick(2500, 120000)
		for i := 0; i < n; i++ {
			c := genCase(rng, l.t, lifeEntries)
			c.Opts = rng.Intn(8)
			if !run(c) {
				break
			}
		}
		l.close()
	}
}

// ------------------------------------------------- websocket server frames

type srvFrame struct {
	op      byte
	fin     bool
	masked  bool
	payload []byte
}

// parseServerFrames parses what the server wrote after the handshake
// response. bad describes the first malformation.
func parseServerFrames(b []byte) (frames []srvFrame, bad string) {
	for len(b) > 0 {
		if len(b) < 2 {
			return frames, "truncated frame header"
		}
		f := srvFrame{op: b[0] & 0x0f, fin: b[0]&0x80 != 0, masked: b[1]&0x80 != 0}
		if b[0]&0x70 != 0 {
			return frames, "reserved bits set"
		}
		n := uint64(b[1] & 0x7f)
		off := 2
		switch n {
		case 126:
			if len(b) < 4 {
				return frames, "truncated extended length"
			}
			n = uint64(b[2])<<8 | uint64(b[3])
			off = 4
		case 127:
			if len(b) < 10 {
				return frames, "truncated extended length"
			}
			n = 0
			for _, x := range b[2:10] {
				n = n<<8 | uint64(x)
			}
			off = 10
		}
		if f.masked {
			return frames, "server frame is masked"
		}
		if uint64(len(b)-off) < n {
			return frames, fmt.Sprintf("frame declares %d payload bytes, %d present", n, len(b)-off)
		}
		f.payload = b[off : off+int(n)]
		b = b[off+int(n):]
		if f.op >= 8 {
			if n > 125 {
				return append(frames, f), fmt.Sprintf("control frame (opcode %d) with %d payload bytes", f.op, n)
			}
			if !f.fin {
				return append(frames, f), "fragmented control frame"
			}
		}
		frames = append(frames, f)
	}
	return frames, ""
}

func (c *Case) hasMut(prefix string) bool {
	for _, m := range c.Muts {
		if strings.HasPrefix(m, prefix) {
			return true
		}
	}
	return false
}

func (c *Case) allValidUTF8() bool {
	if !utf8.ValidString(string(c.Path)) || !utf8.ValidString(string(c.Query)) {
		return false
	}
	for k, vs := range c.Header {
		for _, v := range vs {
			if !utf8.ValidString(string(v)) {
				return false
			}
			if k == "X-Vf-Act" {
				a := parseAct(string(v))
				if a.MsgLen == 0 && !utf8.ValidString(msgClasses[a.Msg]) {
					return false
				}
			}
		}
	}
	return true
}

// judgeUpgraded checks how an upgraded (101) in-memory WebSocket exchange
// ended: the server's bytes must be well-formed frames and the last one a
// well-formed close frame (code, <= 125 bytes, reason valid UTF-8 unless the
// request itself carried invalid UTF-8 that an error message may quote).
func judgeUpgraded(c *Case, o *outcome) []viol {
	i := bytes.Index(o.connOut, []byte("\r\n\r\n"))
	if i < 0 {
		return nil
	}
	frames, bad := parseServerFrames(o.connOut[i+4:])
	if bad != "" {
		return []viol{{"ws:malformed-server-frame:" + mon.NormMsg(bad), "after the upgrade the server wrote bytes that are not well-formed WebSocket frames: " + bad}}
	}
	if len(frames) == 0 || frames[len(frames)-1].op != 8 {
		return []viol{{"ws:no-close-frame:" + c.RuleClass, fmt.Sprintf("the upgraded connection was given up without a close frame (%d server frames)", len(frames))}}
	}
	cl := frames[len(frames)-1].payload
	switch {
	case len(cl) == 1:
		return []viol{{"ws:close-frame:one-byte-payload", "close frame with a 1-byte payload"}}
	case len(cl) >= 2 && !utf8.Valid(cl[2:]) && c.allValidUTF8() && !c.hasMut("ws:") && !c.hasMut("w:"):
		return []viol{{"ws:close-frame:reason-not-utf8", fmt.Sprintf("close reason is not valid UTF-8 although the request carried none: %q", cl[2:])}}
	}
	return nil
}

// ------------------------------------------------------ echoed-length sweep

// runCloseSweep: on the WebSocket path, request data that ends up in the
// error message is swept over lengths 1..200 - the handler's status message
// (1..4-byte runes), an unknown JSON field name that protojson quotes, a path
// variable and a message field the handler echoes.
func runCloseSweep(r *mon.Run) {
	st := newStats()
	defer st.flush(r)
	type site struct {
		t     *target
		kind  string
		path  func(id string) string
		field string
	}
	std, err := newStdTarget()
	if err != nil {
		r.Inconclusive("harness: standard service: " + err.Error())
		return
	}
	sites := []site{
		{std, "std", func(id string) string { return "/v1/ws/" + id }, "text"},
		{newTestpbTarget(), "testpb", func(id string) string { return "/v1/rooms/" + id }, "text"},
	}
	ws := func(s site, id string, act string, frames ...[]byte) *Case {
		c := &Case{Entry: "ws-mem", Method: "GET", Path: BStr(s.path(id)), Proto: 1, CL: clExact, Target: s.kind, RuleClass: "WEBSOCKET:body=*"}
		setH(c, "Upgrade", "websocket")
		setH(c, "Connection", "Upgrade")
		setH(c, "Sec-Websocket-Key", "dGhlIHNhbXBsZSBub25jZQ==")
		setH(c, "Sec-Websocket-Version", "13")
		if act != "" {
			setH(c, "X-Vf-Act", act)
		}
		for _, f := range frames {
			c.Body = append(c.Body, wsText(f)...)
		}
		c.Body = append(c.Body, wsClose(closeBody(1000, ""))...)
		return c
	}
	n := 0
	for _, s := range sites {
		for L := 1; L <= 200; L++ {
			var cases []*Case
			add := func(class string, c *Case) {
				c.Muts = []string{"wslen:" + class}
				c.EP = fmt.Sprintf("len=%d", L)
				cases = append(cases, c)
			}
			for mb := 1; mb <= 4; mb++ {
				add(fmt.Sprintf("handler-message-%db-runes", mb), ws(s, "r1", fmt.Sprintf("code=%d;msglen=%d;msgmb=%d", []int{5, 3, 13, 16}[mb-1], L, mb), []byte(`{"text":"hi"}`)))
			}
			add("unknown-json-field", ws(s, "r1", "", []byte(`{"`+strings.Repeat("k", L)+`":1}`)))
			add("unknown-json-field-2b", ws(s, "r1", "", []byte(`{"`+strings.Repeat("é", (L+1)/2)+`":1}`)))
			add("echoed-path-variable", ws(s, strings.Repeat("p", L), "err=echo", []byte(`{}`)))
			add("echoed-message-field", ws(s, "r1", "err=echo", []byte(`{"`+s.field+`":"`+strings.Repeat("f", L)+`"}`)))
			add("bad-json-value", ws(s, "r1", "", []byte(`{"`+s.field+`":`+strings.Repeat("9", L)+`}`)))
			for _, c := range cases {
				if wedgesSeen.Load() >= maxWedges {
					return
				}
				c.Opts = []int{0, 7, 4}[n%3]
				n++
				bt, err := s.t.get(c.Opts)
				if err != nil {
					continue
				}
				o := serveInproc(c, bt)
				st.count("websocket_error_length_sweep_requests", 1)
				record(r, st, c, o)
			}
		}
	}
}
