package robust

import (
	"context"
	"errors"
	"fmt"
	"io"
	"math/rand"
	"strconv"
	"strings"
	"sync"
	"sync/atomic"
	"time"

	"google.golang.org/genproto/googleapis/api/annotations"
	"google.golang.org/genproto/googleapis/api/httpbody"
	spb "google.golang.org/genproto/googleapis/rpc/status"
	"google.golang.org/grpc"
	"google.golang.org/grpc/metadata"
	"google.golang.org/grpc/stats"
	"google.golang.org/grpc/status"
	"google.golang.org/protobuf/proto"
	"google.golang.org/protobuf/reflect/protoreflect"
	"google.golang.org/protobuf/types/known/anypb"
	"google.golang.org/protobuf/types/known/emptypb"
	"google.golang.org/protobuf/types/known/wrapperspb"
	"larking.io/api/testpb"
	"larking.io/larking"

	"verif/internal/mon"
	"verif/internal/svc"
	"verif/internal/tmplref"
	"verif/internal/vschema"
)

// ------------------------------------------------------------ rule sets

// RRule is one HTTP rule; RMethod.Rules[0] is the annotation, the rest are
// its additional bindings.
type RRule struct {
	Verb string `json:"verb"` // GET PUT POST DELETE PATCH or a custom kind (websocket, *, HEAD)
	Tmpl string `json:"tmpl"`
	Body string `json:"body,omitempty"`
	Resp string `json:"resp,omitempty"`
}

type RMethod struct {
	Name  string  `json:"name"`
	In    string  `json:"in"`
	Out   string  `json:"out"`
	CS    bool    `json:"cs,omitempty"`
	SS    bool    `json:"ss,omitempty"`
	Rules []RRule `json:"rules"`
}

// RSet is a replayable rule set: one service "Svc" in package Pkg.
type RSet struct {
	Pkg     string    `json:"pkg"`
	Class   string    `json:"class,omitempty"` // generated | hostile:<what>
	Methods []RMethod `json:"methods"`
}

func httpRule(r RRule) *annotations.HttpRule {
	hr := &annotations.HttpRule{Body: r.Body, ResponseBody: r.Resp}
	switch r.Verb {
	case "GET":
		hr.Pattern = &annotations.HttpRule_Get{Get: r.Tmpl}
	case "PUT":
		hr.Pattern = &annotations.HttpRule_Put{Put: r.Tmpl}
	case "POST":
		hr.Pattern = &annotations.HttpRule_Post{Post: r.Tmpl}
	case "DELETE":
		hr.Pattern = &annotations.HttpRule_Delete{Delete: r.Tmpl}
	case "PATCH":
		hr.Pattern = &annotations.HttpRule_Patch{Patch: r.Tmpl}
	default:
		hr.Pattern = &annotations.HttpRule_Custom{Custom: &annotations.CustomHttpPattern{Kind: r.Verb, Path: r.Tmpl}}
	}
	return hr
}

var fileSeq atomic.Int64

func (rs *RSet) file() *vschema.File {
	f := &vschema.File{Path: fmt.Sprintf("vf/robust%d.proto", fileSeq.Add(1)), Pkg: rs.Pkg}
	s := vschema.Service{Name: "Svc"}
	for _, m := range rs.Methods {
		vm := vschema.Method{Name: m.Name, In: m.In, Out: m.Out, CS: m.CS, SS: m.SS}
		if len(m.Rules) > 0 {
			ann := httpRule(m.Rules[0])
			for _, a := range m.Rules[1:] {
				ann.AdditionalBindings = append(ann.AdditionalBindings, httpRule(a))
			}
			vm.Rule = ann
		}
		s.Methods = append(s.Methods, vm)
	}
	f.Services = []vschema.Service{s}
	return f
}

// ------------------------------------------------------------- endpoints

type rule struct {
	Verb string
	Tmpl string
	T    *tmplref.Template // nil when the reference parser rejects the text
	Body string
	Resp string
}

type endpoint struct {
	Full   string
	MD     protoreflect.MethodDescriptor
	Rules  []rule
	CS, SS bool
}

func ruleOf(hr *annotations.HttpRule) rule {
	var r rule
	switch p := hr.Pattern.(type) {
	case *annotations.HttpRule_Get:
		r.Verb, r.Tmpl = "GET", p.Get
	case *annotations.HttpRule_Put:
		r.Verb, r.Tmpl = "PUT", p.Put
	case *annotations.HttpRule_Post:
		r.Verb, r.Tmpl = "POST", p.Post
	case *annotations.HttpRule_Delete:
		r.Verb, r.Tmpl = "DELETE", p.Delete
	case *annotations.HttpRule_Patch:
		r.Verb, r.Tmpl = "PATCH", p.Patch
	case *annotations.HttpRule_Custom:
		r.Verb, r.Tmpl = strings.ToUpper(p.Custom.GetKind()), p.Custom.GetPath()
	}
	r.Body, r.Resp = hr.Body, hr.ResponseBody
	if t, err := tmplref.Parse(r.Tmpl); err == nil {
		r.T = t
	}
	return r
}

func endpointsOf(sd protoreflect.ServiceDescriptor) []*endpoint {
	var out []*endpoint
	for i := 0; i < sd.Methods().Len(); i++ {
		md := sd.Methods().Get(i)
		ep := &endpoint{Full: vschema.FullMethod(md), MD: md, CS: md.IsStreamingClient(), SS: md.IsStreamingServer()}
		if md.Options() != nil && proto.HasExtension(md.Options(), annotations.E_Http) {
			if hr, _ := proto.GetExtension(md.Options(), annotations.E_Http).(*annotations.HttpRule); hr != nil {
				ep.Rules = append(ep.Rules, ruleOf(hr))
				for _, a := range hr.AdditionalBindings {
					ep.Rules = append(ep.Rules, ruleOf(a))
				}
			}
		}
		// the implicit binding every method has
		ep.Rules = append(ep.Rules, rule{Verb: "POST", Tmpl: ep.Full, Body: "*", T: nil})
		out = append(out, ep)
	}
	return out
}

// --------------------------------------------------------------- actions

// act is what the request asks the handler to do (header X-Vf-Act).
type act struct {
	Code   int64 // -1: succeed
	Msg    string
	Det    int
	After  int
	Hdr    int
	Trl    int
	Reply  string
	Recv   string
	Sends  int
	AsBody bool
	Err    string
	Seed   int64
	CT     string
	MsgLen int // status message of exactly this many bytes (overrides Msg)
	MsgMB  int // ... made of runes of this many bytes (1..4)
}

func (a act) String() string {
	var p []string
	add := func(k, v string) { p = append(p, k+"="+v) }
	if a.Code >= 0 {
		add("code", strconv.FormatInt(a.Code, 10))
	}
	if a.Msg != "" {
		add("msg", a.Msg)
	}
	if a.Det != 0 {
		add("det", strconv.Itoa(a.Det))
	}
	if a.After != 0 {
		add("after", strconv.Itoa(a.After))
	}
	if a.Hdr != 0 {
		add("hdr", strconv.Itoa(a.Hdr))
	}
	if a.Trl != 0 {
		add("trl", strconv.Itoa(a.Trl))
	}
	if a.Reply != "" {
		add("reply", a.Reply)
	}
	if a.Recv != "" {
		add("recv", a.Recv)
	}
	if a.Sends != 0 {
		add("sends", strconv.Itoa(a.Sends))
	}
	if a.AsBody {
		add("asbody", "1")
	}
	if a.Err != "" {
		add("err", a.Err)
	}
	if a.Seed != 0 {
		add("seed", strconv.FormatInt(a.Seed, 10))
	}
	if a.CT != "" {
		add("ct", a.CT)
	}
	if a.MsgLen != 0 {
		add("msglen", strconv.Itoa(a.MsgLen))
	}
	if a.MsgMB != 0 {
		add("msgmb", strconv.Itoa(a.MsgMB))
	}
	return strings.Join(p, ";")
}

func parseAct(s string) act {
	a := act{Code: -1}
	for _, kv := range strings.Split(s, ";") {
		k, v, _ := strings.Cut(kv, "=")
		n, _ := strconv.ParseInt(v, 10, 64)
		switch k {
		case "code":
			a.Code = n
		case "msg":
			a.Msg = v
		case "det":
			a.Det = int(n)
		case "after":
			a.After = int(n)
		case "hdr":
			a.Hdr = int(n)
		case "trl":
			a.Trl = int(n)
		case "reply":
			a.Reply = v
		case "recv":
			a.Recv = v
		case "sends":
			a.Sends = int(n)
		case "asbody":
			a.AsBody = n != 0
		case "err":
			a.Err = v
		case "seed":
			a.Seed = n
		case "ct":
			a.CT = v
		case "msglen":
			a.MsgLen = int(n)
		case "msgmb":
			a.MsgMB = int(n)
		}
	}
	return a
}

func actFrom(ctx context.Context) act {
	md, _ := metadata.FromIncomingContext(ctx)
	if v := md.Get("x-vf-act"); len(v) > 0 {
		return parseAct(v[0])
	}
	return act{Code: -1}
}

var msgClasses = map[string]string{
	"":        "",
	"short":   "boom",
	"pct":     "50% done %zz %",
	"badutf8": "bad \xff\xfe utf8 \xc0",
	"long":    strings.Repeat("x", 300),
	"huge":    strings.Repeat("m", 70000),
	"nl":      "line1\r\nX-Injected: 1",
	"uni":     "héllo ✓ \U0001F600",
	"ctl":     "a\x00b\x01\x7f",
}

var msgClassNames = []string{"", "short", "pct", "badutf8", "long", "huge", "nl", "uni", "ctl"}

var ctClasses = map[string]string{
	"":      "",
	"text":  "text/plain",
	"png":   "image/png",
	"json":  "application/json",
	"junk":  "a\r\nb: c",
	"body":  "google.api.HttpBody",
	"long":  "x/" + strings.Repeat("y", 5000),
	"param": "text/plain; charset=utf-8",
}

var ctClassNames = []string{"", "text", "png", "json", "junk", "body", "long", "param"}

// err builds the error the handler returns (nil when the action asks for
// success).
// message is the status message the action asks for.
func (a act) message() string {
	if a.MsgLen <= 0 {
		return msgClasses[a.Msg]
	}
	n := a.MsgLen
	if n > 1<<20 {
		n = 1 << 20
	}
	r := map[int]string{2: "é", 3: "€", 4: "\U0001F600"}[a.MsgMB]
	if r == "" {
		return strings.Repeat("m", n)
	}
	// ASCII padding first, so that the runes straddle every later offset
	return strings.Repeat("x", n%len(r)) + strings.Repeat(r, n/len(r))
}

// firstString returns the first non-empty singular string field of m.
func firstString(m proto.Message) string {
	if m == nil {
		return ""
	}
	r := m.ProtoReflect()
	fds := r.Descriptor().Fields()
	for i := 0; i < fds.Len(); i++ {
		fd := fds.Get(i)
		if fd.Kind() == protoreflect.StringKind && !fd.IsList() && !fd.IsMap() {
			if v := r.Get(fd).String(); v != "" {
				return v
			}
		}
	}
	return ""
}

func (a act) err() error {
	switch a.Err {
	case "eof":
		return io.EOF
	case "ueof":
		return io.ErrUnexpectedEOF
	case "canceled":
		return context.Canceled
	case "deadline":
		return context.DeadlineExceeded
	case "plain":
		return errors.New("plain error " + a.message())
	case "wrapped":
		return fmt.Errorf("wrapped: %w", status.Error(3, a.message()))
	}
	if a.Code < 0 {
		return nil
	}
	p := &spb.Status{Code: int32(uint32(a.Code)), Message: a.message()}
	if a.Det&1 != 0 {
		if d, err := anypb.New(wrapperspb.String("detail")); err == nil {
			p.Details = append(p.Details, d)
		}
	}
	if a.Det&2 != 0 {
		p.Details = append(p.Details, &anypb.Any{TypeUrl: "type.googleapis.com/vf.nope.Missing", Value: []byte{8, 1}})
	}
	return status.FromProto(p).Err()
}

func mdSet(kind int) metadata.MD {
	switch kind {
	case 1:
		return metadata.Pairs("x-vf-h", "v1", "x-vf-h", "v2", "X-Vf-Mixed", "v")
	case 2:
		return metadata.Pairs("content-type", "text/evil", "grpc-status", "3", "grpc-message", "x", "grpc-encoding", "gzip",
			"content-length", "5", "trailer", "x-y", "grpc-status-details-bin", "!!", "te", "x", "user-agent", "u")
	case 3:
		return metadata.Pairs("x-vf-bin", "\x00\xff\xfe raw", "x-e-bin", "")
	case 4:
		return metadata.MD{"x vf:bad": {"a\r\nb: c"}, "": {"empty-key"}, "x-nul": {"a\x00b"}, "x-\xff": {"\xff"}}
	case 6:
		return metadata.Pairs("x-vf-huge", strings.Repeat("h", 100000))
	}
	return nil
}

// ------------------------------------------------------------ behaviour

// spinCap bounds the canonical receive loop of stream handlers in-process;
// sockSpinCap on real listeners (every phantom message costs a socket write).
const (
	spinCap     = 1 << 17
	sockSpinCap = 1 << 13
)

// beh is the behaviour shared by all handlers of one mux plus what they
// observed (read by the executor after each request).
type beh struct {
	mu      sync.Mutex
	cap     int // receive cap of stream handlers (spinCap when 0)
	calls   int
	spins   int
	recvs   int
	unaryI  int
	streamI int
	statsN  int
}

func (b *beh) recvCap() int {
	b.mu.Lock()
	defer b.mu.Unlock()
	if b.cap == 0 {
		return spinCap
	}
	return b.cap
}

func (b *beh) reset() {
	b.mu.Lock()
	b.calls, b.spins, b.recvs = 0, 0, 0
	b.mu.Unlock()
}

func (b *beh) snapshot() (calls, spins, recvs int) {
	b.mu.Lock()
	defer b.mu.Unlock()
	return b.calls, b.spins, b.recvs
}

func (b *beh) note(recvs int, spun bool) {
	b.mu.Lock()
	b.calls++
	b.recvs += recvs
	if spun {
		b.spins++
	}
	b.mu.Unlock()
}

func (b *beh) meta(ctx context.Context, ss grpc.ServerStream, a act) {
	if a.Hdr != 0 {
		md := mdSet(a.Hdr)
		if ss != nil {
			if a.Hdr == 5 {
				ss.SendHeader(metadata.Pairs("x-vf-sent", "1"))
				ss.SendHeader(metadata.Pairs("x-vf-sent", "2"))
				ss.SetHeader(metadata.Pairs("x-vf-late", "1"))
			} else {
				ss.SetHeader(md)
			}
		} else {
			if a.Hdr == 5 {
				grpc.SendHeader(ctx, metadata.Pairs("x-vf-sent", "1"))
				grpc.SetHeader(ctx, metadata.Pairs("x-vf-late", "1"))
			} else {
				grpc.SetHeader(ctx, md)
			}
		}
	}
	if a.Trl != 0 {
		md := mdSet(a.Trl)
		if ss != nil {
			ss.SetTrailer(md)
		} else {
			grpc.SetTrailer(ctx, md)
		}
	}
}

func firstField(md protoreflect.MessageDescriptor, kinds ...protoreflect.Kind) protoreflect.FieldDescriptor {
	for i := 0; i < md.Fields().Len(); i++ {
		fd := md.Fields().Get(i)
		if fd.IsList() || fd.IsMap() {
			continue
		}
		for _, k := range kinds {
			if fd.Kind() == k {
				return fd
			}
		}
	}
	return nil
}

// fillReply builds the reply the action asks for.
func fillReply(out, in proto.Message, a act) {
	om := out.ProtoReflect()
	od := om.Descriptor()
	if od.FullName() == "google.api.HttpBody" {
		om.Set(od.Fields().ByName("content_type"), protoreflect.ValueOfString(ctClasses[a.CT]))
		data := []byte("hello body")
		switch a.Reply {
		case "empty":
			data = nil
		case "big":
			data = []byte(strings.Repeat("B", 100000))
		}
		om.Set(od.Fields().ByName("data"), protoreflect.ValueOfBytes(data))
		return
	}
	switch a.Reply {
	case "", "empty":
	case "echo":
		if in == nil {
			return
		}
		im := in.ProtoReflect()
		if im.Descriptor() == od {
			proto.Merge(out, in)
			return
		}
		if fd := od.Fields().ByName("echo"); fd != nil && fd.Message() == im.Descriptor() {
			om.Set(fd, protoreflect.ValueOfMessage(proto.Clone(in).ProtoReflect()))
		}
	case "big":
		if fd := firstField(od, protoreflect.StringKind, protoreflect.BytesKind); fd != nil {
			if fd.Kind() == protoreflect.StringKind {
				om.Set(fd, protoreflect.ValueOfString(strings.Repeat("R", 100000)))
			} else {
				om.Set(fd, protoreflect.ValueOfBytes([]byte(strings.Repeat("R", 100000))))
			}
		}
	case "badutf8":
		if fd := firstField(od, protoreflect.StringKind); fd != nil {
			om.Set(fd, protoreflect.ValueOfString("bad\xff\xfeutf8"))
		}
	case "rand":
		fillRandom(rand.New(rand.NewSource(a.Seed)), om, 2)
	}
}

func (b *beh) unary(ctx context.Context, in, out proto.Message) error {
	a := actFrom(ctx)
	b.note(1, false)
	b.meta(ctx, nil, a)
	fillReply(out, in, a)
	if a.Err == "echo" {
		return status.Error(5, "no such room "+firstString(in))
	}
	return a.err()
}

// stream is the generic streaming handler: it receives until the stream ends
// (the canonical loop; bounded by spinCap, which no finite input of the
// harness can reach), echoes / sends as the action asks and returns the
// action's status.
func (b *beh) stream(ss grpc.ServerStream, cs, sst bool, newIn, newOut func() proto.Message) error {
	ctx := ss.Context()
	a := actFrom(ctx)
	b.meta(ctx, ss, a)
	recvs, sends := 0, 0
	spun := false
	defer func() { b.note(recvs, spun) }()
	failNow := func() bool { return a.After > 0 && sends >= a.After && (a.Code >= 0 || a.Err != "") }
	send := func(in proto.Message) error {
		out := newOut()
		ra := a
		if sends >= 8 && ra.Reply == "big" {
			ra.Reply = "echo" // only the first replies are huge
		}
		fillReply(out, in, ra)
		sends++
		return ss.SendMsg(out)
	}
	if a.Recv == "bg" {
		// receive in another goroutine and return while that Recv is pending
		started := make(chan struct{})
		go func() {
			close(started)
			for {
				if err := ss.RecvMsg(newIn()); err != nil {
					return
				}
			}
		}()
		<-started
		time.Sleep(3 * time.Millisecond) // let the goroutine block inside RecvMsg
		if sst {
			if err := send(nil); err != nil {
				return err
			}
		}
		if err := a.err(); err != nil || sst {
			return err
		}
		return send(nil)
	}
	if a.AsBody && cs {
		first := newIn()
		if rd, err := larking.AsHTTPBodyReader(ss, first); err == nil {
			io.Copy(io.Discard, io.LimitReader(rd, 8<<20))
			recvs++
		}
	}
	var last proto.Message
	rcap := b.recvCap()
	limit := rcap + 1 // until the stream ends
	switch a.Recv {
	case "none":
		limit = 0
	case "one":
		limit = 1
	}
	if !cs && limit > 1 {
		limit = 1 // generated code reads the single request of a server-streaming method once
	}
	for recvs < limit {
		if recvs >= rcap {
			spun = true
			return status.Error(8, "vf: receive cap reached without end of stream")
		}
		in := newIn()
		if err := ss.RecvMsg(in); err != nil {
			if err != io.EOF && a.Recv != "swallow" {
				return err
			}
			break
		}
		recvs++
		last = in
		if a.Err == "echo" {
			// an error message quoting request data
			return status.Error(5, "no such room "+firstString(in))
		}
		if sst && cs {
			if err := send(in); err != nil {
				return err
			}
			if failNow() {
				return a.err()
			}
		}
		if !cs {
			break
		}
	}
	if sst && !cs {
		n := a.Sends
		if n == 0 {
			n = 1
		}
		if a.AsBody {
			out := newOut()
			fillReply(out, last, a)
			if w, err := larking.AsHTTPBodyWriter(ss, out); err == nil {
				w.Write([]byte("chunk-one"))
				w.Write([]byte("chunk-two"))
			}
		}
		for i := 0; i < n; i++ {
			if failNow() {
				return a.err()
			}
			if err := send(last); err != nil {
				return err
			}
		}
	} else if sst && cs {
		for i := 0; i < a.Sends; i++ {
			if err := send(last); err != nil {
				return err
			}
		}
	}
	if !sst {
		if err := a.err(); err != nil {
			return err
		}
		return send(last)
	}
	return a.err()
}

// vschema.Impl for dynamic services.
func (b *beh) Unary(ctx context.Context, md protoreflect.MethodDescriptor, in proto.Message) (proto.Message, error) {
	out := vschema.NewMsg(md.Output())
	if err := b.unary(ctx, in, out); err != nil {
		return nil, err
	}
	return out, nil
}

func (b *beh) Stream(md protoreflect.MethodDescriptor, ss grpc.ServerStream) error {
	return b.stream(ss, md.IsStreamingClient(), md.IsStreamingServer(),
		func() proto.Message { return vschema.NewMsg(md.Input()) },
		func() proto.Message { return vschema.NewMsg(md.Output()) })
}

// ------------------------------------------------------- testpb servers

type msgSrv struct {
	testpb.UnimplementedMessagingServer
	b *beh
}

func tu[T proto.Message](b *beh, ctx context.Context, in proto.Message, out T) (T, error) {
	if err := b.unary(ctx, in, out); err != nil {
		var z T
		return z, err
	}
	return out, nil
}

func (s *msgSrv) GetMessageOne(ctx context.Context, in *testpb.GetMessageRequestOne) (*testpb.Message, error) {
	return tu(s.b, ctx, in, &testpb.Message{})
}
func (s *msgSrv) GetMessageTwo(ctx context.Context, in *testpb.GetMessageRequestTwo) (*testpb.Message, error) {
	return tu(s.b, ctx, in, &testpb.Message{})
}
func (s *msgSrv) UpdateMessage(ctx context.Context, in *testpb.UpdateMessageRequestOne) (*testpb.Message, error) {
	return tu(s.b, ctx, in, &testpb.Message{})
}
func (s *msgSrv) UpdateMessageBody(ctx context.Context, in *testpb.Message) (*testpb.Message, error) {
	return tu(s.b, ctx, in, &testpb.Message{})
}
func (s *msgSrv) Action(ctx context.Context, in *testpb.Message) (*emptypb.Empty, error) {
	return tu(s.b, ctx, in, &emptypb.Empty{})
}
func (s *msgSrv) ActionSegment(ctx context.Context, in *testpb.Message) (*emptypb.Empty, error) {
	return tu(s.b, ctx, in, &emptypb.Empty{})
}
func (s *msgSrv) ActionResource(ctx context.Context, in *testpb.Message) (*emptypb.Empty, error) {
	return tu(s.b, ctx, in, &emptypb.Empty{})
}
func (s *msgSrv) ActionSegments(ctx context.Context, in *testpb.Message) (*emptypb.Empty, error) {
	return tu(s.b, ctx, in, &emptypb.Empty{})
}
func (s *msgSrv) BatchGet(ctx context.Context, in *emptypb.Empty) (*emptypb.Empty, error) {
	return tu(s.b, ctx, in, &emptypb.Empty{})
}
func (s *msgSrv) VariableOne(ctx context.Context, in *testpb.Message) (*emptypb.Empty, error) {
	return tu(s.b, ctx, in, &emptypb.Empty{})
}
func (s *msgSrv) VariableTwo(ctx context.Context, in *testpb.Message) (*emptypb.Empty, error) {
	return tu(s.b, ctx, in, &emptypb.Empty{})
}
func (s *msgSrv) GetShelf(ctx context.Context, in *testpb.GetShelfRequest) (*testpb.Shelf, error) {
	return tu(s.b, ctx, in, &testpb.Shelf{})
}
func (s *msgSrv) GetBook(ctx context.Context, in *testpb.GetBookRequest) (*testpb.Book, error) {
	return tu(s.b, ctx, in, &testpb.Book{})
}
func (s *msgSrv) CreateBook(ctx context.Context, in *testpb.CreateBookRequest) (*testpb.Book, error) {
	return tu(s.b, ctx, in, &testpb.Book{})
}
func (s *msgSrv) UpdateBook(ctx context.Context, in *testpb.UpdateBookRequest) (*testpb.Book, error) {
	return tu(s.b, ctx, in, &testpb.Book{})
}

type filesSrv struct {
	testpb.UnimplementedFilesServer
	b *beh
}

func (s *filesSrv) UploadDownload(ctx context.Context, in *testpb.UploadFileRequest) (*httpbody.HttpBody, error) {
	return tu(s.b, ctx, in, &httpbody.HttpBody{})
}
func (s *filesSrv) LargeUploadDownload(ss testpb.Files_LargeUploadDownloadServer) error {
	return s.b.stream(ss, true, true,
		func() proto.Message { return &testpb.UploadFileRequest{} },
		func() proto.Message { return &httpbody.HttpBody{} })
}

type wkSrv struct {
	testpb.UnimplementedWellKnownServer
	b *beh
}

func (s *wkSrv) Check(ctx context.Context, in *testpb.Scalars) (*emptypb.Empty, error) {
	return tu(s.b, ctx, in, &emptypb.Empty{})
}

type cxSrv struct {
	testpb.UnimplementedComplexServer
	b *beh
}

func (s *cxSrv) Check(ctx context.Context, in *testpb.ComplexRequest) (*emptypb.Empty, error) {
	return tu(s.b, ctx, in, &emptypb.Empty{})
}

type chatSrv struct {
	testpb.UnimplementedChatRoomServer
	b *beh
}

func (s *chatSrv) Chat(ss testpb.ChatRoom_ChatServer) error {
	return s.b.stream(ss, true, true,
		func() proto.Message { return &testpb.ChatMessage{} },
		func() proto.Message { return &testpb.ChatMessage{} })
}

// --------------------------------------------------------- mux options

// Option bits.
const (
	optUnaryI  = 1
	optStreamI = 2
	optStats   = 4
	optSmall   = 8  // MaxReceiveMessageSize / MaxSendMessageSize = 64
	optPlain   = 16 // an extra, non-streaming codec registered as application/x-plain
	optLim1K   = 32 // MaxReceiveMessageSize = 1024
)

type statsRec struct{ b *beh }

func (s statsRec) TagRPC(ctx context.Context, _ *stats.RPCTagInfo) context.Context { return ctx }
func (s statsRec) HandleRPC(_ context.Context, _ stats.RPCStats) {
	s.b.mu.Lock()
	s.b.statsN++
	s.b.mu.Unlock()
}
func (s statsRec) TagConn(ctx context.Context, _ *stats.ConnTagInfo) context.Context { return ctx }
func (s statsRec) HandleConn(context.Context, stats.ConnStats)                       {}

// plainOnly implements larking.Codec but not larking.StreamCodec.
type plainOnly struct{ c larking.CodecJSON }

func (p plainOnly) Marshal(v interface{}) ([]byte, error)   { return p.c.Marshal(v) }
func (p plainOnly) Unmarshal(b []byte, v interface{}) error { return p.c.Unmarshal(b, v) }
func (p plainOnly) Name() string                            { return "plain" }
func (p plainOnly) MarshalAppend(b []byte, v interface{}) ([]byte, error) {
	return p.c.MarshalAppend(b, v)
}

func muxOptions(opts int, b *beh) []larking.MuxOption {
	var out []larking.MuxOption
	if opts&optUnaryI != 0 {
		inner := larking.NewUnaryContext(func(ctx context.Context, _ string, _, _ bool) context.Context { return ctx })
		out = append(out, larking.UnaryServerInterceptorOption(func(ctx context.Context, req interface{}, info *grpc.UnaryServerInfo, h grpc.UnaryHandler) (interface{}, error) {
			b.mu.Lock()
			b.unaryI++
			b.mu.Unlock()
			return inner(ctx, req, info, h)
		}))
	}
	if opts&optStreamI != 0 {
		inner := larking.NewStreamContext(func(ctx context.Context, _ string, _, _ bool) context.Context { return ctx })
		out = append(out, larking.StreamServerInterceptorOption(func(srv interface{}, ss grpc.ServerStream, info *grpc.StreamServerInfo, h grpc.StreamHandler) error {
			b.mu.Lock()
			b.streamI++
			b.mu.Unlock()
			return inner(srv, ss, info, h)
		}))
	}
	if opts&optStats != 0 {
		out = append(out, larking.StatsOption(statsRec{b}))
	}
	if opts&optSmall != 0 {
		out = append(out, larking.MaxReceiveMessageSizeOption(64), larking.MaxSendMessageSizeOption(64))
	}
	if opts&optLim1K != 0 {
		out = append(out, larking.MaxReceiveMessageSizeOption(1024))
	}
	if opts&optPlain != 0 {
		out = append(out, larking.CodecOption("application/x-plain", plainOnly{}))
	}
	return out
}

// --------------------------------------------------------------- targets

type built struct {
	mux *larking.Mux
	b   *beh
}

// target is a service set that can be instantiated under any option mask.
type target struct {
	Kind  string // testpb | std | rs
	RS    *RSet
	eps   []*endpoint
	fd    protoreflect.FileDescriptor
	cache map[int]*built
	// registration outcome (rs only)
	regErr   error
	regPanic *mon.PanicInfo
}

func newTestpbTarget() *target {
	t := &target{Kind: "testpb", cache: map[int]*built{}}
	for _, sd := range []protoreflect.ServiceDescriptor{
		testpb.File_larking_api_test_proto.Services().ByName("Messaging"),
		testpb.File_larking_api_test_proto.Services().ByName("Files"),
		testpb.File_larking_api_test_proto.Services().ByName("WellKnown"),
		testpb.File_larking_api_test_proto.Services().ByName("Complex"),
		testpb.File_larking_api_test_proto.Services().ByName("ChatRoom"),
	} {
		t.eps = append(t.eps, endpointsOf(sd)...)
	}
	return t
}

func newStdTarget() (*target, error) {
	std, err := svc.BuildStd("vf.std", "vf/std.proto", "/v1")
	if err != nil {
		return nil, err
	}
	return &target{Kind: "std", cache: map[int]*built{}, fd: std.FD, eps: endpointsOf(std.SD)}, nil
}

// newRSTarget builds the descriptors of a rule set and probes registration
// with no options; a rejected / panicking set is reported through
// regErr / regPanic.
func newRSTarget(rs *RSet) (*target, error) {
	fd, err := rs.file().Build()
	if err != nil {
		return nil, err
	}
	t := &target{Kind: "rs", RS: rs, fd: fd, cache: map[int]*built{}}
	t.eps = endpointsOf(fd.Services().ByName("Svc"))
	if _, err := t.get(0); err != nil {
		return t, nil
	}
	return t, nil
}

// get returns the mux for an option mask (built on first use).
func (t *target) get(opts int) (*built, error) {
	if bt, ok := t.cache[opts]; ok {
		return bt, nil
	}
	b := &beh{}
	mo := muxOptions(opts, b)
	switch t.Kind {
	case "testpb":
		mux, err := larking.NewMux(mo...)
		if err != nil {
			return nil, err
		}
		testpb.RegisterMessagingServer(mux, &msgSrv{b: b})
		testpb.RegisterFilesServer(mux, &filesSrv{b: b})
		testpb.RegisterWellKnownServer(mux, &wkSrv{b: b})
		testpb.RegisterComplexServer(mux, &cxSrv{b: b})
		testpb.RegisterChatRoomServer(mux, &chatSrv{b: b})
		t.cache[opts] = &built{mux, b}
	default:
		reg, err := vschema.Registry(t.fd)
		if err != nil {
			return nil, err
		}
		mo = append([]larking.MuxOption{larking.FilesOption(reg)}, mo...)
		mux, err := larking.NewMux(mo...)
		if err != nil {
			return nil, err
		}
		sd := t.fd.Services().Get(0)
		var rerr error
		pi := mon.Catch(func() { rerr = larking.VerifRegisterService(mux, vschema.ServiceDesc(sd, b), struct{}{}) })
		if pi != nil {
			t.regPanic = pi
			return nil, fmt.Errorf("registration panicked: %s", pi.Value)
		}
		if rerr != nil {
			t.regErr = rerr
			return nil, rerr
		}
		t.cache[opts] = &built{mux, b}
	}
	return t.cache[opts], nil
}
