// Package robust is the C09 engine: no request can crash or wedge the server.
// It drives the real Mux through its four entry paths (HTTP transcoding,
// gRPC, gRPC-web / -text, WebSocket upgrade) with grammar-aware mutations of
// valid requests over the testpb services, the standard harness service and
// generated / hand-written hostile rule sets, under every combination of
// interceptors and stats handler, and observes each execution with recover(),
// a wedge watchdog, the response status and the handlers' receive counters.
package robust

import (
	"bufio"
	"bytes"
	"encoding/base64"
	"encoding/json"
	"fmt"
	"io"
	"math/rand"
	"net"
	"net/http"
	"net/http/httptest"
	"os"
	"runtime"
	"sort"
	"strconv"
	"strings"
	"sync"
	"sync/atomic"
	"time"
	"unicode/utf8"

	"verif/internal/mon"
	"verif/internal/wire"
)

// BStr is a byte string that survives JSON: valid UTF-8 is written as a JSON
// string, anything else as {"b64": "..."}.
type BStr string

func (b BStr) MarshalJSON() ([]byte, error) {
	if utf8.ValidString(string(b)) {
		return json.Marshal(string(b))
	}
	return json.Marshal(map[string]string{"b64": base64.StdEncoding.EncodeToString([]byte(b))})
}

func (b *BStr) UnmarshalJSON(p []byte) error {
	var s string
	if err := json.Unmarshal(p, &s); err == nil {
		*b = BStr(s)
		return nil
	}
	var m map[string]string
	if err := json.Unmarshal(p, &m); err != nil {
		return err
	}
	d, err := base64.StdEncoding.DecodeString(m["b64"])
	*b = BStr(d)
	return err
}

const (
	clExact   = -2 // Content-Length = len(Body)
	clUnknown = -1
)

// Case is one replayable request.
type Case struct {
	// Entry: http | grpc | web | webtext | ws-nohijack (Upgrade request on a
	// plain recorder) | ws-mem (hijackable in-memory connection) |
	// sock-h1 | sock-h2c | sock-ws (real listener)
	Entry       string            `json:"entry"`
	Target      string            `json:"target"` // testpb | std | rs
	RS          *RSet             `json:"rule_set,omitempty"`
	Opts        int               `json:"mux_options"` // 1 unary interceptor, 2 stream interceptor, 4 stats handler, 8 64-byte limits, 16 extra non-streaming codec, 32 1024-byte receive limit
	Method      string            `json:"method"`
	Path        BStr              `json:"path"`
	Query       BStr              `json:"query,omitempty"`
	Header      map[string][]BStr `json:"header,omitempty"`
	Body        []byte            `json:"body_base64"`
	Proto       int               `json:"proto_major"`
	CL          int64             `json:"content_length"` // -2 exact, -1 unknown, else as given
	Frag        int               `json:"frag,omitempty"` // max bytes per body read
	EOFWithData bool              `json:"eof_with_data,omitempty"`
	Muts        []string          `json:"mutations,omitempty"`
	// Hold: the client keeps its sending side open after the body / script:
	// reads block until the server closes the body / connection (a client
	// that waits for the status or the reply before it half-closes)
	Hold bool `json:"hold,omitempty"`
	// burst entry: Sub requests are served concurrently by Burst goroutines,
	// Repeat times each, on the same mux (cross-request interference)
	Sub       []*Case `json:"sub,omitempty"`
	Burst     int     `json:"burst,omitempty"`
	Repeat    int     `json:"repeat,omitempty"`
	EP        string  `json:"built_for,omitempty"`
	RuleClass string  `json:"rule_class,omitempty"`
}

func (c *Case) header() http.Header {
	h := http.Header{}
	for k, vs := range c.Header {
		for _, v := range vs {
			h[http.CanonicalHeaderKey(k)] = append(h[http.CanonicalHeaderKey(k)], string(v))
		}
	}
	return h
}

func (c *Case) request() *http.Request {
	var body io.Reader
	cl := c.CL
	if c.Body != nil {
		if c.Frag > 0 || c.EOFWithData {
			sr := &wire.ScriptReader{Data: c.Body, EOFWithData: c.EOFWithData}
			if c.Frag > 0 {
				for n := 0; n < len(c.Body); n += c.Frag {
					sr.Cuts = append(sr.Cuts, c.Frag)
				}
			}
			body = sr
		} else if c.Hold {
			body = newHoldBody(c.Body)
			cl = clUnknown
		} else {
			body = bytes.NewReader(c.Body)
		}
		if cl == clExact {
			cl = int64(len(c.Body))
		}
	} else if cl == clExact {
		cl = 0
	}
	req := wire.NewRequest(c.Method, string(c.Path), string(c.Query), c.header(), body, cl)
	if c.Body == nil {
		// NewRequest forces 0 for a nil body; keep a lying Content-Length
		req.ContentLength = cl
	}
	switch c.Proto {
	case 2:
		req.Proto, req.ProtoMajor, req.ProtoMinor = "HTTP/2.0", 2, 0
	case 0:
		req.Proto, req.ProtoMajor, req.ProtoMinor = "HTTP/1.0", 1, 0
	case 3:
		req.Proto, req.ProtoMajor, req.ProtoMinor = "HTTP/3.0", 3, 0
	}
	return req
}

// ----------------------------------------------------- in-memory hijack

// memConn is the connection a hijacked in-process request talks to: reads
// come from the client script and end with io.EOF, writes are recorded.
type memConn struct {
	mu     sync.Mutex
	r      *bytes.Reader
	w      bytes.Buffer
	closed bool
	hold   bool
	cond   *sync.Cond
}

type memAddr struct{}

func (memAddr) Network() string { return "mem" }
func (memAddr) String() string  { return "mem" }

func (c *memConn) Read(p []byte) (int, error) {
	c.mu.Lock()
	defer c.mu.Unlock()
	for c.hold && !c.closed && c.r.Len() == 0 {
		if c.cond == nil {
			c.cond = sync.NewCond(&c.mu)
		}
		c.cond.Wait() // the client only reads now: nothing more until the server closes
	}
	if c.closed {
		return 0, net.ErrClosed
	}
	return c.r.Read(p)
}

// holdBody is a request body whose Read blocks, once the data is consumed,
// until the body is closed (an HTTP/2 client that has not half-closed).
type holdBody struct {
	mu     sync.Mutex
	r      *bytes.Reader
	closed chan struct{}
	once   sync.Once
}

func newHoldBody(b []byte) *holdBody {
	return &holdBody{r: bytes.NewReader(b), closed: make(chan struct{})}
}

func (h *holdBody) Read(p []byte) (int, error) {
	h.mu.Lock()
	if h.r.Len() > 0 {
		n, _ := h.r.Read(p)
		h.mu.Unlock()
		return n, nil
	}
	h.mu.Unlock()
	<-h.closed
	return 0, fmt.Errorf("request body closed")
}

func (h *holdBody) Close() error {
	h.once.Do(func() { close(h.closed) })
	return nil
}

func (c *memConn) Write(p []byte) (int, error) {
	c.mu.Lock()
	defer c.mu.Unlock()
	if c.closed {
		return 0, net.ErrClosed
	}
	if c.w.Len() < 8<<20 {
		c.w.Write(p)
	}
	return len(p), nil
}

func (c *memConn) Close() error {
	c.mu.Lock()
	c.closed = true
	if c.cond != nil {
		c.cond.Broadcast()
	}
	c.mu.Unlock()
	return nil
}
func (c *memConn) LocalAddr() net.Addr              { return memAddr{} }
func (c *memConn) RemoteAddr() net.Addr             { return memAddr{} }
func (c *memConn) SetDeadline(time.Time) error      { return nil }
func (c *memConn) SetReadDeadline(time.Time) error  { return nil }
func (c *memConn) SetWriteDeadline(time.Time) error { return nil }

func (c *memConn) out() ([]byte, bool) {
	c.mu.Lock()
	defer c.mu.Unlock()
	return append([]byte(nil), c.w.Bytes()...), c.closed
}

type hijackRW struct {
	*httptest.ResponseRecorder
	conn     *memConn
	hijacked atomic.Bool
}

func (h *hijackRW) Hijack() (net.Conn, *bufio.ReadWriter, error) {
	h.hijacked.Store(true)
	return h.conn, bufio.NewReadWriter(bufio.NewReader(h.conn), bufio.NewWriter(h.conn)), nil
}

// ------------------------------------------------------------- execution

// gidHandler remembers which goroutine serves the request so that a wedge
// can be located in the goroutine dump.
type gidHandler struct {
	h   http.Handler
	gid *atomic.Int64
}

func curGID() int64 {
	var buf [64]byte
	n := runtime.Stack(buf[:], false)
	s := strings.TrimPrefix(string(buf[:n]), "goroutine ")
	if i := strings.IndexByte(s, ' '); i > 0 {
		id, _ := strconv.ParseInt(s[:i], 10, 64)
		return id
	}
	return 0
}

func (g gidHandler) ServeHTTP(w http.ResponseWriter, r *http.Request) {
	g.gid.Store(curGID())
	g.h.ServeHTTP(w, r)
}

// outcome is what the monitors saw for one request.
type outcome struct {
	code     int
	panicked *mon.PanicInfo
	wedged   bool
	dump     string
	gid      int64
	hijacked bool
	connOut  []byte
	connShut bool
	grpcSt   string
	body     []byte
	calls    int
	spins    int
	recvs    int
	recvCap  int
	note     string // sock lanes: client-side note
	errlog   string // sock lanes: what the server logged for this case
}

func serveInproc(c *Case, bt *built) *outcome {
	o := &outcome{}
	var gid atomic.Int64
	h := gidHandler{bt.mux, &gid}
	bt.b.reset()
	if c.Entry == "ws-mem" {
		rw := &hijackRW{ResponseRecorder: httptest.NewRecorder(), conn: &memConn{r: bytes.NewReader(c.Body), hold: c.Hold}}
		cc := *c
		cc.Body = nil // the script travels on the hijacked connection, not as an HTTP body
		req := cc.request()
		done, pi, dump := mon.Timed(wire.WedgeTimeout, func() { h.ServeHTTP(rw, req) })
		o.gid = gid.Load()
		if !done {
			o.wedged, o.dump = true, dump
			return o
		}
		o.panicked = pi
		o.hijacked = rw.hijacked.Load()
		o.connOut, o.connShut = rw.conn.out()
		o.code = rw.Result().StatusCode
	} else {
		req := c.request()
		resp := wire.Serve(h, req)
		o.gid = gid.Load()
		if !resp.Wedged {
			req.Body.Close() // as net/http does once the handler has returned
		}
		if resp.Wedged {
			o.wedged, o.dump = true, resp.Dump
			return o
		}
		o.panicked = resp.Panic
		o.code = resp.Code
		o.body = resp.Body
		if code, _, _, ok := resp.GRPCStatus(); ok {
			o.grpcSt = strconv.Itoa(code)
		}
	}
	o.calls, o.spins, o.recvs = bt.b.snapshot()
	o.recvCap = bt.b.recvCap()
	return o
}

// serveOnly serves a plain request on a mux shared with other goroutines: the
// behaviour record is neither reset nor read.
func serveOnly(c *Case, bt *built) *outcome {
	o := &outcome{recvCap: spinCap}
	var gid atomic.Int64
	req := c.request()
	resp := wire.Serve(gidHandler{bt.mux, &gid}, req)
	o.gid = gid.Load()
	if resp.Wedged {
		o.wedged, o.dump = true, resp.Dump
		return o
	}
	req.Body.Close()
	o.panicked, o.code, o.body = resp.Panic, resp.Code, resp.Body
	return o
}

// statusLine parses "HTTP/1.x NNN" at the start of raw connection output.
func statusLine(b []byte) (int, bool) {
	if len(b) < 12 || !bytes.HasPrefix(b, []byte("HTTP/1.")) || b[8] != ' ' {
		return 0, false
	}
	n, err := strconv.Atoi(string(b[9:12]))
	return n, err == nil
}

type viol struct{ key, what string }

// goroutineBlock returns the dump block of one goroutine.
func goroutineBlock(dump string, gid int64) string {
	marker := fmt.Sprintf("goroutine %d [", gid)
	for _, blk := range strings.Split(dump, "\n\n") {
		if strings.HasPrefix(blk, marker) {
			return blk
		}
	}
	return ""
}

// larkingFrame returns the innermost larking frame of a goroutine block.
func larkingFrame(blk string) string {
	for _, line := range strings.Split(blk, "\n") {
		if strings.HasPrefix(line, "larking.io/larking.") {
			f := strings.TrimPrefix(line, "larking.io/")
			if i := strings.LastIndex(f, "("); i > 0 {
				f = f[:i]
			}
			return f
		}
	}
	return ""
}

// larkingFrames lists the larking frames of a goroutine block, innermost
// first.
func larkingFrames(blk string) []string {
	var out []string
	for _, line := range strings.Split(blk, "\n") {
		if strings.HasPrefix(line, "larking.io/larking.") {
			f := strings.TrimPrefix(line, "larking.io/")
			if i := strings.LastIndex(f, "("); i > 0 {
				f = f[:i]
			}
			out = append(out, f)
		}
	}
	return out
}

// stableWedgeFrame names the place of a wedge. A blocked goroutine always
// shows the same stack; a spinning one is sampled in whatever leaf helper it
// happens to run, so the goroutine is sampled a few more times and the
// innermost larking frame common to all samples (the function that owns the
// loop) is used.
func stableWedgeFrame(gid int64, first string) string {
	common := larkingFrames(first)
	if len(common) == 0 {
		return ""
	}
	buf := make([]byte, 4<<20)
	for i := 0; i < 10 && len(common) > 1; i++ {
		time.Sleep(15 * time.Millisecond)
		blk := goroutineBlock(string(buf[:runtime.Stack(buf, true)]), gid)
		fr := larkingFrames(blk)
		if len(fr) == 0 {
			break // the goroutine is gone or left larking: keep what we have
		}
		// longest common suffix (outermost frames aligned)
		n := 0
		for n < len(common) && n < len(fr) && common[len(common)-1-n] == fr[len(fr)-1-n] {
			n++
		}
		if n == 0 {
			break
		}
		common = common[len(common)-n:]
	}
	return common[0]
}

func entryClass(e string) string {
	if strings.HasPrefix(e, "ws") || e == "sock-ws" {
		return "websocket"
	}
	return strings.TrimPrefix(e, "sock-")
}

func (c *Case) inputBound() int {
	n := len(c.Body) + len(c.Path) + len(c.Query) + 64
	compressed := bytes.Contains(c.Body, []byte{0x1f, 0x8b})
	for _, k := range []string{"Content-Encoding", "Grpc-Encoding"} {
		if len(c.Header[k]) > 0 {
			compressed = true
		}
	}
	if compressed {
		n *= 1100
	}
	return n
}

// judge applies the oracle to one observed execution. inconclusive is set
// when the watchdog fired without a diagnosable state.
func judge(c *Case, o *outcome) (vs []viol, inconclusive string) {
	if o.panicked != nil {
		vs = append(vs, viol{o.panicked.Key(), fmt.Sprintf("%s request panicked: %s (top larking frame %s)", c.Entry, o.panicked.Value, o.panicked.Frame)})
		return vs, ""
	}
	if o.wedged {
		blk := goroutineBlock(o.dump, o.gid)
		if f := stableWedgeFrame(o.gid, blk); f != "" {
			vs = append(vs, viol{"wedge@" + f + ":" + entryClass(c.Entry), fmt.Sprintf("%s request fed from memory had not returned after %v; its goroutine is inside larking:\n%s", c.Entry, wire.WedgeTimeout, firstLines(blk, 24))})
			return vs, ""
		}
		return nil, fmt.Sprintf("watchdog fired for a %s request but its goroutine (%d) is not inside larking", c.Entry, o.gid)
	}
	if o.errlog != "" && strings.Contains(o.errlog, "panic serving") {
		pi := panicFromLog(o.errlog)
		vs = append(vs, viol{pi.Key(), fmt.Sprintf("%s: the server logged a panic while serving the request: %s (top larking frame %s)", c.Entry, pi.Value, pi.Frame)})
		return vs, ""
	}
	switch {
	case strings.HasPrefix(c.Entry, "sock-"):
		// the client-side status is informative only: net/http answers
		// malformed requests itself
	case o.hijacked:
		if code, ok := statusLine(o.connOut); !ok || code < 100 || code > 599 {
			vs = append(vs, viol{"status:" + c.Entry + ":no-status-line-on-hijacked-connection", fmt.Sprintf("hijacked connection carries no valid HTTP status line (first bytes %q)", head(o.connOut, 40))})
		} else {
			o.code = code
			if code == 101 {
				vs = append(vs, judgeUpgraded(c, o)...)
			}
		}
	default:
		if o.code < 100 || o.code > 599 {
			vs = append(vs, viol{"status:" + entryClass(c.Entry) + ":out-of-range", fmt.Sprintf("response status %d is not a valid HTTP status", o.code)})
		}
	}
	if o.spins > 0 {
		if b := c.inputBound(); b < o.recvCap {
			vs = append(vs, viol{"loop:recv-without-input:" + entryClass(c.Entry) + ":" + c.RuleClass,
				fmt.Sprintf("a handler receiving until end-of-stream was handed %d messages (cap) although the whole request carries at most %d bytes: RecvMsg keeps succeeding without consuming input, the request never ends", o.recvCap, b)})
		} else {
			o.note += " recv-cap-reached-on-large-input"
		}
	}
	return vs, ""
}

func firstLines(s string, n int) string {
	l := strings.Split(s, "\n")
	if len(l) > n {
		l = l[:n]
	}
	return strings.Join(l, "\n")
}

func head(b []byte, n int) []byte {
	if len(b) > n {
		return b[:n]
	}
	return b
}

// panicFromLog rebuilds a PanicInfo from net/http's "panic serving" log.
func panicFromLog(log string) *mon.PanicInfo {
	pi := &mon.PanicInfo{Stack: log}
	i := strings.Index(log, "panic serving ")
	rest := log[i+len("panic serving "):]
	if j := strings.Index(rest, ": "); j >= 0 {
		rest = rest[j+2:]
	}
	if j := strings.Index(rest, "\ngoroutine "); j >= 0 {
		pi.Value = rest[:j]
		rest = rest[j:]
	} else {
		pi.Value = firstLines(rest, 1)
	}
	seenPanic := false
	for _, line := range strings.Split(rest, "\n") {
		if strings.HasPrefix(line, "panic(") || strings.HasPrefix(line, "runtime.") {
			seenPanic = true
			continue
		}
		if seenPanic && strings.HasPrefix(line, "larking.io/") {
			f := strings.TrimPrefix(line, "larking.io/")
			if k := strings.LastIndex(f, "("); k > 0 {
				f = f[:k]
			}
			pi.Frame = f
			break
		}
	}
	if pi.Frame == "" {
		pi.Frame = "unknown"
	}
	pi.Value = strings.TrimSpace(pi.Value)
	return pi
}

func outcomeClass(c *Case, o *outcome) string {
	switch {
	case o.panicked != nil:
		return "panic"
	case o.wedged:
		return "wedge"
	}
	s := fmt.Sprintf("%dxx", o.code/100)
	if o.grpcSt != "" {
		if o.grpcSt == "0" {
			s += "/grpc-ok"
		} else {
			s += "/grpc-err"
		}
	}
	if o.calls > 0 {
		s += "/handler"
	}
	return s
}

func shapeKey(c *Case, o *outcome) string {
	m := "valid"
	if len(c.Muts) > 0 {
		m = c.Muts[0]
	}
	return c.Entry + "|" + c.Target + "|opts=" + strconv.Itoa(c.Opts&7) + "|" + m + "|" + outcomeClass(c, o)
}

// ------------------------------------------------------------------ run

type shardStats struct {
	distinct2 map[string]bool // (entry class, option mask) pairs exercised
	distinct  map[string]int
	counts    map[string]int
	evals     int
}

func newStats() *shardStats {
	return &shardStats{distinct: map[string]int{}, counts: map[string]int{}, distinct2: map[string]bool{}}
}

func (s *shardStats) count(k string, n int) { s.counts[k] += n }

var combos = struct {
	sync.Mutex
	m map[string]bool
}{m: map[string]bool{}}

func (s *shardStats) flush(r *mon.Run) {
	combos.Lock()
	for k := range s.distinct2 {
		combos.m[k] = true
	}
	r.Set("entry_x_option_mask_combinations_exercised", len(combos.m))
	combos.Unlock()
	r.Eval(s.evals)
	for k := range s.distinct {
		r.Distinct(k)
	}
	for k, v := range s.counts {
		r.Count(k, v)
	}
}

func pickOpts(rng *rand.Rand) int {
	o := rng.Intn(8)
	switch rng.Intn(12) {
	case 0:
		o |= optSmall
	case 1:
		o |= optPlain
	case 2:
		o |= optLim1K
	}
	return o
}

var inprocEntries = []string{"http", "http", "http", "http", "grpc", "grpc", "web", "webtext", "ws-mem", "ws-mem", "ws-nohijack"}

// wedgesSeen is the circuit breaker: a tree on which requests wedge makes
// every further case cost a watchdog period (and leaves spinning goroutines
// behind), so the shards stop after a few witnesses.
var wedgesSeen atomic.Int32

const maxWedges = 3

func record(r *mon.Run, st *shardStats, c *Case, o *outcome) {
	if o.wedged {
		wedgesSeen.Add(1)
	}
	st.evals++
	st.count("requests_"+c.Entry, 1)
	st.count(fmt.Sprintf("requests_with_option_mask_%d", c.Opts&7), 1)
	st.distinct2[entryClass(c.Entry)+"/"+strconv.Itoa(c.Opts&7)] = true
	if o.calls > 0 {
		st.count("requests_reaching_a_handler", 1)
	}
	st.distinct[shapeKey(c, o)]++
	vs, inc := judge(c, o)
	if inc != "" {
		r.Inconclusive(inc)
	}
	for _, v := range vs {
		st.count("violating_requests", 1)
		r.Violate(v.key, v.what, c)
	}
	if o.panicked != nil {
		st.count("panics_observed", 1)
	}
	if o.hijacked {
		st.count("connections_hijacked", 1)
		if !o.connShut {
			st.count("hijacked_connections_left_open_by_the_mux", 1)
		}
	}
}

// buildSets returns the rule-set targets of a shard: its share of the
// hostile sets plus freshly generated ones. Rejected sets are counted and
// skipped; registration panics are C16's subject.
func buildSets(r *mon.Run, st *shardStats, rng *rand.Rand, shard, nshards, ngen int) []*target {
	var out []*target
	probe := func(rs *RSet) *target {
		t, err := newRSTarget(rs)
		if err != nil {
			st.count("rule_sets_descriptor_build_failed", 1)
			return nil
		}
		if t.regPanic != nil {
			st.count("registrations_panicked_left_to_C16", 1)
			st.count("left_to_C16:"+t.regPanic.Key(), 1)
			return nil
		}
		if t.regErr != nil {
			return nil
		}
		return t
	}
	try := func(rs *RSet) {
		if t := probe(rs); t != nil {
			st.count("rule_sets_registered", 1)
			out = append(out, t)
			return
		}
		// keep what registration accepts: every rule is probed on its own
		// and the set is rebuilt from the accepted ones (a method left
		// without rules keeps its implicit binding)
		st.count("rule_sets_rejected_as_generated", 1)
		f := &RSet{Pkg: rs.Pkg, Class: rs.Class + ":filtered"}
		for _, m := range rs.Methods {
			fm := m
			fm.Rules = nil
			for _, rl := range m.Rules {
				one := m
				one.Rules = []RRule{rl}
				if probe(&RSet{Pkg: rs.Pkg, Methods: []RMethod{one}}) != nil {
					fm.Rules = append(fm.Rules, rl)
				} else {
					st.count("rules_rejected_by_registration", 1)
				}
			}
			f.Methods = append(f.Methods, fm)
		}
		if t := probe(f); t != nil {
			st.count("rule_sets_registered_after_filtering", 1)
			out = append(out, t)
		} else {
			st.count("rule_sets_rejected_even_after_filtering", 1)
		}
	}
	for i, rs := range hostileSets() {
		if i%nshards == shard {
			try(rs)
		}
	}
	for i := 0; i < ngen; i++ {
		try(genRuleSet(rng, fmt.Sprintf("%dx%d", shard, i)))
	}
	return out
}

func runShard(r *mon.Run, shard, nshards, ncases, ngen int) {
	rng := r.Rand(fmt.Sprintf("robust-shard-%d", shard))
	st := newStats()
	defer st.flush(r)
	tp := newTestpbTarget()
	std, err := newStdTarget()
	if err != nil {
		r.Inconclusive("harness: standard service: " + err.Error())
		return
	}
	sets := buildSets(r, st, rng, shard, nshards, ngen)
	for i := 0; i < ncases; i++ {
		if wedgesSeen.Load() >= maxWedges {
			st.count("cases_skipped_after_repeated_wedges", ncases-i)
			break
		}
		var t *target
		switch x := rng.Intn(100); {
		case x < 22:
			t = tp
		case x < 40 || len(sets) == 0:
			t = std
		default:
			t = sets[rng.Intn(len(sets))]
		}
		c := genCase(rng, t, inprocEntries)
		c.Target, c.RS, c.Opts = t.Kind, t.RS, pickOpts(rng)
		bt, err := t.get(c.Opts)
		if err != nil {
			st.count("mux_build_failed_for_option_mask", 1)
			continue
		}
		o := serveInproc(c, bt)
		record(r, st, c, o)
		if r.SampleN() < 5 && shard == 0 && i%977 == 0 {
			r.Sample(sampleOf(c))
		}
	}
}

func sampleOf(c *Case) any {
	s := *c
	if len(s.Body) > 80 {
		s.Body = s.Body[:80]
	}
	if s.RS != nil {
		s.RS = &RSet{Pkg: s.RS.Pkg, Class: s.RS.Class}
	}
	return s
}

const ruleText = "requests = grammar-aware mutations of valid requests (plus raw bytes) built for every endpoint of (a) the testpb services registered with their generated Register*Server functions, (b) the standard harness service, (c) generated rule sets (multi-segment ** variables, typed variables, nested fields, variables / body / response_body selectors on scalar, repeated, map and message fields, websocket rules with and without body) and hand-written hostile sets; mutations cover paths (near misses, token soup, 63/64/65 tokens, invalid UTF-8, huge segments), query keys walking the schema, header tables, header-value grammar (valid media-range / coding / token lists with every separator, control and non-ASCII byte, comments, quoted strings, unbalanced quotes and empty elements inserted at every lexical gap: random edits everywhere plus an exhaustive sweep over succeeding, handler-failing and route-failing requests of every entry), bodies (JSON junk, deep JSON, invalid protobuf, varint prefixes of 1-11 bytes, broken gzip, gRPC frames with lying length / flag fields, 0-4-byte messages, broken base64, hostile WebSocket frames) and the status the handler returns (any code incl. 17 and out-of-range, hostile messages, details, headers, trailers). Entries: http, grpc (ProtoMajor 2), grpc-web, grpc-web-text, WebSocket upgrade on a plain recorder, on a hijackable in-memory connection and on a real listener, HTTP/1 and h2c on a real listener (server built by larking.NewServer); every mask of {unary interceptor, stream interceptor, stats handler} plus small limits and an extra codec. Further lanes: muxes in other life-cycle states (brand new, only registration rejected, only connection dropped, registered connection whose refresh with changed descriptors was refused, service served by two connections of which one was replaced by a third after traffic) receiving valid and hostile requests of every entry under all 8 masks; on the WebSocket path a sweep of lengths 1..200 of everything that ends up in an error message (handler message in 1..4-byte runes, unknown JSON field name, echoed path variable / message field), every upgraded exchange having to end with well-formed frames and a well-formed close frame; hand-built WebSocket control-frame headers (ping / pong / close announcing 126 .. 2^63-1 bytes in 16- and 64-bit length forms, FIN 0/1, before the first data frame, after an echo round trip, between fragments, with and without payload behind them); as the very last lane, 8 goroutines sending requests whose Content-Type / Accept spellings are all different (parameters, case, white space; JSON, protobuf, Twirp), each answer compared with its sequential twin on a private mux; compressed messages (gRPC, gRPC-web, gRPC-web-text frames and gzip HTTP bodies) whose decompressed size is swept over limit-3..limit+3 for 64-byte, 1024-byte and the default 4 MiB receive limits; clients that keep their sending side open (gRPC / gRPC-web client-streaming calls whose body blocks until the server closes it, with handlers that return without reading, after one message, or while a Recv is pending in another goroutine, local and proxied; WebSocket clients that send exactly the request of a unary / server-streaming method and then only read): the call must still end; bursts of 16 goroutines serving gzip-compressed requests concurrently on one mux (pooled state), and the standard service proxied to a real grpc-go back-end through RegisterConn. Oracle: recover(), 20 s watchdog with goroutine dump, valid HTTP status, 'panic serving' in the server log, handlers' receive counter against the request size. distinct = (entry, target kind, option mask, first two mutation classes, outcome class)"

// RunC09 is the robustness check.
func RunC09(r *mon.Run) {
	r.Rule = ruleText
	r.Floor = 300
	const nshards = 16
	total := r.Pick(60000, 5000000)
	ngen := r.Pick(10, 150)
	workers := runtime.GOMAXPROCS(0)
	if workers > nshards {
		workers = nshards
	}
	sem := make(chan struct{}, workers)
	var wg sync.WaitGroup
	t0 := time.Now()
	phase := os.Getenv("VERIF_ROBUST_PHASE") // development only: "inproc" or "sock"
	for s := 0; s < nshards && (phase == "" || phase == "inproc"); s++ {
		wg.Add(1)
		sem <- struct{}{}
		go func(s int) {
			defer wg.Done()
			defer func() { <-sem }()
			runShard(r, s, nshards, total/nshards, ngen)
		}(s)
	}
	wg.Wait()
	if phase == "" || phase == "inproc" || phase == "sweep" {
		runHeaderSweep(r)
	}
	if phase == "" || phase == "inproc" || phase == "hold" {
		runHoldLane(r)
	}
	if phase == "" || phase == "inproc" || phase == "ctl" {
		runControlFrames(r)
	}
	if phase == "" || phase == "inproc" || phase == "limit" {
		runLimitSweep(r)
	}
	if phase == "" || phase == "inproc" || phase == "life" {
		runLifecycle(r)
		runCloseSweep(r)
	}
	if phase == "" || phase == "inproc" {
		runBursts(r)
	}
	t1 := time.Now()
	if phase == "" || phase == "sock" {
		runSockets(r)
	}
	t2 := time.Now()
	if phase == "" || phase == "proxy" {
		runProxied(r)
	}
	// last: on a tree that writes shared state per request this lane kills
	// the process (fatal error, reported by bin/check from the crash log)
	if phase == "" || phase == "spell" {
		runSpellings(r)
	}
	r.Set("phase_seconds", map[string]float64{"in_process": t1.Sub(t0).Seconds(), "real_listeners": t2.Sub(t1).Seconds(), "proxied": time.Since(t2).Seconds()})
	r.Assume("handlers are the harness's own (status, headers and replies chosen by the X-Vf-Act request header); a panic raised by harness code would be keyed by its own frame and is a harness bug")
	r.Assume("a stream handler that receives until end-of-stream gives up after 2^17 messages (2^13 on real listeners); this is reported only when the request is smaller than that many bytes (x1100 when compressed), which no consuming implementation can produce")
	r.Assume("memory exhaustion (decompression bombs) is not exercised")
}

// Replay re-executes a stored case.
func Replay(r *mon.Run, raw json.RawMessage) {
	var c Case
	if err := json.Unmarshal(raw, &c); err != nil {
		r.Inconclusive("bad replay case: " + err.Error())
		return
	}
	t, err := targetFor(&c)
	if err != nil {
		r.Inconclusive("replay: " + err.Error())
		return
	}
	st := newStats()
	defer st.flush(r)
	if c.Entry == "burst" {
		bt, err := t.get(c.Opts)
		if err != nil {
			r.Inconclusive("replay: " + err.Error())
			return
		}
		n := execBurst(r, st, &c, bt)
		fmt.Printf("replay: burst of %d goroutines x %d requests, %d violating requests (scheduling is not replayed: a silent replay does not refute the finding)\n", c.Burst, c.Repeat, n)
		return
	}
	if strings.HasPrefix(c.Entry, "sock-") {
		ss, err := newSockServer(t, c.Opts)
		if err != nil {
			r.Inconclusive("replay: " + err.Error())
			return
		}
		defer ss.close()
		o := ss.run(&c)
		record(r, st, &c, o)
		fmt.Printf("replay: entry=%s note=%q log=%q\n", c.Entry, o.note, firstLines(o.errlog, 3))
		return
	}
	bt, err := t.get(c.Opts)
	if err != nil {
		r.Inconclusive("replay: rule set not registrable on this tree: " + err.Error())
		return
	}
	o := serveInproc(&c, bt)
	record(r, st, &c, o)
	fmt.Printf("replay: entry=%s status=%d grpc-status=%q handler_calls=%d recvs=%d panic=%v\n", c.Entry, o.code, o.grpcSt, o.calls, o.recvs, o.panicked != nil)
}

func targetFor(c *Case) (*target, error) {
	switch c.Target {
	case "testpb":
		return newTestpbTarget(), nil
	case "std":
		return newStdTarget()
	case "life:new", "life:failed", "life:dropped", "life:refresh-refused", "life:replaced":
		l, err := newLifeTarget(c.Target)
		if err != nil {
			return nil, err
		}
		return l.t, nil // a back-end, if any, lives until the process exits
	case "proxy":
		p, err := newProxyTarget()
		if err != nil {
			return nil, err
		}
		return p.t, nil // the back-end lives until the process exits
	case "rs":
		if c.RS == nil {
			return nil, fmt.Errorf("case has no rule set")
		}
		t, err := newRSTarget(c.RS)
		if err != nil {
			return nil, err
		}
		if t.regErr != nil {
			return nil, fmt.Errorf("rule set rejected: %v", t.regErr)
		}
		if t.regPanic != nil {
			return nil, fmt.Errorf("rule set registration panicked: %s", t.regPanic.Value)
		}
		return t, nil
	}
	return nil, fmt.Errorf("unknown target %q", c.Target)
}

func sortedKeys(m map[string][]BStr) []string {
	var ks []string
	for k := range m {
		ks = append(ks, k)
	}
	sort.Strings(ks)
	return ks
}

// ---------------------------------------------------------------- bursts

// gzipCase builds a valid request whose body (or frames) is gzip-compressed.
func gzipCase(rng *rand.Rand, t *target) *Case {
	for {
		ep := t.eps[rng.Intn(len(t.eps))]
		g := &genCtx{t: t, ep: ep}
		var c *Case
		if rng.Intn(3) == 0 {
			g.rl = &ep.Rules[len(ep.Rules)-1]
			c = baseGRPC(rng, g, pick(rng, []string{"grpc", "web"}))
			if !g.gz {
				continue
			}
		} else {
			g.rl = &ep.Rules[rng.Intn(len(ep.Rules))]
			if g.rl.Body == "" || g.rl.Verb == "WEBSOCKET" {
				continue
			}
			c = baseHTTP(rng, g)
			if len(c.Header["Content-Encoding"]) == 0 {
				if len(c.Body) == 0 {
					continue
				}
				c.Body = wire.Gzip(c.Body)
				setH(c, "Content-Encoding", "gzip")
			}
			if rng.Intn(2) == 0 {
				c.EOFWithData = true
			}
			if rng.Intn(3) == 0 {
				c.Frag = 1 + rng.Intn(7)
			}
		}
		c.EP = ep.Full
		c.Muts = []string{"gzip"}
		return c
	}
}

// execBurst serves the sub-requests of a burst concurrently on one mux and
// judges every execution (panic, wedge, status); it returns the number of
// violating requests.
func execBurst(r *mon.Run, st *shardStats, c *Case, bt *built) int {
	var wg sync.WaitGroup
	var mu sync.Mutex
	bad := 0
	for g := 0; g < c.Burst; g++ {
		wg.Add(1)
		go func(g int) {
			defer wg.Done()
			for i := 0; i < c.Repeat; i++ {
				if wedgesSeen.Load() >= maxWedges {
					return
				}
				sub := c.Sub[(g+i)%len(c.Sub)]
				var gid atomic.Int64
				resp := wire.Serve(gidHandler{bt.mux, &gid}, sub.request())
				o := &outcome{gid: gid.Load(), wedged: resp.Wedged, dump: resp.Dump, panicked: resp.Panic, code: resp.Code, recvCap: spinCap}
				if o.wedged {
					wedgesSeen.Add(1)
				}
				vs, inc := judge(sub, o)
				mu.Lock()
				st.evals++
				st.counts["requests_burst"]++
				st.distinct["burst|"+sub.Entry+"|"+outcomeClass(sub, o)]++
				if inc != "" {
					r.Inconclusive(inc)
				}
				for _, v := range vs {
					bad++
					st.counts["violating_requests"]++
					key := v.key
					if o.panicked != nil {
						// crashes caused by interference have no stable
						// message: key by the larking frame only
						key = "concurrent:panic@" + o.panicked.Frame
					}
					r.Violate(key, "in a burst of concurrent requests: "+v.what, c)
				}
				mu.Unlock()
			}
		}(g)
	}
	wg.Wait()
	return bad
}

// runBursts is the cross-request phase: compressed requests of every shape
// served concurrently on one mux (pooled decompressors, buffers).
func runBursts(r *mon.Run) {
	rng := r.Rand("robust-burst")
	st := newStats()
	defer st.flush(r)
	std, err := newStdTarget()
	if err != nil {
		r.Inconclusive("harness: standard service: " + err.Error())
		return
	}
	for _, t := range []*target{std, newTestpbTarget()} {
		for _, opts := range []int{0, 7} {
			bt, err := t.get(opts)
			if err != nil {
				continue
			}
			c := &Case{Entry: "burst", Target: t.Kind, Opts: opts, Burst: 16, Repeat: r.Pick(400, 20000)}
			for i := 0; i < 12; i++ {
				sub := gzipCase(rng, t)
				sub.Target, sub.Opts = t.Kind, opts
				c.Sub = append(c.Sub, sub)
			}
			execBurst(r, st, c, bt)
		}
	}
}
