package robust

import (
	"context"
	"fmt"
	"io"
	"net"
	"sync"
	"time"

	"google.golang.org/grpc"
	"google.golang.org/grpc/credentials/insecure"
	"google.golang.org/grpc/grpclog"
	"google.golang.org/grpc/reflection"
	rpb "google.golang.org/grpc/reflection/grpc_reflection_v1alpha"
	"google.golang.org/protobuf/reflect/protoreflect"
	"google.golang.org/protobuf/reflect/protoregistry"
	"larking.io/larking"

	"verif/internal/mon"
	"verif/internal/svc"
	"verif/internal/vschema"
)

// beResolver serves the harness's dynamic files to the reflection service and
// falls back to the global registry.
type beResolver struct{ own *protoregistry.Files }

func (r beResolver) FindFileByPath(p string) (protoreflect.FileDescriptor, error) {
	if fd, err := r.own.FindFileByPath(p); err == nil {
		return fd, nil
	}
	return protoregistry.GlobalFiles.FindFileByPath(p)
}

func (r beResolver) FindDescriptorByName(n protoreflect.FullName) (protoreflect.Descriptor, error) {
	if d, err := r.own.FindDescriptorByName(n); err == nil {
		return d, nil
	}
	return protoregistry.GlobalFiles.FindDescriptorByName(n)
}

// proxyTarget is the standard service living on a real grpc-go back-end that
// the mux reaches through RegisterConn (reflection): the handlers under test
// are larking's own forwarders.
type proxyTarget struct {
	t   *target
	gs  *grpc.Server
	lis net.Listener
	cc  *grpc.ClientConn
}

func (p *proxyTarget) close() {
	if p.cc != nil {
		p.cc.Close()
	}
	p.gs.Stop()
	p.lis.Close()
}

var quietGRPC sync.Once

func newProxyTarget() (*proxyTarget, error) {
	// grpc-go reports every hostile status / metadata on stderr
	quietGRPC.Do(func() { grpclog.SetLoggerV2(grpclog.NewLoggerV2(io.Discard, io.Discard, io.Discard)) })
	std, err := svc.BuildStd("vf.pxy", "vf/pxy.proto", "/p1")
	if err != nil {
		return nil, err
	}
	own, err := vschema.Registry(vschema.TypesFile(), std.FD)
	if err != nil {
		return nil, err
	}
	lis, err := net.Listen("tcp", "127.0.0.1:0")
	if err != nil {
		return nil, err
	}
	backendBeh := &beh{}
	gs := grpc.NewServer()
	gs.RegisterService(vschema.ServiceDesc(std.SD, backendBeh), struct{}{})
	rpb.RegisterServerReflectionServer(gs, reflection.NewServer(reflection.ServerOptions{
		Services: gs, DescriptorResolver: beResolver{own}, ExtensionResolver: protoregistry.GlobalTypes,
	}))
	go gs.Serve(lis)
	p := &proxyTarget{gs: gs, lis: lis}
	p.cc, err = grpc.NewClient("passthrough:///"+lis.Addr().String(), grpc.WithTransportCredentials(insecure.NewCredentials()))
	if err != nil {
		p.close()
		return nil, err
	}
	p.t = &target{Kind: "proxy", cache: map[int]*built{}, fd: std.FD, eps: endpointsOf(std.SD)}
	// the muxes of this target are built here: RegisterConn instead of
	// RegisterService
	for _, opts := range []int{0, 7} {
		b := &beh{}
		mux, err := larking.NewMux(muxOptions(opts, b)...)
		if err != nil {
			p.close()
			return nil, err
		}
		ctx, cancel := context.WithTimeout(context.Background(), 10*time.Second)
		var rerr error
		pi := mon.Catch(func() { rerr = mux.RegisterConn(ctx, p.cc) })
		cancel()
		if pi != nil || rerr != nil {
			p.close()
			return nil, fmt.Errorf("RegisterConn: %v %v", rerr, pi)
		}
		// spin accounting comes from the back-end's handlers
		p.t.cache[opts] = &built{mux, backendBeh}
	}
	return p, nil
}

// runProxied is the last phase: requests whose handler is the forwarder to a
// real back-end. It stops at its first wedge (a back-end that waits for the
// client's half-close is the proxy engine's subject).
func runProxied(r *mon.Run) {
	rng := r.Rand("robust-proxied")
	st := newStats()
	defer st.flush(r)
	p, err := newProxyTarget()
	if err != nil {
		st.count("proxied_target_unavailable", 1)
		return
	}
	defer p.close()
	n := r.Pick(3000, 150000)
	for i := 0; i < n; i++ {
		if wedgesSeen.Load() >= maxWedges {
			st.count("cases_skipped_after_repeated_wedges", n-i)
			return
		}
		c := genCase(rng, p.t, []string{"http", "http", "grpc", "web", "webtext", "ws-mem"})
		c.Target, c.Opts = "proxy", []int{0, 7}[rng.Intn(2)]
		o := serveInproc(c, p.t.cache[c.Opts])
		record(r, st, c, o)
		if o.wedged {
			st.count("proxied_cases_skipped_after_a_wedge", n-i-1)
			return
		}
	}
}
