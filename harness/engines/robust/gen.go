package robust

import (
	"bytes"
	"encoding/base64"
	"encoding/binary"
	"fmt"
	"math/rand"
	"strings"

	"google.golang.org/protobuf/encoding/protojson"
	"google.golang.org/protobuf/encoding/protowire"
	"google.golang.org/protobuf/proto"
	"google.golang.org/protobuf/reflect/protoreflect"

	"verif/engines/route"
	"verif/internal/vschema"
	"verif/internal/wire"
)

func pick(rng *rand.Rand, s []string) string { return s[rng.Intn(len(s))] }

// ------------------------------------------------------- random messages

var strPool = []string{"", "x", "ab", "hello world", "é✓", "a/b", "a:b", "50%", "{}", `"q"`, "shelves/1", "rooms/r1"}

func scalarValue(rng *rand.Rand, fd protoreflect.FieldDescriptor) protoreflect.Value {
	switch fd.Kind() {
	case protoreflect.BoolKind:
		return protoreflect.ValueOfBool(rng.Intn(2) == 0)
	case protoreflect.Int32Kind, protoreflect.Sint32Kind, protoreflect.Sfixed32Kind:
		return protoreflect.ValueOfInt32([]int32{0, 1, -1, 2147483647, -2147483648, 42}[rng.Intn(6)])
	case protoreflect.Int64Kind, protoreflect.Sint64Kind, protoreflect.Sfixed64Kind:
		return protoreflect.ValueOfInt64([]int64{0, 1, -1, 9223372036854775807, -9223372036854775808, 7}[rng.Intn(6)])
	case protoreflect.Uint32Kind, protoreflect.Fixed32Kind:
		return protoreflect.ValueOfUint32([]uint32{0, 1, 4294967295, 17}[rng.Intn(4)])
	case protoreflect.Uint64Kind, protoreflect.Fixed64Kind:
		return protoreflect.ValueOfUint64([]uint64{0, 1, 18446744073709551615, 3}[rng.Intn(4)])
	case protoreflect.FloatKind:
		return protoreflect.ValueOfFloat32([]float32{0, 1.5, -0.25, 3e10}[rng.Intn(4)])
	case protoreflect.DoubleKind:
		return protoreflect.ValueOfFloat64([]float64{0, 1.5, -0.25, 1e100}[rng.Intn(4)])
	case protoreflect.StringKind:
		return protoreflect.ValueOfString(pick(rng, strPool))
	case protoreflect.BytesKind:
		return protoreflect.ValueOfBytes([]byte(pick(rng, strPool)))
	case protoreflect.EnumKind:
		vs := fd.Enum().Values()
		return protoreflect.ValueOfEnum(vs.Get(rng.Intn(vs.Len())).Number())
	}
	return protoreflect.Value{}
}

// fillRandom sets a few fields of m with valid values (protojson-encodable).
func fillRandom(rng *rand.Rand, m protoreflect.Message, depth int) {
	md := m.Descriptor()
	switch md.FullName() {
	case "google.protobuf.Timestamp":
		m.Set(md.Fields().ByName("seconds"), protoreflect.ValueOfInt64(int64(rng.Intn(2000000000))))
		return
	case "google.protobuf.Duration":
		m.Set(md.Fields().ByName("seconds"), protoreflect.ValueOfInt64(int64(rng.Intn(100000))))
		return
	case "google.protobuf.FieldMask":
		m.Mutable(md.Fields().ByName("paths")).List().Append(protoreflect.ValueOfString(pick(rng, []string{"a", "b.c", "title", "name"})))
		return
	case "google.protobuf.Value":
		m.Set(md.Fields().ByName("string_value"), protoreflect.ValueOfString("v"))
		return
	case "google.protobuf.Struct", "google.protobuf.ListValue", "google.protobuf.Any":
		return
	}
	n := md.Fields().Len()
	if n == 0 {
		return
	}
	k := 1 + rng.Intn(4)
	for i := 0; i < k; i++ {
		fd := md.Fields().Get(rng.Intn(n))
		switch {
		case fd.IsMap():
			kf, vf := fd.MapKey(), fd.MapValue()
			kv := scalarValue(rng, kf)
			mp := m.Mutable(fd).Map()
			if vf.Message() != nil {
				if depth > 0 {
					nv := mp.NewValue()
					fillRandom(rng, nv.Message(), depth-1)
					mp.Set(kv.MapKey(), nv)
				}
			} else {
				mp.Set(kv.MapKey(), scalarValue(rng, vf))
			}
		case fd.IsList():
			l := m.Mutable(fd).List()
			for j := 0; j < 1+rng.Intn(2); j++ {
				if fd.Message() != nil {
					if depth > 0 {
						nv := l.NewElement()
						fillRandom(rng, nv.Message(), depth-1)
						l.Append(nv)
					}
				} else {
					l.Append(scalarValue(rng, fd))
				}
			}
		case fd.Message() != nil:
			if depth > 0 {
				fillRandom(rng, m.Mutable(fd).Message(), depth-1)
			}
		default:
			m.Set(fd, scalarValue(rng, fd))
		}
	}
}

func randMsg(rng *rand.Rand, md protoreflect.MessageDescriptor) proto.Message {
	m := vschema.NewMsg(md)
	fillRandom(rng, m.ProtoReflect(), 2)
	return m
}

func encode(m proto.Message, codec string) []byte {
	if codec == "json" {
		b, err := protojson.Marshal(m)
		if err != nil {
			return []byte("{}")
		}
		return b
	}
	b, _ := proto.Marshal(m)
	return b
}

// ----------------------------------------------------------------- paths

var soupToks = []string{"/", "/", "/", ":", "*", "**", "{", "}", "=", ".", "%", "%2F", "%zz", "v1", "a", "messages", "shelves", "books", "x.y", "1", "\xff", "é", "name", "rooms", "files", "complex", "~", "@"}

func pathSoup(rng *rand.Rand) string {
	n := rng.Intn(71)
	var sb strings.Builder
	if rng.Intn(4) != 0 {
		sb.WriteByte('/')
	}
	for i := 0; i < n; i++ {
		sb.WriteString(pick(rng, soupToks))
	}
	return sb.String()
}

// pathTokens builds a path with a chosen number of lexer tokens around the
// 64-token cap (each "/seg" is two tokens, EOF / the error token is one).
func pathTokens(rng *rand.Rand, prefix string) string {
	have := strings.Count(prefix, "/")
	k := []int{30, 31, 32, 33, 40, 70}[rng.Intn(6)] - have
	if k < 0 {
		k = 0
	}
	p := prefix + strings.Repeat("/"+pick(rng, []string{"a", "bb", "1", "x.y"}), k)
	return p + pick(rng, []string{"", "", "/", "//", ":v", ":", "/:", ":v:w", "/*"})
}

func badUTF8(rng *rand.Rand, p string) string {
	bad := pick(rng, []string{"\xff", "\xc0\xaf", "\x80", "\xe2\x82", "\xf0\x9f", "\xed\xa0\x80", "\x00"})
	if len(p) == 0 || rng.Intn(3) == 0 {
		return p + bad
	}
	i := rng.Intn(len(p) + 1)
	return p[:i] + bad + p[i:]
}

func rawBytes(rng *rand.Rand, max int) []byte {
	b := make([]byte, rng.Intn(max+1))
	rng.Read(b)
	return b
}

// instPath instantiates a rule's template (or returns its text when the
// reference parser cannot read it).
func instPath(rng *rand.Rand, ep *endpoint, rl *rule, bad bool) string {
	if rl.T == nil {
		return rl.Tmpl
	}
	return route.Instantiate(rng, rl.T, ep.MD.Input(), bad).Path()
}

// ----------------------------------------------------------------- query

var junkVals = []string{"", "abc", "-1", "1e999", "null", "true", "\xff", "99999999999999999999999", "0x10", " 1", "1.5", "[1]", "{}", `"q"`, "NaN", "Infinity", "-0", "1e-400", "%", "a&b", strings.Repeat("9", 400)}

func textFor(rng *rand.Rand, fd protoreflect.FieldDescriptor) string {
	if rng.Intn(10) < 3 {
		return pick(rng, junkVals)
	}
	switch fd.Kind() {
	case protoreflect.BoolKind:
		return pick(rng, []string{"true", "false", "1", "TRUE"})
	case protoreflect.StringKind:
		return pick(rng, strPool)
	case protoreflect.BytesKind:
		return pick(rng, []string{"YQ==", "YWI", "_-8=", "!!!!", "Y", "YWJj"})
	case protoreflect.EnumKind:
		vs := fd.Enum().Values()
		return pick(rng, []string{string(vs.Get(rng.Intn(vs.Len())).Name()), "1", "99", "nope", "null"})
	case protoreflect.FloatKind, protoreflect.DoubleKind:
		return pick(rng, []string{"1.5", "-0.25", "1e10", "3", "1e39", "1e309"})
	case protoreflect.MessageKind, protoreflect.GroupKind:
		switch fd.Message().FullName() {
		case "google.protobuf.Timestamp":
			return pick(rng, []string{"2017-01-15T01:30:15.01Z", "2017-01-15", "0001-01-01T00:00:00Z", "9999-12-31T23:59:59.999999999Z", "10000-01-01T00:00:00Z", `"2017-01-15T01:30:15Z"`, `"`})
		case "google.protobuf.Duration":
			return pick(rng, []string{"3.5s", "-1s", "315576000001s", "1", "s", `"1s"`})
		case "google.protobuf.FieldMask":
			return pick(rng, []string{"a,b.c", "a..b", ",,", "user.displayName,photo", "_a", `"a"`})
		case "google.protobuf.BoolValue":
			return pick(rng, []string{"true", "1", `"true"`})
		case "google.protobuf.StringValue", "google.protobuf.BytesValue":
			return pick(rng, []string{"abc", `"abc"`, `"`, `a"b`, "YQ=="})
		default:
			return pick(rng, []string{"1", "-1", "1.5", `"1"`, "x", "{}", "null"})
		}
	default:
		return pick(rng, []string{"0", "1", "-1", "42", "2147483647", "2147483648", "4294967296", "18446744073709551615", "-9223372036854775808"})
	}
}

func fieldName(rng *rand.Rand, fd protoreflect.FieldDescriptor) string {
	if rng.Intn(3) == 0 {
		return fd.JSONName()
	}
	return string(fd.Name())
}

// walkKey builds a dotted key by walking the schema: through message,
// repeated and map fields, optionally continuing past a scalar.
func walkKey(rng *rand.Rand, md protoreflect.MessageDescriptor, maxDepth int) (string, protoreflect.FieldDescriptor) {
	var parts []string
	var last protoreflect.FieldDescriptor
	cur := md
	for d := 0; d < maxDepth; d++ {
		n := cur.Fields().Len()
		if n == 0 {
			parts = append(parts, "x")
			break
		}
		fd := cur.Fields().Get(rng.Intn(n))
		// prefer structured fields so that walks get deep
		for tries := 0; tries < 3 && fd.Message() == nil && rng.Intn(2) == 0; tries++ {
			fd = cur.Fields().Get(rng.Intn(n))
		}
		last = fd
		parts = append(parts, fieldName(rng, fd))
		if fd.Message() != nil && rng.Intn(10) < 7 {
			cur = fd.Message()
			continue
		}
		if rng.Intn(4) == 0 {
			parts = append(parts, pick(rng, []string{"x", "key", "value", "0", "", string(fd.Name()), "seconds"}))
		}
		break
	}
	return strings.Join(parts, "."), last
}

// specialKeys are the dotted keys the design names explicitly (vf.Req).
var specialKeys = []string{"a.b", "rs.x", "m.key", "m.value", "sub.deep.s.x", "rsub.a", "rsub.deep.s", "m", "rsub", "sub", "rn.x", "re.x", "ws.value", "ts.seconds", "fm.paths", "osub.a", "sub.rs", "sub.deep", "customJson", "odd_json", "longName",
	// testpb ComplexRequest
	"nested_list.int32_value", "nested_map.value.int32_value", "string_map.key", "struct.fields.key", "struct.fields", "value.struct_value.fields.key", "list_value.values.string_value", "any.type_url", "nested.enum_value", "int32_map.value", "enum_list", "oneof_nested.string_value", "oneof_struct.fields.value.list_value.values", "empty.x", "null_value", "sub.subfield", "book.name", "update_mask", "file.data", "file.extensions.type_url"}

func qEsc(s string) string {
	// minimal escaping: keep hostile bytes, only protect the separators
	r := strings.NewReplacer("&", "%26", "=", "%3D", "+", "%2B", "#", "%23")
	return r.Replace(s)
}

func validQuery(rng *rand.Rand, md protoreflect.MessageDescriptor) string {
	var kv []string
	for i := 0; i < 1+rng.Intn(3); i++ {
		k, fd := walkKey(rng, md, 1)
		if fd == nil || fd.IsMap() {
			continue
		}
		kv = append(kv, k+"="+qEsc(textFor(rng, fd)))
	}
	return strings.Join(kv, "&")
}

// --------------------------------------------------------------- headers

var hdrTable = map[string][]string{
	"Accept": {"application/json", "application/protobuf", "application/octet-stream", "*/*", "application/*", "google.api.HttpBody", "google.api.HttpBody;q=0.5, */*;q=0.1",
		"text/html", ";q=", "application/json;q=2", "a/b;q=0.", "application/json;q=0, */*", "application/json ; q=0.5 , text/*", "\xff\xfe", ",,,", "", "*", "application/json;q=0.0000000000000000000000001",
		strings.Repeat("a/b,", 2000), "application/x-plain", "application/grpc", "body", "json"},
	"Accept-Encoding":          {"gzip", "identity", "*", "gzip;q=0", "json", "proto", "body", "application/json", "google.api.HttpBody", "deflate, gzip;q=0.5", "\xff", "", "*;q=0"},
	"Content-Type":             {"application/json", "application/protobuf", "application/octet-stream", "google.api.HttpBody", "text/plain", "application/json; charset=utf-8", "", "\xff/\xfe", "application/x-plain", "application/grpc", "application/grpc+", "application/grpc+json", "application/grpc+proto", "application/grpc+body", "application/grpc+x", "application/grpc+plain", "application/grpc-web", "application/grpc-web+", "application/grpc-web+json", "application/grpc-web+body", "application/grpc-web-text", "application/grpc-web-text+json", "application/grpc-web-text+", "application/grpc-web-textx", "application/grpc-webx+proto", "application/grpcx", "application/grpc+proto+json", "APPLICATION/GRPC", "multipart/form-data; boundary=x"},
	"Content-Encoding":         {"gzip", "identity", "deflate", "br", "GZIP", "gzip, gzip", "\xff", ""},
	"Grpc-Encoding":            {"gzip", "identity", "deflate", "snappy", "GZIP", "", "\xff", "gzip,identity"},
	"Grpc-Accept-Encoding":     {"gzip", "identity", "x", ""},
	"Grpc-Timeout":             {"1S", "0n", "99999999H", "100000000S", "1", "S", "-1S", "+1S", "1x", "１S", " 1S", "1mm", "00000001u", "1m", "9223372036854775807n", "1H", "", "\xff"},
	"Upgrade":                  {"websocket", "WebSocket", "h2c", "websocket, x", "\xff", ""},
	"Connection":               {"Upgrade", "upgrade, keep-alive", "close", "x"},
	"Twirp-Version":            {"v5.7.0", "x", "\xff"},
	"Te":                       {"trailers", "x", ""},
	"X-Foo-Bin":                {"!!!", "YQ", "YQ==", "", "\xff"},
	"Authorization":            {"Bearer x", "\xff"},
	"Sec-Websocket-Key":        {"dGhlIHNhbXBsZSBub25jZQ==", "short", "", strings.Repeat("k", 100)},
	"Sec-Websocket-Version":    {"13", "12", "", "x", "255"},
	"Sec-Websocket-Protocol":   {"a, b", "\xff", ""},
	"Sec-Websocket-Extensions": {"permessage-deflate", "x; y=1", "\xff;;,"},
}

var hdrNames = func() []string {
	var n []string
	for k := range hdrTable {
		n = append(n, k)
	}
	// deterministic order
	for i := 1; i < len(n); i++ {
		for j := i; j > 0 && n[j] < n[j-1]; j-- {
			n[j], n[j-1] = n[j-1], n[j]
		}
	}
	return n
}()

// ---------------------------------------------------------------- bodies

func deepJSON(depth int, key string) []byte {
	var sb strings.Builder
	for i := 0; i < depth; i++ {
		sb.WriteString(`{"` + key + `":`)
	}
	sb.WriteString("1")
	sb.WriteString(strings.Repeat("}", depth))
	return []byte(sb.String())
}

var jsonJunk = []string{"{", "}", `{"a":`, "[]", "null", `"str"`, `{"unknown":1}`, `{"a":NaN}`, `{"n":1e999}`, `{"a":"x","a":"y"}`, "{\"a\":\"\xff\"}", `{"a":"\u0000\ud800"}`, "{}{}", "{} x", "\x00", `{"a":{"b":1}}`, `{"rs":"notalist"}`, `{"m":[1]}`, `{"sub":1}`, `{"e":"NOPE"}`, `{"ts":"bad"}`, `{"@type":"x"}`, "   ", `{"a":"\"}"}`, `{"a":"}{"}`, "}{"}

func varintPrefix(rng *rand.Rand, n int, val uint64) []byte {
	// a varint of exactly n bytes (non-minimal when val is small)
	b := make([]byte, n)
	for i := 0; i < n; i++ {
		b[i] = byte(val&0x7f) | 0x80
		val >>= 7
	}
	b[n-1] &= 0x7f
	if n == 11 || rng.Intn(8) == 0 {
		b[n-1] |= 0x80 // never terminated
	}
	return b
}

func invalidProto(rng *rand.Rand) []byte {
	switch rng.Intn(7) {
	case 0:
		return []byte{0x0a, 0xff, 0xff, 0xff, 0xff, 0x0f, 'x'} // length far beyond the data
	case 1:
		return []byte{0x0b, 0x0b, 0x0b} // nested start-group without end
	case 2:
		return []byte{0x08} // truncated varint field
	case 3:
		return []byte{0x0f, 0x01} // wire type 7
	case 4:
		return []byte{0x00, 0x00} // field number 0
	case 5:
		return append([]byte{0x0a, 0x02}, 0xff, 0xfe) // invalid UTF-8 in a string field
	default:
		return rawBytes(rng, 24)
	}
}

// tinyProto returns encodings of exactly 0..4 bytes that decode as a message
// of (nearly) any type: unknown varint fields.
func tinyProto(n int) []byte {
	switch n {
	case 0:
		return nil
	case 1:
		return []byte{0x08} // truncated on purpose: no valid message has one byte
	case 2:
		return []byte{0x08, 0x01}
	case 3:
		return append(protowire.AppendTag(nil, 1000, protowire.VarintType), 1)
	default:
		return append(protowire.AppendTag(nil, 1000, protowire.VarintType), 0x81, 0x01)
	}
}

func truncGzip(rng *rand.Rand, b []byte) []byte {
	z := wire.Gzip(b)
	switch rng.Intn(5) {
	case 0:
		return z[:rng.Intn(len(z))]
	case 1:
		return z[:10] // header only
	case 2:
		z[len(z)-5] ^= 0xff // bad CRC
		return z
	case 3:
		return append([]byte{0x1f, 0x8b}, rawBytes(rng, 16)...)
	default:
		return z[:len(z)-1]
	}
}

// -------------------------------------------------------- websocket frames

// wsFrame encodes a client frame by hand so that every field can lie.
func wsFrame(op byte, fin bool, rsv byte, masked bool, payload []byte, declLen int64, lenForm int) []byte {
	var b []byte
	b0 := op & 0x0f
	if fin {
		b0 |= 0x80
	}
	b0 |= (rsv & 7) << 4
	b = append(b, b0)
	n := int64(len(payload))
	if declLen >= 0 {
		n = declLen
	}
	mb := byte(0)
	if masked {
		mb = 0x80
	}
	switch {
	case lenForm == 127 || (lenForm == 0 && n > 65535) || n < 0:
		b = append(b, mb|127)
		var x [8]byte
		binary.BigEndian.PutUint64(x[:], uint64(n))
		b = append(b, x[:]...)
	case lenForm == 126 || (lenForm == 0 && n > 125):
		b = append(b, mb|126)
		b = append(b, byte(n>>8), byte(n))
	default:
		b = append(b, mb|byte(n))
	}
	if masked {
		key := [4]byte{0x11, 0x22, 0x33, 0x44}
		b = append(b, key[:]...)
		for i, c := range payload {
			b = append(b, c^key[i%4])
		}
	} else {
		b = append(b, payload...)
	}
	return b
}

func wsText(p []byte) []byte  { return wsFrame(1, true, 0, true, p, -1, 0) }
func wsClose(p []byte) []byte { return wsFrame(8, true, 0, true, p, -1, 0) }

func closeBody(code uint16, reason string) []byte {
	return append([]byte{byte(code >> 8), byte(code)}, reason...)
}

// wsScript builds the bytes a client sends after the handshake.
func wsScript(rng *rand.Rand, msgs [][]byte, hostile bool) ([]byte, string) {
	var out []byte
	class := "ws:valid"
	for _, m := range msgs {
		out = append(out, wsText(m)...)
	}
	if hostile {
		switch rng.Intn(19) {
		case 0:
			out = append(out, wsFrame(1, true, 0, false, []byte(`{}`), -1, 0)...)
			class = "ws:unmasked"
		case 1:
			out = append(out, wsFrame(2, true, 0, true, rawBytes(rng, 20), -1, 0)...)
			class = "ws:binary"
		case 2:
			out = append(out, wsFrame(0, true, 0, true, []byte(`{}`), -1, 0)...)
			class = "ws:continuation-first"
		case 3:
			out = append(out, wsFrame(1, false, 0, true, []byte(`{"te`), -1, 0)...)
			out = append(out, wsFrame(9, true, 0, true, []byte("ping"), -1, 0)...)
			out = append(out, wsFrame(0, true, 0, true, []byte(`xt":"a"}`), -1, 0)...)
			class = "ws:fragmented+ping"
		case 4:
			out = append(out, wsFrame(1, true, 0, true, []byte(`{}`), []int64{1 << 31, 1<<63 - 1, -1 << 63, 1 << 40}[rng.Intn(4)], 127)...)
			class = "ws:huge-declared-length"
		case 5:
			out = append(out, wsFrame(byte(3+rng.Intn(5)), true, 0, true, []byte("x"), -1, 0)...)
			class = "ws:reserved-opcode"
		case 6:
			out = append(out, wsFrame(1, true, byte(1+rng.Intn(7)), true, []byte(`{}`), -1, 0)...)
			class = "ws:rsv-bits"
		case 7:
			out = append(out, wsFrame(9, true, 0, true, bytes.Repeat([]byte("p"), 200), -1, 0)...)
			class = "ws:control-over-125"
		case 8:
			out = append(out, wsFrame(8, true, 0, true, []byte{3}, -1, 0)...)
			class = "ws:close-1-byte"
		case 9:
			out = append(out, wsClose(closeBody(uint16(rng.Intn(5000)), strings.Repeat("r", rng.Intn(124))))...)
			class = "ws:close-odd-code"
		case 10:
			f := wsText([]byte(`{"text":"truncated"}`))
			out = append(out, f[:1+rng.Intn(len(f)-1)]...)
			return out, "ws:truncated-frame"
		case 11:
			out = append(out, wsText([]byte(pick(rng, jsonJunk)))...)
			class = "ws:json-junk"
		case 12:
			out = append(out, wsFrame(1, true, 0, true, []byte(`{}`), -1, []int{126, 127}[rng.Intn(2)])...)
			class = "ws:non-minimal-length"
		case 13:
			out = append(out, wsText(deepJSON(200+rng.Intn(11000), "a"))...)
			class = "ws:deep-json"
		case 14:
			out = append(out, wsFrame(10, true, 0, true, nil, -1, 0)...)
			out = append(out, wsFrame(9, false, 0, true, nil, -1, 0)...)
			class = "ws:pong+fragmented-ping"
		case 15:
			out = append(out, rawBytes(rng, 40)...)
			return out, "ws:raw-bytes"
		default:
			// a control frame header announcing a length a control frame
			// cannot have, with or without payload bytes behind it
			op := []byte{9, 10, 8}[rng.Intn(3)]
			ann := ctlAnnounced[rng.Intn(len(ctlAnnounced))]
			out = append(out, ctlHeaderFrame(op, rng.Intn(2) == 0, ann.n, ann.form, rng.Intn(2)*rng.Intn(200))...)
			class = "ws:control-header-length"
		}
	}
	switch rng.Intn(4) {
	case 0:
		// no close frame: the connection just ends
	default:
		out = append(out, wsClose(closeBody(1000, ""))...)
	}
	return out, class
}

// ---------------------------------------------------------------- actions

var hostileCodes = []int64{17, 17, 17, 18, 100, 2147483647, 2147483648, 4294967295, 16, 0, 1, 2, 3, 4, 5, 6, 7, 8, 9, 10, 11, 12, 13, 14, 15}

func genAct(rng *rand.Rand, hostile bool) act {
	a := act{Code: -1}
	a.Reply = pick(rng, []string{"echo", "echo", "empty", "rand", "big", "badutf8"})
	if a.Reply == "big" && rng.Intn(3) != 0 {
		a.Reply = "echo"
	}
	if a.Reply == "rand" {
		a.Seed = 1 + rng.Int63n(1<<30)
	}
	a.CT = pick(rng, ctClassNames)
	if !hostile {
		if a.Reply == "badutf8" {
			a.Reply = "echo"
		}
		return a
	}
	switch rng.Intn(10) {
	case 0, 1, 2, 3, 4:
		a.Code = hostileCodes[rng.Intn(len(hostileCodes))]
		a.Msg = pick(rng, msgClassNames)
		if rng.Intn(4) == 0 {
			// lengths around the limits of close frames and header lines
			a.MsgLen = []int{1, 120, 121, 122, 123, 124, 125, 126, 127, 128, 129, 255, 256, 4096, 65535, 65536}[rng.Intn(16)]
			a.MsgMB = rng.Intn(5)
		}
		if rng.Intn(3) == 0 {
			a.Det = 1 + rng.Intn(3)
		}
	case 5:
		a.Err = pick(rng, []string{"eof", "ueof", "canceled", "deadline", "plain", "wrapped"})
		a.Msg = pick(rng, msgClassNames)
	}
	if rng.Intn(3) == 0 {
		a.After = rng.Intn(3)
	}
	if rng.Intn(4) == 0 {
		a.Hdr = 1 + rng.Intn(6)
	}
	if rng.Intn(4) == 0 {
		a.Trl = 1 + rng.Intn(4)
	}
	if rng.Intn(5) == 0 {
		a.Recv = pick(rng, []string{"none", "one", "swallow"})
	}
	if rng.Intn(4) == 0 {
		a.Sends = rng.Intn(4)
	}
	a.AsBody = rng.Intn(8) == 0
	return a
}

// ------------------------------------------------------------ base cases

type genCtx struct {
	t     *target
	ep    *endpoint
	rl    *rule
	msgs  [][]byte // encoded request messages of the base request
	codec string   // json | proto
	gz    bool
}

func setH(c *Case, k string, v ...string) {
	if c.Header == nil {
		c.Header = map[string][]BStr{}
	}
	var bs []BStr
	for _, s := range v {
		bs = append(bs, BStr(s))
	}
	c.Header[k] = bs
}

func verbFor(rng *rand.Rand, v string) string {
	switch v {
	case "*":
		return pick(rng, []string{"GET", "POST", "DELETE", "OPTIONS", "TRACE", "PATCH"})
	case "WEBSOCKET":
		return "GET"
	}
	return v
}

// bodyDesc resolves what the HTTP body of a rule decodes into: the message
// descriptor, or nil with the last field for non-message selectors.
func bodyDesc(ep *endpoint, rl *rule) (protoreflect.MessageDescriptor, protoreflect.FieldDescriptor) {
	md := ep.MD.Input()
	if rl.Body == "*" || rl.Body == "" {
		return md, nil
	}
	var fd protoreflect.FieldDescriptor
	for _, name := range strings.Split(rl.Body, ".") {
		if md == nil {
			return nil, fd
		}
		fd = md.Fields().ByName(protoreflect.Name(name))
		if fd == nil {
			fd = md.Fields().ByJSONName(name)
		}
		if fd == nil {
			return nil, nil
		}
		md = fd.Message()
	}
	if fd.IsList() || fd.IsMap() || fd.Message() == nil {
		return nil, fd
	}
	return md, fd
}

func httpBody(rng *rand.Rand, g *genCtx) []byte {
	md, fd := bodyDesc(g.ep, g.rl)
	n := 1
	if g.ep.CS {
		n = rng.Intn(4)
	}
	var out []byte
	g.msgs = nil
	for i := 0; i < n; i++ {
		var b []byte
		switch {
		case md != nil && md.FullName() == "google.api.HttpBody":
			b = []byte(pick(rng, []string{"raw upload bytes", "", strings.Repeat("u", 300), "\x00\x01\xff"}))
			g.msgs = append(g.msgs, b)
			out = append(out, b...)
			continue
		case md != nil:
			b = encode(randMsg(rng, md), g.codec)
		case fd != nil && g.codec == "json":
			b = []byte(pick(rng, []string{`"x"`, `1`, `[1,2]`, `["a"]`, `{"k":"v"}`, `{}`, `null`, `true`}))
		default:
			b = rawBytes(rng, 8)
		}
		g.msgs = append(g.msgs, b)
		if g.ep.CS && g.codec == "proto" {
			out = protowire.AppendVarint(out, uint64(len(b)))
		}
		out = append(out, b...)
	}
	return out
}

// baseHTTP builds a valid transcoding request for a rule.
func baseHTTP(rng *rand.Rand, g *genCtx) *Case {
	c := &Case{Entry: "http", Proto: 1, CL: clExact}
	c.Method = verbFor(rng, g.rl.Verb)
	c.Path = BStr(instPath(rng, g.ep, g.rl, rng.Intn(12) == 0))
	if g.rl.Body != "" {
		g.codec = pick(rng, []string{"json", "json", "proto"})
		c.Body = httpBody(rng, g)
		if c.Body == nil {
			c.Body = []byte{}
		}
		ct := "application/json"
		if g.codec == "proto" {
			ct = pick(rng, []string{"application/protobuf", "application/octet-stream"})
		}
		if md, _ := bodyDesc(g.ep, g.rl); md != nil && md.FullName() == "google.api.HttpBody" {
			ct = pick(rng, []string{"text/plain", "image/png", "application/json", ""})
		}
		if ct != "" && rng.Intn(8) != 0 {
			setH(c, "Content-Type", ct)
		}
		if rng.Intn(10) == 0 && len(c.Body) > 0 {
			c.Body = wire.Gzip(c.Body)
			setH(c, "Content-Encoding", "gzip")
		}
	}
	if rng.Intn(3) == 0 {
		c.Query = BStr(validQuery(rng, g.ep.MD.Input()))
	}
	if rng.Intn(4) == 0 {
		setH(c, "Accept", pick(rng, []string{"application/json", "application/protobuf", "*/*"}))
	}
	if rng.Intn(10) == 0 {
		setH(c, "Accept-Encoding", "gzip")
	}
	if rng.Intn(12) == 0 {
		setH(c, "Twirp-Version", "v5.7.0")
	}
	return c
}

func grpcFrames(rng *rand.Rand, g *genCtx) []byte {
	n := 1
	if g.ep.CS {
		n = rng.Intn(4)
	}
	var out []byte
	g.msgs = nil
	for i := 0; i < n; i++ {
		b := encode(randMsg(rng, g.ep.MD.Input()), g.codec)
		g.msgs = append(g.msgs, b)
		if g.gz {
			out = append(out, wire.Frame(wire.Gzip(b), true)...)
		} else {
			out = append(out, wire.Frame(b, false)...)
		}
	}
	return out
}

// baseGRPC builds a valid gRPC request (entry grpc) or gRPC-web request
// (entries web, webtext).
func baseGRPC(rng *rand.Rand, g *genCtx, entry string) *Case {
	c := &Case{Entry: entry, Method: "POST", Path: BStr(g.ep.Full), CL: clUnknown}
	g.codec = pick(rng, []string{"proto", "proto", "json"})
	g.gz = rng.Intn(6) == 0
	suffix := ""
	if g.codec == "json" {
		suffix = "+json"
	} else if rng.Intn(3) == 0 {
		suffix = "+proto"
	}
	body := grpcFrames(rng, g)
	if g.gz {
		setH(c, "Grpc-Encoding", "gzip")
	}
	switch entry {
	case "grpc":
		c.Proto = 2
		setH(c, "Content-Type", "application/grpc"+suffix)
		setH(c, "Te", "trailers")
		c.Body = body
	case "web":
		c.Proto = 1
		setH(c, "Content-Type", "application/grpc-web"+suffix)
		c.Body = body
		c.CL = clExact
	case "webtext":
		c.Proto = 1
		setH(c, "Content-Type", "application/grpc-web-text"+suffix)
		c.Body = []byte(base64.StdEncoding.EncodeToString(body))
		c.CL = clExact
	}
	if c.Body == nil {
		c.Body = []byte{}
	}
	if rng.Intn(8) == 0 {
		setH(c, "Grpc-Timeout", pick(rng, []string{"10S", "1H", "5000m"}))
	}
	return c
}

// baseWS builds a WebSocket upgrade request; Body is what the client sends
// after the handshake.
func baseWS(rng *rand.Rand, g *genCtx, entry string, hostile bool) (*Case, string) {
	c := &Case{Entry: entry, Method: "GET", Proto: 1, CL: clExact}
	c.Path = BStr(instPath(rng, g.ep, g.rl, false))
	setH(c, "Upgrade", "websocket")
	setH(c, "Connection", "Upgrade")
	setH(c, "Sec-Websocket-Key", "dGhlIHNhbXBsZSBub25jZQ==")
	setH(c, "Sec-Websocket-Version", "13")
	g.codec = "json"
	g.msgs = nil
	md, _ := bodyDesc(g.ep, g.rl)
	for i := 0; i < rng.Intn(4); i++ {
		if md != nil {
			g.msgs = append(g.msgs, encode(randMsg(rng, md), "json"))
		} else {
			g.msgs = append(g.msgs, []byte(pick(rng, []string{`"x"`, `1`, `{}`, `[1]`})))
		}
	}
	script, class := wsScript(rng, g.msgs, hostile)
	c.Body = script
	if rng.Intn(4) == 0 {
		c.Query = BStr(validQuery(rng, g.ep.MD.Input()))
	}
	return c, class
}

// ------------------------------------------------------------- mutators

type mutator struct {
	name string
	on   string // entries it applies to: h=http w=ws g=grpc/web
	f    func(rng *rand.Rand, c *Case, g *genCtx) string
}

func reframe(c *Case, framed []byte) {
	if c.Entry == "webtext" {
		c.Body = []byte(base64.StdEncoding.EncodeToString(framed))
	} else {
		c.Body = framed
	}
}

var mutators = []mutator{
	// ---- paths
	{"p:near", "hw", func(rng *rand.Rand, c *Case, g *genCtx) string {
		if g.rl.T == nil {
			return ""
		}
		nm := route.NearMisses(rng, route.Instantiate(rng, g.rl.T, g.ep.MD.Input(), false))
		c.Path = BStr(nm[rng.Intn(len(nm))])
		return "p:near"
	}},
	{"p:soup", "hwg", func(rng *rand.Rand, c *Case, g *genCtx) string { c.Path = BStr(pathSoup(rng)); return "p:soup" }},
	{"p:tokens", "hw", func(rng *rand.Rand, c *Case, g *genCtx) string {
		prefix := ""
		if rng.Intn(2) == 0 {
			p := string(c.Path)
			if i := strings.LastIndex(p, ":"); i > 0 {
				p = p[:i]
			}
			prefix = p
		}
		c.Path = BStr(pathTokens(rng, prefix))
		return "p:tokens"
	}},
	{"p:utf8", "hwg", func(rng *rand.Rand, c *Case, g *genCtx) string {
		c.Path = BStr(badUTF8(rng, string(c.Path)))
		return "p:utf8"
	}},
	{"p:long", "hwg", func(rng *rand.Rand, c *Case, g *genCtx) string {
		seg := strings.Repeat(pick(rng, []string{"a", "é", "1", "*", "%"}), 1000+rng.Intn(60000))
		p := string(c.Path)
		if i := strings.LastIndex(p, "/"); i >= 0 && rng.Intn(2) == 0 {
			c.Path = BStr(p[:i+1] + seg)
		} else {
			c.Path = BStr(p + "/" + seg)
		}
		return "p:long"
	}},
	{"p:colon", "hwg", func(rng *rand.Rand, c *Case, g *genCtx) string {
		p := string(c.Path)
		i := rng.Intn(len(p) + 1)
		c.Path = BStr(p[:i] + pick(rng, []string{":", "::", ":x", ":/", "/:"}) + p[i:])
		return "p:colon"
	}},
	{"p:edge", "hwg", func(rng *rand.Rand, c *Case, g *genCtx) string {
		c.Path = BStr(pick(rng, []string{"", "/", "//", "///", ":", "/:", "*", "/*", "/**", "/{", "/}", "/{a}", "a", "/.", "/..", "/%", "/a%2Fb", "/v1/", "/v1//x", string(c.Path) + "/", string(c.Path) + "//", strings.TrimPrefix(string(c.Path), "/"), "/" + string(c.Path), string(c.Path) + "?"}))
		return "p:edge"
	}},
	{"p:raw", "hwg", func(rng *rand.Rand, c *Case, g *genCtx) string { c.Path = BStr(rawBytes(rng, 40)); return "p:raw" }},
	{"p:verb", "h", func(rng *rand.Rand, c *Case, g *genCtx) string {
		c.Method = pick(rng, []string{"GET", "POST", "PUT", "PATCH", "DELETE", "HEAD", "OPTIONS", "TRACE", "CONNECT", "", "get", "WEBSOCKET", "*", "\xff"})
		return "p:verb"
	}},
	{"p:implicit", "h", func(rng *rand.Rand, c *Case, g *genCtx) string {
		c.Path = BStr(g.ep.Full)
		c.Method = pick(rng, []string{"POST", "GET", "PUT"})
		return "p:implicit"
	}},
	{"p:othermethod", "g", func(rng *rand.Rand, c *Case, g *genCtx) string {
		o := g.t.eps[rng.Intn(len(g.t.eps))]
		c.Path = BStr(o.Full)
		return "p:othermethod"
	}},
	// ---- query
	{"q:walk", "hw", func(rng *rand.Rand, c *Case, g *genCtx) string {
		var kv []string
		cls := "q:walk"
		for i := 0; i < 1+rng.Intn(3); i++ {
			k, fd := walkKey(rng, g.ep.MD.Input(), 1+rng.Intn(5))
			v := "x"
			if fd != nil {
				v = textFor(rng, fd)
				switch {
				case fd.IsMap():
					cls = "q:walk-map"
				case fd.IsList():
					cls = "q:walk-list"
				}
			}
			kv = append(kv, k+"="+qEsc(v))
		}
		c.Query = BStr(strings.Join(kv, "&"))
		return cls
	}},
	{"q:special", "hw", func(rng *rand.Rand, c *Case, g *genCtx) string {
		c.Query = BStr(pick(rng, specialKeys) + "=" + qEsc(pick(rng, append(junkVals, "x", "1", "ENUM_VALUE", "RED"))))
		return "q:special"
	}},
	{"q:dup", "hw", func(rng *rand.Rand, c *Case, g *genCtx) string {
		k, fd := walkKey(rng, g.ep.MD.Input(), 1+rng.Intn(2))
		var kv []string
		for i := 0; i < 2+rng.Intn(4); i++ {
			v := "1"
			if fd != nil {
				v = textFor(rng, fd)
			}
			kv = append(kv, k+"="+qEsc(v))
		}
		c.Query = BStr(strings.Join(kv, "&"))
		return "q:dup"
	}},
	{"q:deep", "hw", func(rng *rand.Rand, c *Case, g *genCtx) string {
		k, _ := walkKey(rng, g.ep.MD.Input(), 10)
		for strings.Count(k, ".") < 9 {
			k += "." + pick(rng, []string{"a", "sub", "deep", "nested", "fields", "value", "x"})
		}
		c.Query = BStr(k + "=1")
		return "q:deep"
	}},
	{"q:edge", "hw", func(rng *rand.Rand, c *Case, g *genCtx) string {
		c.Query = BStr(pick(rng, []string{"=x", "&&", "=", "&", "a", "a=", ".=1", "a.=1", ".a=1", "a..b=1", "%zz=1", "a=%zz", "a;b=1", "\xff=\xfe", "a=1&a=2&=3&&", strings.Repeat("a=1&", 300), "a=" + strings.Repeat("x", 70000), strings.Repeat("sub.", 2000) + "a=1", "?", "a=1#frag", "+=+"}))
		return "q:edge"
	}},
	{"q:raw", "hw", func(rng *rand.Rand, c *Case, g *genCtx) string { c.Query = BStr(rawBytes(rng, 40)); return "q:raw" }},
	// ---- headers
	{"h:table", "hwg", func(rng *rand.Rand, c *Case, g *genCtx) string {
		k := pick(rng, hdrNames)
		vals := hdrTable[k]
		v := vals[rng.Intn(len(vals))]
		if rng.Intn(6) == 0 {
			setH(c, k, v, vals[rng.Intn(len(vals))])
		} else {
			setH(c, k, v)
		}
		return "h:" + strings.ToLower(k)
	}},
	{"h:accept", "h", func(rng *rand.Rand, c *Case, g *genCtx) string {
		setH(c, "Accept", pick(rng, hdrTable["Accept"]))
		return "h:accept"
	}},
	{"h:content-type", "hg", func(rng *rand.Rand, c *Case, g *genCtx) string {
		setH(c, "Content-Type", pick(rng, hdrTable["Content-Type"]))
		return "h:content-type"
	}},
	{"h:twirp", "h", func(rng *rand.Rand, c *Case, g *genCtx) string {
		setH(c, "Twirp-Version", "v5.7.0")
		return "h:twirp"
	}},
	{"h:cl", "hg", func(rng *rand.Rand, c *Case, g *genCtx) string {
		c.CL = []int64{-1, 0, 1, int64(len(c.Body)) + 10, int64(len(c.Body)) - 1, 1 << 40, -7}[rng.Intn(7)]
		return "h:content-length"
	}},
	{"h:proto", "hg", func(rng *rand.Rand, c *Case, g *genCtx) string {
		c.Proto = []int{0, 1, 2, 3}[rng.Intn(4)]
		return "h:proto-major"
	}},
	{"h:delete", "hwg", func(rng *rand.Rand, c *Case, g *genCtx) string {
		for _, k := range []string{"Content-Type", "Upgrade", "Connection", "Sec-Websocket-Key", "Sec-Websocket-Version", "Te", "Grpc-Encoding"} {
			if _, ok := c.Header[k]; ok && rng.Intn(3) == 0 {
				delete(c.Header, k)
				return "h:delete-" + strings.ToLower(k)
			}
		}
		return ""
	}},
	{"h:upgrade", "hg", func(rng *rand.Rand, c *Case, g *genCtx) string {
		setH(c, "Upgrade", pick(rng, []string{"websocket", "WebSocket"}))
		if rng.Intn(2) == 0 {
			setH(c, "Connection", "Upgrade")
		}
		return "h:upgrade"
	}},
	// ---- bodies: transcoding
	{"b:json-junk", "h", func(rng *rand.Rand, c *Case, g *genCtx) string {
		c.Body = []byte(pick(rng, jsonJunk))
		return "b:json-junk"
	}},
	{"b:deep-json", "h", func(rng *rand.Rand, c *Case, g *genCtx) string {
		key := "a"
		if n := g.ep.MD.Input().Fields().Len(); n > 0 && rng.Intn(2) == 0 {
			key = g.ep.MD.Input().Fields().Get(rng.Intn(n)).JSONName()
		}
		c.Body = deepJSON([]int{50, 5000, 9999, 10001, 20000}[rng.Intn(5)], pick(rng, []string{key, "struct", "value", "sub", "nested"}))
		return "b:deep-json"
	}},
	{"b:invalid-proto", "h", func(rng *rand.Rand, c *Case, g *genCtx) string {
		c.Body = invalidProto(rng)
		setH(c, "Content-Type", "application/protobuf")
		return "b:invalid-proto"
	}},
	{"b:varint", "h", func(rng *rand.Rand, c *Case, g *genCtx) string {
		n := 1 + rng.Intn(11)
		payload := []byte{}
		if len(g.msgs) > 0 {
			payload = g.msgs[0]
		}
		val := []uint64{uint64(len(payload)), 0, 1, 1 << 31, 1<<32 - 1, 1 << 62, 1 << 63, 1<<64 - 1}[rng.Intn(8)]
		c.Body = append(varintPrefix(rng, n, val), payload...)
		setH(c, "Content-Type", "application/protobuf")
		return fmt.Sprintf("b:varint-%d", n)
	}},
	{"b:gzip", "h", func(rng *rand.Rand, c *Case, g *genCtx) string {
		c.Body = truncGzip(rng, []byte(`{"a":"x"}`))
		setH(c, "Content-Encoding", "gzip")
		return "b:gzip-broken"
	}},
	{"b:empty", "hg", func(rng *rand.Rand, c *Case, g *genCtx) string {
		if rng.Intn(2) == 0 {
			c.Body = nil
		} else {
			c.Body = []byte{}
		}
		return "b:empty"
	}},
	{"b:raw", "hg", func(rng *rand.Rand, c *Case, g *genCtx) string { c.Body = rawBytes(rng, 64); return "b:raw" }},
	{"b:frag", "hg", func(rng *rand.Rand, c *Case, g *genCtx) string {
		if len(c.Body) > 4096 {
			return ""
		}
		c.Frag = 1 + rng.Intn(3)
		c.EOFWithData = rng.Intn(2) == 0
		return "b:fragmented-reads"
	}},
	{"b:trunc", "hg", func(rng *rand.Rand, c *Case, g *genCtx) string {
		if len(c.Body) == 0 {
			return ""
		}
		c.Body = c.Body[:rng.Intn(len(c.Body))]
		return "b:truncated"
	}},
	{"b:body-on-get", "h", func(rng *rand.Rand, c *Case, g *genCtx) string {
		if c.Body != nil {
			return ""
		}
		c.Body = []byte(pick(rng, append(jsonJunk, `{"a":"x"}`)))
		return "b:unexpected-body"
	}},
	// ---- bodies: gRPC framing
	{"b:frame-len", "g", func(rng *rand.Rand, c *Case, g *genCtx) string {
		var payload []byte
		if len(g.msgs) > 0 {
			payload = g.msgs[0]
		}
		l := []uint32{0, 1, 1 << 31, 1<<32 - 1, uint32(len(payload)) + 1, uint32(len(payload)) - 1, 4 << 20, 4<<20 + 1}[rng.Intn(8)]
		reframe(c, wire.FrameRaw(0, l, payload))
		return "b:frame-len"
	}},
	{"b:frame-flag", "g", func(rng *rand.Rand, c *Case, g *genCtx) string {
		var payload []byte
		if len(g.msgs) > 0 && rng.Intn(2) == 0 {
			payload = g.msgs[0]
		} else {
			payload = rawBytes(rng, 24)
		}
		flag := []byte{1, 1, 0x80, 0xff, 2, 0x81}[rng.Intn(6)]
		reframe(c, wire.FrameRaw(flag, uint32(len(payload)), payload))
		if rng.Intn(2) == 0 {
			setH(c, "Grpc-Encoding", pick(rng, []string{"gzip", "identity"}))
		}
		return "b:frame-flag"
	}},
	{"b:tiny", "g", func(rng *rand.Rand, c *Case, g *genCtx) string {
		n := rng.Intn(5)
		p := tinyProto(n)
		if ct := c.Header["Content-Type"]; len(ct) > 0 && strings.Contains(string(ct[0]), "json") {
			p = []byte([]string{"", "1", "{}", "{ }", "null"}[n])
		}
		reframe(c, wire.Frame(p, false))
		return fmt.Sprintf("b:tiny-%d", n)
	}},
	{"b:frame-gzip", "g", func(rng *rand.Rand, c *Case, g *genCtx) string {
		reframe(c, wire.Frame(truncGzip(rng, []byte("payload")), true))
		setH(c, "Grpc-Encoding", "gzip")
		return "b:frame-gzip-broken"
	}},
	{"b:frame-multi", "g", func(rng *rand.Rand, c *Case, g *genCtx) string {
		var out []byte
		for i := 0; i < 2+rng.Intn(3); i++ {
			var p []byte
			if len(g.msgs) > 0 {
				p = g.msgs[rng.Intn(len(g.msgs))]
			}
			out = append(out, wire.Frame(p, false)...)
		}
		out = append(out, pick(rng, []string{"", "\x00", "\x00\x00\x00\x00", "\x80\x00\x00\x00\x02a:", "junk"})...)
		reframe(c, out)
		return "b:frame-multi"
	}},
	{"b:frame-invalid", "g", func(rng *rand.Rand, c *Case, g *genCtx) string {
		p := invalidProto(rng)
		if rng.Intn(3) == 0 {
			p = deepJSON(10001, "a")
		}
		reframe(c, wire.Frame(p, false))
		return "b:frame-invalid-payload"
	}},
	{"b:b64", "g", func(rng *rand.Rand, c *Case, g *genCtx) string {
		if c.Entry != "webtext" {
			return ""
		}
		s := string(c.Body)
		c.Body = []byte(pick(rng, []string{strings.TrimRight(s, "="), s + "=", s + "!!!", "A", "AA", "AAA", "====", s[:len(s)/2] + "\n" + s[len(s)/2:], "\xff\xfe", s + s}))
		return "b:base64-broken"
	}},
	// ---- websocket script
	{"w:script", "w", func(rng *rand.Rand, c *Case, g *genCtx) string {
		s, class := wsScript(rng, g.msgs, true)
		c.Body = s
		return class
	}},
}

func applies(m mutator, entry string) bool {
	switch entry {
	case "http":
		return strings.Contains(m.on, "h")
	case "grpc", "web", "webtext":
		return strings.Contains(m.on, "g")
	default:
		return strings.Contains(m.on, "w")
	}
}

var mutByEntry = map[string][]mutator{}

func init() {
	for _, e := range []string{"http", "grpc", "web", "webtext", "ws"} {
		for _, m := range mutators {
			if applies(m, e) {
				mutByEntry[e] = append(mutByEntry[e], m)
			}
		}
	}
}

// genCase builds one case for a target.
func genCase(rng *rand.Rand, t *target, entries []string) *Case {
	return genCaseN(rng, t, entries, -1)
}

// genCaseN is genCase with a fixed number of mutations (nmut >= 0).
func genCaseN(rng *rand.Rand, t *target, entries []string, nmut int) *Case {
	ep := t.eps[rng.Intn(len(t.eps))]
	g := &genCtx{t: t, ep: ep}
	entry := pick(rng, entries)
	// rule: websocket entries prefer websocket rules, others prefer the rest
	var cand []int
	for i := range ep.Rules {
		isWS := ep.Rules[i].Verb == "WEBSOCKET"
		if isWS == strings.HasPrefix(entry, "ws") {
			cand = append(cand, i)
		}
	}
	if len(cand) == 0 || rng.Intn(10) == 0 {
		g.rl = &ep.Rules[rng.Intn(len(ep.Rules))]
	} else {
		g.rl = &ep.Rules[cand[rng.Intn(len(cand))]]
	}
	var c *Case
	var muts []string
	mkey := entry
	switch entry {
	case "http":
		c = baseHTTP(rng, g)
	case "grpc", "web", "webtext":
		c = baseGRPC(rng, g, entry)
	default: // ws-mem, ws-nohijack, sock-ws
		var class string
		c, class = baseWS(rng, g, entry, rng.Intn(3) == 0)
		if class != "ws:valid" {
			muts = append(muts, class)
		}
		mkey = "ws"
	}
	c.RuleClass = g.rl.Verb + ":body=" + bodyClass(g.ep, g.rl)
	if g.rl.Resp != "" {
		c.RuleClass += ":resp"
	}
	c.EP = ep.Full
	nm := []int{0, 1, 1, 1, 1, 1, 2, 2, 2, 3}[rng.Intn(10)]
	if nmut >= 0 {
		nm = nmut
	}
	hostile := nm > 0 || rng.Intn(2) == 0
	pool := mutByEntry[mkey]
	for i := 0; i < nm; i++ {
		m := pool[rng.Intn(len(pool))]
		if cls := m.f(rng, c, g); cls != "" {
			muts = append(muts, cls)
		}
	}
	a := genAct(rng, hostile && rng.Intn(3) != 0)
	if s := a.String(); s != "" {
		setH(c, "X-Vf-Act", s)
	}
	if a.Code >= 0 || a.Err != "" {
		muts = append(muts, "a:status")
	}
	c.Muts = muts
	return c
}

func bodyClass(ep *endpoint, rl *rule) string {
	switch rl.Body {
	case "":
		return "none"
	case "*":
		return "*"
	}
	md, fd := bodyDesc(ep, rl)
	switch {
	case md != nil:
		return "message"
	case fd == nil:
		return "unresolved"
	case fd.IsMap():
		return "map"
	case fd.IsList():
		return "repeated"
	default:
		return "scalar"
	}
}
