package robust

import (
	"fmt"
	"math/rand"
	"strings"
)

// typeInfo lists, per request type, the field pools templates and selectors
// are drawn from.
type typeInfo struct {
	name    string
	str     []string // string leaves (variables)
	typ     []string // typed leaves (variables)
	hostile []string // repeated / map / message fields and paths through them
	bodyOK  []string // message-typed body selectors
	bodyBad []string // scalar / repeated / map body selectors
}

var inTypes = []typeInfo{
	{
		name:    "vf.Req",
		str:     []string{"a", "b", "c", "d", "sub.a", "sub.b", "sub.deep.s", "os", "long_name", "odd_json"},
		typ:     []string{"n", "l", "f", "e", "dbl", "y", "u", "sub.l", "sub.deep.n", "sub.e", "sf32", "ul", "flt", "sn", "sl", "f32", "f64", "on"},
		hostile: []string{"rs", "rn", "re", "m", "sub", "rsub", "rsub.a", "m.key", "m.value", "ws", "wl", "ts", "dur", "fm", "osub.a", "sub.rs", "sub.deep", "ws.value", "ts.seconds", "fm.paths"},
		bodyOK:  []string{"sub", "sub.deep", "osub", "ts", "ws", "fm"},
		bodyBad: []string{"a", "n", "y", "e", "rs", "rn", "re", "m", "rsub", "sub.a", "sub.rs", "m.key", "rsub.a", "os"},
	},
	{
		name:    "vf.Chunk",
		str:     []string{"id", "text", "script", "tag"},
		typ:     []string{"seq", "data"},
		bodyBad: []string{"id", "seq", "data"},
	},
	{
		name:    "vf.Upload",
		str:     []string{"name", "file.content_type"},
		typ:     []string{"n", "file.data"},
		hostile: []string{"file", "file.extensions", "file.extensions.type_url"},
		bodyOK:  []string{"file"},
		bodyBad: []string{"name", "n", "file.data", "file.extensions", "file.content_type"},
	},
}

// response_body selectors per reply type: message-typed first, then hostile.
var respSel = map[string][2][]string{
	"vf.Rsp":              {{"echo", "sub", "body", "echo.sub", "echo.sub.deep"}, {"tag", "items", "data", "n", "echo.a", "echo.rs", "echo.m", "echo.rsub", "echo.rsub.a", "body.data", "body.content_type", "echo.m.key"}},
	"vf.Chunk":            {{}, {"id", "data", "seq"}},
	"vf.Req":              {{"sub", "sub.deep", "ts"}, {"a", "rs", "m", "rsub", "rsub.a"}},
	"vf.Upload":           {{"file"}, {"name", "file.data"}},
	"google.api.HttpBody": {{}, {"content_type", "data", "extensions"}},
}

var genLits = []string{"v1", "bk", "sh", "it", "x.y", "a-b", "q", "items"}
var genVerbs = []string{"GET", "GET", "GET", "POST", "POST", "PUT", "DELETE", "PATCH", "HEAD", "*", "websocket", "OPTIONS"}

func genTemplate(rng *rand.Rand, ti *typeInfo, prefix string) string {
	n := 1 + rng.Intn(5)
	used := map[string]bool{}
	fresh := func(pool []string) string {
		if len(pool) == 0 {
			return ""
		}
		for i := 0; i < 10; i++ {
			f := pick(rng, pool)
			if !used[f] {
				used[f] = true
				return f
			}
		}
		return ""
	}
	lit := func() string { return pick(rng, genLits) }
	segs := []string{prefix}
	for i := 0; i < n; i++ {
		last := i == n-1
		x := rng.Intn(100)
		var f string
		switch {
		case x < 30:
			segs = append(segs, lit())
			continue
		case x < 36:
			if last && rng.Intn(2) == 0 {
				segs = append(segs, "**")
			} else {
				segs = append(segs, "*")
			}
			continue
		case x < 60:
			f = fresh(ti.str)
		case x < 80:
			f = fresh(ti.typ)
		default:
			f = fresh(ti.hostile)
		}
		if f == "" {
			segs = append(segs, lit())
			continue
		}
		pats := []string{"", "", "", lit() + "/*", "*/" + lit(), "*/" + lit() + "/*", lit(), "*", "*/*"}
		if last {
			pats = append(pats, "**", lit()+"/**", lit()+"/"+lit()+"/**", "*/**", "**")
		}
		if p := pick(rng, pats); p != "" {
			segs = append(segs, "{"+f+"="+p+"}")
		} else {
			segs = append(segs, "{"+f+"}")
		}
	}
	t := "/" + strings.Join(segs, "/")
	if rng.Intn(4) == 0 {
		t += ":" + pick(rng, []string{"get", "cancel", "v", "x1"})
	}
	return t
}

// genRuleSet generates 2..6 methods with 1..3 rules each. Every rule starts
// with a literal unique to it, so rules never collide and a set is rejected
// only for what a single rule contains.
func genRuleSet(rng *rand.Rand, id string) *RSet {
	rs := &RSet{Pkg: "vf.rb", Class: "generated"}
	nm := 2 + rng.Intn(5)
	for m := 0; m < nm; m++ {
		ti := &inTypes[[]int{0, 0, 0, 0, 1, 2}[rng.Intn(6)]]
		me := RMethod{Name: fmt.Sprintf("Me%d", m), In: ti.name}
		me.Out = pick(rng, []string{"vf.Rsp", "vf.Rsp", "vf.Rsp", "vf.Chunk", "google.api.HttpBody", ti.name})
		me.CS = rng.Intn(4) == 0
		me.SS = rng.Intn(4) == 0
		nr := 1 + rng.Intn(3)
		for r := 0; r < nr; r++ {
			rl := RRule{Verb: pick(rng, genVerbs)}
			rl.Tmpl = genTemplate(rng, ti, fmt.Sprintf("g%sm%dr%d", id, m, r))
			hasBody := rl.Verb == "POST" || rl.Verb == "PUT" || rl.Verb == "PATCH" || rl.Verb == "websocket" || rng.Intn(8) == 0
			if hasBody {
				switch x := rng.Intn(10); {
				case x < 5:
					rl.Body = "*"
				case x < 7:
				case x < 9 && len(ti.bodyOK) > 0:
					rl.Body = pick(rng, ti.bodyOK)
				default:
					rl.Body = pick(rng, ti.bodyBad)
				}
			}
			if sel, ok := respSel[me.Out]; ok && rng.Intn(6) == 0 {
				all := append(append([]string{}, sel[0]...), sel[1]...)
				rl.Resp = pick(rng, all)
			}
			me.Rules = append(me.Rules, rl)
		}
		rs.Methods = append(rs.Methods, me)
	}
	return rs
}

// hostileSets enumerates the hand-written rule sets: one small set per
// hostile construct so that a rejected rule only removes itself.
func hostileSets() []*RSet {
	var out []*RSet
	add := func(class string, ms ...RMethod) {
		out = append(out, &RSet{Pkg: "vf.rbh", Class: "hostile:" + class, Methods: ms})
	}
	req, rsp, chunk, upl, hb := "vf.Req", "vf.Rsp", "vf.Chunk", "vf.Upload", "google.api.HttpBody"
	// variables bound to repeated / map / message fields and paths through them
	for _, f := range append(append([]string{}, inTypes[0].hostile...), "y", "e", "f") {
		add("var:"+f,
			RMethod{Name: "Get", In: req, Out: rsp, Rules: []RRule{{Verb: "GET", Tmpl: "/h/{" + f + "}"}, {Verb: "GET", Tmpl: "/hh/{" + f + "=**}"}, {Verb: "POST", Tmpl: "/hp/{" + f + "=x/*}:go", Body: "*"}}})
	}
	for _, f := range inTypes[2].hostile {
		add("var:upload."+f, RMethod{Name: "Up", In: upl, Out: rsp, Rules: []RRule{{Verb: "POST", Tmpl: "/hu/{" + f + "}", Body: "*"}}})
	}
	// body selectors on message / scalar / repeated / map fields
	for _, b := range append(append([]string{}, inTypes[0].bodyOK...), inTypes[0].bodyBad...) {
		add("body:"+b,
			RMethod{Name: "Post", In: req, Out: rsp, Rules: []RRule{{Verb: "POST", Tmpl: "/hb/{b}", Body: b}}},
			RMethod{Name: "PostCS", In: req, Out: rsp, CS: true, Rules: []RRule{{Verb: "POST", Tmpl: "/hbc/{b}", Body: b}}},
			RMethod{Name: "PostWS", In: req, Out: rsp, CS: true, SS: true, Rules: []RRule{{Verb: "websocket", Tmpl: "/hbw/{b}", Body: b}}})
	}
	for _, b := range append(append([]string{}, inTypes[2].bodyOK...), inTypes[2].bodyBad...) {
		add("body:upload."+b,
			RMethod{Name: "Up", In: upl, Out: rsp, Rules: []RRule{{Verb: "POST", Tmpl: "/hub/{name}", Body: b}}},
			RMethod{Name: "UpCS", In: upl, Out: hb, CS: true, SS: true, Rules: []RRule{{Verb: "POST", Tmpl: "/hubc/{name}", Body: b}}})
	}
	for _, b := range inTypes[1].bodyBad {
		add("body:chunk."+b, RMethod{Name: "Bidi", In: chunk, Out: chunk, CS: true, SS: true, Rules: []RRule{{Verb: "POST", Tmpl: "/hcb", Body: b}, {Verb: "websocket", Tmpl: "/hcw/{id}", Body: b}}})
	}
	// response_body selectors
	for _, outT := range []string{rsp, chunk, hb} {
		for _, group := range respSel[outT] {
			for _, r := range group {
				add("resp:"+outT+"."+r,
					RMethod{Name: "Get", In: req, Out: outT, Rules: []RRule{{Verb: "GET", Tmpl: "/hr/{a}", Resp: r}, {Verb: "POST", Tmpl: "/hr/{a}", Body: "*", Resp: r}}},
					RMethod{Name: "GetSS", In: req, Out: outT, SS: true, Rules: []RRule{{Verb: "GET", Tmpl: "/hrs/{a}", Resp: r}}},
					RMethod{Name: "WS", In: chunk, Out: outT, CS: true, SS: true, Rules: []RRule{{Verb: "websocket", Tmpl: "/hrw/{id}", Body: "*", Resp: r}}})
			}
		}
	}
	// websocket rules with and without body on every streaming shape
	for _, body := range []string{"*", "", "text-as-scalar"} {
		b := body
		if b == "text-as-scalar" {
			b = "text"
		}
		add("ws:body="+body,
			RMethod{Name: "Bidi", In: chunk, Out: chunk, CS: true, SS: true, Rules: []RRule{{Verb: "websocket", Tmpl: "/hw/bidi/{id}", Body: b}}},
			RMethod{Name: "CS", In: chunk, Out: chunk, CS: true, Rules: []RRule{{Verb: "websocket", Tmpl: "/hw/cs/{id}", Body: b}}},
			RMethod{Name: "SS", In: chunk, Out: chunk, SS: true, Rules: []RRule{{Verb: "websocket", Tmpl: "/hw/ss/{id}", Body: b}}},
			RMethod{Name: "Un", In: chunk, Out: chunk, Rules: []RRule{{Verb: "websocket", Tmpl: "/hw/un/{id}", Body: b}}},
			RMethod{Name: "Multi", In: req, Out: rsp, CS: true, SS: true, Rules: []RRule{{Verb: "websocket", Tmpl: "/hw/multi/{a=**}", Body: b}, {Verb: "websocket", Tmpl: "/hw/typed/{n}/{sub.deep.n}", Body: b}}})
	}
	// HttpBody in odd places
	add("httpbody",
		RMethod{Name: "Up", In: upl, Out: hb, Rules: []RRule{{Verb: "POST", Tmpl: "/hf/{name}", Body: "file"}, {Verb: "PUT", Tmpl: "/hf/{name}", Body: "*"}, {Verb: "GET", Tmpl: "/hf/{name}"}}},
		RMethod{Name: "UpCS", In: upl, Out: hb, CS: true, Rules: []RRule{{Verb: "POST", Tmpl: "/hfc/{name}", Body: "file"}}},
		RMethod{Name: "Down", In: req, Out: hb, SS: true, Rules: []RRule{{Verb: "GET", Tmpl: "/hfd/{a}"}, {Verb: "websocket", Tmpl: "/hfw/{a}"}}},
		RMethod{Name: "Nested", In: req, Out: rsp, SS: true, Rules: []RRule{{Verb: "GET", Tmpl: "/hfn/{a}", Resp: "body"}}},
		RMethod{Name: "BodyIn", In: hb, Out: hb, CS: true, SS: true, Rules: []RRule{{Verb: "POST", Tmpl: "/hfb", Body: "*"}, {Verb: "websocket", Tmpl: "/hfbw", Body: "*"}}})
	// typed and multi-segment variables next to verbs and literals
	add("typed-multiseg",
		RMethod{Name: "A", In: req, Out: rsp, Rules: []RRule{{Verb: "GET", Tmpl: "/ht/{n}/{sub.deep.n}/{a=**}"}, {Verb: "GET", Tmpl: "/ht/{b=x/**}:fetch"}, {Verb: "GET", Tmpl: "/ht/{c=x/y/**}:fetch"}}},
		RMethod{Name: "B", In: req, Out: rsp, Rules: []RRule{{Verb: "*", Tmpl: "/ht/{f}/{e}/{dbl}/{y}/{u}/{l}"}, {Verb: "GET", Tmpl: "/ht/**"}, {Verb: "GET", Tmpl: "/ht/*/*/{d=*/*}:v"}}},
		RMethod{Name: "C", In: req, Out: rsp, Rules: []RRule{{Verb: "GET", Tmpl: "/{a}"}, {Verb: "GET", Tmpl: "/{a}/{b}/{c}/{d}"}, {Verb: "GET", Tmpl: "/**:deep"}}})
	return out
}
