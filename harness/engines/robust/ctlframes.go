package robust

import (
	"bytes"
	"fmt"
	"strings"
	"sync"

	"verif/internal/mon"
)

type announced struct {
	n    int64
	form int // 126: 16-bit length form, 127: 64-bit
}

var ctlAnnounced = []announced{
	{126, 126}, {65535, 126}, {126, 127}, {65536, 127}, {1 << 31, 127}, {1 << 62, 127}, {1<<63 - 1, 127}, {-1, 127},
}

// ctlHeaderFrame is a masked client control frame whose header announces n
// bytes, followed by have payload bytes only.
func ctlHeaderFrame(op byte, fin bool, n int64, form int, have int) []byte {
	return wsFrame(op, fin, 0, true, bytes.Repeat([]byte("c"), have), n, form)
}

// runControlFrames: opcode ping / pong / close x announced length x FIN x
// position in the exchange x payload present or not, on the in-memory
// WebSocket path (the random generator sends the same class over sockets).
func runControlFrames(r *mon.Run) {
	st := newStats()
	defer st.flush(r)
	std, err := newStdTarget()
	if err != nil {
		r.Inconclusive("harness: standard service: " + err.Error())
		return
	}
	type site struct {
		t    *target
		kind string
		path string
		msg  string
	}
	sites := []site{{std, "std", "/v1/ws/room1", `{"text":"hi"}`}, {newTestpbTarget(), "testpb", "/v1/rooms/r1", `{"text":"hi"}`}}
	n := 0
	for _, s := range sites {
		for _, pos := range []string{"first", "after-echo", "between-fragments"} {
			for _, op := range []byte{9, 10, 8} {
				for _, ann := range ctlAnnounced {
					for _, fin := range []bool{true, false} {
						for _, have := range []int{0, 10, 200} {
							ctl := ctlHeaderFrame(op, fin, ann.n, ann.form, have)
							var script []byte
							switch pos {
							case "first":
								script = ctl
							case "after-echo":
								script = append(wsText([]byte(s.msg)), ctl...)
							case "between-fragments":
								script = append(wsFrame(1, false, 0, true, []byte(s.msg[:5]), -1, 0), ctl...)
								script = append(script, wsFrame(0, true, 0, true, []byte(s.msg[5:]), -1, 0)...)
							}
							if n%2 == 0 {
								script = append(script, wsClose(closeBody(1000, ""))...)
							}
							c := &Case{Entry: "ws-mem", Method: "GET", Path: BStr(s.path), Proto: 1, CL: clExact, Target: s.kind, Body: script, RuleClass: "WEBSOCKET:body=*"}
							c.Opts = []int{0, 7, 4}[n%3]
							n++
							setH(c, "Upgrade", "websocket")
							setH(c, "Connection", "Upgrade")
							setH(c, "Sec-Websocket-Key", "dGhlIHNhbXBsZSBub25jZQ==")
							setH(c, "Sec-Websocket-Version", "13")
							setH(c, "X-Vf-Act", "reply=echo")
							c.Muts = []string{fmt.Sprintf("ws:ctl:op%d:len%d/%d:fin=%v:%s:have%d", op, ann.n, ann.form, fin, pos, have)}
							if wedgesSeen.Load() >= maxWedges {
								return
							}
							bt, err := s.t.get(c.Opts)
							if err != nil {
								continue
							}
							o := serveInproc(c, bt)
							st.count("websocket_control_header_requests", 1)
							record(r, st, c, o)
						}
					}
				}
			}
		}
	}
}

// ------------------------------------------------------------- spellings

// spellingCase builds request number n: every request spells its
// Content-Type / Accept differently (parameters, case, white space).
func spellingCase(n int) *Case {
	c := &Case{Entry: "http", Method: "POST", Path: "/v1/echo", Proto: 1, CL: clExact, Target: "std"}
	c.Body = []byte(fmt.Sprintf(`{"id":"s%d","seq":%d}`, n, n%1000))
	class := ""
	switch n % 7 {
	case 0:
		setH(c, "Content-Type", fmt.Sprintf("application/json; charset=utf-8; v=%d", n))
		class = "json-params"
	case 1:
		setH(c, "Content-Type", fmt.Sprintf("Application/JSON;v=%d", n))
		class = "json-case"
	case 2:
		setH(c, "Content-Type", fmt.Sprintf("application/json ;  charset=UTF-8 ; x=\"%d\"", n))
		class = "json-space-quoted"
	case 3:
		setH(c, "Content-Type", "application/json")
		setH(c, "Accept", fmt.Sprintf("application/json; v=%d, */*;q=0.%d", n, n%10))
		class = "accept-params"
	case 4:
		setH(c, "Content-Type", fmt.Sprintf("application/protobuf; v=%d", n))
		c.Body = append([]byte{0x0a, 2}, 's', byte('0'+n%10))
		class = "proto-params"
	case 5:
		setH(c, "Content-Type", fmt.Sprintf("application/json;v=%d", n))
		setH(c, "Twirp-Version", "v5.7.0")
		c.Path = "/vf.std.Std/Echo"
		class = "twirp-params"
	case 6:
		setH(c, "Content-Type", "application/json")
		c.Path, c.Method, c.Body = BStr(fmt.Sprintf("/v1/unary/x%d", n)), "GET", nil
		setH(c, "Accept", fmt.Sprintf("APPLICATION/%s;v=%d", strings.ToUpper("json"), n))
		class = "accept-case"
	}
	c.Muts = []string{"spelling:" + class}
	return c
}

// runSpellings: G goroutines share one mux and send requests whose header
// spellings never repeat; every answer is compared with the answer the same
// request gets sequentially on a private mux of the same configuration.
func runSpellings(r *mon.Run) {
	const G = 8
	per := r.Pick(2500, 60000)
	for _, opts := range []int{0, 7} {
		shared, err := newStdTarget()
		if err != nil {
			r.Inconclusive("harness: standard service: " + err.Error())
			return
		}
		sbt, err := shared.get(opts)
		if err != nil {
			continue
		}
		var wg sync.WaitGroup
		for g := 0; g < G; g++ {
			twin, err := newStdTarget()
			if err != nil {
				continue
			}
			tbt, err := twin.get(opts)
			if err != nil {
				continue
			}
			wg.Add(1)
			go func(g int, tbt *built) {
				defer wg.Done()
				st := newStats()
				defer st.flush(r)
				for i := 0; i < per; i++ {
					if wedgesSeen.Load() >= maxWedges {
						return
					}
					c := spellingCase(g*per + i + opts*1000003)
					c.Opts = opts
					want := serveInproc(c, tbt)
					got := serveOnly(c, sbt)
					st.count("concurrent_spelling_requests", 1)
					record(r, st, c, got)
					if got.panicked == nil && !got.wedged && want.panicked == nil && !want.wedged &&
						(got.code != want.code || !bytes.Equal(got.body, want.body)) {
						r.Violate("concurrent:answer-differs-from-sequential-twin:"+c.Muts[0],
							fmt.Sprintf("served concurrently with %d other requests the request was answered %d %q, sequentially on a private mux %d %q", G-1, got.code, head(got.body, 120), want.code, head(want.body, 120)), c)
					}
				}
			}(g, tbt)
		}
		wg.Wait()
	}
}
