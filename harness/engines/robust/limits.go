package robust

import (
	"encoding/base64"
	"fmt"
	"math/rand"

	"google.golang.org/protobuf/encoding/protowire"

	"verif/internal/mon"
	"verif/internal/wire"
)

// protoOfSize returns a vf.Chunk encoding of exactly n bytes (field data,
// padded with field seq where the length prefix makes n unreachable).
func protoOfSize(n int, fill func([]byte)) []byte {
	for _, pad := range [][]byte{nil, {0x10, 0x01}, {0x10, 0x81, 0x01}} {
		rest := n - len(pad)
		for v := 1; v <= 5; v++ {
			l := rest - 1 - v
			if l >= 0 && protowire.SizeVarint(uint64(l)) == v {
				b := append([]byte{}, pad...)
				b = append(b, 0x1a)
				b = protowire.AppendVarint(b, uint64(l))
				data := make([]byte, l)
				fill(data)
				return append(b, data...)
			}
		}
	}
	return make([]byte, n) // n < 2: zero bytes (not a valid message)
}

// runLimitSweep: compressed messages whose decompressed size is swept around
// the receive limit (64, 1024 and the default 4 MiB), compressible and
// incompressible content, on gRPC, gRPC-web, gRPC-web-text and on gzip HTTP
// bodies; unary and client-streaming methods; with and without stats.
func runLimitSweep(r *mon.Run) {
	rng := r.Rand("robust-limits")
	st := newStats()
	defer st.flush(r)
	std, err := newStdTarget()
	if err != nil {
		r.Inconclusive("harness: standard service: " + err.Error())
		return
	}
	fills := map[string]func([]byte){
		"zeros":  func(b []byte) {},
		"random": func(b []byte) { rand.New(rand.NewSource(int64(len(b)))).Read(b) },
		"text": func(b []byte) {
			copy(b, []byte("abcdefghij"))
			for i := 10; i < len(b); i++ {
				b[i] = b[i-10]
			}
		},
	}
	fillNames := []string{"zeros", "random", "text"}
	type lim struct {
		opt   int
		limit int
	}
	for _, lm := range []lim{{optSmall, 64}, {optLim1K, 1024}, {0, 4 << 20}} {
		for d := -3; d <= 3; d++ {
			size := lm.limit + d
			for _, fn := range fillNames {
				if lm.limit > 1<<20 && fn == "random" && !r.Thorough() && d != 1 {
					continue // 4 MiB of incompressible data per request
				}
				msg := protoOfSize(size, fills[fn])
				gz := wire.Gzip(msg)
				for _, method := range []string{"Echo", "Bidi"} {
					for _, entry := range []string{"grpc", "web", "webtext", "http"} {
						for _, mask := range []int{0, optStats, 7} {
							c := &Case{Entry: entry, Method: "POST", Proto: 1, CL: clExact, Target: "std", Opts: lm.opt | mask}
							c.Muts = []string{fmt.Sprintf("limit:%d%+d:%s:%s", lm.limit, d, fn, method)}
							c.EP = "/vf.std.Std/" + method
							setH(c, "X-Vf-Act", "reply=empty")
							frame := wire.Frame(gz, true)
							if rng.Intn(4) == 0 {
								// a second, small message behind it
								frame = append(frame, wire.Frame(wire.Gzip([]byte{0x10, 0x01}), true)...)
							}
							switch entry {
							case "grpc":
								c.Proto, c.CL, c.Path, c.Body = 2, clUnknown, BStr(c.EP), frame
								setH(c, "Content-Type", "application/grpc")
								setH(c, "Te", "trailers")
								setH(c, "Grpc-Encoding", "gzip")
							case "web":
								c.Path, c.Body = BStr(c.EP), frame
								setH(c, "Content-Type", "application/grpc-web+proto")
								setH(c, "Grpc-Encoding", "gzip")
							case "webtext":
								c.Path, c.Body = BStr(c.EP), []byte(base64.StdEncoding.EncodeToString(frame))
								setH(c, "Content-Type", "application/grpc-web-text")
								setH(c, "Grpc-Encoding", "gzip")
							case "http":
								c.Path = BStr(map[string]string{"Echo": "/v1/echo", "Bidi": "/v1/bidi"}[method])
								c.Body = gz
								if method == "Bidi" {
									c.Body = wire.Gzip(append(protowire.AppendVarint(nil, uint64(len(msg))), msg...))
								}
								setH(c, "Content-Type", "application/protobuf")
								setH(c, "Content-Encoding", "gzip")
							}
							if wedgesSeen.Load() >= maxWedges {
								return
							}
							bt, err := std.get(c.Opts)
							if err != nil {
								continue
							}
							o := serveInproc(c, bt)
							st.count("compressed_size_sweep_requests", 1)
							record(r, st, c, o)
						}
					}
				}
			}
		}
	}
}

var _ = mon.NormMsg
