// Package regset is the C11 engine: dispatch follows the live registration
// set. Histories of RegisterService / RegisterConn / DropConn operations are
// applied to a fresh Mux; after every step each method is requested over HTTP
// and gRPC and the tag of the answering back-end is compared with a
// sequential reference model `method -> set of live back-end tags`.
package regset

import (
	"context"
	"fmt"
	"google.golang.org/genproto/googleapis/api/serviceconfig"
	"google.golang.org/protobuf/types/descriptorpb"
	"net/http"
	"sort"
	"sync"
	"sync/atomic"

	"google.golang.org/genproto/googleapis/api/annotations"
	"google.golang.org/grpc"
	"google.golang.org/grpc/codes"
	"google.golang.org/grpc/status"
	"google.golang.org/protobuf/proto"
	"google.golang.org/protobuf/reflect/protoreflect"
	"google.golang.org/protobuf/reflect/protoregistry"
	"larking.io/larking"

	be "verif/internal/backend"
	"verif/internal/mon"
	"verif/internal/vschema"
	"verif/internal/wire"
)

func get(p string) *annotations.HttpRule {
	return &annotations.HttpRule{Pattern: &annotations.HttpRule_Get{Get: p}}
}
func post(p, body string) *annotations.HttpRule {
	return &annotations.HttpRule{Pattern: &annotations.HttpRule_Post{Post: p}, Body: body}
}
func anyVerb(p, body string) *annotations.HttpRule {
	return &annotations.HttpRule{Pattern: &annotations.HttpRule_Custom{Custom: &annotations.CustomHttpPattern{Kind: "*", Path: p}}, Body: body}
}
func with(r *annotations.HttpRule, adds ...*annotations.HttpRule) *annotations.HttpRule {
	r.AdditionalBindings = adds
	return r
}

// Three services in three files (a back-end's reflection answer must only
// list what that back-end implements):
//
//	vf.rs.A  Get: GET /rs/a/{a} | GET /rs/alt/{a}/{n} | POST /rs/a body:* | GET /rs/x/{a}   Put: POST /rs/put body:*
//	vf.rs.B  Get: GET /rs/b/{a} | GET /rs/b2/{a}/{n} | POST /rs/b body:*
//	vf.rs.C  Get: GET /rs/c/{a} | GET /rs/c2/{a}/{n} | GET /rs/x/{a}   (collides with A.Get on /rs/x/{a}: registration conflict)
//
// /rs/x/{a} makes A and C mutually exclusive so that the error path of
// RegisterConn / RegisterService is part of the histories; it is requested
// only while the model has providers of at most one of the two services.
// Every method with path variables has at least two such bindings, all of
// them requested after every step. Every service also has bindings below the
// two variable nodes of /sv ({a} and {a=sh/*}) that all services share, so
// that dropping one provider exercises the pruning of nodes others still use;
// B.Get's literal /ov/lit/one lies on A.Get's /ov/{a}/one: the literal wins
// while B has a provider, the variable binding takes over when it has none;
// A.Put owns an any-verb (custom kind "*") binding on /any/things, a node
// whose only other content are B's and T's bindings below it.
func files() []*vschema.File {
	return []*vschema.File{
		{Path: "vf/rsa.proto", Pkg: "vf.rs", Messages: aReq(1), Services: []vschema.Service{{Name: "A", Methods: []vschema.Method{
			{Name: "Get", In: "vf.rs.AReq", Out: "vf.Rsp", Rule: with(get("/rs/a/{a}"), get("/rs/alt/{a}/{n}"), post("/rs/a", "*"), get("/rs/x/{a}"), get("/rs/ab/{a}/{b}"), get("/sv/{a}/sa"), get("/sv/{a=sh/*}/pa"), get("/ov/{a}/one"))},
			{Name: "Put", In: "vf.rs.AReq", Out: "vf.Rsp", Rule: with(post("/rs/put", "*"), anyVerb("/any/things", "*"))},
		}}}},
		{Path: "vf/rsb.proto", Pkg: "vf.rs", Services: []vschema.Service{{Name: "B", Methods: []vschema.Method{
			{Name: "Get", In: "vf.Req", Out: "vf.Rsp", Rule: with(get("/rs/b/{a}"), get("/rs/b2/{a}/{n}"), post("/rs/b", "*"), get("/sv/{a}/sb"), get("/sv/{a=sh/*}/pb"), get("/any/things/{a}"), get("/ov/lit/one"))},
		}}}},
		{Path: "vf/rsc.proto", Pkg: "vf.rs", Services: []vschema.Service{{Name: "C", Methods: []vschema.Method{
			{Name: "Get", In: "vf.Req", Out: "vf.Rsp", Rule: with(get("/rs/c/{a}"), get("/rs/c2/{a}/{n}"), get("/rs/x/{a}"), get("/sv/{a}/sc"), get("/sv/{a=sh/*}/pc"))},
		}}}},
	}
}

// aReq is service A's own request message. Revision 2 (served by b4) is
// wire-compatible but declares a new field in the middle, so the same field
// NUMBERS sit at other POSITIONS: a=1, b=2, n=3 in both; rev 2 declares
// c=4 between a and b.
func aReq(rev int) []*descriptorpb.DescriptorProto {
	name := "AReq"
	m := &descriptorpb.DescriptorProto{Name: &name}
	m.Field = append(m.Field, vschema.StrField("a", 1))
	if rev == 2 {
		m.Field = append(m.Field, vschema.StrField("c", 4))
	}
	m.Field = append(m.Field, vschema.StrField("b", 2), vschema.I64Field("n", 3))
	return []*descriptorpb.DescriptorProto{m}
}

// filesV2 is the newer revision of service A that back-end b4 serves
// (version skew between replicas): Get announces one more binding.
func filesV2() *vschema.File {
	return &vschema.File{Path: "vf/rsa.proto", Pkg: "vf.rs", Messages: aReq(2), Services: []vschema.Service{{Name: "A", Methods: []vschema.Method{
		{Name: "Get", In: "vf.rs.AReq", Out: "vf.Rsp", Rule: with(get("/rs/a/{a}"), get("/rs/alt/{a}/{n}"), post("/rs/a", "*"), get("/rs/x/{a}"), get("/rs/ab/{a}/{b}"), get("/rs/v2/{a}"), get("/sv/{a}/sa"), get("/sv/{a=sh/*}/pa"), get("/ov/{a}/one"))},
		{Name: "Put", In: "vf.rs.AReq", Out: "vf.Rsp", Rule: with(post("/rs/put", "*"), anyVerb("/any/things", "*"))},
		// a method only the newer revision has
		{Name: "Extra", In: "vf.rs.AReq", Out: "vf.Rsp", Rule: get("/rs/extra/{a}")},
	}}}}
}

// filesD is the file of the per-worker back-end "bd": TWO services in one
// file, in three revisions. rev 2 adds a binding to D1.Get, rev 3 is invalid
// (D2.Get binds an unknown field) and must be refused.
func filesD(rev int) *vschema.File {
	d1 := with(get("/rs/d1/{a}"), get("/sv/{a}/sd1"))
	if rev == 2 {
		// two bindings below sibling variable nodes of one trie node
		d1 = with(get("/rs/d1/{a}"), get("/rs/d1v2/{a}"), get("/rs/{a=orgs/*/things/*}"), get("/rs/{b=projects/*/things/*}"), get("/sv/{a}/sd1"))
	}
	d2 := with(get("/rs/d2/{a}"), get("/sv/{a}/sd2"), get("/sv/{a=sh/*}/pd2"))
	if rev == 3 {
		d2 = with(get("/rs/d2/{no_such_field}"), get("/sv/{a}/sd2"), get("/sv/{a=sh/*}/pd2"))
	}
	return &vschema.File{Path: "vf/rsd.proto", Pkg: "vf.rs", Services: []vschema.Service{
		{Name: "D1", Methods: []vschema.Method{{Name: "Get", In: "vf.Req", Out: "vf.Rsp", Rule: d1}}},
		{Name: "D2", Methods: []vschema.Method{{Name: "Get", In: "vf.Req", Out: "vf.Rsp", Rule: d2}}},
	}}
}

// fileT is the service of the per-worker back-end "bt", which histories can
// take down (its process stops; the connection stays registered).
func fileT() *vschema.File {
	return &vschema.File{Path: "vf/rst.proto", Pkg: "vf.rs", Services: []vschema.Service{
		{Name: "T", Methods: []vschema.Method{{Name: "Get", In: "vf.Req", Out: "vf.Rsp", Rule: with(get("/rs/t/{a}"), get("/sv/{a}/st"), get("/sv/{a=sh/*}/pt"), get("/any/things/{a}/t"))}}},
	}}
}

// serviceConfig adds routes through ServiceConfigOption: they belong to the
// method like its annotations, whoever serves it.
func serviceConfig() *serviceconfig.Service {
	sel := func(s string, r *annotations.HttpRule) *annotations.HttpRule { r.Selector = s; return r }
	return &serviceconfig.Service{Http: &annotations.Http{Rules: []*annotations.HttpRule{
		sel("vf.rs.A.Get", get("/cfg/a/{a}")),
		sel("vf.rs.A.Put", post("/cfg/put", "*")),
		sel("vf.rs.B.Get", get("/cfg/b/{a}")),
	}}}
}

// tagged answers every unary call with its tag and the method name.
type tagged struct{ tag string }

func (t tagged) Unary(ctx context.Context, md protoreflect.MethodDescriptor, in proto.Message) (proto.Message, error) {
	out := vschema.NewMsg(md.Output())
	r := out.ProtoReflect()
	r.Set(md.Output().Fields().ByName("tag"), protoreflect.ValueOfString(t.tag))
	r.Set(md.Output().Fields().ByName("method"), protoreflect.ValueOfString(vschema.FullMethod(md)))
	// what arrived: every set scalar field of the request as name=value
	var got []string
	in.ProtoReflect().Range(func(fd protoreflect.FieldDescriptor, v protoreflect.Value) bool {
		if fd.Message() == nil && !fd.IsList() && !fd.IsMap() {
			got = append(got, fmt.Sprintf("%s=%v", fd.Name(), v.Interface()))
		}
		return true
	})
	sort.Strings(got)
	if items := md.Output().Fields().ByName("items"); items != nil && items.IsList() {
		l := r.Mutable(items).List()
		for _, g := range got {
			l.Append(protoreflect.ValueOfString(g))
		}
	}
	return out, nil
}

func (t tagged) Stream(md protoreflect.MethodDescriptor, ss grpc.ServerStream) error {
	return status.Error(codes.Unimplemented, "regset engine has no streaming methods")
}

// Env holds what is shared by all histories: back-ends, their client
// connections and the descriptors.
type Env struct {
	Back    map[string]*be.Backend // b1 b2 (service A), b3 (service B), bc (service C)
	Unknown *grpc.ClientConn       // a connection that is never registered
	Second  *grpc.ClientConn       // "b3x": a second connection to back-end b3 (same target, same descriptors)
	SvcOf   map[string]string      // backend -> service
	SD      map[string]protoreflect.ServiceDescriptor
	Files   *protoregistry.Files // for the local service
	// FS: the multi-file back-ends of the file-structure dimension
	// (structure.go), by provider name
	FS map[string]*fsBackend
}

var svcOf = map[string]string{"b1": "A", "b2": "A", "b4": "A", "b3": "B", "b3x": "B", "bc": "C", "local": "A", "bd": "D", "bd2": "D", "bt": "T", "bh": "D1only", "bp": "P"}

// tagOf is the tag the provider's replies carry: b3x is another connection
// to the server behind b3.
func tagOf(prov string) string {
	if prov == "b3x" {
		return "b3"
	}
	return prov
}

func NewEnv() (*Env, error) {
	e := &Env{Back: map[string]*be.Backend{}, SvcOf: svcOf, SD: map[string]protoreflect.ServiceDescriptor{}, FS: map[string]*fsBackend{}}
	for k := range fsShapes {
		for _, p := range fsShapes[k].providers() {
			b, err := startFS(p, &fsShapes[k])
			if err != nil {
				e.Close()
				return nil, err
			}
			e.FS[p] = b
		}
	}
	var fds []protoreflect.FileDescriptor
	for _, f := range files() {
		fd, err := f.Build()
		if err != nil {
			return nil, fmt.Errorf("descriptor build %s: %w", f.Path, err)
		}
		fds = append(fds, fd)
		sd := fd.Services().Get(0)
		e.SD[string(sd.Name())] = sd
	}
	reg, err := vschema.Registry(fds[0])
	if err != nil {
		return nil, err
	}
	e.Files = reg
	fdV2, err := filesV2().Build()
	if err != nil {
		return nil, fmt.Errorf("descriptor build v2: %w", err)
	}
	for _, b := range []string{"b1", "b2", "b3", "bc", "b4"} {
		sd := e.SD[svcOf[b]]
		if b == "b4" {
			sd = fdV2.Services().Get(0)
		}
		bk, err := be.Start(b, true, be.Svc{SD: sd, Impl: tagged{b}})
		if err != nil {
			e.Close()
			return nil, err
		}
		e.Back[b] = bk
	}
	// bh implements D1 only, although the proto file it was built from (and
	// that its reflection hands out) also declares D2: it advertises D1
	{
		fdD, err := filesD(1).Build()
		if err != nil {
			e.Close()
			return nil, err
		}
		bh, err := be.Start("bh", true, be.Svc{SD: fdD.Services().Get(0), Impl: tagged{"bh"}})
		if err != nil {
			e.Close()
			return nil, err
		}
		bh.SetFiles(fdD)
		e.Back["bh"] = bh
	}
	// bp serves two services with the SAME short name in two files whose
	// packages are string prefixes of one another (side-by-side API versions,
	// parent / child packages): vf.rs.P and vf.rs.inner.P
	{
		fdP, err := (&vschema.File{Path: "vf/rsp.proto", Pkg: "vf.rs", Services: []vschema.Service{{Name: "P", Methods: []vschema.Method{
			{Name: "Get", In: "vf.Req", Out: "vf.Rsp", Rule: get("/rs/p/{a}")}}}}}).Build()
		if err != nil {
			e.Close()
			return nil, err
		}
		fdPI, err := (&vschema.File{Path: "vf/rsp_inner.proto", Pkg: "vf.rs.inner", Services: []vschema.Service{{Name: "P", Methods: []vschema.Method{
			{Name: "Get", In: "vf.Req", Out: "vf.Rsp", Rule: get("/rs/pi/{a}")}}}}}).Build()
		if err != nil {
			e.Close()
			return nil, err
		}
		bp, err := be.Start("bp", true, be.Svc{SD: fdP.Services().Get(0), Impl: tagged{"bp"}}, be.Svc{SD: fdPI.Services().Get(0), Impl: tagged{"bp"}})
		if err != nil {
			e.Close()
			return nil, err
		}
		e.Back["bp"] = bp
	}
	if e.Unknown, err = e.Back["b3"].NewConn(); err != nil {
		e.Close()
		return nil, err
	}
	if e.Second, err = e.Back["b3"].NewConn(); err != nil {
		e.Close()
		return nil, err
	}
	return e, nil
}

func (e *Env) conn(name string) *grpc.ClientConn {
	switch name {
	case "unknown":
		return e.Unknown
	case "b3x":
		return e.Second
	}
	if b := e.FS[name]; b != nil {
		return b.CC
	}
	return e.Back[name].CC
}

func (e *Env) Close() {
	if e.Unknown != nil {
		e.Unknown.Close()
	}
	if e.Second != nil {
		e.Second.Close()
	}
	for _, b := range e.Back {
		b.Close()
	}
	for _, b := range e.FS {
		b.Close()
	}
}

// Worker owns one front server whose handler is the Mux of the history that
// is currently being run, plus the clients of that front.
type Worker struct {
	env    *Env
	cur    atomic.Pointer[larking.Mux]
	srv    *wire.Server
	cc     *grpc.ClientConn
	hc     *http.Client
	mu     sync.Mutex
	panics []*mon.PanicInfo
	// bd is this worker's own back-end whose reflection revision the
	// history switches (shared back-ends cannot change under other workers)
	bd  *be.Backend
	fdD [4]protoreflect.FileDescriptor
	// bd2 is a replica of bd that always serves revision 1
	bd2 *be.Backend
	// bt can be taken down by a history (Kill); it is replaced by a fresh
	// one before the next history
	bt     *be.Backend
	btDead bool
	fdT    protoreflect.FileDescriptor
}

func (w *Worker) startT() error {
	if w.bt != nil {
		w.bt.Close()
	}
	var err error
	w.bt, err = be.Start("bt", true, be.Svc{SD: w.fdT.Services().Get(0), Impl: tagged{"bt"}})
	w.btDead = false
	return err
}

// ServeHTTP forwards to the current Mux. A panic is recorded for the history
// and then turned into net/http's abort (what a real server does after
// logging it).
func (w *Worker) ServeHTTP(rw http.ResponseWriter, r *http.Request) {
	m := w.cur.Load()
	if m == nil {
		http.Error(rw, "no mux", http.StatusServiceUnavailable)
		return
	}
	if pi := mon.Catch(func() { m.ServeHTTP(rw, r) }); pi != nil {
		w.mu.Lock()
		w.panics = append(w.panics, pi)
		w.mu.Unlock()
		panic(http.ErrAbortHandler)
	}
}

func (w *Worker) takePanics() []*mon.PanicInfo {
	w.mu.Lock()
	defer w.mu.Unlock()
	p := w.panics
	w.panics = nil
	return p
}

func NewWorker(e *Env) (*Worker, error) {
	w := &Worker{env: e}
	var err error
	if w.srv, err = wire.StartH2C(w, nil); err != nil {
		return nil, err
	}
	if w.cc, err = wire.Dial(w.srv.Addr); err != nil {
		w.srv.Close()
		return nil, err
	}
	w.hc = &http.Client{Transport: &http.Transport{DisableCompression: true, MaxIdleConnsPerHost: 4}}
	for rev := 1; rev <= 3; rev++ {
		if w.fdD[rev], err = filesD(rev).Build(); err != nil {
			w.Close()
			return nil, err
		}
	}
	if w.bd, err = be.Start("bd", true, be.Svc{SD: w.fdD[1].Services().Get(0), Impl: tagged{"bd"}}, be.Svc{SD: w.fdD[1].Services().Get(1), Impl: tagged{"bd"}}); err != nil {
		w.Close()
		return nil, err
	}
	if w.fdT, err = fileT().Build(); err != nil {
		w.Close()
		return nil, err
	}
	if err = w.startT(); err != nil {
		w.Close()
		return nil, err
	}
	if w.bd2, err = be.Start("bd2", true, be.Svc{SD: w.fdD[1].Services().Get(0), Impl: tagged{"bd2"}}, be.Svc{SD: w.fdD[1].Services().Get(1), Impl: tagged{"bd2"}}); err != nil {
		w.Close()
		return nil, err
	}
	return w, nil
}

func (w *Worker) Close() {
	if w.bd != nil {
		w.bd.Close()
	}
	if w.bd2 != nil {
		w.bd2.Close()
	}
	if w.bt != nil {
		w.bt.Close()
	}
	w.cc.Close()
	w.hc.CloseIdleConnections()
	w.srv.Close()
}
