package regset

import (
	"encoding/json"
	"fmt"
	"math/rand"
	"sort"
	"sync"

	"verif/internal/mon"
)

var coreOps = []Op{
	{"RegLocal", ""}, {"RegConn", "b1"}, {"RegConn", "b2"}, {"RegConn", "b3"},
	{"DropConn", "b1"}, {"DropConn", "b2"}, {"DropConn", "b3"}, {"DropConn", "unknown"},
}

// allOps adds the back-end whose service collides with service A (error path
// of registration).
var allOps = append(append([]Op{}, coreOps...), Op{"RegConn", "bc"}, Op{"DropConn", "bc"})

func enumerate(ops []Op, n int) []History {
	if n == 0 {
		return []History{{}}
	}
	var out []History
	for _, p := range enumerate(ops, n-1) {
		for _, o := range ops {
			h := append(append(History{}, p...), o)
			out = append(out, h)
		}
	}
	return out
}

// Case is the replayable case of a violation.
type Case struct {
	History History   `json:"history"`
	Minimal History   `json:"minimal,omitempty"`
	Draws   int       `json:"draws"`
	Failure Failure   `json:"failure"`
	States  []string  `json:"model_states,omitempty"`
	All     []Failure `json:"all_failures,omitempty"`
}

type engine struct {
	r       *mon.Run
	env     *Env
	workers []*Worker
	// minimal failing histories (canonical) per observable
	minimal map[string][]History
	done    map[string]bool // attributed (prefix, observable) pairs
}

func (g *engine) runAll(hs []History, draws int) []*Outcome {
	outs := make([]*Outcome, len(hs))
	ch := make(chan int)
	var wg sync.WaitGroup
	for _, w := range g.workers {
		wg.Add(1)
		go func(w *Worker) {
			defer wg.Done()
			for i := range ch {
				outs[i] = w.Run(hs[i], draws)
			}
		}(w)
	}
	for i := range hs {
		ch <- i
	}
	close(ch)
	wg.Wait()
	return outs
}

func (g *engine) account(h History, o *Outcome) {
	r := g.r
	r.Eval(1)
	r.Count("operations", len(h))
	r.Count("requests", o.NReq)
	r.Count("answers_unimplemented", o.Unimpl)
	r.Count("registrations_refused_by_rule_conflict", o.OpErrs)
	r.Count("registrations_refused_by_rule_of_dropped_conn", o.StaleErrs)
	for t, n := range o.Tags {
		r.Count("answers_by_"+t, n)
	}
	for sh, n := range o.FSRegs {
		r.Count("structure_registrations_"+sh, n)
	}
	if o.FSReq > 0 {
		r.Count("structure_histories", 1)
		r.Count("structure_requests", o.FSReq)
		r.Count("structure_answers_served", o.FSServed)
		r.Count("structure_answers_unimplemented", o.FSUnrouted)
	}
	for _, s := range o.States {
		r.Distinct(s)
	}
	for _, s := range o.Incon {
		r.Count("inconclusive_observations", 1)
		r.Inconclusive(h.String() + ": " + s)
	}
}

// known looks for a known minimal failing history of the observable that is
// a subsequence of p (under the b1/b2 symmetry); the shortest, then the
// lexicographically first, wins.
func (g *engine) known(p History, obs string) History {
	var best History
	for _, m := range g.minimal[obs] {
		hit := false
		for _, v := range p.variants() {
			hit = hit || subseq(m, v)
		}
		if hit {
			if best == nil || len(m) < len(best) || (len(m) == len(best) && m.String() < best.String()) {
				best = m
			}
		}
	}
	return best
}

// failsWith re-runs a history (more draws, to make random picks unlikely to
// hide a stale handler) and reports whether the observable shows up, and at
// which prefix.
func (g *engine) failsWith(h History, obs string) (History, bool) {
	// what larking does with a multi-file back-end depends on the order in
	// which it happens to visit the files: several attempts
	tries := 1
	if isStructure(h) {
		tries = 12
	}
	for t := 0; t < tries; t++ {
		o := g.workers[0].Run(h, 18)
		g.r.Count("minimisation_reruns", 1)
		for _, f := range o.Failures {
			if f.Obs == obs {
				return h[:f.Step+1], true
			}
		}
	}
	return nil, false
}

// minimise greedily deletes operations while the observable persists.
func (g *engine) minimise(p History, obs string) History {
	cur := p
	for changed := true; changed; {
		changed = false
		for i := 0; i < len(cur); i++ {
			cand := append(append(History{}, cur[:i]...), cur[i+1:]...)
			if len(cand) == 0 {
				continue
			}
			if q, ok := g.failsWith(cand, obs); ok {
				cur, changed = q, true
				break
			}
		}
	}
	return cur
}

// attribute turns the failures of a history into violations keyed by a
// minimal failing history: a known minimal failing history of the observable
// that is a subsequence of the failing prefix, else the result of minimising
// the prefix by re-execution (which also makes the key independent of a
// shorter history having escaped detection by an unlucky series of random
// handler picks).
func (g *engine) attribute(h History, o *Outcome, draws int) {
	for _, f := range o.Failures {
		p := h[:f.Step+1]
		id := p.String() + "|" + f.Obs
		if g.done[id] {
			continue
		}
		g.done[id] = true
		m := g.known(p, f.Obs)
		if m == nil {
			m = p
			if len(p) > 1 {
				m = g.minimise(p, f.Obs)
			}
			m = m.Canon()
			if k := g.known(m, f.Obs); k != nil {
				m = k
			} else {
				g.minimal[f.Obs] = append(g.minimal[f.Obs], m)
			}
		}
		key := m.String() + ":" + f.Obs
		g.r.Violate(key, fmt.Sprintf("%s [history %s, step %d]", f.What, h, f.Step+1),
			Case{History: p, Minimal: m, Draws: draws, Failure: f, States: o.States, All: o.Failures})
	}
}

// sameTargetOps: two connections to one back-end (equal target string, equal
// descriptors) are still two registrations.
var sameTargetOps = []Op{{"RegConn", "b3"}, {"RegConn", "b3x"}, {"DropConn", "b3"}, {"DropConn", "b3x"}, {"DropConn", "unknown"}}

// skewOps: b4 serves a newer revision of service A than b1 and the local
// service (one more binding).
var skewOps = []Op{{"RegConn", "b1"}, {"RegConn", "b4"}, {"DropConn", "b1"}, {"DropConn", "b4"}, {"RegLocal", ""}}

// revOps: the worker's own back-end bd (two services in one file) is
// redeployed with other revisions between registrations: a refresh must pick
// up a valid new revision and refuse an invalid one without side effects.
var revOps = []Op{{"RegConn", "bd"}, {"DropConn", "bd"}, {"Rev", "2"}, {"Rev", "1"}, {"Rev", "bad"}}

// revOps2 adds a replica bd2 of bd that stays on revision 1.
var revOps2 = append(append([]Op{}, revOps...), Op{"RegConn", "bd2"}, Op{"DropConn", "bd2"})

// halfOps: bh implements (and advertises) only one of the two services its
// proto file declares; bd2 implements both.
var halfOps = []Op{{"RegConn", "bh"}, {"DropConn", "bh"}, {"RegConn", "bd2"}, {"DropConn", "bd2"}}

// killOps: the back-end bt goes down while registered.
var killOps = []Op{{"RegConn", "bt"}, {"DropConn", "bt"}, {"Kill", "bt"}}

// listOps: bd starts / stops advertising its second service D2 (declared in
// the same file, whose bytes do not change): after a refresh with everything
// advertised both services must be served.
var listOps = []Op{{"RegConn", "bd"}, {"DropConn", "bd"}, {"List", "d1"}, {"List", "all"}, {"Rev", "2"}}

// listBadOps: the listed set and the invalid revision together.
var listBadOps = []Op{{"RegConn", "bd"}, {"DropConn", "bd"}, {"List", "d1"}, {"List", "all"}, {"Rev", "bad"}, {"Rev", "1"}}

// pOps: bp serves two same-named services of prefix-related packages.
var pOps = []Op{{"RegConn", "bp"}, {"DropConn", "bp"}, {"RegConn", "b3"}, {"DropConn", "b3"}}

var extOps = append(append(append([]Op{{"RegConn", "fdiamond"}, {"DropConn", "fdiamond"}, {"RegConn", "fmixed"}, {"DropConn", "fmixed"}, {"List", "d1"}, {"List", "all"}, {"RegConn", "bh"}, {"DropConn", "bh"}, {"RegConn", "bp"}, {"DropConn", "bp"}}, revOps2...), allOps...), Op{"RegConn", "b3x"}, Op{"DropConn", "b3x"}, Op{"RegConn", "b4"}, Op{"DropConn", "b4"})

func randomHistory(rng *rand.Rand, minLen, maxLen int) History {
	n := minLen + rng.Intn(maxLen-minLen+1)
	h := make(History, n)
	for i := range h {
		h[i] = extOps[rng.Intn(len(extOps))]
	}
	return h
}

func setup(r *mon.Run) {
	r.Rule = "Histories over {RegLocal, RegConn(b1|b2|b3|bc), DropConn(b1|b2|b3|bc|unknown)}: b1,b2 serve service A (also served locally), b3 service B, " +
		"bc service C whose rule collides with A (registration error path). Exhaustive up to a length, random beyond. After every step every method is requested " +
		"over HTTP (every binding - path variable, body, implicit - at least twice, at least 6 requests) and 6x over gRPC; the answering tag must be live in the sequential model, Unimplemented/NotFound iff " +
		"none is live; return values of RegisterConn/DropConn are compared with the model. distinct = (operation kind, model state after the step). " +
		"File-structure lane: back-ends whose listed services are spread over several .proto files that import one another (pair, chain, diamond, siblings beside a shared type file, " +
		"a mix with a standalone file, an imported file whose own service the back-end does not implement; two of them with a replica) are registered, re-registered and dropped many times " +
		"on fresh muxes and within one mux (the order in which the front visits files and services is not fixed); after every step every service the shape's files declare is requested: " +
		"bindings with path variables, the implicit binding and gRPC."
	r.Floor = 30
	r.Assume("the tag stamped into a reply identifies the back-end that served the request")
	r.Assume("a registration may be refused only if a provider of the colliding service was registered earlier in the history; a refused registration leaves the model unchanged")
	r.Assume("HTTP 404/501 and gRPC Unimplemented/NotFound are the 'unimplemented' answers")
}

func newEngine(r *mon.Run, nworkers int) (*engine, error) {
	env, err := NewEnv()
	if err != nil {
		return nil, err
	}
	g := &engine{r: r, env: env, minimal: map[string][]History{}, done: map[string]bool{}}
	for i := 0; i < nworkers; i++ {
		w, err := NewWorker(env)
		if err != nil {
			g.close()
			return nil, err
		}
		g.workers = append(g.workers, w)
	}
	return g, nil
}

func (g *engine) close() {
	for _, w := range g.workers {
		w.Close()
	}
	g.env.Close()
}

const Draws = 6

// RunC11 runs the tier's histories.
func RunC11(r *mon.Run) {
	setup(r)
	g, err := newEngine(r, 16)
	if err != nil {
		r.Inconclusive("cannot start back-ends / fronts: " + err.Error())
		return
	}
	defer g.close()

	// exhaustive part, breadth first: all operations up to fullLen, core
	// operations up to coreLen.
	fullLen, coreLen := 3, 3
	nRandom, rMin, rMax := 200, 4, 8
	if r.Thorough() {
		fullLen, coreLen = 4, 5
		nRandom, rMin, rMax = 5000, 4, 12
	}
	total := 0
	for L := 1; L <= coreLen; L++ {
		ops := coreOps
		if L <= fullLen {
			ops = allOps
		}
		hs := enumerate(ops, L)
		total += len(hs)
		outs := g.runAll(hs, Draws)
		for i, h := range hs {
			g.account(h, outs[i])
			g.attribute(h, outs[i], Draws)
		}
	}
	extLen := 3
	if r.Thorough() {
		extLen = 5
	}
	for L := 1; L <= extLen; L++ {
		hs := enumerate(skewOps, L)
		total += len(hs)
		outs := g.runAll(hs, Draws)
		for i, h := range hs {
			g.account(h, outs[i])
			g.attribute(h, outs[i], Draws)
		}
	}
	for L := 2; L <= extLen+1; L++ {
		hs := enumerate(revOps, L)
		// only histories that register bd at least once after a switch
		var keep []History
		for _, h := range hs {
			sw := false
			ok := false
			for _, o := range h {
				if o.K == "Rev" {
					sw = true
				} else if o.K == "RegConn" && sw {
					ok = true
				}
			}
			if ok {
				keep = append(keep, h)
			}
		}
		total += len(keep)
		outs := g.runAll(keep, Draws)
		for i, h := range keep {
			g.account(h, outs[i])
			g.attribute(h, outs[i], Draws)
		}
	}
	for L := 2; L <= extLen+1; L++ {
		var keep []History
		for _, h := range enumerate(listOps, L) {
			if h[0].K == "List" && h[0].B == "d1" {
				keep = append(keep, h)
			}
		}
		total += len(keep)
		outs := g.runAll(keep, Draws)
		for i, h := range keep {
			g.account(h, outs[i])
			g.attribute(h, outs[i], Draws)
		}
	}
	// the invalid revision while only D1 is listed: the flaw sits on D2,
	// which the back-end then does not offer - its registration is valid
	for L := 3; L <= 4; L++ {
		var keep []History
		for _, h := range enumerate(listBadOps, L) {
			nl, nb, nr := 0, 0, 0
			for _, o := range h {
				switch {
				case o.K == "List":
					nl++
				case o.K == "Rev":
					nb++
				case o.K == "RegConn" && o.B == "bd":
					nr++
				}
			}
			if nl >= 1 && nb >= 1 && nr >= 1 {
				keep = append(keep, h)
			}
		}
		total += len(keep)
		outs := g.runAll(keep, Draws)
		for i, h := range keep {
			g.account(h, outs[i])
			g.attribute(h, outs[i], Draws)
		}
	}
	for L := 1; L <= 3; L++ {
		hs := enumerate(pOps, L)
		total += len(hs)
		outs := g.runAll(hs, Draws)
		for i, h := range hs {
			g.account(h, outs[i])
			g.attribute(h, outs[i], Draws)
		}
	}
	for L := 1; L <= 4; L++ {
		hs := enumerate(halfOps, L)
		total += len(hs)
		outs := g.runAll(hs, Draws)
		for i, h := range hs {
			g.account(h, outs[i])
			g.attribute(h, outs[i], Draws)
		}
	}
	for L := 2; L <= 4; L++ {
		var keep []History
		for _, h := range enumerate(killOps, L) {
			reg := false
			ok := false
			for _, o := range h {
				if o.K == "RegConn" {
					reg = true
				} else if o.K == "Kill" && reg {
					ok = true
				}
			}
			if ok {
				keep = append(keep, h)
			}
		}
		total += len(keep)
		outs := g.runAll(keep, Draws)
		for i, h := range keep {
			g.account(h, outs[i])
			g.attribute(h, outs[i], Draws)
		}
	}
	// both replicas registered, then every sequence over them and the
	// revision switches
	for L := 1; L <= extLen; L++ {
		var hs []History
		for _, t := range enumerate(revOps2, L) {
			hs = append(hs, append(History{{"RegConn", "bd"}, {"RegConn", "bd2"}}, t...))
		}
		total += len(hs)
		outs := g.runAll(hs, Draws)
		for i, h := range hs {
			g.account(h, outs[i])
			g.attribute(h, outs[i], Draws)
		}
	}
	for L := 2; L <= extLen; L++ {
		hs := enumerate(sameTargetOps, L)
		total += len(hs)
		outs := g.runAll(hs, Draws)
		for i, h := range hs {
			g.account(h, outs[i])
			g.attribute(h, outs[i], Draws)
		}
	}
	r.Set("exhaustive_histories", total)
	g.structureLane()

	rng := r.Rand("c11-random-histories")
	var hs []History
	for i := 0; i < nRandom; i++ {
		hs = append(hs, randomHistory(rng, rMin, rMax))
	}
	outs := g.runAll(hs, Draws)
	for i, h := range hs {
		g.account(h, outs[i])
		g.attribute(h, outs[i], Draws)
	}
	r.Set("random_histories", len(hs))
	var mins []string
	for obs, l := range g.minimal {
		for _, m := range l {
			mins = append(mins, m.String()+":"+obs)
		}
	}
	sort.Strings(mins)
	if len(mins) > 0 {
		r.Set("minimal_failing_histories", mins)
	}
	for _, h := range hs[:min(3, len(hs))] {
		r.Sample(map[string]any{"history": h.String()})
	}
}

// structureLane: the file-structure dimension (structure.go). Every shape's
// histories are run `rounds` times: larking's visiting order of the files of
// one reflection conversation differs from registration to registration.
func (g *engine) structureLane() {
	r := g.r
	rounds := 16
	if r.Thorough() {
		rounds = 200
	}
	var hs []History
	var dr []int
	for k := range fsShapes {
		for _, h := range structureHistories(&fsShapes[k]) {
			d := 3
			for _, o := range h {
				if o.B != h[0].B {
					d = Draws // two providers: the random pick among handlers
				}
			}
			n := rounds
			if d == Draws {
				n = max(2, rounds/8) // (many histories of this kind per shape)
			}
			for i := 0; i < n; i++ {
				hs = append(hs, h)
				dr = append(dr, d)
			}
		}
	}
	outs := make([]*Outcome, len(hs))
	ch := make(chan int)
	var wg sync.WaitGroup
	for _, w := range g.workers {
		wg.Add(1)
		go func(w *Worker) {
			defer wg.Done()
			for i := range ch {
				outs[i] = w.Run(hs[i], dr[i])
			}
		}(w)
	}
	for i := range hs {
		ch <- i
	}
	close(ch)
	wg.Wait()
	// shortest histories first: the finding key is the minimal history
	for L := 1; L <= 7; L++ {
		for i, h := range hs {
			if len(h) == L {
				g.account(h, outs[i])
				g.attribute(h, outs[i], dr[i])
			}
		}
	}
	// what the back-ends saw: reflection conversations and the distinct
	// orders in which the front asked for the shape's own files by name
	orders := map[string][]string{}
	for k := range fsShapes {
		s := &fsShapes[k]
		for _, p := range s.providers() {
			o, n := g.env.FS[p].fetchOrders()
			r.Count("structure_reflection_conversations", n)
			orders[p] = o
			r.Count("structure_distinct_dependency_fetch_orders_"+p, len(o))
		}
	}
	r.Set("structure_dependency_fetch_orders", orders)
	r.Set("structure_rounds", rounds)
	r.Sample(map[string]any{"history": hs[len(hs)-1].String(), "lane": "file-structure"})
}

// Replay re-runs one history.
func Replay(r *mon.Run, raw json.RawMessage) {
	setup(r)
	var c Case
	if err := json.Unmarshal(raw, &c); err != nil || len(c.History) == 0 {
		r.Inconclusive(fmt.Sprintf("replay: no history in case (%v)", err))
		return
	}
	g, err := newEngine(r, 1)
	if err != nil {
		r.Inconclusive("cannot start back-ends / fronts: " + err.Error())
		return
	}
	defer g.close()
	if c.Draws == 0 {
		c.Draws = Draws
	}
	o := g.workers[0].Run(c.History, 3*c.Draws)
	for t := 0; t < 40 && len(o.Failures) == 0 && isStructure(c.History); t++ {
		// depends on the order in which the front visits the back-end's files
		o = g.workers[0].Run(c.History, 3*c.Draws)
	}
	g.account(c.History, o)
	fmt.Printf("replayed history %s: model states %v\n", c.History, o.States)
	for _, f := range o.Failures {
		fmt.Printf("  step %d %s: %s\n", f.Step+1, f.Obs, f.What)
		m := c.History[:f.Step+1].Canon()
		for _, v := range m.variants() {
			if len(c.Minimal) > 0 && subseq(c.Minimal, v) {
				m = c.Minimal
				break
			}
		}
		r.Violate(m.String()+":"+f.Obs, f.What, Case{History: c.History[:f.Step+1], Minimal: m, Draws: c.Draws, Failure: f, States: o.States})
	}
}
