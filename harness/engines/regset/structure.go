package regset

// File-structure dimension of C11: what a back-end serves is spread over
// several .proto files that import one another. A shape is a small import
// graph (service file importing another service file, chains, diamonds,
// service files beside a shared type-only file, a file whose own service the
// back-end does not implement). The order in which larking visits the files
// and services of one reflection conversation is not fixed (Go map
// iteration), so every shape is registered and dropped MANY times, on fresh
// muxes and within one mux: after every successful RegisterConn every service
// the back-end lists must be served, after DropConn none.

import (
	"fmt"
	"net"
	"sort"
	"strings"
	"sync"

	"google.golang.org/grpc"
	"google.golang.org/grpc/credentials/insecure"
	"google.golang.org/grpc/reflection"
	rpb "google.golang.org/grpc/reflection/grpc_reflection_v1alpha"
	"google.golang.org/protobuf/reflect/protodesc"
	"google.golang.org/protobuf/reflect/protoreflect"
	"google.golang.org/protobuf/reflect/protoregistry"
	"google.golang.org/protobuf/types/descriptorpb"

	be "verif/internal/backend"
	"verif/internal/vschema"
)

// fsFile is one .proto file of a shape.
type fsFile struct {
	Name    string // short name; path vf/fs/<shape>/<name>.proto
	Imports []int  // indices of earlier files of the shape
	Svc     bool   // declares service <Name> (method Get)
	// Unserved: the file declares the service, the back-end neither
	// implements nor lists it
	Unserved bool
}

type fsShape struct {
	Name  string
	Files []fsFile
	// Replica: a second back-end (provider f<shape>2) serves the same files
	Replica bool
}

var fsShapes = []fsShape{
	// a service file importing another service file
	{Name: "pair", Replica: true, Files: []fsFile{{Name: "base", Svc: true}, {Name: "ext", Svc: true, Imports: []int{0}}}},
	// a chain of imports, a service in every file
	{Name: "chain", Files: []fsFile{{Name: "c1", Svc: true}, {Name: "c2", Svc: true, Imports: []int{0}}, {Name: "c3", Svc: true, Imports: []int{1}}}},
	// a diamond of imports, a service in every file
	{Name: "diamond", Replica: true, Files: []fsFile{{Name: "base", Svc: true}, {Name: "left", Svc: true, Imports: []int{0}}, {Name: "right", Svc: true, Imports: []int{0}}, {Name: "top", Svc: true, Imports: []int{1, 2}}}},
	// sibling service files beside a shared type-only file
	{Name: "shared", Files: []fsFile{{Name: "types"}, {Name: "s1", Svc: true, Imports: []int{0}}, {Name: "s2", Svc: true, Imports: []int{0}}}},
	// everything at once, plus a file that stands alone
	{Name: "mixed", Files: []fsFile{{Name: "types"}, {Name: "base", Svc: true, Imports: []int{0}}, {Name: "ext", Svc: true, Imports: []int{1, 0}}, {Name: "solo", Svc: true}}},
	// the imported file declares a service this back-end does not implement
	{Name: "implonly", Files: []fsFile{{Name: "base", Svc: true, Unserved: true}, {Name: "ext", Svc: true, Imports: []int{0}}}},
}

func (s *fsShape) path(i int) string { return "vf/fs/" + s.Name + "/" + s.Files[i].Name + ".proto" }
func (s *fsShape) pkg() string       { return "vf.fs." + s.Name }
func (s *fsShape) svcName(i int) string {
	n := s.Files[i].Name
	return strings.ToUpper(n[:1]) + n[1:]
}
func (s *fsShape) full(i int) string   { return "/" + s.pkg() + "." + s.svcName(i) + "/Get" }
func (s *fsShape) msg(i int) string    { return "M" + s.svcName(i) }
func (s *fsShape) svcKey(i int) string { return "fs:" + s.Name + ":" + s.Files[i].Name }

// providers of the shape's served services
func (s *fsShape) providers() []string {
	p := []string{"f" + s.Name}
	if s.Replica {
		p = append(p, "f"+s.Name+"2")
	}
	return p
}

// role classifies a service by the place of its file in the import graph of
// the files the back-end serves (the structural class of a finding).
func (s *fsShape) role(i int) string {
	served := func(j int) bool { return s.Files[j].Svc && !s.Files[j].Unserved }
	if s.Files[i].Unserved {
		return "unserved-service-of-imported-file"
	}
	importsSvc, importsUnserved, importsTypes := false, false, false
	for _, j := range s.Files[i].Imports {
		switch {
		case served(j):
			importsSvc = true
		case s.Files[j].Svc:
			importsUnserved = true
		default:
			importsTypes = true
		}
	}
	imported := false
	for k := range s.Files {
		if !served(k) {
			continue
		}
		for _, j := range s.Files[k].Imports {
			if j == i {
				imported = true
			}
		}
	}
	switch {
	case importsSvc && imported:
		return "file-imports-and-is-imported-by-service-files"
	case imported:
		return "file-imported-by-service-file"
	case importsSvc:
		return "file-imports-service-file"
	case importsUnserved:
		return "file-imports-file-of-unserved-service"
	case importsTypes:
		return "file-beside-shared-type-file"
	}
	return "standalone-file-of-multi-file-backend"
}

// protos renders the shape's files. Every file declares a message; the message
// of a file refers to the messages of all its imports; the request type of a
// file's service is the message of its FIRST import (its own without imports).
func (s *fsShape) protos() []*descriptorpb.FileDescriptorProto {
	var out []*descriptorpb.FileDescriptorProto
	for i, f := range s.Files {
		name := s.msg(i)
		m := &descriptorpb.DescriptorProto{Name: &name}
		m.Field = append(m.Field, vschema.StrField("a", 1), vschema.StrField("b", 2), vschema.I64Field("n", 3))
		for k, j := range f.Imports {
			m.Field = append(m.Field, vschema.MsgField(fmt.Sprintf("ref%d", k), int32(10+k), s.pkg()+"."+s.msg(j)))
		}
		vf := &vschema.File{Path: s.path(i), Pkg: s.pkg(), Messages: []*descriptorpb.DescriptorProto{m}}
		in := s.pkg() + "." + name
		if len(f.Imports) > 0 {
			in = s.pkg() + "." + s.msg(f.Imports[0])
		}
		if f.Svc {
			base := "/fs/" + s.Name + "/" + f.Name
			vf.Services = []vschema.Service{{Name: s.svcName(i), Methods: []vschema.Method{
				{Name: "Get", In: "vf.Rsp", Out: "vf.Rsp", Rule: with(get(base+"/{a}"), get(base+"/{a}/n/{n}"))},
			}}}
		}
		fdp := vf.Proto()
		if f.Svc {
			// (vschema only knows the harness's and the global types: the
			// request type is set here)
			fdp.Service[0].Method[0].InputType = sp("." + in)
		}
		if !f.Svc {
			fdp.Dependency = nil // a type-only file needs nothing but its imports
		}
		for _, j := range f.Imports {
			fdp.Dependency = append(fdp.Dependency, s.path(j))
		}
		out = append(out, fdp)
	}
	return out
}

func sp(s string) *string { return &s }

// fsResolver: the shape's own files, then the harness types and the global
// registry.
type fsResolver struct {
	own *protoregistry.Files
}

func (r fsResolver) FindFileByPath(p string) (protoreflect.FileDescriptor, error) {
	if fd, err := r.own.FindFileByPath(p); err == nil {
		return fd, nil
	}
	return be.Resolver{}.FindFileByPath(p)
}

func (r fsResolver) FindDescriptorByName(n protoreflect.FullName) (protoreflect.Descriptor, error) {
	if d, err := r.own.FindDescriptorByName(n); err == nil {
		return d, nil
	}
	return be.Resolver{}.FindDescriptorByName(n)
}

func (s *fsShape) build() ([]protoreflect.FileDescriptor, fsResolver, error) {
	res := fsResolver{own: &protoregistry.Files{}}
	var fds []protoreflect.FileDescriptor
	for _, fdp := range s.protos() {
		fd, err := protodesc.NewFile(fdp, res)
		if err != nil {
			return nil, res, fmt.Errorf("shape %s, %s: %w", s.Name, fdp.GetName(), err)
		}
		if err := res.own.RegisterFile(fd); err != nil {
			return nil, res, err
		}
		fds = append(fds, fd)
	}
	return fds, res, nil
}

// ------------------------------------------------------------ back-end

// fsBackend serves the services of one shape and records, per reflection
// stream (= per RegisterConn), in which order the shape's own files were
// asked for by name (the dependency fetches of the front): the evidence that
// registrations visited the files in different orders.
type fsBackend struct {
	name  string
	shape *fsShape
	gs    *grpc.Server
	lis   net.Listener
	CC    *grpc.ClientConn

	mu      sync.Mutex
	orders  map[string]int
	streams int
}

type recRefl struct {
	rpb.ServerReflectionServer
	b *fsBackend
}

type recStream struct {
	rpb.ServerReflection_ServerReflectionInfoServer
	b   *fsBackend
	seq []string
}

func (s *recStream) Recv() (*rpb.ServerReflectionRequest, error) {
	m, err := s.ServerReflection_ServerReflectionInfoServer.Recv()
	if err == nil {
		if f := m.GetFileByFilename(); strings.HasPrefix(f, "vf/fs/") {
			s.seq = append(s.seq, strings.TrimSuffix(f[strings.LastIndex(f, "/")+1:], ".proto"))
		}
	}
	return m, err
}

func (r recRefl) ServerReflectionInfo(st rpb.ServerReflection_ServerReflectionInfoServer) error {
	rs := &recStream{ServerReflection_ServerReflectionInfoServer: st, b: r.b}
	err := r.ServerReflectionServer.ServerReflectionInfo(rs)
	r.b.mu.Lock()
	r.b.streams++
	r.b.orders[strings.Join(rs.seq, ">")]++
	r.b.mu.Unlock()
	return err
}

func startFS(name string, s *fsShape) (*fsBackend, error) {
	fds, res, err := s.build()
	if err != nil {
		return nil, err
	}
	lis, err := net.Listen("tcp", "127.0.0.1:0")
	if err != nil {
		return nil, err
	}
	b := &fsBackend{name: name, shape: s, gs: grpc.NewServer(), lis: lis, orders: map[string]int{}}
	for i, f := range s.Files {
		if f.Svc && !f.Unserved {
			b.gs.RegisterService(vschema.ServiceDesc(fds[i].Services().Get(0), tagged{name}), struct{}{})
		}
	}
	rs := reflection.NewServer(reflection.ServerOptions{
		Services:           b.gs,
		DescriptorResolver: res,
		ExtensionResolver:  protoregistry.GlobalTypes,
	})
	rpb.RegisterServerReflectionServer(b.gs, recRefl{rs, b})
	go b.gs.Serve(lis) //nolint:errcheck
	if b.CC, err = grpc.NewClient("passthrough:///"+lis.Addr().String(), grpc.WithTransportCredentials(insecure.NewCredentials())); err != nil {
		b.Close()
		return nil, fmt.Errorf("dial backend %s: %w", name, err)
	}
	return b, nil
}

func (b *fsBackend) Close() {
	if b.CC != nil {
		b.CC.Close()
	}
	b.gs.Stop()
	b.lis.Close()
}

// fetchOrders: distinct dependency-fetch sequences seen, and streams served.
func (b *fsBackend) fetchOrders() (orders []string, streams int) {
	b.mu.Lock()
	defer b.mu.Unlock()
	for o := range b.orders {
		if o != "" {
			orders = append(orders, o)
		}
	}
	sort.Strings(orders)
	return orders, b.streams
}

// ------------------------------------------------- methods and requests

// methodRef is one method the histories request.
type methodRef struct{ full, svc string }

var (
	fsMethods = map[string][]methodRef{} // shape -> its methods
	fsProv    = map[string][]string{}    // service key -> providers
	fsRole    = map[string]string{}      // service key -> role of its file
	fsOf      = map[string]*fsShape{}    // provider -> shape
)

func init() {
	for k := range fsShapes {
		s := &fsShapes[k]
		for _, p := range s.providers() {
			fsOf[p] = s
		}
		for i, f := range s.Files {
			if !f.Svc {
				continue
			}
			key := s.svcKey(i)
			fsMethods[s.Name] = append(fsMethods[s.Name], methodRef{s.full(i), key})
			fsRole[key] = s.role(i)
			if !f.Unserved {
				fsProv[key] = s.providers()
			}
			base := "/fs/" + s.Name + "/" + f.Name
			httpSpecs[s.full(i)] = []reqSpec{
				{Verb: "GET", Path: base + "/k1", Binding: "var", Want: []string{"a=k1"}},
				{Verb: "POST", Path: s.full(i), Body: `{"a":"k2","n":"4"}`, Binding: "implicit", Want: []string{"a=k2", "n=4"}},
				{Verb: "GET", Path: base + "/k3/n/7?b=q", Binding: "var", Want: []string{"a=k3", "b=q", "n=7"}},
			}
		}
	}
}

// methodsFor: the methods requested after every step of a history. Histories
// that only operate on multi-file back-ends request the methods of the shapes
// they mention; histories that mix both kinds request both sets.
func methodsFor(h History) (ms []methodRef, baseLane bool) {
	seen := map[string]bool{}
	var shapes []string
	for _, o := range h {
		if s := fsOf[o.B]; s != nil && (o.K == "RegConn" || o.K == "DropConn") {
			if !seen[s.Name] {
				seen[s.Name] = true
				shapes = append(shapes, s.Name)
			}
		} else {
			baseLane = true
		}
	}
	if baseLane || len(shapes) == 0 {
		baseLane = true
		ms = append(ms, methods...)
	}
	for _, s := range shapes {
		ms = append(ms, fsMethods[s]...)
	}
	return ms, baseLane
}

func isStructure(h History) bool {
	for _, o := range h {
		if fsOf[o.B] != nil {
			return true
		}
	}
	return false
}

// structureHistories: per shape, registrations on fresh muxes and repeated
// registrations within one mux; with a replica, every history over the two
// providers up to length 3.
func structureHistories(s *fsShape) []History {
	p := s.providers()[0]
	reg, drop := Op{"RegConn", p}, Op{"DropConn", p}
	hs := []History{{reg}, {reg, drop}, {reg, reg}, {reg, drop, reg}, {reg, drop, reg, drop, reg, drop, reg}}
	if s.Replica {
		q := s.providers()[1]
		ops := []Op{reg, drop, {"RegConn", q}, {"DropConn", q}}
		for L := 2; L <= 3; L++ {
			for _, h := range enumerate(ops, L) {
				n := 0
				for _, o := range h {
					if o.K == "RegConn" {
						n++
					}
				}
				if n >= 2 {
					hs = append(hs, h)
				}
			}
		}
	}
	return hs
}
