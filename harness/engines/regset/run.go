package regset

import (
	"bytes"
	"context"
	"encoding/json"
	"fmt"
	"io"
	"net/http"
	"sort"
	"strings"
	"time"

	"google.golang.org/grpc"
	"google.golang.org/grpc/codes"
	"google.golang.org/grpc/status"
	"google.golang.org/protobuf/reflect/protoreflect"
	"larking.io/larking"

	"verif/internal/mon"
	"verif/internal/vschema"
)

// Op is one operation of a history.
type Op struct {
	K string `json:"k"`           // RegLocal | RegConn | DropConn
	B string `json:"b,omitempty"` // b1 b2 b3 bc unknown
}

func (o Op) String() string {
	if o.K == "RegLocal" {
		return "RegLocal"
	}
	return o.K + "(" + o.B + ")"
}

type History []Op

func (h History) String() string {
	var s []string
	for _, o := range h {
		s = append(s, o.String())
	}
	return strings.Join(s, ";")
}

// swapped swaps the two symmetric back-ends b1 and b2.
func (h History) swapped() History {
	out := make(History, len(h))
	for i, o := range h {
		switch o.B {
		case "b1":
			o.B = "b2"
		case "b2":
			o.B = "b1"
		}
		out[i] = o
	}
	return out
}

// swappedF swaps every multi-file back-end that has a replica with its
// replica (f<shape> <-> f<shape>2): the two serve the same files.
func (h History) swappedF() History {
	out := make(History, len(h))
	for i, o := range h {
		if s := fsOf[o.B]; s != nil && s.Replica {
			if o.B == s.providers()[0] {
				o.B = s.providers()[1]
			} else {
				o.B = s.providers()[0]
			}
		}
		out[i] = o
	}
	return out
}

// variants: the history under the symmetries of the providers.
func (h History) variants() []History {
	return []History{h, h.swapped(), h.swappedF(), h.swapped().swappedF()}
}

// Canon renames b1/b2, and the replicas of multi-file back-ends, by first
// appearance.
func (h History) Canon() History {
	for _, o := range h {
		if o.B == "b1" {
			break
		}
		if o.B == "b2" {
			h = h.swapped()
			break
		}
	}
	for _, o := range h {
		if s := fsOf[o.B]; s != nil && s.Replica {
			if o.B != s.providers()[0] {
				h = h.swappedF()
			}
			break
		}
	}
	return h
}

func subseq(m, h History) bool {
	i := 0
	for _, o := range h {
		if i < len(m) && m[i] == o {
			i++
		}
	}
	return i == len(m)
}

// ------------------------------------------------------------- model

type model struct {
	conns map[string]bool // registered connections
	ever  map[string]bool // providers registered at some point of the history
	local bool
	// bd: revision its reflection serves now, revision in effect in the mux
	// (0: not registered), and whether revision 2 was ever in effect
	bdRev, bdReg int
	bdEver2      bool
	// bd2Since2: the replica bd2 was registered at some point since revision
	// 2 was last in effect (its presence keeps the method's rules alive)
	bd2Since2 bool
	// bdList: what bd's reflection lists now ("all" | "d1"); bdRegList: what
	// it listed at its last successful registration
	bdList, bdRegList string
	btDead            bool
}

func newModel() *model {
	return &model{conns: map[string]bool{}, ever: map[string]bool{}, bdRev: 1, bdList: "all"}
}

func (m *model) live(svc string) map[string]bool {
	out := map[string]bool{}
	if strings.HasPrefix(svc, "fs:") {
		// a service of a multi-file back-end: served by the back-ends of its
		// shape that implement it
		for _, p := range fsProv[svc] {
			if m.conns[p] {
				out[p] = true
			}
		}
		return out
	}
	if svc == "D1" || svc == "D2" {
		// bd and bd2 serve both services of the file, bh only D1; bd serves
		// what its reflection listed when it was (last) registered
		for _, b := range []string{"bd", "bd2"} {
			if m.conns[b] && !(b == "bd" && svc == "D2" && m.bdRegList == "d1") {
				out[b] = true
			}
		}
		if svc == "D1" && m.conns["bh"] {
			out["bh"] = true
		}
		return out
	}
	if svc == "PI" {
		// the same-named service of the child package: bp serves both
		if m.conns["bp"] {
			out["bp"] = true
		}
		return out
	}
	if svc == "AX" {
		// the method only revision 2 of service A has: served by b4 alone
		if m.conns["b4"] {
			out["b4"] = true
		}
		return out
	}
	if svc == "A" && m.local {
		out["local"] = true
	}
	for b := range m.conns {
		if svcOf[b] == svc {
			out[tagOf(b)] = true
		}
	}
	return out
}

func (m *model) sig() string {
	var parts []string
	for _, s := range []string{"A", "B", "C", "D1", "D2", "T", "P", "PI"} {
		var t []string
		for k := range m.live(s) {
			t = append(t, k)
		}
		sort.Strings(t)
		parts = append(parts, s+"{"+strings.Join(t, ",")+"}")
	}
	if m.conns["bd"] {
		parts = append(parts, fmt.Sprintf("rev%d", m.bdReg))
	}
	var fs []string
	for p := range m.conns {
		if fsOf[p] != nil {
			fs = append(fs, p)
		}
	}
	if len(fs) > 0 {
		sort.Strings(fs)
		parts = append(parts, "FS{"+strings.Join(fs, ",")+"}")
	}
	return strings.Join(parts, "")
}

// conflictEver reports whether a provider of the service that collides with
// svc (A <-> C on /rs/x/{a}) was registered at some point: only then may a
// registration be refused.
func (m *model) conflictEver(svc string) bool {
	other := map[string]string{"A": "C", "C": "A"}[svc]
	if other == "" {
		return false
	}
	for p := range m.ever {
		if svcOf[p] == other {
			return true
		}
	}
	return false
}

// ---------------------------------------------------------- requests

type reqSpec struct {
	Method  string // full gRPC method
	Svc     string
	Verb    string
	Path    string
	Body    string
	Binding string // var | body | implicit
	// Unless names the service that also claims this path: the request is
	// only issued while the model has no live provider of it.
	Unless string
	// OnlyFrom names the provider that alone announces this binding (a
	// newer revision of the service): see Run for what is expected.
	OnlyFrom string
	// Want, when set, is what the back-end must have received (name=value
	// of every set scalar field, sorted).
	Want []string
}

var methods = []methodRef{
	{"/vf.rs.A/Get", "A"}, {"/vf.rs.A/Put", "A"}, {"/vf.rs.B/Get", "B"}, {"/vf.rs.C/Get", "C"},
	{"/vf.rs.D1/Get", "D1"}, {"/vf.rs.D2/Get", "D2"},
	{"/vf.rs.A/Extra", "AX"},
	{"/vf.rs.T/Get", "T"},
	{"/vf.rs.P/Get", "P"}, {"/vf.rs.inner.P/Get", "PI"},
}

// httpSpecs lists the HTTP requests that are requests for a method, at least
// one per binding.
var httpSpecs = map[string][]reqSpec{
	"/vf.rs.A/Get": {
		{Verb: "GET", Path: "/rs/a/k1", Binding: "var", Want: []string{"a=k1"}},
		{Verb: "GET", Path: "/rs/alt/k2/7", Binding: "var", Want: []string{"a=k2", "n=7"}},
		{Verb: "GET", Path: "/rs/ab/k9/v9", Binding: "var", Want: []string{"a=k9", "b=v9"}},
		{Verb: "GET", Path: "/rs/ab/k9/v9?n=5&b=q", Binding: "var", Want: []string{"a=k9", "b=v9", "n=5"}},
		{Verb: "POST", Path: "/rs/a", Body: `{"a":"k3","b":"w3","n":"3"}`, Binding: "body", Want: []string{"a=k3", "b=w3", "n=3"}},
		{Verb: "POST", Path: "/vf.rs.A/Get", Body: `{"a":"k4"}`, Binding: "implicit"},
		{Verb: "GET", Path: "/rs/a/k5?b=q", Binding: "var"},
		{Verb: "GET", Path: "/rs/x/k6", Binding: "var", Unless: "C"},
		{Verb: "GET", Path: "/cfg/a/k7", Binding: "config"},
		{Verb: "GET", Path: "/rs/v2/k8", Binding: "var-v2", OnlyFrom: "b4"},
		{Verb: "GET", Path: "/sv/k1/sa", Binding: "shared-var", Want: []string{"a=k1"}},
		{Verb: "GET", Path: "/sv/sh/x/pa", Binding: "shared-var", Want: []string{"a=sh/x"}},
	},
	"/vf.rs.A/Put": {
		{Verb: "POST", Path: "/rs/put", Body: `{"a":"p1"}`, Binding: "body"},
		{Verb: "POST", Path: "/vf.rs.A/Put", Body: `{"a":"p2"}`, Binding: "implicit"},
		{Verb: "POST", Path: "/cfg/put", Body: `{"a":"p3"}`, Binding: "config"},
		{Verb: "POST", Path: "/any/things", Body: `{"a":"p4"}`, Binding: "any-verb"},
		{Verb: "PUT", Path: "/any/things", Body: `{"a":"p5"}`, Binding: "any-verb"},
	},
	"/vf.rs.B/Get": {
		{Verb: "GET", Path: "/rs/b/k1", Binding: "var"},
		{Verb: "POST", Path: "/rs/b", Body: `{"a":"k2"}`, Binding: "body"},
		{Verb: "POST", Path: "/vf.rs.B/Get", Body: `{"a":"k3"}`, Binding: "implicit"},
		{Verb: "GET", Path: "/rs/b2/k4/5", Binding: "var"},
		{Verb: "GET", Path: "/cfg/b/k5", Binding: "config"},
		{Verb: "GET", Path: "/sv/k1/sb", Binding: "shared-var"},
		{Verb: "GET", Path: "/sv/sh/x/pb", Binding: "shared-var"},
		{Verb: "GET", Path: "/any/things/k6", Binding: "below-any-verb"},
	},
	"/vf.rs.T/Get": {
		{Verb: "GET", Path: "/rs/t/k1", Binding: "var"},
		{Verb: "POST", Path: "/vf.rs.T/Get", Body: `{"a":"k2"}`, Binding: "implicit"},
		{Verb: "GET", Path: "/sv/k1/st", Binding: "shared-var"},
		{Verb: "GET", Path: "/sv/sh/x/pt", Binding: "shared-var"},
		{Verb: "GET", Path: "/any/things/k6/t", Binding: "below-any-verb"},
	},
	"/vf.rs.P/Get": {
		{Verb: "GET", Path: "/rs/p/k1", Binding: "var"},
		{Verb: "POST", Path: "/vf.rs.P/Get", Body: `{"a":"k2"}`, Binding: "implicit"},
	},
	"/vf.rs.inner.P/Get": {
		{Verb: "GET", Path: "/rs/pi/k1", Binding: "var"},
		{Verb: "POST", Path: "/vf.rs.inner.P/Get", Body: `{"a":"k2"}`, Binding: "implicit"},
	},
	"/vf.rs.A/Extra": {
		{Verb: "GET", Path: "/rs/extra/k1", Binding: "var", Want: []string{"a=k1"}},
		{Verb: "POST", Path: "/vf.rs.A/Extra", Body: `{"a":"k2"}`, Binding: "implicit"},
	},
	"/vf.rs.D1/Get": {
		{Verb: "GET", Path: "/rs/d1/k1", Binding: "var"},
		{Verb: "POST", Path: "/vf.rs.D1/Get", Body: `{"a":"k2"}`, Binding: "implicit"},
		{Verb: "GET", Path: "/rs/d1v2/k3", Binding: "var-rev2", OnlyFrom: "bd-rev2"},
		{Verb: "GET", Path: "/rs/orgs/o/things/t", Binding: "var-rev2", OnlyFrom: "bd-rev2"},
		{Verb: "GET", Path: "/rs/projects/p/things/t", Binding: "var-rev2", OnlyFrom: "bd-rev2"},
		{Verb: "GET", Path: "/sv/k1/sd1", Binding: "shared-var"},
	},
	"/vf.rs.D2/Get": {
		{Verb: "GET", Path: "/rs/d2/k1", Binding: "var"},
		{Verb: "POST", Path: "/vf.rs.D2/Get", Body: `{"a":"k2"}`, Binding: "implicit"},
		{Verb: "GET", Path: "/sv/k1/sd2", Binding: "shared-var"},
		{Verb: "GET", Path: "/sv/sh/x/pd2", Binding: "shared-var"},
	},
	"/vf.rs.C/Get": {
		{Verb: "GET", Path: "/rs/c/k1", Binding: "var"},
		{Verb: "POST", Path: "/vf.rs.C/Get", Body: `{"a":"k2"}`, Binding: "implicit"},
		{Verb: "GET", Path: "/rs/c2/k3/4", Binding: "var"},
		{Verb: "GET", Path: "/rs/x/k5", Binding: "var", Unless: "A"},
		{Verb: "GET", Path: "/sv/k1/sc", Binding: "shared-var"},
		{Verb: "GET", Path: "/sv/sh/x/pc", Binding: "shared-var"},
	},
}

// answer is the classified outcome of one request.
type answer struct {
	Items  []string // what the back-end received
	Tag    string   // answering back-end ("" if none)
	Method string   // method stamped by the back-end
	Class  string   // served | unimplemented | status(<n>) | transport-error | timeout
	Detail string
}

var reqMD = vschema.Msg("vf.Req")
var rspMD = vschema.Msg("vf.Rsp")

func (w *Worker) doGRPC(full string) answer {
	ctx, cancel := context.WithTimeout(context.Background(), 10*time.Second)
	defer cancel()
	in := vschema.NewMsg(reqMD)
	in.ProtoReflect().Set(reqMD.Fields().ByName("a"), protoreflect.ValueOfString("g"))
	out := vschema.NewMsg(rspMD)
	err := w.cc.Invoke(ctx, full, in, out, grpc.WaitForReady(true))
	if err == nil {
		r := out.ProtoReflect()
		return answer{Tag: r.Get(rspMD.Fields().ByName("tag")).String(), Method: r.Get(rspMD.Fields().ByName("method")).String(), Class: "served"}
	}
	st, _ := status.FromError(err)
	switch st.Code() {
	case codes.Unimplemented, codes.NotFound:
		return answer{Class: "unimplemented", Detail: st.Message()}
	case codes.DeadlineExceeded:
		return answer{Class: "timeout", Detail: st.Message()}
	}
	return answer{Class: fmt.Sprintf("status(%s)", st.Code()), Detail: st.Message()}
}

func (w *Worker) doHTTP(s reqSpec) answer {
	ctx, cancel := context.WithTimeout(context.Background(), 10*time.Second)
	defer cancel()
	var body io.Reader
	if s.Body != "" {
		body = bytes.NewReader([]byte(s.Body))
	}
	req, err := http.NewRequestWithContext(ctx, s.Verb, w.srv.URL+s.Path, body)
	if err != nil {
		return answer{Class: "transport-error", Detail: err.Error()}
	}
	if s.Body != "" {
		req.Header.Set("Content-Type", "application/json")
	}
	req.Header.Set("Accept", "application/json")
	resp, err := w.hc.Do(req)
	if err != nil {
		if ctx.Err() != nil {
			return answer{Class: "timeout", Detail: err.Error()}
		}
		return answer{Class: "transport-error", Detail: err.Error()}
	}
	defer resp.Body.Close()
	b, _ := io.ReadAll(resp.Body)
	switch resp.StatusCode {
	case 200:
		var v struct {
			Tag    string   `json:"tag"`
			Method string   `json:"method"`
			Items  []string `json:"items"`
		}
		if err := json.Unmarshal(b, &v); err != nil {
			return answer{Class: "status(200-bad-body)", Detail: string(b)}
		}
		return answer{Tag: v.Tag, Method: v.Method, Items: v.Items, Class: "served"}
	case 404, 501:
		return answer{Class: "unimplemented", Detail: fmt.Sprintf("%d %.100s", resp.StatusCode, b)}
	}
	return answer{Class: fmt.Sprintf("status(%d)", resp.StatusCode), Detail: fmt.Sprintf("%.160s", b)}
}

// ----------------------------------------------------------- running

// Failure is one observed deviation from the model.
type Failure struct {
	Step int    `json:"step"`
	Obs  string `json:"observable"`
	What string `json:"what"`
}

// Outcome of running one history.
type Outcome struct {
	Failures []Failure
	Incon    []string
	States   []string // model signature after each step
	NReq     int
	Tags     map[string]int
	Unimpl   int
	OpErrs   int // registrations refused because of the A/C conflict (expected)
	// StaleErrs counts the refusals where the colliding provider was no
	// longer live (its rules outlived DropConn). Tolerated: the statement
	// does not oblige RegisterConn to succeed.
	StaleErrs int
	// file-structure dimension: successful registrations of multi-file
	// back-ends per shape, requests for their methods and how they ended
	FSRegs                      map[string]int
	FSReq, FSServed, FSUnrouted int
}

func (w *Worker) apply(mux *larking.Mux, op Op) (regErr error, dropped bool, pi *mon.PanicInfo) {
	timeout := 15 * time.Second
	if op.K == "RegConn" && op.B == "bt" && w.btDead {
		// nothing will answer: do not wait long for the error
		timeout = 1500 * time.Millisecond
	}
	ctx, cancel := context.WithTimeout(context.Background(), timeout)
	defer cancel()
	pi = mon.Catch(func() {
		switch op.K {
		case "RegLocal":
			regErr = larking.VerifRegisterService(mux, vschema.ServiceDesc(w.env.SD["A"], tagged{"local"}), struct{}{})
		case "RegConn":
			regErr = mux.RegisterConn(ctx, w.conn(op.B))
		case "DropConn":
			dropped = mux.DropConn(ctx, w.conn(op.B))
		case "Kill":
			// the back-end's process goes away; nobody tells the mux
			w.bt.GS.Stop()
			w.btDead = true
		case "List":
			// the back-end starts / stops advertising its second service
			// (same file, same bytes); the mux is not told
			if op.B == "d1" {
				w.bd.SetListed("vf.rs.D1")
			} else {
				w.bd.SetListed()
			}
		case "Rev":
			// the back-end is redeployed: its reflection serves another
			// revision from now on; the mux is not told
			rev := map[string]int{"1": 1, "2": 2, "bad": 3}[op.B]
			w.bd.SetFiles(w.fdD[rev])
		}
	})
	return
}

func (w *Worker) conn(name string) *grpc.ClientConn {
	if name == "bd" {
		return w.bd.CC
	}
	if name == "bd2" {
		return w.bd2.CC
	}
	if name == "bt" {
		return w.bt.CC
	}
	return w.env.conn(name)
}

// Run applies the history to a fresh Mux and checks every step. draws is the
// number of requests per method and front.
func (w *Worker) Run(h History, draws int) *Outcome {
	out := &Outcome{Tags: map[string]int{}, FSRegs: map[string]int{}}
	reqMethods, baseLane := methodsFor(h)
	seen := map[string]bool{}
	fail := func(step int, obs, f string, a ...any) {
		if seen[obs] {
			return
		}
		seen[obs] = true
		out.Failures = append(out.Failures, Failure{step, obs, fmt.Sprintf(f, a...)})
	}
	mux, err := larking.NewMux(larking.FilesOption(w.env.Files), larking.ServiceConfigOption(serviceConfig()))
	if err != nil {
		out.Incon = append(out.Incon, "NewMux: "+err.Error())
		return out
	}
	w.cur.Store(mux)
	w.takePanics()
	w.bd.SetFiles(w.fdD[1])
	w.bd.SetListed()
	if w.btDead {
		if err := w.startT(); err != nil {
			out.Incon = append(out.Incon, "restart of bt: "+err.Error())
			return out
		}
	}
	m := newModel()
	for step, op := range h {
		regErr, dropped, pi := w.apply(mux, op)
		if pi != nil {
			fail(step, "op-"+pi.Key(), "%s panicked: %s", op, pi.Value)
			// the model treats a panicking operation as not having happened
		} else {
			switch op.K {
			case "Kill":
				m.btDead = true
			case "List":
				m.bdList = op.B
			case "Rev":
				m.bdRev = map[string]int{"1": 1, "2": 2, "bad": 3}[op.B]
			case "RegLocal", "RegConn":
				prov := op.B
				if prov == "bt" && m.btDead && op.K == "RegConn" {
					// nothing answers the reflection request: an error, and
					// whatever was registered stays registered
					if regErr == nil && !m.conns["bt"] {
						fail(step, "RegConn-of-dead-backend-returned-nil", "%s returned nil although the back-end is down", op)
					}
					break
				}
				if prov == "bd" && m.bdRev == 3 && m.bdList != "d1" && op.K == "RegConn" {
					// (the invalid rule sits on D2: a back-end that lists D1
					// alone does not offer it, its registration is valid)
					// the revision on offer is invalid: refused whether the
					// connection is new or a refresh, and nothing changes
					if regErr == nil {
						fail(step, "RegConn-accepted-invalid-revision", "%s returned nil although the back-end's current revision binds an unknown field", op)
					}
					break
				}
				if op.K == "RegLocal" {
					prov = "local"
				}
				switch {
				case regErr != nil && status.Code(regErr) == codes.DeadlineExceeded:
					out.Incon = append(out.Incon, fmt.Sprintf("%s: %v", op, regErr))
				case regErr != nil && !m.conflictEver(svcOf[prov]):
					fail(step, op.K+"-error", "%s returned an error although nothing conflicting was ever registered: %v", op, regErr)
				case regErr != nil:
					out.OpErrs++ // refused because of the rule conflict: state must stay as it was
					if other := map[string]string{"A": "C", "C": "A"}[svcOf[prov]]; len(m.live(other)) == 0 {
						out.StaleErrs++ // ... although the colliding provider had been dropped
					}
				default:
					m.ever[prov] = true
					m.ever[tagOf(prov)] = true
					if prov == "bd" {
						m.bdRegList = m.bdList
						m.bdReg = m.bdRev
						if m.bdRev == 2 {
							m.bdEver2 = true
							m.bd2Since2 = m.conns["bd2"]
						}
					}
					if prov == "bd2" && m.bdEver2 {
						m.bd2Since2 = true
					}
					if sh := fsOf[prov]; sh != nil {
						out.FSRegs[sh.Name]++
					}
					if prov == "local" {
						m.local = true
					} else {
						m.conns[prov] = true
					}
				}
			case "DropConn":
				want := m.conns[op.B]
				if dropped != want {
					fail(step, fmt.Sprintf("DropConn-returned-%v", dropped), "%s returned %v, the model has the connection registered=%v", op, dropped, want)
				}
				delete(m.conns, op.B)
				if op.B == "bd" {
					m.bdReg = 0
				}
			}
		}
		out.States = append(out.States, op.K+"->"+m.sig())

		// requests after the step
		for _, md := range reqMethods {
			live := m.live(md.svc)
			// the structural class of a method of a multi-file back-end: the
			// place of its file in the import graph
			role := ""
			if r := fsRole[md.svc]; r != "" {
				role = ":service-in-" + r
			}
			if md.svc == "T" && m.conns["bt"] && m.btDead {
				// registered, never dropped, but down: the request belongs to
				// that back-end and fails there (Unavailable / 503); it must
				// not be answered as if nothing were registered
				for i := 0; i < draws; i++ {
					for _, a := range []answer{w.doHTTP(httpSpecs[md.full][i%2]), w.doGRPC(md.full)} {
						out.NReq++
						if ps := w.takePanics(); len(ps) > 0 {
							fail(step, "down:"+ps[0].Key(), "request for %s panicked inside larking: %s", md.full, ps[0].Value)
						} else if a.Class == "unimplemented" {
							fail(step, "registered-backend-down:reported-unimplemented", "request for %s answered Unimplemented/NotFound (%s) although its back-end is registered (it is merely down)", md.full, a.Detail)
						} else if a.Class == "served" {
							fail(step, "served-by-dead-backend", "request for %s was served by %q although the only registered back-end is down", md.full, a.Tag)
						}
					}
				}
				continue
			}
			check := func(front, binding string, a answer) {
				out.NReq++
				ps := w.takePanics()
				for _, p := range ps {
					fail(step, front+":"+p.Key(), "request for %s (%s %s) panicked inside larking: %s; live back-ends in the model: %v", md.full, front, binding, p.Value, keys(live))
				}
				tagFront := front
				if binding != "" {
					tagFront = front + "[" + binding + "]"
				}
				if role != "" {
					out.FSReq++
					switch a.Class {
					case "served":
						out.FSServed++
					case "unimplemented":
						out.FSUnrouted++
					}
				}
				switch a.Class {
				case "served":
					out.Tags[a.Tag]++
					if !live[a.Tag] {
						obs := "served-by-unregistered"
						if m.ever[a.Tag] {
							obs = "served-by-dropped"
						}
						fail(step, obs+role, "request for %s over %s answered by %q, live back-ends in the model: %v", md.full, tagFront, a.Tag, keys(live))
					} else if a.Method != md.full {
						fail(step, front+":wrong-method", "request for %s over %s was served as %s by %s", md.full, tagFront, a.Method, a.Tag)
					}
				case "unimplemented":
					out.Unimpl++
					if len(live) > 0 {
						fail(step, tagFront+":unimplemented-with-live-backend"+role, "request for %s over %s answered Unimplemented/NotFound (%s) while the model has live back-ends %v", md.full, tagFront, a.Detail, keys(live))
					}
				case "timeout":
					out.Incon = append(out.Incon, fmt.Sprintf("request for %s over %s timed out", md.full, tagFront))
				case "transport-error":
					if len(ps) == 0 {
						out.Incon = append(out.Incon, fmt.Sprintf("request for %s over %s: transport error without a recorded panic: %s", md.full, tagFront, a.Detail))
					}
				default:
					if len(ps) == 0 {
						fail(step, tagFront+":"+a.Class, "request for %s over %s ended with %s (%s); live back-ends in the model: %v", md.full, tagFront, a.Class, a.Detail, keys(live))
					}
				}
			}
			specs := httpSpecs[md.full]
			// every binding at least twice (a stale or foreign handler is one of
			// up to three picked at random), at least `draws` per method
			nHTTP := max(draws, draws*len(specs)/3)
			for i := 0; i < nHTTP; i++ {
				s := specs[i%len(specs)]
				if s.Unless != "" && len(m.live(s.Unless)) > 0 {
					s = specs[0] // the path is claimed by the other service: ambiguous
				}
				if s.OnlyFrom != "" {
					// a binding only the newer revision announces: it must work
					// while that provider is registered, must not exist before
					// it ever was, and is left open after it was dropped while
					// older providers remain (served by a live provider or
					// unrouted are both explained)
					a := w.doHTTP(s)
					onlyLive, onlyEver := m.conns[s.OnlyFrom], m.ever[s.OnlyFrom]
					if s.OnlyFrom == "bd-rev2" {
						onlyLive, onlyEver = m.conns["bd"] && m.bdReg == 2, m.bdEver2
					}
					// after a refresh back to revision 1 with no other
					// provider of the service registered, the binding only
					// revision 2 declares must be gone again (the refresh
					// replaces the connection's routes)
					onlyGone := s.OnlyFrom == "bd-rev2" && m.conns["bd"] && (m.bdReg == 1 || m.bdReg == 3) && !m.conns["bd2"] && m.bdEver2 && !m.bd2Since2
					switch {
					case onlyLive:
						check("http", s.Binding, a)
					case onlyGone:
						out.NReq++
						if ps := w.takePanics(); len(ps) > 0 {
							fail(step, "http:"+ps[0].Key(), "request for %s panicked inside larking: %s", s.Path, ps[0].Value)
						} else if a.Class != "unimplemented" {
							fail(step, "http["+s.Binding+"]:route-of-replaced-revision-still-served", "GET %s ended with %s (%s) although the connection was refreshed to a revision that no longer declares this binding and no other provider is registered", s.Path, a.Class, a.Detail)
						}
					case !onlyEver:
						out.NReq++
						if ps := w.takePanics(); len(ps) > 0 {
							fail(step, "http:"+ps[0].Key(), "request for %s panicked inside larking: %s", s.Path, ps[0].Value)
						} else if a.Class != "unimplemented" {
							fail(step, "http["+s.Binding+"]:route-of-never-registered-revision", "GET %s ended with %s (%s) although no provider announcing this binding was ever registered", s.Path, a.Class, a.Detail)
						}
					default:
						out.NReq++
						if ps := w.takePanics(); len(ps) > 0 {
							fail(step, "http:"+ps[0].Key(), "request for %s panicked inside larking: %s", s.Path, ps[0].Value)
						} else if a.Class == "served" && !live[a.Tag] {
							fail(step, "served-by-dropped", "request for %s over http[%s] answered by %q, live back-ends in the model: %v", md.full, s.Binding, a.Tag, keys(live))
						}
					}
					continue
				}
				ans := w.doHTTP(s)
				check("http", s.Binding, ans)
				if s.Want != nil && ans.Class == "served" && live[ans.Tag] && strings.Join(ans.Items, ",") != strings.Join(s.Want, ",") {
					fail(step, "http["+s.Binding+"]:wrong-fields-bound"+role, "%s %s was served by %s, which received %v; the request binds %v", s.Verb, s.Path, ans.Tag, ans.Items, s.Want)
				}
			}
			for i := 0; i < draws; i++ {
				check("grpc", "", w.doGRPC(md.full))
			}
		}
		// a literal binding of service B on a path that a variable binding
		// of service A covers too: B's while B has a provider, A's otherwise
		for i := 0; i < 2 && baseLane; i++ {
			a := w.doHTTP(reqSpec{Verb: "GET", Path: "/ov/lit/one", Binding: "literal-over-variable"})
			out.NReq++
			if ps := w.takePanics(); len(ps) > 0 {
				fail(step, "http:"+ps[0].Key(), "GET /ov/lit/one panicked inside larking: %s", ps[0].Value)
				continue
			}
			want, live := "", map[string]bool{}
			if lb := m.live("B"); len(lb) > 0 {
				want, live = "/vf.rs.B/Get", lb
			} else if la := m.live("A"); len(la) > 0 {
				want, live = "/vf.rs.A/Get", la
			}
			switch {
			case a.Class == "timeout":
				out.Incon = append(out.Incon, "GET /ov/lit/one timed out")
			case want == "" && a.Class == "served":
				fail(step, "served-by-dropped", "GET /ov/lit/one answered by %q although neither service has a live back-end in the model", a.Tag)
			case want != "" && a.Class == "unimplemented":
				fail(step, "http[literal-over-variable]:unimplemented-with-live-backend", "GET /ov/lit/one answered Unimplemented/NotFound (%s) while %s has live back-ends %v", a.Detail, want, keys(live))
			case want != "" && a.Class == "served" && (a.Method != want || !live[a.Tag]):
				fail(step, "http[literal-over-variable]:wrong-owner", "GET /ov/lit/one was served as %s by %q; the model expects %s from one of %v", a.Method, a.Tag, want, keys(live))
			case want != "" && a.Class != "served":
				fail(step, "http[literal-over-variable]:"+a.Class, "GET /ov/lit/one ended with %s (%s); the model expects %s from one of %v", a.Class, a.Detail, want, keys(live))
			}
		}
	}
	return out
}

func keys(m map[string]bool) []string {
	var k []string
	for s := range m {
		k = append(k, s)
	}
	sort.Strings(k)
	return k
}
