package stream

// laneCodecPairs: the codec pair of an HTTP-transcoded stream. The request
// Content-Type and the Accept header name registered codecs independently
// (JSON in / protobuf out, protobuf in / JSON out, and the two same-codec
// pairs with an explicit Accept header as controls), with and without a gzip
// request body, on methods whose request and reply message types are the
// same type (CS, SS, Bidi: Chunk -> Chunk) and on methods where they differ
// (CSX, SSX, BidiX: Chunk -> Item; Upload / UpEcho: HttpBody chunks in, Rsp /
// Chunk out), for handlers that reply after the receive phase and handlers
// that reply between receives. The oracles are the ordinary ones: the
// handler's receive log equals the sent sequence and ends cleanly, and the
// replies - decoded with the codec the RESPONSE Content-Type announces,
// whatever that is - equal the handler's send log. Which codec the mux picks
// for the replies is not judged (only counted).
func (g *gen) laneCodecPairs() {
	r := g.r
	samples := r.Pick(1, 6)
	type pair struct{ in, out string }
	pairs := []pair{{"json", "proto"}, {"proto", "json"}, {"json", "json"}, {"proto", "proto"}}
	seqs := [][]string{{"T", "T", "T"}, {"D5", "E", "X", "D40"}, {}, {"T"}}
	if r.Thorough() {
		seqs = append(seqs, []string{"E", "E"}, []string{"D300", "T", "D123", "X", "E", "T"}, []string{"X"})
	}
	type hmode struct {
		echo  bool
		emode string
		every int
	}
	for _, p := range pairs {
		for _, ce := range []string{"", "gzip"} {
			tc := tcombo{"http", p.in, ce}
			for si, kinds := range seqs {
				for _, shape := range []string{"cs", "csx", "ss", "ssx", "bidi", "bidix"} {
					modes := []hmode{{}}
					if shape == "bidi" || shape == "bidix" {
						modes = []hmode{{}, {true, "", 1}, {true, "long", 2}}
						if r.Thorough() {
							modes = append(modes, hmode{true, "short", 1}, hmode{true, "long", 1})
						}
					}
					for mi, md := range modes {
						c := &Case{T: "http", Codec: p.in, CE: ce, Accept: p.out, Shape: shape, Trunc: -1, Echo: md.echo, EchoMode: md.emode, EchoEvery: md.every}
						switch shape {
						case "cs", "csx":
							c.Msgs = g.msgs(kinds, tc, 0)
							c.Reply = [][]byte{g.msgs([]string{"T", "X", "D9", "E"}[(si+mi)%4:][:1], tc, 0)[0]}
						case "ss", "ssx":
							if len(kinds) == 0 {
								continue
							}
							c.Msgs = g.msgs(kinds[:1], tc, 0)
							if p.in == "json" && len(c.Msgs[0]) == 0 {
								continue // an empty JSON body is not a JSON message
							}
							c.Reply = g.msgs([]string{"T", "D9", "E", "X", "D130"}[:1+(si*2)%5], tc, 0)
						default:
							c.Msgs = g.msgs(kinds, tc, 0)
							if !md.echo {
								c.Reply = g.msgs([]string{"X", "E", "D40", "T"}[:(si+2)%5], tc, 0)
							}
						}
						build(c, bodyOpt{sep: []string{"", "\n"}[si%2]})
						g.sweepSchedules(c, 0, samples)
					}
				}
			}
			if p.in != p.out {
				continue
			}
			// raw uploads (the request codec is picked by the message type):
			// the reply codec is the one asked for
			for _, L := range []int{7, 64} {
				for _, n := range []int{0, 1, L, 2*L + 1} {
					for _, shape := range []string{"upload", "upbidi"} {
						c := &Case{T: "http", Codec: "httpbody", CE: ce, Accept: p.out, Shape: shape, Limit: L, Trunc: -1, Msgs: [][]byte{prf(g.rng, n)}}
						if shape == "upload" {
							c.Reply = [][]byte{{}}
						} else {
							c.Echo, c.EchoMode, c.EchoEvery = true, "long", 1
						}
						build(c, bodyOpt{})
						g.sweepSchedules(c, 0, samples)
					}
				}
			}
		}
	}

	// the same pairs over a real HTTP/1.1 socket
	defer closeClients()
	for _, p := range pairs {
		tc := tcombo{"http", p.in, ""}
		for si, shape := range []string{"cs", "csx", "ss", "ssx", "bidi", "bidix"} {
			for _, lane := range []string{"h1", "h1-chunked"} {
				if !r.Thorough() && lane == "h1-chunked" && si%2 == 0 {
					continue
				}
				c := &Case{Lane: lane, T: "http", Codec: p.in, Accept: p.out, Shape: shape, Trunc: -1, Sched: "content-length"}
				if lane == "h1-chunked" {
					c.Sched = "chunked"
					c.Cuts = g.randomCuts(64)
				}
				kinds := []string{"T", "X", "D40"}
				if shape == "ss" || shape == "ssx" {
					kinds = kinds[:1]
				}
				c.Msgs = g.msgs(kinds, tc, 0)
				c.Reply = g.msgs([]string{"D9", "E", "X"}, tc, 0)
				if shape == "cs" || shape == "csx" {
					c.Reply = c.Reply[:1]
				}
				build(c, bodyOpt{sep: "\n"})
				g.runReal(c)
			}
		}
	}
}
