package stream

import (
	"bytes"
	"fmt"
	"os"
	"strings"
	"sync"
	"time"
)

var debug = os.Getenv("VERIF_DEBUG") != ""

func (g *gen) runReal(c *Case) {
	if g.skipWebH2 && c.Lane == "h2c" && strings.HasPrefix(c.T, "grpc-web") {
		g.r.Count("skipped_grpc_web_over_h2", 1)
		return
	}
	if c.Step && g.withheldSeen[c.Lane+" "+c.prefix()] {
		// one witness per transport is enough; every further lock-step
		// case would wait for the same watchdog
		g.r.Count("skipped_lockstep_after_withheld", 1)
		return
	}
	t0 := time.Now()
	vs, outcome := g.execReal(c)
	if d := time.Since(t0); debug && d > 500*time.Millisecond {
		fmt.Fprintf(os.Stderr, "slow %v: %s %s %s frag=%d sched=%s step=%v abort=%s trunc=%d msgs=%d -> %s\n", d, c.Lane, c.prefix(), c.Shape, c.Frag, c.Sched, c.Step, c.Abort, c.Trunc, len(c.Msgs), outcome)
	}
	g.account(c, vs, outcome)
}

func (g *gen) reply(n int) []byte { return mustMarshal(mkChunk(int32(100+n), nil, "")) }

// laneReal: the same oracles over real sockets.
func (g *gen) laneReal() {
	defer closeClients()
	// gRPC-web over HTTP/2: probe once; when the mux does not even dispatch
	// such requests the remaining gRPC-web-over-h2 cases are skipped (the
	// probe's violation stands for them).
	for _, t := range []string{"grpc-web", "grpc-web-text"} {
		tc := tcombo{t, "proto", ""}
		c := &Case{Lane: "h2c", T: t, Codec: "proto", Shape: "cs", Trunc: -1, Sched: "frame-per-message", Msgs: g.msgs([]string{"T"}, tc, 0), Reply: [][]byte{g.reply(1)}}
		build(c, bodyOpt{})
		vs, outcome := g.execReal(c)
		g.account(c, vs, outcome)
		if outcome == "not-dispatched" {
			g.skipWebH2 = true
		}
	}
	g.timed("realHTTP1", g.realHTTP1)
	g.timed("realH2C", g.realH2C)
	g.timed("realGRPC", g.realGRPC)
	g.timed("realWS", g.realWS)
	g.timed("realTruncation", g.realTruncation)
	g.timed("realInterleave", g.realInterleave)
	g.timed("realServerOptions", g.realServerOptions)
	g.timed("realEncodings", g.realEncodings)
	g.timed("realAssets", func() { g.laneAssets("h1"); g.laneAssets("h2c") })
	g.timed("realDuplex", g.realDuplex)
}

// realEncodings: per-frame base64 grpc-web-text bodies and gzip streams that
// follow a call which failed in decompression, over sockets.
func (g *gen) realEncodings() {
	r := g.r
	tc := tcombo{"grpc-web-text", "proto", ""}
	for _, lane := range []string{"h1", "h1-chunked", "h2c"} {
		for si, kinds := range [][]string{{"T", "T", "E"}, {"D40", "T", "X", "D9", "E"}} {
			c := &Case{Lane: lane, T: tc.T, Codec: tc.Codec, Shape: "cs", Trunc: -1, Sched: "base64-per-frame"}
			c.Msgs = g.msgs(kinds, tc, 0)
			c.Reply = [][]byte{g.reply(len(kinds))}
			build(c, bodyOpt{b64: "per-frame"})
			if lane != "h1" && si == 1 {
				c.Cuts = g.randomCuts(len(c.Body))
			}
			g.runReal(c)
		}
	}
	// compressible client streams with gzip Content-Encoding: Content-Length
	// (h1) vs chunked vs h2 without a length
	for _, lane := range []string{"h1", "h1-chunked", "h2c"} {
		for _, tc := range []tcombo{{"http", "json", "gzip"}, {"http", "proto", "gzip"}} {
			for _, q := range []struct {
				limit int
				kinds []string
			}{{0, []string{"R3000", "T", "R3000"}}, {1000, []string{"AR", "P300", "AR"}}, {0, []string{"P2000", "D300", "E"}}} {
				c := &Case{Lane: lane, T: tc.T, Codec: tc.Codec, CE: "gzip", Shape: "cs", Limit: q.limit, Trunc: -1, Sched: "encoded-delivery"}
				c.Msgs = g.msgs(q.kinds, tc, q.limit)
				c.Reply = [][]byte{g.reply(len(q.kinds))}
				build(c, bodyOpt{})
				if lane != "h1" {
					c.Cuts = g.randomCuts(len(c.Body))
				}
				g.runReal(c)
			}
		}
		c := &Case{Lane: lane, T: "http", Codec: "httpbody", CE: "gzip", Shape: "upload", Limit: 64, Trunc: -1, Sched: "encoded-delivery", Msgs: [][]byte{bytes.Repeat([]byte{'a'}, 5000)}, Reply: [][]byte{{}}}
		build(c, bodyOpt{})
		g.runReal(c)
	}
	// HttpBody uploads / downloads of every media type over sockets
	for i, ct := range bodyTypes {
		for _, lane := range []string{"h1", "h1-chunked", "h2c"} {
			for _, mode := range []string{"httpbody", "httpbody-reader"} {
				c := &Case{Lane: lane, T: "http", Codec: mode, Shape: "upload", Limit: 64, CT: ct, Trunc: -1, Sched: "body-content-type", Msgs: [][]byte{g.rawPayload(i, 3*64+2)}, Reply: [][]byte{{}}}
				build(c, bodyOpt{})
				if lane != "h1" {
					c.Cuts = g.randomCuts(len(c.Body))
				}
				g.runReal(c)
			}
			if lane == "h1-chunked" {
				continue
			}
			for _, mode := range []string{"httpbody", "httpbody-writer"} {
				c := &Case{Lane: lane, T: "http", Codec: mode, Shape: "download", CT: ct, Trunc: -1, Msgs: [][]byte{}, Sched: "body-content-type"}
				for j, n := range []int{5, 0, 300, 7} {
					c.Reply = append(c.Reply, mustMarshal(mkBody(ct, g.rawPayload(i+j, n))))
				}
				build(c, bodyOpt{})
				g.runReal(c)
			}
		}
	}
	for round := 0; round < r.Pick(2, 10); round++ {
		for _, lane := range []string{"grpc-go", "h2c"} {
			gz := tcombo{"grpc", "gzip", ""}
			c := &Case{Lane: lane, T: "grpc", Codec: "gzip", Shape: "bidi", Echo: true, Step: true, Trunc: -1, Poison: true, Sched: "lockstep"}
			c.Msgs = g.msgs([]string{"T", "E", "X", "T", "D9", "T"}, gz, 0)
			build(c, bodyOpt{})
			g.runReal(c)
		}
	}
}

// realDuplex: genuinely full-duplex handlers: a second handler goroutine
// pushes many medium messages while the main loop receives large ones that
// span many reads; conservation both ways.
func (g *gen) realDuplex() {
	r := g.r
	nUp, nDown := r.Pick(12, 24), r.Pick(300, 600)
	type lt struct {
		lane string
		tc   tcombo
	}
	lanes := []lt{{"grpc-go", tcombo{"grpc", "proto", ""}}, {"h2c", tcombo{"grpc", "proto", ""}}, {"h2c", tcombo{"grpc-web", "proto", ""}}}
	if r.Thorough() {
		lanes = append(lanes, lt{"grpc-go", tcombo{"grpc", "gzip", ""}}, lt{"h2c", tcombo{"grpc-web-text", "proto", ""}})
	}
	for round := 0; round < r.Pick(1, 3); round++ {
		for _, l := range lanes {
			up := make([]string, nUp)
			for i := range up {
				up[i] = []string{"D262144", "D200000", "D262144", "D70000"}[i%4]
			}
			down := make([]string, nDown)
			for i := range down {
				down[i] = []string{"D6144", "D6000", "T", "D6144"}[i%4]
			}
			c := &Case{Lane: l.lane, T: l.tc.T, Codec: l.tc.Codec, Shape: "bidi", Duplex: true, Trunc: -1, Sched: "full-duplex"}
			c.Msgs = g.msgs(up, l.tc, 0)
			c.Reply = g.msgs(down, l.tc, 0)
			build(c, bodyOpt{})
			if l.lane == "h2c" {
				for left := len(c.Body); left > 0; left -= 16384 {
					c.Cuts = append(c.Cuts, min(16384, left))
				}
			}
			g.runReal(c)
		}
	}
}

// runParallel executes socket cases at the same time (used for paced
// clients, whose wall time is mostly sleeping) and accounts them in order.
func (g *gen) runParallel(cases []*Case) {
	type result struct {
		vs      []viol
		outcome string
	}
	res := make([]result, len(cases))
	var wg sync.WaitGroup
	for i := range cases {
		wg.Add(1)
		go func(i int) {
			defer wg.Done()
			res[i].vs, res[i].outcome = g.execReal(cases[i])
		}(i)
	}
	wg.Wait()
	for i := range cases {
		g.account(cases[i], res[i].vs, res[i].outcome)
	}
}

// realServerOptions: servers built by larking.NewServer from muxes / with
// options that must not affect streams: a small ConnectionTimeoutOption with
// paced clients whose streams outlive it several times, a large one, and a
// MuxHandleOption path prefix. Also multi-member gzip bodies over sockets.
func (g *gen) realServerOptions() {
	r := g.r
	perMsg := func(c *Case) []int {
		var cuts []int
		for _, s := range c.Segs {
			cuts = append(cuts, s.End-s.Start)
		}
		return cuts
	}
	mk := func(lane string, tc tcombo, shape string, kinds []string, opt string, pace int) *Case {
		c := &Case{Lane: lane, T: tc.T, Codec: tc.Codec, CE: tc.CE, Shape: shape, Trunc: -1, SrvOpt: opt, PaceMs: pace, Sched: "server-option"}
		if pace > 0 {
			c.Sched = "paced-client"
		}
		c.Msgs = g.msgs(kinds, tc, 0)
		switch shape {
		case "cs":
			c.Reply = [][]byte{g.reply(len(kinds))}
		case "bidi":
			c.Echo = true
			c.EchoMode = "long"
			c.Step = lane != "h1" && lane != "h1-chunked"
			if !c.Step {
				c.Echo = false // HTTP/1 is half-duplex: collect, then reply
				c.Reply = g.msgs([]string{"T", "D9"}, tc, 0)
			}
		}
		if tc.T == "ws" {
			c.Sched = "text-frames"
			c.Body, c.Segs = wsFrames(c, g.wsMask())
		} else {
			build(c, bodyOpt{})
			c.Cuts = perMsg(c)
		}
		return c
	}
	// paced clients against a small connection timeout: 4 messages, the
	// stream stays open about three times as long as the option
	pace := int(connTimeoutSmall/time.Millisecond) * 3 / 4
	kinds := []string{"T", "D40", "X", "D9"}
	rounds := r.Pick(1, 3)
	for round := 0; round < rounds; round++ {
		paced := []*Case{
			mk("grpc-go", tcombo{"grpc", "proto", ""}, "bidi", kinds, "conn-timeout-small", pace),
			mk("grpc-go", tcombo{"grpc", "gzip", ""}, "cs", kinds, "conn-timeout-small", pace),
			mk("h2c", tcombo{"grpc", "proto", ""}, "bidi", kinds, "conn-timeout-small", pace),
			mk("h2c", tcombo{"http", "json", ""}, "bidi", kinds, "conn-timeout-small", pace),
			mk("h2c", tcombo{"http", "proto", ""}, "cs", kinds, "conn-timeout-small", pace),
			mk("h2c", tcombo{"grpc-web", "proto", ""}, "bidi", kinds, "conn-timeout-small", pace),
			mk("h1-chunked", tcombo{"http", "json", ""}, "cs", kinds, "conn-timeout-small", pace),
			mk("h1-chunked", tcombo{"http", "proto", ""}, "bidi", kinds, "conn-timeout-small", pace),
			mk("h1-chunked", tcombo{"grpc-web", "proto", ""}, "cs", kinds, "conn-timeout-small", pace),
			mk("h1-chunked", tcombo{"grpc-web-text", "proto", ""}, "cs", kinds, "conn-timeout-small", pace),
			mk("ws", tcombo{"ws", "json", ""}, "bidi", kinds, "conn-timeout-small", pace),
		}
		if r.Thorough() {
			// the same pacing against the default and the large timeout
			for _, opt := range []string{"", "conn-timeout-large"} {
				paced = append(paced,
					mk("grpc-go", tcombo{"grpc", "proto", ""}, "bidi", kinds, opt, pace),
					mk("h2c", tcombo{"http", "json", ""}, "bidi", kinds, opt, pace),
					mk("h1-chunked", tcombo{"http", "json", ""}, "cs", kinds, opt, pace),
					mk("ws", tcombo{"ws", "json", ""}, "bidi", kinds, opt, pace))
			}
		}
		g.runParallel(paced)
	}
	// unpaced streams on servers with the other options
	for _, opt := range []string{"conn-timeout-small", "conn-timeout-large", "prefix"} {
		for si, kinds := range [][]string{{"T", "E", "D300"}, {"H0", "X", "T", "D40", "I9"}} {
			if !r.Thorough() && si > 0 && opt != "prefix" {
				continue
			}
			for _, lane := range []string{"h1", "h1-chunked", "h2c", "grpc-go", "ws"} {
				for _, tc := range []tcombo{{"http", "json", ""}, {"http", "proto", ""}, {"grpc", "proto", ""}, {"grpc-web", "proto", ""}, {"ws", "json", ""}} {
					switch {
					case (lane == "ws") != (tc.T == "ws"):
						continue
					case (lane == "grpc-go") && (tc.T != "grpc" || opt == "prefix"):
						continue
					case tc.T == "grpc" && (lane == "h1" || lane == "h1-chunked"):
						continue
					}
					for _, shape := range []string{"cs", "bidi"} {
						g.runReal(mk(lane, tc, shape, kinds, opt, 0))
					}
				}
			}
		}
	}
	// multi-member gzip request bodies over sockets
	for _, lane := range []string{"h1", "h1-chunked", "h2c"} {
		for _, tc := range []tcombo{{"http", "json", "gzip"}, {"http", "proto", "gzip"}} {
			for _, lay := range []string{"per-message", "random", "empty-end"} {
				c := &Case{Lane: lane, T: tc.T, Codec: tc.Codec, CE: "gzip", Shape: "cs", Trunc: -1, Sched: "gzip-members"}
				c.Msgs = g.msgs([]string{"T", "D40", "X", "E", "D9"}, tc, 0)
				c.Reply = [][]byte{g.reply(5)}
				build(c, bodyOpt{members: lay, rng: g.rng})
				if lane != "h1" {
					c.Cuts = g.randomCuts(len(c.Body))
				}
				g.runReal(c)
			}
		}
		c := &Case{Lane: lane, T: "http", Codec: "httpbody", CE: "gzip", Shape: "upload", Limit: 64, Trunc: -1, Sched: "gzip-members", Msgs: [][]byte{prf(g.rng, 3*64+5)}, Reply: [][]byte{{}}}
		build(c, bodyOpt{members: "random", rng: g.rng})
		g.runReal(c)
	}
}

// realInterleave: ping-pong handlers over full-duplex sockets with the whole
// request in one DATA frame / one TCP write (several messages per read) or in
// frames that straddle message boundaries.
func (g *gen) realInterleave() {
	r := g.r
	seqs := [][]string{{"T", "T", "T"}, {"D5", "T", "D9", "E"}, {"X", "D40", "X", "T"}}
	if r.Thorough() {
		seqs = append(seqs, []string{"E", "E", "T", "E"}, []string{"D130", "T", "T"}, []string{"D1", "D1", "D1", "D1", "D1", "D1"})
	}
	type mode struct {
		echo      string
		every     int
		interfere bool
	}
	modes := []mode{{"long", 1, false}, {"long", 2, false}, {"short", 1, false}, {"long", 1, true}}
	tcs := []tcombo{{"http", "json", ""}, {"http", "proto", ""}, {"grpc", "proto", ""}, {"grpc-web", "proto", ""}}
	frags := []int{0, 3}
	for _, frag := range frags {
		for _, tc := range tcs {
			for si, kinds := range seqs {
				for mi, md := range modes {
					if !r.Thorough() && frag > 0 && mi > 0 {
						continue
					}
					c := &Case{Lane: "h2c", T: tc.T, Codec: tc.Codec, Shape: "bidi", Echo: true, EchoMode: md.echo, EchoEvery: md.every, Interfere: md.interfere, Frag: frag, Trunc: -1}
					c.Msgs = g.msgs(kinds, tc, 0)
					build(c, bodyOpt{sep: []string{"", "\n"}[si%2]})
					scheds := [][]int{nil, g.randomCuts(len(c.Body))}
					names := []string{"one-frame", "random-frames"}
					for i := range scheds {
						d := clone(c)
						d.Cuts, d.Sched = scheds[i], names[i]
						g.runReal(d)
					}
				}
			}
		}
		// HttpBody chunks echoed as they arrive
		for _, L := range []int{7, 64} {
			for mi, md := range modes {
				c := &Case{Lane: "h2c", T: "http", Codec: "httpbody", Shape: "upbidi", Limit: L, Echo: true, EchoMode: md.echo, EchoEvery: md.every, Interfere: md.interfere, Frag: frag, Trunc: -1, Sched: "one-frame", Msgs: [][]byte{prf(g.rng, 3*L+1+mi)}}
				build(c, bodyOpt{})
				g.runReal(c)
			}
		}
		// grpc-go and WebSocket: pipelined sends, long / sparse echoes
		for si, kinds := range seqs {
			for _, md := range modes[:3] {
				c := &Case{Lane: "grpc-go", T: "grpc", Codec: []string{"proto", "gzip"}[si%2], Shape: "bidi", Echo: true, EchoMode: md.echo, EchoEvery: md.every, Frag: frag, Trunc: -1, Sched: "pipelined"}
				c.Msgs = g.msgs(kinds, tcombo{"grpc", c.Codec, ""}, 0)
				build(c, bodyOpt{})
				g.runReal(c)
				w := &Case{Lane: "ws", T: "ws", Codec: "json", Shape: "bidi", Echo: true, EchoMode: md.echo, EchoEvery: md.every, Frag: frag, Trunc: -1, Sched: "text-frames"}
				w.Msgs = g.msgs(kinds, tcombo{"ws", "json", ""}, 0)
				w.Body, w.Segs = wsFrames(w, g.wsMask())
				g.runReal(w)
			}
		}
	}
}

func (g *gen) realSeqs() [][]string {
	seqs := [][]string{{}, {"T"}, {"E", "T", "E"}, {"D40", "X", "D300", "T"}, {"T", "T", "T", "T", "T", "T"}, {"H0", "I8", "H15", "T"}, {"I4", "H9", "H23", "H1"}}
	if g.r.Thorough() {
		pool := []string{"E", "T", "X", "D1", "D7", "D40", "D125", "D126", "D300", "D5000", "D70000", "H2", "H10", "I12", "H20", "I24", "H32"}
		for i := 0; i < 24; i++ {
			n := g.rng.Intn(7)
			ks := make([]string, n)
			for j := range ks {
				ks[j] = pool[g.rng.Intn(len(pool))]
			}
			seqs = append(seqs, ks)
		}
	}
	return seqs
}

var finals = []struct {
	code int
	msg  string
}{{0, ""}, {5, "not found: stream item"}, {10, "aborted by handler"}}

// realHTTP1: HTTP/1.1 with Content-Length and chunked bodies (half-duplex:
// the whole request is sent first and the handler reads it to the end
// before replying).
func (g *gen) realHTTP1() {
	r := g.r
	tcs := []tcombo{{"http", "json", ""}, {"http", "proto", ""}, {"http", "proto", "gzip"}, {"grpc-web", "proto", ""}, {"grpc-web-text", "proto", ""}}
	frags := []int{0}
	if r.Thorough() {
		frags = []int{0, 1, 3}
	}
	for _, frag := range frags {
		for _, lane := range []string{"h1", "h1-chunked"} {
			for _, tc := range tcs {
				for si, kinds := range g.realSeqs() {
					for _, shape := range []string{"cs", "bidi", "ss", "ssget"} {
						if shape == "ssget" && (tc.T != "http" || tc.CE != "" || si > 1) {
							continue
						}
						if (shape == "ss") && (len(kinds) == 0 || si > 2) {
							continue
						}
						fin := finals[(si+len(shape))%len(finals)]
						c := &Case{Lane: lane, T: tc.T, Codec: tc.Codec, CE: tc.CE, Shape: shape, Frag: frag, Trunc: -1, Sched: "content-length"}
						if lane == "h1-chunked" {
							c.Sched = "chunked"
							c.Cuts = g.randomCuts(64)
						}
						switch shape {
						case "cs":
							c.Msgs = g.msgs(kinds, tc, 0)
							c.Reply = [][]byte{g.reply(len(kinds))}
						case "bidi":
							c.Msgs = g.msgs(kinds, tc, 0)
							c.Reply = g.msgs([]string{"T", "D9", "E", "X"}[:(si+1)%5], tc, 0)
							c.Final, c.FinalMsg = fin.code, fin.msg
						case "ss":
							c.Msgs = g.msgs(kinds[:1], tc, 0)
							c.Reply = g.msgs([]string{"T", "D300", "E"}, tc, 0)
							c.Final, c.FinalMsg = fin.code, fin.msg
						case "ssget":
							c.Msgs = [][]byte{}
							c.Reply = g.msgs([]string{"D9", "T"}, tc, 0)
						}
						if shape == "ss" && tc.T == "http" && tc.Codec == "json" && len(c.Msgs[0]) == 0 {
							continue
						}
						build(c, bodyOpt{sep: []string{"", "\n"}[si%2], trailing: si%3 == 0})
						g.runReal(c)
					}
				}
			}
			// uploads and downloads
			for _, L := range []int{7, 64, 1000} {
				for _, n := range []int{0, 1, L - 1, L, L + 1, 3 * L, 4*L + 1} {
					for _, mode := range []string{"httpbody", "httpbody-reader"} {
						c := &Case{Lane: lane, T: "http", Codec: mode, Shape: "upload", Limit: L, Frag: frag, Trunc: -1, Sched: "content-length", Msgs: [][]byte{prf(g.rng, n)}, Reply: [][]byte{{}}}
						if lane == "h1-chunked" {
							c.Sched = "chunked"
							c.Cuts = g.randomCuts(n + 1)
						}
						build(c, bodyOpt{})
						g.runReal(c)
					}
				}
			}
		}
		for _, mode := range []string{"httpbody", "httpbody-writer"} {
			for _, szs := range [][]int{{}, {5, 0, 7}, {1000, 1, 1000}} {
				c := &Case{Lane: "h1", T: "http", Codec: mode, Shape: "download", Frag: frag, Trunc: -1, Msgs: [][]byte{}, Sched: "get"}
				for _, n := range szs {
					c.Reply = append(c.Reply, mustMarshal(mkBody("application/x-verif", prf(g.rng, n))))
				}
				build(c, bodyOpt{})
				g.runReal(c)
			}
		}
	}
}

// frameSchedules returns DATA-frame schedules for a body.
func (g *gen) frameSchedules(c *Case, random int) (cuts [][]int, names []string) {
	var perMsg []int
	for _, s := range c.Segs {
		perMsg = append(perMsg, s.End-s.Start)
	}
	cuts, names = append(cuts, perMsg), append(names, "frame-per-message")
	n := len(c.Body)
	if n > 0 && n <= 64 {
		ones := make([]int, n)
		for i := range ones {
			ones[i] = 1
		}
		cuts, names = append(cuts, ones), append(names, "byte-frames")
	}
	if n > 1 {
		for i := 0; i < random; i++ {
			cuts, names = append(cuts, g.randomCuts(n)), append(names, "random-frames")
		}
	}
	return
}

// realH2C: prior-knowledge h2c with scripted DATA frames, plain and
// fragmenting listeners.
func (g *gen) realH2C() {
	r := g.r
	tcs := []tcombo{{"http", "json", ""}, {"http", "proto", ""}, {"grpc", "proto", ""}, {"grpc", "gzip", ""}, {"grpc-web", "proto", ""}, {"grpc-web-text", "proto", ""}}
	for _, frag := range []int{0, 1, 2, 3} {
		for _, tc := range tcs {
			for si, kinds := range g.realSeqs() {
				if frag > 0 && !r.Thorough() && si%2 == 1 {
					continue
				}
				for _, shape := range []string{"cs", "bidi", "bidi-step", "ss"} {
					if shape == "ss" && (len(kinds) == 0 || si > 2) {
						continue
					}
					if shape == "bidi-step" && (tc.T == "grpc-web-text" || len(kinds) == 0) {
						continue
					}
					fin := finals[(si+frag)%len(finals)]
					c := &Case{Lane: "h2c", T: tc.T, Codec: tc.Codec, Shape: shape, Frag: frag, Trunc: -1}
					c.Msgs = g.msgs(kinds, tc, 0)
					switch shape {
					case "cs":
						c.Reply = [][]byte{g.reply(len(kinds))}
					case "bidi":
						c.Echo = true
						c.Reply = g.msgs([]string{"T", "D9"}[:si%3], tc, 0)
						c.Final, c.FinalMsg = fin.code, fin.msg
					case "bidi-step":
						c.Shape, c.Echo, c.Step = "bidi", true, true
					case "ss":
						c.Msgs = c.Msgs[:1]
						if tc.T == "http" && tc.Codec == "json" && len(c.Msgs[0]) == 0 {
							continue
						}
						c.Reply = g.msgs([]string{"T", "D300", "E"}, tc, 0)
						c.Final, c.FinalMsg = fin.code, fin.msg
					}
					build(c, bodyOpt{sep: []string{"", "\n"}[si%2]})
					if c.Step {
						c.Sched = "lockstep"
						g.runReal(c)
						continue
					}
					cuts, names := g.frameSchedules(c, r.Pick(1, 3))
					for i := range cuts {
						if frag > 0 && names[i] == "byte-frames" && !r.Thorough() {
							continue
						}
						d := clone(c)
						d.Cuts, d.Sched = cuts[i], names[i]
						g.runReal(d)
					}
				}
			}
		}
		// uploads: DATA frames aligned with / straddling the chunk limit
		for _, L := range []int{7, 64, 128} {
			for _, n := range []int{L, 2 * L, 3*L + 1} {
				for _, first := range []int{L - 1, L, L + 1} {
					var cuts []int
					for left := n; left > 0; left -= first {
						cuts = append(cuts, min(first, left))
					}
					c := &Case{Lane: "h2c", T: "http", Codec: "httpbody", Shape: "upload", Limit: L, Frag: frag, Trunc: -1, Cuts: cuts, Sched: "limit-aligned-frames", Msgs: [][]byte{prf(g.rng, n)}, Reply: [][]byte{{}}}
					build(c, bodyOpt{})
					g.runReal(c)
				}
			}
		}
	}
}

// realGRPC: the grpc-go client (identity and gzip).
func (g *gen) realGRPC() {
	r := g.r
	frags := []int{0, 1, 3}
	for _, frag := range frags {
		for _, codec := range []string{"proto", "gzip"} {
			tc := tcombo{"grpc", codec, ""}
			for si, kinds := range g.realSeqs() {
				if frag > 0 && !r.Thorough() && si%2 == 1 {
					continue
				}
				for _, shape := range []string{"cs", "ss", "bidi-step", "bidi-pipe", "bidi-collect", "bidi-stop"} {
					fin := finals[(si+frag+len(shape))%len(finals)]
					c := &Case{Lane: "grpc-go", T: "grpc", Codec: codec, Frag: frag, Trunc: -1, Sched: "grpc-go"}
					c.Msgs = g.msgs(kinds, tc, 0)
					switch shape {
					case "cs":
						c.Shape = "cs"
						c.Reply = [][]byte{g.reply(len(kinds))}
					case "ss":
						if len(kinds) == 0 || si > 3 {
							continue
						}
						c.Shape, c.Msgs = "ss", c.Msgs[:1]
						c.Reply = g.msgs([]string{"T", "D300", "E", "D5000"}[:1+si], tc, 0)
						c.Final, c.FinalMsg = fin.code, fin.msg
					case "bidi-step":
						if len(kinds) == 0 {
							continue
						}
						c.Shape, c.Echo, c.Step, c.Sched = "bidi", true, true, "lockstep"
						c.Final, c.FinalMsg = fin.code, fin.msg
					case "bidi-pipe":
						c.Shape, c.Echo = "bidi", true
						c.Reply = g.msgs([]string{"T"}, tc, 0)
					case "bidi-collect":
						c.Shape = "bidi"
						c.Reply = g.msgs([]string{"E", "D9", "T"}, tc, 0)
						c.Final, c.FinalMsg = fin.code, fin.msg
					case "bidi-stop":
						if len(kinds) < 3 {
							continue
						}
						// the handler ends the call after 2 messages
						c.Shape, c.Echo, c.Step, c.StopAfter, c.Sched = "bidi", true, true, 2, "handler-stops-early"
						c.Reply = g.msgs([]string{"T"}, tc, 0)
						c.Final, c.FinalMsg = finals[1+si%2].code, finals[1+si%2].msg
					}
					build(c, bodyOpt{})
					g.runReal(c)
				}
			}
		}
	}
}

func (g *gen) wsMask() func() [4]byte {
	return func() [4]byte {
		var m [4]byte
		for i := range m {
			m[i] = byte(g.rng.Intn(256))
		}
		return m
	}
}

// realWS: WebSocket (JSON text frames), plain and fragmenting listeners.
func (g *gen) realWS() {
	r := g.r
	tc := tcombo{"ws", "json", ""}
	for _, frag := range []int{0, 1, 2, 3} {
		for si, kinds := range g.realSeqs() {
			if frag > 0 && !r.Thorough() && si%2 == 1 {
				continue
			}
			for _, style := range []string{"text-frames", "binary-frames", "fragmented-frames"} {
				for _, shape := range []string{"bidi-step", "bidi-pipe", "cs", "ss", "bidi-stop"} {
					fin := finals[(si+frag+len(style))%len(finals)]
					c := &Case{Lane: "ws", T: "ws", Codec: "json", Frag: frag, Trunc: -1, Sched: style}
					c.Msgs = g.msgs(kinds, tc, 0)
					switch shape {
					case "bidi-step":
						if len(kinds) == 0 {
							continue
						}
						c.Shape, c.Echo, c.Step = "bidi", true, true
					case "bidi-pipe":
						c.Shape, c.Echo = "bidi", true
					case "cs":
						c.Shape = "cs"
						c.Reply = [][]byte{g.reply(len(kinds))}
					case "ss":
						if len(kinds) == 0 || si > 3 || style == "binary-frames" {
							continue
						}
						c.Shape, c.Msgs = "ss", c.Msgs[:1]
						c.Reply = g.msgs([]string{"T", "D300", "E", "X", "D5000"}[:si+1], tc, 0)
						c.Final, c.FinalMsg = fin.code, fin.msg
					case "bidi-stop":
						if len(kinds) < 3 || style != "text-frames" {
							continue
						}
						c.Shape, c.Echo, c.Step, c.StopAfter = "bidi", true, true, 2
						c.Reply = g.msgs([]string{"T"}, tc, 0)
						c.Final, c.FinalMsg = finals[1+si%2].code, finals[1+si%2].msg
					}
					c.Body, c.Segs = wsFrames(c, g.wsMask())
					if shape == "bidi-pipe" && style == "text-frames" {
						c.Cuts = g.randomCuts(len(c.Body) + 1)
					}
					g.runReal(c)
				}
			}
		}
		// a websocket rule without body
		c := &Case{Lane: "ws", T: "ws", Codec: "json", Shape: "bidinb", Frag: frag, Trunc: -1, Sched: "no-body-rule", Msgs: [][]byte{}, Echo: false}
		c.Body, c.Segs = []byte{}, nil
		g.runReal(c)
	}
}

// realTruncation: END_STREAM inside a message, RST_STREAM, connection close,
// client cancellation at sampled offsets.
func (g *gen) realTruncation() {
	r := g.r
	seqs := [][]string{{"T", "T"}, {"D5", "E", "T"}, {"T", "D200", "T"}}
	if r.Thorough() {
		seqs = append(seqs, []string{"D130"}, []string{"E", "E", "D3"}, []string{"D40", "E", "T", "D3", "T", "E"})
	}
	allUpTo := r.Pick(0, 24)
	samples := r.Pick(1, 6)
	h2 := []tcombo{{"http", "json", ""}, {"http", "proto", ""}, {"grpc", "proto", ""}, {"grpc", "gzip", ""}, {"grpc-web", "proto", ""}, {"grpc-web-text", "proto", ""}}
	for _, frag := range []int{0, 2} {
		for _, tc := range h2 {
			for si, kinds := range seqs {
				shape := []string{"cs", "bidi"}[si%2]
				c := &Case{Lane: "h2c", T: tc.T, Codec: tc.Codec, Shape: shape, Echo: shape == "bidi", Frag: frag}
				c.Msgs = g.msgs(kinds, tc, 0)
				if shape == "cs" {
					c.Reply = [][]byte{g.reply(0)}
				}
				build(c, bodyOpt{sep: []string{"", "\n"}[si%2]})
				for _, t := range g.truncOffsets(c, allUpTo, samples) {
					for _, ab := range []string{"end", "rst"} {
						d := clone(c)
						d.Trunc, d.Abort, d.TruncErr = t, ab, ab == "rst"
						d.Sched = "h2-" + ab
						if t > 1 {
							d.Cuts = g.randomCuts(t)
						}
						g.runReal(d)
					}
				}
			}
		}
	}
	// HTTP/1.1: the connection goes away inside the announced body
	h1 := []tcombo{{"http", "json", ""}, {"http", "proto", ""}, {"grpc-web", "proto", ""}}
	for _, tc := range h1 {
		for si, kinds := range seqs {
			c := &Case{Lane: "h1-raw", T: tc.T, Codec: tc.Codec, Shape: "cs", Abort: "close", TruncErr: true}
			c.Msgs = g.msgs(kinds, tc, 0)
			c.Reply = [][]byte{g.reply(0)}
			build(c, bodyOpt{sep: []string{"", "\n"}[si%2]})
			for _, t := range g.truncOffsets(c, allUpTo, samples) {
				for _, sched := range []string{"content-length", "chunked"} {
					d := clone(c)
					d.Trunc, d.Sched = t, sched
					if sched == "chunked" && t > 1 {
						d.Cuts = g.randomCuts(t)
					}
					g.runReal(d)
				}
			}
		}
	}
	// WebSocket: the TCP connection goes away inside a frame
	for _, frag := range []int{0, 3} {
		for si, kinds := range seqs {
			for _, style := range []string{"text-frames", "fragmented-frames"} {
				c := &Case{Lane: "ws", T: "ws", Codec: "json", Shape: []string{"cs", "bidi"}[si%2], Echo: si%2 == 1, Frag: frag, Abort: "close", Sched: style}
				c.Msgs = g.msgs(kinds, tcombo{"ws", "json", ""}, 0)
				c.Body, c.Segs = wsFrames(c, g.wsMask())
				for _, t := range g.truncOffsets(c, allUpTo, samples) {
					d := clone(c)
					d.Trunc = t
					g.runReal(d)
				}
			}
		}
	}
	// grpc-go: the client cancels after k messages
	for _, codec := range []string{"proto", "gzip"} {
		for _, kinds := range seqs {
			for k := 0; k <= len(kinds); k++ {
				c := &Case{Lane: "grpc-go", T: "grpc", Codec: codec, Shape: "bidi", Echo: true, Step: true, Abort: "cancel", TruncErr: true, Trunc: k, Sched: "client-cancel"}
				c.Msgs = g.msgs(kinds, tcombo{"grpc", codec, ""}, 0)
				build(c, bodyOpt{})
				g.runReal(c)
			}
		}
	}
}
