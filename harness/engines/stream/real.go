package stream

import (
	"bufio"
	"bytes"
	"context"
	"encoding/binary"
	"encoding/json"
	"errors"
	"fmt"
	"io"
	"net"
	"net/http"
	"os"
	"runtime"
	"strings"
	"sync"
	"time"

	"github.com/gobwas/ws"
	"google.golang.org/grpc"
	_ "google.golang.org/grpc/encoding/gzip"
	"google.golang.org/grpc/metadata"
	"google.golang.org/grpc/status"
	"google.golang.org/protobuf/encoding/protojson"
	"google.golang.org/protobuf/proto"

	"verif/internal/vschema"
	"verif/internal/wire"
)

// Generous watchdogs: they never produce a violation by themselves.
const (
	opTimeout      = 20 * time.Second // one client operation / whole exchange
	handlerTimeout = 15 * time.Second // handler's terminal event after the client finished
	stepTimeout    = 10 * time.Second // one lock-step reply
)

var debugTrunc = os.Getenv("VERIF_DEBUG_TRUNC") != ""

var errAbort = errors.New("verif: client aborts the stream")

// clients are kept per server.
type clients struct {
	h1  *http.Client
	h2  *http.Client
	gcc *grpc.ClientConn
}

var (
	clMu sync.Mutex
	cls  = map[*wire.Server]*clients{}
)

func clientsFor(s *wire.Server) *clients {
	clMu.Lock()
	defer clMu.Unlock()
	if c, ok := cls[s]; ok {
		return c
	}
	c := &clients{
		h1: &http.Client{Transport: &http.Transport{DisableCompression: true, DisableKeepAlives: true}},
		h2: wire.H2CClient(),
	}
	cls[s] = c
	return c
}

func (cl *clients) grpcConn(s *wire.Server) (*grpc.ClientConn, error) {
	clMu.Lock()
	defer clMu.Unlock()
	if cl.gcc != nil {
		return cl.gcc, nil
	}
	cc, err := wire.Dial(s.Addr)
	if err != nil {
		return nil, err
	}
	cl.gcc = cc
	return cc, nil
}

func closeClients() {
	clMu.Lock()
	defer clMu.Unlock()
	for k, c := range cls {
		if c.gcc != nil {
			c.gcc.Close()
		}
		c.h1.CloseIdleConnections()
		c.h2.CloseIdleConnections()
		delete(cls, k)
	}
}

// pieces cuts b following cuts (remainder in one piece).
func pieces(b []byte, cuts []int) [][]byte {
	var out [][]byte
	for _, k := range cuts {
		if len(b) == 0 {
			break
		}
		if k <= 0 {
			k = 1
		}
		if k > len(b) {
			k = len(b)
		}
		out = append(out, b[:k])
		b = b[k:]
	}
	if len(b) > 0 {
		out = append(out, b)
	}
	return out
}

// realResult is what the client side of a socket execution produced.
type realResult struct {
	co        *cobs
	clientSaw bool   // the client saw the complete response
	incon     string // non-empty: could not observe
	vs        []viol
	final     bool // vs is the verdict; the harness aborted the stream itself
}

func larkingRecvInDump() (string, bool) {
	buf := make([]byte, 1<<20)
	n := runtime.Stack(buf, true)
	d := string(buf[:n])
	return d, strings.Contains(d, "larking.(*streamHTTP).RecvMsg") || strings.Contains(d, "larking.(*streamGRPC).RecvMsg") || strings.Contains(d, "larking.(*streamWS).RecvMsg")
}

// execReal runs one case over a socket and judges it.
func (g *gen) execReal(c *Case) (vs []viol, outcome string) {
	e := g.e
	opt := c.SrvOpt
	if c.Proxied {
		opt = "proxied"
	}
	srv, err := e.server(c.Limit, c.Frag, opt)
	if err != nil {
		e.r.Inconclusive("cannot start server: " + err.Error())
		return nil, "no-server"
	}
	if c.Poison {
		// the failing calls go over raw h2c (a grpc-go client cannot send
		// a damaged message); their own outcome is not judged
		for i := 0; i < 3; i++ {
			p := poisonCase(c)
			p.Lane, p.Abort, p.Trunc = "h2c", "end", len(p.Body)
			if p.T == "ws" || p.T == "http" {
				p.T = "grpc"
			}
			pid, prc := e.open(p.script())
			g.doH2C(p, srv, clientsFor(srv), pid, prc)
			select {
			case <-prc.done:
			case <-time.After(2 * time.Second):
			}
			e.drop(pid)
			e.r.Count("failed_decompression_calls", 1)
		}
	}
	id, rc := e.open(c.script())
	defer e.drop(id)
	cl := clientsFor(srv)
	logStart := len(srv.ErrLog())

	var res realResult
	switch c.Lane {
	case "h1", "h1-chunked":
		res = g.doH1(c, srv, cl, id)
	case "h1-raw":
		res = g.doH1Raw(c, srv, id)
	case "h2c":
		res = g.doH2C(c, srv, cl, id, rc)
	case "grpc-go":
		res = g.doGRPC(c, srv, cl, id, rc)
	case "ws":
		res = g.doWS(c, srv, id, rc)
	default:
		panic("lane " + c.Lane)
	}
	if res.incon != "" {
		e.r.Inconclusive(fmt.Sprintf("%s %s: %s", c.Lane, c.prefix(), res.incon))
		return res.vs, "inconclusive"
	}
	if res.final {
		return res.vs, "withheld"
	}
	// the handler's terminal event
	if !res.clientSaw {
		select {
		case <-rc.started:
			select {
			case <-rc.done:
			case <-time.After(handlerTimeout):
				e.r.Inconclusive(fmt.Sprintf("%s %s: handler did not reach its terminal event within %v after the client finished", c.Lane, c.prefix(), handlerTimeout))
				return res.vs, "inconclusive"
			}
		case <-time.After(3 * time.Second):
			// never dispatched
		}
	} else {
		select {
		case <-rc.started:
			select {
			case <-rc.done:
			case <-time.After(2 * time.Second):
			}
		default:
			// the response is complete and the handler never ran
		}
	}
	// only what the server logged while this stream was running
	if log := srv.ErrLog()[logStart:]; strings.Contains(log, "panic serving") {
		i := strings.Index(log, "panic serving")
		msg := log[i:]
		if len(msg) > 300 {
			msg = msg[:300]
		}
		return append(res.vs, viol{c.prefix() + ":panic:" + c.Sched, "server logged: " + msg}), "panic"
	}
	s := rc.snap()
	if debugTrunc && c.Abort != "" {
		ex := c.expectation()
		fmt.Fprintf(os.Stderr, "abort %s %s %s frag=%d trunc=%d/%d class=%s n=%d -> recv=%d err=%v\n", c.Lane, c.prefix(), c.Abort, c.Frag, c.Trunc, len(c.Body), ex.class, ex.n, len(s.recv), s.recvErr)
	}
	jv, outcome := e.judge(c, s, res.co, res.clientSaw)
	return append(res.vs, jv...), outcome
}

func (c *Case) realRequest(ctx context.Context, base, id string, body io.Reader) (*http.Request, error) {
	method, path := "POST", c.httpPath()
	if c.T != "http" {
		path = full(c.method())
	} else if c.Shape == "ssget" || c.Shape == "download" {
		method = "GET"
	}
	req, err := http.NewRequestWithContext(ctx, method, base+c.pathPrefix()+path, body)
	if err != nil {
		return nil, err
	}
	req.Header.Set("X-Case", id)
	if method == "GET" {
		req.Header.Set("Accept", c.contentType())
	} else {
		req.Header.Set("Content-Type", c.contentType())
	}
	if c.CE != "" {
		req.Header.Set("Content-Encoding", c.CE)
	}
	if c.Shape == "upbidi" {
		req.Header.Set("Accept", "application/json")
	}
	if c.Accept != "" && c.T == "http" {
		req.Header.Set("Accept", c.acceptType())
	}
	if c.T == "grpc" {
		req.Header.Set("Te", "trailers")
	}
	if c.T != "http" && c.Codec == "gzip" {
		req.Header.Set("Grpc-Encoding", "gzip")
	}
	return req, nil
}

// ------------------------------------------------------------- HTTP/1.1

// pacedReader pauses before every read but the first (paced clients).
type pacedReader struct {
	r io.Reader
	c *Case
	n int
}

func (p *pacedReader) Read(b []byte) (int, error) {
	if p.n > 0 {
		p.c.pace()
	}
	p.n++
	return p.r.Read(b)
}

func (g *gen) doH1(c *Case, srv *wire.Server, cl *clients, id string) realResult {
	ctx, cancel := context.WithTimeout(context.Background(), opTimeout)
	defer cancel()
	var body io.Reader
	if !(c.Shape == "ssget" || c.Shape == "download") {
		if c.Lane == "h1" {
			body = bytes.NewReader(c.sentBody()) // Content-Length
		} else {
			body = struct{ io.Reader }{&pacedReader{r: &wire.ScriptReader{Data: c.sentBody(), Cuts: c.Cuts}, c: c}} // chunked
		}
	}
	req, err := c.realRequest(ctx, srv.URL, id, body)
	if err != nil {
		return realResult{incon: err.Error()}
	}
	resp, err := cl.h1.Do(req)
	if err != nil {
		return realResult{incon: "HTTP/1 request failed: " + err.Error()}
	}
	defer resp.Body.Close()
	b, err := io.ReadAll(resp.Body)
	if err != nil {
		return realResult{incon: "HTTP/1 response read failed: " + err.Error()}
	}
	return realResult{co: c.decodeResponse(resp.StatusCode, resp.Header, resp.Trailer, b), clientSaw: true}
}

// doH1Raw writes an HTTP/1.1 request by hand, announces the whole body and
// closes the connection after Trunc bytes of it.
func (g *gen) doH1Raw(c *Case, srv *wire.Server, id string) realResult {
	conn, err := net.DialTimeout("tcp", srv.Addr, opTimeout)
	if err != nil {
		return realResult{incon: err.Error()}
	}
	defer conn.Close()
	path := c.httpPath()
	if c.T != "http" {
		path = full(c.method())
	}
	var sb bytes.Buffer
	path = c.pathPrefix() + path
	fmt.Fprintf(&sb, "POST %s HTTP/1.1\r\nHost: verif.test\r\nX-Case: %s\r\nContent-Type: %s\r\n", path, id, c.contentType())
	sent := c.sentBody()
	if c.Sched == "chunked" {
		sb.WriteString("Transfer-Encoding: chunked\r\n\r\n")
		for _, p := range pieces(sent, c.Cuts) {
			fmt.Fprintf(&sb, "%x\r\n%s\r\n", len(p), p)
		}
		// no terminating chunk: the connection just goes away
	} else {
		fmt.Fprintf(&sb, "Content-Length: %d\r\n\r\n", len(c.Body)+boolInt(c.Trunc >= len(c.Body)))
		sb.Write(sent)
	}
	conn.SetDeadline(time.Now().Add(opTimeout))
	if _, err := conn.Write(sb.Bytes()); err != nil {
		return realResult{incon: err.Error()}
	}
	if tc, ok := conn.(*net.TCPConn); ok {
		tc.CloseWrite()
	}
	// drain whatever the server answers until it closes
	io.Copy(io.Discard, conn)
	return realResult{clientSaw: false}
}

func boolInt(b bool) int {
	if b {
		return 1
	}
	return 0
}

// ----------------------------------------------------------------- h2c

// msgReader reads one reply message at a time from a response body.
type msgReader struct {
	c   *Case
	br  *bufio.Reader
	dec *json.Decoder
}

func newMsgReader(c *Case, r io.Reader, contentType string) *msgReader {
	mr := &msgReader{c: c}
	if c.T == "http" && strings.HasPrefix(contentType, "application/json") {
		mr.dec = json.NewDecoder(r)
	} else {
		mr.br = bufio.NewReader(r)
	}
	return mr
}

func (mr *msgReader) next() (proto.Message, error) {
	md := mr.c.outDesc()
	m := vschema.NewMsg(md)
	if mr.dec != nil {
		var raw json.RawMessage
		if err := mr.dec.Decode(&raw); err != nil {
			return nil, err
		}
		return m, protojson.Unmarshal(raw, m)
	}
	if mr.c.T == "http" {
		n, err := binary.ReadUvarint(mr.br)
		if err != nil {
			return nil, err
		}
		b := make([]byte, n)
		if _, err := io.ReadFull(mr.br, b); err != nil {
			return nil, err
		}
		return m, proto.Unmarshal(b, m)
	}
	var h [5]byte
	if _, err := io.ReadFull(mr.br, h[:]); err != nil {
		return nil, err
	}
	if h[0]&0x80 != 0 {
		return nil, fmt.Errorf("trailer frame where a message was expected")
	}
	b := make([]byte, binary.BigEndian.Uint32(h[1:]))
	if _, err := io.ReadFull(mr.br, b); err != nil {
		return nil, err
	}
	if h[0]&1 != 0 {
		d, err := wire.Gunzip(b)
		if err != nil {
			return nil, err
		}
		b = d
	}
	return m, proto.Unmarshal(b, m)
}

// rest returns the unread remainder of the body.
func (mr *msgReader) rest(body io.Reader) ([]byte, error) {
	if mr.dec != nil {
		return io.ReadAll(io.MultiReader(mr.dec.Buffered(), body))
	}
	return io.ReadAll(mr.br)
}

type stepOut struct {
	m   proto.Message
	err error
}

func (g *gen) doH2C(c *Case, srv *wire.Server, cl *clients, id string, rc *rec) realResult {
	ctx, cancel := context.WithTimeout(context.Background(), opTimeout)
	defer cancel()
	if c.Shape == "ssget" || c.Shape == "download" {
		req, err := c.realRequest(ctx, srv.URL, id, nil)
		if err != nil {
			return realResult{incon: err.Error()}
		}
		resp, err := cl.h2.Do(req)
		if err != nil {
			return realResult{incon: "h2c request failed: " + err.Error()}
		}
		defer resp.Body.Close()
		b, err := io.ReadAll(resp.Body)
		if err != nil {
			return realResult{incon: "h2c response read failed: " + err.Error()}
		}
		return realResult{co: c.decodeResponse(resp.StatusCode, resp.Header, resp.Trailer, b), clientSaw: true}
	}
	pr, pw := io.Pipe()
	req, err := c.realRequest(ctx, srv.URL, id, pr)
	if err != nil {
		return realResult{incon: err.Error()}
	}
	type doRes struct {
		resp *http.Response
		err  error
	}
	doCh := make(chan doRes, 1)
	go func() {
		resp, err := cl.h2.Do(req)
		doCh <- doRes{resp, err}
	}()
	finish := func() {
		if c.Abort == "rst" {
			pw.CloseWithError(errAbort)
		} else {
			pw.Close()
		}
	}

	if c.Step {
		// lock-step: one DATA frame per request message, wait for the
		// echoed reply before sending the next one
		var got []proto.Message
		var mr *msgReader
		var resp *http.Response
		for i, sg := range c.Segs {
			if i > 0 {
				c.pace()
			}
			if _, err := pw.Write(c.Body[sg.Start:sg.End]); err != nil {
				return realResult{incon: "h2c body write failed: " + err.Error()}
			}
			if resp == nil {
				select {
				case dr := <-doCh:
					if dr.err != nil {
						return realResult{incon: "h2c request failed: " + dr.err.Error()}
					}
					resp = dr.resp
					defer resp.Body.Close()
					mr = newMsgReader(c, resp.Body, resp.Header.Get("Content-Type"))
				case <-time.After(stepTimeout):
					pw.CloseWithError(errAbort)
					return g.withheld(c, rc, i, "response headers")
				}
			}
			ch := make(chan stepOut, 1)
			go func() {
				m, err := mr.next()
				ch <- stepOut{m, err}
			}()
			select {
			case so := <-ch:
				if so.err != nil {
					// the stream ended or is undecodable: judge what we have
					finish()
					rest, _ := mr.rest(resp.Body)
					co := &cobs{httpCode: resp.StatusCode, msgs: got, undec: "reply " + fmt.Sprint(i) + ": " + so.err.Error(), trailing: len(rest)}
					return realResult{co: co, clientSaw: true}
				}
				got = append(got, so.m)
			case <-time.After(stepTimeout):
				pw.CloseWithError(errAbort)
				return g.withheld(c, rc, i, "reply")
			}
		}
		finish()
		if resp == nil {
			dr := <-doCh
			if dr.err != nil {
				return realResult{incon: "h2c request failed: " + dr.err.Error()}
			}
			resp = dr.resp
			defer resp.Body.Close()
			mr = newMsgReader(c, resp.Body, resp.Header.Get("Content-Type"))
		}
		rest, err := mr.rest(resp.Body)
		if err != nil {
			return realResult{incon: "h2c response read failed: " + err.Error()}
		}
		co := c.decodeResponse(resp.StatusCode, resp.Header, resp.Trailer, rest)
		co.msgs = append(got, co.msgs...)
		g.r.Count("lockstep_rounds", len(got))
		return realResult{co: co, clientSaw: true}
	}

	// scripted DATA frames, then END_STREAM (clean or mid-message) or RST
	go func() {
		for i, p := range pieces(c.sentBody(), c.Cuts) {
			if i > 0 {
				c.pace()
			}
			if _, err := pw.Write(p); err != nil {
				return
			}
		}
		finish()
	}()
	dr := <-doCh
	if dr.err != nil {
		if c.Abort != "" {
			return realResult{clientSaw: false}
		}
		return realResult{incon: "h2c request failed: " + dr.err.Error()}
	}
	defer dr.resp.Body.Close()
	b, err := io.ReadAll(dr.resp.Body)
	if err != nil {
		if c.Abort != "" {
			return realResult{clientSaw: false}
		}
		return realResult{incon: "h2c response read failed: " + err.Error()}
	}
	co := c.decodeResponse(dr.resp.StatusCode, dr.resp.Header, dr.resp.Trailer, b)
	return realResult{co: co, clientSaw: c.Abort != "rst"}
}

// withheld decides what a lock-step timeout means: a violation only when the
// handler's SendMsg for that reply has returned and a goroutine dump shows
// the handler back inside larking's RecvMsg waiting for the next request.
func (g *gen) withheld(c *Case, rc *rec, i int, what string) realResult {
	dump, inRecv := larkingRecvInDump()
	if rc.sentN() > i && inRecv {
		_ = dump
		groupMu.Lock()
		g.withheldSeen[c.Lane+" "+c.prefix()] = true
		groupMu.Unlock()
		return realResult{final: true, vs: []viol{{c.prefix() + ":withheld:lockstep", fmt.Sprintf("%s %d was sent by the handler (SendMsg returned) but did not reach the client within %v while the handler waits in RecvMsg for the next request message", what, i, stepTimeout)}}, clientSaw: false}
	}
	return realResult{incon: fmt.Sprintf("lock-step %s %d timed out (handler had sent %d)", what, i, rc.sentN())}
}

// -------------------------------------------------------------- grpc-go

func (g *gen) doGRPC(c *Case, srv *wire.Server, cl *clients, id string, rc *rec) realResult {
	cc, err := cl.grpcConn(srv)
	if err != nil {
		return realResult{incon: err.Error()}
	}
	ctx, cancel := context.WithTimeout(context.Background(), opTimeout)
	defer cancel()
	ctx = metadata.AppendToOutgoingContext(ctx, "x-case", id)
	var opts []grpc.CallOption
	if c.Codec == "gzip" {
		opts = append(opts, grpc.UseCompressor("gzip"))
	}
	st, err := cc.NewStream(ctx, &grpc.StreamDesc{ClientStreams: c.clientStreams(), ServerStreams: c.serverStreams()}, full(c.method()), opts...)
	if err != nil {
		return realResult{incon: "NewStream: " + err.Error()}
	}
	co := &cobs{}
	recvOne := func() error {
		m := vschema.NewMsg(c.outDesc())
		if err := st.RecvMsg(m); err != nil {
			return err
		}
		co.msgs = append(co.msgs, m)
		return nil
	}
	var termErr error
	if c.Duplex {
		// full duplex: one goroutine sends while this one receives
		sendDone := make(chan struct{})
		go func() {
			defer close(sendDone)
			for i := range c.Msgs {
				if err := st.SendMsg(unmarshalAs(c.inDesc(), c.Msgs[i])); err != nil {
					return
				}
			}
			st.CloseSend()
		}()
		for {
			if err := recvOne(); err != nil {
				termErr = err
				break
			}
			if len(co.msgs) > len(c.Msgs)+len(c.Reply)+8 {
				termErr = fmt.Errorf("verif: reply flood")
				break
			}
		}
		select {
		case <-sendDone:
		case <-time.After(opTimeout):
			return realResult{incon: "gRPC duplex sender did not finish"}
		}
		if ctx.Err() != nil {
			return realResult{incon: "gRPC call timed out"}
		}
		co.hasStatus = true
		if termErr != io.EOF {
			s := status.Convert(termErr)
			co.code, co.smsg = int(s.Code()), s.Message()
		}
		return realResult{co: co, clientSaw: true}
	}
	nSend := len(c.Msgs)
	if c.Abort == "cancel" && c.Trunc >= 0 && c.Trunc < nSend {
		nSend = c.Trunc
	}
	for i := 0; i < nSend; i++ {
		if i > 0 {
			c.pace()
		}
		if err := st.SendMsg(unmarshalAs(c.inDesc(), c.Msgs[i])); err != nil {
			// the server ended the call; the status comes from RecvMsg
			break
		}
		if c.Step && c.Echo && c.serverStreams() && (c.StopAfter == 0 || i < c.StopAfter) {
			ch := make(chan error, 1)
			go func() { ch <- recvOne() }()
			select {
			case err := <-ch:
				if err != nil {
					termErr = err
				}
			case <-time.After(stepTimeout):
				res := g.withheld(c, rc, i, "reply")
				cancel()
				<-ch
				return res
			}
			if termErr != nil {
				break
			}
			g.r.Count("lockstep_rounds", 1)
		}
	}
	if c.Abort == "cancel" {
		// make sure the handler has started, then reset the stream
		select {
		case <-rc.started:
		case <-time.After(stepTimeout):
		}
		cancel()
		return realResult{clientSaw: false}
	}
	if termErr == nil {
		st.CloseSend()
		for {
			if err := recvOne(); err != nil {
				termErr = err
				break
			}
			if len(co.msgs) > len(c.Msgs)+len(c.Reply)+8 {
				termErr = fmt.Errorf("verif: reply flood")
				break
			}
		}
	}
	if ctx.Err() != nil {
		return realResult{incon: "gRPC call timed out"}
	}
	co.hasStatus = true
	if termErr == io.EOF {
		co.code = 0
	} else {
		s := status.Convert(termErr)
		co.code, co.smsg = int(s.Code()), s.Message()
	}
	return realResult{co: co, clientSaw: true}
}

// ------------------------------------------------------------ WebSocket

func (c *Case) wsPath() string {
	switch c.Shape {
	case "cs":
		return "/wscs"
	case "ss":
		return "/wsss"
	case "bidi":
		return "/ws"
	case "bidinb":
		return "/wsn/x1"
	}
	panic("ws shape " + c.Shape)
}

// wsFrames renders the client's messages as masked WebSocket frames
// following the schedule class:
//
//	text-frames        one text frame per message
//	binary-frames      one binary frame per message
//	fragmented-frames  every message split into continuation frames, a ping in between
func wsFrames(c *Case, mask func() [4]byte) ([]byte, []Seg) {
	var out []byte
	var segs []Seg
	put := func(f ws.Frame) (hdr int) {
		f = ws.MaskFrameInPlaceWith(f, mask())
		b := ws.MustCompileFrame(f)
		out = append(out, b...)
		return len(b) - len(f.Payload)
	}
	for i, m := range c.Msgs {
		txt := []byte(chunkJSON(unmarshalAs(chunkDesc(), m)))
		sg := Seg{Start: len(out)}
		switch c.Sched {
		case "binary-frames":
			h := put(ws.NewFrame(ws.OpBinary, true, append([]byte(nil), txt...)))
			sg.Pre = sg.Start + h
		case "fragmented-frames":
			k := 1 + i%3
			if k > len(txt) {
				k = len(txt)
			}
			h := put(ws.NewFrame(ws.OpText, false, append([]byte(nil), txt[:k]...)))
			sg.Pre = sg.Start + h
			put(ws.NewFrame(ws.OpPing, true, []byte("p")))
			mid := k + (len(txt)-k)/2
			put(ws.NewFrame(ws.OpContinuation, false, append([]byte(nil), txt[k:mid]...)))
			put(ws.NewFrame(ws.OpContinuation, true, append([]byte(nil), txt[mid:]...)))
		default:
			h := put(ws.NewFrame(ws.OpText, true, append([]byte(nil), txt...)))
			sg.Pre = sg.Start + h
		}
		sg.End = len(out)
		segs = append(segs, sg)
	}
	return out, segs
}

// wsClient is a client WebSocket connection. Like wire.WSDial it first drains
// what gobwas/ws read past the handshake response; it also keeps the TCP
// connection for half-closing.
type wsClient struct {
	net.Conn
	r   io.Reader
	tcp *net.TCPConn
}

func (c *wsClient) Read(p []byte) (int, error) { return c.r.Read(p) }

func wsDial(ctx context.Context, url string, hdr http.Header) (*wsClient, error) {
	out := &wsClient{}
	d := ws.Dialer{Header: ws.HandshakeHeaderHTTP(hdr)}
	d.NetDial = func(ctx context.Context, network, addr string) (net.Conn, error) {
		var nd net.Dialer
		c, err := nd.DialContext(ctx, network, addr)
		if tc, ok := c.(*net.TCPConn); ok {
			out.tcp = tc
		}
		return c, err
	}
	conn, br, _, err := d.Dial(ctx, url)
	if err != nil {
		return nil, err
	}
	out.Conn, out.r = conn, conn
	if br != nil {
		buf := make([]byte, br.Buffered())
		io.ReadFull(br, buf)
		ws.PutReader(br)
		out.r = io.MultiReader(bytes.NewReader(buf), conn)
	}
	return out, nil
}

func (g *gen) doWS(c *Case, srv *wire.Server, id string, rc *rec) realResult {
	ctx, cancel := context.WithTimeout(context.Background(), opTimeout)
	defer cancel()
	conn, err := wsDial(ctx, "ws://"+srv.Addr+c.pathPrefix()+c.wsPath(), http.Header{"X-Case": {id}, "X-Ws": {"1"}})
	if err != nil {
		return realResult{incon: "websocket dial: " + err.Error()}
	}
	defer conn.Close()
	conn.SetDeadline(time.Now().Add(opTimeout))
	co := &cobs{}
	var gotClose bool
	var closeCode ws.StatusCode
	var closeReason string
	var partial []byte
	// readOne reads frames up to and including the next complete data
	// message or close frame.
	readOne := func() error {
		for {
			f, err := ws.ReadFrame(conn)
			if err != nil {
				return err
			}
			switch f.Header.OpCode {
			case ws.OpText, ws.OpBinary, ws.OpContinuation:
				partial = append(partial, f.Payload...)
				if !f.Header.Fin {
					continue
				}
				m := vschema.NewMsg(c.outDesc())
				if err := protojson.Unmarshal(partial, m); err != nil {
					co.undec = "websocket message is not a JSON " + string(c.outDesc().Name()) + ": " + err.Error()
					partial = nil
					return nil
				}
				partial = nil
				co.msgs = append(co.msgs, m)
				return nil
			case ws.OpClose:
				if !gotClose {
					gotClose = true
					closeCode, closeReason = ws.ParseCloseFrameData(f.Payload)
					if len(f.Payload) == 0 {
						closeCode = ws.StatusNoStatusRcvd
					}
				}
				return io.EOF
			}
		}
	}
	clientClose := func() error {
		// 1000, 1001 and a close frame without a code all end the stream
		var body []byte
		switch len(c.Msgs) % 3 {
		case 0:
			body = ws.NewCloseFrameBody(ws.StatusNormalClosure, "")
		case 1:
			body = ws.NewCloseFrameBody(ws.StatusGoingAway, "bye")
		}
		f := ws.MaskFrameInPlaceWith(ws.NewCloseFrame(body), [4]byte{1, 2, 3, 4})
		return ws.WriteFrame(conn, f)
	}

	if c.Abort == "close" {
		// write a prefix of the client's byte stream, then drop the TCP
		// connection without a close frame
		if _, err := conn.Write(c.sentBody()); err != nil {
			return realResult{incon: "websocket write: " + err.Error()}
		}
		// FIN, not RST: everything written reaches the server, then EOF
		if conn.tcp != nil {
			conn.tcp.CloseWrite()
			io.Copy(io.Discard, conn)
		}
		conn.Close()
		return realResult{clientSaw: false}
	}

	switch {
	case c.Shape == "bidinb":
		// rule without body: the client sends nothing, then closes
		select {
		case <-rc.started:
		case <-time.After(stepTimeout):
		}
		select {
		case <-rc.done:
			// the handler ended by itself (flood cap)
		case <-time.After(50 * time.Millisecond):
			clientClose()
		}
		for readOne() == nil {
			if len(co.msgs) > 64 {
				break
			}
		}
		return realResult{co: co, clientSaw: false}
	case c.Step:
		for i, sg := range c.Segs {
			if i > 0 {
				c.pace()
			}
			if _, err := conn.Write(c.Body[sg.Start:sg.End]); err != nil {
				if c.StopAfter > 0 && i >= c.StopAfter {
					break // the handler has ended the call already
				}
				return realResult{incon: "websocket write: " + err.Error()}
			}
			if c.StopAfter > 0 && i >= c.StopAfter {
				continue
			}
			conn.SetReadDeadline(time.Now().Add(stepTimeout))
			if err := readOne(); err != nil {
				if err == io.EOF {
					break
				}
				var ne net.Error
				if errors.As(err, &ne) && ne.Timeout() {
					return g.withheld(c, rc, i, "reply")
				}
				return realResult{incon: fmt.Sprintf("websocket read of reply %d: %v", i, err)}
			}
			conn.SetReadDeadline(time.Now().Add(opTimeout))
			g.r.Count("lockstep_rounds", 1)
		}
	default:
		for _, p := range pieces(c.Body, c.Cuts) {
			if _, err := conn.Write(p); err != nil {
				break
			}
		}
	}
	serverEnds := c.Shape == "ss" || c.StopAfter > 0
	if !serverEnds {
		if err := clientClose(); err != nil {
			return realResult{incon: "websocket close: " + err.Error()}
		}
	}
	for {
		err := readOne()
		if err == nil {
			if len(co.msgs) > len(c.Msgs)+len(c.Reply)+8 {
				break
			}
			continue
		}
		if err != io.EOF && !gotClose {
			var ne net.Error
			if errors.As(err, &ne) && ne.Timeout() {
				return realResult{incon: "websocket read timed out"}
			}
		}
		break
	}
	if serverEnds {
		clientClose()
	}
	if gotClose && serverEnds {
		// the close frame is the status channel
		co.hasStatus = true
		co.code, co.smsg = int(closeCode), closeReason
	}
	g.r.Count("ws_close_frames_seen", boolInt(gotClose))
	return realResult{co: co, clientSaw: serverEnds && gotClose || c.Shape == "bidi"}
}
