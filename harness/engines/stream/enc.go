package stream

import (
	"bytes"
	"encoding/base64"
	"encoding/json"
	"fmt"
	"math/rand"
	"strings"
	"unicode/utf16"

	"google.golang.org/protobuf/encoding/protojson"
	"google.golang.org/protobuf/encoding/protowire"
	"google.golang.org/protobuf/proto"
	"google.golang.org/protobuf/reflect/protoreflect"

	"verif/internal/vschema"
	"verif/internal/wire"
)

// ---------------------------------------------------------------- messages

func chunkDesc() protoreflect.MessageDescriptor  { return vschema.Msg("vf.Chunk") }
func uploadDesc() protoreflect.MessageDescriptor { return vschema.Msg("vf.Upload") }
func bodyDesc() protoreflect.MessageDescriptor   { return vschema.Msg("google.api.HttpBody") }

func setField(m proto.Message, name string, v protoreflect.Value) {
	r := m.ProtoReflect()
	r.Set(r.Descriptor().Fields().ByName(protoreflect.Name(name)), v)
}

func getField(m proto.Message, name string) protoreflect.Value {
	r := m.ProtoReflect()
	return r.Get(r.Descriptor().Fields().ByName(protoreflect.Name(name)))
}

// mkChunk builds a vf.Chunk; zero values leave the field unset.
func mkChunk(seq int32, data []byte, text string) proto.Message {
	m := vschema.NewMsg(chunkDesc())
	if seq != 0 {
		setField(m, "seq", protoreflect.ValueOfInt32(seq))
	}
	if len(data) > 0 {
		setField(m, "data", protoreflect.ValueOfBytes(data))
	}
	if text != "" {
		setField(m, "text", protoreflect.ValueOfString(text))
	}
	return m
}

func mkBody(ct string, data []byte) proto.Message {
	m := vschema.NewMsg(bodyDesc())
	if ct != "" {
		setField(m, "content_type", protoreflect.ValueOfString(ct))
	}
	if len(data) > 0 {
		setField(m, "data", protoreflect.ValueOfBytes(data))
	}
	return m
}

func mustMarshal(m proto.Message) []byte {
	b, err := proto.MarshalOptions{Deterministic: true}.Marshal(m)
	if err != nil {
		panic(err)
	}
	if b == nil {
		b = []byte{}
	}
	return b
}

func unmarshalAs(md protoreflect.MessageDescriptor, b []byte) proto.Message {
	m := vschema.NewMsg(md)
	if err := proto.Unmarshal(b, m); err != nil {
		panic(fmt.Sprintf("stream: harness message does not decode: %v", err))
	}
	return m
}

func prf(rng *rand.Rand, n int) []byte {
	b := make([]byte, n)
	for i := range b {
		b[i] = byte(rng.Intn(256))
	}
	return b
}

// compressible payload of n bytes that still identifies (seq, position).
func squashy(seq, n int) []byte {
	b := make([]byte, n)
	for i := range b {
		b[i] = byte('a' + (seq+i/16)%7)
	}
	return b
}

// chunkOfSize builds a Chunk{seq,data} whose binary encoding has exactly
// size bytes (size >= 5), or nil if impossible.
func chunkOfSize(seq int32, size int, fill func(n int) []byte) proto.Message {
	for n := size; n >= 0; n-- {
		m := mkChunk(seq, fill(n), "")
		if proto.Size(m) == size {
			return m
		}
	}
	return nil
}

// jsonQuote writes s as a JSON string literal in one of several spellings
// (all of them plain RFC 8259):
//
//	0  short escapes \" \\, \u00XX for controls, \uXXXX (surrogate pairs) for non-ASCII
//	1  \u005c for backslash, \u0022 for quote, \/ for solidus, non-ASCII as raw UTF-8
//	2  short escapes incl. \t \n \r \b \f, non-ASCII as raw UTF-8
func jsonQuote(s string, style int) string {
	var sb strings.Builder
	sb.WriteByte('"')
	for _, r := range s {
		switch {
		case r == '"' || r == '\\':
			if style == 1 {
				fmt.Fprintf(&sb, `\u%04x`, r)
			} else {
				sb.WriteByte('\\')
				sb.WriteRune(r)
			}
		case r == '/' && style == 1:
			sb.WriteString(`\/`)
		case r < 0x20:
			short := map[rune]string{'\t': `\t`, '\n': `\n`, '\r': `\r`, '\b': `\b`, '\f': `\f`}[r]
			if style == 2 && short != "" {
				sb.WriteString(short)
			} else {
				fmt.Fprintf(&sb, `\u%04x`, r)
			}
		case r > 0x7e && style == 0:
			if r > 0xffff {
				r1, r2 := utf16.EncodeRune(r)
				fmt.Fprintf(&sb, `\u%04x\u%04x`, r1, r2)
			} else {
				fmt.Fprintf(&sb, `\u%04x`, r)
			}
		default:
			sb.WriteRune(r)
		}
	}
	sb.WriteByte('"')
	return sb.String()
}

// chunkJSON renders a Chunk as JSON text written by the harness (not by
// larking's codec). The text is checked against protojson below.
func chunkJSON(m proto.Message) string { return chunkJSONStyle(m, 0) }

func chunkJSONStyle(m proto.Message, style int) string {
	var parts []string
	if s := getField(m, "id").String(); s != "" {
		parts = append(parts, `"id":`+jsonQuote(s, style))
	}
	if v := getField(m, "seq").Int(); v != 0 {
		parts = append(parts, fmt.Sprintf(`"seq":%d`, v))
	}
	if d := getField(m, "data").Bytes(); len(d) > 0 {
		parts = append(parts, `"data":"`+base64.StdEncoding.EncodeToString(d)+`"`)
	}
	if s := getField(m, "text").String(); s != "" {
		parts = append(parts, `"text":`+jsonQuote(s, style))
	}
	out := "{" + strings.Join(parts, ",") + "}"
	chk := vschema.NewMsg(chunkDesc())
	if err := protojson.Unmarshal([]byte(out), chk); err != nil || !proto.Equal(chk, m) {
		panic(fmt.Sprintf("stream: harness JSON %q is not the message (%v)", out, err))
	}
	var any interface{}
	if err := json.Unmarshal([]byte(out), &any); err != nil {
		panic(fmt.Sprintf("stream: harness JSON %q is not JSON (%v)", out, err))
	}
	return out
}

// hostileStrings are string values whose JSON spelling is hard on a scanner
// that frames objects by counting braces: values ending in a backslash,
// escaped quotes, backslash/quote runs, braces and brackets, escapes at the
// very end of the string.
var hostileStrings = []string{
	`a\`, `\`, `\\`, `\\\`, `C:\dir\`, `"`, `\"`, `"\`, `\\"`, `a\"\\"\`, `\"}`, `"}{"`,
	`}`, `{`, `}{`, `{"a":"}`, `]`, `[{]}`, `\}`, `\{"`, `{\"x\":{`, "tab\t", "nul\x00", "nl\n}", "snow\u2603", "\u00e9", "g\U0001d11e", "/\\/",
	`\u005c`, `\\u0022`, `ends in quote"`, `""`, `\\\\"}]`,
}

// jsonChunkOfSize builds a Chunk whose harness JSON text has exactly size
// bytes (size >= 20), or nil.
func jsonChunkOfSize(seq int32, size int) proto.Message {
	base := len(chunkJSON(mkChunk(seq, nil, "x"))) - 1
	if size < base+1 {
		return nil
	}
	fill := make([]byte, size-base)
	alphabet := "xy{}z "
	for i := range fill {
		fill[i] = alphabet[(i+int(seq))%len(alphabet)]
	}
	m := mkChunk(seq, nil, string(fill))
	if len(chunkJSON(m)) != size {
		return nil
	}
	return m
}

// ------------------------------------------------------------ request body

// Seg is the layout of one message inside the (decoded) request stream:
// framing [Start,Pre) then payload [Pre,End).
type Seg struct {
	Start int `json:"s"`
	Pre   int `json:"p"`
	End   int `json:"e"`
}

func padVarint(v uint64, k int) []byte {
	min := len(protowire.AppendVarint(nil, v))
	if k < min {
		k = min
	}
	out := make([]byte, 0, k)
	for i := 0; i < k; i++ {
		b := byte(v & 0x7f)
		v >>= 7
		if i != k-1 {
			b |= 0x80
		}
		out = append(out, b)
	}
	return out
}

// delimBody: varint length-delimited protobuf stream. padPrefix > 0 encodes
// every length with at least that many bytes (non-minimal varints).
func delimBody(msgs [][]byte, padPrefix int) ([]byte, []Seg) {
	var b []byte
	var segs []Seg
	for _, m := range msgs {
		s := Seg{Start: len(b)}
		b = append(b, padVarint(uint64(len(m)), padPrefix)...)
		s.Pre = len(b)
		b = append(b, m...)
		s.End = len(b)
		segs = append(segs, s)
	}
	return b, segs
}

// jsonBody: concatenated JSON objects. sep is written between objects and,
// with trailing, also after the last one.
func jsonBody(msgs [][]byte, sep string, trailing bool, style int) ([]byte, []Seg) {
	var b []byte
	var segs []Seg
	for i, m := range msgs {
		s := Seg{Start: len(b)}
		if i > 0 {
			b = append(b, sep...)
		}
		s.Pre = len(b)
		b = append(b, chunkJSONStyle(unmarshalAs(chunkDesc(), m), style)...)
		s.End = len(b)
		segs = append(segs, s)
	}
	if trailing && len(msgs) > 0 {
		b = append(b, sep...)
	}
	return b, segs
}

// grpcBody: gRPC length-prefixed frames (optionally gzip per message).
func grpcBody(msgs [][]byte, gz bool) ([]byte, []Seg) {
	var b []byte
	var segs []Seg
	for _, m := range msgs {
		s := Seg{Start: len(b), Pre: len(b) + 5}
		p := m
		if gz {
			p = wire.Gzip(m)
		}
		b = append(b, wire.Frame(p, gz)...)
		s.End = len(b)
		segs = append(segs, s)
	}
	return b, segs
}

// ------------------------------------------------------- response decoding

// cobs is what the client observed.
type cobs struct {
	httpCode  int
	msgs      []proto.Message
	trailing  int    // undecodable / surplus bytes after the decoded messages
	undec     string // why decoding stopped (empty = decoded completely)
	raw       []byte // raw body (HttpBody downloads)
	hasStatus bool
	code      int
	smsg      string
	ctype     string // Content-Type of an HTTP-transcoded response (what the replies were decoded as)
}

// parseJSONStream splits a body into concatenated JSON values and decodes
// each as md. Decoding stops at the first value that is not an md message.
func parseJSONStream(body []byte, md protoreflect.MessageDescriptor, co *cobs) {
	dec := json.NewDecoder(bytes.NewReader(body))
	off := 0
	for {
		var raw json.RawMessage
		if err := dec.Decode(&raw); err != nil {
			rest := bytes.TrimSpace(body[off:])
			if len(rest) > 0 {
				co.trailing = len(rest)
				co.undec = "json: " + err.Error()
			}
			return
		}
		m := vschema.NewMsg(md)
		if err := protojson.Unmarshal(raw, m); err != nil {
			co.trailing = len(body) - off
			co.undec = "protojson: " + err.Error()
			return
		}
		co.msgs = append(co.msgs, m)
		off = int(dec.InputOffset())
	}
}

func parseDelimStream(body []byte, md protoreflect.MessageDescriptor, co *cobs) {
	for len(body) > 0 {
		n, k := protowire.ConsumeVarint(body)
		if k <= 0 || uint64(len(body)-k) < n {
			co.trailing = len(body)
			co.undec = "delimited stream: incomplete message"
			return
		}
		m := vschema.NewMsg(md)
		if err := proto.Unmarshal(body[k:k+int(n)], m); err != nil {
			co.trailing = len(body)
			co.undec = "proto: " + err.Error()
			return
		}
		co.msgs = append(co.msgs, m)
		body = body[k+int(n):]
	}
}

func parseFrames(frames []wire.GFrame, md protoreflect.MessageDescriptor, co *cobs) {
	for _, f := range frames {
		if f.Trailer() {
			continue
		}
		data := f.Data
		if f.Compressed() {
			d, err := wire.Gunzip(data)
			if err != nil {
				co.undec = "gunzip: " + err.Error()
				return
			}
			data = d
		}
		m := vschema.NewMsg(md)
		if err := proto.Unmarshal(data, m); err != nil {
			co.undec = "proto: " + err.Error()
			return
		}
		co.msgs = append(co.msgs, m)
	}
}
