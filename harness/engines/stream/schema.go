// Package stream is the C06 engine: stream sequence fidelity on every
// streaming transport. A recording streaming handler logs every message it
// receives and the terminal error of its receive loop; the client side logs
// what it sent and what it got back. Oracles compare the two logs.
package stream

import (
	"context"
	"errors"
	"fmt"
	"io"
	"net"
	"net/http"
	"net/http/httptest"
	"sync"
	"time"

	"github.com/gobwas/ws"
	"github.com/gobwas/ws/wsutil"
	"google.golang.org/genproto/googleapis/api/annotations"
	"google.golang.org/grpc"
	"google.golang.org/grpc/codes"
	"google.golang.org/grpc/metadata"
	"google.golang.org/grpc/status"
	"google.golang.org/protobuf/proto"
	"google.golang.org/protobuf/reflect/protoreflect"
	"google.golang.org/protobuf/types/descriptorpb"
	"larking.io/larking"

	"verif/internal/backend"
	"verif/internal/mon"
	"verif/internal/vschema"
	"verif/internal/wire"
)

func post(p, body string) *annotations.HttpRule {
	return &annotations.HttpRule{Pattern: &annotations.HttpRule_Post{Post: p}, Body: body}
}
func get(p string) *annotations.HttpRule {
	return &annotations.HttpRule{Pattern: &annotations.HttpRule_Get{Get: p}}
}
func wsr(p, body string) *annotations.HttpRule {
	return &annotations.HttpRule{Pattern: &annotations.HttpRule_Custom{Custom: &annotations.CustomHttpPattern{Kind: "websocket", Path: p}}, Body: body}
}
func with(r *annotations.HttpRule, adds ...*annotations.HttpRule) *annotations.HttpRule {
	r.AdditionalBindings = adds
	return r
}

const svcPkg = "vf.strm"

// file describes the streaming service used by the engine:
//
//	CS(stream Chunk) Chunk            POST /cs body:*      | WEBSOCKET /wscs body:*
//	SS(Chunk) stream Chunk            POST /ss body:*      | GET /ssg/{id} | WEBSOCKET /wsss body:*
//	Bidi(stream Chunk) stream Chunk   POST /bidi body:*    | WEBSOCKET /ws body:*
//	BidiNB(stream Chunk) stream Chunk WEBSOCKET /wsn/{id}  (no body)
//	Upload(stream Upload) Rsp         POST /upload/{name} body:file
//	UpEcho(stream Upload) stream Chunk POST /upecho/{name} body:file
//	Download(Req) stream HttpBody     GET /download/{a}
//	CSX(stream Chunk) Item            POST /csx body:*     (reply type differs from the request type;
//	SSX(Chunk) stream Item            POST /ssx body:*      vf.strm.Item has the field layout of vf.Chunk)
//	BidiX(stream Chunk) stream Item   POST /bidix body:*
func file() *vschema.File {
	item := &descriptorpb.DescriptorProto{Name: proto.String("Item"), Field: []*descriptorpb.FieldDescriptorProto{
		vschema.StrField("id", 1), itemField("seq", 2, descriptorpb.FieldDescriptorProto_TYPE_INT32), itemField("data", 3, descriptorpb.FieldDescriptorProto_TYPE_BYTES),
		vschema.StrField("text", 4), vschema.StrField("script", 5), vschema.StrField("tag", 6),
	}}
	return &vschema.File{Path: "vf/strm.proto", Pkg: svcPkg, Messages: []*descriptorpb.DescriptorProto{item}, Services: []vschema.Service{{Name: "Strm", Methods: []vschema.Method{
		{Name: "CSX", In: "vf.Chunk", Out: svcPkg + ".Item", CS: true, Rule: post("/csx", "*")},
		{Name: "SSX", In: "vf.Chunk", Out: svcPkg + ".Item", SS: true, Rule: post("/ssx", "*")},
		{Name: "BidiX", In: "vf.Chunk", Out: svcPkg + ".Item", CS: true, SS: true, Rule: post("/bidix", "*")},
		{Name: "CS", In: "vf.Chunk", Out: "vf.Chunk", CS: true, Rule: with(post("/cs", "*"), wsr("/wscs", "*"))},
		{Name: "SS", In: "vf.Chunk", Out: "vf.Chunk", SS: true, Rule: with(post("/ss", "*"), get("/ssg/{id}"), wsr("/wsss", "*"))},
		{Name: "Bidi", In: "vf.Chunk", Out: "vf.Chunk", CS: true, SS: true, Rule: with(post("/bidi", "*"), wsr("/ws", "*"))},
		{Name: "BidiNB", In: "vf.Chunk", Out: "vf.Chunk", CS: true, SS: true, Rule: wsr("/wsn/{id}", "")},
		{Name: "Upload", In: "vf.Upload", Out: "vf.Rsp", CS: true, Rule: post("/upload/{name}", "file")},
		{Name: "UpEcho", In: "vf.Upload", Out: "vf.Chunk", CS: true, SS: true, Rule: post("/upecho/{name}", "file")},
		{Name: "Download", In: "vf.Req", Out: "google.api.HttpBody", SS: true, Rule: get("/download/{a}")},
	}}}}
}

func itemField(name string, num int32, t descriptorpb.FieldDescriptorProto_Type) *descriptorpb.FieldDescriptorProto {
	f := vschema.StrField(name, num)
	f.Type = t.Enum()
	return f
}

// itemDesc is vf.strm.Item, the reply type of the methods whose request and
// reply message types differ.
func itemDesc() protoreflect.MessageDescriptor {
	buildOnce.Do(func() { builtFD, buildErr = file().Build() })
	if buildErr != nil {
		panic(buildErr)
	}
	return builtFD.Messages().ByName("Item")
}

func full(method string) string { return "/" + svcPkg + ".Strm/" + method }

// script tells the recording handler what to do for one stream.
type script struct {
	// Echo: reply to every received message right away (interleaved); only
	// used on full-duplex transports. Otherwise the handler reads to the end
	// of the stream first.
	Echo bool
	// Reply holds the wire bytes of the messages sent after the receive
	// phase (server-streaming methods), or the single reply (client
	// streaming).
	Reply [][]byte
	// Final status returned by the handler (0 = nil).
	Final    int
	FinalMsg string
	// Reader / Writer: use AsHTTPBodyReader / AsHTTPBodyWriter.
	Reader, Writer bool
	// MaxRecv caps the number of messages accepted (phantom floods).
	MaxRecv int
	// StopAfter > 0: stop receiving after that many messages (the handler
	// ends the call while the client's stream is still open).
	StopAfter int
	// EchoMode shapes the echoed reply: "" same as the request, "long"
	// about three times longer, "short" only the sequence number.
	// EchoEvery > 1 replies only after every EchoEvery-th message.
	EchoMode  string
	EchoEvery int
	// Interfere: between a receive and the reply, serve an unrelated request
	// on the same mux from the handler's goroutine (shared buffer pools).
	Interfere bool
	Limit     int
	// Asset: download handlers serving long-lived memory: "subslice" sends
	// sub-slices of env.asset, "reuse" copies every chunk into one buffer the
	// handler keeps for all its chunks.
	Asset string
	// Duplex: Reply is pushed by a second goroutine while the handler's main
	// loop is receiving (genuinely full-duplex handler).
	Duplex bool
}

// rec is the handler-side log of one stream. All access goes through mu.
type rec struct {
	mu       sync.Mutex
	sc       script
	method   string
	entered  bool
	recv     []proto.Message
	recvErr  error // terminal error of the receive loop (nil until reached)
	recvEnd  bool
	overrun  bool
	raw      []byte // AsHTTPBodyReader passthrough
	rawErr   error
	sent     []proto.Message
	sendErr  error
	ret      error
	finished bool
	done     chan struct{}
	started  chan struct{}
}

type snapshot struct {
	entered  bool
	recv     []proto.Message
	recvErr  error
	recvEnd  bool
	overrun  bool
	raw      []byte
	rawErr   error
	sent     []proto.Message
	sendErr  error
	ret      error
	finished bool
}

func (rc *rec) snap() snapshot {
	rc.mu.Lock()
	defer rc.mu.Unlock()
	return snapshot{rc.entered, append([]proto.Message(nil), rc.recv...), rc.recvErr, rc.recvEnd, rc.overrun,
		append([]byte(nil), rc.raw...), rc.rawErr, append([]proto.Message(nil), rc.sent...), rc.sendErr, rc.ret, rc.finished}
}

func (rc *rec) sentN() int {
	rc.mu.Lock()
	defer rc.mu.Unlock()
	return len(rc.sent)
}

// env holds the service, the muxes (one per receive limit) and the servers.
type env struct {
	r     *mon.Run
	sd    protoreflect.ServiceDescriptor
	fd    protoreflect.FileDescriptor
	muxes map[int]*larking.Mux
	// optMuxes: default-limit muxes built with further options (server
	// option dimension of the socket lanes), keyed by option class
	optMuxes map[string]*larking.Mux
	// long-lived handler memory (Asset lanes) and its pristine copy
	asset, assetCopy, reuseBuf []byte
	// proxied target: a mux that reaches the same recording handler through
	// RegisterConn and a real gRPC back-end (started on first use)
	be       *backend.Backend
	proxyMux *larking.Mux
	proxyErr error

	mu      sync.Mutex
	recs    map[string]*rec
	seq     int
	servers map[string]*wire.Server
}

var (
	buildOnce sync.Once
	builtFD   protoreflect.FileDescriptor
	buildErr  error
)

func newEnv(r *mon.Run, limits []int) (*env, error) {
	buildOnce.Do(func() { builtFD, buildErr = file().Build() })
	if buildErr != nil {
		return nil, buildErr
	}
	e := &env{r: r, fd: builtFD, sd: builtFD.Services().ByName("Strm"), muxes: map[int]*larking.Mux{}, recs: map[string]*rec{}, servers: map[string]*wire.Server{}}
	for _, L := range append([]int{0}, limits...) {
		if _, ok := e.muxes[L]; ok {
			continue
		}
		var opts []larking.MuxOption
		if L > 0 {
			opts = append(opts, larking.MaxReceiveMessageSizeOption(L))
		}
		mux, err := e.newMux(opts...)
		if err != nil {
			return nil, err
		}
		e.muxes[L] = mux
	}
	e.asset = make([]byte, 8192)
	x := uint32(2463534242)
	for i := range e.asset {
		x ^= x << 13
		x ^= x >> 17
		x ^= x << 5
		e.asset[i] = byte(x >> 11)
	}
	e.assetCopy = append([]byte(nil), e.asset...)
	e.reuseBuf = make([]byte, 4096)
	e.optMuxes = map[string]*larking.Mux{}
	for opt, d := range map[string]time.Duration{"conn-timeout-small": connTimeoutSmall, "conn-timeout-large": time.Hour} {
		mux, err := e.newMux(larking.ConnectionTimeoutOption(d))
		if err != nil {
			return nil, err
		}
		e.optMuxes[opt] = mux
	}
	return e, nil
}

// connTimeoutSmall is the small ConnectionTimeoutOption of the server-option
// lanes; paced clients keep their streams open several times longer.
const connTimeoutSmall = 200 * time.Millisecond

const urlPrefix = "/api" // MuxHandleOption lanes

func (e *env) newMux(extra ...larking.MuxOption) (*larking.Mux, error) {
	reg, err := vschema.Registry(e.fd)
	if err != nil {
		return nil, err
	}
	mux, err := larking.NewMux(append([]larking.MuxOption{larking.FilesOption(reg)}, extra...)...)
	if err != nil {
		return nil, err
	}
	if err := larking.VerifRegisterService(mux, vschema.ServiceDesc(e.sd, e), struct{}{}); err != nil {
		return nil, err
	}
	return mux, nil
}

// proxied returns the mux whose only route to the handler is a back-end
// registered with RegisterConn.
func (e *env) proxied() (*larking.Mux, error) {
	e.mu.Lock()
	defer e.mu.Unlock()
	if e.proxyMux != nil || e.proxyErr != nil {
		return e.proxyMux, e.proxyErr
	}
	be, err := backend.Start("strm", true, backend.Svc{SD: e.sd, Impl: e})
	if err != nil {
		e.proxyErr = err
		return nil, err
	}
	mux, err := larking.NewMux()
	if err == nil {
		ctx, cancel := context.WithTimeout(context.Background(), 20*time.Second)
		err = mux.RegisterConn(ctx, be.CC)
		cancel()
	}
	if err != nil {
		be.Close()
		e.proxyErr = err
		return nil, err
	}
	e.be, e.proxyMux = be, mux
	return mux, nil
}

func (e *env) close() {
	e.mu.Lock()
	defer e.mu.Unlock()
	if e.be != nil {
		e.be.Close()
		e.be = nil
	}
	for _, s := range e.servers {
		s.Close()
	}
	e.servers = map[string]*wire.Server{}
}

// server returns (starting it on first use) the real server for a mux limit
// and a fragmenting-listener width (0 = plain listener).
//
// opt selects the server-option class: "" none, "conn-timeout-small" /
// "conn-timeout-large" a mux built with ConnectionTimeoutOption, "prefix" a
// server built with MuxHandleOption(urlPrefix+"/").
func (e *env) server(limit, frag int, opt string) (*wire.Server, error) {
	e.mu.Lock()
	defer e.mu.Unlock()
	k := fmt.Sprintf("%d/%d/%s", limit, frag, opt)
	if s, ok := e.servers[k]; ok {
		return s, nil
	}
	mux, ok := e.muxes[limit]
	if m, isOpt := e.optMuxes[opt]; isOpt {
		mux, ok = m, true
	}
	if opt == "proxied" {
		e.mu.Unlock()
		m, err := e.proxied()
		e.mu.Lock()
		if err != nil {
			return nil, err
		}
		if s, ok := e.servers[k]; ok {
			return s, nil
		}
		mux, ok = m, true
	}
	if !ok {
		return nil, fmt.Errorf("no mux for limit %d", limit)
	}
	var sopts []larking.ServerOption
	if opt == "prefix" {
		sopts = append(sopts, larking.MuxHandleOption(urlPrefix+"/"))
	}
	var wrap func(net.Listener) net.Listener
	if frag > 0 {
		wrap = wire.Frag(frag)
	}
	s, err := wire.StartLarking(mux, wrap, sopts...)
	if err != nil {
		return nil, err
	}
	e.servers[k] = s
	return s, nil
}

// open registers a recorder for a new stream and returns its id (sent by the
// client in the x-case header).
func (e *env) open(sc script) (string, *rec) {
	e.mu.Lock()
	defer e.mu.Unlock()
	e.seq++
	id := fmt.Sprintf("k%d", e.seq)
	rc := &rec{sc: sc, done: make(chan struct{}), started: make(chan struct{})}
	e.recs[id] = rc
	return id, rc
}

func (e *env) drop(id string) {
	e.mu.Lock()
	delete(e.recs, id)
	e.mu.Unlock()
}

func (e *env) lookup(ctx context.Context) *rec {
	md, _ := metadata.FromIncomingContext(ctx)
	v := md.Get("x-case")
	if len(v) == 0 {
		return nil
	}
	e.mu.Lock()
	defer e.mu.Unlock()
	return e.recs[v[0]]
}

func (e *env) Unary(ctx context.Context, md protoreflect.MethodDescriptor, in proto.Message) (proto.Message, error) {
	return nil, status.Error(codes.Unimplemented, "no unary methods")
}

var errStopped = errors.New("verif: handler stopped receiving")

// cleanEnd reports whether a terminal receive error is a clean end of
// stream. On WebSocket the client's close frame is the end-of-stream signal.
func cleanEnd(err error, websocket bool) bool {
	if err == io.EOF {
		return true
	}
	if websocket {
		var ce wsutil.ClosedError
		if errors.As(err, &ce) {
			switch ce.Code {
			case ws.StatusNormalClosure, ws.StatusGoingAway, ws.StatusNoStatusRcvd:
				return true
			}
		}
	}
	return false
}

func isWS(ctx context.Context) bool {
	md, _ := metadata.FromIncomingContext(ctx)
	return len(md.Get("x-ws")) > 0
}

// Stream is the recording handler.
func (e *env) Stream(md protoreflect.MethodDescriptor, ss grpc.ServerStream) (ret error) {
	rc := e.lookup(ss.Context())
	if rc == nil {
		return status.Error(codes.FailedPrecondition, "verif: unknown case")
	}
	rc.mu.Lock()
	if rc.entered {
		rc.mu.Unlock()
		return status.Error(codes.FailedPrecondition, "verif: case id reused")
	}
	rc.entered = true
	rc.method = string(md.Name())
	sc := rc.sc
	rc.mu.Unlock()
	close(rc.started)
	defer func() {
		rc.mu.Lock()
		rc.ret = ret
		rc.finished = true
		rc.mu.Unlock()
		close(rc.done)
	}()
	websocket := isWS(ss.Context())

	send := func(b []byte) error {
		m := vschema.NewMsg(md.Output())
		if err := proto.Unmarshal(b, m); err != nil {
			return err
		}
		if err := ss.SendMsg(m); err != nil {
			rc.mu.Lock()
			rc.sendErr = err
			rc.mu.Unlock()
			return err
		}
		rc.mu.Lock()
		rc.sent = append(rc.sent, proto.Clone(m))
		rc.mu.Unlock()
		return nil
	}
	final := func() error {
		if sc.Final == 0 {
			return nil
		}
		return status.Error(codes.Code(sc.Final), sc.FinalMsg)
	}

	if sc.Reader {
		first := vschema.NewMsg(md.Input())
		body, err := larking.AsHTTPBodyReader(ss, first)
		if err != nil {
			rc.mu.Lock()
			rc.recvErr, rc.recvEnd = err, true
			rc.mu.Unlock()
			return err
		}
		buf := make([]byte, 0, 512)
		var rerr error
		for {
			if len(buf) == cap(buf) {
				buf = append(buf, 0)[:len(buf)]
			}
			n, err := body.Read(buf[len(buf):cap(buf)])
			buf = buf[:len(buf)+n]
			if err != nil {
				rerr = err
				break
			}
		}
		rc.mu.Lock()
		rc.recv = append(rc.recv, proto.Clone(first))
		rc.raw, rc.rawErr = buf, rerr
		rc.recvErr, rc.recvEnd = rerr, true
		rc.mu.Unlock()
		if rerr != io.EOF {
			return rerr
		}
		if len(sc.Reply) > 0 {
			if err := send(sc.Reply[0]); err != nil {
				return err
			}
		}
		return final()
	}

	// receive phase
	var recvErr error
	var echoErr error
	var pushDone chan error
	if sc.Duplex && md.IsStreamingServer() {
		pushDone = make(chan error, 1)
		go func() {
			for _, b := range sc.Reply {
				if err := send(b); err != nil {
					pushDone <- err
					return
				}
			}
			pushDone <- nil
		}()
		defer func() {
			if pushDone != nil {
				<-pushDone
			}
		}()
	}
	if md.IsStreamingClient() {
		n := 0
		for {
			in := vschema.NewMsg(md.Input())
			err := ss.RecvMsg(in)
			if err != nil {
				recvErr = err
				break
			}
			rc.mu.Lock()
			rc.recv = append(rc.recv, proto.Clone(in))
			rc.mu.Unlock()
			n++
			if n > sc.MaxRecv {
				rc.mu.Lock()
				rc.overrun = true
				rc.mu.Unlock()
				return status.Error(codes.ResourceExhausted, "verif: more messages than the client sent")
			}
			if sc.Echo && md.IsStreamingServer() {
				if sc.Interfere {
					e.interfere(sc.Limit)
				}
				if (sc.EchoEvery <= 1 || n%sc.EchoEvery == 0) && echoErr == nil {
					// after a failed send (client gone) keep receiving so
					// that the terminal event of the stream is observed
					echoErr = send(echoReply(in, n, sc.EchoMode))
				}
			}
			if sc.StopAfter > 0 && n >= sc.StopAfter {
				break
			}
		}
	} else {
		in := vschema.NewMsg(md.Input())
		if err := ss.RecvMsg(in); err != nil {
			rc.mu.Lock()
			rc.recvErr, rc.recvEnd = err, true
			rc.mu.Unlock()
			return err
		}
		rc.mu.Lock()
		rc.recv = append(rc.recv, proto.Clone(in))
		rc.mu.Unlock()
		recvErr = io.EOF
	}
	if recvErr == nil {
		// stopped early: the terminal event of the stream is not observed
		recvErr = errStopped
	} else {
		rc.mu.Lock()
		rc.recvErr, rc.recvEnd = recvErr, true
		rc.mu.Unlock()
	}
	if recvErr != errStopped && !cleanEnd(recvErr, websocket) {
		return recvErr
	}
	if echoErr != nil {
		return echoErr
	}

	// send phase
	if pushDone != nil {
		err := <-pushDone
		pushDone = nil
		if err != nil {
			return err
		}
		return final()
	}
	if sc.Asset != "" {
		// chunk sizes come from Reply; the bytes from the long-lived asset
		off := 0
		for _, b := range sc.Reply {
			m := vschema.NewMsg(md.Output())
			if err := proto.Unmarshal(b, m); err != nil {
				return err
			}
			n := len(getField(m, "data").Bytes())
			if off+n > len(e.asset) || n > len(e.reuseBuf) {
				return status.Error(codes.OutOfRange, "verif: asset too small")
			}
			piece := e.asset[off : off+n]
			if sc.Asset == "reuse" {
				copy(e.reuseBuf, piece)
				piece = e.reuseBuf[:n]
			}
			off += n
			if n > 0 {
				setField(m, "data", protoreflect.ValueOfBytes(piece))
			}
			if err := ss.SendMsg(m); err != nil {
				rc.mu.Lock()
				rc.sendErr = err
				rc.mu.Unlock()
				return err
			}
			rc.mu.Lock()
			rc.sent = append(rc.sent, proto.Clone(m))
			rc.mu.Unlock()
		}
		return final()
	}
	if sc.Writer {
		first := vschema.NewMsg(md.Output())
		if len(sc.Reply) > 0 {
			if err := proto.Unmarshal(sc.Reply[0], first); err != nil {
				return err
			}
		}
		w, err := larking.AsHTTPBodyWriter(ss, first)
		if err != nil {
			rc.mu.Lock()
			rc.sendErr = err
			rc.mu.Unlock()
			return err
		}
		for _, b := range sc.Reply {
			m := vschema.NewMsg(md.Output())
			if err := proto.Unmarshal(b, m); err != nil {
				return err
			}
			data := m.ProtoReflect().Get(m.ProtoReflect().Descriptor().Fields().ByName("data")).Bytes()
			if _, err := w.Write(data); err != nil {
				rc.mu.Lock()
				rc.sendErr = err
				rc.mu.Unlock()
				return err
			}
			rc.mu.Lock()
			rc.sent = append(rc.sent, proto.Clone(m))
			rc.mu.Unlock()
		}
		return final()
	}
	for _, b := range sc.Reply {
		if err := send(b); err != nil {
			return err
		}
	}
	return final()
}

// echoReply builds the wire bytes of the vf.Chunk echoed for a received
// vf.Chunk or vf.Upload.
func echoReply(in proto.Message, n int, mode string) []byte {
	var seq int32
	var data []byte
	var text string
	if in.ProtoReflect().Descriptor().FullName() == "vf.Upload" {
		seq = int32(n)
		f := getField(in, "file").Message().Interface()
		data = getField(f, "data").Bytes()
	} else {
		if mode == "" {
			return mustMarshal(in)
		}
		seq = int32(getField(in, "seq").Int())
		data = getField(in, "data").Bytes()
		text = getField(in, "text").String()
	}
	switch mode {
	case "short":
		return mustMarshal(mkChunk(seq, nil, ""))
	case "long":
		long := append(append(append([]byte(nil), data...), data...), data...)
		m := mkChunk(seq, long, text)
		setField(m, "tag", protoreflect.ValueOfString(fmt.Sprintf("reply-%03d-%s", n, "0123456789abcdefghijklmnopqrstuvwxyz0123456789")))
		return mustMarshal(m)
	}
	return mustMarshal(mkChunk(seq, data, text))
}

// interfere serves an unrelated server-streaming request on the same mux
// from the calling goroutine.
func (e *env) interfere(limit int) {
	mux := e.muxes[limit]
	if mux == nil {
		return
	}
	id, _ := e.open(script{Reply: [][]byte{mustMarshal(mkChunk(7, nil, "interfering reply interfering reply interfering reply"))}, MaxRecv: 4})
	defer e.drop(id)
	body := []byte(`{"seq":9,"text":"interfering request interfering request interfering"}`)
	if limit > 0 && len(body) > limit {
		body = []byte(`{}`)
	}
	req := wire.BodyRequest("POST", "/ss", "", http.Header{"X-Case": {id}, "Content-Type": {"application/json"}}, body)
	mon.Catch(func() { mux.ServeHTTP(httptest.NewRecorder(), req) })
	e.r.Count("interfering_requests", 1)
}
