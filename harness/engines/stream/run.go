package stream

import (
	"bytes"
	"encoding/base64"
	"encoding/json"
	"fmt"
	"math/rand"
	"os"
	"sort"
	"strings"
	"time"

	"google.golang.org/protobuf/encoding/protowire"
	"google.golang.org/protobuf/proto"
	"google.golang.org/protobuf/reflect/protoreflect"

	"verif/internal/mon"
	"verif/internal/wire"
)

type tcombo struct{ T, Codec, CE string }

var msgTransports = []tcombo{
	{"http", "json", ""}, {"http", "proto", ""}, {"http", "json", "gzip"}, {"http", "proto", "gzip"},
	{"grpc", "proto", ""}, {"grpc", "gzip", ""}, {"grpc-web", "proto", ""}, {"grpc-web-text", "proto", ""},
}

type gen struct {
	r   *mon.Run
	e   *env
	rng *rand.Rand

	skipWebH2    bool
	withheldSeen map[string]bool
}

// msgs materialises a sequence of message kinds:
//
//	E empty, T tiny {seq}, X JSON-hostile text, D<n> n PRF bytes, A exactly at the limit,
//	H<i> / I<i> hostileStrings[i] as the last (text) / first (id) field
func (g *gen) msgs(kinds []string, tc tcombo, limit int) [][]byte {
	out := [][]byte{}
	for i, k := range kinds {
		seq := int32(i + 1)
		var m proto.Message
		switch {
		case k == "E":
			m = mkChunk(0, nil, "")
		case k == "T":
			m = mkChunk(seq, nil, "")
		case k == "X":
			m = mkChunk(seq, nil, `}{"\x`)
		case k[0] == 'H' || k[0] == 'I':
			// hostile string in the last (text) or first (id) field
			var i int
			fmt.Sscanf(k[1:], "%d", &i)
			h := hostileStrings[i%len(hostileStrings)]
			if k[0] == 'H' {
				m = mkChunk(seq, nil, h)
			} else {
				m = mkChunk(seq, nil, "")
				setField(m, "id", protoreflect.ValueOfString(h))
			}
		case k == "A":
			if limit <= 0 {
				limit = 200
			}
			if tc.Codec == "json" {
				m = jsonChunkOfSize(seq, limit)
			} else if tc.Codec == "gzip" {
				m = chunkOfSize(seq, limit, func(n int) []byte { return squashy(int(seq), n) })
			} else {
				m = chunkOfSize(seq, limit, func(n int) []byte { return prf(g.rng, n) })
			}
			if m == nil {
				m = mkChunk(seq, nil, "")
			}
		case k == "AR":
			// at the limit and highly compressible
			if limit <= 0 {
				limit = 200
			}
			if tc.Codec == "json" {
				m = jsonChunkOfSize(seq, limit)
			} else {
				m = chunkOfSize(seq, limit, func(n int) []byte { return bytes.Repeat([]byte{'a'}, n) })
			}
			if m == nil {
				m = mkChunk(seq, nil, "")
			}
		case k[0] == 'R':
			// a run of one byte
			var n int
			fmt.Sscanf(k[1:], "%d", &n)
			m = mkChunk(seq, nil, strings.Repeat("a", n))
		case k[0] == 'P':
			// periodic text
			var n int
			fmt.Sscanf(k[1:], "%d", &n)
			m = mkChunk(seq, nil, strings.Repeat("the quick brown fox {jumps} ", n/28+1)[:n])
		case strings.HasPrefix(k, "D"):
			var n int
			fmt.Sscanf(k[1:], "%d", &n)
			if tc.Codec == "gzip" {
				m = mkChunk(seq, squashy(int(seq), n), "")
			} else {
				m = mkChunk(seq, prf(g.rng, n), "")
			}
		default:
			panic("kind " + k)
		}
		out = append(out, mustMarshal(m))
	}
	return out
}

type bodyOpt struct {
	sep      string
	trailing bool
	pad      int
	style    int // JSON string spelling (jsonQuote)
	// gzip Content-Encoding: member layout of the encoded body.
	//   "" single member | per-message | random (g.rng cuts, also inside
	//   messages and length prefixes) | empty-between | empty-end | empty-start
	members string
	rng     *rand.Rand
	// grpc-web-text: "" one base64 text for the whole body | per-frame
	b64 string
}

// gzipMembers encodes stream as a sequence of gzip members (RFC 1952 2.2)
// starting a new member at each cut; an empty member is inserted where asked.
func gzipMembers(stream []byte, cuts []int, empty string) []byte {
	var out []byte
	if empty == "empty-start" {
		out = append(out, wire.Gzip(nil)...)
	}
	prev := 0
	parts := 0
	for _, c := range append(append([]int(nil), cuts...), len(stream)) {
		if c < prev || c > len(stream) || c == prev && parts > 0 {
			continue
		}
		if parts > 0 && empty == "empty-between" {
			out = append(out, wire.Gzip(nil)...)
		}
		out = append(out, wire.Gzip(stream[prev:c])...)
		parts++
		prev = c
	}
	if empty == "empty-end" {
		out = append(out, wire.Gzip(nil)...)
	}
	return out
}

func memberCuts(o bodyOpt, stream []byte, segs []Seg) (cuts []int, empty string) {
	switch o.members {
	case "per-message":
		for _, s := range segs {
			cuts = append(cuts, s.End)
		}
	case "random":
		n := len(stream)
		for i := 0; n > 1 && i < 1+o.rng.Intn(4); i++ {
			cuts = append(cuts, 1+o.rng.Intn(n-1))
		}
		// also right inside the framing of a message
		if len(segs) > 1 {
			s := segs[1+o.rng.Intn(len(segs)-1)]
			cuts = append(cuts, s.Start+1)
		}
		sort.Ints(cuts)
	case "empty-between", "empty-end", "empty-start":
		empty = o.members
		for i, s := range segs {
			if i%2 == 0 {
				cuts = append(cuts, s.End)
			}
		}
		if len(segs) == 0 && len(stream) > 1 {
			cuts = append(cuts, len(stream)/2)
		}
	}
	return cuts, empty
}

// build fills Body and Segs of a message-stream case from its Msgs.
func build(c *Case, o bodyOpt) {
	var stream []byte
	var segs []Seg
	switch {
	case c.isUpload():
		stream = c.Msgs[0]
	case c.T == "http" && !c.clientStreams():
		// one undelimited request message
		if len(c.Msgs) > 0 {
			if c.Codec == "json" {
				stream = []byte(chunkJSONStyle(unmarshalAs(chunkDesc(), c.Msgs[0]), o.style))
			} else {
				stream = c.Msgs[0]
			}
			segs = []Seg{{0, 0, len(stream)}}
		}
	case c.T == "http" && c.Codec == "json":
		stream, segs = jsonBody(c.Msgs, o.sep, o.trailing, o.style)
	case c.T == "http":
		stream, segs = delimBody(c.Msgs, o.pad)
	default:
		stream, segs = grpcBody(c.Msgs, c.Codec == "gzip")
	}
	if stream == nil {
		stream = []byte{}
	}
	switch {
	case c.CE == "gzip":
		if c.isUpload() && o.members == "per-message" {
			o.members = "random"
		}
		cuts, empty := memberCuts(o, stream, segs)
		stream = gzipMembers(stream, cuts, empty)
		c.Members = o.members
	case c.T == "grpc-web-text" && o.b64 == "per-frame":
		// every frame is a base64 text of its own (padded unless its length
		// is a multiple of three)
		var txt []byte
		for _, sg := range segs {
			txt = append(txt, b64(stream[sg.Start:sg.End])...)
		}
		stream = txt
		c.B64 = o.b64
	case c.T == "grpc-web-text":
		stream = b64(stream)
	}
	c.Body, c.Segs = stream, segs
}

// schedules enumerates read schedules of n bytes: every partition when n is
// small enough, otherwise one read, 1-byte reads and sampled partitions.
func (g *gen) schedules(n, exhaustiveUpTo, samples int, f func(cuts []int, class string)) {
	if n <= exhaustiveUpTo {
		wire.Partitions(n, func(cuts []int) { f(append([]int(nil), cuts...), "all-partitions") })
		return
	}
	f(nil, "one-read")
	ones := make([]int, n)
	for i := range ones {
		ones[i] = 1
	}
	f(ones, "byte-reads")
	for s := 0; s < samples; s++ {
		f(g.randomCuts(n), "random-partition")
	}
}

func (g *gen) randomCuts(n int) []int {
	var cuts []int
	left := n
	for left > 0 {
		var k int
		switch g.rng.Intn(4) {
		case 0:
			k = 1
		case 1:
			k = 1 + g.rng.Intn(3)
		case 2:
			k = 1 + g.rng.Intn(16)
		default:
			k = 1 + g.rng.Intn(left)
		}
		if k > left {
			k = left
		}
		cuts = append(cuts, k)
		left -= k
	}
	return cuts
}

func shapeKey(c *Case, ex expect, outcome string) string {
	n := len(c.Msgs)
	if n > 3 {
		n = 3
	}
	style := "eof-separate"
	if c.EOFWithData {
		style = "eof-with-data"
	}
	if c.TruncErr {
		style = "abort"
	}
	shape := c.Shape
	if c.Echo {
		shape += fmt.Sprintf("+echo-%s/%d", c.EchoMode, c.EchoEvery)
		if c.Interfere {
			shape += "+interfering-request"
		}
	}
	if c.Conc > 1 {
		shape += "+concurrent"
	}
	if c.Members != "" {
		shape += "+gzip-members-" + c.Members
	}
	if c.B64 != "" {
		shape += "+base64-" + c.B64
	}
	if c.CT != "" {
		shape += "+body-type-" + c.CT
	}
	if c.KnownLen {
		shape += "+content-length"
	}
	if c.Asset != "" {
		shape += "+asset-" + c.Asset
	}
	if c.Bad != "" {
		shape += "+bad-" + c.Bad
	}
	if c.Duplex {
		shape += "+full-duplex"
	}
	if c.Poison {
		shape += "+after-failed-decompression"
	}
	if c.SrvOpt != "" || c.PaceMs > 0 {
		shape += fmt.Sprintf("+srv-%s/paced=%v", c.SrvOpt, c.PaceMs > 0)
	}
	return fmt.Sprintf("%s/%s/%s/%s/msgs=%d/%s/%s/%s/%s", c.Lane, c.T, c.codecName(), shape, n, c.Sched, style, ex.class, outcome)
}

// run executes one in-process case and records what was observed.
func (g *gen) run(c *Case) {
	c.Lane = "inproc"
	vs, outcome := g.e.execInproc(c)
	g.account(c, vs, outcome)
}

func (g *gen) account(c *Case, vs []viol, outcome string) {
	r := g.r
	r.Eval(1)
	r.Count("streams_"+c.Lane, 1)
	ex := c.expectation()
	if !ex.clean {
		r.Count("truncated_or_aborted_streams", 1)
	}
	if len(c.Cuts) > 1 || c.Lane != "inproc" || !ex.clean || len(c.Reply) > 1 {
		r.Distinct(shapeKey(c, ex, outcome))
	}
	for _, v := range vs {
		r.Violate(v.key, v.what, c)
	}
	if r.SampleN() < 6 && g.rng.Intn(3000) == 0 {
		r.Sample(map[string]any{"lane": c.Lane, "transport": c.T, "codec": c.codecName(), "shape": c.Shape, "msgs": len(c.Msgs), "body_len": len(c.Body), "cuts": c.Cuts, "eof_with_data": c.EOFWithData, "trunc": c.Trunc, "sched": c.Sched, "outcome": outcome})
	}
}

func (g *gen) timed(name string, f func()) {
	t0 := time.Now()
	f()
	if debug {
		fmt.Fprintf(os.Stderr, "lane %s: %v\n", name, time.Since(t0))
	}
}

func clone(c *Case) *Case {
	d := *c
	return &d
}

// sweepSchedules runs a clean (untruncated) case under its read schedules in
// both end-of-stream styles.
func (g *gen) sweepSchedules(c *Case, exhaustiveUpTo, samples int) {
	n := len(c.Body)
	g.schedules(n, exhaustiveUpTo, samples, func(cuts []int, class string) {
		for _, ewd := range []bool{false, true} {
			if n == 0 && ewd {
				continue
			}
			d := clone(c)
			d.Cuts, d.EOFWithData, d.Sched, d.Trunc = cuts, ewd, class, -1
			g.run(d)
		}
	})
}

// sweepTruncation cuts the body at the given offsets: plain end of body in
// both styles, and a transport error.
func (g *gen) sweepTruncation(c *Case, offsets []int) {
	for _, t := range offsets {
		scheds := [][]int{nil}
		names := []string{"one-read"}
		if t > 1 {
			ones := make([]int, t)
			for i := range ones {
				ones[i] = 1
			}
			scheds = append(scheds, ones, g.randomCuts(t))
			names = append(names, "byte-reads", "random-partition")
			for i := 0; i < g.r.Pick(0, 4); i++ {
				scheds = append(scheds, g.randomCuts(t))
				names = append(names, "random-partition")
			}
		}
		for si, cuts := range scheds {
			for mode := 0; mode < 3; mode++ {
				if mode == 1 && t == 0 {
					continue
				}
				d := clone(c)
				d.Trunc, d.Cuts, d.Sched = t, cuts, names[si]
				d.EOFWithData = mode == 1
				d.TruncErr = mode == 2
				g.run(d)
			}
		}
	}
}

// truncOffsets returns every offset when the body is short, otherwise all
// offsets in and right after the framing of each message plus samples.
func (g *gen) truncOffsets(c *Case, allUpTo, samples int) []int {
	n := len(c.Body)
	if n <= allUpTo {
		out := make([]int, 0, n+1)
		for t := 0; t <= n; t++ {
			out = append(out, t)
		}
		return out
	}
	seen := map[int]bool{}
	var out []int
	add := func(t int) {
		if c.T == "grpc-web-text" {
			// Segs are offsets of the decoded stream
			for _, u := range []int{t / 3 * 4, t/3*4 + 1, t/3*4 + 2, t/3*4 + 3, t/3*4 + 4} {
				if u >= 0 && u <= n && !seen[u] {
					seen[u] = true
					out = append(out, u)
				}
			}
			return
		}
		if t >= 0 && t <= n && !seen[t] {
			seen[t] = true
			out = append(out, t)
		}
	}
	for _, s := range c.Segs {
		for t := s.Start; t <= s.Pre+1; t++ {
			add(t)
		}
		add(s.End - 1)
		add(s.End)
	}
	for i := 0; i < samples; i++ {
		add(g.rng.Intn(n + 1))
	}
	return out
}

// RunC06 is the C06 check.
func RunC06(r *mon.Run) {
	r.Rule = "one evaluation = one stream executed against the real mux with a recording handler: (transport x codec x shape) x message sequence (length 0-6, empty / tiny / PRF payload / at-limit messages, HttpBody uploads around multiples of the chunk limit) x read schedule (every partition of short bodies, one read, 1-byte reads, random partitions; in-process via a scripted body reader in both end-of-stream styles, on sockets via Content-Length / chunked / scripted h2 DATA frames / fragmenting listener) x truncation point (every offset of short bodies, framing offsets of long ones; plain end, transport error, END_STREAM, RST_STREAM, connection close). x codec pair of HTTP-transcoded streams (request Content-Type and Accept naming the same / different registered codecs, on methods whose request and reply types are the same / differ; replies are decoded with the codec the response Content-Type announces). A stream is counted non-trivial when its body is fragmented, truncated, served over a socket or carries several replies; distinct = (lane, transport, codec, shape, #messages capped, schedule class, end style, cut class, outcome)"
	r.Floor = 60
	limits := []int{7, 64, 100, 128, 1000}
	e, err := newEnv(r, limits)
	if err != nil {
		r.Inconclusive("cannot build the streaming service: " + err.Error())
		return
	}
	defer e.close()
	g := &gen{r: r, e: e, rng: r.Rand("stream"), withheldSeen: map[string]bool{}}

	g.timed("laneSchedules", func() { g.laneSchedules() })
	g.timed("laneUploads", func() { g.laneUploads(limits) })
	g.timed("laneTruncation", func() { g.laneTruncation() })
	g.timed("laneResponses", func() { g.laneResponses() })
	g.timed("laneInterleave", func() { g.laneInterleave() })
	g.timed("laneJSONStrings", func() { g.laneJSONStrings() })
	g.timed("laneGzipMembers", func() { g.laneGzipMembers() })
	g.timed("laneWebTextEncodings", func() { g.laneWebTextEncodings() })
	g.timed("laneBodyContentTypes", func() { g.laneBodyContentTypes() })
	g.timed("laneEncodedDelivery", func() { g.laneEncodedDelivery() })
	g.timed("laneAssets", func() { g.laneAssets("inproc") })
	g.timed("laneCodecPairs", func() { g.laneCodecPairs() })
	g.timed("laneProxied", func() { g.laneProxied() })
	g.timed("lanePoisonedPool", func() { g.lanePoisonedPool() })
	g.timed("laneReal", func() { g.laneReal() })
	g.timed("laneConcurrent", func() { g.laneConcurrent() })

	r.Set("exhaustive_partition_bound_bytes", r.Pick(8, 12))
	r.Set("exhaustive_truncation_bound_bytes", r.Pick(24, 64))
	r.Assume("the concurrent lane explores the interleavings the Go scheduler produces for 8 simultaneous streams; they are not enumerated")
	r.Assume("the recording handler behaves like generated gRPC code: it calls RecvMsg until the first error and returns that error unless it is a clean end of stream")
	r.Assume("a zero-byte HTTP request body may be presented to the handler either as no message or as one message built from the URL alone")
	r.Assume("on WebSocket io.EOF and a close frame with code 1000/1001/1005 both count as a clean end of stream")
	r.Assume("over HTTP without a status channel, bytes following the handler's messages after the handler failed are the error report and are not judged")
	r.Assume("reference decoders are the harness's own (encoding/json + protojson, protowire, gRPC frame parser, compress/gzip, encoding/base64, gobwas/ws client, grpc-go client)")
}

// laneSchedules: client -> handler fidelity under read schedules.
func (g *gen) laneSchedules() {
	r := g.r
	exh := r.Pick(8, 12)
	samples := r.Pick(2, 10)
	short := [][]string{{}, {"E"}, {"T"}, {"E", "E"}, {"T", "E"}, {"E", "T", "E"}, {"T", "T"}, {"E", "E", "E", "E", "E", "E"}, {"T", "E", "T", "E"}, {"T", "T", "T", "T"}}
	if r.Thorough() {
		short = append(short, []string{"T", "E", "E"}, []string{"E", "T", "T"}, []string{"T", "T", "E", "E"}, []string{"E", "E", "T", "E", "E"}, []string{"D1"}, []string{"D2", "E"}, []string{"D3"}, []string{"E", "D1", "E"}, []string{"T", "T", "T"}, []string{"E", "E", "E"})
	}
	idx := 0
	for _, tc := range msgTransports {
		for _, kinds := range short {
			idx++
			shape := []string{"cs", "bidi"}[idx%2]
			c := &Case{T: tc.T, Codec: tc.Codec, CE: tc.CE, Shape: shape, Echo: shape == "bidi", Trunc: -1}
			c.Msgs = g.msgs(kinds, tc, 0)
			c.Reply = [][]byte{mustMarshal(mkChunk(int32(len(kinds)+100), nil, ""))}
			if shape == "bidi" {
				c.Reply = nil
			}
			build(c, bodyOpt{})
			ex := exh
			if tc.CE == "gzip" {
				// gzip framing alone is ~23 bytes
				ex = 0
			}
			g.sweepSchedules(c, ex, samples)
		}
	}
	// JSON separators, trailing separators, non-minimal varint prefixes
	for _, sep := range []string{"\n", " ", "\r\n\t "} {
		for _, trailing := range []bool{false, true} {
			for _, kinds := range [][]string{{"E"}, {"E", "E"}, {"T", "X", "E"}, {"X", "X", "T", "D9"}} {
				tc := tcombo{"http", "json", ""}
				c := &Case{T: "http", Codec: "json", Shape: "cs", Trunc: -1, Msgs: g.msgs(kinds, tc, 0)}
				c.Reply = [][]byte{mustMarshal(mkChunk(7, nil, ""))}
				build(c, bodyOpt{sep: sep, trailing: trailing})
				g.sweepSchedules(c, exh, samples)
			}
		}
	}
	for _, pad := range []int{2, 3, 10} {
		for _, kinds := range [][]string{{"E"}, {"T", "E"}, {"D5", "T", "D1"}} {
			tc := tcombo{"http", "proto", ""}
			c := &Case{T: "http", Codec: "proto", Shape: "cs", Trunc: -1, Msgs: g.msgs(kinds, tc, 0)}
			c.Reply = [][]byte{mustMarshal(mkChunk(7, nil, ""))}
			build(c, bodyOpt{pad: pad})
			g.sweepSchedules(c, exh, samples)
		}
	}
	// longer sequences with boundary sizes, sampled schedules
	kindsPool := []string{"E", "T", "X", "D1", "D7", "D40", "D123", "D124", "D125", "D126", "D300", "A"}
	nseq := r.Pick(6, 450)
	for _, tc := range msgTransports {
		for i := 0; i < nseq; i++ {
			n := g.rng.Intn(7)
			kinds := make([]string, n)
			for j := range kinds {
				kinds[j] = kindsPool[g.rng.Intn(len(kindsPool))]
			}
			limit := []int{0, 0, 64, 128, 1000}[g.rng.Intn(5)]
			if limit > 0 {
				// every message must fit the limit of this mux
				for j, k := range kinds {
					var sz int
					if fmt.Sscanf(k, "D%d", &sz); sz > 0 && (sz+8 > limit || tc.Codec == "json" && sz*4/3+30 > limit) {
						kinds[j] = "A"
					}
					if k == "A" && limit == 64 && tc.Codec == "gzip" {
						kinds[j] = "T" // gzip overhead exceeds what a 64-byte limit leaves
					}
				}
			}
			shape := []string{"cs", "bidi", "bidi"}[g.rng.Intn(3)]
			c := &Case{T: tc.T, Codec: tc.Codec, CE: tc.CE, Shape: shape, Limit: limit, Trunc: -1}
			c.Echo = shape == "bidi" && g.rng.Intn(2) == 0
			c.Msgs = g.msgs(kinds, tc, limit)
			if shape == "cs" {
				c.Reply = [][]byte{mustMarshal(mkChunk(int32(n+100), nil, ""))}
			} else if !c.Echo {
				c.Reply = g.msgs([]string{"T", "E", "D9"}[:g.rng.Intn(4)], tc, limit)
			}
			sep := []string{"", "\n"}[g.rng.Intn(2)]
			if limit > 0 && tc.Codec == "json" {
				// whether separator whitespace counts towards the limit of
				// the following object is unspecified: none before at-limit
				// objects
				sep = ""
			}
			build(c, bodyOpt{sep: sep})
			g.sweepSchedules(c, 0, samples)
		}
	}
	// a single request message of a server-streaming method (read to the end
	// of the body, no framing on HTTP)
	for _, tc := range msgTransports {
		for _, k := range []string{"E", "T", "D40", "D300"} {
			if k == "E" && tc.T == "http" && tc.Codec == "json" {
				continue // an empty JSON body is not a JSON message
			}
			c := &Case{T: tc.T, Codec: tc.Codec, CE: tc.CE, Shape: "ss", Trunc: -1}
			c.Msgs = g.msgs([]string{k}, tc, 0)
			if tc.T == "http" && tc.Codec == "json" && k == "E" {
				continue
			}
			c.Reply = g.msgs([]string{"T", "D9"}, tc, 0)
			build(c, bodyOpt{})
			ex := exh
			if tc.CE == "gzip" {
				ex = 0
			}
			g.sweepSchedules(c, ex, samples)
		}
	}
}

// laneInterleave: the handler sends between receives (ping-pong echo with
// replies longer / shorter than the request, or a reply after every second
// message) while several request messages arrive in one read or in reads
// that straddle message boundaries; optionally an unrelated request is
// served on the same mux between a receive and the reply.
func (g *gen) laneInterleave() {
	r := g.r
	exh := r.Pick(7, 10)
	samples := r.Pick(2, 8)
	seqs := [][]string{{"T", "T", "T"}, {"D5", "T", "D9", "E"}, {"X", "T", "X"}, {"D40", "D3", "D3", "D3"}, {"E", "E", "T", "E"}, {"T", "E"}}
	if r.Thorough() {
		seqs = append(seqs, []string{"D1", "D1", "D1", "D1", "D1", "D1"}, []string{"D130", "T", "T"}, []string{"E", "T"}, []string{"T", "D300", "X", "T"})
	}
	type mode struct {
		echo      string
		every     int
		interfere bool
	}
	modes := []mode{{"long", 1, false}, {"long", 2, false}, {"short", 1, false}, {"", 1, true}, {"long", 1, true}}
	for _, tc := range msgTransports {
		for si, kinds := range seqs {
			for mi, md := range modes {
				if !r.Thorough() && md.interfere && (si+mi)%2 == 1 {
					continue
				}
				c := &Case{T: tc.T, Codec: tc.Codec, CE: tc.CE, Shape: "bidi", Echo: true, EchoMode: md.echo, EchoEvery: md.every, Interfere: md.interfere, Trunc: -1}
				c.Msgs = g.msgs(kinds, tc, 0)
				build(c, bodyOpt{sep: []string{"", "\n"}[si%2]})
				ex := exh
				if tc.CE == "gzip" || mi > 0 && !r.Thorough() {
					ex = 0
				}
				g.sweepSchedules(c, ex, samples)
			}
		}
	}
	// HttpBody chunks echoed as they arrive
	for _, L := range []int{7, 64} {
		for _, n := range []int{L + 1, 2 * L, 3*L + 1, 4 * L} {
			for mi, md := range modes {
				if !r.Thorough() && mi%2 == 1 {
					continue
				}
				c := &Case{T: "http", Codec: "httpbody", Shape: "upbidi", Limit: L, Echo: true, EchoMode: md.echo, EchoEvery: md.every, Interfere: md.interfere, Trunc: -1, Msgs: [][]byte{prf(g.rng, n)}}
				build(c, bodyOpt{})
				g.sweepSchedules(c, 0, samples)
			}
		}
	}
}

// appendBad appends one more, bad, message to the body of a built case.
func appendBad(c *Case, class string) bool {
	var bad []byte
	switch {
	case class == "malformed" && c.T == "http" && c.Codec == "json":
		bad = []byte(`{"seq":"not a number"}`)
	case class == "malformed" && c.T == "http":
		bad = append(protowire.AppendVarint(nil, 3), 0xff, 0xff, 0xff)
	case class == "malformed" && c.Codec == "gzip":
		bad = wire.Frame([]byte("this is not gzip"), true)
	case class == "malformed":
		bad = wire.Frame([]byte{0xff, 0xff, 0xff}, false)
	case class == "oversized" && c.T == "http" && c.Codec == "proto":
		bad = append(protowire.AppendVarint(nil, 5<<20), 1, 2, 3)
	case class == "oversized" && c.T != "http":
		bad = wire.FrameRaw(0, 5<<20, []byte{1, 2, 3})
	default:
		return false
	}
	if c.T == "grpc-web-text" {
		raw, err := base64.StdEncoding.DecodeString(string(c.Body))
		if err != nil {
			return false
		}
		c.Body = b64(append(raw, bad...))
	} else {
		c.Body = append(append([]byte(nil), c.Body...), bad...)
	}
	c.Bad = class
	return true
}

// laneProxied: the truncation / broken-stream classes on a proxied target
// (RegisterConn + real gRPC back-end) next to the local one; the handler
// observed is the back-end's. A broken request stream must never reach it as
// a clean end of stream.
func (g *gen) laneProxied() {
	r := g.r
	tcs := []tcombo{{"http", "json", ""}, {"http", "proto", ""}, {"grpc", "proto", ""}, {"grpc-web", "proto", ""}}
	if r.Thorough() {
		tcs = append(tcs, tcombo{"grpc-web-text", "proto", ""}, tcombo{"grpc", "gzip", ""})
	}
	seqs := [][]string{{"T", "T"}, {"D5", "E", "T"}, {"T", "D200", "T"}}
	if r.Thorough() {
		seqs = append(seqs, []string{"D130"}, []string{"X", "T", "D40", "E"})
	}
	allUpTo, samples := r.Pick(0, 24), r.Pick(1, 4)
	idx := 0
	for _, tc := range tcs {
		for si, kinds := range seqs {
			idx++
			shape := []string{"cs", "bidi"}[idx%2]
			mk := func(proxied bool, ks []string) *Case {
				c := &Case{T: tc.T, Codec: tc.Codec, Shape: shape, Echo: shape == "bidi", Proxied: proxied, Trunc: -1, Sched: "one-read"}
				c.Msgs = g.msgs(ks, tc, 0)
				if shape == "cs" {
					c.Reply = [][]byte{g.reply(len(ks))}
				}
				build(c, bodyOpt{sep: []string{"", "\n"}[si%2]})
				return c
			}
			// clean streams through the proxy
			c := mk(true, kinds)
			g.sweepSchedules(c, 0, 1)
			// the body ends inside a message
			c = mk(true, kinds)
			g.sweepTruncationLight(c, g.truncOffsets(c, allUpTo, samples))
			// a malformed / oversized later message, proxied and local
			for _, class := range []string{"malformed", "oversized"} {
				for k := 0; k <= len(kinds) && k <= 2; k++ {
					for _, proxied := range []bool{true, false} {
						c := mk(proxied, kinds[:k])
						if !appendBad(c, class) {
							continue
						}
						g.run(c)
					}
				}
			}
		}
	}
}

// laneAssets: download handlers that serve long-lived memory (sub-slices of
// an asset, or one buffer reused for every chunk); the same asset is
// downloaded again and again with other traffic on the same mux in between.
// The client must receive the pristine bytes, and at the end of every round
// a canary checks that the handler's asset is unchanged.
func (g *gen) laneAssets(lane string) {
	r, e := g.r, g.e
	rounds := r.Pick(4, 20)
	if lane != "inproc" {
		rounds = r.Pick(2, 8)
	}
	exec := func(c *Case) {
		if lane == "inproc" {
			g.run(c)
			return
		}
		c.Lane = lane
		if c.Sched == "" {
			c.Sched = "asset-traffic"
		}
		g.runReal(c)
	}
	sizes := [][]int{{100, 300, 50}, {1, 0, 7, 64}, {1000, 1000, 1000, 24}, {4096}, {3, 3, 3, 3, 3, 3}}
	var last *Case
	for round := 0; round < rounds; round++ {
		for mi, mode := range []string{"subslice", "reuse"} {
			szs := sizes[(round+mi)%len(sizes)]
			download := func() *Case {
				ct := bodyTypes[(round+mi)%len(bodyTypes)]
				c := &Case{T: "http", Codec: "httpbody", Shape: "download", CT: ct, Asset: mode, Trunc: -1, Msgs: [][]byte{}, Sched: "one-read"}
				off := 0
				for _, n := range szs {
					c.Reply = append(c.Reply, mustMarshal(mkBody(ct, e.assetCopy[off:off+n])))
					off += n
				}
				build(c, bodyOpt{})
				return c
			}
			exec(download())
			// other traffic on the same mux
			for ti, tc := range []tcombo{{"http", "json", ""}, {"http", "proto", ""}} {
				c := &Case{T: tc.T, Codec: tc.Codec, Shape: []string{"cs", "bidi"}[(round+ti)%2], Trunc: -1, Sched: "one-read"}
				c.Echo = c.Shape == "bidi" && lane != "h1"
				c.Msgs = g.msgs([]string{"D300", "T", "P700", "D40"}, tc, 0)
				if !c.Echo {
					c.Reply = [][]byte{g.reply(4)}
				}
				build(c, bodyOpt{})
				exec(c)
			}
			up := &Case{T: "http", Codec: "httpbody", Shape: "upload", Trunc: -1, Sched: "one-read", Msgs: [][]byte{prf(g.rng, 700+round)}, Reply: [][]byte{{}}}
			build(up, bodyOpt{})
			exec(up)
			last = download()
			exec(last)
		}
		if !bytes.Equal(e.asset, e.assetCopy) {
			r.Violate("http/httpbody:asset-modified:long-lived-handler-memory", fmt.Sprintf("after downloads and other traffic on the same mux the handler's own asset differs from its pristine copy (first difference at byte %d): the library wrote into memory the handler had only handed out for sending", firstDiff(e.asset, e.assetCopy)), last)
			copy(e.asset, e.assetCopy)
		}
		r.Count("asset_canary_checks", 1)
	}
}

// laneEncodedDelivery: client streams and uploads over HTTP x content
// encoding (identity, gzip) x body delivery (announced Content-Length of the
// encoded body vs unknown length) x payload compressibility (runs of one
// byte, periodic text, PRF bytes) x message sizes from small to the limit.
func (g *gen) laneEncodedDelivery() {
	r := g.r
	samples := r.Pick(1, 4)
	type sq struct {
		limit int
		kinds []string
	}
	seqs := []sq{
		{0, []string{"R3000", "T", "R3000"}}, {0, []string{"P2000", "R50", "E", "D300"}}, {0, []string{"D300", "R1000", "P40"}},
		{1000, []string{"AR", "T", "AR"}}, {128, []string{"AR", "AR"}}, {1000, []string{"R900", "P700", "E"}},
		{0, []string{"R100000", "T"}},
	}
	if r.Thorough() {
		seqs = append(seqs, sq{0, []string{"R1", "R10", "R100", "R1000", "R10000"}}, sq{64, []string{"AR", "T", "AR", "E", "AR"}}, sq{0, []string{"P5000", "P5000", "P5000"}}, sq{0, []string{"R400000"}}, sq{1000, []string{"A", "AR", "A"}})
	}
	idx := 0
	for _, tc := range []tcombo{{"http", "json", "gzip"}, {"http", "proto", "gzip"}, {"http", "json", ""}, {"http", "proto", ""}} {
		for _, q := range seqs {
			for _, known := range []bool{true, false} {
				idx++
				shape := []string{"cs", "bidi"}[idx/2%2]
				c := &Case{T: tc.T, Codec: tc.Codec, CE: tc.CE, Shape: shape, Echo: shape == "bidi", Limit: q.limit, KnownLen: known, Trunc: -1}
				c.Msgs = g.msgs(q.kinds, tc, q.limit)
				if shape == "cs" {
					c.Reply = [][]byte{g.reply(len(q.kinds))}
				}
				lay := ""
				if tc.CE == "gzip" && idx%3 == 0 {
					lay = "per-message"
				}
				build(c, bodyOpt{members: lay, rng: g.rng})
				g.sweepSchedules(c, 0, samples)
			}
		}
	}
	// HttpBody uploads
	for _, ce := range []string{"gzip", ""} {
		for _, L := range []int{64, 1000, 0} {
			for k, n := range []int{1, 63, 64, 1000, 5000} {
				for _, known := range []bool{true, false} {
					var up []byte
					switch k % 3 {
					case 0:
						up = bytes.Repeat([]byte{'a'}, n)
					case 1:
						up = []byte(strings.Repeat("the quick brown fox {jumps} ", n/28+1)[:n])
					default:
						up = prf(g.rng, n)
					}
					for _, mode := range []string{"upload", "upbidi"} {
						c := &Case{T: "http", Codec: "httpbody", CE: ce, Shape: mode, Limit: L, Echo: mode == "upbidi", KnownLen: known, Trunc: -1, Msgs: [][]byte{up}, Reply: [][]byte{{}}}
						build(c, bodyOpt{})
						g.sweepSchedules(c, 0, samples)
					}
				}
			}
		}
	}
}

// bodyTypes: media types of raw HttpBody streams, with and without a codec
// of their own registered on the mux.
var bodyTypes = []string{"application/octet-stream", "application/protobuf", "application/json", "image/jpeg", "text/plain", "application/x-verif"}

// rawPayload returns n bytes of one of several kinds: PRF bytes, bytes that
// read like small varint length prefixes, JSON-looking text.
func (g *gen) rawPayload(kind, n int) []byte {
	b := prf(g.rng, n)
	switch kind % 3 {
	case 1:
		for i := range b {
			b[i] = byte(1 + (i*7+kind)%5)
		}
	case 2:
		txt := `{"a":"}{"}{"seq":1,"text":"x\\"}[{]} `
		for i := range b {
			b[i] = txt[i%len(txt)]
		}
	}
	return b
}

// laneBodyContentTypes: the media type of HttpBody uploads and downloads as
// a dimension, for Recv/Send-driven and AsHTTPBodyReader/Writer-driven
// handlers; byte conservation as everywhere.
func (g *gen) laneBodyContentTypes() {
	r := g.r
	samples := r.Pick(1, 5)
	idx := 0
	for _, ct := range bodyTypes {
		for _, L := range []int{7, 64, 0} {
			base := L
			if base == 0 {
				base = 300
			}
			lens := []int{0, 1, base - 1, base, base + 1, 3*base + 1}
			for _, n := range lens {
				for _, mode := range []string{"httpbody", "httpbody-reader", "upbidi"} {
					idx++
					if !r.Thorough() && mode == "httpbody-reader" && idx%2 == 0 {
						continue
					}
					c := &Case{T: "http", Codec: mode, Shape: "upload", Limit: L, CT: ct, Trunc: -1, Msgs: [][]byte{g.rawPayload(idx, n)}, Reply: [][]byte{{}}}
					if mode == "upbidi" {
						c.Codec, c.Shape, c.Echo, c.EchoMode = "httpbody", "upbidi", true, []string{"", "long"}[idx%2]
					}
					build(c, bodyOpt{})
					g.sweepSchedules(c, 0, samples)
				}
			}
		}
		for _, mode := range []string{"httpbody", "httpbody-writer"} {
			for si, szs := range [][]int{{}, {1}, {5, 0, 7}, {64, 64}, {300, 1, 300}, {3, 3, 3, 3, 3, 3}} {
				for _, fin := range []int{0, 5} {
					c := &Case{T: "http", Codec: mode, Shape: "download", CT: ct, Trunc: -1, Final: fin, FinalMsg: "download failed", Msgs: [][]byte{}, Sched: "one-read"}
					for j, n := range szs {
						c.Reply = append(c.Reply, mustMarshal(mkBody(ct, g.rawPayload(si+j, n))))
					}
					build(c, bodyOpt{})
					g.run(c)
				}
			}
		}
	}
}

// laneWebTextEncodings: grpc-web-text request bodies whose frames are each a
// base64 text of their own (with padding), coalesced into few reads, read in
// fixed small sizes, byte-wise and split at every offset.
func (g *gen) laneWebTextEncodings() {
	r := g.r
	tc := tcombo{"grpc-web-text", "proto", ""}
	seqs := [][]string{{"T", "T"}, {"E", "E", "E"}, {"T", "E", "D1", "D2", "D3"}, {"D40", "T", "X", "D9"}, {"D1", "D1"}, {"D300", "E", "T"}}
	if r.Thorough() {
		seqs = append(seqs, []string{"E"}, []string{"T"}, []string{"D2", "D3", "D4", "D5", "D6", "D7"}, []string{"H0", "I3", "T"}, []string{"D5000", "T", "D126"})
	}
	idx := 0
	for _, kinds := range seqs {
		for _, mode := range []string{"cs", "bidi", "bidi-long"} {
			idx++
			c := &Case{T: tc.T, Codec: tc.Codec, Shape: "cs", Trunc: -1}
			c.Msgs = g.msgs(kinds, tc, 0)
			switch mode {
			case "cs":
				c.Reply = [][]byte{g.reply(len(kinds))}
			case "bidi":
				c.Shape, c.Echo = "bidi", true
			case "bidi-long":
				c.Shape, c.Echo, c.EchoMode = "bidi", true, "long"
			}
			build(c, bodyOpt{b64: "per-frame"})
			n := len(c.Body)
			g.sweepSchedules(c, r.Pick(0, 10), r.Pick(2, 6))
			// fixed-size reads
			for _, k := range []int{2, 3, 4, 5, 7, 8, 12, 4096} {
				var cuts []int
				for left := n; left > 0; left -= k {
					cuts = append(cuts, min(k, left))
				}
				d := clone(c)
				d.Cuts, d.EOFWithData, d.Sched = cuts, idx%2 == 0, "fixed-size-reads"
				g.run(d)
			}
			if n <= r.Pick(64, 400) {
				for t := 1; t < n; t++ {
					d := clone(c)
					d.Cuts, d.EOFWithData, d.Sched = []int{t}, t%2 == 0, "split-at-every-offset"
					g.run(d)
				}
			}
		}
	}
}

// lanePoisonedPool: the call before the judged stream, on the same mux,
// failed while decompressing a message (gzip damaged after it had produced
// output). The judged streams are ordinary gzip streams.
func (g *gen) lanePoisonedPool() {
	r := g.r
	rounds := r.Pick(6, 40)
	for round := 0; round < rounds; round++ {
		for _, tc := range []tcombo{{"grpc", "gzip", ""}} {
			for _, t := range []string{"grpc", "grpc-web"} {
				c := &Case{T: t, Codec: tc.Codec, Shape: []string{"cs", "bidi"}[round%2], Echo: round%2 == 1, Trunc: -1, Poison: true, Sched: "one-read"}
				c.Msgs = g.msgs([]string{"T", "E", "X", "T", "D9", "T", "E", "T"}, tc, 0)
				if c.Shape == "cs" {
					c.Reply = [][]byte{g.reply(8)}
				}
				build(c, bodyOpt{})
				g.run(c)
			}
		}
	}
}

// laneGzipMembers: Content-Encoding: gzip request bodies made of several
// gzip members (one per message, cut at random offsets incl. inside a message
// or a length prefix, empty members), under the usual read schedules.
func (g *gen) laneGzipMembers() {
	r := g.r
	samples := r.Pick(2, 6)
	layouts := []string{"per-message", "random", "empty-between", "empty-end", "empty-start"}
	seqs := [][]string{{"T", "T"}, {"T", "E", "D9"}, {"D130", "T", "X"}, {"E", "E", "E"}, {"H0", "D40", "I9", "T"}}
	if r.Thorough() {
		seqs = append(seqs, []string{"T"}, []string{"D300", "D5", "D126", "E", "T", "D1"}, []string{"X", "H4", "H12"})
	}
	idx := 0
	for _, tc := range []tcombo{{"http", "json", "gzip"}, {"http", "proto", "gzip"}} {
		for si, kinds := range seqs {
			for _, lay := range layouts {
				reps := r.Pick(1, 3)
				if lay != "random" {
					reps = 1
				}
				for rep := 0; rep < reps; rep++ {
					idx++
					shape := []string{"cs", "bidi"}[idx%2]
					c := &Case{T: tc.T, Codec: tc.Codec, CE: tc.CE, Shape: shape, Echo: shape == "bidi", EchoMode: []string{"", "long"}[idx/2%2], Trunc: -1}
					c.Msgs = g.msgs(kinds, tc, 0)
					if shape == "cs" {
						c.Reply = [][]byte{g.reply(len(kinds))}
					}
					pad := 0
					if tc.Codec == "proto" && si%2 == 1 {
						pad = 2 // multi-byte length prefixes to cut through
					}
					build(c, bodyOpt{sep: []string{"", "\n"}[idx%2], pad: pad, members: lay, rng: g.rng})
					g.sweepSchedules(c, 0, samples)
				}
			}
		}
	}
	for _, L := range []int{7, 100} {
		for _, n := range []int{1, L, 2*L + 1, 4 * L} {
			for _, lay := range layouts {
				for _, mode := range []string{"upload", "upbidi"} {
					c := &Case{T: "http", Codec: "httpbody", CE: "gzip", Shape: mode, Limit: L, Echo: mode == "upbidi", EchoMode: "long", Trunc: -1, Msgs: [][]byte{prf(g.rng, n)}, Reply: [][]byte{{}}}
					build(c, bodyOpt{members: lay, rng: g.rng})
					g.sweepSchedules(c, 0, samples)
				}
			}
		}
	}
}

// laneJSONStrings: JSON messages whose string values are hard on a
// brace-counting scanner (hostileStrings, three spellings), in the last and
// in the first field, followed by further messages; the body is split at
// every single offset, read byte-wise and in one read, and cut at every
// offset.
func (g *gen) laneJSONStrings() {
	r := g.r
	tcs := []tcombo{{"http", "json", ""}}
	if r.Thorough() {
		tcs = append(tcs, tcombo{"http", "json", "gzip"})
	}
	nh := len(hostileStrings)
	idx := 0
	for _, tc := range tcs {
		for i := 0; i < nh; i++ {
			h, id, h2 := fmt.Sprintf("H%d", i), fmt.Sprintf("I%d", i), fmt.Sprintf("H%d", (i*7+3)%nh)
			seqs := [][]string{{h, "T"}, {"T", h, h}, {id, "E", h2}}
			if r.Thorough() {
				seqs = append(seqs, []string{h}, []string{id, id, "T"}, []string{h, h2, id, "D9"})
			}
			for si, kinds := range seqs {
				for style := 0; style < 3; style++ {
					if !r.Thorough() && style != (i+si)%3 {
						continue
					}
					idx++
					shape := []string{"cs", "bidi"}[idx%2]
					c := &Case{T: tc.T, Codec: tc.Codec, CE: tc.CE, Shape: shape, Echo: shape == "bidi", EchoMode: []string{"", "long"}[idx/2%2], Trunc: -1}
					c.Msgs = g.msgs(kinds, tc, 0)
					if shape == "cs" {
						c.Reply = [][]byte{g.reply(len(kinds))}
					}
					build(c, bodyOpt{sep: []string{"", "\n", " "}[idx%3], trailing: idx%4 == 0, style: style})
					n := len(c.Body)
					if tc.CE == "gzip" {
						g.sweepSchedules(c, 0, 1)
						continue
					}
					// one read, byte reads, a random partition
					g.sweepSchedules(c, 0, 1)
					// a single split at every offset
					for t := 1; t < n; t++ {
						d := clone(c)
						d.Cuts, d.EOFWithData, d.Sched = []int{t}, t%2 == 0, "split-at-every-offset"
						g.run(d)
					}
					// the body ends at every offset
					if si == 0 || r.Thorough() {
						offs := make([]int, 0, n+1)
						for t := 0; t <= n; t++ {
							offs = append(offs, t)
						}
						g.sweepTruncationLight(c, offs)
					}
				}
			}
		}
	}
	// a single undelimited request message and replies carrying the strings
	for i := 0; i < nh; i++ {
		tc := tcombo{"http", "json", ""}
		h, id := fmt.Sprintf("H%d", i), fmt.Sprintf("I%d", i)
		c := &Case{T: "http", Codec: "json", Shape: "ss", Trunc: -1, Sched: "one-read"}
		c.Msgs = g.msgs([]string{h}, tc, 0)
		c.Reply = g.msgs([]string{id, h, "T", h}, tc, 0)
		build(c, bodyOpt{style: i % 3})
		g.sweepSchedules(c, 0, 1)
	}
}

// sweepTruncationLight: every given offset, one read, plain end of body and
// transport error.
func (g *gen) sweepTruncationLight(c *Case, offsets []int) {
	for _, t := range offsets {
		for mode := 0; mode < 2; mode++ {
			d := clone(c)
			d.Trunc, d.Cuts, d.Sched = t, nil, "one-read"
			if t > 2 {
				d.Cuts, d.Sched = []int{t / 2}, "two-reads"
			}
			d.TruncErr = mode == 1
			g.run(d)
		}
	}
}

// laneUploads: HttpBody chunking and AsHTTPBodyReader passthrough.
func (g *gen) laneUploads(limits []int) {
	r := g.r
	exh := r.Pick(7, 11)
	for _, L := range limits {
		lens := map[int]bool{0: true, 1: true, 2: true, 3: true}
		for k := 1; k <= 4; k++ {
			lens[k*L-1], lens[k*L], lens[k*L+1] = true, true, true
		}
		var sorted []int
		for n := 0; n <= 4*L+1; n++ {
			if lens[n] {
				sorted = append(sorted, n)
			}
		}
		for _, n := range sorted {
			up := prf(g.rng, n)
			for _, mode := range []string{"httpbody", "httpbody-reader"} {
				c := &Case{T: "http", Codec: mode, Shape: "upload", Limit: L, Trunc: -1, Msgs: [][]byte{up}}
				c.Reply = [][]byte{{}}
				build(c, bodyOpt{})
				smp := r.Pick(2, 10)
				if mode == "httpbody-reader" {
					smp = 1
				}
				g.sweepSchedules(c, exh, smp)
				if mode == "httpbody" && n > exh {
					// reads aligned with / straddling the chunk limit
					for _, first := range []int{L - 1, L, L + 1} {
						if first <= 0 || first >= n {
							continue
						}
						var cuts []int
						for left := n; left > 0; left -= first {
							cuts = append(cuts, min(first, left))
						}
						for _, ewd := range []bool{false, true} {
							d := clone(c)
							d.Cuts, d.EOFWithData, d.Sched = cuts, ewd, "limit-aligned-reads"
							g.run(d)
						}
					}
				}
			}
		}
	}
	// gzip-encoded uploads (the decoded bytes are chunked)
	for _, L := range []int{7, 100} {
		for _, n := range []int{0, 1, L, 2*L + 1, 4 * L} {
			up := prf(g.rng, n)
			for _, mode := range []string{"httpbody", "httpbody-reader"} {
				if mode == "httpbody-reader" {
					continue // the passthrough hands out the raw (encoded) body reader
				}
				c := &Case{T: "http", Codec: mode, CE: "gzip", Shape: "upload", Limit: L, Trunc: -1, Msgs: [][]byte{up}, Reply: [][]byte{{}}}
				build(c, bodyOpt{})
				g.sweepSchedules(c, 0, r.Pick(2, 6))
			}
		}
	}
	// aborted uploads: prefix of the bytes, then a non-EOF error
	for _, L := range []int{7, 64} {
		up := prf(g.rng, 3*L+2)
		for _, mode := range []string{"httpbody", "httpbody-reader"} {
			c := &Case{T: "http", Codec: mode, Shape: "upload", Limit: L, Msgs: [][]byte{up}, Reply: [][]byte{{}}}
			build(c, bodyOpt{})
			var offs []int
			for t := 0; t <= len(up); t += 1 + g.rng.Intn(r.Pick(9, 3)) {
				offs = append(offs, t)
			}
			for _, t := range offs {
				for _, cuts := range [][]int{nil, g.randomCuts(max(t, 1))} {
					d := clone(c)
					d.Trunc, d.TruncErr, d.Cuts, d.Sched = t, true, cuts, "abort"
					g.run(d)
				}
			}
		}
	}
}

// laneTruncation: bodies that end inside a message.
func (g *gen) laneTruncation() {
	r := g.r
	allUpTo := r.Pick(24, 64)
	samples := r.Pick(3, 12)
	seqs := [][]string{{"T"}, {"T", "T"}, {"T", "E", "T"}, {"D5", "T"}, {"E", "D3"}, {"D130"}, {"T", "D200", "T"}}
	if r.Thorough() {
		seqs = append(seqs, []string{"D20", "D20"}, []string{"E", "E", "T"}, []string{"D126", "D127"}, []string{"X", "T", "X"}, []string{"D40", "E", "T", "D3", "T", "E"},
			[]string{"E"}, []string{"D1", "D2", "D3"}, []string{"T", "T", "T", "T", "T", "T"}, []string{"D50", "E"}, []string{"X", "D16"}, []string{"D300", "T"})
	}
	idx := 0
	for _, tc := range msgTransports {
		for _, kinds := range seqs {
			idx++
			shape := []string{"cs", "bidi"}[idx%2]
			c := &Case{T: tc.T, Codec: tc.Codec, CE: tc.CE, Shape: shape, Echo: shape == "bidi"}
			c.Msgs = g.msgs(kinds, tc, 0)
			if shape == "cs" {
				c.Reply = [][]byte{mustMarshal(mkChunk(99, nil, ""))}
			}
			build(c, bodyOpt{sep: []string{"", "\n"}[idx%2]})
			g.sweepTruncation(c, g.truncOffsets(c, allUpTo, samples))
		}
		if tc.T == "http" && tc.Codec == "proto" && tc.CE == "" {
			// non-minimal (multi-byte) length prefixes on short streams
			for _, pad := range []int{2, 4} {
				c := &Case{T: tc.T, Codec: tc.Codec, Shape: "cs", Msgs: g.msgs([]string{"T", "E", "D3"}, tc, 0)}
				c.Reply = [][]byte{mustMarshal(mkChunk(99, nil, ""))}
				build(c, bodyOpt{pad: pad})
				g.sweepTruncation(c, g.truncOffsets(c, allUpTo, samples))
			}
		}
		// the single request frame of a server-streaming call (framed transports)
		if tc.T != "http" {
			c := &Case{T: tc.T, Codec: tc.Codec, Shape: "ss", Msgs: g.msgs([]string{"D6"}, tc, 0)}
			c.Reply = g.msgs([]string{"T"}, tc, 0)
			build(c, bodyOpt{})
			g.sweepTruncation(c, g.truncOffsets(c, allUpTo, samples))
		}
	}
}

// laneResponses: handler -> client fidelity and final status.
func (g *gen) laneResponses() {
	r := g.r
	replies := [][]string{{}, {"E"}, {"T"}, {"E", "E"}, {"T", "E", "T"}, {"D1"}, {"D2"}, {"D3"}, {"D40", "E", "D41", "D42"}, {"T", "T", "T", "T", "T", "T"}, {"X", "D300", "E", "X"}, {"A"}, {"T", "A", "A"}}
	if r.Thorough() {
		for i := 0; i < 40; i++ {
			n := g.rng.Intn(7)
			ks := make([]string, n)
			for j := range ks {
				ks[j] = []string{"E", "T", "X", "D1", "D2", "D3", "D4", "D5", "D40", "D300", "A"}[g.rng.Intn(11)]
			}
			replies = append(replies, ks)
		}
	}
	finals := []struct {
		code int
		msg  string
	}{{0, ""}, {5, "not found: stream item"}, {10, "aborted by handler"}, {13, "x"}}
	for _, tc := range msgTransports {
		if tc.CE != "" {
			continue
		}
		for ri, kinds := range replies {
			for fi, fin := range finals {
				if !r.Thorough() && fi >= 2 && (ri+fi)%3 != 0 {
					continue
				}
				for _, shape := range []string{"ss", "ssget", "bidi"} {
					if shape == "ssget" && tc.T != "http" {
						continue
					}
					limit := 0
					for _, k := range kinds {
						if k == "A" {
							limit = []int{64, 128, 1000}[(ri+fi)%3]
						}
					}
					if limit == 64 && tc.Codec == "gzip" {
						limit = 128
					}
					c := &Case{T: tc.T, Codec: tc.Codec, Shape: shape, Limit: limit, Trunc: -1, Final: fin.code, FinalMsg: fin.msg, Sched: "one-read"}
					switch shape {
					case "ss":
						c.Msgs = g.msgs([]string{"T"}, tc, limit)
					case "bidi":
						c.Msgs = g.msgs([]string{"T", "D5"}, tc, limit)
					default:
						c.Msgs = [][]byte{}
					}
					var keep []string
					for _, k := range kinds {
						var sz int
						if fmt.Sscanf(k, "D%d", &sz); limit > 0 && sz+8 > limit {
							continue
						}
						keep = append(keep, k)
					}
					c.Reply = g.msgs(keep, tc, limit)
					build(c, bodyOpt{})
					g.run(c)
				}
			}
		}
	}
	// HttpBody downloads: SendMsg per chunk and AsHTTPBodyWriter passthrough
	sizes := [][]int{{}, {0}, {1}, {5, 0, 7}, {64, 64}, {1000, 1, 1000}, {3, 3, 3, 3, 3, 3}}
	for _, mode := range []string{"httpbody", "httpbody-writer"} {
		for _, szs := range sizes {
			for _, fin := range []int{0, 5} {
				c := &Case{T: "http", Codec: mode, Shape: "download", Trunc: -1, Final: fin, FinalMsg: "download failed", Msgs: [][]byte{}, Sched: "one-read"}
				for _, n := range szs {
					c.Reply = append(c.Reply, mustMarshal(mkBody("application/x-verif", prf(g.rng, n))))
				}
				build(c, bodyOpt{})
				g.run(c)
			}
		}
	}
}

func max(a, b int) int {
	if a > b {
		return a
	}
	return b
}

// Replay re-executes a stored in-process case.
func Replay(r *mon.Run, raw json.RawMessage) {
	var c Case
	if err := json.Unmarshal(raw, &c); err != nil {
		r.Inconclusive("bad replay case: " + err.Error())
		return
	}
	if c.Msgs == nil {
		c.Msgs = [][]byte{}
	}
	e, err := newEnv(r, []int{c.Limit})
	if err != nil {
		r.Inconclusive("cannot build the streaming service: " + err.Error())
		return
	}
	defer e.close()
	g := &gen{r: r, e: e, rng: r.Rand("stream"), withheldSeen: map[string]bool{}}
	var vs []viol
	var outcome string
	if c.Conc > 1 {
		defer closeClients()
		for i := 0; i < 20 && r.Violations() == 0; i++ {
			g.runGroup(&c) // scheduling dependent: a few attempts
		}
		return
	}
	if c.Lane == "inproc" || c.Lane == "" {
		vs, outcome = e.execInproc(&c)
	} else {
		vs, outcome = g.execReal(&c)
	}
	r.Eval(1)
	r.Distinct(shapeKey(&c, c.expectation(), outcome))
	for _, v := range vs {
		r.Violate(v.key, v.what, &c)
	}
}
