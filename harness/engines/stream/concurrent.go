package stream

import (
	"fmt"
	"strings"
	"sync"

	"google.golang.org/protobuf/reflect/protoreflect"
)

var groupMu sync.Mutex // guards gen.withheldSeen when streams run concurrently

// variant returns copy k of a concurrent case: the same stream with its own
// self-identifying payloads (Chunk.id = "s<k>", upload bytes xor k).
func variant(base *Case, k int) *Case {
	c := clone(base)
	c.Cuts = append([]int(nil), base.Cuts...)
	c.Msgs = make([][]byte, len(base.Msgs))
	for i, b := range base.Msgs {
		if base.isUpload() {
			d := append([]byte(nil), b...)
			for j := range d {
				d[j] ^= byte(k*37 + 1)
			}
			c.Msgs[i] = d
			continue
		}
		m := unmarshalAs(chunkDesc(), b)
		setField(m, "id", protoreflect.ValueOfString(fmt.Sprintf("s%d", k)))
		c.Msgs[i] = mustMarshal(m)
	}
	if c.T == "ws" {
		n := byte(k)
		c.Body, c.Segs = wsFrames(c, func() [4]byte { n += 17; return [4]byte{n, n ^ 0x5a, n + 3, 0x11} })
	} else {
		build(c, bodyOpt{})
	}
	return c
}

// runGroup executes base.Conc copies of a case at the same time and judges
// every stream with the unchanged per-stream oracles. Finding keys get the
// class "concurrent".
func (g *gen) runGroup(base *Case) {
	n := base.Conc
	if n < 2 {
		n = 2
	}
	base.Sched = "concurrent"
	type result struct {
		vs      []viol
		outcome string
	}
	cases := make([]*Case, n)
	res := make([]result, n)
	for k := range cases {
		cases[k] = variant(base, k)
	}
	if base.Lane != "inproc" {
		// start the server and the shared clients before the race
		if srv, err := g.e.server(base.Limit, base.Frag, base.SrvOpt); err == nil {
			cl := clientsFor(srv)
			if base.Lane == "grpc-go" {
				cl.grpcConn(srv)
			}
		}
	}
	var wg sync.WaitGroup
	for k := range cases {
		wg.Add(1)
		go func(k int) {
			defer wg.Done()
			if cases[k].Lane == "inproc" {
				res[k].vs, res[k].outcome = g.e.execInproc(cases[k])
			} else {
				res[k].vs, res[k].outcome = g.execReal(cases[k])
			}
		}(k)
	}
	wg.Wait()
	g.r.Count("concurrent_groups", 1)
	for k := range cases {
		for i, v := range res[k].vs {
			if !strings.HasPrefix(v.key, "panic@") {
				if j := strings.LastIndex(v.key, ":"); j > 0 {
					res[k].vs[i].key = v.key[:j] + ":concurrent"
				}
			}
			res[k].vs[i].what = fmt.Sprintf("with %d streams at the same time: %s", n, v.what)
		}
		g.account(cases[k], res[k].vs, res[k].outcome)
	}
}

// laneConcurrent: a sample of the ping-pong cases of every transport x codec
// x compression, 8 streams at a time (in-process on goroutines, on sockets
// over shared grpc-go / h2c connections).
func (g *gen) laneConcurrent() {
	r := g.r
	defer closeClients()
	const streams = 8
	rounds := r.Pick(3, 20)
	long := func(n int) []string {
		ks := make([]string, n)
		for i := range ks {
			ks[i] = []string{"D900", "D40", "T", "D2500", "X", "D300"}[i%6]
		}
		return ks
	}
	for round := 0; round < rounds; round++ {
		// in-process
		for _, tc := range msgTransports {
			nmsg := 8
			if tc.Codec == "gzip" || tc.CE == "gzip" {
				nmsg = 40 + 10*(round%3)
			}
			c := &Case{Lane: "inproc", T: tc.T, Codec: tc.Codec, CE: tc.CE, Shape: "bidi", Echo: true, EchoMode: []string{"", "long"}[round%2], Trunc: -1, Conc: streams}
			c.Msgs = g.msgs(long(nmsg), tc, 0)
			g.runGroup(c)
		}
		for _, shape := range []string{"upload", "upbidi"} {
			c := &Case{Lane: "inproc", T: "http", Codec: "httpbody", Shape: shape, Limit: 64, Echo: shape == "upbidi", EchoMode: "long", Trunc: -1, Conc: streams, Msgs: [][]byte{prf(g.rng, 4*64+1+round)}, Reply: [][]byte{{}}}
			g.runGroup(c)
		}
		// sockets: lock-step ping-pong on shared connections
		for _, codec := range []string{"gzip", "proto"} {
			nmsg := 10
			if codec == "gzip" {
				nmsg = 40 + 10*(round%3)
			}
			tc := tcombo{"grpc", codec, ""}
			c := &Case{Lane: "grpc-go", T: "grpc", Codec: codec, Shape: "bidi", Echo: true, Step: true, EchoMode: "long", Trunc: -1, Conc: streams}
			c.Msgs = g.msgs(long(nmsg), tc, 0)
			g.runGroup(c)
			h := &Case{Lane: "h2c", T: "grpc", Codec: codec, Shape: "bidi", Echo: true, Step: true, Trunc: -1, Conc: streams}
			h.Msgs = g.msgs(long(nmsg), tc, 0)
			g.runGroup(h)
		}
		for _, tc := range []tcombo{{"http", "json", ""}, {"http", "proto", ""}, {"grpc-web", "proto", ""}} {
			c := &Case{Lane: "h2c", T: tc.T, Codec: tc.Codec, Shape: "bidi", Echo: true, Step: true, EchoMode: "long", Trunc: -1, Conc: streams}
			c.Msgs = g.msgs(long(8), tc, 0)
			g.runGroup(c)
		}
		w := &Case{Lane: "ws", T: "ws", Codec: "json", Shape: "bidi", Echo: true, Step: true, EchoMode: "long", Trunc: -1, Conc: streams}
		w.Msgs = g.msgs(long(8), tcombo{"ws", "json", ""}, 0)
		g.runGroup(w)
	}
}
