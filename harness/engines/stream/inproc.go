package stream

import (
	"bytes"
	"encoding/base64"
	"fmt"
	"io"
	"net/http"
	"strings"
	"time"

	"google.golang.org/grpc/status"
	"google.golang.org/protobuf/proto"
	"google.golang.org/protobuf/reflect/protoreflect"

	"verif/internal/vschema"
	"verif/internal/wire"
)

// Case is one fully materialised stream execution. In-process cases
// (Lane "inproc") are replayable from this record alone.
type Case struct {
	Lane  string `json:"lane"`      // inproc | h1 | h1-chunked | h2c | h2c-frag | grpc-go | ws | ...
	T     string `json:"transport"` // http | grpc | grpc-web | grpc-web-text | ws
	Codec string `json:"codec"`     // json | proto | gzip | httpbody | httpbody-reader | httpbody-writer
	CE    string `json:"content_encoding,omitempty"`
	Shape string `json:"shape"` // cs | ss | ssget | bidi | upload | download
	Limit int    `json:"limit"` // MaxReceiveMessageSize of the mux (0 = default)

	Msgs [][]byte `json:"msgs"` // wire bytes of the client's messages (upload: one element, the file)
	Body []byte   `json:"body"` // request body exactly as the client writes it
	Segs []Seg    `json:"segs"` // message layout in the (decoded) request stream

	Cuts        []int `json:"cuts"`
	EOFWithData bool  `json:"eof_with_data"`
	// Trunc >= 0: the body ends after Trunc bytes. TruncErr: it ends with a
	// transport error (io.ErrUnexpectedEOF) instead of io.EOF.
	Trunc    int  `json:"trunc"`
	TruncErr bool `json:"trunc_err"`

	Echo     bool     `json:"echo"`
	Reply    [][]byte `json:"reply"`
	Final    int      `json:"final"`
	FinalMsg string   `json:"final_msg,omitempty"`

	EchoMode  string `json:"echo_mode,omitempty"`  // "" same | long | short
	EchoEvery int    `json:"echo_every,omitempty"` // reply after every k-th message
	Interfere bool   `json:"interfere,omitempty"`  // unrelated request between receive and reply
	Conc      int    `json:"concurrent,omitempty"` // > 1: that many copies of the stream run at the same time
	// SrvOpt: server-option class of socket lanes ("", conn-timeout-small,
	// conn-timeout-large, prefix). PaceMs: the client pauses that long
	// between its messages. Members: gzip member layout of the body.
	// Proxied: the handler is reached through RegisterConn and a real gRPC
	// back-end; it is the back-end's handler that is observed.
	// Bad: after the messages of Msgs the body carries one more message that
	// is "malformed" or "oversized".
	Proxied bool   `json:"proxied,omitempty"`
	Bad     string `json:"bad_later_message,omitempty"`
	// Asset: the download handler serves long-lived memory ("subslice",
	// "reuse"); Reply then holds the pristine bytes the client must get.
	// Duplex: the handler pushes Reply from a second goroutine while it
	// receives.
	Asset  string `json:"asset,omitempty"`
	Duplex bool   `json:"duplex,omitempty"`
	// KnownLen: the in-process HTTP request carries Content-Length =
	// len(Body) instead of an unknown length (chunked / h2 without one).
	KnownLen bool `json:"known_length,omitempty"`
	// CT: media type of HttpBody uploads (Content-Type) and downloads
	// (Accept and HttpBody.content_type); "" = application/x-verif.
	CT string `json:"body_content_type,omitempty"`
	// B64: grpc-web-text request encoding ("" whole body, per-frame).
	// Poison: before this stream, a call on the same mux fails in
	// decompression.
	B64     string `json:"b64,omitempty"`
	Poison  bool   `json:"after_failed_decompression,omitempty"`
	SrvOpt  string `json:"server_opt,omitempty"`
	PaceMs  int    `json:"pace_ms,omitempty"`
	Members string `json:"gzip_members,omitempty"`
	// StopAfter > 0: the handler ends the call after that many messages.
	StopAfter int `json:"stop_after,omitempty"`

	// Accept: the codec the client asks the replies in ("json" | "proto"),
	// sent as the Accept header of an HTTP-transcoded call; "" = no Accept
	// header (the replies follow the request Content-Type).
	Accept string `json:"accept,omitempty"`

	Frag  int    `json:"frag,omitempty"`  // fragmenting listener width (real transports)
	Abort string `json:"abort,omitempty"` // real transports: end | rst | close
	Step  bool   `json:"lockstep,omitempty"`
	Sched string `json:"sched"` // schedule class (finding keys / shape keys)
}

type viol struct{ key, what string }

func (c *Case) codecName() string {
	n := c.Codec
	if c.CE != "" {
		n += "+" + c.CE
	}
	if c.Accept != "" {
		// codec pair of the stream: request codec > reply codec asked for
		n += ">" + c.Accept
	}
	return n
}

// acceptType is the media type of the Accept header of a codec-pair case.
func (c *Case) acceptType() string {
	if c.Accept == "json" {
		return "application/json"
	}
	return "application/protobuf"
}

// typeRel names the relation of the request and reply message types of the
// method (finding keys / shape keys of the codec-pair lane).
func (c *Case) typeRel() string {
	if c.inDesc() == c.outDesc() {
		return "same-message-type"
	}
	return "distinct-message-types"
}

func (c *Case) pathPrefix() string {
	if c.SrvOpt == "prefix" {
		return urlPrefix
	}
	return ""
}

func (c *Case) pace() {
	if c.PaceMs > 0 {
		time.Sleep(time.Duration(c.PaceMs) * time.Millisecond)
	}
}

func (c *Case) isUpload() bool { return c.Shape == "upload" || c.Shape == "upbidi" }

func (c *Case) prefix() string { return c.T + "/" + c.codecName() }

func (c *Case) clientStreams() bool {
	switch c.Shape {
	case "cs", "bidi", "bidinb", "upload", "upbidi", "csx", "bidix":
		return true
	}
	return false
}

func (c *Case) serverStreams() bool {
	switch c.Shape {
	case "ss", "ssget", "bidi", "bidinb", "download", "upbidi", "ssx", "bidix":
		return true
	}
	return false
}

func (c *Case) method() string {
	switch c.Shape {
	case "cs":
		return "CS"
	case "ss", "ssget":
		return "SS"
	case "bidi":
		return "Bidi"
	case "bidinb":
		return "BidiNB"
	case "upload":
		return "Upload"
	case "upbidi":
		return "UpEcho"
	case "download":
		return "Download"
	case "csx":
		return "CSX"
	case "ssx":
		return "SSX"
	case "bidix":
		return "BidiX"
	}
	panic("shape " + c.Shape)
}

func (c *Case) outDesc() protoreflect.MessageDescriptor {
	switch c.Shape {
	case "upload":
		return vschema.Msg("vf.Rsp")
	case "download":
		return bodyDesc()
	case "csx", "ssx", "bidix":
		return itemDesc()
	}
	return chunkDesc()
}

func (c *Case) inDesc() protoreflect.MessageDescriptor {
	switch c.Shape {
	case "upload", "upbidi":
		return uploadDesc()
	case "download":
		return vschema.Msg("vf.Req")
	}
	return chunkDesc()
}

// httpPath returns the transcoding path of the case.
func (c *Case) httpPath() string {
	switch c.Shape {
	case "cs":
		return "/cs"
	case "ss":
		return "/ss"
	case "ssget":
		return "/ssg/g1"
	case "bidi":
		return "/bidi"
	case "upload":
		return "/upload/f1"
	case "upbidi":
		return "/upecho/f1"
	case "download":
		return "/download/d1"
	case "csx":
		return "/csx"
	case "ssx":
		return "/ssx"
	case "bidix":
		return "/bidix"
	}
	panic("shape " + c.Shape)
}

func (c *Case) contentType() string {
	switch c.T {
	case "grpc":
		return "application/grpc"
	case "grpc-web":
		return "application/grpc-web"
	case "grpc-web-text":
		return "application/grpc-web-text"
	}
	switch c.Codec {
	case "json":
		return "application/json"
	case "proto":
		return "application/protobuf"
	}
	if c.CT != "" {
		return c.CT // HttpBody lanes: media type of the raw body
	}
	return "application/x-verif"
}

func (c *Case) script() script {
	maxRecv := len(c.Msgs) + 4
	if c.isUpload() && len(c.Msgs) > 0 {
		maxRecv = len(c.Msgs[0]) + 4 // chunks may be of any non-zero size
	}
	return script{Echo: c.Echo, Reply: c.Reply, Final: c.Final, FinalMsg: c.FinalMsg,
		Reader: c.Codec == "httpbody-reader", Writer: c.Codec == "httpbody-writer", MaxRecv: maxRecv, StopAfter: c.StopAfter,
		EchoMode: c.EchoMode, EchoEvery: c.EchoEvery, Interfere: c.Interfere, Limit: c.Limit, Asset: c.Asset, Duplex: c.Duplex}
}

// wantMsgs is the message sequence the handler is meant to receive.
func (c *Case) wantMsgs() []proto.Message {
	var want []proto.Message
	if c.Shape == "bidinb" {
		// rule without body: the request message is built from the URL
		m := mkChunk(0, nil, "")
		setField(m, "id", protoreflect.ValueOfString("x1"))
		return []proto.Message{m}
	}
	for _, b := range c.Msgs {
		want = append(want, unmarshalAs(c.inDesc(), b))
	}
	return want
}

// sentBody is the body the server actually gets to see.
func (c *Case) sentBody() []byte {
	if c.Trunc >= 0 && c.Trunc <= len(c.Body) {
		return c.Body[:c.Trunc]
	}
	return c.Body
}

// expectation derived from the truncation point: how many messages are
// complete, the structural class of the cut, whether the handler must see a
// non-EOF error, and whether the exact number of complete messages is known.
type expect struct {
	n       int    // complete messages
	class   string // structural class of the end of the body
	clean   bool   // the body is a well-formed stream of n messages
	mustErr bool   // the handler must see a non-EOF error
	exact   bool   // the handler must see exactly the n complete messages first
}

func (c *Case) expectation() expect {
	ex := c.expectation0()
	if c.Proxied {
		if !ex.clean {
			// the proxy aborts the back-end call: messages it had forwarded
			// may be discarded with the reset
			ex.exact = false
		}
		ex.class += "@proxied-back-end"
	}
	return ex
}

func (c *Case) expectation0() expect {
	if c.Bad != "" {
		return expect{n: len(c.Msgs), class: c.Bad + "-later-message", mustErr: true, exact: true}
	}
	if c.Trunc < 0 || c.Trunc >= len(c.Body) && !c.TruncErr && c.Abort != "close" {
		return expect{n: len(c.Msgs), class: "end-of-stream", clean: true, exact: true}
	}
	if c.Abort == "cancel" {
		// grpc-go client: Trunc counts the messages exchanged in lock-step
		// before the client cancelled the call
		return expect{n: min(c.Trunc, len(c.Msgs)), class: "client-cancel", mustErr: true, exact: true}
	}
	t := c.Trunc
	if t > len(c.Body) {
		t = len(c.Body)
	}
	if c.CE == "gzip" {
		// a cut gzip stream: how much is decodable before the error is up
		// to the decompressor
		return expect{class: "in-gzip-stream", mustErr: true}
	}
	force := false
	if c.T == "grpc-web-text" {
		force = t%4 != 0
		t = t / 4 * 3
	}
	if c.isUpload() {
		// raw bytes: no message structure; only an abort is an error
		if c.TruncErr {
			return expect{class: "abort", mustErr: true}
		}
		return expect{class: "end-of-stream", clean: true, exact: true}
	}
	if !c.clientStreams() && c.T == "http" {
		// the whole body is one undelimited message
		return expect{class: "single-message-cut", mustErr: c.TruncErr}
	}
	ex := expect{exact: true, class: "at-boundary"}
	for _, s := range c.Segs {
		if s.End <= t {
			ex.n++
			continue
		}
		switch {
		case t <= s.Start:
			// boundary
		case c.T == "http" && c.Codec == "json" && t <= s.Pre:
			// only separator whitespace follows the last complete object
			ex.class = "in-separator"
		case t < s.Pre:
			ex.class, ex.mustErr = "in-length-prefix", true
		case t == s.Pre:
			ex.class, ex.mustErr = "after-length-prefix", true
		default:
			ex.class, ex.mustErr = "in-payload", true
		}
		break
	}
	if !c.clientStreams() && ex.n == len(c.Msgs) {
		// the handler reads its single request message and nothing more
		return expect{n: ex.n, class: "end-of-stream", clean: true, exact: true}
	}
	if force {
		ex.mustErr = true
		if !strings.HasPrefix(ex.class, "in-") && ex.class != "after-length-prefix" {
			ex.class = "in-base64-quantum"
		}
	}
	if c.TruncErr {
		ex.mustErr = true
		if ex.class == "at-boundary" || ex.class == "in-separator" {
			ex.class = "abort-" + ex.class
		}
	}
	if c.Abort == "rst" {
		// RST_STREAM lets the server discard request data it has not
		// handed to the handler yet
		ex.exact = false
	}
	if !ex.mustErr {
		if c.T == "ws" && c.Abort == "close" {
			// the TCP connection went away between two frames without a
			// close frame: neither a clean end nor necessarily an error
			ex.class = "tcp-close-at-boundary"
			return ex
		}
		ex.clean = true
		ex.class = "end-of-stream"
	}
	return ex
}

// poisonCase is the call that precedes a Poison case: a gzip client stream
// whose second message is damaged after the point where gzip has produced
// all its output (checksum), so decompression fails late.
func poisonCase(c *Case) *Case {
	p := &Case{Lane: c.Lane, T: c.T, Codec: "gzip", Shape: "cs", Limit: c.Limit, Frag: c.Frag, SrvOpt: c.SrvOpt, Trunc: -1, Sched: "poison"}
	good := mustMarshal(mkChunk(1, squashy(1, 40), ""))
	bad := wire.Gzip(mustMarshal(mkChunk(2, squashy(2, 700), "stale bytes of the failed call")))
	for i := len(bad) - 8; i < len(bad)-4; i++ {
		bad[i] ^= 0xff // CRC-32
	}
	p.Msgs = [][]byte{good}
	body := wire.Frame(wire.Gzip(good), true)
	body = append(body, wire.Frame(bad, true)...)
	if c.T == "grpc-web-text" {
		body = b64(body)
	}
	p.Body = body
	return p
}

// ------------------------------------------------------------ in-process

// inprocRequest builds the server-side request of an in-process case.
func (c *Case) inprocRequest(id string) *http.Request {
	var truncErr error
	if c.TruncErr {
		truncErr = io.ErrUnexpectedEOF
	}
	rd := &wire.ScriptReader{Data: c.sentBody(), Cuts: c.Cuts, EOFWithData: c.EOFWithData, TruncErr: truncErr}
	hdr := http.Header{"X-Case": {id}, "Content-Type": {c.contentType()}}
	switch c.T {
	case "http":
		if c.CE != "" {
			hdr.Set("Content-Encoding", c.CE)
		}
		if c.Shape == "ssget" || c.Shape == "download" {
			hdr.Set("Accept", c.contentType())
			hdr.Del("Content-Type")
			return wire.NewRequest("GET", c.httpPath(), "", hdr, nil, 0)
		}
		if c.Shape == "upbidi" {
			hdr.Set("Accept", "application/json")
		}
		if c.Accept != "" {
			hdr.Set("Accept", c.acceptType())
		}
		if c.KnownLen && c.Trunc < 0 {
			// the request announces its Content-Length (of the encoded body)
			return wire.NewRequest("POST", c.httpPath(), "", hdr, rd, int64(len(c.Body)))
		}
		return wire.NewRequest("POST", c.httpPath(), "", hdr, rd, -1)
	case "grpc":
		if c.Codec == "gzip" {
			hdr.Set("Grpc-Encoding", "gzip")
		}
		return wire.GRPCRequest(full(c.method()), hdr, rd)
	case "grpc-web", "grpc-web-text":
		if c.Codec == "gzip" {
			hdr.Set("Grpc-Encoding", "gzip")
		}
		return wire.NewRequest("POST", full(c.method()), "", hdr, rd, -1)
	}
	panic("transport " + c.T)
}

// decodeResponse turns the raw response into the client's observation.
func (c *Case) decodeResponse(code int, hdr, trailer http.Header, body []byte) *cobs {
	co := &cobs{httpCode: code}
	md := c.outDesc()
	switch c.T {
	case "http":
		if c.Shape == "download" {
			co.raw = body
			return co
		}
		if code != 200 {
			// error reply: not a message of the stream
			co.trailing = len(body)
			co.undec = fmt.Sprintf("HTTP status %d", code)
			return co
		}
		ct := hdr.Get("Content-Type")
		co.ctype = ct
		isJSON := strings.HasPrefix(ct, "application/json")
		if c.serverStreams() {
			if isJSON {
				parseJSONStream(body, md, co)
			} else {
				parseDelimStream(body, md, co)
			}
			return co
		}
		// single reply, not delimited
		if isJSON {
			parseJSONStream(body, md, co)
		} else {
			m := vschema.NewMsg(md)
			if err := proto.Unmarshal(body, m); err != nil {
				co.undec = "proto: " + err.Error()
				co.trailing = len(body)
			} else {
				co.msgs = append(co.msgs, m)
			}
		}
		return co
	case "grpc":
		frames, rest := wire.ParseFrames(body)
		parseFrames(frames, md, co)
		if len(rest) > 0 {
			co.trailing = len(rest)
			co.undec = "incomplete gRPC frame"
		}
		for _, h := range []http.Header{trailer, hdr} {
			if v := h.Get("Grpc-Status"); v != "" {
				var n int
				if _, err := fmt.Sscanf(v, "%d", &n); err == nil {
					co.hasStatus, co.code, co.smsg = true, n, wire.DecodeGrpcMessage(h.Get("Grpc-Message"))
				}
				break
			}
		}
		return co
	case "grpc-web", "grpc-web-text":
		wr := wire.DecodeWeb(body, c.T == "grpc-web-text")
		if wr.DecodeErr != nil {
			co.undec = wr.DecodeErr.Error()
		}
		if len(wr.Rest) > 0 {
			co.trailing = len(wr.Rest)
			if co.undec == "" {
				co.undec = "incomplete gRPC-web frame"
			}
		}
		var frames []wire.GFrame
		for i, m := range wr.Msgs {
			frames = append(frames, wire.GFrame{Flag: wr.Flags[i], Data: m})
		}
		und := co.undec
		parseFrames(frames, md, co)
		if co.undec == "" {
			co.undec = und
		}
		tr := wr.Trailer
		if !wr.HasTrail {
			// trailers-only responses carry the status in the headers
			if v := hdr.Get("Grpc-Status"); v != "" {
				tr = map[string][]string{"grpc-status": {v}, "grpc-message": {hdr.Get("Grpc-Message")}}
			}
		}
		if v := tr["grpc-status"]; len(v) > 0 {
			var n int
			if _, err := fmt.Sscanf(v[0], "%d", &n); err == nil {
				co.hasStatus, co.code = true, n
				if m := tr["grpc-message"]; len(m) > 0 {
					co.smsg = wire.DecodeGrpcMessage(m[0])
				}
			}
		}
		return co
	}
	panic("transport " + c.T)
}

// execInproc runs one in-process case and judges it.
func (e *env) execInproc(c *Case) (vs []viol, outcome string) {
	mux := e.muxes[c.Limit]
	if c.Proxied {
		m, err := e.proxied()
		if err != nil {
			e.r.Inconclusive("cannot start the proxied back-end: " + err.Error())
			return nil, "no-back-end"
		}
		mux = m
	}
	if mux == nil {
		panic(fmt.Sprintf("no mux for limit %d", c.Limit))
	}
	if c.Poison {
		for i := 0; i < 3; i++ {
			p := poisonCase(c)
			pid, _ := e.open(p.script())
			wire.Serve(mux, p.inprocRequest(pid))
			e.drop(pid)
			e.r.Count("failed_decompression_calls", 1)
		}
	}
	id, rc := e.open(c.script())
	defer e.drop(id)
	req := c.inprocRequest(id)
	resp := wire.Serve(mux, req)
	if resp.Wedged {
		if strings.Contains(resp.Dump, "larking.io/larking.") {
			return []viol{{c.prefix() + ":wedge:" + c.Sched, "request served from memory did not return within the watchdog; goroutine dump shows it inside larking"}}, "wedge"
		}
		e.r.Inconclusive("in-process request did not return (no larking frame in the dump)")
		return nil, "wedge?"
	}
	if resp.Panic != nil {
		return []viol{{resp.Panic.Key(), "panic while serving a stream: " + resp.Panic.Value}}, "panic"
	}
	if c.Proxied {
		// the back-end's handler finishes on its own schedule
		wait := 10 * time.Millisecond
		if ex := c.expectation(); ex.clean || ex.n >= 1 {
			wait = 15 * time.Second
		}
		select {
		case <-rc.started:
			select {
			case <-rc.done:
			case <-time.After(15 * time.Second):
				e.r.Inconclusive("proxied back-end handler did not reach its terminal event within 15s")
				return nil, "inconclusive"
			}
		case <-time.After(wait):
		}
	}
	s := rc.snap()
	co := c.decodeResponse(resp.Code, resp.Header, resp.Trailer, resp.Body)
	return e.judge(c, s, co, true)
}

// ---------------------------------------------------------------- oracles

func describe(m proto.Message) string {
	b := mustMarshal(m)
	if len(b) > 24 {
		return fmt.Sprintf("%d bytes %x…", len(b), b[:24])
	}
	return fmt.Sprintf("%d bytes %x", len(b), b)
}

// seqDiff compares a received sequence with the expected one and names the
// first discrepancy: "", phantom, lost, reordered, corrupt.
func seqDiff(got, want []proto.Message) (kind, what string) {
	for i := range got {
		if i >= len(want) {
			return "phantom", fmt.Sprintf("message %d delivered (%s) although only %d were sent", i, describe(got[i]), len(want))
		}
		if proto.Equal(got[i], want[i]) {
			continue
		}
		for j := range want {
			if j != i && proto.Equal(got[i], want[j]) {
				if j > i {
					// a later message arrived in place of message i
					for k := i + 1; k < len(got); k++ {
						if proto.Equal(got[k], want[i]) {
							return "reordered", fmt.Sprintf("message %d arrived at position %d", j, i)
						}
					}
					return "lost", fmt.Sprintf("message %d missing: position %d holds message %d", i, i, j)
				}
				return "reordered", fmt.Sprintf("message %d arrived again/late at position %d", j, i)
			}
		}
		return "corrupt", fmt.Sprintf("message %d differs: got %s, sent %s", i, describe(got[i]), describe(want[i]))
	}
	if len(got) < len(want) {
		return "lost", fmt.Sprintf("only %d of %d messages delivered", len(got), len(want))
	}
	return "", ""
}

func isPrefix(got, want []proto.Message) bool {
	if len(got) > len(want) {
		return false
	}
	for i := range got {
		if !proto.Equal(got[i], want[i]) {
			return false
		}
	}
	return true
}

func firstDiff(a, b []byte) int {
	for i := 0; i < len(a) && i < len(b); i++ {
		if a[i] != b[i] {
			return i
		}
	}
	return min(len(a), len(b))
}

func isEmptyMsg(m proto.Message) bool { return proto.Size(m) == 0 }

// judge applies the C06 oracles to one finished stream. clientSaw tells
// whether the client's observation is complete (false after an abort on a
// real transport: only the handler side is judged then).
func (e *env) judge(c *Case, s snapshot, co *cobs, clientSaw bool) (vs []viol, outcome string) {
	pre := c.prefix()
	add := func(obs, class, what string) {
		if c.Accept != "" {
			// codec-pair lane: the key names the pair (in the prefix) and the
			// relation of the method's request and reply types
			class += "@" + c.typeRel()
			what += fmt.Sprintf(" [request %s, Accept %s, response Content-Type %q]", c.contentType(), c.acceptType(), coType(co))
		}
		vs = append(vs, viol{pre + ":" + obs + ":" + class, what})
		if outcome == "" {
			outcome = obs
		}
	}
	ex := c.expectation()
	websocket := c.T == "ws"
	eos := ex.class

	if !s.entered {
		if !ex.clean {
			// refused before dispatch (e.g. a cut gzip header): an error
			// for the client and nothing fabricated for the handler
			return vs, "refused"
		}
		add("not-dispatched", c.Lane, fmt.Sprintf("the streaming handler was never invoked (HTTP %d, %q)", co.httpCode, co.undec))
		return vs, outcome
	}

	e.r.Count("handler_recv_events", len(s.recv))
	e.r.Count("handler_send_events", len(s.sent))
	if s.recvEnd {
		e.r.Count("handler_terminal_events", 1)
	}
	if co != nil && clientSaw {
		e.r.Count("client_messages_decoded", len(co.msgs))
		if co.hasStatus {
			e.r.Count("client_final_statuses", 1)
		}
	}

	if c.Accept != "" && co != nil && clientSaw {
		e.r.Count("codec_pair_streams", 1)
		e.r.Count("codec_pair_streams_"+c.typeRel(), 1)
		if c.acceptType() != c.contentType() {
			e.r.Count("codec_pair_streams_reply_codec_differs_from_request_codec", 1)
		}
		switch {
		case co.httpCode != 200:
			e.r.Count("codec_pair_error_responses", 1)
		case strings.HasPrefix(co.ctype, "application/json"):
			e.r.Count("codec_pair_responses_announced_json", 1)
		case strings.HasPrefix(co.ctype, "application/protobuf"):
			e.r.Count("codec_pair_responses_announced_protobuf", 1)
		case co.ctype == "":
			e.r.Count("codec_pair_responses_without_content_type", 1)
			if len(s.sent) > 0 {
				e.r.Count("codec_pair_responses_without_content_type_with_replies", 1)
			}
		default:
			e.r.Count("codec_pair_responses_announced_other", 1)
		}
		if co.httpCode == 200 && co.ctype == c.acceptType() {
			e.r.Count("codec_pair_responses_in_the_codec_asked_for", 1)
		}
		e.r.Count("codec_pair_replies_decoded_with_announced_codec", len(co.msgs))
	}

	// ---- handler side: receive sequence and terminal event
	switch {
	case c.Shape == "ssget" || c.Shape == "download":
		// body-less request: one message built from the URL
		if len(s.recv) != 1 {
			add("phantom", "no-body-request", fmt.Sprintf("%d messages delivered for a body-less request", len(s.recv)))
		}
	case c.Codec == "httpbody-reader":
		want := c.sentBody()
		if !ex.clean {
			if !bytes.HasPrefix(want, s.raw) {
				add("corrupt", "passthrough-"+eos, fmt.Sprintf("AsHTTPBodyReader delivered %d bytes that are not a prefix of the %d uploaded", len(s.raw), len(want)))
			}
			if ex.mustErr && (s.rawErr == nil || s.rawErr == io.EOF) {
				add("eof-on-truncation", "passthrough-"+eos, fmt.Sprintf("aborted upload ended with %v", s.rawErr))
			}
			break
		}
		if !bytes.Equal(s.raw, want) {
			add("bytes-lost", "passthrough", fmt.Sprintf("AsHTTPBodyReader delivered %d bytes, upload has %d", len(s.raw), len(want)))
		}
		if s.rawErr != io.EOF {
			add("no-eof", "passthrough", fmt.Sprintf("AsHTTPBodyReader ended with %v, want io.EOF", s.rawErr))
		}
	case c.isUpload():
		upload := c.sentBody()
		if c.CE != "" {
			upload = c.Msgs[0] // the body is the encoded form
		}
		L := c.Limit
		if L == 0 {
			L = 4 << 20
		}
		var cat []byte
		empties, over := 0, 0
		for _, m := range s.recv {
			f := getField(m, "file").Message().Interface()
			d := getField(f, "data").Bytes()
			if len(d) == 0 {
				empties++
			}
			if len(d) > L {
				over++
			}
			cat = append(cat, d...)
		}
		mult := "other-length"
		if len(upload) > 0 && len(upload)%L == 0 {
			mult = "exact-multiple-of-limit"
		}
		if over > 0 {
			add("chunk-over-limit", mult, fmt.Sprintf("%d chunks larger than the limit %d", over, L))
		}
		if s.overrun {
			add("phantom", "flood", fmt.Sprintf("handler received %d chunks and the stream still had not ended", len(s.recv)))
			break
		}
		if !ex.clean {
			sent := c.sentBody()
			if !bytes.HasPrefix(sent, cat) {
				add("corrupt", eos, fmt.Sprintf("chunks (%d bytes) are not a prefix of the %d bytes uploaded before the abort", len(cat), len(sent)))
			}
			if ex.mustErr && cleanEnd(s.recvErr, false) {
				add("eof-on-truncation", eos, fmt.Sprintf("aborted upload ended with a clean %v", s.recvErr))
			}
			break
		}
		if !bytes.Equal(cat, upload) {
			k := "bytes-lost"
			if len(cat) >= len(upload) {
				k = "corrupt"
			}
			add(k, mult, fmt.Sprintf("chunks carry %d bytes, upload has %d (limit %d)", len(cat), len(upload), L))
		}
		if len(upload) > 0 && empties > 0 {
			add("phantom", mult, fmt.Sprintf("%d empty chunk(s) delivered for an upload of %d bytes (limit %d, %d chunks)", empties, len(upload), L, len(s.recv)))
		}
		if len(upload) == 0 && len(s.recv) > 1 {
			add("phantom", "empty-upload", fmt.Sprintf("%d chunks delivered for an empty upload", len(s.recv)))
		}
		if s.recvErr != io.EOF {
			add("no-eof", mult, fmt.Sprintf("upload stream ended with %v, want io.EOF", s.recvErr))
		}
	default:
		want := c.wantMsgs()
		if s.overrun {
			cls := "unbounded"
			if c.Shape == "bidinb" {
				cls = "no-body-rule"
			}
			add("phantom", cls, fmt.Sprintf("handler received %d messages for %d sent and the stream still had not ended", len(s.recv), len(want)))
			break
		}
		if ex.clean {
			if c.Shape != "bidinb" {
				want = want[:ex.n]
			}
			got := s.recv
			if c.StopAfter > 0 && c.StopAfter <= len(want) {
				// the handler ended the call itself: no terminal event
				if k, w := seqDiff(got, want[:c.StopAfter]); k != "" {
					add(k, "handler-stops-early", "handler: "+w)
				}
				break
			}
			// HTTP transcoding may represent an empty stream as one
			// message built from the URL alone.
			if c.T == "http" && len(want) == 0 && len(got) == 1 && isEmptyMsg(got[0]) {
				got = nil
			}
			if k, w := seqDiff(got, want); k != "" {
				add(k, eos, "handler: "+w)
			}
			if !s.recvEnd || !cleanEnd(s.recvErr, websocket) {
				add("no-eof", eos, fmt.Sprintf("handler's receive loop ended with %v after %d messages, want a clean end of stream", s.recvErr, len(s.recv)))
			}
			break
		}
		// truncated / aborted stream
		want = want[:ex.n]
		got := s.recv
		if ex.exact {
			if k, w := seqDiff(got, want); k != "" {
				if k == "phantom" {
					w = "fabricated message after the stream was cut: " + w
				}
				add(k, "truncated-"+eos, "handler: "+w)
			}
		} else if !isPrefix(got, want) {
			if !isPrefix(got, c.wantMsgs()) {
				add("corrupt", "truncated-"+eos, fmt.Sprintf("handler received %d messages that are not a prefix of the sent sequence", len(got)))
			}
		}
		if ex.mustErr {
			if cleanEnd(s.recvErr, false) || s.recvErr == nil {
				add("eof-on-truncation", eos, fmt.Sprintf("stream cut %s (offset %d of %d) ended with a clean %v after %d messages", eos, c.Trunc, len(c.Body), s.recvErr, len(s.recv)))
			}
		}
	}

	// ---- client side: received sequence and final status
	if !clientSaw || co == nil {
		return vs, outcome
	}
	aborted := !ex.clean
	hasStatusChannel := c.T != "http"
	if c.Shape == "download" {
		var cat []byte
		for _, m := range s.sent {
			cat = append(cat, getField(m, "data").Bytes()...)
		}
		if c.Asset != "" && s.ret == nil {
			// what must arrive is the pristine content of the asset
			var want []byte
			for _, b := range c.Reply {
				want = append(want, getField(unmarshalAs(bodyDesc(), b), "data").Bytes()...)
			}
			if !bytes.Equal(cat, want) {
				add("corrupt", "long-lived-asset-as-sent", fmt.Sprintf("the handler's long-lived asset no longer holds its bytes when it is sent (%d bytes, first difference at %d)", len(want), firstDiff(cat, want)))
			} else if !bytes.Equal(co.raw, want) {
				add("client-corrupt", "download-of-long-lived-asset", fmt.Sprintf("client received %d bytes that are not the %d bytes of the asset (first difference at %d)", len(co.raw), len(want), firstDiff(co.raw, want)))
			}
			if outcome == "" {
				outcome = "ok"
			}
			return vs, outcome
		}
		switch {
		case s.ret == nil && !bytes.Equal(co.raw, cat):
			add("client-bytes-lost", "download", fmt.Sprintf("client received %d bytes, handler sent %d", len(co.raw), len(cat)))
		case s.ret != nil && !bytes.HasPrefix(co.raw, cat):
			add("client-bytes-lost", "download-then-error", fmt.Sprintf("client received %d bytes that do not start with the %d bytes the handler sent", len(co.raw), len(cat)))
		}
		return vs, outcome
	}
	if aborted {
		// the client is gone; only the handler side is judged
		if outcome == "" {
			outcome = "ok"
		}
		return vs, outcome
	}
	if s.ret == nil || hasStatusChannel {
		if k, w := seqDiff(co.msgs, s.sent); k != "" {
			cls := "response"
			if co.undec != "" {
				cls = "response-undecodable"
				w += " (" + co.undec + ")"
			}
			add("client-"+k, cls, "client: "+w)
		} else if co.trailing > 0 && c.T == "http" {
			add("client-phantom", "trailing-bytes", fmt.Sprintf("client: %d surplus bytes after the handler's %d messages (%s)", co.trailing, len(s.sent), co.undec))
		}
	} else if len(co.msgs) < len(s.sent) || !isPrefix(s.sent, co.msgs[:len(s.sent)]) {
		// HTTP without a status channel: what was sent before the failure
		// must still arrive first; what follows is the error report
		add("client-lost", "response-before-error", fmt.Sprintf("client decoded %d messages, handler had sent %d before it failed (%s)", len(co.msgs), len(s.sent), co.undec))
	}
	if c.T == "ws" {
		// the close frame is the status channel, and only when the server
		// ends the call (otherwise the client's own close comes first)
		if !(c.Shape == "ss" || c.StopAfter > 0) {
			if outcome == "" {
				outcome = "ok"
			}
			return vs, outcome
		}
		switch {
		case !co.hasStatus:
			add("lost-status", "close-frame", fmt.Sprintf("client: connection ended without a close frame after %d messages (handler returned %v)", len(co.msgs), s.ret))
		case s.ret == nil && co.code != 1000 && co.code != 1005:
			// a close frame without a code (1005) also reads as "no error"
			add("wrong-status", "close-frame", fmt.Sprintf("client: close code %d after the handler returned nil, want 1000 (or none)", co.code))
		case s.ret != nil && (co.code == 1000 || co.code == 1005):
			add("wrong-status", "close-frame", fmt.Sprintf("client: close code %d although the handler returned %v", co.code, s.ret))
		case s.ret != nil && c.Final != 0 && int(status.Code(s.ret)) == c.Final && co.smsg != c.FinalMsg:
			add("wrong-status", "close-reason", fmt.Sprintf("client: close reason %q, handler returned %q", co.smsg, c.FinalMsg))
		}
		if outcome == "" {
			outcome = "ok"
		}
		return vs, outcome
	}
	if hasStatusChannel {
		wantCode := int(status.Code(s.ret))
		switch {
		case !co.hasStatus:
			cls := "status"
			if c.T == "grpc-web-text" && co.undec != "" {
				cls = "unterminated-base64"
			}
			add("lost-status", cls, fmt.Sprintf("client: no final status after %d messages (handler returned %v; %s)", len(co.msgs), s.ret, co.undec))
		case co.code != wantCode:
			add("wrong-status", "status", fmt.Sprintf("client: final status %d, handler returned %d (%v)", co.code, wantCode, s.ret))
		case c.Final != 0 && s.ret != nil && wantCode == c.Final && co.smsg != c.FinalMsg:
			add("wrong-status", "message", fmt.Sprintf("client: status message %q, handler returned %q", co.smsg, c.FinalMsg))
		case c.T == "grpc-web-text" && co.undec != "":
			add("lost-tail", "unterminated-base64", "client: "+co.undec)
		}
	}
	if outcome == "" {
		outcome = "ok"
	}
	return vs, outcome
}

func coType(co *cobs) string {
	if co == nil {
		return ""
	}
	return co.ctype
}

func min(a, b int) int {
	if a < b {
		return a
	}
	return b
}

func b64(b []byte) []byte { return []byte(base64.StdEncoding.EncodeToString(b)) }
