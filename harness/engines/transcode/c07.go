package transcode

import (
	"context"
	"fmt"
	"strconv"
	"strings"
	"time"

	"github.com/gobwas/ws"
	"github.com/gobwas/ws/wsutil"
	"google.golang.org/protobuf/encoding/protojson"

	"google.golang.org/protobuf/proto"
	"google.golang.org/protobuf/reflect/protoreflect"

	"verif/internal/mon"
	"verif/internal/textref"
	"verif/internal/tmplref"
	"verif/internal/vschema"
	"verif/internal/wire"
)

// project returns a message holding only the field reached by fds, with the
// value it has in src (intermediate messages are always created, as the
// reference does).
func project(src proto.Message, fds []protoreflect.FieldDescriptor) proto.Message {
	out := src.ProtoReflect().New()
	cur, s := out, src.ProtoReflect()
	ok := true
	for i, fd := range fds {
		if i == len(fds)-1 {
			if ok && s.Has(fd) {
				if fd.Message() != nil {
					cur.Set(fd, protoreflect.ValueOfMessage(cloneMsg(s.Get(fd).Message().Interface()).ProtoReflect()))
				} else {
					cur.Set(fd, s.Get(fd))
				}
			}
			break
		}
		cur = cur.Mutable(fd).Message()
		if ok && s.Has(fd) {
			s = s.Get(fd).Message()
		} else {
			ok = false
		}
	}
	return out.Interface()
}

func onlyField(md protoreflect.MessageDescriptor, fds []protoreflect.FieldDescriptor, text string) (proto.Message, error) {
	m := vschema.NewMsg(md)
	if err := textref.Apply(m.ProtoReflect(), fds, text); err != nil {
		return nil, err
	}
	return m, nil
}

// execC07: the handler's value of the path-bound field must be the capture.
func execC07(e *env, c *Case) (o outcome) {
	md := vschema.Msg(c.Rule.In)
	fds := textref.Resolve(md, strings.Split(c.Field, "."))
	if fds == nil {
		o.inconcl = "bad case: field " + c.Field
		return
	}
	exp, err := onlyField(md, fds, c.Text)
	if c.OddText {
		exp, err = nil, nil // one-sided: see c07Once
	}
	if err != nil {
		o.inconcl = "bad case: reference rejects the capture: " + err.Error()
		return
	}
	var whole proto.Message
	if c.Whole {
		if whole, err = decodeMsg(c.Rule.In, c.Msg); err != nil {
			o.inconcl = "bad case: " + err.Error()
			return
		}
	}
	reps := c.Repeat
	if reps < 1 {
		reps = 1
	}
	o.evals = -1
	for rep := 0; rep < reps; rep++ {
		o.evals++
		// query parameters are applied in map-iteration order: the same
		// request is served several times
		if !c07Once(e, c, &o, md, fds, exp, whole) {
			return
		}
	}
	return
}

func queryLabel(q string) string {
	if len(q) > 300 {
		return q[:300] + fmt.Sprintf("...(%d bytes)", len(q))
	}
	return q
}

func c07Once(e *env, c *Case, o *outcome, md protoreflect.MessageDescriptor, fds []protoreflect.FieldDescriptor, exp, whole proto.Message) bool {
	e.rec.setStreamMode(c.Handler)
	resp, calls := serve(e, c.Req)
	e.rec.setStreamMode("")
	if resp.Wedged {
		o.inconcl = "request did not return within the watchdog"
		return false
	}
	if resp.Panic != nil {
		o.count("c07_panics_left_to_C09")
		o.count("left_to_C09:" + resp.Panic.Key())
		return false
	}
	if len(calls) == 0 {
		if resp.Code >= 400 {
			o.count("c07_conflicting_request_rejected_(allowed)")
			if c.Mux == muxProxied && resp.Code == 503 {
				// the unavailable provider was picked: not judged, try again
				o.count("c07_proxied_unavailable_provider_picked_(not_judged)")
				return true
			}
		} else {
			o.add("c07:no-handler-no-error:"+c.Class, fmt.Sprintf("%s %s?%s answered %d without reaching the handler", c.Req.Verb, c.Req.Path, queryLabel(c.Req.RawQuery), resp.Code))
		}
		return false
	}
	got := project(calls[0].msg, fds)
	if c.Req.Escape != "" && exp != nil && !proto.Equal(got, exp) {
		// does the default spelling of the same path keep the capture?
		c2 := *c
		c2.Req.Escape = ""
		e.rec.setStreamMode(c.Handler)
		_, calls2 := serve(e, c2.Req)
		e.rec.setStreamMode("")
		if len(calls2) > 0 && proto.Equal(project(calls2[0].msg, fds), exp) {
			o.add("c07:capture-differs-from-path-text:over-escaped-path:"+c.Req.Escape, fmt.Sprintf("rule %s %s: %s %s sent as %s: the path-bound field %s must hold the decoded path text %q (as it does for the default spelling) but the handler received %s",
				c.Rule.Verb, c.Rule.Tmpl, c.Req.Verb, c.Req.Path, escapedTarget(c.Req.Path, c.Req.Escape), c.Field, c.Text, jsonOf(got)))
			return false
		}
	}
	if c.OddText {
		// an odd path text (null, NaN, true, ...) for a typed variable: the
		// route may be refused, or the field holds what the text converts to
		// under some proto3-JSON reading - never the competitor's value
		for _, rd := range append(refReadings(vschema.NewMsg(md), fds, c.Text), zeroPresent(md, fds)) {
			if rd != nil && proto.Equal(got, project(rd, fds)) {
				o.distinct = "c07|odd-path-text|" + kindClass(fds[len(fds)-1]) + "|" + c.Via
				return true
			}
		}
		for _, ch := range []string{"query", "body"} {
			if t, ok := c.Compete[ch]; ok {
				if m, err := onlyField(md, fds, t); err == nil && proto.Equal(got, m) {
					o.add("c07:path-bound-overridden:by="+ch+":odd-path-text", fmt.Sprintf("rule %s %s body=%q: %s %s?%s (competing %s): the path text %q captured for %s (%s) matched the route, but the handler received the competing value %s",
						c.Rule.Verb, c.Rule.Tmpl, c.Rule.Body, c.Req.Verb, c.Req.Path, queryLabel(c.Req.RawQuery), c.Via, c.Text, c.Field, kindClass(fds[len(fds)-1]), jsonOf(got)))
					return false
				}
			}
		}
		o.count("c07_odd_path_text_other_value_(no_claim)")
		return true
	}
	if !proto.Equal(got, exp) {
		by := "other:" + kindClass(fds[len(fds)-1])
		if proto.Equal(got, project(vschema.NewMsg(md), fds)) {
			by = "none(capture-lost)"
		}
		for _, ch := range []string{"query", "query2", "body"} {
			t, ok := c.Compete[ch]
			if !ok {
				continue
			}
			if m, err := onlyField(md, fds, t); err == nil && proto.Equal(got, m) {
				by = strings.TrimSuffix(ch, "2")
				break
			}
		}
		if c.Handler != "" {
			by += ":handler=" + c.Handler
		}
		if c.Extra == "zero-segment-tail" {
			by += ":zero-segment-tail"
		}
		if c.Extra == "oneof-sibling-competitor" {
			by += ":oneof-sibling-competitor"
		}
		if c.Mux == muxProxied {
			by += ":mux=" + muxProxied
		}
		if ct := c.Req.Header["Content-Type"]; len(ct) > 0 && strings.HasPrefix(by, "body") {
			mt, _, _ := strings.Cut(ct[0], ";")
			if mt != "application/json" && mt != "application/protobuf" && mt != "application/octet-stream" {
				by += ":" + mt
			}
		}
		o.add("c07:path-bound-overridden:by="+by, fmt.Sprintf("rule %s %s body=%q: %s %s?%s (competing %s): path-bound field %s was captured as %q but the handler received %s (whole message: %s)",
			c.Rule.Verb, c.Rule.Tmpl, c.Rule.Body, c.Req.Verb, c.Req.Path, queryLabel(c.Req.RawQuery), c.Via, c.Field, c.Text, jsonOf(got), jsonOf(calls[0].msg)))
		return false
	}
	if whole != nil && !proto.Equal(calls[0].msg, whole) {
		o.add("c07:sent-field-not-delivered:"+c.Extra, fmt.Sprintf("rule %s %s body=%q: %s %s?%s (%s): the path-bound field %s kept its capture %q, but the other parameters did not arrive where they were sent: %s",
			c.Rule.Verb, c.Rule.Tmpl, c.Rule.Body, c.Req.Verb, c.Req.Path, queryLabel(c.Req.RawQuery), c.Via, c.Field, c.Text, diffFields(whole, calls[0].msg)))
		return false
	}
	o.distinct = "c07|" + c.Rule.ID + "|" + c.Field + "|" + c.Via
	return true
}

var (
	c07QueryVariants = []string{"none", "proto-name", "json-name", "twice", "before-other", "after-other"}
	c07BodyVariants  = []string{"none", "json", "protobuf", "json+gzip", "json-unrelated", "protobuf-unrelated",
		// other request syntaxes naming the field: whatever the tree accepts must
		// not override the path, whatever it refuses is no claim
		"form", "form-charset", "multipart", "text-plain", "json-charset"}

	// streaming rules: how the handler obtains the first message
	c07StreamModes = map[string][]string{"client": {"", "as-body-reader"}, "bidi": {"", "as-body-reader"}, "server": {"", "as-body-writer"}}
)

// benignField finds a string field that is neither path-bound nor part of the
// body, to surround the competing query key with.
func benignField(p *plan) (leaf, bool) {
	for _, lf := range urlLeaves(p.in, 1) {
		fd := lf.fd()
		if fd.Kind() != protoreflect.StringKind || fd.IsList() || fd.Message() != nil {
			continue
		}
		if p.isPathVar(lf.path()) || sameOneofAsVar(p, lf) || fd.ContainingOneof() != nil {
			continue
		}
		if ch := channelOf(p, lf.path(), bodyEnc{}); ch != "query" {
			continue
		}
		clash := false
		for _, v := range p.vars {
			if strings.HasPrefix(v.field, lf.path()+".") {
				clash = true
			}
		}
		if !clash {
			return lf, true
		}
	}
	return leaf{}, false
}

func keyOf(fds []protoreflect.FieldDescriptor, json bool) string {
	parts := make([]string, len(fds))
	for i, fd := range fds {
		if json {
			parts[i] = fd.JSONName()
		} else {
			parts[i] = string(fd.Name())
		}
	}
	return strings.Join(parts, ".")
}

// zeroPresent: the message in which the field is explicitly SET to its
// default value (differs from "unset" for oneof members): what a conversion
// of null / 0 / false may produce. nil for message kinds.
func zeroPresent(md protoreflect.MessageDescriptor, fds []protoreflect.FieldDescriptor) proto.Message {
	fd := fds[len(fds)-1]
	if fd.Message() != nil || fd.IsList() || fd.IsMap() {
		return nil
	}
	m := vschema.NewMsg(md)
	cur := m.ProtoReflect()
	for _, f := range fds[:len(fds)-1] {
		cur = cur.Mutable(f).Message()
	}
	cur.Set(fd, fd.Default())
	return m
}

// oneofSiblings lists leaf paths that are (or lie under) OTHER members of a
// real oneof the variable's field path goes through.
func oneofSiblings(p *plan, v pathVar) [][]protoreflect.FieldDescriptor {
	var out [][]protoreflect.FieldDescriptor
	for i, fd := range v.fds {
		od := fd.ContainingOneof()
		if od == nil || od.IsSynthetic() {
			continue
		}
		ms := od.Fields()
		for j := 0; j < ms.Len() && len(out) < 6; j++ {
			m := ms.Get(j)
			if m == fd || isNullEnum(m) {
				continue
			}
			path := append(append([]protoreflect.FieldDescriptor(nil), v.fds[:i]...), m)
			switch {
			case m.Message() == nil && m.Kind() != protoreflect.BytesKind:
				out = append(out, path)
			case isPlainMsg(m):
				fs := m.Message().Fields()
				for k := 0; k < fs.Len(); k++ {
					if f := fs.Get(k); f.Kind() == protoreflect.StringKind && !f.IsList() {
						out = append(out, append(path, f))
						break
					}
				}
			}
		}
	}
	return out
}

// oneofCase: the variable is (under) a member of a oneof; the query string
// and / or the body name a SIBLING member. The path capture must still win
// (setting it switches the oneof).
func (g *gen) oneofCase(p *plan, v pathVar, sib []protoreflect.FieldDescriptor, idx int, qv, bv string) (*Case, error) {
	base := vschema.NewMsg(p.in)
	texts, err := p.fit(g.rng, base, idx)
	if err != nil {
		return nil, err
	}
	leafFD := sib[len(sib)-1]
	tmp := vschema.NewMsg(leafFD.ContainingMessage()).ProtoReflect()
	setLeaf(tmp, leafFD, idx+1, g.rng)
	ts, err := canonTexts(tmp, leafFD, false)
	if err != nil || len(ts) != 1 {
		return nil, nil
	}
	st := ts[0]
	if leafFD.Kind() == protoreflect.StringKind {
		st = "sibling-member"
	}
	sibPath := protoPath(sib)
	c := &Case{Prop: "C07", Kind: "c07", Rule: p.rule, Field: v.field, Text: texts[v.field], Compete: map[string]string{}, Extra: "oneof-sibling-competitor"}
	q := reqSpec{Verb: reqVerb(p.rule), Path: p.instantiate(texts)}
	if qv != "none" {
		q.RawQuery = encodeQuery([]kv{{keyOf(sib, qv == "json-name"), st}})
	}
	if bv != "none" {
		inBody := p.rule.Body == "*" || (p.body != nil && strings.HasPrefix(sibPath, p.bodyPath()+"."))
		if !inBody {
			return nil, nil
		}
		full, err := onlyField(p.in, sib, st)
		if err != nil {
			return nil, nil
		}
		bodyMsg := full
		if p.body != nil {
			val, _ := getPath(full.ProtoReflect(), p.body)
			bodyMsg = val.Message().Interface()
		}
		enc := bodyEnc{ctype: "application/json", jsonFl: g.n % 4}
		if bv == "protobuf" {
			enc = bodyEnc{ctype: []string{"application/protobuf", "application/octet-stream"}[g.n%2]}
		}
		if q.Body, err = enc.encode(bodyMsg); err != nil {
			return nil, err
		}
		q.Header = enc.header()
	}
	g.n++
	c.Req = q
	c.Via = "oneof-sibling=" + sibPath + ",query=" + qv + ",body=" + bv
	c.Class = p.rule.bodyShape() + ":" + c.Via
	return c, nil
}

// starVar is the variable with a one-segment wildcard pattern: competing
// values need not match the template.
func starVar(v pathVar) pathVar {
	v.pat = []tmplref.Seg{{Kind: tmplref.Star}}
	return v
}

// keyLeaves lists singular scalar leaves that travel in the query string, for
// requests with many distinct keys.
func keyLeaves(p *plan) []leaf {
	var out []leaf
	for _, lf := range urlLeaves(p.in, 2) {
		fd := lf.fd()
		if fd.IsList() || fd.Message() != nil || fd.ContainingOneof() != nil || fd.Kind() == protoreflect.BytesKind {
			continue
		}
		if p.isPathVar(lf.path()) || sameOneofAsVar(p, lf) || (channelOf(p, lf.path(), bodyEnc{}) != "query" && p.rule.Body != "*") {
			continue
		}
		clash := false
		for _, v := range p.vars {
			if strings.HasPrefix(v.field, lf.path()+".") {
				clash = true
			}
		}
		if !clash {
			out = append(out, lf)
		}
	}
	return out
}

// c07Extra adds parameters that do not compete for the bound field.
type c07Extra struct {
	zeroTail bool   // the request path stops right before the template's trailing **
	oddText  string // replace the capture of the variable by this text (typed variables)
	keys     int    // this many URL parameters in total, on distinct keys as far as the type allows
	siblings int    // 1..3 query params on same-typed sibling sub-messages
	sibPos   string // before | after (the competing key)
	many     int    // this many elements of a repeated query field
}

// siblingLeaves lists the query-expressible leaves that live in a message of
// the same type and at the same depth as the variable's field, but under
// another field (vf.Req: sub / osub; ComplexRequest: nested / oneof_nested).
func siblingLeaves(p *plan, v pathVar) []leaf {
	if len(v.fds) < 2 {
		return nil
	}
	var same, others []leaf
	vfd := v.fds[len(v.fds)-1]
	for _, lf := range urlLeaves(p.in, 3) {
		if len(lf.fds) != len(v.fds) || lf.fd().ContainingMessage().FullName() != vfd.ContainingMessage().FullName() {
			continue
		}
		if protoPath(lf.fds[:len(lf.fds)-1]) == protoPath(v.fds[:len(v.fds)-1]) {
			continue // same parent: not a sibling sub-message
		}
		if p.isPathVar(lf.path()) || sameOneofAsVar(p, lf) || channelOf(p, lf.path(), bodyEnc{}) != "query" && p.rule.Body != "*" {
			continue
		}
		if lf.fd().Name() == vfd.Name() {
			same = append(same, lf)
		} else {
			others = append(others, lf)
		}
	}
	return append(same, others...)
}

// manyLeaf finds a repeated string field that travels in the query string.
func manyLeaf(p *plan) (leaf, bool) {
	for _, lf := range urlLeaves(p.in, 2) {
		fd := lf.fd()
		if !fd.IsList() || fd.Kind() != protoreflect.StringKind || p.isPathVar(lf.path()) || sameOneofAsVar(p, lf) {
			continue
		}
		if channelOf(p, lf.path(), bodyEnc{}) == "query" || p.rule.Body == "*" {
			return lf, true
		}
	}
	return leaf{}, false
}

func (g *gen) c07Case(p *plan, v pathVar, idx int, qv, bv string, ex c07Extra) (*Case, error) {
	base := vschema.NewMsg(p.in)
	texts, err := p.fit(g.rng, base, idx)
	if err != nil {
		return nil, err
	}
	P := texts[v.field]
	// competing texts: other canonical values of the same field
	other := func(k int) (string, error) {
		for tries := 0; tries < 50; tries++ {
			t, err := p.pathTextFor(g.rng, starVar(v), idx+7+k+tries)
			if err != nil {
				return "", err
			}
			if !canonicalFor(v.fds, t) {
				continue
			}
			a, e1 := onlyField(p.in, v.fds, t)
			b, e2 := onlyField(p.in, v.fds, P)
			if e1 == nil && e2 == nil && !proto.Equal(a, b) {
				if ex.oddText != "" {
					// must not coincide with any reading of the odd text
					clash := false
					for _, rd := range append(refReadings(vschema.NewMsg(p.in), v.fds, ex.oddText), zeroPresent(p.in, v.fds)) {
						clash = clash || (rd != nil && proto.Equal(project(rd, v.fds), a))
					}
					if clash {
						continue
					}
				}
				return t, nil
			}
		}
		return "", fmt.Errorf("no competing value for %s", v.field)
	}
	if ex.oddText != "" {
		if !isSingleStar(v.pat) || v.fds[len(v.fds)-1].Kind() == protoreflect.StringKind || !pathSafe(ex.oddText) {
			return nil, nil
		}
	} else if alt, ok := bytesTextVariant(p.in, v, P, idx); ok {
		// same bytes in another base64 spelling (std / url-safe alphabet,
		// padded / unpadded); the expected value stays the protojson reading
		P = alt
		texts[v.field] = alt
	}
	c := &Case{Prop: "C07", Kind: "c07", Rule: p.rule, Field: v.field, Text: P, Compete: map[string]string{}}
	if ex.oddText != "" {
		c.OddText, c.Text = true, ex.oddText
		texts[v.field] = ex.oddText
	}
	q := reqSpec{Verb: reqVerb(p.rule), Path: p.instantiateTail(texts, ex.zeroTail)}
	if ex.zeroTail {
		last := p.t.Segs[len(p.t.Segs)-1]
		if !p.endsInStarStar() || (last.Kind == tmplref.Var && protoPath(textref.Resolve(p.in, last.Field)) == v.field) {
			return nil, nil
		}
		if g.n%3 == 0 {
			q.Path += "/" // a trailing slash is trimmed by the mux
		}
	}
	var query []kv
	if qv != "none" {
		Q, err := other(0)
		if err != nil {
			return nil, err
		}
		c.Compete["query"] = Q
		key := keyOf(v.fds, qv == "json-name")
		if qv == "json-name" && key == keyOf(v.fds, false) {
			return nil, nil // no distinct JSON spelling
		}
		if qv != "proto-name" && qv != "json-name" && g.n%2 == 0 {
			key = keyOf(v.fds, true)
		}
		switch qv {
		case "proto-name", "json-name":
			query = []kv{{key, Q}}
		case "twice":
			Q2, err := other(3)
			if err != nil {
				return nil, err
			}
			c.Compete["query2"] = Q2
			query = []kv{{key, Q}, {key, Q2}}
		case "before-other", "after-other":
			lf, ok := benignField(p)
			if !ok {
				return nil, nil
			}
			o := kv{keyOf(lf.fds, false), "zz"}
			if qv == "before-other" {
				query = []kv{{key, Q}, o}
			} else {
				query = []kv{o, {key, Q}}
			}
		}
	}
	// parameters that do not compete for the bound field
	expected := cloneMsg(base)
	var extras []kv
	if ex.siblings > 0 {
		sibs := siblingLeaves(p, v)
		if len(sibs) == 0 {
			return nil, nil
		}
		for i := 0; i < ex.siblings; i++ {
			lf := sibs[(i*(1+g.n%3)+i)%len(sibs)]
			if i == 0 {
				lf = sibs[0] // the sibling's field of the same name, when there is one
			}
			dup := false
			for _, e := range extras {
				if e.k == keyOf(lf.fds, false) || e.k == keyOf(lf.fds, true) {
					dup = true
				}
			}
			if dup && !lf.fd().IsList() {
				continue
			}
			tmp := vschema.NewMsg(lf.fd().ContainingMessage()).ProtoReflect()
			setLeaf(tmp, lf.fd(), idx+i+1, g.rng)
			ts, err := canonTexts(tmp, lf.fd(), false)
			if err != nil || len(ts) == 0 {
				continue
			}
			t := ts[0]
			if lf.fd().Kind() == protoreflect.StringKind {
				t = fmt.Sprintf("sibling-%d", i)
			}
			if lf.fd().Message() != nil && !canonicalFor(lf.fds, t) {
				continue
			}
			if err := textref.Apply(expected.ProtoReflect(), lf.fds, t); err != nil {
				return nil, err
			}
			extras = append(extras, kv{keyOf(lf.fds, (g.n+i)%2 == 0), t})
		}
		if len(extras) == 0 {
			return nil, nil
		}
		c.Extra = "sibling-params"
	}
	if ex.keys > 0 {
		want := ex.keys
		if qv != "none" {
			want--
		}
		for i, lf := range keyLeaves(p) {
			if len(extras) >= want {
				break
			}
			tmp := vschema.NewMsg(lf.fd().ContainingMessage()).ProtoReflect()
			setLeaf(tmp, lf.fd(), idx+i, g.rng)
			ts, err := canonTexts(tmp, lf.fd(), false)
			if err != nil || len(ts) != 1 {
				continue
			}
			t := ts[0]
			if lf.fd().Kind() == protoreflect.StringKind {
				t = fmt.Sprintf("key-%d", i)
			}
			if err := textref.Apply(expected.ProtoReflect(), lf.fds, t); err != nil {
				continue
			}
			extras = append(extras, kv{keyOf(lf.fds, (g.n+i)%2 == 0), t})
		}
		if lf, ok := manyLeaf(p); ok && len(extras) < want {
			cur := expected.ProtoReflect()
			for _, fd := range lf.fds[:len(lf.fds)-1] {
				cur = cur.Mutable(fd).Message()
			}
			l := cur.Mutable(lf.fd()).List()
			for i := 0; len(extras) < want; i++ {
				t := "f" + strconv.Itoa(i)
				l.Append(protoreflect.ValueOfString(t))
				extras = append(extras, kv{keyOf(lf.fds, false), t})
			}
		}
		if len(extras) < 12 {
			return nil, nil // the request type has too few fields for this dimension
		}
		if g.n%2 == 0 {
			extras = shuffleKeepKeyOrder(g.rng, extras)
		}
		c.Extra = "many-keys"
	}
	if ex.many > 0 {
		lf, ok := manyLeaf(p)
		if !ok {
			return nil, nil
		}
		cur := expected.ProtoReflect()
		for _, fd := range lf.fds[:len(lf.fds)-1] {
			cur = cur.Mutable(fd).Message()
		}
		l := cur.Mutable(lf.fd()).List()
		key := keyOf(lf.fds, g.n%2 == 0)
		for i := 0; i < ex.many; i++ {
			t := "e" + strconv.Itoa(i)
			l.Append(protoreflect.ValueOfString(t))
			extras = append(extras, kv{key, t})
		}
		c.Extra = "many-params"
	}
	if len(extras) > 0 {
		if ex.sibPos == "after" {
			query = append(query, extras...)
		} else {
			query = append(extras, query...)
		}
		// with body "*" the google.api.http mapping has no query parameters:
		// only the bound field is checked there
		if p.rule.Body != "*" {
			wireE, err := proto.Marshal(expected)
			if err != nil {
				return nil, err
			}
			c.Whole, c.Msg, c.MsgJSON = true, wireE, jsonOf(expected)
		}
		c.Repeat = 4
		if ex.keys > 0 {
			c.Repeat = 20 // the order of the query parameters varies per request
		}
	}
	q.RawQuery = encodeQuery(query)
	rawUpload := p.body != nil && p.body[len(p.body)-1].Message().FullName() == "google.api.HttpBody"
	switch {
	case bv == "none":
	case rawUpload:
		// the body is the raw upload: it cannot name a field
		if !strings.HasSuffix(bv, "-unrelated") {
			return nil, nil
		}
		q.Body = []byte(strings.Repeat("raw upload bytes ", 1+g.n%40))
		q.Header = map[string][]string{"Content-Type": {[]string{"image/jpeg", "application/octet-stream", "text/plain"}[g.n%3]}}
	case bv == "form" || bv == "form-charset" || bv == "multipart" || bv == "text-plain":
		inBody := p.rule.Body == "*" || (p.body != nil && strings.HasPrefix(v.field, p.bodyPath()+"."))
		if p.rule.Body == "" || !inBody || ex.siblings+ex.many+ex.keys > 0 {
			return nil, nil
		}
		Qb, err := other(5)
		if err != nil {
			return nil, err
		}
		c.Compete["body"] = Qb
		rel := v.fds
		if p.body != nil {
			rel = v.fds[len(p.body):]
		}
		key := keyOf(rel, g.n%2 == 0)
		pairs := []kv{{key, Qb}}
		switch bv {
		case "multipart":
			q.Body = []byte("--vfb\r\nContent-Disposition: form-data; name=\"" + key + "\"\r\n\r\n" + Qb + "\r\n--vfb--\r\n")
			q.Header = map[string][]string{"Content-Type": {"multipart/form-data; boundary=vfb"}}
		case "text-plain":
			q.Body = []byte(key + "=" + Qb)
			q.Header = map[string][]string{"Content-Type": {"text/plain"}}
		case "form-charset":
			q.Body = []byte(encodeQuery(pairs))
			q.Header = map[string][]string{"Content-Type": {"application/x-www-form-urlencoded; charset=UTF-8"}}
		default:
			q.Body = []byte(encodeQuery(pairs))
			q.Header = map[string][]string{"Content-Type": {"application/x-www-form-urlencoded"}}
		}
	}
	if bv != "none" && q.Body == nil {
		if p.rule.Body == "" {
			return nil, nil
		}
		jsonCharset := bv == "json-charset"
		if jsonCharset {
			bv = "json"
		}
		inBody := p.rule.Body == "*" || (p.body != nil && strings.HasPrefix(v.field, p.bodyPath()+"."))
		unrelated := strings.HasSuffix(bv, "-unrelated")
		if !inBody && !unrelated {
			return nil, nil
		}
		var bodyMsg proto.Message
		if unrelated {
			// a body that does not name the bound field at all
			bodyMsg = vschema.NewMsg(p.in)
			if p.body != nil {
				bodyMsg = vschema.NewMsg(p.body[len(p.body)-1].Message())
			}
		} else {
			Qb, err := other(5)
			if err != nil {
				return nil, err
			}
			c.Compete["body"] = Qb
			full, err := onlyField(p.in, v.fds, Qb)
			if err != nil {
				return nil, err
			}
			bodyMsg = full
			if p.body != nil {
				val, _ := getPath(full.ProtoReflect(), p.body)
				bodyMsg = val.Message().Interface()
			}
		}
		if ex.siblings == 0 && ex.many == 0 && ex.keys == 0 {
			// bodies of varying sizes: a filler in some other string field
			prefix := p.bodyPrefix()
			fs := bodyMsg.ProtoReflect().Descriptor().Fields()
			for i := 0; i < fs.Len(); i++ {
				fd := fs.Get(i)
				if fd.Kind() == protoreflect.StringKind && !fd.IsList() && fd.ContainingOneof() == nil && !p.isPathVar(prefix+string(fd.Name())) {
					if n := []int{0, 20, 300, 6000, 70}[g.n%5]; n > 0 {
						bodyMsg.ProtoReflect().Set(fd, protoreflect.ValueOfString(strings.Repeat("f", n)))
					}
					break
				}
			}
		}
		enc := bodyEnc{ctype: "application/json", jsonFl: g.n % 4}
		switch strings.TrimSuffix(bv, "-unrelated") {
		case "protobuf":
			enc = bodyEnc{ctype: []string{"application/protobuf", "application/octet-stream"}[g.n%2]}
		case "json+gzip":
			enc.gzip = true
		}
		if q.Body, err = enc.encode(bodyMsg); err != nil {
			return nil, err
		}
		q.Header = enc.header()
		if jsonCharset {
			q.Header["Content-Type"] = []string{"application/json; charset=utf-8"}
			bv = "json-charset"
		}
	}
	g.n++
	if ex.oddText == "" && !ex.zeroTail && g.n%4 == 0 {
		q.Escape = escapeModes[(g.n/4)%len(escapeModes)]
	}
	c.Req = q
	c.Via = "query=" + qv + ",body=" + bv
	if q.Escape != "" {
		c.Via += ",escaped-path=" + q.Escape
	}
	if ex.siblings > 0 {
		c.Via += fmt.Sprintf(",siblings=%d-%s", len(extras), ex.sibPos)
	}
	if ex.many > 0 {
		c.Via += fmt.Sprintf(",list-elements=%d", ex.many)
	}
	if ex.keys > 0 {
		c.Via += fmt.Sprintf(",url-params=%d", ex.keys)
	}
	if ex.oddText != "" {
		c.Via += ",path-text=" + ex.oddText
	}
	if ex.zeroTail {
		c.Via += ",zero-segment-tail"
		c.Extra = "zero-segment-tail"
	}
	c.Class = p.rule.bodyShape() + ":" + c.Via
	return c, nil
}

const ruleC07 = "every rule of the C03 catalogue with at least one path variable (vf.Req, ComplexRequest and the real larking.testpb annotations incl. Files.UploadDownload; top-level, nested and doubly nested fields; typed, enum, oneof and well-known-type variables; body '*', body <field>, no body). For every variable and several captures: competing, different values for the same field through the query string (proto name, JSON name, the key twice, before / after another key) and / or the body (JSON, protobuf, gzip JSON; body '*' or a body field that contains the variable), all combinations. In addition, for every variable on a nested field: 1-3 query parameters on same-typed sibling sub-messages (vf.Req sub / osub, ComplexRequest nested / oneof_nested; the sibling's field of the same name first) before / after the competing key, x query x body competitors; and for every variable: a repeated query field of 10, 63, 64, 65, 200, 1000 elements next to the competitors. These requests are served 4 times each (query parameters are applied in map order). Oracle: the handler's value of the field equals the protojson value of the path capture, and - for the cases with non-competing parameters on rules without body '*' - the whole message equals the capture(s) plus every parameter the client sent; a request rejected with an error status is allowed. Streaming HTTP rules (HttpBody uploads on client-streaming and bidi methods incl. the real Files.LargeUploadDownload, server-streaming downloads) run the query matrix with every way the handler can obtain the first message (stream.Recv looping to EOF, larking.AsHTTPBodyReader; replies through stream.Send and larking.AsHTTPBodyWriter). The body competitor also comes as application/x-www-form-urlencoded (with / without charset), multipart/form-data, text/plain and application/json; charset=utf-8: whatever the tree accepts must not override the path, a refusal is no claim. Also 13, 14, 20 and 40 URL parameters on distinct keys (one naming the bound field), each request served 20 times. The catalogue includes constant variables ({f=lit}, {f=lit/lit}, typed {f=true}, {e=RED}, the real Messaging.Action {text=action}) and variables of every scalar kind and bytes (top-level and nested) on rules that map a body; bytes captures are spelled std / url-safe, padded / unpadded; bodies carry the competing value or do not name the field at all, with fillers of 0-6000 bytes. A quarter of the requests send the path in an over-escaped spelling (URL.RawPath set): the capture is the decoded path text. A fifth of the cases on dynamic unary rules go to a mux that proxies the services of TWO real loopback gRPC back-ends attached with RegisterConn, one healthy and one whose handlers answer Unavailable (503 answers are not judged; each such case is served 4 times). Variables bound to (fields under) members of a oneof get competitors naming SIBLING members in query and body. Templates ending in ** (bare or variable) after other variables are also requested with a zero-segment tail (with / without trailing slash): refused or bound as usual. Typed variables also capture odd texts (null, NULL, Null, nil, undefined, NaN, true, false, 0, -0, none, Infinity) next to query / body competitors: the route may be refused or the field holds a proto3-JSON reading of the text, never the competitor. Control frames (ping, unsolicited pong) are interleaved before the first and between data frames. WebSocket transport (real loopback listener through larking.NewServer): websocket-kind bindings on bidi methods (vf.Req top-level / nested / typed / bytes / multi-segment variables, body '*' and body field; the real testpb ChatRoom.Chat) with the competing value in the query string, in the first frame and / or in later frames (1-3 frames, each acknowledged by the handler): the first message the handler receives must carry the capture. WebSocket value classes: websocket-kind bindings whose variables cover every scalar kind (all integer widths and encodings, bool, enum, float, double, string, bytes; top-level, nested and doubly nested, oneof members, Int64Value and Duration; vf.Req and ComplexRequest; body '*', body field, no body); for every variable the capture and the competing values are drawn from the two value classes of the field - its ZERO value (0, false, first enum value by name and by number, empty string / bytes as competitors, 0s, wrapper of 0) and other values - as (zero capture, other competitor), (other capture, zero competitor, written explicitly in the query string and the JSON frame) and (other, other), x competitor in the query string / the first frame / both, x the rule's other variables capturing table values or their zero values too; finding keys carry capture=<class>,competitor=<class>:<kind group>. distinct = (rule, variable, query variant, body variant, sibling / list-size variant | websocket frame variant) of dispatched requests that kept the capture"

// RunC07 is the path-bound-fields-are-authoritative check.
func RunC07(r *mon.Run) {
	r.Rule = ruleC07
	r.Floor = 30
	r.Assume("the capture's typed value comes from protojson (textref); competing values are canonical texts of other values of the same field")
	g := &gen{r: r, rng: r.Rand("c07")}
	dyn, real := requestRules()
	real = append(real, pbRule("Files", "UploadDownload", "UploadFileRequest", "google.api.HttpBody", "POST", "/files/{filename}", "file"))
	// streaming HTTP rules: HttpBody uploads (the handler reads the first
	// message with stream.Recv or larking.AsHTTPBodyReader) and downloads
	// (stream.Send or larking.AsHTTPBodyWriter)
	large := pbRule("Files", "LargeUploadDownload", "UploadFileRequest", "google.api.HttpBody", "POST", "/files/large/{filename}", "file")
	large.Stream = "bidi"
	real = append(real, large)
	dyn = append(dyn,
		RuleSpec{ID: "vf:stream-upload-client", In: "vf.Upload", Out: "vf.Rsp", Verb: "POST", Tmpl: "/u1/{name}", Body: "file", Stream: "client"},
		RuleSpec{ID: "vf:stream-upload-typed", In: "vf.Upload", Out: "vf.Rsp", Verb: "PUT", Tmpl: "/u2/{name}/{n}", Body: "file", Stream: "client"},
		RuleSpec{ID: "vf:stream-upload-bidi", In: "vf.Upload", Out: "google.api.HttpBody", Verb: "POST", Tmpl: "/u3/{name=files/*}", Body: "file", Stream: "bidi"},
		RuleSpec{ID: "vf:stream-download", In: "vf.Req", Out: "google.api.HttpBody", Verb: "GET", Tmpl: "/d1/{a}/{sub.a}", Stream: "server"},
		RuleSpec{ID: "vf:stream-server-rsp", In: "vf.Req", Out: "vf.Rsp", Verb: "GET", Tmpl: "/d2/{n}/{sub.deep.s}", Stream: "server"},
	)
	envD, err := buildDynamic(dyn, "")
	if err != nil {
		r.Inconclusive("harness: " + err.Error())
		return
	}
	envR, err := buildTestpb("")
	if err != nil {
		r.Inconclusive("harness: " + err.Error())
		return
	}
	// the same rules on a mux with StatsOption + interceptors and on a mux
	// whose registry is a re-ordered second build of the descriptors
	envs := map[string]*env{"": envD}
	defer func() {
		for _, e := range envs {
			e.close()
		}
	}()
	for _, kind := range []string{muxWithOptions, muxSkew, muxProxied} {
		if envs[kind], err = buildDynamic(dyn, kind); err != nil {
			r.Inconclusive("harness: " + err.Error())
			return
		}
	}
	envRopt, err := buildTestpb(muxWithOptions)
	if err != nil {
		r.Inconclusive("harness: " + err.Error())
		return
	}
	nCase := 0
	nIdx := r.Pick(5, 60)
	for ri, rule := range append(append([]RuleSpec(nil), dyn...), real...) {
		p, err := newPlan(rule)
		if err != nil {
			r.Inconclusive("harness: " + err.Error())
			continue
		}
		e := envD
		if rule.Svc != "" {
			e = envR
		}
		do := func(c *Case, err error) {
			if err != nil {
				r.Count("generator_rejected_case", 1)
				r.Set("generator_reject_example", rule.ID+": "+err.Error())
				return
			}
			if c != nil {
				nCase++
				ee := e
				kinds := []string{"", "", muxWithOptions, muxSkew, muxProxied}
				if rule.Stream != "" {
					kinds = kinds[:4] // the upload helpers need the HTTP stream of a local handler
				}
				switch kind := kinds[nCase%len(kinds)]; {
				case rule.Svc != "" && kind != "":
					ee, c.Mux = envRopt, muxWithOptions
				case rule.Svc == "" && kind != "":
					ee, c.Mux = envs[kind], kind
				}
				if c.Mux == muxProxied && c.Repeat < 4 {
					c.Repeat = 4 // one of the two providers answers Unavailable
				}
				if c.Mux != "" {
					c.Via += ",mux=" + c.Mux
				}
				apply(r, c, execCase(ee, c))
			}
		}
		for vi, v := range p.vars {
			for k := 0; k < nIdx; k++ {
				idx := k * 5
				if k >= 3 {
					idx = g.rng.Intn(1000)
				}
				for _, qv := range c07QueryVariants {
					for _, bv := range c07BodyVariants {
						if qv == "none" && bv == "none" {
							continue
						}
						modes := []string{""}
						if ms, ok := c07StreamModes[rule.Stream]; ok {
							modes = ms
						}
						for _, mode := range modes {
							c, err := g.c07Case(p, v, idx, qv, bv, c07Extra{})
							if c != nil && mode != "" {
								c.Handler = mode
								c.Via += ",handler=" + mode
							}
							do(c, err)
						}
					}
				}
			}
			// parameters on same-typed sibling sub-messages around the
			// competitors (only variables on nested fields have siblings)
			if len(siblingLeaves(p, v)) > 0 {
				for _, qv := range []string{"none", "proto-name", "json-name"} {
					for _, bv := range []string{"none", "json", "protobuf"} {
						for n := 1; n <= 3; n++ {
							for _, pos := range []string{"before", "after"} {
								for k := 0; k < r.Pick(2, 12); k++ {
									do(g.c07Case(p, v, 3+7*k+n, qv, bv, c07Extra{siblings: n, sibPos: pos}))
								}
							}
						}
					}
				}
			}
			// the variable is (under) a oneof member: competitors for SIBLING members
			for si, sib := range oneofSiblings(p, v) {
				for _, qv := range []string{"none", "proto-name", "json-name"} {
					for _, bv := range []string{"none", "json", "protobuf"} {
						if qv == "none" && bv == "none" {
							continue
						}
						do(g.oneofCase(p, v, sib, 2+3*si, qv, bv))
					}
				}
			}
			// a trailing ** matched with zero segments (refused on a tree where **
			// needs a segment; if served, the captures must be bound as usual)
			if p.endsInStarStar() {
				for _, qv := range []string{"none", "proto-name", "json-name", "twice"} {
					for _, bv := range []string{"none", "json", "protobuf"} {
						if qv == "none" && bv == "none" {
							continue
						}
						for k := 0; k < 2; k++ {
							do(g.c07Case(p, v, 3+4*k, qv, bv, c07Extra{zeroTail: true}))
						}
					}
				}
			}
			// odd path texts for typed variables, with competitors
			for ti, t := range []string{"null", "NULL", "Null", "nil", "undefined", "NaN", "true", "false", "0", "-0", "none", "Infinity"} {
				for ci, comb := range [][2]string{{"proto-name", "none"}, {"none", "json"}, {"json-name", "protobuf"}} {
					if !r.Thorough() && (ti+ci+ri)%2 == 1 {
						continue
					}
					do(g.c07Case(p, v, 4+ti, comb[0], comb[1], c07Extra{oddText: t}))
				}
			}
			// 13..40 URL parameters on (mostly) distinct keys, one of them
			// naming the bound field; served 20 times each
			if vi == 0 || r.Thorough() {
				for ki, n := range []int{13, 14, 20, 40} {
					for ci, comb := range [][2]string{{"proto-name", "none"}, {"json-name", "json"}, {"proto-name", "protobuf-unrelated"}} {
						if !r.Thorough() && (ki+ci+ri)%2 == 1 {
							continue
						}
						do(g.c07Case(p, v, 5+ki+ci, comb[0], comb[1], c07Extra{keys: n, sibPos: []string{"before", "after"}[(ki+ci)%2]}))
					}
				}
			}
			// many URL parameters next to the competitors
			for si, n := range []int{10, 63, 64, 65, 200, 1000} {
				if n == 1000 && !r.Thorough() && (ri+vi)%4 != 0 {
					continue
				}
				for ci, comb := range [][2]string{{"proto-name", "none"}, {"none", "json"}, {"proto-name", "protobuf"}, {"none", "none"}} {
					pos := []string{"before", "after"}[(si+ci)%2]
					do(g.c07Case(p, v, 11+si, comb[0], comb[1], c07Extra{many: n, sibPos: pos}))
				}
			}
		}
	}
	// the same precedence over the WebSocket transport
	runWS(r, g)
	// ... with captures and competitors of both value classes (zero value /
	// other values) for every scalar kind
	runWSKinds(r, g)
	// overlapping requests for the same binding
	runConcC07(r, g)
}

// bytesTextVariant re-spells the canonical base64 text of a bytes capture:
// unpadded, url-safe alphabet, url-safe unpadded (all accepted by proto3
// JSON). ok is false for other kinds or when the variant is not path-safe.
func bytesTextVariant(md protoreflect.MessageDescriptor, v pathVar, canonical string, idx int) (string, bool) {
	fd := v.fds[len(v.fds)-1]
	if fd.Kind() != protoreflect.BytesKind || fd.IsList() || !isSingleStar(v.pat) {
		return "", false
	}
	t := canonical
	switch idx % 4 {
	case 0:
		return "", false
	case 1:
		t = strings.TrimRight(t, "=")
	case 2:
		t = strings.NewReplacer("+", "-", "/", "_").Replace(t)
	case 3:
		t = strings.TrimRight(strings.NewReplacer("+", "-", "/", "_").Replace(t), "=")
	}
	if t == canonical || !pathSafe(t) {
		return "", false
	}
	a, e1 := onlyField(md, v.fds, t)
	b, e2 := onlyField(md, v.fds, canonical)
	if e1 != nil || e2 != nil || !proto.Equal(a, b) {
		return "", false
	}
	return t, true
}

// ------------------------------------------------------------ WebSocket

// wsRules are websocket-kind bindings (bidi methods) with path variables and
// a body mapping, plus the real larking.testpb ChatRoom.Chat annotation.
func wsRules() (dynamic []RuleSpec, real []RuleSpec) {
	ws := func(id, tmpl, body string) RuleSpec {
		return RuleSpec{ID: id, In: "vf.Req", Out: "vf.Rsp", Verb: "WEBSOCKET", Tmpl: tmpl, Body: body}
	}
	dynamic = []RuleSpec{
		ws("ws:var-top+body-star", "/w1/{a}", "*"),
		ws("ws:var-nested+body-sub", "/w2/{sub.a}", "sub"),
		ws("ws:var-typed-deep+body-star", "/w3/{n}/{sub.deep.s}", "*"),
		ws("ws:var-bytes-enum+body-star", "/w4/{y}/{e}", "*"),
		ws("ws:var-multiseg+body-star", "/w5/{b=rooms/*}", "*"),
	}
	real = []RuleSpec{{ID: "testpb:Chat:WEBSOCKET /v1/{name=rooms/*}", Svc: "larking.testpb.ChatRoom", Method: "Chat",
		In: "larking.testpb.ChatMessage", Out: "larking.testpb.ChatMessage", Verb: "WEBSOCKET", Tmpl: "/v1/{name=rooms/*}", Body: "*"}}
	return
}

const wsTimeout = 10 * time.Second

// markers in Case.Frames for control frames
const (
	wsPing = "\x00control:ping"
	wsPong = "\x00control:pong"
)

// execC07WS runs one precedence case over a real WebSocket connection: the
// first message the handler receives must carry the path capture, whatever
// the query string and the frames (first or later) say.
func execC07WS(e *env, c *Case) (o outcome) {
	md := vschema.Msg(c.Rule.In)
	fds := textref.Resolve(md, strings.Split(c.Field, "."))
	if fds == nil {
		o.inconcl = "bad case: field " + c.Field
		return
	}
	exp, err := onlyField(md, fds, c.Text)
	if err != nil {
		o.inconcl = "bad case: reference rejects the capture: " + err.Error()
		return
	}
	srv, err := e.server()
	if err != nil {
		o.inconcl = "harness: cannot start listener: " + err.Error()
		return
	}
	e.rec.take()
	ctx, cancel := context.WithTimeout(context.Background(), wsTimeout)
	defer cancel()
	u := "ws://" + srv.Addr + c.Req.Path
	if c.Req.RawQuery != "" {
		u += "?" + c.Req.RawQuery
	}
	conn, err := wire.WSDial(ctx, u, nil)
	if err != nil {
		// the upgrade was refused: a rejected conflicting request is allowed
		o.count("c07_ws_upgrade_refused_(allowed)")
		return
	}
	defer conn.Close()
	conn.SetDeadline(time.Now().Add(wsTimeout))
	delivered := 0
	for _, f := range c.Frames {
		// control frames: a ping (the server answers with a pong, which the
		// next read skips) or an unsolicited pong
		if f == wsPing || f == wsPong {
			fr := ws.NewPingFrame([]byte("vf"))
			if f == wsPong {
				fr = ws.NewPongFrame([]byte("vf"))
			}
			if err := ws.WriteFrame(conn, ws.MaskFrameInPlace(fr)); err != nil {
				break
			}
			continue
		}
		if err := wsutil.WriteClientText(conn, []byte(f)); err != nil {
			break
		}
		// the handler acknowledges every message: wait for it
		if _, err := wsutil.ReadServerText(conn); err != nil {
			break
		}
		delivered++
	}
	if len(c.Frames) == 0 {
		// no body is mapped: the handler's only message is built from the URL
		// and acknowledged without any frame from the client
		wsutil.ReadServerText(conn) //nolint:errcheck
	}
	ws.WriteFrame(conn, ws.MaskFrameInPlace(ws.NewCloseFrame(ws.NewCloseFrameBody(ws.StatusNormalClosure, "")))) //nolint:errcheck
	calls := e.rec.take()
	if strings.Contains(srv.ErrLog(), "panic serving") {
		o.count("c07_panics_left_to_C09")
		return
	}
	if len(calls) == 0 {
		o.count("c07_ws_first_frame_rejected_(allowed)")
		return
	}
	if o.evals = len(c.Frames) - 1; o.evals < 0 {
		o.evals = 0
	}
	ctl := ""
	for i, f := range c.Frames {
		if f == wsPing || f == wsPong {
			ctl = ":control-frame-before-first-message"
			if i > 0 {
				ctl = ""
			}
			break
		}
	}
	got := project(calls[0].msg, fds)
	if !proto.Equal(got, exp) {
		by := "other:" + kindClass(fds[len(fds)-1])
		if proto.Equal(got, project(vschema.NewMsg(md), fds)) {
			by = "none(capture-lost)"
		}
		for _, ch := range []string{"query", "body"} {
			if t, ok := c.Compete[ch]; ok {
				if m, err := onlyField(md, fds, t); err == nil && proto.Equal(got, m) {
					by = ch
					break
				}
			}
		}
		cls := ""
		if strings.HasPrefix(c.Extra, "capture=") {
			// value-class dimension: capture=<zero-value|nonzero>,competitor=<...>:<kind group>
			cls = ":" + c.Extra
		}
		o.add("c07:path-bound-overridden:by="+by+":websocket"+ctl+cls, fmt.Sprintf("websocket rule %s body=%q: ws %s?%s, frames %q (competing %s): path-bound field %s (%s) was captured as %q but the first message the handler received has %s (whole message: %s)",
			c.Rule.Tmpl, c.Rule.Body, c.Req.Path, c.Req.RawQuery, c.Frames, c.Via, c.Field, kindClass(fds[len(fds)-1]), c.Text, jsonOf(got), jsonOf(calls[0].msg)))
		return
	}
	o.distinct = "c07|ws|" + c.Rule.ID + "|" + c.Field + "|" + c.Via
	o.count("c07_ws_first_message_kept_capture")
	if strings.HasPrefix(c.Extra, "capture=") {
		if strings.HasPrefix(c.Extra, "capture=zero-value") {
			o.count("c07_ws_zero_value_capture_kept")
		}
		if strings.HasPrefix(c.Extra, "capture=negative-zero") {
			o.count("c07_ws_negative_zero_capture_kept")
		}
		if strings.Contains(c.Extra, "competitor=zero-value") {
			o.count("c07_ws_zero_value_competitor_ignored")
		}
		for _, ch := range []string{"query", "body"} {
			if _, ok := c.Compete[ch]; ok {
				o.count("c07_ws_value_class_competitor_in_" + ch)
			}
		}
		o.count("c07_ws_value_class_kind:" + kindClass(fds[len(fds)-1]))
	}
	if delivered > 1 {
		o.count("c07_ws_later_frames_delivered")
	}
	return
}

// wsCase builds one WebSocket case: qv as in c07Case; first / later say
// whether the first frame and a later frame name the bound field.
func (g *gen) wsCase(p *plan, v pathVar, idx int, qv string, first, later bool, nFrames int) (*Case, error) {
	base := vschema.NewMsg(p.in)
	texts, err := p.fit(g.rng, base, idx)
	if err != nil {
		return nil, err
	}
	P := texts[v.field]
	if alt, ok := bytesTextVariant(p.in, v, P, idx); ok {
		P, texts[v.field] = alt, alt
	}
	other := func(k int) (string, error) {
		for tries := 0; tries < 50; tries++ {
			t, err := p.pathTextFor(g.rng, starVar(v), idx+7+k+tries)
			if err != nil {
				return "", err
			}
			if !canonicalFor(v.fds, t) {
				continue
			}
			a, e1 := onlyField(p.in, v.fds, t)
			b, e2 := onlyField(p.in, v.fds, P)
			if e1 == nil && e2 == nil && !proto.Equal(a, b) {
				return t, nil
			}
		}
		return "", fmt.Errorf("no competing value for %s", v.field)
	}
	inBody := p.rule.Body == "*" || (p.body != nil && strings.HasPrefix(v.field, p.bodyPath()+"."))
	if (first || later) && !inBody {
		return nil, nil
	}
	c := &Case{Prop: "C07", Kind: "c07-ws", Rule: p.rule, Field: v.field, Text: P, Compete: map[string]string{}}
	c.Req = reqSpec{Verb: "GET", Path: p.instantiate(texts)}
	if qv != "none" {
		Q, err := other(0)
		if err != nil {
			return nil, err
		}
		key := keyOf(v.fds, qv == "json-name")
		if qv == "json-name" && key == keyOf(v.fds, false) {
			return nil, nil
		}
		c.Compete["query"] = Q
		c.Req.RawQuery = encodeQuery([]kv{{key, Q}})
	}
	frame := func(names bool, k int) (string, error) {
		var bodyMsg proto.Message = vschema.NewMsg(p.in)
		if names {
			Qb, err := other(5)
			if err != nil {
				return "", err
			}
			if k == 0 {
				c.Compete["body"] = Qb
			}
			if bodyMsg, err = onlyField(p.in, v.fds, Qb); err != nil {
				return "", err
			}
		}
		if p.body != nil {
			if val, ok := getPath(bodyMsg.ProtoReflect(), p.body); ok {
				bodyMsg = val.Message().Interface()
			} else {
				bodyMsg = vschema.NewMsg(p.body[len(p.body)-1].Message())
			}
		}
		b, err := protojson.MarshalOptions{UseProtoNames: (g.n+k)%2 == 0}.Marshal(bodyMsg)
		return string(b), err
	}
	for k := 0; k < nFrames; k++ {
		f, err := frame((k == 0 && first) || (k > 0 && later), k)
		if err != nil {
			return nil, err
		}
		c.Frames = append(c.Frames, f)
	}
	g.n++
	c.Via = fmt.Sprintf("websocket,query=%s,first-frame-names-field=%v,later-frame-names-field=%v,frames=%d", qv, first, later, nFrames)
	c.Class = p.rule.bodyShape() + ":" + c.Via
	return c, nil
}

// runWS runs the precedence matrix over the WebSocket transport.
func runWS(r *mon.Run, g *gen) {
	dyn, real := wsRules()
	envD, err := buildDynamic(dyn, "")
	if err != nil {
		r.Inconclusive("harness: websocket rules: " + err.Error())
		return
	}
	defer envD.close()
	envR, err := buildTestpb("")
	if err != nil {
		r.Inconclusive("harness: " + err.Error())
		return
	}
	defer envR.close()
	for _, rule := range append(append([]RuleSpec(nil), dyn...), real...) {
		p, err := newPlan(rule)
		if err != nil {
			r.Inconclusive("harness: " + err.Error())
			continue
		}
		e := envD
		if rule.Svc != "" {
			e = envR
		}
		for _, v := range p.vars {
			for k := 0; k < r.Pick(2, 12); k++ {
				for _, qv := range []string{"none", "proto-name", "json-name"} {
					for _, fl := range [][2]bool{{false, false}, {true, false}, {false, true}, {true, true}} {
						nFrames := 1 + (k+len(qv))%3
						if fl[1] && nFrames < 2 {
							nFrames = 2
						}
						if qv == "none" && !fl[0] && !fl[1] {
							continue
						}
						c, err := g.wsCase(p, v, 2+5*k, qv, fl[0], fl[1], nFrames)
						if err != nil {
							r.Count("generator_rejected_case", 1)
							r.Set("generator_reject_example", rule.ID+": "+err.Error())
							continue
						}
						if c != nil {
							apply(r, c, execCase(e, c))
							// the same conversation with control frames interleaved
							for ci, ctl := range [][2]string{{wsPing, "ping-first"}, {wsPong, "pong-first"}, {wsPing, "ping-between"}, {wsPong, "pong-between"}} {
								if (k+ci)%2 == 1 && !r.Thorough() {
									continue
								}
								c2 := *c
								pos := 0
								if strings.HasSuffix(ctl[1], "between") {
									if len(c.Frames) < 2 {
										continue
									}
									pos = 1
								}
								c2.Frames = append(append(append([]string(nil), c.Frames[:pos]...), ctl[0]), c.Frames[pos:]...)
								c2.Via += ",control=" + ctl[1]
								apply(r, &c2, execCase(e, &c2))
							}
						}
					}
				}
			}
		}
	}
}
