package transcode

import (
	"fmt"
	"strings"

	"google.golang.org/protobuf/proto"
	"google.golang.org/protobuf/reflect/protoreflect"

	"verif/internal/mon"
	"verif/internal/textref"
	"verif/internal/vschema"
)

// project returns a message holding only the field reached by fds, with the
// value it has in src (intermediate messages are always created, as the
// reference does).
func project(src proto.Message, fds []protoreflect.FieldDescriptor) proto.Message {
	out := src.ProtoReflect().New()
	cur, s := out, src.ProtoReflect()
	ok := true
	for i, fd := range fds {
		if i == len(fds)-1 {
			if ok && s.Has(fd) {
				if fd.Message() != nil {
					cur.Set(fd, protoreflect.ValueOfMessage(cloneMsg(s.Get(fd).Message().Interface()).ProtoReflect()))
				} else {
					cur.Set(fd, s.Get(fd))
				}
			}
			break
		}
		cur = cur.Mutable(fd).Message()
		if ok && s.Has(fd) {
			s = s.Get(fd).Message()
		} else {
			ok = false
		}
	}
	return out.Interface()
}

func onlyField(md protoreflect.MessageDescriptor, fds []protoreflect.FieldDescriptor, text string) (proto.Message, error) {
	m := vschema.NewMsg(md)
	if err := textref.Apply(m.ProtoReflect(), fds, text); err != nil {
		return nil, err
	}
	return m, nil
}

// execC07: the handler's value of the path-bound field must be the capture.
func execC07(e *env, c *Case) (o outcome) {
	md := vschema.Msg(c.Rule.In)
	fds := textref.Resolve(md, strings.Split(c.Field, "."))
	if fds == nil {
		o.inconcl = "bad case: field " + c.Field
		return
	}
	exp, err := onlyField(md, fds, c.Text)
	if err != nil {
		o.inconcl = "bad case: reference rejects the capture: " + err.Error()
		return
	}
	resp, calls := serve(e, c.Req)
	if resp.Wedged {
		o.inconcl = "request did not return within the watchdog"
		return
	}
	if resp.Panic != nil {
		o.count("c07_panics_left_to_C09")
		o.count("left_to_C09:" + resp.Panic.Key())
		return
	}
	if len(calls) == 0 {
		if resp.Code >= 400 {
			o.count("c07_conflicting_request_rejected_(allowed)")
		} else {
			o.add("c07:no-handler-no-error:"+c.Class, fmt.Sprintf("%s %s?%s answered %d without reaching the handler", c.Req.Verb, c.Req.Path, c.Req.RawQuery, resp.Code))
		}
		return
	}
	got := project(calls[0].msg, fds)
	if proto.Equal(got, exp) {
		o.distinct = "c07|" + c.Rule.ID + "|" + c.Field + "|" + c.Via
		return
	}
	by := "other"
	for _, ch := range []string{"query", "query2", "body"} {
		t, ok := c.Compete[ch]
		if !ok {
			continue
		}
		if m, err := onlyField(md, fds, t); err == nil && proto.Equal(got, m) {
			by = strings.TrimSuffix(ch, "2")
			break
		}
	}
	o.add("c07:path-bound-overridden:by="+by, fmt.Sprintf("rule %s %s body=%q: %s %s?%s (competing %s): path-bound field %s was captured as %q but the handler received %s",
		c.Rule.Verb, c.Rule.Tmpl, c.Rule.Body, c.Req.Verb, c.Req.Path, c.Req.RawQuery, c.Via, c.Field, c.Text, jsonOf(got)))
	return
}

var (
	c07QueryVariants = []string{"none", "proto-name", "json-name", "twice", "before-other", "after-other"}
	c07BodyVariants  = []string{"none", "json", "protobuf", "json+gzip"}
)

// benignField finds a string field that is neither path-bound nor part of the
// body, to surround the competing query key with.
func benignField(p *plan) (leaf, bool) {
	for _, lf := range urlLeaves(p.in, 1) {
		fd := lf.fd()
		if fd.Kind() != protoreflect.StringKind || fd.IsList() || fd.Message() != nil {
			continue
		}
		if p.isPathVar(lf.path()) || sameOneofAsVar(p, lf) || fd.ContainingOneof() != nil {
			continue
		}
		if ch := channelOf(p, lf.path(), bodyEnc{}); ch != "query" {
			continue
		}
		clash := false
		for _, v := range p.vars {
			if strings.HasPrefix(v.field, lf.path()+".") {
				clash = true
			}
		}
		if !clash {
			return lf, true
		}
	}
	return leaf{}, false
}

func keyOf(fds []protoreflect.FieldDescriptor, json bool) string {
	parts := make([]string, len(fds))
	for i, fd := range fds {
		if json {
			parts[i] = fd.JSONName()
		} else {
			parts[i] = string(fd.Name())
		}
	}
	return strings.Join(parts, ".")
}

func (g *gen) c07Case(p *plan, v pathVar, idx int, qv, bv string) (*Case, error) {
	base := vschema.NewMsg(p.in)
	texts, err := p.fit(g.rng, base, idx)
	if err != nil {
		return nil, err
	}
	P := texts[v.field]
	// competing texts: other canonical values of the same field
	other := func(k int) (string, error) {
		for tries := 0; tries < 50; tries++ {
			t, err := p.pathTextFor(g.rng, v, idx+7+k+tries)
			if err != nil {
				return "", err
			}
			if !canonicalFor(v.fds, t) {
				continue
			}
			a, e1 := onlyField(p.in, v.fds, t)
			b, e2 := onlyField(p.in, v.fds, P)
			if e1 == nil && e2 == nil && !proto.Equal(a, b) {
				return t, nil
			}
		}
		return "", fmt.Errorf("no competing value for %s", v.field)
	}
	c := &Case{Prop: "C07", Kind: "c07", Rule: p.rule, Field: v.field, Text: P, Compete: map[string]string{}}
	q := reqSpec{Verb: reqVerb(p.rule), Path: p.instantiate(texts)}
	var query []kv
	if qv != "none" {
		Q, err := other(0)
		if err != nil {
			return nil, err
		}
		c.Compete["query"] = Q
		key := keyOf(v.fds, qv == "json-name")
		if qv == "json-name" && key == keyOf(v.fds, false) {
			return nil, nil // no distinct JSON spelling
		}
		if qv != "proto-name" && qv != "json-name" && g.n%2 == 0 {
			key = keyOf(v.fds, true)
		}
		switch qv {
		case "proto-name", "json-name":
			query = []kv{{key, Q}}
		case "twice":
			Q2, err := other(3)
			if err != nil {
				return nil, err
			}
			c.Compete["query2"] = Q2
			query = []kv{{key, Q}, {key, Q2}}
		case "before-other", "after-other":
			lf, ok := benignField(p)
			if !ok {
				return nil, nil
			}
			o := kv{keyOf(lf.fds, false), "zz"}
			if qv == "before-other" {
				query = []kv{{key, Q}, o}
			} else {
				query = []kv{o, {key, Q}}
			}
		}
	}
	q.RawQuery = encodeQuery(query)
	if bv != "none" {
		inBody := p.rule.Body == "*" || (p.body != nil && strings.HasPrefix(v.field, p.bodyPath()+"."))
		if !inBody {
			return nil, nil
		}
		Qb, err := other(5)
		if err != nil {
			return nil, err
		}
		c.Compete["body"] = Qb
		full, err := onlyField(p.in, v.fds, Qb)
		if err != nil {
			return nil, err
		}
		bodyMsg := full
		if p.body != nil {
			val, _ := getPath(full.ProtoReflect(), p.body)
			bodyMsg = val.Message().Interface()
		}
		enc := bodyEnc{ctype: "application/json", jsonFl: g.n % 4}
		switch bv {
		case "protobuf":
			enc = bodyEnc{ctype: []string{"application/protobuf", "application/octet-stream"}[g.n%2]}
		case "json+gzip":
			enc.gzip = true
		}
		if q.Body, err = enc.encode(bodyMsg); err != nil {
			return nil, err
		}
		q.Header = enc.header()
	}
	g.n++
	c.Req = q
	c.Via = "query=" + qv + ",body=" + bv
	c.Class = p.rule.bodyShape() + ":" + c.Via
	return c, nil
}

const ruleC07 = "every rule of the C03 catalogue with at least one path variable (vf.Req, ComplexRequest and the real larking.testpb annotations incl. Files.UploadDownload; top-level, nested and doubly nested fields; typed, enum, oneof and well-known-type variables; body '*', body <field>, no body). For every variable and several captures: competing, different values for the same field through the query string (proto name, JSON name, the key twice, before / after another key) and / or the body (JSON, protobuf, gzip JSON; body '*' or a body field that contains the variable), all combinations. Oracle: the handler's value of the field equals the protojson value of the path capture; a request rejected with an error status is allowed. distinct = (rule, variable, query variant, body variant) of dispatched requests that kept the capture"

// RunC07 is the path-bound-fields-are-authoritative check.
func RunC07(r *mon.Run) {
	r.Rule = ruleC07
	r.Floor = 30
	r.Assume("the capture's typed value comes from protojson (textref); competing values are canonical texts of other values of the same field")
	g := &gen{r: r, rng: r.Rand("c07")}
	dyn, real := requestRules()
	real = append(real, pbRule("Files", "UploadDownload", "UploadFileRequest", "google.api.HttpBody", "POST", "/files/{filename}", "file"))
	envD, err := buildDynamic(dyn)
	if err != nil {
		r.Inconclusive("harness: " + err.Error())
		return
	}
	envR, err := buildTestpb()
	if err != nil {
		r.Inconclusive("harness: " + err.Error())
		return
	}
	nIdx := r.Pick(5, 60)
	for _, rule := range append(append([]RuleSpec(nil), dyn...), real...) {
		p, err := newPlan(rule)
		if err != nil {
			r.Inconclusive("harness: " + err.Error())
			continue
		}
		e := envD
		if rule.Svc != "" {
			e = envR
		}
		for _, v := range p.vars {
			for k := 0; k < nIdx; k++ {
				idx := k * 5
				if k >= 3 {
					idx = g.rng.Intn(1000)
				}
				for _, qv := range c07QueryVariants {
					for _, bv := range c07BodyVariants {
						if qv == "none" && bv == "none" {
							continue
						}
						c, err := g.c07Case(p, v, idx, qv, bv)
						if err != nil {
							r.Count("generator_rejected_case", 1)
							r.Set("generator_reject_example", rule.ID+": "+err.Error())
							continue
						}
						if c == nil {
							continue
						}
						apply(r, c, execCase(e, c))
					}
				}
			}
		}
	}
}
