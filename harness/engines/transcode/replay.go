package transcode

import (
	"encoding/json"

	"verif/internal/mon"
)

// Replay re-executes a stored case of C03, C04 or C07 against the current
// tree: the rule (or the real larking.testpb service it belongs to) is
// registered on a fresh mux, the stored request is served and the same oracle
// is applied to the stored expectation.
func Replay(r *mon.Run, raw json.RawMessage) {
	var c Case
	if err := json.Unmarshal(raw, &c); err != nil || c.Kind == "" {
		r.Inconclusive("bad replay case")
		return
	}
	var e *env
	var err error
	// state shared between muxes only shows with other muxes in the process:
	// build option muxes before and after the one under test
	dummy := []RuleSpec{{ID: "dummy", In: "vf.Req", Out: "vf.Rsp", Verb: "GET", Tmpl: "/dummy/{a}"}}
	buildDynamic(dummy, muxReplaced) //nolint:errcheck
	buildNeighbourPopulation()
	if c.Kind == "c04-seq" {
		e, err = buildDynamic(c.Rules, c.Mux)
	} else {
		e, err = envFor(c.Rule, c.Mux)
	}
	if err != nil {
		r.Inconclusive("rule not registrable on this tree: " + err.Error())
		return
	}
	defer e.close()
	buildDynamic(dummy, muxCustom) //nolint:errcheck
	buildNeighbourPopulation()
	r.Distinct("replay-a")
	r.Distinct("replay-b")
	apply(r, &c, execCase(e, &c))
}
