package transcode

import (
	"encoding/json"
	"fmt"
	"math"
	"math/rand"
	"strings"
	"unicode/utf8"

	"google.golang.org/protobuf/encoding/protojson"
	"google.golang.org/protobuf/proto"
	"google.golang.org/protobuf/reflect/protoreflect"

	"verif/internal/mon"
	"verif/internal/textref"
	"verif/internal/tmplref"
	"verif/internal/vschema"
	"verif/internal/wire"
)

// Case is one fully materialised, replayable execution of any of the three
// properties.
type Case struct {
	Prop  string   `json:"prop"`
	Kind  string   `json:"kind"`  // c03-pos | c03-neg | c07 | c04
	Class string   `json:"class"` // structural class of the case (finding keys, distinct keys)
	Rule  RuleSpec `json:"rule"`
	// Mux: "" = default mux options, "custom-codecs" = two extra media types
	// registered with larking.CodecOption.
	Mux string `json:"mux,omitempty"`
	// Handler (c04): what the handler does with response metadata before it
	// returns (grpc.SetHeader / SendHeader / SetTrailer).
	Handler string  `json:"handler,omitempty"`
	Req     reqSpec `json:"req"`
	// Msg: wire bytes (type Rule.In) of the message the handler must receive
	// (c03-pos), of the base message holding the other path values (c03-neg).
	Msg     []byte `json:"msg,omitempty"`
	MsgJSON string `json:"msg_json,omitempty"`
	// Field / Text / Via: the field under test (dotted proto names), the URL
	// text under test (c03-neg) or the path capture (c07), and the channel(s).
	Field string `json:"field,omitempty"`
	Text  string `json:"text,omitempty"`
	Via   string `json:"via,omitempty"`
	// Compete (c07): the competing texts per channel (query, query2, body).
	Compete map[string]string `json:"compete,omitempty"`
	// c07: Whole = the handler's whole message must equal Msg (the capture
	// plus every non-competing parameter); Repeat = serve the request this
	// many times (query parameters are applied in map order); Extra = class
	// of the non-competing parameters.
	// c07-ws: the JSON text frames sent over the WebSocket connection.
	Frames []string `json:"frames,omitempty"`
	Whole  bool     `json:"whole,omitempty"`
	// OddText (c07): Text is an odd capture of a typed variable; one-sided oracle.
	OddText bool   `json:"odd_text,omitempty"`
	Repeat  int    `json:"repeat,omitempty"`
	Extra   string `json:"extra,omitempty"`
	// Reply: wire bytes (type Rule.Out) of the handler's reply (c04).
	Reply     []byte `json:"reply,omitempty"`
	ReplyJSON string `json:"reply_json,omitempty"`
	Note      string `json:"note,omitempty"`
	// c04-seq: a stateful sequence on one mux (rules, handler-owned asset
	// buffers, steps).
	Rules  []RuleSpec `json:"rules,omitempty"`
	Assets [][]byte   `json:"assets,omitempty"`
	Steps  []seqStep  `json:"steps,omitempty"`
}

type viol struct{ key, what string }

// outcome of one execution, shared by run and replay.
type outcome struct {
	viols    []viol
	distinct string   // non-empty: a non-trivial observation under this shape key
	more     []string // further shape keys observed by a multi-step case
	evals    int      // executions beyond the first (multi-step cases)
	counts   []string
	inconcl  string
}

func (o *outcome) add(key, what string) { o.viols = append(o.viols, viol{key, what}) }
func (o *outcome) count(name string)    { o.counts = append(o.counts, name) }

func jsonOf(m proto.Message) string {
	b, err := protojson.Marshal(m)
	if err != nil {
		return "marshal error: " + err.Error()
	}
	s := string(b)
	if len(s) > 600 {
		s = s[:600] + "..."
	}
	return s
}

func decodeMsg(full string, b []byte) (proto.Message, error) {
	deepTypes()
	m := vschema.NewMsg(vschema.Msg(full))
	if err := proto.Unmarshal(b, m); err != nil {
		return nil, err
	}
	return m, nil
}

// diffFields names the top-level fields in which two messages differ.
func diffFields(a, b proto.Message) string {
	ra, rb := a.ProtoReflect(), b.ProtoReflect()
	if ra.Descriptor().FullName() != rb.Descriptor().FullName() {
		return fmt.Sprintf("want a %s %s, got a %s %s (another method's handler was reached)", ra.Descriptor().FullName(), jsonOf(a), rb.Descriptor().FullName(), jsonOf(b))
	}
	var out []string
	fs := ra.Descriptor().Fields()
	for i := 0; i < fs.Len(); i++ {
		fd := fs.Get(i)
		ta, tb := ra.New(), rb.New()
		if ra.Has(fd) {
			ta.Set(fd, ra.Get(fd))
		}
		if rb.Has(fd) {
			tb.Set(fd, rb.Get(fd))
		}
		if !proto.Equal(ta.Interface(), tb.Interface()) {
			out = append(out, fmt.Sprintf("%s: want %s got %s", fd.Name(), jsonOf(ta.Interface()), jsonOf(tb.Interface())))
		}
	}
	s := strings.Join(out, "; ")
	if len(s) > 700 {
		s = s[:700] + "..."
	}
	return s
}

func serve(e *env, q reqSpec) (*wire.Resp, []call) {
	e.rec.take()
	resp := wire.Serve(e.mux, q.build())
	return resp, e.rec.take()
}

func bodySnippet(b []byte) string {
	if len(b) > 200 {
		b = b[:200]
	}
	return string(b)
}

// posOnce serves the request once; kind is "" when the handler received
// exactly M.
func posOnce(e *env, c *Case, M proto.Message, q reqSpec) (kind, what, inconcl string, resp *wire.Resp) {
	resp, calls := serve(e, q)
	if resp.Wedged {
		return "", "", "request did not return within the watchdog", resp
	}
	via := ""
	if q.Transport != "" {
		via = " [body delivered as " + q.Transport + "]"
	}
	if resp.Panic != nil {
		return resp.Panic.Key(), fmt.Sprintf("%s %s?%s%s panicked: %s", q.Verb, q.Path, q.RawQuery, via, resp.Panic.Value), "", resp
	}
	switch {
	case len(calls) == 0:
		return "c03:rejected-valid", fmt.Sprintf("rule %s %s body=%q: %s %s?%s%s answered %d (%s) instead of delivering %s",
			c.Rule.Verb, c.Rule.Tmpl, c.Rule.Body, q.Verb, q.Path, q.RawQuery, via, resp.Code, bodySnippet(resp.Body), jsonOf(M)), "", resp
	case len(calls) > 1:
		return "c03:handler-invoked-twice", fmt.Sprintf("%d handler invocations", len(calls)), "", resp
	case !proto.Equal(calls[0].msg, M):
		return "c03:wrong-value", fmt.Sprintf("rule %s %s body=%q: %s %s?%s%s delivered a different message: %s",
			c.Rule.Verb, c.Rule.Tmpl, c.Rule.Body, q.Verb, q.Path, q.RawQuery, via, diffFields(M, calls[0].msg)), "", resp
	}
	return "", "", "", resp
}

// execPos: the handler must receive exactly Msg. A failure of a request with
// a non-default delivery feature is retried the plain way: if that works the
// finding is keyed by the delivery feature instead of the field class.
func execPos(e *env, c *Case) (o outcome) {
	M, err := decodeMsg(c.Rule.In, c.Msg)
	if err != nil {
		o.inconcl = "bad case: " + err.Error()
		return
	}
	kind, what, inconcl, resp := posOnce(e, c, M, c.Req)
	if inconcl != "" {
		o.inconcl = inconcl
		return
	}
	if kind != "" {
		if c.Req.Transport != "" || c.Req.Escape != "" {
			if k2, _, _, _ := posOnce(e, c, M, c.Req.defaultTransport()); k2 == "" {
				if c.Req.Transport == "" {
					if strings.HasPrefix(kind, "panic@") {
						o.add(kind, what)
					} else {
						o.add(kind+":over-escaped-path:"+c.Req.Escape, what+" [path sent as "+escapedTarget(c.Req.Path, c.Req.Escape)+"] - the same request with the path in its default spelling is delivered correctly")
					}
					return
				}
				ct := "absent"
				if v := c.Req.Header["Content-Type"]; len(v) > 0 {
					ct = v[0]
				}
				if strings.HasPrefix(kind, "panic@") {
					o.add(kind, what)
				} else {
					o.add(kind+":transport:"+c.Req.Transport, what+" (Content-Type "+ct+") - the same request with Content-Length, one read and a single gzip member is delivered correctly")
				}
				return
			}
		}
		switch {
		case strings.HasPrefix(kind, "panic@"):
			o.add(kind, what)
		case hasDotSegment(c.Req.Path):
			// input class of the path, whatever field the case was built for
			o.add(kind+":path-capture-with-dot-segment", what)
		default:
			o.add(kind+":"+c.Class, what)
		}
		return
	}
	o.distinct = "pos|" + c.Rule.ID + "|" + c.Class
	ch, _, _ := strings.Cut(c.Class, ":")
	if ch == "multi" {
		ch = c.Class
	}
	o.count("delivered_equal_via_" + ch)
	if c.Req.Transport != "" {
		o.more = append(o.more, "pos-transport|"+c.Rule.bodyShape()+"|"+ch+"|"+c.Req.Transport)
		o.count("delivered_equal_body_as_" + c.Req.Transport)
	}
	if c.Mux != "" {
		o.count("delivered_equal_on_mux_" + c.Mux)
	}
	if resp.Code != 200 {
		o.count("delivered_but_status_not_200")
	}
	return
}

// hasDotSegment: some segment of the path consists of dots only.
func hasDotSegment(path string) bool {
	for _, seg := range strings.Split(path, "/") {
		if seg != "" && strings.Trim(seg, ".") == "" {
			return true
		}
	}
	return false
}

// applyRawJSON reads text as the JSON value of the field (the second reading
// of a text that is itself a quoted JSON string).
func applyRawJSON(root protoreflect.Message, fds []protoreflect.FieldDescriptor, text string) error {
	cur := root
	for _, fd := range fds[:len(fds)-1] {
		cur = cur.Mutable(fd).Message()
	}
	fd := fds[len(fds)-1]
	fresh := cur.New()
	js := text
	if fd.IsList() {
		js = "[" + js + "]"
	}
	name, _ := json.Marshal(fd.JSONName())
	if err := protojson.Unmarshal([]byte("{"+string(name)+":"+js+"}"), fresh.Interface()); err != nil {
		return err
	}
	if fd.IsList() {
		l := fresh.Get(fd).List()
		if l.Len() != 1 {
			return fmt.Errorf("list form produced %d values", l.Len())
		}
		cur.Mutable(fd).List().Append(l.Get(0))
		return nil
	}
	if !fresh.Has(fd) {
		cur.Clear(fd)
		return nil
	}
	cur.Set(fd, fresh.Get(fd))
	return nil
}

// refReadings returns the messages the reference accepts for "field = text"
// on top of base: the protojson reading of the text as a bare or quoted JSON
// scalar, and - for texts that are themselves a quoted JSON string - the
// reading of the text as the JSON form itself (widest reading of "may").
func refReadings(base proto.Message, fds []protoreflect.FieldDescriptor, text string) []proto.Message {
	var out []proto.Message
	m1 := cloneMsg(base)
	if err := textref.Apply(m1.ProtoReflect(), fds, text); err == nil {
		out = append(out, m1)
	}
	fd := fds[len(fds)-1]
	if fd.Kind() != protoreflect.StringKind && len(text) >= 2 && ambiguousQuoted(text) && json.Valid([]byte(text)) {
		m2 := cloneMsg(base)
		if err := applyRawJSON(m2.ProtoReflect(), fds, text); err == nil {
			out = append(out, m2)
		}
	}
	// The reference is protojson itself, including what its tokenizer lets
	// through although encoding/json would not (e.g. "2e " read as 2): a bare
	// text without structural characters is also tried verbatim in value
	// position.
	if fd.Kind() != protoreflect.StringKind && text != "" && !strings.ContainsAny(text, ",{}[]:\"\\") {
		m3 := cloneMsg(base)
		if err := applyRawJSON(m3.ProtoReflect(), fds, text); err == nil {
			out = append(out, m3)
		}
	}
	return out
}

func nonFinite(m proto.Message, fds []protoreflect.FieldDescriptor) bool {
	v, ok := getPath(m.ProtoReflect(), fds)
	if !ok {
		return false
	}
	fd := fds[len(fds)-1]
	chk := func(x protoreflect.Value, k protoreflect.Kind) bool {
		if k == protoreflect.FloatKind || k == protoreflect.DoubleKind {
			return math.IsNaN(x.Float()) || math.IsInf(x.Float(), 0)
		}
		return false
	}
	switch {
	case fd.IsList():
		l := v.List()
		for i := 0; i < l.Len(); i++ {
			if chk(l.Get(i), fd.Kind()) {
				return true
			}
		}
	case fd.Message() != nil:
		if vfd := fd.Message().Fields().ByName("value"); vfd != nil && wktName(fd.Message()) != "" {
			return chk(v.Message().Get(vfd), vfd.Kind())
		}
	default:
		return chk(v, fd.Kind())
	}
	return false
}

// execNeg: one-sided oracle for one URL text. If no proto3-JSON reading
// accepts the text the request must fail without reaching the handler; if
// larking accepts it the delivered message must be one of the readings.
func execNeg(e *env, c *Case) (o outcome) {
	base, err := decodeMsg(c.Rule.In, c.Msg)
	if err != nil {
		o.inconcl = "bad case: " + err.Error()
		return
	}
	fds := textref.Resolve(base.ProtoReflect().Descriptor(), strings.Split(c.Field, "."))
	if fds == nil {
		o.inconcl = "bad case: field " + c.Field
		return
	}
	if strings.TrimSpace(c.Text) == "null" || !utf8.ValidString(c.Text) {
		o.count("neg_no_claim_null_or_invalid_utf8")
		return
	}
	readings := refReadings(base, fds, c.Text)
	for _, rd := range readings {
		if nonFinite(rd, fds) {
			o.count("neg_no_claim_non_finite")
			return
		}
	}
	resp, calls := serve(e, c.Req)
	if resp.Wedged {
		o.inconcl = "request did not return within the watchdog"
		return
	}
	if resp.Panic != nil {
		o.count("neg_panics_left_to_C09")
		o.count("left_to_C09:" + resp.Panic.Key())
		return
	}
	cls := c.Via + ":" + c.Class
	if len(calls) == 0 {
		if resp.Code < 400 {
			o.add("c03:no-handler-no-error:"+cls, fmt.Sprintf("%s %s?%s answered %d without reaching the handler", c.Req.Verb, c.Req.Path, c.Req.RawQuery, resp.Code))
			return
		}
		if len(readings) == 0 {
			o.distinct = "neg|body=" + c.Rule.bodyShape() + "|" + cls + "|rejected-invalid"
			o.count("neg_invalid_text_rejected")
		} else {
			o.count("neg_valid_noncanonical_text_rejected_(allowed)")
		}
		return
	}
	got := calls[0].msg
	if len(readings) == 0 {
		o.add("c03:accepted-invalid:"+cls, fmt.Sprintf("rule %s %s: field %s got text %q through the %s, which no proto3-JSON reading accepts for %s; the handler received %s",
			c.Rule.Verb, c.Rule.Tmpl, c.Field, c.Text, c.Via, kindClass(fds[len(fds)-1]), jsonOf(got)))
		return
	}
	for _, rd := range readings {
		if proto.Equal(rd, got) {
			o.distinct = "neg|body=" + c.Rule.bodyShape() + "|" + cls + "|accepted-equal"
			o.count("neg_accepted_text_equals_protojson_reading")
			return
		}
	}
	o.add("c03:wrong-value:"+cls, fmt.Sprintf("rule %s %s: field %s text %q through the %s: protojson reads %s, the handler received %s",
		c.Rule.Verb, c.Rule.Tmpl, c.Field, c.Text, c.Via, jsonOf(readings[0]), jsonOf(got)))
	return
}

// ------------------------------------------------------------ generation

type gen struct {
	r   *mon.Run
	rng *rand.Rand
	n   int // case counter (rotates encodings / namings)
	t   int // counter of requests with a body (rotates delivery features / muxes)
}

func (g *gen) nextEnc() bodyEnc {
	g.n++
	enc := bodyEncs[g.n%len(bodyEncs)]
	enc.jsonFl = (g.n / len(bodyEncs)) % 8
	return enc
}

func (g *gen) nextSplit() splitOpts {
	return splitOpts{naming: g.n % 3, enumNumbers: (g.n/3)%4 == 0, keepPathInBody: (g.n/12)%2 == 0, shuffle: true}
}

func channelOf(p *plan, path string, enc bodyEnc) string {
	switch {
	case p.isPathVar(path):
		return "path"
	case p.rule.Body == "*":
		return "body-" + enc.String()
	case p.body != nil && (path == p.bodyPath() || strings.HasPrefix(path, p.bodyPath()+".")):
		return "body-" + enc.String()
	}
	return "query"
}

// finish turns a prepared message into a positive case.
func (g *gen) finish(p *plan, M proto.Message, idx int, class func(enc bodyEnc) string) (*Case, error) {
	return g.finishEnc(p, M, idx, class, nil)
}

// finishEnc is finish with an optional fixed body encoding (then the body is
// delivered the default way and the case runs on the default mux).
func (g *gen) finishEnc(p *plan, M proto.Message, idx int, class func(enc bodyEnc) string, fixed *bodyEnc) (*Case, error) {
	texts, err := p.fit(g.rng, M, idx)
	if err != nil {
		return nil, err
	}
	p.normalise(M)
	if err := roundTrips(M); err != nil {
		return nil, fmt.Errorf("generator self-check: %v", err)
	}
	enc := g.nextEnc()
	if fixed != nil {
		enc = *fixed
	}
	pc, err := p.split(g.rng, M, texts, g.nextSplit())
	if err != nil {
		return nil, err
	}
	q, err := assemble(p.rule, pc, enc)
	if err != nil {
		return nil, err
	}
	mux := ""
	if fixed != nil {
		// boundary cases with a fixed encoding: plain delivery, default mux
	} else if q.Body != nil {
		g.t++
		applyTransport(g.rng, &q, transportFeatures[g.t%len(transportFeatures)])
		switch {
		case enc.custom():
			mux = muxCustom
		default:
			mux = []string{"", muxCustom, muxWithOptions, muxSkew}[g.t%4]
		}
	} else {
		mux = []string{"", muxWithOptions, muxCustom, muxSkew}[g.n%4]
	}
	if !g.r.Thorough() && !enc.custom() && (g.n/4)%2 == 1 {
		mux = "" // quick tier: the other mux kinds on half of the cases
	}
	if mux == muxSkew && p.rule.Svc != "" {
		mux = muxWithOptions // the real testpb services have no second descriptor build
	}
	if fixed == nil && len(p.vars) > 0 && q.Transport == "" && g.n%5 == 0 {
		// the same path in an over-escaped spelling (URL.RawPath set)
		q.Escape = escapeModes[(g.n/5)%len(escapeModes)]
	}
	wireM, err := proto.Marshal(M)
	if err != nil {
		return nil, err
	}
	return &Case{Prop: "C03", Kind: "c03-pos", Class: class(enc), Rule: p.rule, Mux: mux, Req: q, Msg: wireM, MsgJSON: jsonOf(M)}, nil
}

// single builds the case "only this leaf (plus the path-bound fields)".
func (g *gen) single(p *plan, lf leaf, idx int) (*Case, error) {
	M := vschema.NewMsg(p.in)
	setLeafPath(M.ProtoReflect(), lf.fds, idx, g.rng)
	c, err := g.singleOf(p, lf, M, idx)
	if c != nil {
		c.Field = lf.path()
	}
	return c, err
}

func (g *gen) singleOf(p *plan, lf leaf, M proto.Message, idx int) (*Case, error) {
	return g.finish(p, M, idx, func(enc bodyEnc) string {
		vc := "unset"
		if hasPath(M.ProtoReflect(), lf.fds) {
			cur := M.ProtoReflect()
			for _, fd := range lf.fds[:len(lf.fds)-1] {
				cur = cur.Get(fd).Message()
			}
			if ts, err := canonTexts(cur, lf.fd(), false); err == nil {
				vc = valueClass(ts)
			}
		}
		return channelOf(p, lf.path(), enc) + ":" + kindClass(lf.fd()) + ":" + vc
	})
}

func numFields(md protoreflect.MessageDescriptor) int { return md.Fields().Len() }

func (g *gen) multi(p *plan) (*Case, error) {
	d := math.Min(0.5, (2+6*g.rng.Float64())/float64(numFields(p.in)))
	M := genMessage(g.rng, p.in, genOpts{density: d, bodyOnly: p.rule.Body != "", depth: 3})
	if p.rule.Body != "" && g.rng.Intn(60) == 0 {
		// a large body (well below the 4 MiB receive limit)
		target := M.ProtoReflect()
		if p.body != nil {
			for _, fd := range p.body {
				target = target.Mutable(fd).Message()
			}
		}
		fs := target.Descriptor().Fields()
		for i := 0; i < fs.Len(); i++ {
			fd := fs.Get(i)
			if fd.Kind() == protoreflect.StringKind && !fd.IsList() && fd.ContainingOneof() == nil && !p.isPathVar(p.bodyPrefix()+string(fd.Name())) {
				target.Set(fd, protoreflect.ValueOfString(strings.Repeat("large body é ", 20000)))
				break
			}
		}
	}
	return g.finish(p, M, -1, func(enc bodyEnc) string {
		if p.rule.Body == "" {
			return "multi:query"
		}
		return "multi:body-" + enc.String()
	})
}

// setLeavesOf lists the URL leaves that are set in M.
func setLeavesOf(M proto.Message, depth int) []leaf {
	var out []leaf
	for _, lf := range urlLeaves(M.ProtoReflect().Descriptor(), depth) {
		if hasPath(M.ProtoReflect(), lf.fds) {
			out = append(out, lf)
		}
	}
	return out
}

type hostile struct{ text, label string }

func hostileTexts(fd protoreflect.FieldDescriptor) []hostile {
	common := []hostile{{"", "empty"}, {"abc", "alpha"}, {" ", "ws-only"}, {"{}", "object"}, {"[]", "array"}}
	signed32 := []hostile{{"2147483648", "overflow"}, {"-2147483649", "overflow"}, {"1x", "trailing-junk"}, {"--1", "double-sign"}, {"+1", "plus-sign"},
		{"01", "leading-zero"}, {"0x10", "hex"}, {"1.5", "fraction"}, {"1.0", "int-valued-fraction"}, {"1e2", "exponent"}, {" 1", "ws"}, {"1 ", "ws"},
		{`"1"`, "quoted"}, {"1,2", "list"}, {"٣", "non-ascii-digit"}, {"1_000", "underscore"}, {"９", "fullwidth-digit"}, {"-", "sign-only"},
		{"99999999999999999999999999", "overflow"}, {"1e-1", "exponent"}, {"-0", "neg-zero"}, {"1.5e1", "exponent"}, {"true", "bool"}}
	signed64 := []hostile{{"9223372036854775808", "overflow"}, {"-9223372036854775809", "overflow"}, {"1e19", "exponent"}, {"9.223372036854775807e18", "exponent"},
		{`"9223372036854775807"`, "quoted"}, {"1x", "trailing-junk"}, {"+1", "plus-sign"}, {"01", "leading-zero"}, {"1.5", "fraction"}, {"1.0", "int-valued-fraction"},
		{" 1", "ws"}, {"0x10", "hex"}, {"-", "sign-only"}, {"1,2", "list"}}
	unsigned32 := []hostile{{"-1", "negative"}, {"4294967296", "overflow"}, {"-0", "neg-zero"}, {"1.5", "fraction"}, {"+1", "plus-sign"}, {"1e2", "exponent"},
		{"1x", "trailing-junk"}, {`"1"`, "quoted"}, {"01", "leading-zero"}, {" 1", "ws"}}
	unsigned64 := []hostile{{"-1", "negative"}, {"18446744073709551616", "overflow"}, {"-0", "neg-zero"}, {"1.5", "fraction"}, {"+1", "plus-sign"},
		{"1e2", "exponent"}, {"1x", "trailing-junk"}, {`"1"`, "quoted"}, {"1.8446744073709551615e19", "exponent"}}
	floats := []hostile{{"1e999", "overflow"}, {"-1e999", "overflow"}, {"1..2", "double-dot"}, {"1e", "dangling-exponent"}, {"0x1p-2", "hex"}, {"1,5", "comma"},
		{".5", "no-int-part"}, {"5.", "no-frac-part"}, {"+1.5", "plus-sign"}, {"1.5f", "trailing-junk"}, {`"1.5"`, "quoted"}, {"1e-400", "underflow"},
		{" 1.5", "ws"}, {"1.5 ", "ws"}, {"01.5", "leading-zero"}, {"1E5", "upper-exponent"}, {"--1", "double-sign"}, {"1_0", "underscore"}, {"true", "bool"}, {"-", "sign-only"}}
	var out []hostile
	add := func(h ...[]hostile) {
		for _, x := range h {
			out = append(out, x...)
		}
	}
	kind := fd.Kind()
	wk := ""
	if fd.Message() != nil {
		wk = wktName(fd.Message())
		if vfd := fd.Message().Fields().ByName("value"); vfd != nil && strings.HasSuffix(wk, "Value") {
			kind = vfd.Kind()
			out = append(out, hostile{"{\"value\":1}", "object"})
		}
	}
	switch {
	case wk == "Timestamp":
		add(common, []hostile{{"2020-01-01", "date-only"}, {"2020-01-01T00:00:00", "no-zone"}, {"2020-01-01 00:00:00Z", "space"}, {"2020-13-01T00:00:00Z", "bad-month"},
			{"2020-02-30T00:00:00Z", "bad-day"}, {"0000-01-01T00:00:00Z", "year-0"}, {"10000-01-01T00:00:00Z", "year-10000"},
			{"2020-01-01T00:00:00.1234567891Z", "10-digit-fraction"}, {"2020-01-01T00:00:00+01:00", "offset"}, {"2020-01-01t00:00:00z", "lowercase"},
			{"1600000000", "epoch-int"}, {`"2020-01-01T00:00:00Z"`, "quoted"}, {"2020-01-01T24:00:00Z", "hour-24"}, {"2020-01-01T00:00:60Z", "second-60"},
			{"2020-01-01T00:00:00.Z", "empty-fraction"}, {"2020-01-01T00:00:00.5Z", "short-fraction"}, {"2020-1-1T0:0:0Z", "short-fields"},
			{"9999-12-31T23:59:59.999999999Z", "max"}, {"0001-01-01T00:00:00Z", "min"}, {"9999-12-31T23:59:59-01:00", "max-with-offset"}})
	case wk == "Duration":
		add(common, []hostile{{"3", "no-unit"}, {"3m", "minutes"}, {"3.s", "empty-fraction"}, {"3.0000000001s", "10-digit-fraction"}, {"315576000001s", "overflow"},
			{"-315576000001s", "overflow"}, {"+3s", "plus-sign"}, {"3 s", "space"}, {"3S", "upper-unit"}, {"1e3s", "exponent"}, {".5s", "no-int-part"},
			{"--3s", "double-sign"}, {"3s3s", "repeated"}, {`"3s"`, "quoted"}, {"s", "unit-only"}, {"-s", "sign-unit"}, {"3.5s", "fraction"}, {"-0.5s", "neg-fraction"},
			{"0003s", "leading-zero"}, {"3.500s", "trailing-zeros"}, {"315576000000.999999999s", "max"}})
	case wk == "FieldMask":
		add([]hostile{{"a,,b", "empty-path"}, {"a,b,", "trailing-comma"}, {"a b", "space"}, {"A", "upper"}, {"a_b", "snake"}, {"a..b", "double-dot"}, {"1a", "digit-start"},
			{",", "comma-only"}, {`"a"`, "quoted"}, {"a, b", "comma-space"}, {"fooBar,baz.quxQuux", "camel"}, {"a.b,c", "nested"}, {"{}", "object"}, {"é", "non-ascii"}})
	case kind == protoreflect.BoolKind:
		add(common, []hostile{{"True", "case"}, {"TRUE", "case"}, {"1", "digit"}, {"0", "digit"}, {"yes", "word"}, {"t", "abbrev"}, {`"true"`, "quoted"}, {"tru", "truncated"},
			{"truefalse", "trailing-junk"}, {" true", "ws"}, {"false ", "ws"}, {"true,false", "list"}})
	case kind == protoreflect.Int32Kind, kind == protoreflect.Sint32Kind, kind == protoreflect.Sfixed32Kind:
		add(common, signed32)
	case kind == protoreflect.Int64Kind, kind == protoreflect.Sint64Kind, kind == protoreflect.Sfixed64Kind:
		add(common, signed64)
	case kind == protoreflect.Uint32Kind, kind == protoreflect.Fixed32Kind:
		add(common, unsigned32)
	case kind == protoreflect.Uint64Kind, kind == protoreflect.Fixed64Kind:
		add(common, unsigned64)
	case kind == protoreflect.FloatKind:
		add(common, floats, []hostile{{"1e39", "overflow"}, {"3.5e38", "overflow"}, {"3.4028236e38", "rounds-to-max"}, {"1e-50", "underflow"}})
	case kind == protoreflect.DoubleKind:
		add(common, floats, []hostile{{"1.7976931348623159e308", "overflow"}, {"1.7976931348623157e308", "max"}})
	case kind == protoreflect.EnumKind:
		name, lower := "X", "x"
		if fd.Enum() != nil && fd.Enum().Values().Len() > 1 {
			name = string(fd.Enum().Values().Get(1).Name())
			lower = strings.ToLower(name)
		}
		add(common, []hostile{{"PURPLE", "unknown-name"}, {lower, "case"}, {name + " ", "ws"}, {" " + name, "ws"}, {`"` + name + `"`, "quoted"}, {"1x", "trailing-junk"},
			{"1.0", "int-valued-fraction"}, {"1.5", "fraction"}, {"2147483648", "overflow"}, {name + "," + name, "list"}, {"+1", "plus-sign"}, {"01", "leading-zero"},
			{"1e0", "exponent"}, {" 1", "ws"}, {"-2147483648", "min"}, {"true", "bool"}})
	case kind == protoreflect.BytesKind:
		add([]hostile{{"!!!!", "bad-char"}, {"Y", "bad-length"}, {"a b", "space"}, {"YQ=", "bad-padding"}, {"YQ===", "bad-padding"}, {"=YQ=", "bad-padding"},
			{"YQ==YQ==", "concatenated"}, {"-_+/", "mixed-alphabet"}, {`"YQ=="`, "quoted"}, {"YQ\n==", "newline"}, {"YR==", "nonzero-trailing-bits"},
			{"YQ", "std-unpadded"}, {"-_8=", "url-padded"}, {"-_8", "url-unpadded"}, {"+/8", "std-unpadded"}, {"+/8=", "std-padded"}, {"YWJj", "no-padding-needed"},
			{"YQ=\n=", "newline"}, {"Y Q==", "space"}, {"%59%51", "percent-text"}, {"{}", "object"}, {"é", "non-ascii"}, {"YWJj====", "bad-padding"}})
	case kind == protoreflect.StringKind && wk == "StringValue":
		add([]hostile{{`"q"`, "quoted"}, {`"`, "lone-quote"}, {`a"b`, "inner-quote"}, {`A`, "json-escape"}, {`"A"`, "quoted-escape"}, {`""`, "quoted"}})
	}
	return out
}

var mutAlphabet = []byte("0123456789-+.eE xX\"_,:TZs=/AazQ")

func mutate(rng *rand.Rand, s string) string {
	b := []byte(s)
	for k, n := 0, 1+rng.Intn(2); k < n; k++ {
		ch := mutAlphabet[rng.Intn(len(mutAlphabet))]
		switch op := rng.Intn(3); {
		case op == 0 || len(b) == 0:
			i := rng.Intn(len(b) + 1)
			b = append(b[:i], append([]byte{ch}, b[i:]...)...)
		case op == 1:
			i := rng.Intn(len(b))
			b = append(b[:i], b[i+1:]...)
		default:
			b[rng.Intn(len(b))] = ch
		}
	}
	return string(b)
}

// neg builds one one-sided case: field lf gets text through via.
func (g *gen) neg(p *plan, lf leaf, via string, h hostile) (*Case, error) {
	base := vschema.NewMsg(p.in)
	texts, err := p.fit(g.rng, base, -1)
	if err != nil {
		return nil, err
	}
	g.n++
	var query []kv
	switch via {
	case "path":
		if !pathSafe(h.text) {
			return nil, nil
		}
		// the field under test is not part of the base message
		clearPath(base.ProtoReflect(), lf.fds)
		// re-apply sibling variables that share a oneof / parent with it
		for _, v := range p.vars {
			if v.field != lf.path() {
				if err := textref.Apply(base.ProtoReflect(), v.fds, texts[v.field]); err != nil {
					return nil, err
				}
			}
		}
		texts[lf.path()] = h.text
	default:
		parts := make([]string, len(lf.fds))
		for i, fd := range lf.fds {
			parts[i] = fieldKey(g.rng, fd, g.n%3)
		}
		query = []kv{{strings.Join(parts, "."), h.text}}
	}
	wireB, err := proto.Marshal(base)
	if err != nil {
		return nil, err
	}
	q := reqSpec{Verb: reqVerb(p.rule), Path: p.instantiate(texts), RawQuery: encodeQuery(query)}
	return &Case{Prop: "C03", Kind: "c03-neg", Class: kindClass(lf.fd()) + ":" + h.label, Rule: p.rule, Req: q, Msg: wireB, MsgJSON: jsonOf(base),
		Field: lf.path(), Text: h.text, Via: via}, nil
}

// negRawPath: a multi-segment capture taken verbatim (may hold empty and dot
// segments). One-sided: refused, or delivered exactly as written.
func (g *gen) negRawPath(p *plan, v pathVar, text string) (*Case, error) {
	base := vschema.NewMsg(p.in)
	texts, err := p.fit(g.rng, base, -1)
	if err != nil {
		return nil, err
	}
	clearPath(base.ProtoReflect(), v.fds)
	for _, o := range p.vars {
		if o.field != v.field {
			if err := textref.Apply(base.ProtoReflect(), o.fds, texts[o.field]); err != nil {
				return nil, err
			}
		}
	}
	texts[v.field] = text
	wireB, err := proto.Marshal(base)
	if err != nil {
		return nil, err
	}
	q := reqSpec{Verb: reqVerb(p.rule), Path: p.instantiate(texts)}
	return &Case{Prop: "C03", Kind: "c03-neg", Class: "string:multi-segment-with-empty-or-dot-segments", Rule: p.rule, Req: q, Msg: wireB, MsgJSON: jsonOf(base),
		Field: v.field, Text: text, Via: "path"}, nil
}

// sameOneofAsVar: the leaf shares a oneof with a path variable (setting one
// clears the other, there is no message holding both).
func sameOneofAsVar(p *plan, lf leaf) bool {
	for _, v := range p.vars {
		for i := 0; i < len(lf.fds) && i < len(v.fds); i++ {
			a, b := lf.fds[i], v.fds[i]
			if a == b {
				continue
			}
			oa, ob := a.ContainingOneof(), b.ContainingOneof()
			if oa != nil && oa == ob {
				return true
			}
			break
		}
	}
	return false
}

const ruleC03 = "rules: body '*', body <field>, no body; path variables on top-level, nested and doubly nested fields, custom json_name fields, typed / enum / bytes / oneof / well-known-type variables, multi-segment and ** patterns, verb suffix; over the harness type vf.Req (dynamic), larking.testpb.ComplexRequest (dynamic rules) and the real larking.testpb annotations (Messaging, WellKnown, Complex). Positive cases: (a) systematic - every URL-expressible leaf field (depth <= 3) x every entry of its boundary table (int/uint 32/64 extremes, +-0, subnormal/max floats, empty/long/unicode/percent/quote strings, all base64 alphabets and padding lengths, enum names and unknown numbers, lists of length 1-3, every oneof arm, wrappers, Timestamp min/max/nanos, Duration +-, FieldMask nested paths), alone in a message with the path-bound fields; (b) random multi-field messages incl. maps, repeated messages, Struct/Value/ListValue/Any/Empty in the body part. The message is split into path captures (documented path characters only), percent-encoded query pairs (proto names / JSON names / mixed, shuffled keeping element order, enums by name or number) and a body (application/json with protojson option variations, application/protobuf, application/octet-stream, Content-Type absent; with and without Content-Encoding: gzip). Cases also rotate over a mux built with StatsOption and pass-through unary / stream interceptors, and a mux whose FilesOption registry is a second build of the descriptors from a revision of the types file with re-ordered and added fields (handlers keep using the first build). URL-only requests to the default mux are followed by the same request to a mux serving another generation of vf.Req (same field names, swapped numbers between same-kind fields; handler messages compared by name). Every rule is registered on two muxes - default options, and two extra media types (application/x-vf-json, application/x-vf-proto, magic-prefixed protojson / wire codecs) added with larking.CodecOption, whose bodies are sent too; cases alternate between them. Requests with a body rotate through one delivery feature each: HTTP/1.1 Content-Length (default), HTTP/2 with content-length, HTTP/2 without (ContentLength -1, no Transfer-Encoding), HTTP/1.0 close-delimited (ContentLength -1), HTTP/1.1 chunked, fragmented reads (random cuts, 1-byte reads, data-with-EOF), gzip bodies of 2 and 3 members cut at random offsets and with an empty member (RFC 1952). The recording handler must receive a proto.Equal message; a failure that disappears when the same request is delivered the default way is keyed by the delivery feature. Scope of positive claims: canonical protojson text forms, finite floats, no null, wrapper strings not enclosed in double quotes, maps / repeated messages / Struct / Any only in the body, body selectors on top-level fields. Wire-byte alphabet dimension: protobuf / octet-stream / gzip / JSON bodies of messages whose field 1 (string, bytes, fixed64, fixed32, double) and / or field 4 (int64, sint64, uint32, int32) hold values encoded as one repeated byte out of {0x20, 0x09, 0x0a, 0x0d, 0x00, 0x7f, 0xff, '{', '\"', 0x01, 0x80} (1-32 bytes), incl. bodies that consist only of JSON white-space bytes, on body '*' and body-field rules; JSON bodies surrounded by white space are a delivery feature. Body boundary dimension (own schema vf.transcode.Deep / Node plus ComplexRequest, body '*' and body field, JSON and protobuf, plain and gzip): nesting depth 1, 10, 49, 50, 51, 60, 99, 100, 101, 150, 500 (thorough 2000) of a self-recursive message (singular and repeated field), of google.protobuf.Value lists, Struct and ListValue; strings / bytes of 10^4..10^6 bytes and repeated / map fields of 10^4..10^5 elements (below the 4 MiB receive limit); the reference is what protojson / proto with default options reconstruct. A fifth of the requests with path variables send the path in an over-escaped spelling (one or all characters that need no escaping as %XX, upper / lower hex; URL.Path and URL.RawPath set from url.ParseRequestURI as a server does), with values containing plus signs and the other sub-delimiters: the decoded text must arrive. Path values include dot segments ('.', '..', '...', 'a.', '.a') alone and inside multi-segment captures (delivered verbatim); ** captures with empty segments are one-sided (refused or verbatim, never cleaned). At the very end a set of body cases is served by a default mux, an unrelated mux is created with CodecOption / CompressorOption for the built-in keys (other codecs under application/json, application/protobuf, application/octet-stream, a pass-through gzip), and the same cases are served again by the first mux: nothing may change. One-sided cases: hostile text tables per kind and random single-character mutations of canonical texts through the query string and (path-safe texts) the path: if protojson rejects the text as bare and as quoted JSON scalar the request must fail before the handler; if larking accepts, the delivered message must equal a protojson reading. distinct = (rule, channel path|query|body-<codec>[+gzip], field kind class, value/text class, outcome)"

// RunC03 is the transcoded-request-reconstruction check.
func RunC03(r *mon.Run) {
	r.Rule = ruleC03
	r.Floor = 300
	r.Assume("expected values come from protojson / proto.Equal (textref); path text is placed in URL.Path verbatim and query values are percent-encoded with url.QueryEscape; requests are served in-process through Mux.ServeHTTP")
	g := &gen{r: r, rng: r.Rand("c03")}
	dyn, real := requestRules()
	// every rule lives on two muxes: default options, and two extra media
	// types registered with larking.CodecOption
	envs := map[string]*env{}
	for _, kind := range []string{"", muxCustom, muxWithOptions, muxSkew, muxRenum} {
		envD, err := buildDynamic(dyn, kind)
		if err != nil {
			r.Inconclusive("harness: " + err.Error())
			return
		}
		envR, err := buildTestpb(kind)
		if err != nil {
			r.Inconclusive("harness: " + err.Error())
			return
		}
		envs["dyn|"+kind], envs["real|"+kind] = envD, envR
	}
	envOf := func(c *Case) *env {
		if c.Rule.Svc != "" {
			return envs["real|"+c.Mux]
		}
		return envs["dyn|"+c.Mux]
	}
	runDeep(r, g)
	runConcC03(r, g)
	all := append(append([]RuleSpec(nil), dyn...), real...)
	nSeq := 0
	nMulti := r.Pick(50, 6000)
	nMut := r.Pick(3, 200)
	for ri, rule := range all {
		p, err := newPlan(rule)
		if err != nil {
			r.Inconclusive("harness: " + err.Error())
			continue
		}
		run := func(c *Case, err error) bool {
			if err != nil {
				r.Count("generator_rejected_case", 1)
				if r.Counter("generator_rejected_case") <= 3 {
					r.Set(fmt.Sprintf("generator_reject_example_%d", r.Counter("generator_rejected_case")), rule.ID+": "+err.Error())
				}
				return true
			}
			if c == nil {
				return true
			}
			ok := apply(r, c, muxIsolated(c, execCase(envOf(c), c), envOf))
			// the same URL-only request then goes to a mux serving ANOTHER
			// generation of the message type (same names, swapped numbers)
			nSeq++
			if ok && c.Kind == "c03-pos" && c.Mux == "" && c.Req.Body == nil && c.Rule.Svc == "" && c.Rule.In == "vf.Req" && nSeq%2 == 0 {
				c2 := *c
				c2.Mux = muxRenum
				apply(r, &c2, muxIsolated(&c2, execCase(envOf(&c2), &c2), envOf))
			}
			return ok
		}
		leaves := urlLeaves(p.in, 3)
		// (a) systematic single-leaf cases
		for _, lf := range leaves {
			if sameOneofAsVar(p, lf) && !p.isPathVar(lf.path()) {
				continue
			}
			n := tableLen(lf.fd())
			if p.isPathVar(lf.path()) {
				n = len(pathStrVals)
			}
			for idx := 0; idx < n; idx++ {
				if !r.Thorough() && (idx+ri)%3 != 0 && !p.isPathVar(lf.path()) {
					continue // quick tier: every table entry on every third rule
				}
				run(g.single(p, lf, idx))
			}
			if r.Thorough() {
				for k := 0; k < 40; k++ {
					run(g.single(p, lf, -1))
				}
			}
		}
		// (b) random multi-field messages; failing ones are reduced to the
		// single leaves they contain so that the finding key names the field class
		for k := 0; k < nMulti; k++ {
			c, err := g.multi(p)
			if err != nil || c == nil {
				run(c, err)
				continue
			}
			o := execCase(envOf(c), c)
			if len(o.viols) > 0 && !strings.Contains(o.viols[0].key, ":transport:") {
				M, _ := decodeMsg(rule.In, c.Msg)
				reduced := false
				for _, lf := range setLeavesOf(M, 3) {
					if p.isPathVar(lf.path()) {
						continue
					}
					m1 := vschema.NewMsg(p.in)
					cur, src := m1.ProtoReflect(), M.ProtoReflect()
					for _, fd := range lf.fds[:len(lf.fds)-1] {
						cur, src = cur.Mutable(fd).Message(), src.Get(fd).Message()
					}
					cur.Set(lf.fd(), src.Get(lf.fd()))
					lf := lf
					c1, err := g.finish(p, m1, -1, func(enc bodyEnc) string {
						vc := "unset"
						if ts, err := canonTexts(src, lf.fd(), false); err == nil {
							vc = valueClass(ts)
						}
						return channelOf(p, lf.path(), enc) + ":" + kindClass(lf.fd()) + ":" + vc
					})
					if err != nil {
						continue
					}
					if o1 := execCase(envOf(c1), c1); len(o1.viols) > 0 {
						reduced = true
						apply(r, c1, o1)
					}
				}
				if reduced {
					r.Eval(1)
					continue
				}
			}
			apply(r, c, o)
		}
		// (b2) multi-segment captures with empty and dot segments: never coerced
		for _, v := range p.vars {
			fd := v.fds[len(v.fds)-1]
			if fd.Kind() != protoreflect.StringKind || fd.IsList() || v.pat[len(v.pat)-1].Kind != tmplref.StarStar || len(v.pat) != 1 {
				continue
			}
			for _, t := range []string{"a//b", "docs/../img/./logo.png", "a/./b", "../x", "x/..", "a///b", "./a", "a/.", "a//"} {
				run(g.negRawPath(p, v, t))
			}
		}
		// (c) one-sided cases
		for _, lf := range leaves {
			if sameOneofAsVar(p, lf) && !p.isPathVar(lf.path()) {
				continue
			}
			var vias []string
			switch ch := channelOf(p, lf.path(), bodyEnc{}); {
			case ch == "path":
				for _, v := range p.vars {
					if v.field == lf.path() && isSingleStar(v.pat) {
						vias = append(vias, "path")
					}
				}
			case ch == "query":
				vias = append(vias, "query")
			}
			for _, via := range vias {
				hs := hostileTexts(lf.fd())
				// random single/double character mutations of canonical texts
				for k := 0; k < nMut; k++ {
					tmp := vschema.NewMsg(lf.fd().ContainingMessage()).ProtoReflect()
					setLeaf(tmp, lf.fd(), -1, g.rng)
					ts, err := canonTexts(tmp, lf.fd(), g.rng.Intn(3) == 0)
					if err != nil || len(ts) == 0 || len(ts[0]) > 64 {
						continue
					}
					hs = append(hs, hostile{mutate(g.rng, ts[0]), "mutated"})
				}
				for hi, h := range hs {
					if !r.Thorough() && (hi+ri)%3 != 0 {
						continue // quick tier: every hostile text on every third rule
					}
					run(g.neg(p, lf, via, h))
				}
			}
		}
	}
	// last of all: another mux with options for built-in keys appears in the process
	runForeignC03(r, g)
}

func muxIsolated(c *Case, o outcome, envOf func(*Case) *env) outcome {
	if len(o.viols) == 0 || c.Mux == "" || strings.Contains(o.viols[0].key, ":transport:") || strings.HasPrefix(o.viols[0].key, "panic@") {
		return o
	}
	c2 := *c
	c2.Mux = ""
	if isCustomType(strings.Join(c.Req.Header["Content-Type"], "")) {
		return o
	}
	if o2 := execCase(envOf(&c2), &c2); len(o2.viols) == 0 && o2.inconcl == "" {
		for i, v := range o.viols {
			parts := strings.SplitN(v.key, ":", 3)
			if len(parts) >= 2 {
				o.viols[i].key = parts[0] + ":" + parts[1] + ":mux=" + c.Mux
				o.viols[i].what += " - the same request is delivered correctly by a mux built without these options"
			}
		}
	}
	return o
}

func execCase(e *env, c *Case) outcome {
	switch c.Kind {
	case "c03-pos":
		return execPos(e, c)
	case "c03-neg":
		return execNeg(e, c)
	case "c07":
		return execC07(e, c)
	case "c07-ws":
		return execC07WS(e, c)
	case "concurrent":
		return outcome{inconcl: "cases observed under concurrency are not replayable sequentially: " + c.Note}
	case "c04":
		return execC04(e, c)
	case "c04-upload":
		return execC04Upload(e, c)
	case "c04-seq":
		return execSeq(e, c)
	}
	return outcome{inconcl: "unknown case kind " + c.Kind}
}

var sampleClock int

// apply records an outcome in the run. It returns false on violation.
func apply(r *mon.Run, c *Case, o outcome) bool {
	r.Eval(1 + o.evals)
	for _, k := range o.more {
		r.Distinct(k)
	}
	for _, n := range o.counts {
		r.Count(n, 1)
	}
	if o.inconcl != "" {
		r.Inconclusive(o.inconcl)
	}
	if o.distinct != "" {
		r.Distinct(o.distinct)
		sampleClock++
		if sampleClock%1499 == 1 && c.Kind != "c04-seq" && len(c.Req.Body)+len(c.Msg)+len(c.Reply)+len(c.Req.RawQuery) < 1500 {
			r.Sample(c)
		}
	}
	for _, v := range o.viols {
		r.Violate(v.key, v.what, c)
	}
	return len(o.viols) == 0
}
