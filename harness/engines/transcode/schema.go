// Package transcode holds the HTTP transcoding engines: C03 (request
// reconstruction from path + query + body), C04 (unary response fidelity and
// truthful response headers) and C07 (path-bound fields are authoritative).
// All of them register rules on a real larking.Mux, serve fully materialised
// requests in-process and compare what the recording handler / the response
// recorder observed with independent references (protojson, proto.Equal, an
// RFC 7231 Accept evaluator, gzip).
package transcode

import (
	"context"
	"fmt"
	"io"
	"strings"
	"sync"
	"time"

	"google.golang.org/genproto/googleapis/api/annotations"
	"google.golang.org/genproto/googleapis/api/serviceconfig"
	"google.golang.org/grpc"
	"google.golang.org/grpc/codes"
	"google.golang.org/grpc/metadata"
	"google.golang.org/grpc/stats"
	"google.golang.org/grpc/status"
	"google.golang.org/protobuf/encoding/protojson"
	"google.golang.org/protobuf/proto"
	"google.golang.org/protobuf/reflect/protodesc"
	"google.golang.org/protobuf/reflect/protoreflect"
	"google.golang.org/protobuf/reflect/protoregistry"
	"google.golang.org/protobuf/types/descriptorpb"
	"larking.io/larking"

	"verif/internal/backend"
	"verif/internal/mon"
	"verif/internal/textref"
	"verif/internal/tmplref"
	"verif/internal/vschema"
	"verif/internal/wire"
)

// RuleSpec is one HTTP rule bound to one unary method. Svc != "" names a real
// service of larking.testpb (registered as a whole, the spec then describes
// the binding that is exercised); otherwise the rule is put on a dynamic
// service built at run time.
type RuleSpec struct {
	ID     string `json:"id"`
	Svc    string `json:"svc,omitempty"`
	Method string `json:"method,omitempty"`
	In     string `json:"in"`
	Out    string `json:"out"`
	Verb   string `json:"verb"`
	Tmpl   string `json:"tmpl"`
	Body   string `json:"body,omitempty"`
	Resp   string `json:"resp,omitempty"`
	// Via "config": the rule reaches the mux through ServiceConfigOption
	// (selector = the method's full name) instead of the proto annotation.
	// Ann, if set, is the google.api.http annotation the method carries
	// besides: with an empty Tmpl it re-declares the config rule's own verb
	// and template with another body / response_body (the service
	// configuration overrides the annotation).
	Via string   `json:"via,omitempty"`
	Ann *annSpec `json:"ann,omitempty"`
	// Stream: "" unary, "client", "server" or "bidi" streaming method.
	Stream string `json:"stream,omitempty"`
	// Primary: this rule is an additional_binding of the annotation whose
	// primary rule is Primary. Adds: this rule is the primary rule and carries
	// these additional_bindings.
	Primary *annSpec  `json:"primary,omitempty"`
	Adds    []annSpec `json:"adds,omitempty"`
}

type annSpec struct {
	Verb string `json:"verb,omitempty"`
	Tmpl string `json:"tmpl,omitempty"`
	Body string `json:"body,omitempty"`
	Resp string `json:"resp,omitempty"`
}

// annotation is the google.api.http annotation of the rule's method (nil for
// a config-only method).
func (a annSpec) rule() *annotations.HttpRule {
	return RuleSpec{Verb: a.Verb, Tmpl: a.Tmpl, Body: a.Body, Resp: a.Resp}.httpRule()
}

func (r RuleSpec) annotation() *annotations.HttpRule {
	if r.Via != "config" {
		if r.Primary != nil {
			hr := r.Primary.rule()
			hr.AdditionalBindings = []*annotations.HttpRule{r.httpRule()}
			return hr
		}
		hr := r.httpRule()
		for _, a := range r.Adds {
			hr.AdditionalBindings = append(hr.AdditionalBindings, a.rule())
		}
		return hr
	}
	if r.Ann == nil {
		return nil
	}
	a := RuleSpec{Verb: r.Ann.Verb, Tmpl: r.Ann.Tmpl, Body: r.Ann.Body, Resp: r.Ann.Resp}
	if a.Tmpl == "" {
		a.Verb, a.Tmpl = r.Verb, r.Tmpl
	}
	return a.httpRule()
}

func (r RuleSpec) isWebsocket() bool { return strings.EqualFold(r.Verb, "websocket") }

func (r RuleSpec) bodyShape() string {
	switch r.Body {
	case "":
		return "none"
	case "*":
		return "star"
	}
	return "field"
}

func (r RuleSpec) httpRule() *annotations.HttpRule {
	hr := &annotations.HttpRule{Body: r.Body, ResponseBody: r.Resp}
	switch r.Verb {
	case "GET":
		hr.Pattern = &annotations.HttpRule_Get{Get: r.Tmpl}
	case "PUT":
		hr.Pattern = &annotations.HttpRule_Put{Put: r.Tmpl}
	case "POST":
		hr.Pattern = &annotations.HttpRule_Post{Post: r.Tmpl}
	case "DELETE":
		hr.Pattern = &annotations.HttpRule_Delete{Delete: r.Tmpl}
	case "PATCH":
		hr.Pattern = &annotations.HttpRule_Patch{Patch: r.Tmpl}
	default:
		hr.Pattern = &annotations.HttpRule_Custom{Custom: &annotations.CustomHttpPattern{Kind: r.Verb, Path: r.Tmpl}}
	}
	return hr
}

// call is what the recording handler saw.
type call struct {
	method string
	msg    proto.Message
}

// recorder implements vschema.Impl: it records every request message and
// answers with the reply planted by the engine (or a small default).
type recorder struct {
	mu    sync.Mutex
	calls []call
	reply proto.Message
	// replyFn, when set, lets the engine act as a handler that serves
	// replies built from its own long-lived buffers / messages (returned as
	// they are, not copied). A nil result falls back to the planted reply.
	replyFn func(md protoreflect.MethodDescriptor, in proto.Message) proto.Message
	// hdrMode: what the handler does with response metadata before it
	// returns: "" nothing, "set-header" grpc.SetHeader, "send-header"
	// grpc.SendHeader (headers sent early), "send-header-empty",
	// "set-header+send-header", "set-trailer".
	hdrMode string
	// streamMode: how the streaming handler obtains / answers messages.
	streamMode string
	// byName: the handlers of this mux use another generation of the message
	// types; recorded messages are carried over by field NAME (JSON) into the
	// harness's own types.
	byName bool
}

func (rc *recorder) carry(in proto.Message) proto.Message {
	if rc.byName {
		if js, err := protojson.Marshal(in); err == nil {
			out := vschema.NewMsg(vschema.Msg(string(in.ProtoReflect().Descriptor().FullName())))
			if protojson.Unmarshal(js, out) == nil {
				return out
			}
		}
	}
	return cloneMsg(in)
}

func (rc *recorder) setHdrMode(m string) {
	rc.mu.Lock()
	rc.hdrMode = m
	rc.mu.Unlock()
}

var handlerModes = []string{"", "set-header", "send-header", "send-header-empty", "set-header+send-header", "set-trailer"}

func applyHdrMode(ctx context.Context, mode string) {
	md := metadata.Pairs("x-vf-meta", "one", "x-vf-meta", "two")
	switch mode {
	case "set-header":
		grpc.SetHeader(ctx, md) //nolint:errcheck
	case "send-header":
		grpc.SendHeader(ctx, md) //nolint:errcheck
	case "send-header-empty":
		grpc.SendHeader(ctx, nil) //nolint:errcheck
	case "set-header+send-header":
		grpc.SetHeader(ctx, metadata.Pairs("x-vf-first", "1")) //nolint:errcheck
		grpc.SendHeader(ctx, md)                               //nolint:errcheck
	case "set-trailer":
		grpc.SetTrailer(ctx, md) //nolint:errcheck
	}
}

func (rc *recorder) take() []call {
	rc.mu.Lock()
	defer rc.mu.Unlock()
	c := rc.calls
	rc.calls = nil
	return c
}

func (rc *recorder) setReply(m proto.Message) {
	rc.mu.Lock()
	rc.reply = m
	rc.mu.Unlock()
}

func (rc *recorder) Unary(ctx context.Context, md protoreflect.MethodDescriptor, in proto.Message) (proto.Message, error) {
	rc.mu.Lock()
	rc.calls = append(rc.calls, call{method: vschema.FullMethod(md), msg: rc.carry(in)})
	rep := rc.reply
	fn := rc.replyFn
	hm := rc.hdrMode
	rc.mu.Unlock()
	if hm != "" {
		applyHdrMode(ctx, hm)
	}
	if fn != nil {
		if m := fn(md, in); m != nil {
			return m, nil
		}
	}
	if rep != nil && rep.ProtoReflect().Descriptor().FullName() == md.Output().FullName() {
		// larking walks response_body with Mutable on the reply: hand out a copy
		return cloneMsg(rep), nil
	}
	out := vschema.NewMsg(md.Output())
	if md.Output().FullName() == "google.api.HttpBody" {
		r := out.ProtoReflect()
		r.Set(md.Output().Fields().ByName("content_type"), protoreflect.ValueOfString("text/plain"))
		r.Set(md.Output().Fields().ByName("data"), protoreflect.ValueOfBytes([]byte("ok")))
	}
	return out, nil
}

// Stream is the streaming handler. It records every request message it
// obtains. streamMode selects HOW a handler obtains the first message:
// "" stream.RecvMsg (looping until io.EOF on client streams), or
// "as-body-reader" larking.AsHTTPBodyReader (client-streaming HttpBody
// uploads); "as-body-writer" answers a server-streaming HttpBody method
// through larking.AsHTTPBodyWriter. Bidi streams acknowledge every message.
func (rc *recorder) Stream(md protoreflect.MethodDescriptor, ss grpc.ServerStream) error {
	rc.mu.Lock()
	mode := rc.streamMode
	rc.mu.Unlock()
	record := func(in proto.Message) {
		rc.mu.Lock()
		rc.calls = append(rc.calls, call{method: vschema.FullMethod(md), msg: cloneMsg(in)})
		rc.mu.Unlock()
	}
	reply := func(n int) proto.Message {
		out := vschema.NewMsg(md.Output())
		r := out.ProtoReflect()
		switch {
		case md.Output().FullName() == "google.api.HttpBody":
			r.Set(md.Output().Fields().ByName("content_type"), protoreflect.ValueOfString("text/plain"))
			r.Set(md.Output().Fields().ByName("data"), protoreflect.ValueOfBytes([]byte(fmt.Sprintf("ack-%d", n))))
		case md.Output().Fields().ByName("text") != nil && md.Output().Fields().ByName("text").Kind() == protoreflect.StringKind:
			r.Set(md.Output().Fields().ByName("text"), protoreflect.ValueOfString(fmt.Sprintf("ack-%d", n)))
		case md.Output().Fields().ByName("tag") != nil && md.Output().Fields().ByName("tag").Kind() == protoreflect.StringKind:
			r.Set(md.Output().Fields().ByName("tag"), protoreflect.ValueOfString(fmt.Sprintf("ack-%d", n)))
		}
		return out
	}
	cs, sstr := md.IsStreamingClient(), md.IsStreamingServer()
	if cs && mode == "as-body-reader" {
		in := vschema.NewMsg(md.Input())
		rd, err := larking.AsHTTPBodyReader(ss, in)
		if err != nil {
			return err
		}
		record(in)
		if _, err := io.Copy(io.Discard, rd); err != nil {
			return err
		}
		return ss.SendMsg(reply(0))
	}
	n := 0
	for {
		in := vschema.NewMsg(md.Input())
		if err := ss.RecvMsg(in); err != nil {
			if err == io.EOF {
				break
			}
			return err
		}
		record(in)
		n++
		if !cs {
			break
		}
		if sstr {
			if err := ss.SendMsg(reply(n - 1)); err != nil {
				return err
			}
		}
	}
	switch {
	case sstr && !cs:
		if mode == "as-body-writer" && md.Output().FullName() == "google.api.HttpBody" {
			hdr := vschema.NewMsg(md.Output())
			hdr.ProtoReflect().Set(md.Output().Fields().ByName("content_type"), protoreflect.ValueOfString("application/x-download"))
			w, err := larking.AsHTTPBodyWriter(ss, hdr)
			if err != nil {
				return err
			}
			_, err = w.Write([]byte("downloaded bytes"))
			return err
		}
		return ss.SendMsg(reply(0))
	case cs && !sstr:
		return ss.SendMsg(reply(n))
	}
	return nil
}

func (rc *recorder) setStreamMode(m string) {
	rc.mu.Lock()
	rc.streamMode = m
	rc.mu.Unlock()
}

func (rc *recorder) peek() []call {
	rc.mu.Lock()
	defer rc.mu.Unlock()
	return append([]call(nil), rc.calls...)
}

// plan is a rule resolved against its request type with the reference
// template parser.
type plan struct {
	rule  RuleSpec
	t     *tmplref.Template
	in    protoreflect.MessageDescriptor
	out   protoreflect.MessageDescriptor
	vars  []pathVar
	body  []protoreflect.FieldDescriptor // nil for "" and "*"
	resp  []protoreflect.FieldDescriptor
	error error
}

type pathVar struct {
	field string // dotted proto-name path
	fds   []protoreflect.FieldDescriptor
	pat   []tmplref.Seg
}

func protoPath(fds []protoreflect.FieldDescriptor) string {
	parts := make([]string, len(fds))
	for i, fd := range fds {
		parts[i] = string(fd.Name())
	}
	return strings.Join(parts, ".")
}

func newPlan(rule RuleSpec) (*plan, error) {
	deepTypes()
	p := &plan{rule: rule}
	t, err := tmplref.Parse(rule.Tmpl)
	if err != nil {
		return nil, fmt.Errorf("rule %s: template %q: %v", rule.ID, rule.Tmpl, err)
	}
	p.t = t
	p.in = vschema.Msg(rule.In)
	p.out = vschema.Msg(rule.Out)
	for _, s := range t.Segs {
		if s.Kind != tmplref.Var {
			continue
		}
		fds := textref.Resolve(p.in, s.Field)
		if fds == nil {
			return nil, fmt.Errorf("rule %s: variable %v does not resolve", rule.ID, s.Field)
		}
		pat := s.Pat
		if len(pat) == 0 {
			pat = []tmplref.Seg{{Kind: tmplref.Star}}
		}
		p.vars = append(p.vars, pathVar{field: protoPath(fds), fds: fds, pat: pat})
	}
	if rule.Body != "" && rule.Body != "*" {
		p.body = textref.Resolve(p.in, strings.Split(rule.Body, "."))
		if p.body == nil || p.body[len(p.body)-1].Message() == nil || p.body[len(p.body)-1].IsList() {
			return nil, fmt.Errorf("rule %s: body %q is not a singular message field", rule.ID, rule.Body)
		}
	}
	if rule.Resp != "" {
		p.resp = textref.Resolve(p.out, strings.Split(rule.Resp, "."))
		if p.resp == nil || p.resp[len(p.resp)-1].Message() == nil || p.resp[len(p.resp)-1].IsList() {
			return nil, fmt.Errorf("rule %s: response_body %q is not a singular message field of %s", rule.ID, rule.Resp, rule.Out)
		}
	}
	return p, nil
}

// isPathVar reports whether the dotted proto path is bound by the template.
func (p *plan) isPathVar(path string) bool {
	for _, v := range p.vars {
		if v.field == path {
			return true
		}
	}
	return false
}

// bodyPrefix is the dotted prefix of fields inside the body message.
func (p *plan) bodyPrefix() string {
	if p.body == nil {
		return ""
	}
	return protoPath(p.body) + "."
}

func (p *plan) bodyPath() string {
	if p.body == nil {
		return ""
	}
	return protoPath(p.body)
}

// env is a set of rules registered on a real mux.
type env struct {
	mux      *larking.Mux
	rec      *recorder
	kind     string            // "" = default options, muxCustom = two extra CodecOption codecs
	regErr   map[string]string // rule ID -> registration error text
	regPanic map[string]*mon.PanicInfo
	srv      *wire.Server // real listener, started on first use (WebSocket cases)
	backend  *backend.Backend
	backend2 *backend.Backend
}

// server starts (once) a real loopback listener in front of the mux.
func (e *env) server() (*wire.Server, error) {
	if e.srv == nil {
		srv, err := wire.StartLarking(e.mux, nil)
		if err != nil {
			return nil, err
		}
		e.srv = srv
	}
	return e.srv, nil
}

func (e *env) close() {
	if e.backend != nil {
		e.backend.Close()
		e.backend = nil
	}
	if e.backend2 != nil {
		e.backend2.Close()
		e.backend2 = nil
	}
	if e.srv != nil {
		e.srv.Close()
		e.srv = nil
	}
}

var envSeq struct {
	sync.Mutex
	n int
}

func nextSeq() int {
	envSeq.Lock()
	defer envSeq.Unlock()
	envSeq.n++
	return envSeq.n
}

// buildDynamic registers the given dynamic rules (Svc == ""). Rules without
// response_body share the service "Main"; every response_body rule gets a
// service of its own so that a registration failure is attributed to it and
// does not take other rules down. The descriptor construction error is a
// harness error; registration outcomes are recorded per rule.
func buildDynamic(rules []RuleSpec, kind string) (*env, error) {
	deepTypes()
	seq := nextSeq()
	f := &vschema.File{Path: fmt.Sprintf("vf/tc%d.proto", seq), Pkg: fmt.Sprintf("vf.tc%d", seq)}
	main := vschema.Service{Name: "Main"}
	type own struct {
		svc  string
		rule string
	}
	var owners []own
	var cfgRules []*annotations.HttpRule
	for i, r := range rules {
		if r.Svc != "" {
			return nil, fmt.Errorf("buildDynamic: rule %s belongs to %s", r.ID, r.Svc)
		}
		m := vschema.Method{Name: fmt.Sprintf("Me%d", i), In: r.In, Out: r.Out, Rule: r.annotation()}
		if r.isWebsocket() {
			m.CS, m.SS = true, true // websocket bindings live on bidi methods
		}
		switch r.Stream {
		case "client":
			m.CS = true
		case "server":
			m.SS = true
		case "bidi":
			m.CS, m.SS = true, true
		}
		if r.Resp == "" && r.Via != "config" && r.Primary == nil && len(r.Adds) == 0 {
			main.Methods = append(main.Methods, m)
			continue
		}
		name := fmt.Sprintf("Rb%d", i)
		if r.Via == "config" {
			hr := r.httpRule()
			hr.Selector = fmt.Sprintf("%s.%s.%s", f.Pkg, name, m.Name)
			cfgRules = append(cfgRules, hr)
		}
		f.Services = append(f.Services, vschema.Service{Name: name, Methods: []vschema.Method{m}})
		owners = append(owners, own{name, r.ID})
	}
	if len(main.Methods) > 0 {
		f.Services = append(f.Services, main)
		owners = append(owners, own{"Main", ""})
	}
	fd, err := f.Build()
	if err != nil {
		return nil, fmt.Errorf("descriptor build: %w", err)
	}
	regFD := fd
	if kind == muxRenum {
		// another GENERATION of the service: same names, but the numbers of
		// some same-kind fields are swapped; registry AND handlers use it
		if regFD, err = rebuildWith(f.Proto(), renumTypes); err != nil {
			return nil, fmt.Errorf("renumbered descriptor build: %w", err)
		}
		fd = regFD
	}
	if kind == muxSkew {
		// the mux gets a SECOND build of the same descriptors, from a types
		// file whose revision declares the fields in another order and adds
		// new ones in front; the handlers keep building their messages on the
		// first build
		if regFD, err = rebuildSkewed(f.Proto()); err != nil {
			return nil, fmt.Errorf("skewed descriptor build: %w", err)
		}
	}
	reg, err := vschema.Registry(regFD)
	if err != nil {
		return nil, err
	}
	if kind == muxProxied {
		return buildProxied(fd, owners2(owners))
	}
	opts := append([]larking.MuxOption{larking.FilesOption(reg)}, muxOptions(kind)...)
	if len(cfgRules) > 0 {
		opts = append(opts, larking.ServiceConfigOption(&serviceconfig.Service{Http: &annotations.Http{Rules: cfgRules}}))
	}
	mux, err := larking.NewMux(opts...)
	if err != nil {
		return nil, err
	}
	e := &env{mux: mux, rec: &recorder{byName: kind == muxRenum}, kind: kind, regErr: map[string]string{}, regPanic: map[string]*mon.PanicInfo{}}
	for _, o := range owners {
		sd := fd.Services().ByName(protoreflect.Name(o.svc))
		gsd := vschema.ServiceDesc(sd, e.rec)
		var rerr error
		pi := mon.Catch(func() { rerr = larking.VerifRegisterService(mux, gsd, struct{}{}) })
		if o.rule == "" {
			if pi != nil {
				return nil, fmt.Errorf("registration of the main service panicked: %s", pi.Value)
			}
			if rerr != nil {
				return nil, fmt.Errorf("registration of the main service failed: %v", rerr)
			}
			continue
		}
		if pi != nil {
			e.regPanic[o.rule] = pi
		} else if rerr != nil {
			e.regErr[o.rule] = rerr.Error()
		}
	}
	return e, nil
}

var testpbServices = []string{"larking.testpb.Messaging", "larking.testpb.Files", "larking.testpb.WellKnown", "larking.testpb.Complex", "larking.testpb.ChatRoom"}

// buildTestpb registers the real larking.testpb services (their compiled-in
// google.api.http annotations) with the recording handler.
func buildTestpb(kind string) (*env, error) {
	mux, err := larking.NewMux(muxOptions(kind)...)
	if err != nil {
		return nil, err
	}
	e := &env{mux: mux, rec: &recorder{}, kind: kind, regErr: map[string]string{}, regPanic: map[string]*mon.PanicInfo{}}
	for _, name := range testpbServices {
		d, err := protoregistry.GlobalFiles.FindDescriptorByName(protoreflect.FullName(name))
		if err != nil {
			return nil, err
		}
		sd := d.(protoreflect.ServiceDescriptor)
		var rerr error
		pi := mon.Catch(func() { rerr = larking.VerifRegisterService(mux, vschema.ServiceDesc(sd, e.rec), struct{}{}) })
		if pi != nil {
			return nil, fmt.Errorf("registering %s panicked: %s", name, pi.Value)
		}
		if rerr != nil {
			return nil, fmt.Errorf("registering %s: %v", name, rerr)
		}
	}
	return e, nil
}

// envFor builds the environment needed to replay a single rule.
func envFor(rule RuleSpec, kind string) (*env, error) {
	if rule.Svc != "" {
		return buildTestpb(kind)
	}
	return buildDynamic([]RuleSpec{rule}, kind)
}

// ------------------------------------------------------------ extra codecs

// muxCustom is a mux configured with two additional media types through
// larking.CodecOption. Both codecs frame their output with a magic prefix so
// that the independent decoder can tell that the codec named by the
// Content-Type really produced the body.
const (
	muxCustom  = "custom-codecs"
	ctAltJSON  = "application/x-vf-json"
	ctAltProto = "application/x-vf-proto"
	// ctAltEarly sorts before every built-in media type; like the other two
	// its codec implements Codec but not StreamCodec (unary only)
	ctAltEarly    = "application/a-vf-json"
	altJSONMagic  = "//vf-json\n"
	altProtoMagic = "VFP1"
)

var builtinTypes = []string{"application/json", "application/octet-stream", "application/protobuf"}

// muxReplaced is a mux whose application/json and application/protobuf codecs
// are REPLACED by the marked codecs (application/octet-stream keeps the
// built-in one).
const muxReplaced = "replaced-codecs"

// muxProxied: the services run on a real loopback gRPC back-end with
// reflection and are attached to a default mux with Mux.RegisterConn.
const muxProxied = "proxied-backend"

func owners2(o interface{}) []string { return nil }

func buildProxied(fd protoreflect.FileDescriptor, _ []string) (*env, error) {
	e := &env{rec: &recorder{}, kind: muxProxied, regErr: map[string]string{}, regPanic: map[string]*mon.PanicInfo{}}
	var svcs []backend.Svc
	for i := 0; i < fd.Services().Len(); i++ {
		svcs = append(svcs, backend.Svc{SD: fd.Services().Get(i), Impl: e.rec})
	}
	b, err := backend.Start("transcode", true, svcs...)
	if err != nil {
		return nil, err
	}
	mux, err := larking.NewMux()
	if err != nil {
		b.Close()
		return nil, err
	}
	ctx, cancel := context.WithTimeout(context.Background(), 20*time.Second)
	defer cancel()
	var rerr error
	if pi := mon.Catch(func() { rerr = mux.RegisterConn(ctx, b.CC) }); pi != nil {
		b.Close()
		return nil, fmt.Errorf("RegisterConn panicked: %s", pi.Value)
	}
	if rerr != nil {
		b.Close()
		return nil, fmt.Errorf("RegisterConn: %w", rerr)
	}
	// a second provider of the same services whose handlers answer Unavailable
	// (a draining / restarting replica)
	var down []backend.Svc
	for i := 0; i < fd.Services().Len(); i++ {
		down = append(down, backend.Svc{SD: fd.Services().Get(i), Impl: unavailableImpl{}})
	}
	b2, err := backend.Start("transcode-down", true, down...)
	if err != nil {
		b.Close()
		return nil, err
	}
	if pi := mon.Catch(func() { rerr = mux.RegisterConn(ctx, b2.CC) }); pi != nil || rerr != nil {
		b.Close()
		b2.Close()
		if pi != nil {
			return nil, fmt.Errorf("RegisterConn (second provider) panicked: %s", pi.Value)
		}
		return nil, fmt.Errorf("RegisterConn (second provider): %w", rerr)
	}
	e.mux, e.backend, e.backend2 = mux, b, b2
	return e, nil
}

type unavailableImpl struct{}

func (unavailableImpl) Unary(context.Context, protoreflect.MethodDescriptor, proto.Message) (proto.Message, error) {
	return nil, status.Error(codes.Unavailable, "replica is draining")
}

func (unavailableImpl) Stream(protoreflect.MethodDescriptor, grpc.ServerStream) error {
	return status.Error(codes.Unavailable, "replica is draining")
}

// muxWithOptions: a mux built with StatsOption and pass-through unary /
// stream interceptors (options must not change what the handler receives).
// muxSkew: FilesOption registry holding a second, re-ordered build of the
// descriptors.
const (
	muxWithOptions = "stats+interceptors"
	muxSkew        = "skewed-registry"
	muxRenum       = "renumbered-registry"
)

// renumTypes: a revision of vf/types.proto in which pairs of same-kind fields
// have swapped numbers (Req a<->b, c<->d, n<->sn; Sub a<->b; Sub2 s unchanged).
func renumTypes() (protoreflect.FileDescriptor, error) {
	fdp := protodesc.ToFileDescriptorProto(vschema.TypesFile())
	swap := map[string][][2]string{"Req": {{"a", "b"}, {"c", "d"}, {"n", "sn"}, {"rs", "long_name"}}, "Sub": {{"a", "b"}, {"l", "n"}}}
	for _, m := range fdp.MessageType {
		for _, pr := range swap[m.GetName()] {
			var x, y *descriptorpb.FieldDescriptorProto
			for _, f := range m.Field {
				switch f.GetName() {
				case pr[0]:
					x = f
				case pr[1]:
					y = f
				}
			}
			if x != nil && y != nil && x.GetType() == y.GetType() && x.GetLabel() == y.GetLabel() {
				x.Number, y.Number = y.Number, x.Number
			}
		}
	}
	return protodesc.NewFile(fdp, protoregistry.GlobalFiles)
}

var (
	renumOnce sync.Once
	renumFD   protoreflect.FileDescriptor
	renumErr  error
)

func rebuildWith(svc *descriptorpb.FileDescriptorProto, types func() (protoreflect.FileDescriptor, error)) (protoreflect.FileDescriptor, error) {
	renumOnce.Do(func() { renumFD, renumErr = types() })
	if renumErr != nil {
		return nil, renumErr
	}
	return protodesc.NewFile(svc, skewResolver{renumFD})
}

type nopStats struct{}

func (nopStats) TagRPC(ctx context.Context, _ *stats.RPCTagInfo) context.Context   { return ctx }
func (nopStats) HandleRPC(context.Context, stats.RPCStats)                         {}
func (nopStats) TagConn(ctx context.Context, _ *stats.ConnTagInfo) context.Context { return ctx }
func (nopStats) HandleConn(context.Context, stats.ConnStats)                       {}

type skewResolver struct{ types protoreflect.FileDescriptor }

func (r skewResolver) FindFileByPath(p string) (protoreflect.FileDescriptor, error) {
	if p == r.types.Path() {
		return r.types, nil
	}
	return protoregistry.GlobalFiles.FindFileByPath(p)
}

func (r skewResolver) FindDescriptorByName(n protoreflect.FullName) (protoreflect.Descriptor, error) {
	var find func(ms protoreflect.MessageDescriptors) protoreflect.Descriptor
	find = func(ms protoreflect.MessageDescriptors) protoreflect.Descriptor {
		for i := 0; i < ms.Len(); i++ {
			m := ms.Get(i)
			if m.FullName() == n {
				return m
			}
			if d := find(m.Messages()); d != nil {
				return d
			}
		}
		return nil
	}
	if d := find(r.types.Messages()); d != nil {
		return d, nil
	}
	for i := 0; i < r.types.Enums().Len(); i++ {
		if e := r.types.Enums().Get(i); e.FullName() == n {
			return e, nil
		}
	}
	return protoregistry.GlobalFiles.FindDescriptorByName(n)
}

var (
	skewOnce  sync.Once
	skewTypes protoreflect.FileDescriptor
	skewErr   error
)

// rebuildSkewed builds the service file a second time against a revision of
// vf/types.proto in which every message declares its fields in reverse order
// behind two added fields (numbers and names of the existing fields are
// unchanged, so the revision is wire- and JSON-compatible).
func rebuildSkewed(svc *descriptorpb.FileDescriptorProto) (protoreflect.FileDescriptor, error) {
	skewOnce.Do(func() {
		fdp := protodesc.ToFileDescriptorProto(vschema.TypesFile())
		str, i32 := descriptorpb.FieldDescriptorProto_TYPE_STRING, descriptorpb.FieldDescriptorProto_TYPE_INT32
		opt := descriptorpb.FieldDescriptorProto_LABEL_OPTIONAL
		for _, m := range fdp.MessageType {
			fs := m.Field
			for i, j := 0, len(fs)-1; i < j; i, j = i+1, j-1 {
				fs[i], fs[j] = fs[j], fs[i]
			}
			n1, n2 := "zz_added_s", "zz_added_n"
			num1, num2 := int32(901), int32(902)
			m.Field = append([]*descriptorpb.FieldDescriptorProto{
				{Name: &n1, Number: &num1, Type: &str, Label: &opt}, {Name: &n2, Number: &num2, Type: &i32, Label: &opt}}, fs...)
		}
		skewTypes, skewErr = protodesc.NewFile(fdp, protoregistry.GlobalFiles)
	})
	if skewErr != nil {
		return nil, skewErr
	}
	return protodesc.NewFile(svc, skewResolver{skewTypes})
}

func muxOptions(kind string) []larking.MuxOption {
	switch kind {
	case muxWithOptions:
		return []larking.MuxOption{
			larking.StatsOption(nopStats{}),
			larking.UnaryServerInterceptorOption(func(ctx context.Context, req interface{}, _ *grpc.UnaryServerInfo, h grpc.UnaryHandler) (interface{}, error) {
				return h(ctx, req)
			}),
			larking.StreamServerInterceptorOption(func(srv interface{}, ss grpc.ServerStream, _ *grpc.StreamServerInfo, h grpc.StreamHandler) error {
				return h(srv, ss)
			}),
		}
	case muxCustom:
		return []larking.MuxOption{larking.CodecOption(ctAltJSON, altJSONCodec{}), larking.CodecOption(ctAltProto, altProtoCodec{}),
			larking.CodecOption(ctAltEarly, altJSONCodec{})}
	case muxReplaced:
		return []larking.MuxOption{larking.CodecOption("application/json", altJSONCodec{}), larking.CodecOption("application/protobuf", altProtoCodec{})}
	}
	return popOptions(kind) // nil unless a population kind (c04pop.go)
}

// markOf returns the magic prefix the codec registered for ct on a mux of the
// given kind puts in front of its output ("" for the built-in codecs).
func markOf(kind, ct string) string {
	switch {
	case kind == muxCustom && (ct == ctAltJSON || ct == ctAltEarly), kind == muxReplaced && ct == "application/json":
		return altJSONMagic
	case kind == muxCustom && ct == ctAltProto, kind == muxReplaced && ct == "application/protobuf":
		return altProtoMagic
	case popHas(kind, ct) && popCodecOf(ct) == "json":
		return altJSONMagic
	case popHas(kind, ct):
		return altProtoMagic
	}
	return ""
}

// mediaTypes are the media types with a registered codec, sorted.
func (e *env) mediaTypes() []string { return mediaTypesOf(e.kind) }

func mediaTypesOf(kind string) []string {
	if kind == muxCustom {
		return []string{ctAltEarly, "application/json", "application/octet-stream", "application/protobuf", ctAltJSON, ctAltProto}
	}
	if _, _, ok := parsePopKind(kind); ok {
		return popMediaTypes(kind)
	}
	return builtinTypes
}

func isCustomType(ct string) bool {
	return ct == ctAltJSON || ct == ctAltProto || ct == ctAltEarly || popCodecOf(ct) != ""
}

type altJSONCodec struct{}

func (altJSONCodec) Name() string                            { return "vfjson" }
func (c altJSONCodec) Marshal(v interface{}) ([]byte, error) { return c.MarshalAppend(nil, v) }
func (altJSONCodec) MarshalAppend(b []byte, v interface{}) ([]byte, error) {
	m, ok := v.(proto.Message)
	if !ok {
		return nil, fmt.Errorf("vfjson: not a proto message: %T", v)
	}
	return protojson.MarshalOptions{UseProtoNames: true}.MarshalAppend(append(b, altJSONMagic...), m)
}
func (altJSONCodec) Unmarshal(data []byte, v interface{}) error {
	m, ok := v.(proto.Message)
	if !ok {
		return fmt.Errorf("vfjson: not a proto message: %T", v)
	}
	return altJSONDecode(data, m)
}

func altJSONDecode(data []byte, m proto.Message) error {
	if !strings.HasPrefix(string(data), altJSONMagic) {
		return fmt.Errorf("vfjson: missing magic prefix")
	}
	return protojson.Unmarshal(data[len(altJSONMagic):], m)
}

type altProtoCodec struct{}

func (altProtoCodec) Name() string                            { return "vfproto" }
func (c altProtoCodec) Marshal(v interface{}) ([]byte, error) { return c.MarshalAppend(nil, v) }
func (altProtoCodec) MarshalAppend(b []byte, v interface{}) ([]byte, error) {
	m, ok := v.(proto.Message)
	if !ok {
		return nil, fmt.Errorf("vfproto: not a proto message: %T", v)
	}
	return proto.MarshalOptions{}.MarshalAppend(append(b, altProtoMagic...), m)
}
func (altProtoCodec) Unmarshal(data []byte, v interface{}) error {
	m, ok := v.(proto.Message)
	if !ok {
		return fmt.Errorf("vfproto: not a proto message: %T", v)
	}
	return altProtoDecode(data, m)
}

func altProtoDecode(data []byte, m proto.Message) error {
	if !strings.HasPrefix(string(data), altProtoMagic) {
		return fmt.Errorf("vfproto: missing magic prefix")
	}
	return proto.Unmarshal(data[len(altProtoMagic):], m)
}

// decodeBy decodes a payload with the codec a media type names (the
// harness's own decoders). known is false when no codec of a mux of the
// given kind has that name.
func decodeBy(kind, ct string, payload []byte, m proto.Message) (codec string, known bool, err error) {
	switch markOf(kind, ct) {
	case altJSONMagic:
		return "marked-json", true, altJSONDecode(payload, m)
	case altProtoMagic:
		return "marked-proto", true, altProtoDecode(payload, m)
	}
	switch ct {
	case "application/json":
		return "json", true, protojson.Unmarshal(payload, m)
	case "application/protobuf", "application/octet-stream":
		return "protobuf", true, proto.Unmarshal(payload, m)
	case ctAltJSON:
		if kind == muxCustom {
			return "x-vf-json", true, altJSONDecode(payload, m)
		}
	case ctAltProto:
		if kind == muxCustom {
			return "x-vf-proto", true, altProtoDecode(payload, m)
		}
	}
	return "", false, nil
}

// ------------------------------------------------------------ rule catalogue

func vfRule(id, verb, tmpl, body string) RuleSpec {
	return RuleSpec{ID: id, In: "vf.Req", Out: "vf.Rsp", Verb: verb, Tmpl: tmpl, Body: body}
}

func cxRule(id, verb, tmpl, body string) RuleSpec {
	return RuleSpec{ID: id, In: "larking.testpb.ComplexRequest", Out: "vf.Rsp", Verb: verb, Tmpl: tmpl, Body: body}
}

func pbRule(svc, method, in, out, verb, tmpl, body string) RuleSpec {
	return RuleSpec{ID: "testpb:" + method + ":" + verb + " " + tmpl, Svc: "larking.testpb." + svc, Method: method,
		In: "larking.testpb." + in, Out: out, Verb: verb, Tmpl: tmpl, Body: body}
}

// requestRules is the catalogue used by C03 and C07: body "*", body field and
// no body; variables on top-level, nested and doubly nested fields, on fields
// with custom JSON names, typed variables, multi-segment patterns, a verb
// suffix, a oneof arm, well-known types; over the harness type vf.Req, over
// larking.testpb.ComplexRequest and the real larking.testpb annotations.
func requestRules() (dynamic []RuleSpec, real []RuleSpec) {
	dynamic = []RuleSpec{
		vfRule("vf:query-only", "GET", "/q0/all", ""),
		vfRule("vf:body-star", "POST", "/b0/all", "*"),
		vfRule("vf:body-sub", "POST", "/bs/all", "sub"),
		vfRule("vf:var-top", "GET", "/p1/{a}", ""),
		vfRule("vf:var-top-typed", "GET", "/p2/{a}/x/{n}", ""),
		vfRule("vf:var-nested", "GET", "/p3/{sub.a}", ""),
		vfRule("vf:var-deep", "GET", "/p4/{sub.deep.s}/k/{sub.deep.n}", ""),
		vfRule("vf:var-top+body-star", "POST", "/p5/{a}", "*"),
		vfRule("vf:var-nested+body-sub", "PATCH", "/p6/{sub.a}", "sub"),
		vfRule("vf:var-top-nested+body-sub", "PUT", "/p7/{a}/{sub.l}", "sub"),
		vfRule("vf:var-jsonname+post-nobody", "POST", "/p8/{long_name}/{odd_json}", ""),
		vfRule("vf:var-multiseg", "GET", "/p9/{a=shelves/*/books/*}", ""),
		vfRule("vf:var-nested-lit+verb", "GET", "/pa/{sub.a=items/*}:fetch", ""),
		vfRule("vf:var-starstar", "GET", "/pb/{a=**}", ""),
		vfRule("vf:var-enum-bool-double", "GET", "/pc/{e}/{f}/{dbl}", ""),
		vfRule("vf:var-ints", "GET", "/pd/{l}/{ul}/{u}/{sn}/{sl}", ""),
		vfRule("vf:var-bytes", "GET", "/pe/{y}", ""),
		vfRule("vf:var-oneof+body-star", "POST", "/pf/{os}", "*"),
		vfRule("vf:var-float-fixed", "GET", "/pg/{flt}/{f32}/{f64}/{sf32}/{sf64}", ""),
		vfRule("vf:var-two+delete", "DELETE", "/ph/{b}/{c}", ""),
		vfRule("vf:var-oneofmsg+body-osub", "POST", "/pi/{osub.a}", "osub"),
		vfRule("vf:var-wkt", "GET", "/pj/{ws}/{wl}/{dur}/{fm}", ""),
		vfRule("vf:var-deep+body-star", "PUT", "/pk/{sub.deep.s}/{sub.e}", "*"),
		cxRule("cx:query-only", "GET", "/cq/all", ""),
		cxRule("cx:body-star", "POST", "/cb/all", "*"),
		cxRule("cx:body-nested", "POST", "/cn/all", "nested"),
		cxRule("cx:var-top", "GET", "/cp/{string_value}/{int32_value}", ""),
		cxRule("cx:var-nested", "GET", "/cr/{nested.string_value}/{nested.enum_value}", ""),
		cxRule("cx:var-nested+body-nested", "PATCH", "/cs/{nested.int64_value}", "nested"),
		cxRule("cx:var-top+body-star", "POST", "/ct/{double_value}", "*"),
		cxRule("cx:var-oneof", "GET", "/cu/{oneof_string_value}", ""),
		cxRule("cx:var-sint-fixed", "GET", "/cv/{sint32_value}/{sint64_value}/{fixed64_value}/{sfixed32_value}", ""),
		// constant variables: a pattern without wildcard
		vfRule("vf:var-literal", "GET", "/pu/{a=fixed}", ""),
		vfRule("vf:var-literal-two-segments+body-sub", "POST", "/pv/{sub.a=one/two}", "sub"),
		vfRule("vf:var-literal-typed+body-star", "POST", "/pw/{f=true}/{e=RED}/{b=const}", "*"),
		cxRule("cx:var-literal-nested", "GET", "/cl/{nested.string_value=books}/{string_value}", ""),
		// rules delivered through ServiceConfigOption: on a route of their own,
		// and re-declaring the annotated route with another body mapping
		{ID: "vf:config-own-route", In: "vf.Req", Out: "vf.Rsp", Verb: "GET", Tmpl: "/k1/{a}/{sub.b}", Via: "config"},
		{ID: "vf:config-own-route+annotated-elsewhere", In: "vf.Req", Out: "vf.Rsp", Verb: "POST", Tmpl: "/k2/{a}", Body: "sub", Via: "config",
			Ann: &annSpec{Verb: "POST", Tmpl: "/k2ann/{b}", Body: "*"}},
		{ID: "vf:config-overrides-annotation-body", In: "vf.Req", Out: "vf.Rsp", Verb: "POST", Tmpl: "/k3/{a}", Body: "sub", Via: "config", Ann: &annSpec{Body: "*"}},
		{ID: "vf:config-overrides-annotation-nobody", In: "vf.Req", Out: "vf.Rsp", Verb: "PUT", Tmpl: "/k4/{sub.a}", Body: "", Via: "config", Ann: &annSpec{Body: "*"}},
		{ID: "cx:config-overrides-annotation-star", In: "larking.testpb.ComplexRequest", Out: "vf.Rsp", Verb: "PATCH", Tmpl: "/k5/{string_value}", Body: "*", Via: "config",
			Ann: &annSpec{Body: "nested"}},
		// additional bindings that differ from their primary rule in the body mapping
		{ID: "vf:additional-body-sub-under-star", In: "vf.Req", Out: "vf.Rsp", Verb: "POST", Tmpl: "/ab1/{a}", Body: "sub",
			Primary: &annSpec{Verb: "POST", Tmpl: "/ab1p/{a}", Body: "*"}},
		{ID: "vf:additional-nobody-under-star", In: "vf.Req", Out: "vf.Rsp", Verb: "PUT", Tmpl: "/ab2/{a}/{sub.b}", Body: "",
			Primary: &annSpec{Verb: "PUT", Tmpl: "/ab2p/{a}", Body: "*"}},
		{ID: "vf:primary-star-with-additionals", In: "vf.Req", Out: "vf.Rsp", Verb: "POST", Tmpl: "/ab3/{a}", Body: "*",
			Adds: []annSpec{{Verb: "POST", Tmpl: "/ab3x/{a}", Body: "sub"}, {Verb: "GET", Tmpl: "/ab3y/{a}"}}},
		// a message whose field names look like reserved words / system parameters
		{ID: "words:query-only", In: "vf.transcode.Words", Out: "vf.Rsp", Verb: "GET", Tmpl: "/rw/all"},
		{ID: "words:body-star", In: "vf.transcode.Words", Out: "vf.Rsp", Verb: "POST", Tmpl: "/rw/b", Body: "*"},
		{ID: "words:vars", In: "vf.transcode.Words", Out: "vf.Rsp", Verb: "GET", Tmpl: "/rw/v/{key}/{fields}/{alt}/{sub.id}"},
		{ID: "words:vars+body-sub", In: "vf.transcode.Words", Out: "vf.Rsp", Verb: "PUT", Tmpl: "/rw/s/{callback}/{pretty_print}", Body: "sub"},
		// variables bound to members of a oneof (typed, nested)
		vfRule("vf:var-oneof-typed+body-star", "POST", "/po/{on}", "*"),
		vfRule("vf:var-oneofmsg-nested", "GET", "/pn/{osub.deep.s}/{osub.l}", ""),
		cxRule("cx:var-oneof-nested+body-star", "POST", "/co/{oneof_nested.string_value}", "*"),
		cxRule("cx:var-oneof-nested-typed", "GET", "/cn/{oneof_nested.int32_value}/{oneof_nested.enum_value}", ""),
		cxRule("cx:var-oneof-typed+body-star", "PUT", "/cm/{oneof_int32_value}", "*"),
		cxRule("cx:var-oneof-bool", "GET", "/ck/{oneof_bool_value}", ""),
		// variables followed by a trailing ** (bare and as a variable)
		vfRule("vf:var-then-starstar", "GET", "/pz/{a}/tail/**", ""),
		vfRule("vf:vars-then-starstar+body-star", "POST", "/py/{a}/{n}/**", "*"),
		vfRule("vf:var-then-starstar-var", "GET", "/px/{b}/{c=**}", ""),
		// typed and bytes variables on rules that also map a body
		vfRule("vf:var-bytes+body-star", "POST", "/pm/{y}", "*"),
		vfRule("vf:var-scalars+body-star", "POST", "/pq/{n}/{l}/{u}/{f}/{e}/{dbl}", "*"),
		vfRule("vf:var-bytes+body-sub", "PUT", "/pr/{y}/{sub.n}", "sub"),
		cxRule("cx:var-bytes+body-star", "POST", "/cw/{bytes_value}", "*"),
		cxRule("cx:var-nested-bytes+body-nested", "PATCH", "/cx/{nested.bytes_value}", "nested"),
		cxRule("cx:var-nested-scalars+body-nested", "PATCH", "/cz/{nested.int32_value}/{nested.double_value}/{nested.bool_value}/{nested.enum_value}/{nested.uint64_value}", "nested"),
		cxRule("cx:var-floats-fixed+body-star", "PUT", "/cy/{float_value}/{fixed32_value}/{sfixed64_value}/{sint32_value}", "*"),
	}
	rsp := "larking.testpb."
	real = []RuleSpec{
		pbRule("Messaging", "GetMessageOne", "GetMessageRequestOne", rsp+"Message", "GET", "/v1/messages/{name=name/*}", ""),
		pbRule("Messaging", "GetMessageTwo", "GetMessageRequestTwo", rsp+"Message", "GET", "/v1/messages/{message_id}", ""),
		pbRule("Messaging", "GetMessageTwo", "GetMessageRequestTwo", rsp+"Message", "GET", "/v1/users/{user_id}/messages", ""),
		pbRule("Messaging", "GetMessageTwo", "GetMessageRequestTwo", rsp+"Message", "GET", "/v1/users/{user_id}/messages/{message_id}", ""),
		pbRule("Messaging", "UpdateMessage", "UpdateMessageRequestOne", rsp+"Message", "PATCH", "/v1/messages/{message_id}", "message"),
		pbRule("Messaging", "UpdateMessageBody", "Message", rsp+"Message", "PATCH", "/v1/messages/{message_id}/body", "*"),
		pbRule("Messaging", "Action", "Message", "google.protobuf.Empty", "POST", "/v1/{text=action}:cancel", "*"),
		pbRule("Messaging", "ActionSegment", "Message", "google.protobuf.Empty", "POST", "/v1/{text=*}:clear", "*"),
		pbRule("Messaging", "ActionResource", "Message", "google.protobuf.Empty", "GET", "/v1/{text=actions/*}:fetch", ""),
		pbRule("Messaging", "ActionSegments", "Message", "google.protobuf.Empty", "POST", "/v1/{text=**}:watch", "*"),
		pbRule("Messaging", "VariableOne", "Message", "google.protobuf.Empty", "GET", "/{text}/one", ""),
		pbRule("Messaging", "GetShelf", "GetShelfRequest", rsp+"Shelf", "GET", "/v1/{name=shelves/*}", ""),
		pbRule("Messaging", "GetBook", "GetBookRequest", rsp+"Book", "GET", "/v1/{name=shelves/*/books/*}", ""),
		pbRule("Messaging", "CreateBook", "CreateBookRequest", rsp+"Book", "POST", "/v1/{parent=shelves/*}/books", "book"),
		pbRule("Messaging", "UpdateBook", "UpdateBookRequest", rsp+"Book", "PATCH", "/v1/{book.name=shelves/*/books/*}", "book"),
		pbRule("WellKnown", "Check", "Scalars", "google.protobuf.Empty", "GET", "/v1/wellknown", ""),
		pbRule("Complex", "Check", "ComplexRequest", "google.protobuf.Empty", "GET", "/v1/complex", ""),
		pbRule("Complex", "Check", "ComplexRequest", "google.protobuf.Empty", "GET", "/v1/complex/{double_value}/star/*", ""),
		pbRule("Complex", "Check", "ComplexRequest", "google.protobuf.Empty", "GET", "/v1/complex/{double_value}/starstar/**", ""),
		// implicit bindings: any verb, /package.Service/Method, body "*"
		pbRule("Messaging", "GetMessageTwo", "GetMessageRequestTwo", rsp+"Message", "*", "/larking.testpb.Messaging/GetMessageTwo", "*"),
		pbRule("Messaging", "UpdateBook", "UpdateBookRequest", rsp+"Book", "*", "/larking.testpb.Messaging/UpdateBook", "*"),
		pbRule("Complex", "Check", "ComplexRequest", "google.protobuf.Empty", "*", "/larking.testpb.Complex/Check", "*"),
	}
	return dynamic, real
}
